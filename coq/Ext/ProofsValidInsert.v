(** C07: one [_insert] step of a merge keeps every key's value count right.
    The step is described abstractly by [step_facts]: [hs] is the header of the accumulating result
    before the step, [hs'] after it (the merge coordinate grows by one), [ho] the header of the input
    being inserted.  Ext/ProofsValidMerge.v instantiates it for [from_sequence]. *)
From Coq Require Import List Bool Arith Lia.
From DV Require Import Common.Res Common.Str Ext.Types Ext.Classes Ext.Seq Ext.Model Ext.Spec
     Ext.TableFacts Ext.ValidFacts Ext.ProofsValidBase Ext.ProofsValidSimplify.
Import ListNotations.
Local Open Scope nat_scope.

(** the four kinds of merge axis, in terms of (slices, time points, vector components) *)
Definition step_mode (hs hs' ho : hdr) (dim : nat) (nS nT nV : nat) : Prop :=
  (* the slice dimension *)
  (odim_is (sdim hs) dim = true /\ dims ho = (1, nT, nV) /\ dims hs' = (nS + 1, nT, nV) /\
   (forall c, class_ok (shape hs) c = class_ok (shape ho) c)) \/
  (* a spatial dimension that is not the slice dimension *)
  (odim_is (sdim hs) dim = false /\ dim < 3 /\ dims ho = (nS, nT, nV) /\ dims hs' = (nS, nT, nV) /\
   (forall c, class_ok (shape hs) c = class_ok (shape ho) c)) \/
  (* time *)
  (odim_is (sdim hs) dim = false /\ dim = 3 /\ dims ho = (nS, 1, nV) /\ dims hs' = (nS, nT + 1, nV) /\
   ((ndim hs = 5 /\ ndim ho = 5) \/ (ndim hs = 4 /\ nV = 1 /\ ndim ho <= 4))) \/
  (* vector *)
  (odim_is (sdim hs) dim = false /\ dim = 4 /\ dims ho = (nS, nT, 1) /\ dims hs' = (nS, nT, nV + 1) /\ ndim hs = 5).

Record step_facts (hs hs' ho : hdr) (dim : nat) : Prop := {
  sf_wf_s : shape_wf hs;
  sf_wf_s' : shape_wf hs';
  sf_wf_o : shape_wf ho;
  sf_sd_o : sdim ho = sdim hs;
  sf_sd' : sdim hs' = sdim hs;
  sf_sub : forall c, class_ok (shape ho) c = true -> class_ok (shape hs) c = true;
  sf_mono : forall c, class_ok (shape hs) c = true -> class_ok (shape hs') c = true;
  sf_mode : exists nS nT nV, dims hs = (nS, nT, nV) /\ step_mode hs hs' ho dim nS nT nV }.

Lemma mult_spec_mono (a b : pos) c :
  (let '(s1, t1, v1) := a in let '(s2, t2, v2) := b in s1 <= s2 /\ t1 <= t2 /\ v1 <= v2) ->
  mult_spec a c <= mult_spec b c.
Proof.
  destruct a as [[s1 t1] v1], b as [[s2 t2] v2]. intros [H1 [H2 H3]].
  destruct c; cbn [mult_spec]; try lia; try (apply Nat.mul_le_mono; try lia); try (apply Nat.mul_le_mono; lia).
Qed.

Section WithV.
  Context {V : Type} (veqb : V -> V -> bool) (vnone : V).

  Notation kst := (kst V).
  Notation kvalid := (@kvalid V).
  Notation knondeg := (@knondeg V).

  (** no varying class of multiplicity one, except possibly ('global','slices'), which the final
      simplification pass of [from_sequence] takes care of *)
  Definition knd (h : hdr) (s : kst) : Prop :=
    match s with
    | None => True
    | Some (c, _) => c <> GConst -> c <> GSlices -> mult_spec (dims h) c <> 1
    end.

  Lemma knondeg_knd h s : knondeg h s -> knd h s.
  Proof. destruct s as [[c vs]|]; cbn; auto. Qed.

  Section Step.
    Variables (hs hs' ho : hdr) (dim : nat).
    Hypothesis SF : step_facts hs hs' ho dim.

    Let Hwfs := sf_wf_s _ _ _ _ SF.
    Let Hwfs' := sf_wf_s' _ _ _ _ SF.
    Let Hwfo := sf_wf_o _ _ _ _ SF.

    Lemma sdarg_ok : sdim ho = None -> sdim hs = None.
    Proof. intros H. rewrite <- (sf_sd_o _ _ _ _ SF). exact H. Qed.

    (** coordinate-wise order of the three headers *)
    Lemma dims_order :
      (let '(s1, t1, v1) := dims ho in let '(s2, t2, v2) := dims hs in s1 <= s2 /\ t1 <= t2 /\ v1 <= v2) /\
      (let '(s1, t1, v1) := dims hs in let '(s2, t2, v2) := dims hs' in s1 <= s2 /\ t1 <= t2 /\ v1 <= v2).
    Proof.
      destruct (sf_mode _ _ _ _ SF) as [nS [nT [nV [Hd Hm]]]].
      pose proof (dims_pos hs Hwfs) as Hp. rewrite Hd in *. destruct Hp as [HS [HT HV]].
      destruct Hm as [[_ [Ho [Hs' _]]] | [[_ [_ [Ho [Hs' _]]]] | [[_ [_ [Ho [Hs' _]]]] | [_ [_ [Ho [Hs' _]]]]]]];
        rewrite Ho, Hs'; repeat split; lia.
    Qed.

    Lemma kvalid_next (s : kst) : kvalid hs s -> knd hs s ->
      (forall c vs, s = Some (c, vs) -> mult_spec (dims hs') c = mult_spec (dims hs) c) ->
      kvalid hs' s /\ knd hs' s.
    Proof.
      intros Hk Hn Hm. destruct s as [[c vs]|]; [|split; exact I].
      specialize (Hm c vs eq_refl). destruct Hk as [Hok [Hs Hl]]. split.
      - split; [apply (sf_mono _ _ _ _ SF); exact Hok|]. split; [rewrite (sf_sd' _ _ _ _ SF); exact Hs | rewrite Hm; exact Hl].
      - cbn [knd] in *. rewrite Hm. exact Hn.
    Qed.

    (** * reclassification *)
    Lemma reclassify_k_inv (oc : cls) (ks ks1 : kst) :
      kvalid hs ks -> knd hs ks ->
      class_ok (shape hs) oc = true -> (is_slices oc = true -> sdim hs <> None) ->
      (oc <> GConst -> mult_spec (dims hs) oc <> 1) ->
      reclassify_k vnone hs ks oc = Ok ks1 ->
      exists c1 vs1, ks1 = Some (c1, vs1) /\ kvalid hs ks1 /\ knd hs ks1 /\
                     (c1 = oc \/ In c1 (preserving_f (Some oc))).
    Proof.
      intros Hk Hn Hoc Hocs Hocm H. unfold reclassify_k in H.
      assert (Hvis : visible hs ks = ks).
      { destruct ks as [[c vs]|]; [apply visible_kvalid; exact Hk | reflexivity]. }
      rewrite Hvis in H.
      destruct (ocls_eqb (kst_class ks) (Some oc)) eqn:Esame.
      - injection H as <-. destruct ks as [[c vs]|]; cbn [kst_class ocls_eqb] in Esame; [|discriminate].
        apply cls_eqb_eq in Esame. subst c. exists oc, vs. split; [reflexivity|]. split; [exact Hk|]. split; [exact Hn|]. left; reflexivity.
      - rewrite !preserving_is in H.
        destruct (mem_cls oc (preserving_f (kst_class ks))) eqn:Emem.
        + destruct (change_class_k_valid vnone hs ks ks1 oc Hwfs Hk H) as [vs' [-> Hkv]].
          exists oc, vs'. split; [reflexivity|]. split; [apply Hkv; exact Hoc|]. split; [|left; reflexivity].
          intros Hc _. apply Hocm. exact Hc.
        + destruct ks as [[c vs]|]; cbn [kst_class] in *.
          2:{ exfalso. destruct oc; discriminate Emem. }
          destruct (mem_cls c (preserving_f (Some oc))) eqn:Emem2; cbn [negb] in H.
          * injection H as <-. exists c, vs. split; [reflexivity|]. split; [exact Hk|]. split; [exact Hn|].
            right. apply mem_cls_In. exact Emem2.
          * assert (Hfind : find (fun d => has_base hs (base_of d) && mem_cls d (preserving_f (Some oc)))
                                 (preserving_f (Some c)) = Some GSlices \/
                            find (fun d => has_base hs (base_of d) && mem_cls d (preserving_f (Some oc)))
                                 (preserving_f (Some c)) = None).
            { destruct c, oc; cbn in Esame, Emem, Emem2; try discriminate;
                cbn [preserving_f find mem_cls existsb cls_eqb orb base_of has_base];
                destruct (has_time hs), (has_vec hs); cbn [andb]; auto. }
            destruct Hfind as [Hf|Hf]; rewrite Hf in H; [|discriminate].
            destruct (change_class_k_valid vnone hs _ ks1 GSlices Hwfs Hk H) as [vs' [-> Hkv]].
            exists GSlices, vs'. split; [reflexivity|].
            split; [apply Hkv; apply class_ok_global; [apply Hwfs | reflexivity]|].
            split; [intros _ Hx; contradiction|].
            right. destruct c, oc; cbn in Esame, Emem, Emem2; try discriminate; cbn [preserving_f In]; auto.
    Qed.

    (** the value count of the other input's values, widened to class [new] *)
    Lemma other_len (ko : kst) new r :
      kvalid ho ko -> changed_class vnone ho ko new (sdim hs) = Ok r ->
      class_ok (shape ho) new = true ->
      length r = mult_spec (dims ho) new /\ (is_slices new = true -> sdim hs <> None).
    Proof.
      intros Hk H Hok.
      destruct (changed_class_len vnone ho ko new (sdim hs) r Hwfo Hk sdarg_ok H) as [H1 _].
      destruct (H1 Hok) as [Hl Hs]. split; [exact Hl|]. rewrite <- (sf_sd_o _ _ _ _ SF). exact Hs.
    Qed.

    Lemma to_global_slices_len (ks1 ko : kst) c1 lv ov lo :
      ks1 = Some (c1, lv) -> kvalid hs ks1 -> kvalid ho ko ->
      (c1 = GSlices -> length ov = mult_spec (dims ho) GSlices) ->
      to_global_slices vnone hs ho ks1 ko c1 lv ov = Ok lo ->
      length (fst lo) = mult_spec (dims hs) GSlices /\ length (snd lo) = mult_spec (dims ho) GSlices /\
      sdim hs <> None.
    Proof.
      intros -> Hk Hko Hov H. unfold to_global_slices in H.
      destruct (cls_eqb_spec c1 GSlices) as [->|Hne].
      - injection H as <-. cbn [fst snd]. destruct Hk as [_ [Hs Hl]]. repeat split; auto.
      - apply bind_ok in H as [ks2 [Hks2 H]].
        destruct (change_class_k_valid vnone hs _ ks2 GSlices Hwfs Hk Hks2) as [vs' [-> Hkv]].
        assert (Hg : class_ok (shape hs) GSlices = true) by (apply class_ok_global; [apply Hwfs | reflexivity]).
        specialize (Hkv Hg). rewrite (visible_kvalid _ _ _ Hkv) in H.
        apply bind_ok in H as [ov2 [Hov2 H]]. injection H as <-. cbn [fst snd].
        assert (Hgo : class_ok (shape ho) GSlices = true) by (apply class_ok_global; [apply Hwfo | reflexivity]).
        destruct (other_len ko GSlices ov2 Hko Hov2 Hgo) as [Hl Hs].
        destruct Hkv as [_ [_ Hl2]]. repeat split; auto.
    Qed.

    (** * along the slice dimension *)
    Lemma insert_slice_k_inv nS nT nV (ks1 ko : kst) c1 lv r :
      dims hs = (nS, nT, nV) ->
      odim_is (sdim hs) dim = true -> dims ho = (1, nT, nV) -> dims hs' = (nS + 1, nT, nV) ->
      (forall c, class_ok (shape hs) c = class_ok (shape ho) c) ->
      ks1 = Some (c1, lv) -> kvalid hs ks1 -> knd hs ks1 -> kvalid ho ko ->
      insert_slice_k veqb vnone hs ho ks1 ko = Ok r -> kvalid hs' r /\ knd hs' r.
    Proof.
      intros Hd Hod Hdo Hd' Hcls -> Hk Hn Hko H.
      pose proof (dims_pos hs Hwfs) as Hp. rewrite Hd in Hp. destruct Hp as [HS [HT HV]].
      assert (Hsd : exists d, sdim hs = Some d).
      { unfold odim_is in Hod. destruct (sdim hs); [eauto | discriminate]. }
      destruct Hsd as [sd Hsd].
      assert (Hsd'' : sdim hs' <> None) by (rewrite (sf_sd' _ _ _ _ SF), Hsd; discriminate).
      unfold insert_slice_k in H. rewrite (visible_kvalid _ _ _ Hk) in H.
      apply bind_ok in H as [ov [Hov H]].
      pose proof Hk as [Hok1 [Hs1 Hl1]]. rewrite Hd in Hl1.
      assert (Hoko : class_ok (shape ho) c1 = true) by (rewrite <- Hcls; exact Hok1).
      destruct (other_len ko c1 ov Hko Hov Hoko) as [Hlov _]. rewrite Hdo in Hlov.
      assert (Hgen : forall lo, to_global_slices vnone hs ho (Some (c1, lv)) ko c1 lv ov = Ok lo ->
                match n_slices hs, n_slices ho with
                | Some n, Some m => Ok (Some (GSlices, interleave n m (prod_list (skipn 3 (shape hs))) (fst lo) (snd lo)))
                | _, _ => Err EType
                end = Ok r -> kvalid hs' r /\ knd hs' r).
      { intros lo Hlo Hr.
        destruct (to_global_slices_len _ ko c1 lv ov lo eq_refl Hk Hko) as [Hl1' [Hl2' _]]; [intros Hc1; rewrite Hdo, <- Hc1; exact Hlov | exact Hlo |].
        rewrite Hd in Hl1'. rewrite Hdo in Hl2'. cbn [mult_spec] in Hl1', Hl2'.
        rewrite (n_slices_dims hs sd Hwfs Hsd), Hd in Hr. cbn [fst] in Hr.
        rewrite (n_slices_dims ho sd Hwfo) in Hr by (rewrite (sf_sd_o _ _ _ _ SF); exact Hsd).
        rewrite Hdo in Hr. cbn [fst] in Hr. rewrite (prod_skip3_dims hs Hwfs), Hd in Hr. cbn [fst snd] in Hr.
        injection Hr as <-. split; [|intros _ Hx; contradiction].
        split; [apply class_ok_global; [apply Hwfs' | reflexivity]|]. split; [intros _; exact Hsd''|].
        rewrite Hd'. cbn [mult_spec]. rewrite interleave_len; nia. }
      destruct c1.
      - (* GConst *)
        destruct (negb (list_eqb veqb lv ov)).
        + rewrite insert_slice_bases_is in H.
          assert (Hb : exists b, find (has_base hs) [BTime; BVector; BGlobal] = Some b).
          { cbn [find has_base]. destruct (has_time hs); [eauto|]. destruct (has_vec hs); eauto. }
          destruct Hb as [b Hb]. rewrite Hb in H.
          apply bind_ok in H as [ks2 [Hks2 H]]. apply bind_ok in H as [ov2 [Hov2 H]].
          destruct (change_class_k_valid vnone hs _ ks2 (slices_of_base b) Hwfs Hk Hks2) as [lv2 [-> Hkv2]].
          destruct (visible hs (Some (slices_of_base b, lv2))) as [[c2 lv2']|] eqn:Evis; [|discriminate].
          apply visible_some in Evis as [Heq Hokb]. injection Heq as <- <-. injection H as <-.
          specialize (Hkv2 Hokb). destruct Hkv2 as [_ [_ Hl2]]. rewrite Hd in Hl2.
          assert (Hokbo : class_ok (shape ho) (slices_of_base b) = true) by (rewrite <- Hcls; exact Hokb).
          destruct (other_len ko _ ov2 Hko Hov2 Hokbo) as [Hlov2 _]. rewrite Hdo in Hlov2.
          split.
          * split; [apply (sf_mono _ _ _ _ SF); exact Hokb|]. split; [intros _; exact Hsd''|].
            rewrite app_length, Hl2, Hlov2, Hd'. destruct b; cbn [slices_of_base mult_spec]; nia.
          * cbn [knd]. intros _ _. rewrite Hd'. destruct b; cbn [slices_of_base mult_spec]; nia.
        + injection H as <-. apply kvalid_next; [exact Hk | exact Hn|].
          intros c vs Heq. injection Heq as <- <-. destruct (dims hs') as [[? ?] ?], (dims hs) as [[? ?] ?]. reflexivity.
      - apply bind_ok in H as [lo [Hlo H]]. apply (Hgen lo Hlo H).
      - apply bind_ok in H as [lo [Hlo H]]. apply (Hgen lo Hlo H).
      - (* TSlices *)
        injection H as <-. cbn [mult_spec] in *. split.
        + split; [apply (sf_mono _ _ _ _ SF); exact Hok1|]. split; [intros _; exact Hsd''|].
          rewrite app_length, Hl1, Hlov, Hd'. cbn [mult_spec]. lia.
        + cbn [knd]. intros _ _. rewrite Hd'. cbn [mult_spec]. lia.
      - apply bind_ok in H as [lo [Hlo H]]. apply (Hgen lo Hlo H).
      - apply bind_ok in H as [lo [Hlo H]]. apply (Hgen lo Hlo H).
    Qed.

    (** * along a spatial dimension that is not the slice dimension *)
    Lemma insert_non_slice_k_inv (ks1 ko : kst) r :
      dims hs' = dims hs ->
      kvalid hs ks1 -> knd hs ks1 ->
      insert_non_slice_k veqb vnone hs ho ks1 ko = Ok r -> kvalid hs' r /\ knd hs' r.
    Proof.
      intros Hd' Hk Hn H. unfold insert_non_slice_k in H.
      destruct (visible hs ks1) as [[c lv]|]; [|discriminate].
      apply bind_ok in H as [ov [_ H]].
      destruct (list_eqb veqb lv ov); injection H as <-; [|split; exact I].
      apply kvalid_next; [exact Hk | exact Hn|]. intros c0 vs0 _. rewrite Hd'. reflexivity.
    Qed.

  End Step.
End WithV.
