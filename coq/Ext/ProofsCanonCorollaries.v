(** C06, part 5: the headline corollary in terms of the SOURCES (C03's denotation of a merge + C06's canonicity):
    a value that is identical, and not None, in every source file at every position is a global constant of the
    merged extension, readable without an index. *)
From Coq Require Import List Bool Arith QArith Lia.
From DV Require Import Common.Res Common.Str Ext.Types Ext.Classes Ext.Seq Ext.Model Ext.Spec
     Ext.ProofsCanonSubset Ext.ProofsMergeDen Ext.ProofsMergeFrame Ext.ProofsMergeKey Ext.ProofsMerge Ext.ProofsCanonMerge.
Import ListNotations.
Local Open Scope nat_scope.

Section WithV.
  Context {V : Type} (veqb : V -> V -> bool) (vnone : V).
  Hypothesis veqb_spec : forall a b, reflect (a = b) (veqb a b).

  Lemma nth_in_or_default (es : list (ext V)) e0 i : In e0 es -> In (nth i es e0) es.
  Proof.
    intros H0. destruct (Nat.lt_ge_cases i (length es)) as [Hi|Hi]; [apply nth_In; exact Hi|].
    rewrite nth_overflow by exact Hi. exact H0.
  Qed.

  Lemma set_coord_0_in ax (d p : pos) N :
    coord ax d = 1 -> in_dims (set_coord ax d N) p -> in_dims d (set_coord ax p 0).
  Proof.
    destruct d as [[a b] c], p as [[s t] v]. destruct ax; cbn [coord set_coord in_dims]; intros -> H; lia.
  Qed.

  Theorem merge_const_readable es e0 dim a sd ax r k v :
    inputs_ok es e0 sd -> (forall x, In x es -> nondegenerate x) ->
    axis_of (out_sdim sd e0) dim = Some ax -> (3 <= dim -> out_sdim sd e0 <> None) ->
    from_sequence veqb vnone es dim a sd = Ok r -> trailing1b (shape (hdr_of r)) = false ->
    v <> vnone ->
    (forall x q, In x es -> in_dims (dims (hdr_of x)) q -> den_in vnone (hdr_of r) x k q = v) ->
    lookup_e r k = Some (GConst, [v]) /\ getitem r k = Ok v.
  Proof.
    intros Hin Hnd Hax Hn3 H Htr Hv Hall. pose proof Hin as [Hhd [Hlen Hxs]].
    destruct es as [|e0' rest]; [discriminate|]. cbn [hd_error] in Hhd. injection Hhd as ->.
    assert (H1 : 1 <= length rest) by (cbn [length] in Hlen; lia).
    assert (H2 : forall e, In e (e0 :: rest) -> valid e /\ nondegenerate e /\ shape (hdr_of e) = shape (hdr_of e0) /\
                                                sdim (hdr_of e) = sdim_res e0 sd).
    { intros e He. destruct (Hxs e He) as [Hv' [Hsh Hsd]].
      split; [exact Hv'|]. split; [apply Hnd; exact He|]. split; [exact Hsh | exact Hsd]. }
    pose proof (merge_canonical_axis veqb vnone veqb_spec (e0 :: rest) e0 rest dim a sd ax r eq_refl H1 H2 Hax Hn3 H) as Hcan.
    destruct (merge_den veqb vnone veqb_spec (e0 :: rest) e0 dim a sd r ax Hin H Hax Hn3 Htr) as [_ [_ [_ [_ Hden]]]].
    assert (Hv0 : valid e0) by (apply H2; left; reflexivity).
    destruct (from_sequence_keys veqb vnone (e0 :: rest) e0 rest dim a sd r eq_refl H1 Hv0 H)
      as [hfull [ents [Er [F [_ [Hsd _]]]]]].
    change (out_sdim sd e0) with (sdim_res e0 sd) in Hax, Hn3. rewrite <- Hsd in Hax, Hn3.
    destruct (frame_dims hfull _ dim _ ax F Hax Hn3) as [Hc1 [Hdin Hdm]].
    assert (Hdr : dims (hdr_of r) = set_coord ax (ProofsMergeKey.d_in hfull (shape (hdr_of e0))) (S (length rest))).
    { rewrite Er. cbn [hdr_of]. rewrite <- (Hdm (S (length rest))) by lia. rewrite (with_dim_full hfull _ dim _ F). reflexivity. }
    apply (const_readable vnone r k v Hcan Hv).
    intros p Hp. rewrite (Hden k p Hp).
    assert (Hx : In (nth (coord ax p) (e0 :: rest) e0) (e0 :: rest)) by (apply nth_in_or_default; left; reflexivity).
    apply Hall; [exact Hx|].
    destruct (H2 _ Hx) as [_ [_ [Hsh Hsx]]].
    rewrite (Hdin (hdr_of (nth (coord ax p) (e0 :: rest) e0))) by (split; [exact Hsh | rewrite Hsx, Hsd; reflexivity]).
    apply (set_coord_0_in ax _ p (S (length rest)) Hc1). rewrite <- Hdr. exact Hp.
  Qed.
End WithV.
