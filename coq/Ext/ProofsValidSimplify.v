(** C07 groundwork: the class tables in function form, [make_empty_hdr], and the value-count
    behaviour of [_simplify], [_get_changed_class], [_change_class]. *)
From Coq Require Import List Bool Arith Lia.
From DV Require Import Common.Res Common.Str Ext.Types Ext.Classes Ext.Seq Ext.Model Ext.Spec
     Ext.TableFacts Ext.ValidFacts Ext.ProofsValidBase.
Import ListNotations.
Local Open Scope nat_scope.

(** * The tables as functions (re-checked by computation whenever the tables are regenerated) *)

Definition const_dests_f (c : cls) : option (list cls) :=
  match c with
  | GConst => None
  | GSlices => Some [GConst; VSamples; TSamples]
  | TSamples => Some [GConst; VSamples]
  | TSlices => Some [GConst]
  | VSamples => Some [GConst]
  | VSlices => Some [GConst; TSamples]
  end.
Lemma const_dests_is c : const_dests c = const_dests_f c.
Proof. destruct c; vm_compute; reflexivity. Qed.

Definition repeat_dests_f (c : cls) : option (list cls) :=
  match c with
  | GSlices => Some [TSlices; VSlices]
  | VSlices => Some [TSlices]
  | _ => None
  end.
Lemma repeat_dests_is c : repeat_dests c = repeat_dests_f c.
Proof. destruct c; vm_compute; reflexivity. Qed.

Definition preserving_f (c : option cls) : list cls :=
  match c with
  | None => [GConst; VSamples; TSamples; TSlices; VSlices; GSlices]
  | Some GConst => [VSamples; TSamples; TSlices; VSlices; GSlices]
  | Some GSlices => []
  | Some TSamples => [GSlices]
  | Some TSlices => [VSlices; GSlices]
  | Some VSamples => [TSamples; GSlices]
  | Some VSlices => [GSlices]
  end.
Lemma preserving_is c : preserving c = Some (preserving_f c).
Proof. destruct c as [[]|]; vm_compute; reflexivity. Qed.

Lemma copy_slice_global_is : copy_slice_global_dests_c = [TSamples; VSamples; GConst].
Proof. vm_compute; reflexivity. Qed.
Lemma copy_slice_vector_is : copy_slice_vector_dests_c = [TSamples; GConst].
Proof. vm_compute; reflexivity. Qed.
Lemma copy_sample_is : copy_sample_dests_c = [VSamples; GConst].
Proof. vm_compute; reflexivity. Qed.
Lemma insert_slice_bases_is : insert_slice_bases_c = [BTime; BVector; BGlobal].
Proof. vm_compute; reflexivity. Qed.

(** * Headers made by [make_empty] *)

(** the base dictionaries that exist are exactly those of the admitted classes *)
Definition flags_tight (h : hdr) : Prop :=
  forall c, has_base h (base_of c) = class_ok (shape h) c.

Lemma make_empty_hdr_ok sh a sd h :
  make_empty_hdr sh a sd = Ok h ->
  shape h = sh /\ sdim h = sd /\ aff h = a /\
  3 <= length sh <= 5 /\ (forall d, sd = Some d -> d < 3) /\
  (length a = 4 /\ Forall (fun r => length r = 4) a) /\ flags_tight h.
Proof.
  unfold make_empty_hdr. intros H.
  destruct ((3 <=? length sh) && (length sh <? 6)) eqn:E1; cbn [negb] in H; [|discriminate].
  destruct ((length a =? 4) && forallb (fun r => length r =? 4) a) eqn:E2; cbn [negb] in H; [|discriminate].
  destruct (match sd with None => true | Some d => d <? 3 end) eqn:E3; cbn [negb] in H; [|discriminate].
  injection H as <-. cbn [shape sdim aff].
  apply andb_true_iff in E1 as [E1a E1b]. apply Nat.leb_le in E1a. apply Nat.ltb_lt in E1b.
  apply andb_true_iff in E2 as [E2a E2b]. apply Nat.eqb_eq in E2a.
  repeat split; try lia.
  - intros d ->. apply Nat.ltb_lt. exact E3.
  - apply Forall_forall. intros r Hr. rewrite forallb_forall in E2b. apply Nat.eqb_eq. auto.
  - intros c. unfold class_ok, has_base. cbn [shape has_time has_vec].
    destruct (length sh) as [|[|[|[|[|[|n]]]]]]; try lia; destruct c; cbn [base_of]; reflexivity.
Qed.

Lemma make_empty_hdr_wf sh a sd h :
  make_empty_hdr sh a sd = Ok h -> Forall (fun n => 1 <= n) sh -> hdr_wf h.
Proof.
  intros H Hp. apply make_empty_hdr_ok in H as [Hs [Hd [Ha [Hn [Hsd [Haff Hf]]]]]].
  unfold hdr_wf, ndim. rewrite Hs, Hd, Ha. repeat split; try lia; try apply Haff; try assumption.
  intros c Hc. rewrite Hf, Hs. exact Hc.
Qed.

Lemma make_empty_hdr_total sh a sd :
  3 <= length sh <= 5 -> (length a = 4 /\ Forall (fun r => length r = 4) a) ->
  (forall d, sd = Some d -> d < 3) -> exists h, make_empty_hdr sh a sd = Ok h.
Proof.
  intros Hn [Ha Hr] Hsd. unfold make_empty_hdr.
  assert (E1 : (3 <=? length sh) && (length sh <? 6) = true).
  { apply andb_true_iff. split; [apply Nat.leb_le | apply Nat.ltb_lt]; lia. }
  assert (E2 : (length a =? 4) && forallb (fun r => length r =? 4) a = true).
  { apply andb_true_iff. split; [apply Nat.eqb_eq; exact Ha|]. apply forallb_forall. intros r Hin.
    rewrite Forall_forall in Hr. apply Nat.eqb_eq. auto. }
  assert (E3 : match sd with None => true | Some d => d <? 3 end = true).
  { destruct sd as [d|]; [apply Nat.ltb_lt; auto | reflexivity]. }
  rewrite E1, E2, E3. cbn [negb]. eexists. reflexivity.
Qed.

Lemma div_mul_exact a q : a <> 0 -> a * ((a * q) / a) = a * q.
Proof. intros Ha. rewrite (Nat.mul_comm a q), Nat.div_mul by exact Ha. apply Nat.mul_comm. Qed.

Lemma Ok_inj {A} (a b : A) : Ok a = Ok b -> a = b.
Proof. intros H; injection H as ->; reflexivity. Qed.
Ltac okinj H := apply Ok_inj in H; first [subst | idtac].

Section WithV.
  Context {V : Type} (veqb : V -> V -> bool) (vnone : V).
  Hypothesis veqb_refl : forall v, veqb v v = true.

  Notation kst := (kst V).
  Notation kvalid := (@kvalid V).
  Notation knondeg := (@knondeg V).

  Lemma visible_kvalid h (c : cls) (vs : list V) :
    kvalid h (Some (c, vs)) -> visible h (Some (c, vs)) = Some (c, vs).
  Proof. intros [Hok _]. unfold visible. rewrite class_valid_ok, Hok. reflexivity. Qed.

  Lemma visible_cases h (s : kst) : visible h s = s \/ visible h s = None.
  Proof. destruct s as [[c vs]|]; cbn [visible]; [destruct (class_valid h c)|]; auto. Qed.

  Lemma visible_some h (s : kst) c vs :
    visible h s = Some (c, vs) -> s = Some (c, vs) /\ class_ok (shape h) c = true.
  Proof.
    destruct s as [[c' vs']|]; cbn [visible]; [|discriminate].
    destruct (class_valid h c') eqn:E; [|discriminate]. intros H; injection H as -> ->.
    rewrite class_valid_ok in E. split; [reflexivity | exact E].
  Qed.

  Lemma all_eq_first_single (v : V) : all_eq_first veqb [v] = true.
  Proof. cbn [all_eq_first forallb]. rewrite veqb_refl. reflexivity. Qed.

  (** * [_simplify] *)

  (** one constancy test: when it applies, the shortened list has exactly the count of the destination *)
  Lemma const_step h c vs d period :
    shape_wf h -> kvalid h (Some (c, vs)) -> class_ok (shape h) d = true ->
    (exists l, const_dests_f c = Some l /\ In d l) ->
    (c = VSlices -> d = TSamples -> snd (dims h) = 1) ->
    const_period h c d = Ok period ->
    match period with
    | None => d = GConst
    | Some p => 1 <= p /\ length vs = mult_spec (dims h) d * p
    end.
  Proof.
    intros Hwf [Hokc [Hsl Hlen]] Hokd [l [Hl Hin]] Hvs Hp.
    pose proof (dims_pos h Hwf) as Hpos. destruct (dims h) as [[nS nT] nV] eqn:Ed.
    destruct Hpos as [HS [HT HV]].
    destruct c; cbn [const_dests_f] in Hl; try discriminate; injection Hl as <-; cbn [In] in Hin;
      repeat (destruct Hin as [<-|Hin]; [|]); try contradiction; cbn [const_period] in Hp;
      try (injection Hp as <-; reflexivity).
    - (* GSlices -> VSamples *)
      rewrite (multiplicity_wf h GSlices Hwf Hokc Hsl) in Hp. rewrite (multiplicity_wf h VSamples Hwf Hokd) in Hp by discriminate.
      rewrite Ed in Hp. cbn [mult_spec bind] in Hp.
      destruct (nV =? 0) eqn:E0; [apply Nat.eqb_eq in E0; lia|]. injection Hp as <-.
      rewrite Hlen. cbn [mult_spec]. rewrite Nat.div_mul by lia. split; nia.
    - (* GSlices -> TSamples *)
      rewrite (multiplicity_wf h GSlices Hwf Hokc Hsl) in Hp. rewrite (multiplicity_wf h TSamples Hwf Hokd) in Hp by discriminate.
      rewrite Ed in Hp. cbn [mult_spec bind] in Hp.
      destruct (nT * nV =? 0) eqn:E0; [apply Nat.eqb_eq in E0; nia|]. injection Hp as <-.
      rewrite Hlen. cbn [mult_spec]. replace (nS * nT * nV) with (nS * (nT * nV)) by ring.
      rewrite Nat.div_mul by nia. split; nia.
    - (* TSamples -> VSamples *)
      assert (Hn5 : ndim h = 5).
      { rewrite (class_ok_ndim h VSamples Hwf) in Hokd. cbn [base_of] in Hokd. apply Nat.eqb_eq. exact Hokd. }
      destruct (ndim5_dims h Hwf Hn5) as [_ [H3 _]]. rewrite H3, Ed in Hp. cbn [fst snd] in Hp.
      injection Hp as <-. rewrite Hlen. cbn [mult_spec]. split; nia.
    - (* VSlices -> TSamples *)
      destruct (sdim h) as [sd|] eqn:Esd; [|exfalso; apply (Hsl eq_refl); reflexivity].
      rewrite (n_slices_dims h sd Hwf Esd), Ed in Hp. cbn [fst] in Hp. injection Hp as <-.
      specialize (Hvs eq_refl eq_refl). cbn [snd] in Hvs. subst nV.
      rewrite Hlen. cbn [mult_spec]. split; nia.
  Qed.

  Definition simp_dom (h : hdr) (c : cls) : Prop :=
    c = VSlices -> class_ok (shape h) TSamples = true -> snd (dims h) = 1.

  Lemma simplify_const_valid h c vs :
    shape_wf h -> flags_tight h -> kvalid h (Some (c, vs)) -> simp_dom h c ->
    all_eq_first veqb vs = false ->
    forall dests d' vs', (exists l, const_dests_f c = Some l /\ incl dests l) -> ~ In GConst dests ->
      simplify_const veqb h c vs dests = Ok (Some (d', vs')) ->
      kvalid h (Some (d', vs')) /\ mult_spec (dims h) d' <> 1.
  Proof.
    intros Hwf Hfl Hkv Hdom Hne. induction dests as [|d ds IH]; intros d' vs' [l [Hl Hincl]] Hng H;
      cbn [simplify_const] in H; [discriminate|].
    assert (Hrest : (exists l0, const_dests_f c = Some l0 /\ incl ds l0) /\ ~ In GConst ds).
    { split; [exists l; split; [exact Hl | intros x Hx; apply Hincl; right; exact Hx] | intros Hx; apply Hng; right; exact Hx]. }
    destruct (has_base h (base_of d)) eqn:Hb; [|apply (IH _ _ (proj1 Hrest) (proj2 Hrest) H)].
    rewrite Hfl in Hb.
    apply bind_ok in H as [period [Hp H]]. apply bind_ok in H as [isc [Hisc H]].
    destruct isc; [|apply (IH _ _ (proj1 Hrest) (proj2 Hrest) H)].
    assert (Hd : d <> GConst) by (intros ->; apply Hng; left; reflexivity).
    assert (Hstep := const_step h c vs d period Hwf Hkv Hb
                       (ex_intro _ l (conj Hl (Hincl d (or_introl eq_refl))))).
    assert (Hvs : c = VSlices -> d = TSamples -> snd (dims h) = 1).
    { intros Hc Hd'. subst d. apply Hdom; [exact Hc | exact Hb]. }
    specialize (Hstep Hvs Hp).
    destruct period as [p|]; [|contradiction].
    destruct Hstep as [Hp1 Hlen]. injection H as <- <-.
    assert (Hlen' : length (every_nth 0 p vs) = mult_spec (dims h) d).
    { apply every_nth_len; [exact Hp1 | lia | exact Hlen]. }
    split.
    - split; [exact Hb|]. split; [|exact Hlen'].
      intros Hs. destruct d; try discriminate Hs.
      all: exfalso; destruct c; cbn [const_dests_f] in Hl; try discriminate; injection Hl as <-;
        pose proof (Hincl _ (or_introl eq_refl)) as Hx; cbn [In] in Hx; intuition discriminate.
    - intros Hm1. rewrite Hm1 in Hlen.
      (* period = whole length: the test is the global constancy test, which had failed *)
      destruct (Nat.eq_dec p 1) as [->|Hp2].
      + assert (Hl1 : length vs = 1) by lia.
        destruct vs as [|v [|w r]]; cbn [length] in Hl1; try lia.
        rewrite all_eq_first_single in Hne. discriminate.
      + destruct p as [|[|p]]; try lia. cbn [is_constant] in Hisc.
        replace (S (S p) <=? 1) with false in Hisc by (symmetry; apply Nat.leb_gt; lia).
        rewrite Hlen, Nat.mul_1_l, Nat.mod_same in Hisc by lia. cbn [Nat.eqb negb] in Hisc.
        rewrite Nat.div_same in Hisc by lia. rewrite chunks_one in Hisc. cbn [forallb] in Hisc.
        rewrite firstn_all2 in Hisc by lia. rewrite Hne in Hisc. discriminate.
  Qed.

  Lemma simplify_repeat_valid h vs :
    shape_wf h -> flags_tight h -> sdim h <> None ->
    forall dests d' vs', (forall d, In d dests -> is_slices d = true) ->
      simplify_repeat veqb h vs dests = Ok (Some (d', vs')) ->
      kvalid h (Some (d', vs')) /\ mult_spec (dims h) d' <> 1.
  Proof.
    intros Hwf Hfl Hsd. induction dests as [|d ds IH]; intros d' vs' Hsl H; cbn [simplify_repeat] in H; [discriminate|].
    assert (Hrest : forall d0, In d0 ds -> is_slices d0 = true) by (intros d0 H0; apply Hsl; right; exact H0).
    destruct (has_base h (base_of d)) eqn:Hb; [|apply (IH _ _ Hrest H)].
    rewrite Hfl in Hb.
    apply bind_ok in H as [dm [Hdm H]]. apply bind_ok in H as [rep [Hrep H]].
    destruct rep; [|apply (IH _ _ Hrest H)]. injection H as <- <-.
    rewrite (multiplicity_wf h d Hwf Hb (fun _ => Hsd)) in Hdm.
    assert (Em : mult_spec (dims h) d = dm) by congruence. clear Hdm. rename dm into m.
    rewrite Em. unfold is_repeating in Hrep.
    destruct ((m <=? 1) || (length vs <=? m)) eqn:E; [discriminate|].
    apply orb_false_iff in E as [E1 E2]. apply Nat.leb_gt in E1. apply Nat.leb_gt in E2.
    split; [|lia]. split; [exact Hb|]. split; [intros _; exact Hsd|].
    rewrite firstn_length. lia.
  Qed.

  (** [_simplify] keeps the value count right and never leaves a varying class of multiplicity one *)
  Lemma simplify_k_valid h (s r : kst) :
    shape_wf h -> flags_tight h -> kvalid h s ->
    (forall c vs, s = Some (c, vs) -> simp_dom h c) ->
    simplify_k veqb vnone h s = Ok r -> kvalid h r /\ knondeg h r.
  Proof.
    intros Hwf Hfl Hkv Hdom H. destruct s as [[c vs]|]; [|discriminate H].
    unfold simplify_k in H. rewrite (visible_kvalid _ _ _ Hkv) in H.
    specialize (Hdom c vs eq_refl).
    destruct (cls_eqb_spec c GConst) as [->|Hc].
    - assert (Hr : r = None \/ r = Some (GConst, vs)).
      { destruct vs as [|v [|w l]]; [right | | right]; try (injection H as <-; reflexivity).
        destruct (veqb v vnone); injection H as <-; [left | right]; reflexivity. }
      destruct Hr as [-> | ->]; [split; exact I | split; [exact Hkv | intros Hx; contradiction]].
    - assert (H' : match const_dests c with
                   | None => Err EKey
                   | Some dests =>
                       bind (simplify_const veqb h c vs dests) (fun r0 =>
                       match r0 with
                       | Some x => Ok (Some x)
                       | None => match repeat_dests c with
                                 | None => Ok (Some (c, vs))
                                 | Some rd => bind (simplify_repeat veqb h vs rd) (fun r2 =>
                                              match r2 with Some x => Ok (Some x) | None => Ok (Some (c, vs)) end)
                                 end
                       end)
                   end = Ok r) by (destruct c; try contradiction; exact H).
      clear H. rewrite const_dests_is in H'.
      assert (Hhd : exists rest, const_dests_f c = Some (GConst :: rest) /\ ~ In GConst rest).
      { destruct c; try contradiction; cbn [const_dests_f]; eexists; (split; [reflexivity|]); cbn [In]; intuition discriminate. }
      destruct Hhd as [rest [Hcd Hng]]. rewrite Hcd in H'.
      cbn [simplify_const has_base base_of const_period bind is_constant] in H'.
      destruct (all_eq_first veqb vs) eqn:Eall.
      + (* constant: goes to ('global','const') *)
        destruct vs as [|v l]; cbn [hd_res bind] in H'; [discriminate|]. injection H' as <-.
        split; [|intros Hx; contradiction].
        destruct Hwf as [Hn _]. split; [apply class_ok_global; [exact Hn | reflexivity]|].
        split; [discriminate | reflexivity].
      + apply bind_ok in H' as [r0 [Hr0 H']].
        assert (Hself : kvalid h (Some (c, vs)) /\ knondeg h (Some (c, vs))).
        { split; [exact Hkv|]. intros _ Hm1. destruct Hkv as [_ [_ Hl]]. rewrite Hm1 in Hl.
          destruct vs as [|v [|w l]]; cbn [length] in Hl; try lia.
          rewrite all_eq_first_single in Eall. discriminate. }
        destruct r0 as [[d' vs']|].
        * injection H' as <-.
          destruct (simplify_const_valid h c vs Hwf Hfl Hkv Hdom Eall rest d' vs') as [Hk Hm]; try assumption.
          { exists (GConst :: rest). split; [exact Hcd | intros x Hx; right; exact Hx]. }
          split; [exact Hk | intros _; exact Hm].
        * rewrite repeat_dests_is in H'.
          destruct (repeat_dests_f c) as [rd|] eqn:Erd; [|injection H' as <-; exact Hself].
          apply bind_ok in H' as [r2 [Hr2 H']].
          destruct r2 as [[d' vs']|]; injection H' as <-; [|exact Hself].
          assert (Hsd : sdim h <> None).
          { destruct Hkv as [_ [Hs _]]. apply Hs. destruct c; cbn [repeat_dests_f] in Erd; try discriminate; reflexivity. }
          destruct (simplify_repeat_valid h vs Hwf Hfl Hsd rd d' vs') as [Hk Hm]; try assumption.
          { intros d Hd. destruct c; cbn [repeat_dests_f] in Erd; try discriminate; injection Erd as <-;
              cbn [In] in Hd; intuition (subst; reflexivity). }
          split; [exact Hk | intros _; exact Hm].
  Qed.

  (** * [_get_changed_class] *)

  Lemma pres_div (d : pos) c new :
    (let '(nS, nT, nV) := d in 1 <= nS /\ 1 <= nT /\ 1 <= nV) ->
    In new (preserving_f (Some c)) ->
    mult_spec d c * (mult_spec d new / mult_spec d c) = mult_spec d new.
  Proof.
    destruct d as [[nS nT] nV]. intros [HS [HT HV]] Hin.
    destruct c; cbn [preserving_f In] in Hin;
      repeat (destruct Hin as [<-|Hin]; [|]); try contradiction; cbn [mult_spec];
      try (rewrite Nat.div_1_r; lia).
    - replace (nS * nT * nV) with ((nT * nV) * nS) by ring. apply div_mul_exact. nia.
    - replace (nS * nT) with (nS * nT) by ring. apply div_mul_exact. lia.
    - replace (nS * nT * nV) with (nS * (nT * nV)) by ring. apply div_mul_exact. lia.
    - replace (nT * nV) with (nV * nT) by ring. apply div_mul_exact. lia.
    - replace (nS * nT * nV) with (nV * (nS * nT)) by ring. apply div_mul_exact. lia.
    - apply div_mul_exact. nia.
  Qed.

  (** value count of the widened list *)
  Lemma changed_class_len h (s : kst) new sdarg r :
    shape_wf h -> kvalid h s -> (sdim h = None -> sdarg = None) ->
    changed_class vnone h s new sdarg = Ok r ->
    (class_ok (shape h) new = true -> length r = mult_spec (dims h) new /\ (is_slices new = true -> sdim h <> None)) /\
    (class_ok (shape h) new = false -> (s = None \/ exists vs, s = Some (GConst, vs)) -> length r = 1).
  Proof.
    intros Hwf Hkv Hsd H. unfold changed_class in H.
    assert (Hvis : visible h s = s).
    { destruct s as [[c vs]|]; [apply visible_kvalid; exact Hkv | reflexivity]. }
    rewrite Hvis in H.
    destruct (ocls_eqb (kst_class s) (Some new)) eqn:Esame.
    - destruct s as [[c vs]|]; cbn [kst_class ocls_eqb] in Esame; [|discriminate].
      apply cls_eqb_eq in Esame. subst c. injection H as <-. destruct Hkv as [Hok [Hs Hl]]. split.
      + intros _. split; [exact Hl | exact Hs].
      + intros Hno. congruence.
    - rewrite preserving_is in H.
      destruct (mem_cls new (preserving_f (kst_class s))) eqn:Emem; cbn [negb] in H; [|discriminate].
      apply mem_cls_In in Emem.
      apply bind_ok in H as [curr [Hcurr H]]. apply bind_ok in H as [newm [Hnew H]].
      destruct (curr =? 0) eqn:Ec0; [discriminate|].
      pose proof (dims_pos h Hwf) as Hpos.
      (* length of the replicated list *)
      set (values := match s with None => [vnone] | Some (_, vs) => vs end) in H.
      set (per_slice := match kst_class s with None => false | Some c => is_slices c end) in H.
      assert (Hrl : length (if per_slice then rep_list (newm / curr) values else rep_each (newm / curr) values)
                    = length values * (newm / curr)).
      { destruct per_slice; [rewrite rep_list_len; lia | apply rep_each_len]. }
      assert (Hlv : length values = curr).
      { subst values. destruct s as [[c vs]|]; cbn [kst_class] in Hcurr.
        - destruct Hkv as [Hok [Hs Hl]]. rewrite (multiplicity_wf h c Hwf Hok Hs) in Hcurr. okinj Hcurr. exact Hl.
        - okinj Hcurr. reflexivity. }
      assert (Hres : length r = if cls_eqb new GConst then 1 else curr * (newm / curr)).
      { destruct (cls_eqb new GConst).
        - apply bind_ok in H as [v [_ H]]. injection H as <-. reflexivity.
        - injection H as <-. rewrite Hrl, Hlv. reflexivity. }
      rewrite class_valid_ok in Hnew. split.
      + intros Hok. rewrite Hok in Hnew. apply bind_ok in Hnew as [m [Hm Hnew]].
        destruct (is_slices new) eqn:Esl.
        * destruct (sdim h) as [sd|] eqn:Esd.
          -- rewrite (multiplicity_wf h new Hwf Hok) in Hm by (intros _; rewrite Esd; discriminate).
             okinj Hm. pose proof (mult_spec_pos h new Hwf) as Hmp.
             destruct (mult_spec (dims h) new =? 0) eqn:E0; [apply Nat.eqb_eq in E0; lia|]. okinj Hnew.
             split; [|intros _; discriminate]. rewrite Hres.
             destruct (cls_eqb_spec new GConst) as [->|Hng]; [discriminate Esl|].
             destruct s as [[c vs]|]; cbn [kst_class] in *.
             ++ destruct Hkv as [Hokc [Hsc _]]. rewrite (multiplicity_wf h c Hwf Hokc Hsc) in Hcurr. okinj Hcurr.
                rewrite <- Hcurr. apply pres_div; [exact Hpos | exact Emem].
             ++ okinj Hcurr. rewrite Nat.div_1_r. lia.
          -- rewrite (multiplicity_noslice h new Hok Esl Esd) in Hm. okinj Hm.
             cbn [Nat.eqb] in Hnew. rewrite (Hsd eq_refl) in Hnew. discriminate.
        * rewrite (multiplicity_wf h new Hwf Hok) in Hm by (intros Hx; congruence).
          okinj Hm. pose proof (mult_spec_pos h new Hwf) as Hmp.
          destruct (mult_spec (dims h) new =? 0) eqn:E0; [apply Nat.eqb_eq in E0; lia|]. okinj Hnew.
          split; [|intros Hx; discriminate]. rewrite Hres.
          destruct (cls_eqb_spec new GConst) as [->|Hng]; [reflexivity|].
          destruct s as [[c vs]|]; cbn [kst_class] in *.
          -- destruct Hkv as [Hokc [Hsc _]]. rewrite (multiplicity_wf h c Hwf Hokc Hsc) in Hcurr. okinj Hcurr.
             rewrite <- Hcurr. apply pres_div; [exact Hpos | exact Emem].
          -- okinj Hcurr. rewrite Nat.div_1_r. lia.
      + intros Hno Hs. rewrite Hno in Hnew. okinj Hnew. rewrite Hres.
        destruct (cls_eqb new GConst); [reflexivity|].
        assert (Hc1 : length values = 1).
        { destruct Hs as [->|[vs ->]]; cbn [kst_class] in Hcurr.
          - apply Ok_inj in Hcurr. symmetry. exact Hcurr.
          - destruct Hkv as [Hokc [Hsc _]]. rewrite (multiplicity_wf h GConst Hwf Hokc Hsc) in Hcurr.
            apply Ok_inj in Hcurr. rewrite <- Hcurr. destruct (dims h) as [[? ?] ?]. reflexivity. }
        rewrite Hc1. reflexivity.
  Qed.

  (** [_change_class]: the key ends up under [new] with the right count (when [new] is admitted) *)
  Lemma change_class_k_valid h (s s' : kst) new :
    shape_wf h -> kvalid h s -> change_class_k vnone h s new = Ok s' ->
    exists vs', s' = Some (new, vs') /\ (class_ok (shape h) new = true -> kvalid h s').
  Proof.
    intros Hwf Hkv H. unfold change_class_k in H.
    assert (Hvis : visible h s = s).
    { destruct s as [[c vs]|]; [apply visible_kvalid; exact Hkv | reflexivity]. }
    rewrite Hvis in H.
    destruct (ocls_eqb (kst_class s) (Some new)) eqn:Esame.
    - injection H as <-. destruct s as [[c vs]|]; cbn [kst_class ocls_eqb] in Esame; [|discriminate].
      apply cls_eqb_eq in Esame. subst c. exists vs. split; [reflexivity | intros _; exact Hkv].
    - apply bind_ok in H as [vals [Hvals H]]. unfold put in H.
      destruct (has_base h (base_of new)); [|discriminate]. injection H as <-.
      exists vals. split; [reflexivity|]. intros Hok.
      destruct (changed_class_len h s new None vals Hwf Hkv (fun _ => eq_refl) Hvals) as [Hlen _].
      destruct (Hlen Hok) as [Hl Hs]. split; [exact Hok|]. split; [exact Hs | exact Hl].
  Qed.
End WithV.
