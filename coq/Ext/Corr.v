(** Correspondence glue for the extension algebra: one [case] type per operation, carrying the inputs
    as literals AND the implementation's observation; [check_*] = the model reproduces the observation.
    Values are instantiated with [jv] ([vnone := JNull]). *)
From Coq Require Import List Bool Arith NArith ZArith QArith.
From DV Require Import Common.Res Common.Str Common.Jv Ext.Types Ext.Classes Ext.Seq Ext.Model.
Import ListNotations.
Local Open Scope nat_scope.

Definition jext := ext jv.

Definition onat_eqb (a b : option nat) : bool :=
  match a, b with Some x, Some y => x =? y | None, None => true | _, _ => false end.

Fixpoint lq_eqb (a b : list Q) : bool :=
  match a, b with
  | [], [] => true
  | x :: xs, y :: ys => Qeq_bool x y && lq_eqb xs ys
  | _, _ => false
  end.
Fixpoint llq_eqb (a b : list (list Q)) : bool :=
  match a, b with
  | [], [] => true
  | x :: xs, y :: ys => lq_eqb x y && llq_eqb xs ys
  | _, _ => false
  end.

Definition hdr_eqb (a b : hdr) : bool :=
  list_nat_eqb (shape a) (shape b) && onat_eqb (sdim a) (sdim b) && llq_eqb (aff a) (aff b)
  && Bool.eqb (has_time a) (has_time b) && Bool.eqb (has_vec a) (has_vec b).

Definition entry_in (b : jext) (kv : key * (cls * list jv)) : bool :=
  match lookup_e b (fst kv) with
  | Some (c, vs) => cls_eqb (fst (snd kv)) c && list_eqb jv_eqb (snd (snd kv)) vs
  | None => false
  end.

(** equality of extensions as unordered maps (key order is not modelled) *)
Definition ext_eqb (a b : jext) : bool :=
  hdr_eqb (hdr_of a) (hdr_of b)
  && nodup_keys (keys_e a) && nodup_keys (keys_e b)
  && (length (entries a) =? length (entries b))
  && forallb (entry_in b) (entries a).

(** Python exception CLASSES are compared only where a property names the class (IndexError of get_meta); for
    get_subset / from_sequence / __getitem__ the properties say at most "refused", so any error matches any error. *)
Definition res_eqb_loose {A} (eqb : A -> A -> bool) (x y : res A) : bool :=
  match x, y with
  | Ok a, Ok b => eqb a b
  | Err _, Err _ => true
  | _, _ => false
  end.

(** * get_subset *)
Record subset_case := mk_subset_case {
  sc_ext : jext; sc_dim : nat; sc_idx : nat;
  sc_obs : res jext }.
Definition run_subset (c : subset_case) : res jext := get_subset jv_eqb JNull (sc_ext c) (sc_dim c) (sc_idx c).
Definition check_subset (c : subset_case) : bool := res_eqb_loose ext_eqb (run_subset c) (sc_obs c).

(** * from_sequence *)
Record merge_case := mk_merge_case {
  mc_exts : list jext; mc_dim : nat; mc_aff : option (list (list Q)); mc_sdim : option nat;
  mc_obs : res jext }.
Definition run_merge (c : merge_case) : res jext :=
  from_sequence jv_eqb JNull (mc_exts c) (mc_dim c) (mc_aff c) (mc_sdim c).
Definition check_merge (c : merge_case) : bool := res_eqb_loose ext_eqb (run_merge c) (mc_obs c).

(** * lookups: get_meta, meta_valid for all six classes, __getitem__ *)
Record lookup_case := mk_lookup_case {
  lc_img : img; lc_ext : jext; lc_key : key; lc_index : option (list Z); lc_default : jv;
  lc_obs : res jv;                 (* get_meta(key, index, default) *)
  lc_valid : list bool;            (* meta_valid(c) for c in classifications order *)
  lc_item : res jv }.              (* wrapper[key] *)
Definition run_lookup (c : lookup_case) : res jv * list bool * res jv :=
  (get_meta (lc_img c) (lc_ext c) (lc_key c) (lc_index c) (lc_default c),
   map (meta_valid (lc_img c) (hdr_of (lc_ext c))) classifications_c,
   getitem (lc_ext c) (lc_key c)).
Fixpoint lbool_eqb (a b : list bool) : bool :=
  match a, b with
  | [], [] => true
  | x :: xs, y :: ys => Bool.eqb x y && lbool_eqb xs ys
  | _, _ => false
  end.
(** the index is not a valid voxel index of the image (wrong length, negative or too large entry) *)
Definition bad_index (im : img) (ix : option (list Z)) : bool :=
  match ix with
  | None => false
  | Some l => negb ((length l =? length (ishape im)) && index_in_bounds l (ishape im))
  end.

(** get_meta: exact, except that where the model answers with a value (constant / default: the property does not say
    that these win over a bad index) an IndexError for a bad index is accepted too *)
Definition get_matches (c : lookup_case) (r : res jv) : bool :=
  res_eqb jv_eqb r (lc_obs c)
  || (bad_index (lc_img c) (lc_index c) && is_ok r && res_eqb jv_eqb (Err EIndex) (lc_obs c)).

Definition check_lookup (c : lookup_case) : bool :=
  let '(r, mv, it) := run_lookup c in
  get_matches c r && lbool_eqb mv (lc_valid c) && res_eqb_loose jv_eqb it (lc_item c).

(** several lookups on ONE (image, extension) state: a step of a lookup history (props/c08.py lookup_hist) *)
Record lookup_query := mk_lookup_query {
  lq_key : key; lq_index : option (list Z); lq_default : jv;
  lq_obs : res jv; lq_valid : list bool; lq_item : res jv }.
Definition hist_step := (img * jext * list lookup_query)%type.
Definition case_of_query (im : img) (e : jext) (q : lookup_query) : lookup_case :=
  mk_lookup_case im e (lq_key q) (lq_index q) (lq_default q) (lq_obs q) (lq_valid q) (lq_item q).
Definition check_step (s : hist_step) : bool :=
  let '(im, e, qs) := s in forallb (fun q => check_lookup (case_of_query im e q)) qs.
Definition run_step (s : hist_step) :=
  let '(im, e, qs) := s in map (fun q => run_lookup (case_of_query im e q)) qs.

(** the generators promise valid, nondegenerate inputs: checked here too so that a generator slip shows
    up as a mismatch instead of silently leaving the domain *)
Definition inputs_ok (es : list jext) : bool := forallb (fun e => validb e && nondegenerateb e) es.
Definition check_subset_dom (c : subset_case) : bool := inputs_ok [sc_ext c] && check_subset c.
Definition check_merge_dom (c : merge_case) : bool := inputs_ok (mc_exts c) && check_merge c.
