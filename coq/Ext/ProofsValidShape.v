(** C07 shape book-keeping: what [trim_ones] removes (only trailing singleton dims beyond the third). *)
From Coq Require Import List Bool Arith Lia.
From DV Require Import Common.Res Common.Str Ext.Types Ext.Classes Ext.Seq Ext.Model Ext.Spec Ext.ProofsSubset.
Import ListNotations.
Local Open Scope nat_scope.

Lemma repeat_snoc {A} (a : A) n : repeat a n ++ [a] = repeat a (S n).
Proof. induction n as [|n IH]; [reflexivity|]. cbn [repeat app]. rewrite IH. reflexivity. Qed.

Lemma trim_fuel_suffix f : forall l, exists k, l = trim_fuel f l ++ repeat 1 k.
Proof.
  induction f as [|f IH]; intros l; cbn [trim_fuel].
  - exists 0. rewrite app_nil_r. reflexivity.
  - destruct ((3 <? length l) && (last l 0 =? 1)) eqn:E.
    + apply andb_true_iff in E as [E1 E2]. apply Nat.ltb_lt in E1. apply Nat.eqb_eq in E2.
      assert (Hne : l <> []) by (intros ->; cbn [length] in E1; lia).
      destruct (IH (removelast l)) as [k Hk]. exists (S k).
      rewrite (app_removelast_last 0 Hne) at 1. rewrite E2. rewrite Hk at 1.
      rewrite <- app_assoc, repeat_snoc. reflexivity.
    + exists 0. rewrite app_nil_r. reflexivity.
Qed.

Lemma trim_fuel_maximal f : forall l, length l <= f + 3 ->
  length (trim_fuel f l) <= 3 \/ last (trim_fuel f l) 0 <> 1.
Proof.
  induction f as [|f IH]; intros l Hl; cbn [trim_fuel].
  - left. lia.
  - destruct ((3 <? length l) && (last l 0 =? 1)) eqn:E.
    + apply andb_true_iff in E as [E1 _]. apply Nat.ltb_lt in E1. apply IH.
      assert (Hne : l <> []) by (intros ->; cbn [length] in E1; lia).
      pose proof (app_removelast_last 0 Hne) as Hx. apply (f_equal (@length nat)) in Hx.
      rewrite app_length in Hx. cbn [length] in Hx. lia.
    + apply andb_false_iff in E as [E|E]; [left; apply Nat.ltb_ge in E; lia | right; apply Nat.eqb_neq in E; exact E].
Qed.

(** [trim_ones] removes a (maximal) run of trailing ones and never goes below three dimensions *)
Lemma trim_ones_spec l :
  (exists k, l = trim_ones l ++ repeat 1 k) /\
  (length (trim_ones l) <= 3 \/ last (trim_ones l) 0 <> 1) /\
  (3 <= length l -> 3 <= length (trim_ones l)).
Proof.
  unfold trim_ones. split; [apply trim_fuel_suffix|]. split; [apply trim_fuel_maximal; lia|].
  generalize (length l) at 2 as f. intros f. revert l. induction f as [|f IH]; intros l Hl; cbn [trim_fuel]; [exact Hl|].
  destruct ((3 <? length l) && (last l 0 =? 1)) eqn:E; [|exact Hl].
  apply andb_true_iff in E as [E1 _]. apply Nat.ltb_lt in E1. apply IH.
  assert (Hne : l <> []) by (intros ->; cbn [length] in E1; lia).
  pose proof (app_removelast_last 0 Hne) as Hx. apply (f_equal (@length nat)) in Hx.
  rewrite app_length in Hx. cbn [length] in Hx. lia.
Qed.

Section WithV.
  Context {V : Type} (veqb : V -> V -> bool) (vnone : V).

  (** shape of a subset: the subset axis becomes singular, then only trailing singleton dims beyond the
      third are dropped; slice dimension and affine are kept *)
  Theorem get_subset_shape (e r : ext V) dim idx :
    get_subset veqb vnone e dim idx = Ok r ->
    exists sh k, set_nth dim 1 (shape (hdr_of e)) = Some sh /\
      sh = shape (hdr_of r) ++ repeat 1 k /\
      (length (shape (hdr_of r)) <= 3 \/ last (shape (hdr_of r)) 0 <> 1) /\
      3 <= length (shape (hdr_of r)) /\
      sdim (hdr_of r) = sdim (hdr_of e) /\ aff (hdr_of r) = aff (hdr_of e).
  Proof.
    intros H. destruct (subset_shape_law veqb vnone e r dim idx H) as [sh [Hs [Hr [Hsd Ha]]]].
    destruct (trim_ones_spec sh) as [[k Hk] [Hmax Hmin]].
    exists sh, k. rewrite Hr. repeat split; try assumption.
    apply Hmin.
    (* the source has at least three dimensions, [set_nth] keeps the length *)
    unfold get_subset in H. apply bind_ok in H as [hr [Hh _]]. unfold subset_hdr in Hh.
    destruct (5 <=? dim); [discriminate|]. destruct (negb (ndim_ok (hdr_of e))) eqn:En; [discriminate|].
    apply negb_false_iff in En. unfold ndim_ok, ndim in En. apply andb_true_iff in En as [En _]. apply Nat.leb_le in En.
    assert (Hlen : forall (l l' : list nat) i v, set_nth i v l = Some l' -> length l' = length l).
    { induction l as [|x l IH]; intros l' i v Hx; [destruct i; discriminate|]. destruct i as [|i]; cbn [set_nth] in Hx.
      - injection Hx as <-. reflexivity.
      - destruct (set_nth i v l) as [l2|] eqn:E2; [|discriminate]. injection Hx as <-. cbn [length]. f_equal. apply (IH _ _ _ E2). }
    rewrite (Hlen _ _ _ _ Hs). exact En.
  Qed.
End WithV.
