(** Correspondence glue for the plugin SRC: evaluates the TRANSLATED definitions (Generated/T_src_ext.v,
    T_src_filter.v) on concrete inputs and compares with what the real Python functions returned / raised.
    This validates the translator and Common/PyOps2.v (the trusted part of the source-equality theorems). *)
From Coq Require Import List Bool Arith NArith ZArith.
From DV Require Import Common.Res Common.Str Common.Jv Common.PyOps2 Generated.T_classes Generated.T_src_ext Generated.T_src_filter
     Filter.Model Filter.SrcEq.
Import ListNotations.
Local Open Scope nat_scope.

Inductive call :=
| CIsConstant (l : list Z) (p : option nat)
| CIsRepeating (l : list Z) (p : nat)
| CNSlices (sh : list nat) (sd : option nat)
| CValid (sh : list nat)
| CMult (sh : list nat) (ns : option nat) (c : cname)
| CPeriod (sh : list nat) (ns : option nat) (s d : cname)
| CFilter (excl : list str) (incl : option (list str)) (key : str)      (* plain-literal patterns *)
| CChanged (sh : list nat) (ns : option nat) (values : jv) (cur : option cname) (new : cname) (sd : option nat)
| CGss (sh : list nat) (ns : option nat) (d : list (str * jv)) (key : str) (sample_base : str) (idx : nat).

Inductive obs := OBool (b : bool) | ONat (n : nat) | OOptNat (o : option nat) | ONames (l : list cname) | OVal (v : jv) | OErr (e : err).

Record case := mk_case { c_call : call; c_obs : obs }.

(** [re.compile] for the correspondence runs: the only strings the translated outer function compiles are the
    alternations of the two plain-literal pattern lists of the case; they are recognised by comparison and
    searched as "one of the literals is a substring of the key" ('' = no pattern at all matches everything). *)
Definition literal_compile (excl : list str) (incl : option (list str)) (pattern key : str) : bool :=
  if str_eqb pattern (alternation excl) then joined_search literal_matches excl key
  else match incl with
       | Some inc => if str_eqb pattern (alternation inc) then joined_search literal_matches inc key else false
       | None => false
       end.

Definition lift {A} (f : A -> obs) (r : res A) : obs := match r with Ok a => f a | Err e => OErr e end.

Definition run (c : call) : obs :=
  match c with
  | CIsConstant l p => lift OBool (is_constant_src Z.eqb l p)
  | CIsRepeating l p => lift OBool (is_repeating_src Z.eqb l p)
  | CNSlices sh sd => lift OOptNat (n_slices_src sh sd)
  | CValid sh => lift ONames (get_valid_classes_src classifications sh)
  | CMult sh ns c => lift ONat (get_multiplicity_src classifications sh ns c)
  | CPeriod sh ns s d => lift OOptNat (get_const_period_src classifications sh ns s d)
  | CFilter excl incl key =>
      lift OBool (make_key_regex_filter_src (literal_compile excl incl) excl incl key tt)
  | CChanged sh ns values cur new sd =>
      lift OVal (get_changed_class_src (fun _ => (values, cur)) classifications sh ns preserving_changes [] new sd)
  | CGss sh ns d key sb idx =>
      lift OVal (global_slice_subset_src (fun _ => d) classifications sh ns key sb idx)
  end.

Definition cname_eqb' (a b : cname) : bool := str_eqb (fst a) (fst b) && str_eqb (snd a) (snd b).
Definition onat_eqb (a b : option nat) : bool :=
  match a, b with Some x, Some y => x =? y | None, None => true | _, _ => false end.
Fixpoint names_eqb (a b : list cname) : bool :=
  match a, b with
  | [], [] => true
  | x :: xs, y :: ys => cname_eqb' x y && names_eqb xs ys
  | _, _ => false
  end.

Definition obs_eqb (a b : obs) : bool :=
  match a, b with
  | OBool x, OBool y => Bool.eqb x y
  | ONat x, ONat y => x =? y
  | OOptNat x, OOptNat y => onat_eqb x y
  | ONames x, ONames y => names_eqb x y
  | OVal x, OVal y => jv_eqb x y
  | OErr x, OErr y => err_eqb x y
  | _, _ => false
  end.

Definition check (c : case) : bool := obs_eqb (run (c_call c)) (c_obs c).
Definition show (c : case) : obs := run (c_call c).
