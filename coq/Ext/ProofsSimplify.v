(** [_simplify] preserves the denotation of a key (used by C04; reusable for C03/C05/C06). *)
From Coq Require Import List Bool Arith Lia.
From DV Require Import Common.Res Common.Str Ext.Types Ext.Classes Ext.Seq Ext.SeqFacts Ext.Model Ext.Spec
     Ext.TableFacts Ext.ValidFacts.
Import ListNotations.
Local Open Scope nat_scope.

(** header facts used by the per-key proofs *)
Definition hwf (h : hdr) : Prop :=
  3 <= ndim h <= 5 /\ Forall (fun n => 1 <= n) (shape h) /\ (forall d, sdim h = Some d -> d < 3) /\
  has_time h = class_ok (shape h) TSamples /\ has_vec h = class_ok (shape h) VSamples.

Lemma div_add_small r p q : r < p -> (r + p * q) / p = q.
Proof. intros H. symmetry. apply (Nat.div_unique _ _ _ r); [exact H | lia]. Qed.
Lemma mod_add_small r p q : r < p -> (r + p * q) mod p = r.
Proof. intros H. symmetry. apply (Nat.mod_unique _ _ q r); [exact H | lia]. Qed.

Lemma const_dests_cases :
  const_dests GSlices = Some [GConst; VSamples; TSamples] /\ const_dests TSamples = Some [GConst; VSamples] /\
  const_dests TSlices = Some [GConst] /\ const_dests VSamples = Some [GConst] /\
  const_dests VSlices = Some [GConst; TSamples] /\ const_dests GConst = None.
Proof. vm_compute. repeat split; reflexivity. Qed.
Lemma repeat_dests_cases :
  repeat_dests GSlices = Some [TSlices; VSlices] /\ repeat_dests VSlices = Some [TSlices] /\
  repeat_dests TSamples = None /\ repeat_dests TSlices = None /\ repeat_dests VSamples = None.
Proof. vm_compute. repeat split; reflexivity. Qed.

Lemma hwf_dims_pos h : hwf h ->
  let '(nS, nT, nV) := dims h in 1 <= nS /\ 1 <= nT /\ 1 <= nV.
Proof.
  intros [Hn [Hpos [Hsd _]]]. unfold dims, ndim in *. rewrite Forall_forall in Hpos.
  assert (G : forall i, 1 <= nth i (shape h) 1).
  { intros i. destruct (Nat.lt_ge_cases i (length (shape h))) as [Hi|Hi].
    - apply Hpos. apply nth_In. exact Hi.
    - rewrite nth_overflow by exact Hi. lia. }
  repeat split; try apply G. destruct (sdim h); [apply G | lia].
Qed.

Lemma n_slices_dims h d : hwf h -> sdim h = Some d -> n_slices h = Some (fst (fst (dims h))).
Proof.
  intros [Hn [_ [Hsd _]]] Hd. unfold n_slices, dims. rewrite Hd. cbn [fst]. f_equal.
  apply nth_indep. specialize (Hsd _ Hd). unfold ndim in Hn. lia.
Qed.

Lemma shape_at3_dims h : 4 <= ndim h -> shape_at h 3 = Some (snd (fst (dims h))).
Proof.
  intros Hn. unfold shape_at, dims, ndim in *. cbn [fst snd].
  destruct (nth_error (shape h) 3) eqn:E.
  - f_equal. symmetry. apply nth_error_nth. exact E.
  - apply nth_error_None in E. lia.
Qed.

Lemma shape_at4_dims h : 5 <= ndim h -> shape_at h 4 = Some (snd (dims h)).
Proof.
  intros Hn. unfold shape_at, dims, ndim in *. cbn [snd].
  destruct (nth_error (shape h) 4) eqn:E.
  - f_equal. symmetry. apply nth_error_nth. exact E.
  - apply nth_error_None in E. lia.
Qed.

Lemma class_ok_ndim sh c : class_ok sh c = true ->
  3 <= length sh <= 5 /\ (base_of c = BTime -> 4 <= length sh) /\ (base_of c = BVector -> length sh = 5).
Proof.
  unfold class_ok. destruct (length sh) as [|[|[|[|[|[|n]]]]]]; destruct c; cbn; try discriminate; intros _;
    repeat split; try lia; try discriminate.
Qed.

Section WithV.
  Context {V : Type} (veqb : V -> V -> bool) (vnone : V).
  Hypothesis veqb_spec : forall a b, reflect (a = b) (veqb a b).

  (** per-key denotation ([Spec.den] is [den_k] of the looked-up state) *)
  Definition den_k (h : hdr) (s : kst V) (p : pos) : V :=
    match s with
    | Some (c, vs) => if class_ok (shape h) c then nth (cidx (dims h) c p) vs vnone else vnone
    | None => vnone
    end.

  Lemma den_den_k (e : ext V) k p : den vnone e k p = den_k (hdr_of e) (lookup_e e k) p.
  Proof. unfold den, den_k. destruct (lookup_e e k) as [[c vs]|]; reflexivity. Qed.

  Definition entry_ok (h : hdr) (c : cls) (vs : list V) : Prop :=
    class_ok (shape h) c = true /\ (is_slices c = true -> sdim h <> None) /\ length vs = mult_spec (dims h) c.

  Lemma entry_mult h c vs : hwf h -> entry_ok h c vs -> multiplicity h c = Ok (mult_spec (dims h) c).
  Proof.
    intros [Hn [_ [Hsd _]]] [Hok [Hsl _]]. apply multiplicity_ok; [exact Hn | exact Hok|].
    intros Hs. specialize (Hsl Hs). destruct (sdim h) as [d|] eqn:E; [|congruence]. exists d. split; [reflexivity|auto].
  Qed.

  (** list-level steps *)
  Lemma const_step (vs : list V) per io inew :
    is_constant veqb vs (Some per) = Ok true -> io < length vs -> io / per = inew ->
    nth inew (every_nth 0 per vs) vnone = nth io vs vnone.
  Proof.
    intros Hc Hi <-. assert (Hp : 1 <= per).
    { cbn [is_constant] in Hc. destruct (per <=? 1) eqn:E; [discriminate|]. apply Nat.leb_gt in E. lia. }
    rewrite every_nth_nth by exact Hp. cbn [Nat.add].
    symmetry. apply (is_constant_period_nth veqb veqb_spec); assumption.
  Qed.

  Lemma const_none_step (vs : list V) v i :
    is_constant veqb vs None = Ok true -> hd_res vs = Ok v -> i < length vs -> v = nth i vs vnone.
  Proof.
    intros Hc Hh Hi. rewrite (is_constant_none_nth veqb veqb_spec vs vnone i Hc Hi).
    destruct vs; [discriminate|]. cbn in Hh. injection Hh as ->. reflexivity.
  Qed.

  Lemma repeat_step (vs : list V) m io inew :
    is_repeating veqb vs m = Ok true -> io < length vs -> io mod m = inew ->
    nth inew (firstn m vs) vnone = nth io vs vnone.
  Proof.
    intros Hr Hi <-. assert (Hm : m <> 0).
    { unfold is_repeating in Hr. destruct m; [discriminate|]. lia. }
    rewrite nth_firstn' by (apply Nat.mod_upper_bound; exact Hm).
    symmetry. apply (is_repeating_nth veqb veqb_spec); assumption.
  Qed.

  (** index arithmetic of the documented layout *)
  Lemma cidx_lt d c p : in_dims d p -> cidx d c p < mult_spec d c.
  Proof.
    destruct d as [[nS nT] nV], p as [[s t] v]. cbn [in_dims cidx mult_spec]. intros [Hs [Ht Hv]].
    destruct c; try lia; try nia.
    - assert (t + nT * v < nT * nV) by nia. assert (nS * (t + nT * v) + nS <= nS * (nT * nV)) by nia. nia.
  Qed.

  Lemma has_base_class_ok h d : hwf h -> has_base h (base_of d) = true -> class_ok (shape h) d = true.
  Proof.
    intros [Hn [_ [_ [Ht Hv]]]] Hb. unfold ndim in Hn.
    destruct d; cbn [base_of has_base] in Hb; try (rewrite Ht in Hb; exact Hb); try (rewrite Hv in Hb; exact Hb).
    all: unfold class_ok; destruct (length (shape h)) as [|[|[|[|[|[|n]]]]]]; try lia; reflexivity.
  Qed.

  Lemma isc_match (vs : list V) (P : nat) :
    match Some P with Some 1 => Ok true | _ => is_constant veqb vs (Some P) end
    = if P =? 1 then Ok true else is_constant veqb vs (Some P).
  Proof. destruct P as [|[|n]]; reflexivity. Qed.

  Lemma every_nth_1 (vs : list V) i : nth i (every_nth 0 1 vs) vnone = nth i vs vnone.
  Proof. rewrite every_nth_nth by lia. f_equal; lia. Qed.

  (** one successful const test with a numeric period *)
  Lemma const_period_step (vs : list V) P io inew :
    (if P =? 1 then Ok true else is_constant veqb vs (Some P)) = Ok true ->
    io < length vs -> io / P = inew ->
    nth inew (every_nth 0 P vs) vnone = nth io vs vnone.
  Proof.
    destruct (P =? 1) eqn:E.
    - apply Nat.eqb_eq in E. subst P. intros _ _ <-. rewrite every_nth_1. f_equal. apply Nat.div_1_r.
    - apply const_step.
  Qed.

  (** the const-test loop: whichever destination is taken, the denotation at [p] is unchanged, provided every
      candidate destination satisfies the index relation for its period *)
  Lemma simplify_const_den h c vs dests x p :
    (forall d, In d dests -> has_base h (base_of d) = true ->
       class_ok (shape h) d = true /\
       forall per, const_period h c d = Ok per ->
         match per with
         | None => cidx (dims h) d p = 0
         | Some P => cidx (dims h) c p / P = cidx (dims h) d p
         end) ->
    cidx (dims h) c p < length vs ->
    simplify_const veqb h c vs dests = Ok (Some x) ->
    den_k h (Some x) p = nth (cidx (dims h) c p) vs vnone.
  Proof.
    intros Hd Hi. induction dests as [|d ds IH]; [discriminate|].
    cbn [simplify_const]. destruct (has_base h (base_of d)) eqn:Eb; [|apply IH; intros; apply Hd; [right|]; assumption].
    destruct (Hd d (or_introl eq_refl) Eb) as [Hok Hper].
    destruct (const_period h c d) as [per|] eqn:Ep; cbn [bind]; [|discriminate].
    specialize (Hper _ eq_refl).
    destruct per as [P|].
    - rewrite isc_match.
      destruct (if P =? 1 then Ok true else is_constant veqb vs (Some P)) as [[|]|] eqn:Ei; cbn [bind]; try discriminate.
      + intros H. injection H as <-. unfold den_k. rewrite Hok.
        apply const_period_step; assumption.
      + apply IH. intros; apply Hd; [right|]; assumption.
    - destruct (is_constant veqb vs None) as [[|]|] eqn:Ei; cbn [bind]; try discriminate.
      + destruct (hd_res vs) as [v0|] eqn:Eh; cbn [bind]; [|discriminate].
        intros H. injection H as <-. unfold den_k. rewrite Hok, Hper. cbn [nth].
        apply (const_none_step vs v0); assumption.
      + apply IH. intros; apply Hd; [right|]; assumption.
  Qed.

  Lemma simplify_const_none_or_some h c vs dests r :
    simplify_const veqb h c vs dests = Ok r -> True.
  Proof. trivial. Qed.

  Lemma simplify_repeat_den h c vs dests x p :
    (forall d, In d dests -> has_base h (base_of d) = true ->
       class_ok (shape h) d = true /\
       forall dm, multiplicity h d = Ok dm -> cidx (dims h) c p mod dm = cidx (dims h) d p) ->
    cidx (dims h) c p < length vs ->
    simplify_repeat veqb h vs dests = Ok (Some x) ->
    den_k h (Some x) p = nth (cidx (dims h) c p) vs vnone.
  Proof.
    intros Hd Hi. induction dests as [|d ds IH]; [discriminate|].
    cbn [simplify_repeat]. destruct (has_base h (base_of d)) eqn:Eb; [|apply IH; intros; apply Hd; [right|]; assumption].
    destruct (Hd d (or_introl eq_refl) Eb) as [Hok Hdm].
    destruct (multiplicity h d) as [dm|] eqn:Em; cbn [bind]; [|discriminate].
    specialize (Hdm _ eq_refl).
    destruct (is_repeating veqb vs dm) as [[|]|] eqn:Er; cbn [bind]; try discriminate.
    - intros H. injection H as <-. unfold den_k. rewrite Hok. apply repeat_step; assumption.
    - apply IH. intros; apply Hd; [right|]; assumption.
  Qed.

  Lemma simplify_k_den h c vs s' :
    hwf h -> entry_ok h c vs -> (c = VSlices -> has_time h = false) ->
    simplify_k veqb vnone h (Some (c, vs)) = Ok s' ->
    forall p, in_dims (dims h) p -> den_k h s' p = den_k h (Some (c, vs)) p.
  Proof.
    intros Hw He Hvsl Hs p Hp.
    destruct He as [Hok [Hsl Hlen]].
    pose proof (cidx_lt _ c _ Hp) as Hidx. rewrite <- Hlen in Hidx.
    pose proof (hwf_dims_pos h Hw) as Hpos.
    unfold simplify_k, visible in Hs. rewrite class_valid_ok, Hok in Hs.
    destruct const_dests_cases as [CG [CTS [CTL [CVS [CVL _]]]]].
    destruct repeat_dests_cases as [RG [RVL [RTS [RTL RVS]]]].
    assert (Hm : forall x, class_ok (shape h) x = true -> (is_slices x = true -> is_slices c = true) ->
                         multiplicity h x = Ok (mult_spec (dims h) x)).
    { intros x E Hx. destruct Hw as [Hn [_ [Hsd _]]]. apply multiplicity_ok; [exact Hn | exact E|].
      intros Hxs. specialize (Hsl (Hx Hxs)). destruct (sdim h) as [d0|] eqn:Esd; [|congruence].
      exists d0; split; [reflexivity | auto]. }
    assert (Hns : is_slices c = true -> n_slices h = Some (fst (fst (dims h)))).
    { intros Hc. specialize (Hsl Hc). destruct (sdim h) as [d0|] eqn:Esd; [|congruence].
      eapply n_slices_dims; eauto. }
    unfold den_k at 2. rewrite Hok.
    (* generic wrap-up of the const loop followed by the repeat loop *)
    assert (Hwrap : forall cd rd,
      (forall x, simplify_const veqb h c vs cd = Ok (Some x) -> den_k h (Some x) p = nth (cidx (dims h) c p) vs vnone) ->
      (forall x, simplify_repeat veqb h vs rd = Ok (Some x) -> den_k h (Some x) p = nth (cidx (dims h) c p) vs vnone) ->
      forall s0,
      (do r <- simplify_const veqb h c vs cd;
       match r with
       | Some x => Ok (Some x)
       | None => do r2 <- simplify_repeat veqb h vs rd;
                 match r2 with Some x => Ok (Some x) | None => Ok (Some (c, vs)) end
       end)%res = Ok s0 -> den_k h s0 p = nth (cidx (dims h) c p) vs vnone).
    { intros cd rd H1 H2 s0. destruct (simplify_const veqb h c vs cd) as [[x|]|] eqn:E1; cbn [bind]; try discriminate.
      - intros H. injection H as <-. apply H1. reflexivity.
      - destruct (simplify_repeat veqb h vs rd) as [[x|]|] eqn:E2; cbn [bind]; try discriminate.
        + intros H. injection H as <-. apply H2. reflexivity.
        + intros H. injection H as <-. unfold den_k. rewrite Hok. reflexivity. }
    assert (Hwrap0 : forall cd,
      (forall x, simplify_const veqb h c vs cd = Ok (Some x) -> den_k h (Some x) p = nth (cidx (dims h) c p) vs vnone) ->
      forall s0,
      (do r <- simplify_const veqb h c vs cd;
       match r with Some x => Ok (Some x) | None => Ok (Some (c, vs)) end)%res = Ok s0 ->
      den_k h s0 p = nth (cidx (dims h) c p) vs vnone).
    { intros cd H1 s0. destruct (simplify_const veqb h c vs cd) as [[x|]|] eqn:E1; cbn [bind]; try discriminate.
      - intros H. injection H as <-. apply H1. reflexivity.
      - intros H. injection H as <-. unfold den_k. rewrite Hok. reflexivity. }
    destruct (dims h) as [[nS nT] nV] eqn:Ed. destruct p as [[s t] v]. cbn [in_dims] in Hp.
    destruct Hp as [Hps [Hpt Hpv]]. destruct Hpos as [HS [HT HV]].
    destruct c.
    - (* GConst *)
      cbn [mult_spec] in Hlen. destruct vs as [|x [|y r]]; try discriminate Hlen.
      destruct (veqb_spec x vnone) as [->|Hne]; injection Hs as <-; [reflexivity|].
      unfold den_k. rewrite Hok, Ed. reflexivity.
    - (* GSlices *)
      rewrite CG, RG in Hs. revert Hs. apply Hwrap.
      + intros x. rewrite <- Ed. apply simplify_const_den; [|rewrite Ed; exact Hidx].
        intros d Hin Hb. pose proof (has_base_class_ok h d Hw Hb) as Hokd. split; [exact Hokd|].
        rewrite Ed. destruct Hin as [<-|[<-|[<-|[]]]]; cbn [const_period].
        * intros per H. injection H as <-. reflexivity.
        * rewrite (Hm GSlices Hok ltac:(auto)), (Hm VSamples Hokd ltac:(discriminate)).
          cbn [bind mult_spec]. destruct (nV =? 0) eqn:E0; [apply Nat.eqb_eq in E0; lia|].
          intros per H. injection H as <-. cbn [cidx].
          replace (nS * nT * nV / nV) with (nS * nT) by (symmetry; apply Nat.div_mul; lia).
          replace (s + nS * (t + nT * v)) with ((s + nS * t) + (nS * nT) * v) by ring.
          apply div_add_small. nia.
        * rewrite (Hm GSlices Hok ltac:(auto)), (Hm TSamples Hokd ltac:(discriminate)).
          cbn [bind mult_spec]. destruct (nT * nV =? 0) eqn:E0; [apply Nat.eqb_eq in E0; nia|].
          intros per H. injection H as <-. cbn [cidx].
          replace (nS * nT * nV / (nT * nV)) with nS by (symmetry; rewrite <- Nat.mul_assoc; apply Nat.div_mul; nia).
          apply div_add_small. lia.
      + intros x. rewrite <- Ed. apply simplify_repeat_den; [|rewrite Ed; exact Hidx].
        intros d Hin Hb. pose proof (has_base_class_ok h d Hw Hb) as Hokd. split; [exact Hokd|].
        rewrite Ed. destruct Hin as [<-|[<-|[]]]; rewrite (Hm _ Hokd ltac:(auto)); cbn [mult_spec cidx];
          intros dm H; injection H as <-.
        * apply mod_add_small. lia.
        * replace (s + nS * (t + nT * v)) with ((s + nS * t) + (nS * nT) * v) by ring.
          apply mod_add_small. nia.
    - (* TSamples *)
      rewrite CTS, RTS in Hs. revert Hs. apply Hwrap0.
      intros x. rewrite <- Ed. apply simplify_const_den; [|rewrite Ed; exact Hidx].
      intros d Hin Hb. pose proof (has_base_class_ok h d Hw Hb) as Hokd. split; [exact Hokd|].
      rewrite Ed. destruct Hin as [<-|[<-|[]]]; cbn [const_period].
      + intros per H. injection H as <-. reflexivity.
      + pose proof (class_ok_ndim _ _ Hok) as [_ [HndT _]]. fold (ndim h) in HndT.
        rewrite (shape_at3_dims h (HndT eq_refl)), Ed. cbn [fst snd].
        intros per H. injection H as <-. cbn [cidx]. apply div_add_small. lia.
    - (* TSlices *)
      rewrite CTL, RTL in Hs. revert Hs. apply Hwrap0.
      intros x. rewrite <- Ed. apply simplify_const_den; [|rewrite Ed; exact Hidx].
      intros d Hin Hb. pose proof (has_base_class_ok h d Hw Hb) as Hokd. split; [exact Hokd|].
      rewrite Ed. destruct Hin as [<-|[]]; cbn [const_period].
      intros per H. injection H as <-. reflexivity.
    - (* VSamples *)
      rewrite CVS, RVS in Hs. revert Hs. apply Hwrap0.
      intros x. rewrite <- Ed. apply simplify_const_den; [|rewrite Ed; exact Hidx].
      intros d Hin Hb. pose proof (has_base_class_ok h d Hw Hb) as Hokd. split; [exact Hokd|].
      rewrite Ed. destruct Hin as [<-|[]]; cbn [const_period].
      intros per H. injection H as <-. reflexivity.
    - (* VSlices *)
      rewrite CVL, RVL in Hs. revert Hs. apply Hwrap.
      + intros x. rewrite <- Ed. apply simplify_const_den; [|rewrite Ed; exact Hidx].
        intros d Hin Hb. pose proof (has_base_class_ok h d Hw Hb) as Hokd. split; [exact Hokd|].
        rewrite Ed. destruct Hin as [<-|[<-|[]]]; cbn [const_period].
        * intros per H. injection H as <-. reflexivity.
        * cbn [base_of has_base] in Hb. rewrite (Hvsl eq_refl) in Hb. discriminate.
      + intros x. rewrite <- Ed. apply simplify_repeat_den; [|rewrite Ed; exact Hidx].
        intros d Hin Hb. pose proof (has_base_class_ok h d Hw Hb) as Hokd. split; [exact Hokd|].
        rewrite Ed. destruct Hin as [<-|[]]. cbn [base_of has_base] in Hb. rewrite (Hvsl eq_refl) in Hb. discriminate.
  Qed.
End WithV.
