(** [_simplify] preserves the denotation of a key (used by C04; reusable for C03/C05/C06). *)
From Coq Require Import List Bool Arith Lia.
From DV Require Import Common.Res Common.Str Ext.Types Ext.Classes Ext.Seq Ext.SeqFacts Ext.Model Ext.Spec
     Ext.TableFacts Ext.ValidFacts.
Import ListNotations.
Local Open Scope nat_scope.

(** header facts used by the per-key proofs *)
Definition hwf (h : hdr) : Prop :=
  3 <= ndim h <= 5 /\ Forall (fun n => 1 <= n) (shape h) /\ (forall d, sdim h = Some d -> d < 3) /\
  has_time h = class_ok (shape h) TSamples /\ has_vec h = class_ok (shape h) VSamples.

Lemma div_add_small r p q : r < p -> (r + p * q) / p = q.
Proof. intros H. symmetry. apply (Nat.div_unique _ _ _ r); [exact H | lia]. Qed.
Lemma mod_add_small r p q : r < p -> (r + p * q) mod p = r.
Proof. intros H. symmetry. apply (Nat.mod_unique _ _ q r); [exact H | lia]. Qed.

Lemma const_dests_cases :
  const_dests GSlices = Some [GConst; VSamples; TSamples] /\ const_dests TSamples = Some [GConst; VSamples] /\
  const_dests TSlices = Some [GConst] /\ const_dests VSamples = Some [GConst] /\
  const_dests VSlices = Some [GConst; TSamples] /\ const_dests GConst = None.
Proof. vm_compute. repeat split; reflexivity. Qed.
Lemma repeat_dests_cases :
  repeat_dests GSlices = Some [TSlices; VSlices] /\ repeat_dests VSlices = Some [TSlices] /\
  repeat_dests TSamples = None /\ repeat_dests TSlices = None /\ repeat_dests VSamples = None.
Proof. vm_compute. repeat split; reflexivity. Qed.

Lemma hwf_dims_pos h : hwf h ->
  let '(nS, nT, nV) := dims h in 1 <= nS /\ 1 <= nT /\ 1 <= nV.
Proof.
  intros [Hn [Hpos [Hsd _]]]. unfold dims, ndim in *. rewrite Forall_forall in Hpos.
  assert (G : forall i, 1 <= nth i (shape h) 1).
  { intros i. destruct (Nat.lt_ge_cases i (length (shape h))) as [Hi|Hi].
    - apply Hpos. apply nth_In. exact Hi.
    - rewrite nth_overflow by exact Hi. lia. }
  repeat split; try apply G. destruct (sdim h); [apply G | lia].
Qed.

Lemma n_slices_dims h d : hwf h -> sdim h = Some d -> n_slices h = Some (fst (fst (dims h))).
Proof.
  intros [Hn [_ [Hsd _]]] Hd. unfold n_slices, dims. rewrite Hd. cbn [fst]. f_equal.
  apply nth_indep. specialize (Hsd _ Hd). unfold ndim in Hn. lia.
Qed.

Lemma shape_at3_dims h : 4 <= ndim h -> shape_at h 3 = Some (snd (fst (dims h))).
Proof.
  intros Hn. unfold shape_at, dims, ndim in *. cbn [fst snd].
  destruct (nth_error (shape h) 3) eqn:E.
  - f_equal. symmetry. apply nth_error_nth. exact E.
  - apply nth_error_None in E. lia.
Qed.

Lemma shape_at4_dims h : 5 <= ndim h -> shape_at h 4 = Some (snd (dims h)).
Proof.
  intros Hn. unfold shape_at, dims, ndim in *. cbn [snd].
  destruct (nth_error (shape h) 4) eqn:E.
  - f_equal. symmetry. apply nth_error_nth. exact E.
  - apply nth_error_None in E. lia.
Qed.

Lemma class_ok_ndim sh c : class_ok sh c = true ->
  3 <= length sh <= 5 /\ (base_of c = BTime -> 4 <= length sh) /\ (base_of c = BVector -> length sh = 5).
Proof.
  unfold class_ok. destruct (length sh) as [|[|[|[|[|[|n]]]]]]; destruct c; cbn; try discriminate; intros _;
    repeat split; try lia; try discriminate.
Qed.

Section WithV.
  Context {V : Type} (veqb : V -> V -> bool) (vnone : V).
  Hypothesis veqb_spec : forall a b, reflect (a = b) (veqb a b).

  (** per-key denotation ([Spec.den] is [den_k] of the looked-up state) *)
  Definition den_k (h : hdr) (s : kst V) (p : pos) : V :=
    match s with
    | Some (c, vs) => if class_ok (shape h) c then nth (cidx (dims h) c p) vs vnone else vnone
    | None => vnone
    end.

  Lemma den_den_k (e : ext V) k p : den vnone e k p = den_k (hdr_of e) (lookup_e e k) p.
  Proof. unfold den, den_k. destruct (lookup_e e k) as [[c vs]|]; reflexivity. Qed.

  Definition entry_ok (h : hdr) (c : cls) (vs : list V) : Prop :=
    class_ok (shape h) c = true /\ (is_slices c = true -> sdim h <> None) /\ length vs = mult_spec (dims h) c.

  Lemma entry_mult h c vs : hwf h -> entry_ok h c vs -> multiplicity h c = Ok (mult_spec (dims h) c).
  Proof.
    intros [Hn [_ [Hsd _]]] [Hok [Hsl _]]. apply multiplicity_ok; [exact Hn | exact Hok|].
    intros Hs. specialize (Hsl Hs). destruct (sdim h) as [d|] eqn:E; [|congruence]. exists d. split; [reflexivity|auto].
  Qed.

  (** list-level steps *)
  Lemma const_step (vs : list V) per io inew :
    is_constant veqb vs (Some per) = Ok true -> io < length vs -> io / per = inew ->
    nth inew (every_nth 0 per vs) vnone = nth io vs vnone.
  Proof.
    intros Hc Hi <-. assert (Hp : 1 <= per).
    { cbn [is_constant] in Hc. destruct (per <=? 1) eqn:E; [discriminate|]. apply Nat.leb_gt in E. lia. }
    rewrite every_nth_nth by exact Hp. cbn [Nat.add].
    symmetry. apply (is_constant_period_nth veqb veqb_spec); assumption.
  Qed.

  Lemma const_none_step (vs : list V) v i :
    is_constant veqb vs None = Ok true -> hd_res vs = Ok v -> i < length vs -> v = nth i vs vnone.
  Proof.
    intros Hc Hh Hi. rewrite (is_constant_none_nth veqb veqb_spec vs vnone i Hc Hi).
    destruct vs; [discriminate|]. cbn in Hh. injection Hh as ->. reflexivity.
  Qed.

  Lemma repeat_step (vs : list V) m io inew :
    is_repeating veqb vs m = Ok true -> io < length vs -> io mod m = inew ->
    nth inew (firstn m vs) vnone = nth io vs vnone.
  Proof.
    intros Hr Hi <-. assert (Hm : m <> 0).
    { unfold is_repeating in Hr. destruct m; [discriminate|]. lia. }
    rewrite nth_firstn' by (apply Nat.mod_upper_bound; exact Hm).
    symmetry. apply (is_repeating_nth veqb veqb_spec); assumption.
  Qed.
End WithV.
