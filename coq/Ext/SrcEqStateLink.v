(** The content dictionary that Link/Abs.v builds for an extension HOLDS its per-key states (the invariant of
    Ext/SrcEqState.v), so the refinement theorems of the translated mutators apply to [to_content e]. *)
From Coq Require Import List Bool Arith NArith ZArith QArith Lia.
From DV Require Import Common.Res Common.Str Common.Jv Ext.Types Ext.Classes Ext.Seq Ext.Model Ext.SrcEqAlg Ext.SrcEqState.
From DV Require Import Link.Abs Link.ProofsTo.
Import ListNotations.

Lemma NoDup_filter_keys {A} (P : str * A -> bool) (l : list (str * A)) : NoDup (map fst l) -> NoDup (map fst (filter P l)).
Proof.
  induction l as [|x r IH]; intros H; [exact H|]. cbn [map] in H. inversion H as [|? ? Hni Hn]; subst.
  cbn [filter]. destruct (P x); [|exact (IH Hn)]. cbn [map]. constructor; [|exact (IH Hn)].
  intros Hin. apply Hni. apply in_map_iff in Hin. destruct Hin as [y [Hy Hin]]. apply filter_In in Hin.
  apply in_map_iff. exists y. split; [exact Hy | exact (proj1 Hin)].
Qed.

Lemma render_same c vs : Link.Abs.render c vs = SrcEqAlg.render c vs.
Proof. reflexivity. Qed.

Theorem to_content_holds (qtok : Q -> str) (e : ext jv) :
  NoDup (keys_e e) -> Holds (to_members qtok e) (hdr_of e) (lookup_e e).
Proof.
  intros Hnd. constructor.
  - intros b Hb. rewrite jassoc_base, Hb. reflexivity.
  - intros c Hc. exists (class_obj e c). split; [|split].
    + pose proof (class_dict_to qtok e c) as H. rewrite Hc in H. exact H.
    + unfold class_obj. rewrite map_map. cbn [fst]. unfold class_entries.
      change (map (fun x : key * (cls * list jv) => fst x) (filter (fun kv => cls_eqb (fst (snd kv)) c) (entries e)))
        with (map fst (filter (fun kv : key * (cls * list jv) => cls_eqb (fst (snd kv)) c) (entries e))).
      apply NoDup_filter_keys. exact Hnd.
    + intros k. rewrite (jassoc_class_obj e c k Hnd). unfold stored.
      destruct (lookup_e e k) as [[c' vs]|]; reflexivity.
Qed.
