(** Proofs for C08 (lookups). *)
From Coq Require Import List Bool Arith ZArith QArith Qabs Lia.
From DV Require Import Common.Res Common.Str Generated.T_ext_tol Ext.Types Ext.Classes Ext.Seq Ext.Model
     Ext.Spec Ext.TableFacts Ext.LookupSpec.
Import ListNotations.
Local Open Scope nat_scope.

Lemma list_nat_eqb_eq a b : list_nat_eqb a b = true <-> a = b.
Proof.
  revert b; induction a as [|x xs IH]; intros [|y ys]; simpl; try (split; [discriminate|congruence]).
  - split; reflexivity.
  - rewrite andb_true_iff, Nat.eqb_eq, IH. split; [intros [-> ->]; reflexivity | intros H; injection H as -> ->; auto].
Qed.

Lemma allclose_spec rtol atol a b : allclose rtol atol a b = true <-> close_vec rtol atol a b.
Proof.
  unfold allclose, close_vec. revert b; induction a as [|x xs IH]; intros [|y ys]; simpl.
  - split; [constructor | reflexivity].
  - split; [discriminate | intros H; inversion H].
  - split; [discriminate | intros H; inversion H].
  - specialize (IH ys). simpl in IH.
    rewrite andb_true_iff in *. rewrite andb_true_iff. rewrite Qle_bool_iff.
    split.
    + intros [Hl [Hx Hr]]. constructor; [exact Hx|]. apply IH. split; [exact Hl | exact Hr].
    + intros H. inversion H as [|? ? ? ? Hx Hr]; subst. apply IH in Hr as [Hl Hr]. repeat split; assumption.
Qed.

Lemma meta_valid_spec im h c : meta_valid im h c = true <-> agrees_code im h c.
Proof.
  unfold meta_valid, agrees_code.
  destruct c; try (split; [reflexivity | reflexivity]); try apply list_nat_eqb_eq.
  all: destruct (islice im) as [isd|], (sdim h) as [msd|];
    try (split; [discriminate | intros [? [? [H1 [H2 _]]]]; congruence]).
  all: destruct (nth msd (shape h) 0 =? nth isd (ishape im) 0) eqn:En; cbn [negb];
    [apply Nat.eqb_eq in En | apply Nat.eqb_neq in En;
     split; [discriminate | intros [? [? [H1 [H2 [H3 _]]]]]; injection H1 as <-; injection H2 as <-; contradiction]].
  - rewrite andb_true_iff, list_nat_eqb_eq, allclose_spec. split.
    + intros [Ht Ha]. exists isd, msd. repeat split; assumption.
    + intros [? [? [H1 [H2 [_ [Ha Ht]]]]]]. injection H1 as <-; injection H2 as <-. split; assumption.
  - rewrite allclose_spec. split.
    + intros Ha. exists isd, msd. repeat split; assumption.
    + intros [? [? [H1 [H2 [_ [Ha _]]]]]]. injection H1 as <-; injection H2 as <-. assumption.
  - rewrite andb_true_iff, list_nat_eqb_eq, allclose_spec. split.
    + intros [Ht Ha]. exists isd, msd. repeat split; assumption.
    + intros [? [? [H1 [H2 [_ [Ha Ht]]]]]]. injection H1 as <-; injection H2 as <-. split; assumption.
Qed.

Lemma nth_res_ok {A} (l : list A) i d : i < length l -> nth_res l i = Ok (nth i l d).
Proof.
  intros H. unfold nth_res. destruct (nth_error l i) eqn:E.
  - f_equal. symmetry. apply nth_error_nth. exact E.
  - apply nth_error_None in E. lia.
Qed.

Lemma nth_res_cases {A} (l : list A) i : (exists x, nth_res l i = Ok x) \/ nth_res l i = Err EIndex.
Proof. unfold nth_res. destruct (nth_error l i); eauto. Qed.

Lemma close_vec_refl rtol atol l : (0 <= rtol)%Q -> (0 <= atol)%Q -> close_vec rtol atol l l.
Proof.
  intros Hr Ha. induction l as [|x xs IH]; constructor; [|exact IH].
  assert (H0 : (x - x == 0)%Q) by ring. rewrite H0. change (Qabs 0) with 0%Q.
  apply (Qle_trans _ (0 + 0)%Q); [unfold Qle; simpl; lia|].
  apply Qplus_le_compat; [exact Ha|]. apply Qmult_le_0_compat; [exact Hr | apply Qabs_nonneg].
Qed.

(** an image that has exactly the extension's shape, slice dimension and affine agrees with every class
    (per-slice classes need a slice dimension) *)
Lemma agrees_exact h c :
  (is_slices c = true -> sdim h <> None) -> agrees (mk_img (shape h) (sdim h) (aff h)) h c.
Proof.
  intros Hs. destruct c; cbn [agrees_code ishape islice iaff]; try reflexivity; try exact I.
  all: destruct (sdim h) as [d|]; [|exfalso; apply (Hs eq_refl); reflexivity].
  all: exists d, d; repeat split; try reflexivity.
  all: apply close_vec_refl; vm_compute; discriminate.
Qed.

Lemma agrees_dirb_spec im h c : agrees_dirb im h c = true <-> agrees_dir im h c.
Proof.
  unfold agrees_dirb, agrees_dir.
  destruct c; try (split; [reflexivity | reflexivity]); try apply list_nat_eqb_eq.
  all: destruct (islice im) as [isd|], (sdim h) as [msd|];
    try (split; [discriminate | intros [? [? [H1 [H2 _]]]]; congruence]).
  all: rewrite !andb_true_iff, Nat.eqb_eq, allclose_spec, ?list_nat_eqb_eq.
  - split.
    + intros [[Hn Ha] Ht]. exists isd, msd. repeat split; assumption.
    + intros [? [? [H1 [H2 [Hn [Ha Ht]]]]]]. injection H1 as <-; injection H2 as <-. repeat split; assumption.
  - split.
    + intros [[Hn Ha] _]. exists isd, msd. repeat split; assumption.
    + intros [? [? [H1 [H2 [Hn [Ha _]]]]]]. injection H1 as <-; injection H2 as <-. repeat split; assumption.
  - split.
    + intros [[Hn Ha] Ht]. exists isd, msd. repeat split; assumption.
    + intros [? [? [H1 [H2 [Hn [Ha Ht]]]]]]. injection H1 as <-; injection H2 as <-. repeat split; assumption.
Qed.

(** where the slice row equals the slice column (both affines), the code's test IS the direction test *)
Lemma agrees_code_dir im h c : slice_sym im h -> (agrees_code im h c <-> agrees_dir im h c).
Proof.
  intros [Hi Hm]. unfold agrees_code, agrees_dir.
  destruct c; try reflexivity.
  all: split; intros [isd [msd [H1 [H2 [Hn [Ha Ht]]]]]]; exists isd, msd; repeat split; try assumption;
    specialize (Hi _ H1); specialize (Hm _ H2); unfold row_eq_col, row3 in Hi, Hm;
    [rewrite <- Hi, <- Hm | rewrite Hi, Hm]; exact Ha.
Qed.

Lemma agrees_dir_exact h c :
  (is_slices c = true -> sdim h <> None) -> agrees_dir (mk_img (shape h) (sdim h) (aff h)) h c.
Proof.
  intros Hs. destruct c; cbn [agrees_dir ishape islice iaff]; try reflexivity; try exact I.
  all: destruct (sdim h) as [d|]; [|exfalso; apply (Hs eq_refl); reflexivity].
  all: exists d, d; repeat split; try reflexivity.
  all: apply close_vec_refl; vm_compute; discriminate.
Qed.

Lemma index_in_bounds_in ix sh : length ix = length sh -> index_in_bounds ix sh = true -> in_bounds ix sh.
Proof.
  unfold in_bounds, index_in_bounds. revert sh.
  induction ix as [|z zs IH]; intros [|n ns] Hl Hb; simpl in *; try discriminate.
  - split; [reflexivity | intros j Hj; lia].
  - apply andb_true_iff in Hb as [Hz Hr]. apply andb_true_iff in Hz as [H1 H2].
    apply Z.leb_le in H1. apply Z.ltb_lt in H2.
    destruct (IH ns ltac:(lia) Hr) as [_ IH']. split; [lia|].
    intros [|j] Hj; simpl; [lia | apply IH'; lia].
Qed.

Section WithV.
  Context {V : Type} (vnone : V).

  (** ** Simple structural facts (no validity needed) *)

  Lemma get_meta_absent im (e : ext V) k ix d :
    visible (hdr_of e) (lookup_e e k) = None -> get_meta im e k ix d = Ok d.
  Proof. unfold get_meta. intros ->. reflexivity. Qed.

  Lemma get_meta_const im (e : ext V) k ix d vs :
    visible (hdr_of e) (lookup_e e k) = Some (GConst, vs) -> get_meta im e k ix d = Ok (List.hd d vs).
  Proof. unfold get_meta. intros ->. reflexivity. Qed.

  Lemma get_meta_noindex im (e : ext V) k d :
    get_meta im e k None d =
    Ok (match visible (hdr_of e) (lookup_e e k) with Some (GConst, vs) => List.hd d vs | _ => d end).
  Proof.
    unfold get_meta. destruct (visible (hdr_of e) (lookup_e e k)) as [[c vs]|]; [|reflexivity].
    destruct c; cbn [cls_eqb]; try reflexivity; destruct (meta_valid im (hdr_of e) _); reflexivity.
  Qed.

  Lemma get_meta_mismatch im (e : ext V) k ix d c vs :
    visible (hdr_of e) (lookup_e e k) = Some (c, vs) -> c <> GConst ->
    ~ agrees im (hdr_of e) c -> get_meta im e k ix d = Ok d.
  Proof.
    intros Hv Hc Hn. unfold get_meta. rewrite Hv.
    destruct (cls_eqb_spec c GConst) as [->|_]; [contradiction|].
    destruct (meta_valid im (hdr_of e) c) eqn:Em; [apply meta_valid_spec in Em; contradiction | reflexivity].
  Qed.

  Lemma get_meta_bounds im (e : ext V) k ix d c vs :
    visible (hdr_of e) (lookup_e e k) = Some (c, vs) -> c <> GConst ->
    agrees im (hdr_of e) c ->
    (length ix <> length (ishape im) \/ index_in_bounds ix (ishape im) = false) ->
    get_meta im e k (Some ix) d = Err EIndex.
  Proof.
    intros Hv Hc Ha Hb. unfold get_meta. rewrite Hv.
    destruct (cls_eqb_spec c GConst) as [->|_]; [contradiction|].
    apply meta_valid_spec in Ha. rewrite Ha. cbn [negb].
    destruct (length ix =? length (ishape im)) eqn:El; cbn [negb]; [|reflexivity].
    apply Nat.eqb_eq in El. destruct Hb as [Hb|Hb]; [contradiction|]. rewrite Hb. reflexivity.
  Qed.

  Lemma get_meta_out_of_bounds im (e : ext V) k ix d c vs :
    visible (hdr_of e) (lookup_e e k) = Some (c, vs) -> c <> GConst ->
    agrees im (hdr_of e) c -> ~ in_bounds ix (ishape im) ->
    get_meta im e k (Some ix) d = Err EIndex.
  Proof.
    intros Hv Hc Ha Hn. eapply get_meta_bounds; eauto.
    destruct (Nat.eq_dec (length ix) (length (ishape im))) as [El|Ne]; [|left; exact Ne].
    right. destruct (index_in_bounds ix (ishape im)) eqn:Eb; [|reflexivity].
    exfalso. apply Hn. apply index_in_bounds_in; assumption.
  Qed.

  (** totality: whatever the image header / index / extension, only IndexError can escape *)
  Lemma get_meta_total im (e : ext V) k ix d :
    (exists v, get_meta im e k ix d = Ok v) \/ get_meta im e k ix d = Err EIndex.
  Proof.
    unfold get_meta.
    destruct (visible (hdr_of e) (lookup_e e k)) as [[c vs]|]; [|eauto].
    destruct (cls_eqb c GConst) eqn:Ec; [eauto|].
    destruct (meta_valid im (hdr_of e) c) eqn:Em; cbn [negb]; [|eauto].
    destruct ix as [ix|]; [|eauto].
    destruct (negb (length ix =? length (ishape im))); [eauto|].
    destruct (negb (index_in_bounds ix (ishape im))); [eauto|].
    assert (Hsl : forall isd, islice im = Some isd -> True) by trivial.
    set (ixn := map Z.to_nat ix).
    destruct c; try discriminate Ec.
    - (* GSlices *)
      unfold meta_valid in Em. destruct (islice im) as [sd|]; [|discriminate].
      destruct (nth_res_cases (ishape im) sd) as [[n ->]| ->]; [|eauto]. cbn [bind].
      destruct (nth_res_cases ixn sd) as [[i ->]| ->]; [|eauto]. cbn [bind].
      apply nth_res_cases.
    - (* TSamples *)
      destruct (nth_res_cases ixn 3) as [[i3 ->]| ->]; [|eauto]. cbn [bind].
      destruct (length (ishape im) =? 5).
      + destruct (nth_res_cases ixn 4) as [[i4 ->]| ->]; [|eauto]. cbn [bind].
        destruct (nth_res_cases (ishape im) 3) as [[s3 ->]| ->]; [|eauto]. cbn [bind].
        apply nth_res_cases.
      + cbn [bind]. apply nth_res_cases.
    - (* TSlices *)
      unfold meta_valid in Em. destruct (islice im) as [sd|]; [|discriminate].
      destruct (nth_res_cases (ishape im) sd) as [[n ->]| ->]; [|eauto]. cbn [bind].
      destruct (nth_res_cases ixn sd) as [[i ->]| ->]; [|eauto]. cbn [bind].
      apply nth_res_cases.
    - (* VSamples *)
      destruct (nth_res_cases ixn 4) as [[i4 ->]| ->]; [|eauto]. cbn [bind].
      apply nth_res_cases.
    - (* VSlices *)
      unfold meta_valid in Em. destruct (islice im) as [sd|]; [|discriminate].
      destruct (nth_res_cases (ishape im) sd) as [[n ->]| ->]; [|eauto]. cbn [bind].
      destruct (nth_res_cases ixn sd) as [[i ->]| ->]; [|eauto]. cbn [bind].
      destruct (nth_res_cases ixn 3) as [[i3 ->]| ->]; [|eauto]. cbn [bind].
      apply nth_res_cases.
  Qed.

  (** ** The value law *)

  Lemma assoc_In (l : list (key * (cls * list V))) k x : assoc k l = Some x -> In (k, x) l.
  Proof.
    induction l as [|[k' y] r IH]; simpl; [discriminate|].
    unfold key_eqb. destruct (str_eqb_spec k k') as [->|_].
    - intros H; injection H as ->. left; reflexivity.
    - intros H; right; auto.
  Qed.

  Lemma in_bounds_index ix sh : in_bounds ix sh -> index_in_bounds ix sh = true.
  Proof.
    unfold in_bounds, index_in_bounds. revert sh.
    induction ix as [|z zs IH]; intros [|n ns] [Hl Hb]; simpl in *; try discriminate; [reflexivity|].
    apply andb_true_iff; split.
    - specialize (Hb 0 ltac:(lia)). simpl in Hb. apply andb_true_iff; split; [apply Z.leb_le | apply Z.ltb_lt]; lia.
    - apply IH. split; [lia|]. intros j Hj. specialize (Hb (S j) ltac:(lia)). simpl in Hb. exact Hb.
  Qed.

  Lemma idx3_lt s t v nS nT nV : s < nS -> t < nT -> v < nV -> s + nS * (t + nT * v) < nS * nT * nV.
  Proof.
    intros Hs Ht Hv. assert (H1 : t + nT * v < nT * nV) by nia.
    assert (H2 : nS * (t + nT * v) + nS <= nS * (nT * nV)) by nia. nia.
  Qed.

  Local Ltac finish Hlenvs :=
    match goal with
    | |- nth_res ?vs ?i = Ok (nth ?j ?vs ?d) =>
        replace j with i by (try ring; nia); apply nth_res_ok; rewrite Hlenvs;
        first [ nia
              | match goal with
                | |- ?s + ?t * ?a + ?v * (?a * ?T) < ?a * ?T * ?Vv =>
                    replace (s + t * a + v * (a * T)) with (s + a * (t + T * v)) by ring;
                    apply idx3_lt; lia
                end ]
    end.

  Local Ltac bounds Hb :=
    pose proof (Hb 0) as Hb0; pose proof (Hb 1) as Hb1; pose proof (Hb 2) as Hb2;
    pose proof (Hb 3) as Hb3; pose proof (Hb 4) as Hb4;
    cbn [nth length] in Hb0, Hb1, Hb2, Hb3, Hb4.

  Lemma get_meta_value im (e : ext V) k ix d c vs :
    valid e -> img_wf im ->
    lookup_e e k = Some (c, vs) -> c <> GConst ->
    agrees im (hdr_of e) c -> in_bounds ix (ishape im) ->
    get_meta im e k (Some ix) d = Ok (den vnone e k (pos_of im ix)).
  Proof.
    intros [Hwf [_ Hent]] [Hilen Hisl] Hl Hc Ha Hib.
    pose proof (assoc_In _ _ _ Hl) as Hin. destruct (Hent _ _ _ Hin) as [Hok [Hsl Hlenvs]].
    destruct Hwf as [Hnd3 [_ [Hsd _]]].
    pose proof (in_bounds_index _ _ Hib) as Hidx. destruct Hib as [Hlen Hb].
    unfold get_meta, den. rewrite Hl.
    assert (Hvis : visible (hdr_of e) (Some (c, vs)) = Some (c, vs)).
    { unfold visible. rewrite class_valid_ok, Hok. reflexivity. }
    rewrite Hvis, Hok.
    destruct (cls_eqb_spec c GConst) as [->|_]; [contradiction|].
    rewrite (proj2 (meta_valid_spec im _ c) Ha). cbn [negb].
    rewrite Hlen, Nat.eqb_refl, Hidx. cbn [negb].
    unfold pos_of, dims, ndim in *.
    destruct c; try contradiction; cbn [agrees_code] in Ha.
    - (* GSlices *)
      destruct Ha as [isd [msd [Hi [Hm [Hn [_ Ht]]]]]]. rewrite Hi, Hm in *.
      specialize (Hsd _ eq_refl). specialize (Hisl _ eq_refl). clear Hsl Hvis Hin Hent Hl Hidx.
      destruct (shape (hdr_of e)) as [|a [|b [|c0 [|t [|v [|x r]]]]]]; cbn [length] in Hnd3; try lia;
      destruct (ishape im) as [|a' [|b' [|c' [|t' [|v' [|x' r']]]]]]; cbn [length] in Hilen; try lia;
      cbn [skipn] in Ht; try discriminate; try (injection Ht as <-); try (injection Ht as <- <-);
      destruct ix as [|z0 [|z1 [|z2 [|z3 [|z4 [|z5 zr]]]]]]; cbn [length] in Hlen; try lia;
      bounds Hb;
      destruct msd as [|[|[|?]]]; try lia; destruct isd as [|[|[|?]]]; try lia;
      cbn [nth] in Hn; subst;
      cbn [map nth_res nth_error nth skipn combine fold_left fst snd bind cidx mult_spec length] in *;
      finish Hlenvs.
    - (* TSamples *)
      clear Hsl Hvis Hin Hent Hl Hidx.
      destruct (shape (hdr_of e)) as [|a [|b [|c0 [|t [|v [|x r]]]]]]; cbn [length] in Hnd3; try lia;
      try discriminate Hok;
      destruct (ishape im) as [|a' [|b' [|c' [|t' [|v' [|x' r']]]]]]; cbn [length] in Hilen; try lia;
      cbn [skipn] in Ha; try discriminate; try (injection Ha as <-); try (injection Ha as <- <-);
      destruct ix as [|z0 [|z1 [|z2 [|z3 [|z4 [|z5 zr]]]]]]; cbn [length] in Hlen; try lia;
      bounds Hb;
      cbn [map nth_res nth_error nth skipn combine fold_left fst snd bind cidx mult_spec length Nat.eqb] in *;
      destruct (islice im); destruct (sdim (hdr_of e));
      cbn [map nth_res nth_error nth bind cidx mult_spec] in *;
      finish Hlenvs.
    - (* TSlices *)
      destruct Ha as [isd [msd [Hi [Hm [Hn [_ _]]]]]]. rewrite Hi, Hm in *.
      specialize (Hsd _ eq_refl). specialize (Hisl _ eq_refl). clear Hsl Hvis Hin Hent Hl Hidx.
      destruct (shape (hdr_of e)) as [|a [|b [|c0 [|t [|v [|x r]]]]]]; cbn [length] in Hnd3; try lia;
      try discriminate Hok;
      destruct (ishape im) as [|a' [|b' [|c' [|t' [|v' [|x' r']]]]]]; cbn [length] in Hilen; try lia;
      destruct ix as [|z0 [|z1 [|z2 [|z3 [|z4 [|z5 zr]]]]]]; cbn [length] in Hlen; try lia;
      bounds Hb;
      destruct msd as [|[|[|?]]]; try lia; destruct isd as [|[|[|?]]]; try lia;
      cbn [nth] in Hn; subst;
      cbn [map nth_res nth_error nth skipn combine fold_left fst snd bind cidx mult_spec length] in *;
      finish Hlenvs.
    - (* VSamples *)
      clear Hsl Hvis Hin Hent Hl Hidx.
      destruct (shape (hdr_of e)) as [|a [|b [|c0 [|t [|v [|x r]]]]]]; cbn [length] in Hnd3; try lia;
      try discriminate Hok;
      destruct (ishape im) as [|a' [|b' [|c' [|t' [|v' [|x' r']]]]]]; cbn [length] in Hilen; try lia;
      cbn [skipn] in Ha; try discriminate; try (injection Ha as <-);
      destruct ix as [|z0 [|z1 [|z2 [|z3 [|z4 [|z5 zr]]]]]]; cbn [length] in Hlen; try lia;
      bounds Hb;
      cbn [map nth_res nth_error nth skipn combine fold_left fst snd bind cidx mult_spec length Nat.eqb] in *;
      destruct (islice im); destruct (sdim (hdr_of e));
      cbn [map nth_res nth_error nth bind cidx mult_spec] in *;
      finish Hlenvs.
    - (* VSlices *)
      destruct Ha as [isd [msd [Hi [Hm [Hn [_ Ht]]]]]]. rewrite Hi, Hm in *.
      specialize (Hsd _ eq_refl). specialize (Hisl _ eq_refl). clear Hsl Hvis Hin Hent Hl Hidx.
      unfold py_slice in Ht.
      destruct (shape (hdr_of e)) as [|a [|b [|c0 [|t [|v [|x r]]]]]]; cbn [length] in Hnd3; try lia;
      try discriminate Hok;
      destruct (ishape im) as [|a' [|b' [|c' [|t' [|v' [|x' r']]]]]]; cbn [length] in Hilen; try lia;
      cbn [skipn firstn Nat.sub] in Ht; try discriminate; try (injection Ht as <-);
      destruct ix as [|z0 [|z1 [|z2 [|z3 [|z4 [|z5 zr]]]]]]; cbn [length] in Hlen; try lia;
      bounds Hb;
      destruct msd as [|[|[|?]]]; try lia; destruct isd as [|[|[|?]]]; try lia;
      cbn [nth] in Hn; subst;
      cbn [map nth_res nth_error nth skipn combine fold_left fst snd bind cidx mult_spec length] in *;
      finish Hlenvs.
  Qed.

  Lemma getitem_spec (e : ext V) k v :
    getitem e k = Ok v <-> exists vs, lookup_e e k = Some (GConst, v :: vs).
  Proof.
    unfold getitem. destruct (lookup_e e k) as [[c vs]|].
    - destruct c; try (split; [discriminate | intros [? H]; discriminate]).
      destruct vs as [|x xs]; [split; [discriminate | intros [? H]; discriminate]|].
      split; [intros H; injection H as ->; eauto | intros [? H]; injection H as -> _; reflexivity].
    - split; [discriminate | intros [? H]; discriminate].
  Qed.
End WithV.
