(** Proofs for C08 (lookups). *)
From Coq Require Import List Bool Arith ZArith QArith Qabs Lia.
From DV Require Import Common.Res Common.Str Generated.T_ext_tol Ext.Types Ext.Classes Ext.Seq Ext.Model
     Ext.Spec Ext.TableFacts Ext.LookupSpec.
Import ListNotations.
Local Open Scope nat_scope.

Lemma list_nat_eqb_eq a b : list_nat_eqb a b = true <-> a = b.
Proof.
  revert b; induction a as [|x xs IH]; intros [|y ys]; simpl; try (split; [discriminate|congruence]).
  - split; reflexivity.
  - rewrite andb_true_iff, Nat.eqb_eq, IH. split; [intros [-> ->]; reflexivity | intros H; injection H as -> ->; auto].
Qed.

Lemma allclose_spec rtol atol a b : allclose rtol atol a b = true <-> close_vec rtol atol a b.
Proof.
  unfold allclose, close_vec. revert b; induction a as [|x xs IH]; intros [|y ys]; simpl.
  - split; [constructor | reflexivity].
  - split; [discriminate | intros H; inversion H].
  - split; [discriminate | intros H; inversion H].
  - specialize (IH ys). simpl in IH.
    rewrite andb_true_iff in *. rewrite andb_true_iff. rewrite Qle_bool_iff.
    split.
    + intros [Hl [Hx Hr]]. constructor; [exact Hx|]. apply IH. split; [exact Hl | exact Hr].
    + intros H. inversion H as [|? ? ? ? Hx Hr]; subst. apply IH in Hr as [Hl Hr]. repeat split; assumption.
Qed.

Lemma meta_valid_spec im h c : meta_valid im h c = true <-> agrees im h c.
Proof.
  unfold meta_valid, agrees.
  destruct c; try (split; [reflexivity | reflexivity]); try apply list_nat_eqb_eq.
  all: destruct (islice im) as [isd|], (sdim h) as [msd|];
    try (split; [discriminate | intros [? [? [H1 [H2 _]]]]; congruence]).
  all: destruct (nth msd (shape h) 0 =? nth isd (ishape im) 0) eqn:En; cbn [negb];
    [apply Nat.eqb_eq in En | apply Nat.eqb_neq in En;
     split; [discriminate | intros [? [? [H1 [H2 [H3 _]]]]]; injection H1 as <-; injection H2 as <-; contradiction]].
  - rewrite andb_true_iff, list_nat_eqb_eq, allclose_spec. split.
    + intros [Ht Ha]. exists isd, msd. repeat split; assumption.
    + intros [? [? [H1 [H2 [_ [Ha Ht]]]]]]. injection H1 as <-; injection H2 as <-. split; assumption.
  - rewrite allclose_spec. split.
    + intros Ha. exists isd, msd. repeat split; assumption.
    + intros [? [? [H1 [H2 [_ [Ha _]]]]]]. injection H1 as <-; injection H2 as <-. assumption.
  - rewrite andb_true_iff, list_nat_eqb_eq, allclose_spec. split.
    + intros [Ht Ha]. exists isd, msd. repeat split; assumption.
    + intros [? [? [H1 [H2 [_ [Ha Ht]]]]]]. injection H1 as <-; injection H2 as <-. split; assumption.
Qed.

Lemma nth_res_ok {A} (l : list A) i d : i < length l -> nth_res l i = Ok (nth i l d).
Proof.
  intros H. unfold nth_res. destruct (nth_error l i) eqn:E.
  - f_equal. symmetry. apply nth_error_nth. exact E.
  - apply nth_error_None in E. lia.
Qed.

Lemma nth_res_cases {A} (l : list A) i : (exists x, nth_res l i = Ok x) \/ nth_res l i = Err EIndex.
Proof. unfold nth_res. destruct (nth_error l i); eauto. Qed.

Section WithV.
  Context {V : Type} (vnone : V).

  (** ** Simple structural facts (no validity needed) *)

  Lemma get_meta_absent im (e : ext V) k ix d :
    visible (hdr_of e) (lookup_e e k) = None -> get_meta im e k ix d = Ok d.
  Proof. unfold get_meta. intros ->. reflexivity. Qed.

  Lemma get_meta_const im (e : ext V) k ix d vs :
    visible (hdr_of e) (lookup_e e k) = Some (GConst, vs) -> get_meta im e k ix d = Ok (List.hd d vs).
  Proof. unfold get_meta. intros ->. reflexivity. Qed.

  Lemma get_meta_noindex im (e : ext V) k d :
    get_meta im e k None d =
    Ok (match visible (hdr_of e) (lookup_e e k) with Some (GConst, vs) => List.hd d vs | _ => d end).
  Proof.
    unfold get_meta. destruct (visible (hdr_of e) (lookup_e e k)) as [[c vs]|]; [|reflexivity].
    destruct c; cbn [cls_eqb]; try reflexivity; destruct (meta_valid im (hdr_of e) _); reflexivity.
  Qed.

  Lemma get_meta_mismatch im (e : ext V) k ix d c vs :
    visible (hdr_of e) (lookup_e e k) = Some (c, vs) -> c <> GConst ->
    ~ agrees im (hdr_of e) c -> get_meta im e k ix d = Ok d.
  Proof.
    intros Hv Hc Hn. unfold get_meta. rewrite Hv.
    destruct (cls_eqb_spec c GConst) as [->|_]; [contradiction|].
    destruct (meta_valid im (hdr_of e) c) eqn:Em; [apply meta_valid_spec in Em; contradiction | reflexivity].
  Qed.

  Lemma get_meta_bounds im (e : ext V) k ix d c vs :
    visible (hdr_of e) (lookup_e e k) = Some (c, vs) -> c <> GConst ->
    agrees im (hdr_of e) c ->
    (length ix <> length (ishape im) \/ index_in_bounds ix (ishape im) = false) ->
    get_meta im e k (Some ix) d = Err EIndex.
  Proof.
    intros Hv Hc Ha Hb. unfold get_meta. rewrite Hv.
    destruct (cls_eqb_spec c GConst) as [->|_]; [contradiction|].
    apply meta_valid_spec in Ha. rewrite Ha. cbn [negb].
    destruct (length ix =? length (ishape im)) eqn:El; cbn [negb]; [|reflexivity].
    apply Nat.eqb_eq in El. destruct Hb as [Hb|Hb]; [contradiction|]. rewrite Hb. reflexivity.
  Qed.

  (** totality: whatever the image header / index / extension, only IndexError can escape *)
  Lemma get_meta_total im (e : ext V) k ix d :
    (exists v, get_meta im e k ix d = Ok v) \/ get_meta im e k ix d = Err EIndex.
  Proof.
    unfold get_meta.
    destruct (visible (hdr_of e) (lookup_e e k)) as [[c vs]|]; [|eauto].
    destruct (cls_eqb c GConst) eqn:Ec; [eauto|].
    destruct (meta_valid im (hdr_of e) c) eqn:Em; cbn [negb]; [|eauto].
    destruct ix as [ix|]; [|eauto].
    destruct (negb (length ix =? length (ishape im))); [eauto|].
    destruct (negb (index_in_bounds ix (ishape im))); [eauto|].
    assert (Hsl : forall isd, islice im = Some isd -> True) by trivial.
    set (ixn := map Z.to_nat ix).
    destruct c; try discriminate Ec.
    - (* GSlices *)
      unfold meta_valid in Em. destruct (islice im) as [sd|]; [|discriminate].
      destruct (nth_res_cases (ishape im) sd) as [[n ->]| ->]; [|eauto]. cbn [bind].
      destruct (nth_res_cases ixn sd) as [[i ->]| ->]; [|eauto]. cbn [bind].
      apply nth_res_cases.
    - (* TSamples *)
      destruct (nth_res_cases ixn 3) as [[i3 ->]| ->]; [|eauto]. cbn [bind].
      destruct (length (ishape im) =? 5).
      + destruct (nth_res_cases ixn 4) as [[i4 ->]| ->]; [|eauto]. cbn [bind].
        destruct (nth_res_cases (ishape im) 3) as [[s3 ->]| ->]; [|eauto]. cbn [bind].
        apply nth_res_cases.
      + cbn [bind]. apply nth_res_cases.
    - (* TSlices *)
      unfold meta_valid in Em. destruct (islice im) as [sd|]; [|discriminate].
      destruct (nth_res_cases (ishape im) sd) as [[n ->]| ->]; [|eauto]. cbn [bind].
      destruct (nth_res_cases ixn sd) as [[i ->]| ->]; [|eauto]. cbn [bind].
      apply nth_res_cases.
    - (* VSamples *)
      destruct (nth_res_cases ixn 4) as [[i4 ->]| ->]; [|eauto]. cbn [bind].
      apply nth_res_cases.
    - (* VSlices *)
      unfold meta_valid in Em. destruct (islice im) as [sd|]; [|discriminate].
      destruct (nth_res_cases (ishape im) sd) as [[n ->]| ->]; [|eauto]. cbn [bind].
      destruct (nth_res_cases ixn sd) as [[i ->]| ->]; [|eauto]. cbn [bind].
      destruct (nth_res_cases ixn 3) as [[i3 ->]| ->]; [|eauto]. cbn [bind].
      apply nth_res_cases.
  Qed.

  Lemma getitem_spec (e : ext V) k v :
    getitem e k = Ok v <-> exists vs, lookup_e e k = Some (GConst, v :: vs).
  Proof.
    unfold getitem. destruct (lookup_e e k) as [[c vs]|].
    - destruct c; try (split; [discriminate | intros [? H]; discriminate]).
      destruct vs as [|x xs]; [split; [discriminate | intros [? H]; discriminate]|].
      split; [intros H; injection H as ->; eauto | intros [? H]; injection H as -> _; reflexivity].
    - split; [discriminate | intros [? H]; discriminate].
  Qed.
End WithV.
