(** End-to-end corollary for get_subset WITHOUT a side check: on a valid, non-degenerate extension the states that _copy_slice /
    _copy_sample hand to _simplify are storable - for the subset along the slice dimension whenever idx is in range, for a
    subset along time / vector whenever the extension has more than one slice (with one slice the per-slice classes of the
    piece have multiplicity 1 before _simplify: DESIGN 3.2).  Header facts of the piece from C07 (Ext/ProofsValidSubset.v
    [subset_hdr_facts]). *)
From Coq Require Import List Bool Arith NArith ZArith QArith Lia.
From DV Require Import Common.Res Common.Str Common.Jv Common.PyOps2 Common.PyOps2Dyn Generated.T_classes Generated.T_src_state
     Ext.Types Ext.Classes Ext.Seq Ext.SeqFacts Ext.Model Ext.Spec Ext.TableFacts Ext.ValidFacts
     Ext.ProofsValidBase Ext.ProofsValidSimplify Ext.ProofsValidSubset Ext.SrcEqAlg Ext.SrcEqState Ext.SrcEqSubset Ext.SrcEqSample Ext.SrcEqGetSubset
     Link.Abs Link.ProofsTo Ext.SrcEqStateLink Ext.SrcEqGetSubsetLink Ext.SrcEqValidLink Ext.SrcEqTopMerge.
Import ListNotations.
Local Open Scope nat_scope.

(** * The header of a piece: which sample classes it allows, and that they are never of multiplicity 1 *)

Lemma tsamples_invalid (hr : hdr) : shape_wf hr -> class_ok (shape hr) TSamples = false -> snd (fst (dims hr)) = 1.
Proof.
  intros Hwf H. unfold dims. cbn [fst snd]. unfold class_ok in H. cbn [base_of] in H.
  shape_cases hr Hwf; rewrite Hsh in *; cbn [length nth] in *; try reflexivity; try discriminate H.
  apply negb_false_iff, Nat.eqb_eq in H. exact H.
Qed.

Lemma vsamples_invalid (hr : hdr) : shape_wf hr -> class_ok (shape hr) VSamples = false -> snd (dims hr) = 1.
Proof.
  intros Hwf H. unfold dims. cbn [fst snd]. unfold class_ok in H. cbn [base_of] in H.
  shape_cases hr Hwf; rewrite Hsh in *; cbn [length nth] in *; try reflexivity; discriminate H.
Qed.

Section Piece.
  Variables (h hr : hdr) (dim : nat).
  Hypothesis Hwf : shape_wf h.
  Hypothesis Hhr : subset_hdr h dim = Ok hr.
  Hypothesis Hdim : dim < ndim h.

  Lemma HF : shape_wf hr /\ flags_tight hr /\ sdim hr = sdim h /\ aff hr = aff h /\ dims hr = sub_dims h dim /\
             (ndim hr = 5 <-> ndim h = 5 /\ snd (dims hr) <> 1) /\ (ndim hr = 3 <-> snd (fst (dims hr)) = 1 /\ snd (dims hr) = 1).
  Proof. exact (subset_hdr_facts h dim hr Hwf Hhr Hdim). Qed.

  Lemma piece_wf : shape_wf hr. Proof. exact (proj1 HF). Qed.
  Lemma piece_tight : flags_tight hr. Proof. exact (proj1 (proj2 HF)). Qed.
  Lemma piece_sdim : sdim hr = sdim h. Proof. exact (proj1 (proj2 (proj2 HF))). Qed.
  Lemma piece_dims : dims hr = sub_dims h dim. Proof. exact (proj1 (proj2 (proj2 (proj2 (proj2 HF))))). Qed.

  Lemma piece_mult (c : cls) : class_ok (shape hr) c = true -> (is_slices c = true -> sdim hr <> None) ->
    multiplicity hr c = Ok (mult_spec (dims hr) c).
  Proof.
    intros Hok Hs. destruct piece_wf as [Hn [_ Hsd]]. apply multiplicity_ok; [exact Hn | exact Hok|].
    intros Hsl. specialize (Hs Hsl). destruct (sdim hr) as [d|] eqn:Ed; [|exfalso; apply Hs; reflexivity].
    exists d. split; [reflexivity | exact (Hsd d eq_refl)].
  Qed.

  (** a sample class the piece allows has at least two values *)
  Lemma piece_samples_nondeg (c : cls) : is_samples c = true -> class_ok (shape hr) c = true -> mult_spec (dims hr) c <> 1.
  Proof.
    intros Hs Hok. destruct HF as [Hwfr [_ [_ [_ [_ [H5 H3]]]]]]. pose proof (dims_pos hr Hwfr) as Hp.
    unfold dims in *. unfold class_ok in Hok. unfold ndim in H5, H3.
    shape_cases hr Hwfr; rewrite Hsh in *; cbn [length nth fst snd base_of] in *; destruct c; try discriminate Hs; try discriminate Hok;
      cbn [mult_spec]; destruct Hp as [P1 [P2 P3]].
    - (* 4-D, time samples: the last extent of a trimmed shape is not 1 *)
      intros Hx. assert (t = 1) by nia. subst t. destruct H3 as [_ H3]. specialize (H3 (conj eq_refl eq_refl)). discriminate H3.
    - apply negb_true_iff, Nat.eqb_neq in Hok. intros Hx. assert (t = 1) by nia. contradiction.
    - destruct H5 as [H5 _]. destruct (H5 eq_refl) as [_ Hv]. exact Hv.
  Qed.
End Piece.

(** * The side conditions of SRC_get_subset from the format rules *)

Section SideValid.
  Variables (h hr : hdr) (dim idx : nat).
  Hypothesis Hwf : shape_wf h.
  Hypothesis Hhr : subset_hdr h dim = Ok hr.
  Hypothesis Hdim : dim < ndim h.

  Notation Hwfr := (piece_wf h hr dim Hwf Hhr Hdim).
  Notation Htight := (piece_tight h hr dim Hwf Hhr Hdim).

  Lemma valid_ok (c : cls) : class_valid hr c = class_ok (shape hr) c. Proof. apply class_valid_ok. Qed.

  (** the subset along the slice dimension: what _copy_slice stores before _simplify *)
  Lemma side_slice (c : cls) (vs : list jv) :
    odim_is (sdim h) dim = true -> idx < nth dim (shape h) 0 -> kvalid h (Some (c, vs)) -> is_slices c = true ->
    forall dest dm sub, slice_dest hr c = Ok dest -> multiplicity hr dest = Ok dm ->
                        slice_subset (n_slices h) dm idx vs = Ok sub -> slice_ok hr dest sub.
  Proof.
    intros Ho Hidx [Hok [Hsd Hl]] Hs dest dm sub Hd Hm Hsub.
    assert (Esd : sdim h = Some dim).
    { unfold odim_is in Ho. destruct (sdim h) as [d|]; [|discriminate Ho]. apply Nat.eqb_eq in Ho. subst d. reflexivity. }
    destruct (dims h) as [[nS nT] nV] eqn:Edims.
    assert (EnS : nS = nth dim (shape h) 0).
    { unfold dims in Edims. rewrite Esd in Edims. injection Edims as <- _ _. apply nth_indep. exact Hdim. }
    assert (Hns : n_slices h = Some nS) by (unfold n_slices; rewrite Esd, EnS; reflexivity).
    assert (Hdr : dims hr = (1, nT, nV)).
    { rewrite (piece_dims h hr dim Hwf Hhr Hdim). unfold sub_dims. rewrite Edims, Ho. reflexivity. }
    pose proof (dims_pos hr Hwfr) as Hp. rewrite Hdr in Hp. destruct Hp as [_ [PT PV]].
    set (m0 := mult_spec (1, nT, nV) c).
    assert (Hlen : length vs = m0 * nS).
    { rewrite Hl. unfold m0. destruct c; try discriminate Hs; cbn [mult_spec]; lia. }
    assert (Hm0 : 1 <= m0) by (unfold m0; destruct c; cbn [mult_spec]; nia).
    (* the destination: a sample class the piece allows, or the constant *)
    assert (Hdest : class_ok (shape hr) dest = true /\ is_slices dest = false /\
                    (dest <> GConst -> is_samples dest = true) /\ (dest = GConst -> m0 = 1)).
    { unfold slice_dest, first_valid in Hd.
      rewrite (proj1 copy_dests_eq), (proj1 (proj2 copy_dests_eq)) in Hd. cbn [find] in Hd. rewrite !valid_ok in Hd.
      assert (Hg : class_ok (shape hr) GConst = true) by (apply class_ok_global; [apply Hwfr | reflexivity]).
      destruct (base_of c) eqn:Eb.
      - destruct (class_ok (shape hr) TSamples) eqn:E1; [injection Hd as <-; repeat split; try assumption; try reflexivity; discriminate|].
        destruct (class_ok (shape hr) VSamples) eqn:E2; [injection Hd as <-; repeat split; try assumption; try reflexivity; discriminate|].
        rewrite Hg in Hd. injection Hd as <-. split; [exact Hg|]. split; [reflexivity|]. split; [intros Hx; contradiction|]. intros _.
        pose proof (tsamples_invalid hr Hwfr E1) as H1. pose proof (vsamples_invalid hr Hwfr E2) as H2. rewrite Hdr in H1, H2. cbn [fst snd] in H1, H2.
        unfold m0. subst. destruct c; try discriminate Hs; try discriminate Eb. reflexivity.
      - injection Hd as <-. split; [exact Hg|]. split; [reflexivity|]. split; [intros Hx; contradiction|]. intros _.
        unfold m0. destruct c; try discriminate Hs; try discriminate Eb. reflexivity.
      - destruct (class_ok (shape hr) TSamples) eqn:E1; [injection Hd as <-; repeat split; try assumption; try reflexivity; discriminate|].
        rewrite Hg in Hd. injection Hd as <-. split; [exact Hg|]. split; [reflexivity|]. split; [intros Hx; contradiction|]. intros _.
        pose proof (tsamples_invalid hr Hwfr E1) as H1. rewrite Hdr in H1. cbn [fst snd] in H1.
        unfold m0. subst. destruct c; try discriminate Hs; try discriminate Eb. cbn [mult_spec]. lia. }
    destruct Hdest as [Hdok [Hdsl [Hdsam Hdconst]]].
    assert (Hdm : dm = mult_spec (1, nT, nV) dest).
    { rewrite (piece_mult h hr dim Hwf Hhr Hdim dest Hdok ltac:(intros Hx; rewrite Hdsl in Hx; discriminate Hx)), Hdr in Hm. injection Hm as <-. reflexivity. }
    assert (Hdnd : dest <> GConst -> 2 <= dm).
    { intros Hne. pose proof (piece_samples_nondeg h hr dim Hwf Hhr Hdim dest (Hdsam Hne) Hdok) as Hx. rewrite Hdr in Hx.
      assert (1 <= dm) by (rewrite Hdm; destruct dest; cbn [mult_spec]; nia). rewrite <- Hdm in Hx. lia. }
    (* the values *)
    unfold slice_subset in Hsub. rewrite Hns in Hsub.
    assert (HnS : 1 <= nS) by lia.
    destruct nS as [|nS']; [lia|]. cbn [bind] in Hsub. cbv zeta in Hsub.
    assert (Hs0 : length (every_nth idx (S nS') vs) = m0) by (apply every_nth_len; [lia | lia | exact Hlen]).
    rewrite Hs0 in Hsub.
    assert (Hsublen : (dest = GConst -> length sub = 1) /\ (dest <> GConst -> 2 <= length sub)).
    { destruct (m0 <? dm) eqn:Elt.
      - apply Nat.ltb_lt in Elt. replace (m0 =? 0) with false in Hsub by (symmetry; apply Nat.eqb_neq; lia). injection Hsub as <-.
        rewrite rep_list_len, Hs0. split.
        + intros Hc. rewrite (Hdconst Hc) in Elt. rewrite Hdm, Hc in Elt. cbn [mult_spec] in Elt. lia.
        + intros Hne. specialize (Hdnd Hne). assert (Hq : 1 <= dm / m0) by (apply Nat.div_str_pos; lia).
          destruct (Nat.eq_dec m0 1) as [E1|E1]; [rewrite E1, Nat.div_1_r; lia|]. assert (2 <= m0) by lia. nia.
      - apply Nat.ltb_ge in Elt. injection Hsub as <-. rewrite Hs0. split.
        + intros Hc. exact (Hdconst Hc).
        + intros Hne. specialize (Hdnd Hne). lia. }
    destruct Hsublen as [L1 L2].
    split; [|split; [rewrite valid_ok; exact Hdok | split]].
    - split; [|exact L1]. intros H1. destruct (cls_eqb_spec dest GConst) as [He|Hne]; [exact He|]. specialize (L2 Hne). lia.
    - intros Hne. rewrite Hm. intros Hx. injection Hx as Hx. specialize (Hdnd Hne). lia.
    - intros Hx. rewrite Hdsl in Hx. discriminate Hx.
  Qed.
End SideValid.

Section SideSample.
  Variables (h hr : hdr) (dim idx : nat).
  Hypothesis Hwf : shape_wf h.
  Hypothesis Hhr : subset_hdr h dim = Ok hr.
  Hypothesis Hdim : dim < ndim h.
  Hypothesis Ho : odim_is (sdim h) dim = false.
  Hypothesis H3 : (dim <? 3) = false.
  Hypothesis Hn1 : n_slices h <> Some 1.

  Notation Hwfr := (piece_wf h hr dim Hwf Hhr Hdim).
  Notation sb := (if dim =? 3 then BTime else BVector).

  Lemma sample_dest_range (c dest : cls) : sample_dest hr c = Ok dest -> dest = VSamples \/ dest = GConst.
  Proof.
    unfold sample_dest. rewrite (proj1 (proj2 (proj2 copy_dests_eq))). cbn [find rev app].
    destruct (negb (cls_eqb VSamples c) && class_valid hr VSamples); [intros H; injection H as <-; left; reflexivity|].
    destruct (negb (cls_eqb GConst c) && class_valid hr GConst); intros H; injection H as <-; right; reflexivity.
  Qed.

  (** with more than one slice a slices class the piece allows is never of multiplicity 1 *)
  Lemma piece_slices_nondeg (c : cls) : c = VSlices \/ c = GSlices -> class_ok (shape hr) c = true -> sdim h <> None ->
    multiplicity hr c <> Ok 1.
  Proof.
    intros Hc Hok Hsd.
    rewrite (piece_mult h hr dim Hwf Hhr Hdim c Hok ltac:(intros _; rewrite (piece_sdim h hr dim Hwf Hhr Hdim); exact Hsd)).
    rewrite (piece_dims h hr dim Hwf Hhr Hdim). unfold sub_dims. rewrite Ho, H3.
    pose proof (dims_pos h Hwf) as Hp. destruct (dims h) as [[nS nT] nV] eqn:Ed. destruct Hp as [P1 [P2 P3]].
    assert (HnS : nS <> 1).
    { intros ->. apply Hn1. unfold n_slices. unfold dims in Ed. destruct (sdim h) as [d|] eqn:Esd; [|exfalso; apply Hsd; reflexivity].
      injection Ed as E1 _ _. f_equal. destruct Hwf as [[Hn _] [_ Hd3]]. specialize (Hd3 d Esd).
      rewrite <- E1. apply nth_indep. unfold ndim in Hn. lia. }
    intros Hx. injection Hx as Hx. destruct (dim =? 3); destruct Hc as [-> | ->]; cbn [mult_spec] in Hx; nia.
  Qed.

  Lemma side_sample (c : cls) (vs : list jv) : c <> GConst ->
    (forall dd vals, sample_plan h hr c sb idx vs = Ok (dd, vals, true) -> has_base hr (base_of dd) = true) ->
    forall dd vals, sample_plan h hr c sb idx vs = Ok (dd, vals, true) -> st_ok hr dd vals.
  Proof.
    intros Hcne Hput dd vals Hp. pose proof (Hput dd vals Hp) as Hbase.
    assert (Hcv : class_valid hr dd = true) by (rewrite class_valid_ok, <- (piece_tight h hr dim Hwf Hhr Hdim dd); exact Hbase).
    assert (Hcok : class_ok (shape hr) dd = true) by (rewrite <- class_valid_ok; exact Hcv).
    unfold sample_plan in Hp. unfold st_ok. split; [exact Hcv|].
    destruct (is_samples c) eqn:Es.
    - destruct (cbase_eqb (base_of c) sb).
      + destruct (sample_dest hr c) as [dest|] eqn:Ed; [|discriminate Hp]. cbn [bind] in Hp.
        destruct (multiplicity hr dest) as [dm|] eqn:Em; [|discriminate Hp]. cbn [bind] in Hp.
        destruct (dm =? 1) eqn:E1; [destruct (nth_error vs idx); discriminate Hp|]. apply Nat.eqb_neq in E1.
        destruct (shape_at h 3) as [[|s]|]; try discriminate Hp. injection Hp as <- _.
        split; [|split].
        * intros ->. exfalso. unfold multiplicity in Em. rewrite Hcv in Em. injection Em as <-. apply E1. reflexivity.
        * intros _. rewrite Em. intros Hx. injection Hx as Hx. contradiction.
        * intros Hsl. destruct (sample_dest_range c dest Ed) as [-> | ->]; discriminate Hsl.
      + destruct (cls_eqb c TSamples) eqn:Et; [|discriminate Hp]. apply cls_eqb_eq in Et. subst c.
        destruct (multiplicity hr TSamples) as [dm|] eqn:Em; [|discriminate Hp]. injection Hp as <- _.
        split; [intros Hx; discriminate Hx|]. split; [|intros Hx; discriminate Hx]. intros _.
        rewrite (piece_mult h hr dim Hwf Hhr Hdim TSamples Hcok ltac:(intros Hx; discriminate Hx)).
        intros Hx. injection Hx as Hx. exact (piece_samples_nondeg h hr dim Hwf Hhr Hdim TSamples eq_refl Hcok Hx).
    - destruct (cbase_eqb (base_of c) sb) eqn:Eb.
      + destruct (preserving (Some c)) as [pc|]; [|discriminate Hp]. destruct (first_valid hr pc); discriminate Hp.
      + destruct (negb (cbase_eqb (base_of c) BGlobal)) eqn:Eg.
        * destruct (dim =? 3) eqn:E3; [|discriminate Hp]. destruct (n_slices hr) as [n|] eqn:Enr; [|discriminate Hp]. injection Hp as <- _.
          assert (Hcls : c = VSlices).
          { destruct c; try discriminate Es; cbn in Eg, Eb; try discriminate Eg; try discriminate Eb; reflexivity. }
          subst c.
          assert (Hsdh : sdim h <> None).
          { rewrite <- (piece_sdim h hr dim Hwf Hhr Hdim). unfold n_slices in Enr. destruct (sdim hr); [discriminate | discriminate Enr]. }
          split; [intros Hx; discriminate Hx|]. split; [|intros _; discriminate].
          intros _. exact (piece_slices_nondeg VSlices (or_introl eq_refl) Hcok Hsdh).
        * destruct (global_slice_subset h vs sb idx) as [sub|] eqn:Eg2; [|discriminate Hp]. injection Hp as <- _.
          assert (c = GSlices) by (destruct c; try discriminate Es; cbn in Eg; try discriminate Eg; try reflexivity; exfalso; apply Hcne; reflexivity). subst c.
          assert (Hsdh : sdim h <> None).
          { unfold global_slice_subset in Eg2. unfold n_slices in Eg2. destruct (sdim h); [discriminate | discriminate Eg2]. }
          split; [intros Hx; discriminate Hx|]. split.
          -- intros _. exact (piece_slices_nondeg GSlices (or_intror eq_refl) Hcok Hsdh).
          -- intros _. unfold n_slices. rewrite (piece_sdim h hr dim Hwf Hhr Hdim). destruct (sdim h); [discriminate | exfalso; apply Hsdh; reflexivity].
  Qed.
End SideSample.

(** * get_subset on a valid, non-degenerate extension *)

Lemma deg_of_valid (h hr : hdr) (dim : nat) (c : cls) :
  shape_wf h -> subset_hdr h dim = Ok hr -> dim < ndim h -> deg_ok h hr dim c.
Proof.
  intros Hwf Hhr Hdim Ho H3 Hs Hb dest Hd Hm.
  assert (Hr : dest = VSamples \/ dest = GConst).
  { revert Hd. unfold sample_dest. rewrite (proj1 (proj2 (proj2 copy_dests_eq))). cbn [find rev app].
    destruct (negb (cls_eqb VSamples c) && class_valid hr VSamples); [intros H; injection H as <-; left; reflexivity|].
    destruct (negb (cls_eqb GConst c) && class_valid hr GConst); intros H; injection H as <-; right; reflexivity. }
  destruct Hr as [-> | ->]; [|reflexivity]. exfalso.
  pose proof (multiplicity_class_ok hr VSamples 1 Hm) as Hok.
  rewrite (piece_mult h hr dim Hwf Hhr Hdim VSamples Hok ltac:(intros Hx; discriminate Hx)) in Hm. injection Hm as Hm.
  exact (piece_samples_nondeg h hr dim Hwf Hhr Hdim VSamples eq_refl Hok Hm).
Qed.

Theorem top_get_subset_valid (qtok : Q -> str) (mk : list nat -> option nat -> res jv) (e r : ext jv) (dim idx : nat) (o0 : obj) :
  valid e -> nondegenerate e -> dim < ndim (hdr_of e) ->
  (odim_is (sdim (hdr_of e)) dim = true -> idx < nth dim (shape (hdr_of e)) 0) ->
  (odim_is (sdim (hdr_of e)) dim = false -> (dim <? 3) = false -> n_slices (hdr_of e) <> Some 1) ->
  get_subset jv_eqb JNull e dim idx = Ok r ->
  mk (shape (hdr_of r)) (sdim (hdr_of r)) = Ok (JObj o0) -> Holds o0 (hdr_of r) (fun _ => None) ->
  subset_hdr (hdr_of e) dim = Ok (hdr_of r) /\
  exists o', get_subset_st mk classifications (shape (hdr_of e)) (sdim (hdr_of e)) (n_slices (hdr_of e)) tt tt preserving_changes
                           (okeys const_tests) (okeys repeat_tests) (to_content qtok e) dim idx = Ok (JObj o') /\
             Holds o' (hdr_of r) (lookup_e r).
Proof.
  intros Hv Hn Hdim Hidx Hn1 Hg Hmk H0. destruct (valid_ext_ok e Hv Hn) as (Hnd & _ & Hb & _ & _).
  pose proof (hdr_wf_shape_wf _ (proj1 Hv)) as Hwf.
  set (h := hdr_of e) in *.
  assert (Hsub : exists hr, subset_hdr h dim = Ok hr /\ hdr_of r = hr /\
                 forall k, exists s, subset_k jv_eqb JNull h hr dim idx (lookup_e e k) = Ok s).
  { unfold get_subset in Hg. fold h in Hg. destruct (subset_hdr h dim) as [hr|]; [|discriminate Hg]. cbn [bind] in Hg.
    destruct (mapM _ _); [|discriminate Hg]. cbn [bind] in Hg. destruct (map_keys _ _) as [ents|] eqn:Em; [|discriminate Hg]. injection Hg as <-.
    exists hr. split; [reflexivity|]. split; [reflexivity|]. intros k.
    destruct (in_dec (fun a b => match str_eqb_spec a b with ReflectT _ p => left p | ReflectF _ p => right p end) k (dedup_keys [] (keys_e e))) as [Hin|Hni].
    - exact (map_keys_all_ok _ _ _ k Em Hin).
    - assert (Hl : lookup_e e k = None) by (unfold lookup_e; apply assoc_None; intros Hk; apply Hni; apply dedup_keys_nil_In; exact Hk).
      rewrite Hl. exists None. reflexivity. }
  destruct Hsub as [hr [Hhr [Ehr Hkeys]]]. subst hr. set (hr := hdr_of r) in *.
  split; [exact Hhr|].
  refine (proj2 (get_subset_ext_ref qtok mk e r dim idx o0 Hnd Hb Hg Hmk H0
                  (fun c _ => deg_of_valid h hr dim c Hwf Hhr Hdim) _)).
  intros k c vs Hk Hcv Hc. pose proof (valid_kvalid e k Hv) as Hkv. fold h in Hkv. rewrite Hk in Hkv. split.
  - intros Ho Hs. fold h in Ho. exact (side_slice h hr dim idx Hwf Hhr Hdim c vs Ho (Hidx Ho) Hkv Hs).
  - intros Ho H3. fold h in Ho. apply (side_sample h hr dim idx Hwf Hhr Hdim Ho H3 (Hn1 Ho H3) c vs Hc).
    intros dd vals Hp. destruct (Hkeys k) as [s Hs]. rewrite Hk in Hs. unfold subset_k, visible in Hs. fold h in Hcv. rewrite Hcv in Hs.
    replace (cls_eqb c GConst) with false in Hs by (destruct c; try reflexivity; exfalso; apply Hc; reflexivity). rewrite Ho, H3 in Hs.
    assert (Hcs : copy_sample_k jv_eqb JNull h hr c vs (if dim =? 3 then BTime else BVector) idx = Ok s) by (destruct (dim =? 3); exact Hs).
    rewrite copy_sample_k_plan, Hp in Hcs. cbn [bind run_plan] in Hcs. unfold put in Hcs.
    destruct (has_base hr (base_of dd)); [reflexivity | discriminate Hcs].
Qed.
