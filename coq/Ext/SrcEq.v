(** The hand-written models of the small pure functions the extension algebra rests on are EQUAL, for all
    inputs, to the definitions GENERATED from the current Python sources (coq/Generated/T_src_ext.v, produced
    on every run by tools/tables/t_src_ext.py + py2coq.py; primitives in Common/PyOps2.v):

      Seq.is_constant, Seq.is_repeating            = dcmmeta.is_constant, is_repeating
      Model.valid_classes (+ ndim_ok)              = DcmMetaExtension.get_valid_classes
      Model.multiplicity                           = DcmMetaExtension.get_multiplicity
      Model.const_period                           = DcmMetaExtension._get_const_period
      Types.n_slices                               = DcmMetaExtension.n_slices   (on slice_dim < ndim)

    Classifications are pairs of names in the sources and the inductive [cls] in the model; the two are
    related by [name_of_cls] (and [TableFacts.tables_decode] says no name of the tables is lost by decoding).
    If one of the Python functions is edited inside the translator's vocabulary, T_src_ext.v changes and these
    proofs re-check against what the code says now. *)
From Coq Require Import List Bool Arith NArith Lia.
From DV Require Import Common.Res Common.Str Common.PyOps2 Generated.T_classes Generated.T_src_ext
     Ext.Types Ext.Classes Ext.Seq Ext.SeqFacts Ext.Model Ext.TableFacts.
Import ListNotations.
Local Open Scope nat_scope.

(** * Lists *)

Lemma chunks_map {A} (n p : nat) (l : list A) :
  chunks n p l = map (fun i => firstn p (skipn (i * p) l)) (seq 0 n).
Proof.
  revert l. induction n as [|n IH]; intros l; [reflexivity|].
  cbn [chunks seq map]. f_equal. rewrite IH, <- seq_shift, map_map.
  apply map_ext. intros i. rewrite skipn_skipn'. reflexivity.
Qed.

Lemma skipn_cons_nth_error {A} (a : nat) (l : list A) y ys : skipn a l = y :: ys -> nth_error l a = Some y.
Proof.
  revert l. induction a as [|a IH]; intros l H.
  - cbn in H. subst l. reflexivity.
  - destruct l as [|x r]; [discriminate H|]. cbn [skipn] in H. cbn [nth_error]. apply IH. exact H.
Qed.

Section WithV.
  Context {V : Type} (veqb : V -> V -> bool).

  Lemma py_list_eqb_eq (a b : list V) : py_list_eqb veqb a b = list_eqb veqb a b.
  Proof.
    unfold py_list_eqb. revert b. induction a as [|x xs IH]; intros [|y ys]; try reflexivity.
    cbn [length Nat.eqb combine forallb list_eqb fst snd]. rewrite <- IH.
    destruct (veqb x y); [rewrite andb_true_l|rewrite andb_false_l, andb_false_r]; reflexivity.
  Qed.

  (** [all(val == sequence[k] for val in chunk)] where [chunk] starts at position [k] of [sequence] *)
  Lemma all_eq_first_src (l chunk : list V) (k : nat) :
    (forall y ys, chunk = y :: ys -> nth_error l k = Some y) ->
    py_all (fun val => bind (py_index l (BPos k)) (fun t => Ok (veqb val t))) chunk = Ok (all_eq_first veqb chunk).
  Proof.
    intros H. destruct chunk as [|y ys]; [reflexivity|].
    unfold all_eq_first. apply py_all_pure. intros x _.
    unfold py_index. rewrite (H y ys eq_refl). reflexivity.
  Qed.

  Theorem is_constant_src_eq (l : list V) (period : option nat) :
    is_constant_src veqb l period = is_constant veqb l period.
  Proof.
    unfold is_constant_src, is_constant. destruct period as [p|].
    - destruct (Nat.leb p 1) eqn:Hp; [reflexivity|]. apply Nat.leb_gt in Hp.
      rewrite py_mod_ok by lia. cbn [bind].
      destruct (negb (length l mod p =? 0)); [reflexivity|].
      rewrite py_floordiv_ok by lia. cbn [bind].
      unfold py_range. rewrite Nat.sub_0_r.
      rewrite (py_for_test _ _ (fun i => all_eq_first veqb (firstn p (skipn (i * p) l)))).
      + cbn [bind]. rewrite chunks_map, forallb_map.
        destruct (forallb _ (seq 0 (length l / p))); reflexivity.
      + intros i _. rewrite pslice_pos. replace (i * p + p - i * p) with p by lia.
        rewrite all_eq_first_src.
        * cbn [bind]. destruct (all_eq_first veqb _); reflexivity.
        * intros y ys Hc.
          destruct (skipn (i * p) l) as [|z zs] eqn:Hs.
          -- rewrite firstn_nil in Hc. discriminate Hc.
          -- destruct p as [|p']; [lia|]. cbn [firstn] in Hc. injection Hc as -> _.
             apply (skipn_cons_nth_error _ _ _ _ Hs).
    - rewrite all_eq_first_src; [reflexivity|].
      intros y ys ->. reflexivity.
  Qed.

  Theorem is_repeating_src_eq (l : list V) (period : nat) :
    is_repeating_src veqb l period = is_repeating veqb l period.
  Proof.
    unfold is_repeating_src, is_repeating.
    destruct (Nat.leb period 1) eqn:Hp; [reflexivity|]. apply Nat.leb_gt in Hp. cbn [orb].
    destruct (Nat.leb (length l) period); [reflexivity|].
    rewrite py_mod_ok by lia. cbn [bind].
    destruct (negb (length l mod period =? 0)); [reflexivity|].
    rewrite py_floordiv_ok by lia. cbn [bind].
    rewrite (py_for_test _ _ (fun i => list_eqb veqb (firstn period (skipn (i * period) l)) (firstn period l))).
    - cbn [bind]. rewrite chunks_map. unfold py_range.
      destruct (length l / period) as [|m].
      + reflexivity.
      + cbn [seq map tl]. rewrite forallb_map. replace (S m - 1) with m by lia.
        destruct (forallb _ (seq 1 m)); reflexivity.
    - intros i _. rewrite pslice_pos, pslice_to, py_list_eqb_eq.
      replace (i * period + period - i * period) with period by lia.
      destruct (list_eqb veqb _ _); reflexivity.
  Qed.
End WithV.

(** * Classes *)

(** the name tables of the sources are the decoded tables of the model, re-encoded *)
Lemma classifications_names : map name_of_cls classifications_c = classifications.
Proof. vm_compute. reflexivity. Qed.

Lemma cls_of_name_of_cls c : cls_of_name (name_of_cls c) = Some c.
Proof. destruct c; vm_compute; reflexivity. Qed.

Lemma class_names : map name_of_cls classifications_c = classifications /\ (forall c, cls_of_name (name_of_cls c) = Some c).
Proof. exact (conj classifications_names cls_of_name_of_cls). Qed.

Lemma cname_eq_cls c d : py_pair_eqb str_eqb str_eqb (name_of_cls c) (name_of_cls d) = cls_eqb c d.
Proof. destruct c, d; vm_compute; reflexivity. Qed.

Lemma py_in_names c l : py_in (py_pair_eqb str_eqb str_eqb) (name_of_cls c) (map name_of_cls l) = mem_cls c l.
Proof.
  unfold py_in, mem_cls. induction l as [|d r IH]; [reflexivity|].
  cbn [map existsb]. rewrite cname_eq_cls, IH. reflexivity.
Qed.

(** a name that is not the name of a class is in no list of class names *)
Lemma py_in_foreign n l : cls_of_name n = None -> py_in (py_pair_eqb str_eqb str_eqb) n (map name_of_cls l) = false.
Proof.
  intros Hn. unfold py_in. induction l as [|d r IH]; [reflexivity|].
  cbn [map existsb]. rewrite IH, orb_false_r.
  destruct (py_pair_eqb str_eqb str_eqb n (name_of_cls d)) eqn:E; [|reflexivity].
  unfold py_pair_eqb in E. apply andb_true_iff in E. destruct E as [E1 E2].
  apply str_eqb_eq in E1. apply str_eqb_eq in E2.
  assert (n = name_of_cls d) as -> by (destruct n; cbn [fst snd] in *; subst; reflexivity).
  destruct d; vm_compute in Hn; discriminate Hn.
Qed.

(** [get_valid_classes]: the model's list (as names) when the shape is 3..5-D, ValueError otherwise *)
Theorem get_valid_classes_src_eq (h : hdr) :
  get_valid_classes_src classifications (shape h) =
  if ndim_ok h then Ok (map name_of_cls (valid_classes h)) else Err EValue.
Proof.
  unfold get_valid_classes_src, ndim_ok, valid_classes, ndim.
  destruct (shape h) as [|a [|b [|c [|d [|e [|f r]]]]]].
  1-3: reflexivity.
  1-2: vm_compute; reflexivity.
  2: reflexivity.
  cbn [length Nat.eqb py_index nth_error bind nth Nat.leb Nat.ltb andb].
  destruct (d =? 1); vm_compute; reflexivity.
Qed.

(** [classification in self.get_valid_classes()] is the model's [class_valid] *)
Theorem class_valid_src_eq (h : hdr) (c : cls) :
  rmap (py_in (py_pair_eqb str_eqb str_eqb) (name_of_cls c)) (get_valid_classes_src classifications (shape h)) =
  if ndim_ok h then Ok (class_valid h c) else Err EValue.
Proof.
  rewrite get_valid_classes_src_eq. destruct (ndim_ok h); [|reflexivity].
  cbn [rmap]. rewrite py_in_names. reflexivity.
Qed.

Lemma valid_classes_nil (h : hdr) : ndim_ok h = false -> valid_classes h = [].
Proof.
  unfold ndim_ok, valid_classes, ndim.
  destruct (shape h) as [|a [|b [|c [|d [|e [|f r]]]]]]; cbn [length Nat.leb Nat.ltb andb]; try reflexivity; discriminate.
Qed.

(** [prod] of the trailing dimensions as computed by the loop [for dim_size in shape[3:]: n_vals *= dim_size] *)
Lemma fold_mul_start (l : list nat) (n : nat) : fold_left Nat.mul l n = n * prod_list l.
Proof.
  unfold prod_list. revert n. induction l as [|x r IH]; intros n; cbn [fold_left]; [lia|].
  rewrite (IH (n * x)), (IH (1 * x)). lia.
Qed.

Theorem get_multiplicity_src_eq (h : hdr) (c : cls) :
  get_multiplicity_src classifications (shape h) (n_slices h) (name_of_cls c) = multiplicity h c.
Proof.
  unfold get_multiplicity_src, multiplicity, class_valid.
  rewrite get_valid_classes_src_eq.
  destruct (ndim_ok h) eqn:Hok.
  2:{ rewrite (valid_classes_nil h Hok). reflexivity. }
  cbn [bind]. rewrite py_in_names.
  destruct (mem_cls c (valid_classes h)) eqn:Hv; [|reflexivity]. cbn [negb].
  generalize (n_slices h). intros ns.
  unfold ndim_ok, ndim in Hok. unfold valid_classes, ndim in Hv. unfold ndim.
  destruct (shape h) as [|a [|b [|c0 [|d [|e [|f r]]]]]]; cbn [length Nat.leb Nat.ltb andb] in Hok; try discriminate Hok.
  all: destruct c; destruct ns as [n|]; try (vm_compute in Hv; discriminate Hv).
  all: cbn -[Nat.mul Nat.add]; first [reflexivity | f_equal; lia].
Qed.

Theorem get_const_period_src_eq (h : hdr) (s d : cls) :
  get_const_period_src classifications (shape h) (n_slices h) (name_of_cls s) (name_of_cls d) = const_period h s d.
Proof.
  unfold get_const_period_src, const_period.
  rewrite !get_multiplicity_src_eq.
  destruct d, s;
    cbn [py_pair_eqb name_of_cls base_of sub_of name_of_base name_of_sub s_global s_time s_vector s_const s_slices
         s_samples fst snd str_eqb N.eqb Pos.eqb andb];
    try reflexivity;
    try (unfold py_index, shape_at; destruct (nth_error (shape h) 3); reflexivity);
    (destruct (multiplicity h GSlices) as [ms|]; [|reflexivity]); cbn [bind];
    try (match goal with |- context [multiplicity h ?c] => destruct (multiplicity h c) as [md|]; [|reflexivity] end; cbn [bind]);
    unfold py_floordiv; match goal with |- context [?x =? 0] => destruct (x =? 0) end; reflexivity.
Qed.

(** the [n_slices] property: the model's total function when the slice dimension indexes the shape *)
Theorem n_slices_src_eq (h : hdr) :
  n_slices_src (shape h) (sdim h) =
  match sdim h with
  | Some d => if d <? ndim h then Ok (n_slices h) else Err EIndex
  | None => Ok None
  end.
Proof.
  unfold n_slices_src, n_slices, ndim. destruct (sdim h) as [d|]; [|reflexivity].
  destruct (d <? length (shape h)) eqn:E.
  - apply Nat.ltb_lt in E. rewrite (py_index_nth _ _ 0 E). reflexivity.
  - apply Nat.ltb_ge in E. rewrite (py_index_none _ _ E). reflexivity.
Qed.

(** a classification that is not one of the six names is rejected with ValueError (never a different error) *)
Theorem get_multiplicity_src_foreign (h : hdr) (ns : option nat) (n : cname) :
  cls_of_name n = None -> get_multiplicity_src classifications (shape h) ns n = Err EValue.
Proof.
  intros Hn. unfold get_multiplicity_src. rewrite get_valid_classes_src_eq.
  destruct (ndim_ok h); [|reflexivity]. cbn [bind]. rewrite (py_in_foreign _ _ Hn). reflexivity.
Qed.
