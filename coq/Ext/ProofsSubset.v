(** Lemmas about [get_subset] (C04). *)
From Coq Require Import List Bool Arith Lia.
From DV Require Import Common.Res Common.Str Ext.Types Ext.Classes Ext.Seq Ext.Model Ext.Spec.
Import ListNotations.
Local Open Scope nat_scope.

Section WithV.
  Context {V : Type} (veqb : V -> V -> bool) (vnone : V).

  Lemma make_empty_hdr_fields sh a sd h :
    make_empty_hdr sh a sd = Ok h -> shape h = sh /\ sdim h = sd /\ aff h = a.
  Proof.
    unfold make_empty_hdr. intros H.
    repeat match type of H with (if ?b then _ else _) = _ => destruct b; try discriminate end.
    injection H as <-. repeat split; reflexivity.
  Qed.

  Lemma subset_shape_law (e r : ext V) (dim idx : nat) :
    get_subset veqb vnone e dim idx = Ok r ->
    exists sh, set_nth dim 1 (shape (hdr_of e)) = Some sh /\
               shape (hdr_of r) = trim_ones sh /\ sdim (hdr_of r) = sdim (hdr_of e) /\ aff (hdr_of r) = aff (hdr_of e).
  Proof.
    unfold get_subset. intros H.
    apply bind_ok in H as [hr [Hh H]].
    apply bind_ok in H as [u [_ H]].
    apply bind_ok in H as [ents [_ H]].
    injection H as <-. cbn [hdr_of].
    unfold subset_hdr in Hh.
    destruct (5 <=? dim); [discriminate|].
    destruct (negb (ndim_ok (hdr_of e))); [discriminate|].
    destruct (set_nth dim 1 (shape (hdr_of e))) as [sh|] eqn:Es; [|discriminate].
    apply make_empty_hdr_fields in Hh as [H1 [H2 H3]].
    exists sh. repeat split; assumption.
  Qed.
End WithV.
