(** Lemmas about [get_subset] (C04). *)
From Coq Require Import List Bool Arith NArith Lia.
From DV Require Import Common.Res Common.Str Ext.Types Ext.Classes Ext.Seq Ext.SeqFacts Ext.Model Ext.Spec
     Ext.TableFacts Ext.ValidFacts Ext.ProofsSimplify.
Import ListNotations.
Local Open Scope nat_scope.

(** region of the open finding N2: a 4-D / 5-D shape whose LAST extent is 1 *)
Definition no_trailing1 (sh : list nat) : bool := (length sh <=? 3) || negb (last sh 0 =? 1).

(** which grid coordinate a subset dimension addresses *)
Inductive axis := AxSlice | AxNone | AxTime | AxVector.
Definition axis_of (h : hdr) (dim : nat) : axis :=
  if odim_is (sdim h) dim then AxSlice else if dim <? 3 then AxNone else if dim =? 3 then AxTime else AxVector.
Definition set_axis (a : axis) (i : nat) (p : pos) : pos :=
  let '(s, t, v) := p in
  match a with AxSlice => (i, t, v) | AxNone => p | AxTime => (s, i, v) | AxVector => (s, t, i) end.

Lemma make_empty_hdr_hwf sh a sd hr :
  make_empty_hdr sh a sd = Ok hr -> Forall (fun n => 1 <= n) sh -> hwf hr /\ shape hr = sh /\ sdim hr = sd.
Proof.
  unfold make_empty_hdr. intros H Hpos.
  destruct (negb ((3 <=? length sh) && (length sh <? 6))) eqn:E1; [discriminate|].
  destruct (negb _) eqn:E2 in H; [discriminate|].
  destruct (negb (match sd with Some d => d <? 3 | None => true end)) eqn:E3; [discriminate|].
  injection H as <-. cbn [shape sdim]. split; [|split; reflexivity].
  apply negb_false_iff in E1. apply andb_true_iff in E1 as [Ha Hb]. apply Nat.leb_le in Ha. apply Nat.ltb_lt in Hb.
  apply negb_false_iff in E3.
  unfold hwf, ndim. cbn [shape sdim has_time has_vec]. split; [lia|]. split; [exact Hpos|]. split.
  - intros d Hd. subst sd. apply Nat.ltb_lt. exact E3.
  - unfold class_ok. destruct (length sh) as [|[|[|[|[|[|n]]]]]]; try lia; cbn; split; reflexivity.
Qed.

Lemma subset_hdr_rel h hr dim :
  3 <= ndim h <= 5 -> Forall (fun n => 1 <= n) (shape h) -> (forall d, sdim h = Some d -> d < 3) ->
  no_trailing1 (shape h) = true -> dim < ndim h ->
  subset_hdr h dim = Ok hr ->
  hwf hr /\ sdim hr = sdim h /\
  (let '(nS, nT, nV) := dims h in
   dims hr = match axis_of h dim with
             | AxSlice => (1, nT, nV) | AxNone => (nS, nT, nV) | AxTime => (nS, 1, nV) | AxVector => (nS, nT, 1)
             end) /\
  class_ok (shape hr) TSamples = (match axis_of h dim with AxTime => false | _ => class_ok (shape h) TSamples end) /\
  class_ok (shape hr) VSamples = (match axis_of h dim with AxVector => false | _ => class_ok (shape h) VSamples end).
Proof.
  intros Hn Hpos Hsd Hnt Hdim Hs. unfold subset_hdr in Hs.
  destruct (5 <=? dim) eqn:E5; [discriminate|]. apply Nat.leb_gt in E5.
  destruct (negb (ndim_ok h)); [discriminate|].
  destruct (set_nth dim 1 (shape h)) as [sh'|] eqn:Es; [|discriminate].
  assert (Hpos' : Forall (fun n => 1 <= n) (trim_ones sh')).
  { unfold ndim in *. rewrite Forall_forall in Hpos.
    destruct (shape h) as [|a [|b [|c0 [|t [|v [|x r]]]]]]; cbn [length] in Hn, Hdim; try lia;
      destruct dim as [|[|[|[|[|?]]]]]; try lia; cbn in Es; injection Es as <-;
      cbn; repeat match goal with |- context [?x =? 1] => destruct (x =? 1) end;
      repeat constructor; try (apply Hpos; cbn; tauto). }
  destruct (make_empty_hdr_hwf _ _ _ _ Hs Hpos') as [Hw [Hsh Hsd']].
  split; [exact Hw|]. split; [exact Hsd'|].
  unfold dims, axis_of, odim_is. rewrite Hsh, Hsd'. unfold ndim, no_trailing1 in *.
  destruct (shape h) as [|a [|b [|c0 [|t [|v [|x r]]]]]]; cbn [length] in Hn, Hdim; try lia;
    destruct dim as [|[|[|[|[|?]]]]]; try lia; cbn in Es; injection Es as <-;
    cbn [length Nat.leb orb last] in Hnt; try (apply negb_true_iff in Hnt);
    destruct (sdim h) as [[|[|[|?]]]|] eqn:Esd; try (specialize (Hsd _ eq_refl); lia);
    cbn [trim_ones trim_fuel length Nat.ltb Nat.leb andb last removelast Nat.eqb];
    try rewrite Hnt;
    repeat match goal with |- context [?x =? 1] => destruct (x =? 1) eqn:? end;
    cbn; try (repeat split; reflexivity); try discriminate;
    repeat match goal with H : (?x =? 1) = true |- _ => apply Nat.eqb_eq in H; try subst x end;
    repeat match goal with H : (?x =? 1) = false |- _ => rewrite ?H; clear H end;
    cbn; repeat split; reflexivity.
Qed.

Definition hwf0 (h : hdr) : Prop :=
  3 <= ndim h <= 5 /\ Forall (fun n => 1 <= n) (shape h) /\ (forall d, sdim h = Some d -> d < 3).

Lemma hwf_hwf0 h : hwf h -> hwf0 h.
Proof. intros [A [B [C _]]]. exact (conj A (conj B C)). Qed.

Lemma dims_pos0 h : hwf0 h -> let '(nS, nT, nV) := dims h in 1 <= nS /\ 1 <= nT /\ 1 <= nV.
Proof.
  intros [Hn [Hpos Hsd]]. unfold dims, ndim in *. rewrite Forall_forall in Hpos.
  assert (G : forall i, 1 <= nth i (shape h) 1).
  { intros i. destruct (Nat.lt_ge_cases i (length (shape h))) as [Hi|Hi].
    - apply Hpos. apply nth_In. exact Hi.
    - rewrite nth_overflow by exact Hi. lia. }
  repeat split; try apply G. destruct (sdim h); [apply G | lia].
Qed.

Lemma n_slices_dims0 h d : hwf0 h -> sdim h = Some d -> n_slices h = Some (fst (fst (dims h))).
Proof.
  intros [Hn [_ Hsd]] Hd. unfold n_slices, dims. rewrite Hd. cbn [fst]. f_equal.
  apply nth_indep. specialize (Hsd _ Hd). unfold ndim in Hn. lia.
Qed.

Lemma class_ok_base sh c : 3 <= length sh <= 5 ->
  class_ok sh c = match base_of c with
                  | BGlobal => true | BTime => class_ok sh TSamples | BVector => class_ok sh VSamples end.
Proof. intros H. unfold class_ok. destruct (length sh) as [|[|[|[|[|[|n]]]]]]; try lia; destruct c; reflexivity. Qed.

Lemma class_T_false_dims h : 3 <= ndim h <= 5 -> class_ok (shape h) TSamples = false -> snd (fst (dims h)) = 1.
Proof.
  unfold ndim, dims, class_ok. cbn [fst snd base_of]. intros Hn.
  destruct (shape h) as [|a [|b [|c0 [|t [|v [|x r]]]]]]; cbn [length] in *; try lia; cbn; try discriminate; try reflexivity.
  intros H. apply negb_false_iff, Nat.eqb_eq in H. exact H.
Qed.

Lemma class_V_false_dims h : 3 <= ndim h <= 5 -> class_ok (shape h) VSamples = false -> snd (dims h) = 1.
Proof.
  unfold ndim, dims, class_ok. cbn [fst snd base_of]. intros Hn.
  destruct (shape h) as [|a [|b [|c0 [|t [|v [|x r]]]]]]; cbn [length] in *; try lia; cbn; try discriminate; reflexivity.
Qed.

Lemma axis_idx_bound h dim idx : hwf0 h -> dim < ndim h -> idx < nth dim (shape h) 0 ->
  let '(nS, nT, nV) := dims h in
  match axis_of h dim with AxSlice => idx < nS | AxNone => True | AxTime => idx < nT | AxVector => idx < nV end.
Proof.
  intros [Hn [_ Hsd]] Hd Hi. unfold dims, axis_of, odim_is, ndim in *.
  destruct (shape h) as [|a [|b [|c0 [|t [|v [|x r]]]]]]; cbn [length] in *; try lia;
    destruct dim as [|[|[|[|[|?]]]]]; try lia;
    destruct (sdim h) as [[|[|[|?]]]|] eqn:Esd; try (specialize (Hsd _ eq_refl); lia); cbn in *; try exact I; exact Hi.
Qed.

Section WithV.
  Context {V : Type} (veqb : V -> V -> bool) (vnone : V).
  Hypothesis veqb_spec : forall a b, reflect (a = b) (veqb a b).

  Lemma make_empty_hdr_fields sh a sd h :
    make_empty_hdr sh a sd = Ok h -> shape h = sh /\ sdim h = sd /\ aff h = a.
  Proof.
    unfold make_empty_hdr. intros H.
    repeat match type of H with (if ?b then _ else _) = _ => destruct b; try discriminate end.
    injection H as <-. repeat split; reflexivity.
  Qed.

  Lemma subset_shape_law (e r : ext V) (dim idx : nat) :
    get_subset veqb vnone e dim idx = Ok r ->
    exists sh, set_nth dim 1 (shape (hdr_of e)) = Some sh /\
               shape (hdr_of r) = trim_ones sh /\ sdim (hdr_of r) = sdim (hdr_of e) /\ aff (hdr_of r) = aff (hdr_of e).
  Proof.
    unfold get_subset. intros H.
    apply bind_ok in H as [hr [Hh H]].
    apply bind_ok in H as [u [_ H]].
    apply bind_ok in H as [ents [_ H]].
    injection H as <-. cbn [hdr_of].
    unfold subset_hdr in Hh.
    destruct (5 <=? dim); [discriminate|].
    destruct (negb (ndim_ok (hdr_of e))); [discriminate|].
    destruct (set_nth dim 1 (shape (hdr_of e))) as [sh|] eqn:Es; [|discriminate].
    apply make_empty_hdr_fields in Hh as [H1 [H2 H3]].
    exists sh. repeat split; assumption.
  Qed.

  Notation den_k := (den_k vnone).

  Lemma put_ok hr c (vs : list V) : hwf hr -> class_ok (shape hr) c = true -> put hr c vs = Ok (Some (c, vs)).
  Proof.
    intros [Hn [_ [_ [Ht Hv]]]] Hok. unfold put.
    rewrite (class_ok_base _ c Hn) in Hok.
    destruct c; cbn [base_of has_base] in *; try reflexivity; rewrite ?Ht, ?Hv, Hok; reflexivity.
  Qed.

  Lemma has_base_ok hr c : hwf hr -> class_ok (shape hr) c = true -> has_base hr (base_of c) = true.
  Proof.
    intros [Hn [_ [_ [Ht Hv]]]] Hok. rewrite (class_ok_base _ c Hn) in Hok.
    destruct c; cbn [base_of has_base] in *; try reflexivity; rewrite ?Ht, ?Hv; exact Hok.
  Qed.

  (** store [vals] under [d] in the result, simplify, and read position [p] *)
  Lemma put_simplify_den hr d (vals : list V) s' target p :
    hwf hr -> class_ok (shape hr) d = true -> (is_slices d = true -> sdim hr <> None) ->
    length vals = mult_spec (dims hr) d -> (d = VSlices -> has_time hr = false) ->
    simplify_k veqb vnone hr (Some (d, vals)) = Ok s' -> in_dims (dims hr) p ->
    nth (cidx (dims hr) d p) vals vnone = target -> den_k hr s' p = target.
  Proof.
    intros Hw Hok Hsl Hlen Hvs Hs Hp <-.
    rewrite (simplify_k_den veqb vnone veqb_spec hr d vals s' Hw (conj Hok (conj Hsl Hlen)) Hvs Hs p Hp).
    unfold ProofsSimplify.den_k. rewrite Hok. reflexivity.
  Qed.

  Local Ltac fin hr d Hwr Hokd Hs Hin :=
    eapply (put_simplify_den hr d);
    [exact Hwr | exact Hokd | discriminate | | discriminate | exact Hs | exact Hin | ].

  Local Ltac fins hr d Hwr Hokd Hs Hin :=
    eapply (put_simplify_den hr d);
    [exact Hwr | exact Hokd | intros _; congruence | | discriminate | exact Hs | exact Hin | ].

  (** ** subset along the slice axis: [_copy_slice] *)
  Lemma copy_slice_den h hr c vs idx s' nS nT nV :
    hwf0 h -> hwf hr -> sdim hr = sdim h ->
    dims h = (nS, nT, nV) -> dims hr = (1, nT, nV) ->
    class_ok (shape hr) TSamples = class_ok (shape h) TSamples ->
    class_ok (shape hr) VSamples = class_ok (shape h) VSamples ->
    idx < nS -> entry_ok h c vs -> is_slices c = true ->
    copy_slice_k veqb vnone h hr c vs idx = Ok s' ->
    forall t v, t < nT -> v < nV -> den_k hr s' (0, t, v) = den_k h (Some (c, vs)) (idx, t, v).
  Proof.
    intros Hw0 Hwr Hsd Ed Edr HcT HcV Hidx [Hok [Hsl Hlen]] Hc Hs t v Ht Hv.
    pose proof (dims_pos0 h Hw0) as Hpos. rewrite Ed in Hpos. destruct Hpos as [HS [HT HV]].
    destruct Hw0 as [Hn [Hposh Hsdh]]. pose proof Hwr as [Hnr _].
    assert (Hns0 : forall d, sdim h = Some d -> n_slices h = Some nS).
    { intros d Hd. rewrite (n_slices_dims0 h d (conj Hn (conj Hposh Hsdh)) Hd), Ed. reflexivity. }
    destruct (sdim h) as [d0|] eqn:Esd; [|exfalso; apply (Hsl Hc); reflexivity].
    pose proof (Hns0 _ eq_refl) as Hns.
    destruct copy_dests_eq as [CG [CV _]].
    assert (HmT : class_ok (shape hr) TSamples = true -> multiplicity hr TSamples = Ok (nT * nV)).
    { intros E. rewrite (multiplicity_ok hr TSamples Hnr E ltac:(discriminate)), Edr. reflexivity. }
    assert (HmV : class_ok (shape hr) VSamples = true -> multiplicity hr VSamples = Ok nV).
    { intros E. rewrite (multiplicity_ok hr VSamples Hnr E ltac:(discriminate)), Edr. reflexivity. }
    assert (HmG : multiplicity hr GConst = Ok 1).
    { rewrite (multiplicity_ok hr GConst Hnr); [reflexivity | rewrite (class_ok_base _ _ Hnr); reflexivity | discriminate]. }
    assert (HokG : class_ok (shape hr) GConst = true) by (rewrite (class_ok_base _ _ Hnr); reflexivity).
    assert (Hin : in_dims (dims hr) (0, t, v)) by (rewrite Edr; cbn; lia).
    unfold ProofsSimplify.den_k at 2. rewrite Hok, Ed. rewrite Ed in Hlen.
    unfold copy_slice_k in Hs. rewrite Hns in Hs.
    assert (Hst : (match nS with 0 => Err EValue | S _ => Ok nS end : res nat) = Ok nS) by (destruct nS; [lia|reflexivity]).
    unfold first_valid in Hs. rewrite CG, CV in Hs. cbn [find] in Hs. rewrite !class_valid_ok in Hs. rewrite ?HokG in Hs.
    destruct c; try discriminate Hc; cbn [base_of bind] in Hs.
    - (* GSlices *)
      cbn [mult_spec] in Hlen.
      assert (Hsub : length (every_nth idx nS vs) = nT * nV).
      { apply every_nth_length; [lia | exact Hidx | rewrite Hlen; ring]. }
      destruct (class_ok (shape hr) TSamples) eqn:ET.
      + cbn [bind] in Hs. rewrite (has_base_ok hr TSamples Hwr ET), (HmT eq_refl) in Hs. cbn [negb bind] in Hs.
        rewrite Hst in Hs. cbn [bind] in Hs. rewrite Hsub, Nat.ltb_irrefl in Hs. cbn [bind] in Hs.
        fin hr TSamples Hwr ET Hs Hin; [rewrite Edr; exact Hsub|].
        rewrite Edr. cbn [cidx]. rewrite every_nth_nth by lia. f_equal. ring.
      + assert (EnT : nT = 1) by (pose proof (class_T_false_dims h Hn (eq_sym HcT)) as X; rewrite Ed in X; exact X).
        subst nT. destruct (class_ok (shape hr) VSamples) eqn:EV.
        * cbn [bind] in Hs. rewrite (has_base_ok hr VSamples Hwr EV), (HmV eq_refl) in Hs. cbn [negb bind] in Hs.
          rewrite Hst in Hs. cbn [bind] in Hs. rewrite Hsub in Hs. replace (1 * nV) with nV in Hs by lia.
          rewrite Nat.ltb_irrefl in Hs. cbn [bind] in Hs.
          fin hr VSamples Hwr EV Hs Hin; [rewrite Edr, Hsub; cbn [mult_spec]; lia|].
          rewrite Edr. cbn [cidx]. rewrite every_nth_nth by lia. f_equal. nia.
        * assert (EnV : nV = 1) by (pose proof (class_V_false_dims h Hn (eq_sym HcV)) as X; rewrite Ed in X; exact X).
          subst nV. cbn [bind] in Hs. cbn [base_of has_base negb] in Hs. rewrite HmG in Hs. cbn [bind] in Hs.
          rewrite Hst in Hs. cbn [bind] in Hs. rewrite Hsub in Hs. cbn [Nat.mul Nat.add Nat.ltb Nat.leb bind] in Hs.
          fin hr GConst Hwr HokG Hs Hin; [rewrite Edr, Hsub; reflexivity|].
          rewrite Edr. cbn [cidx]. rewrite every_nth_nth by lia. f_equal. nia.
    - (* TSlices *)
      cbn [mult_spec] in Hlen. cbn [base_of has_base negb] in Hs. rewrite HmG in Hs. cbn [bind] in Hs.
      rewrite Hst in Hs. cbn [bind] in Hs.
      assert (Hsub : length (every_nth idx nS vs) = 1).
      { apply every_nth_length; [lia | exact Hidx | rewrite Hlen; ring]. }
      rewrite Hsub in Hs. cbn [Nat.ltb Nat.leb bind] in Hs.
      fin hr GConst Hwr HokG Hs Hin; [rewrite Edr, Hsub; reflexivity|].
      rewrite Edr. cbn [cidx]. rewrite every_nth_nth by lia. f_equal. lia.
    - (* VSlices *)
      cbn [mult_spec] in Hlen.
      assert (Hsub : length (every_nth idx nS vs) = nT).
      { apply every_nth_length; [lia | exact Hidx | rewrite Hlen; ring]. }
      destruct (class_ok (shape hr) TSamples) eqn:ET.
      + cbn [bind] in Hs. rewrite (has_base_ok hr TSamples Hwr ET), (HmT eq_refl) in Hs. cbn [negb bind] in Hs.
        rewrite Hst in Hs. cbn [bind] in Hs. rewrite Hsub in Hs.
        destruct (nT <? nT * nV) eqn:Elt.
        * assert (E0 : (nT =? 0) = false) by (apply Nat.eqb_neq; lia). rewrite E0 in Hs. cbn [bind] in Hs.
          replace (nT * nV / nT) with nV in Hs by (symmetry; rewrite Nat.mul_comm; apply Nat.div_mul; lia).
          fin hr TSamples Hwr ET Hs Hin;
            [rewrite Edr, rep_list_length, Hsub; cbn [mult_spec]; ring|].
          rewrite Edr. cbn [cidx]. rewrite rep_list_nth by (rewrite Hsub; nia). rewrite Hsub.
          rewrite (mod_add_small t nT v Ht). rewrite every_nth_nth by lia. f_equal. ring.
        * apply Nat.ltb_ge in Elt. assert (nV = 1) by nia. subst nV. cbn [bind] in Hs.
          fin hr TSamples Hwr ET Hs Hin; [rewrite Edr, Hsub; cbn [mult_spec]; lia|].
          rewrite Edr. cbn [cidx]. rewrite every_nth_nth by lia. f_equal. nia.
      + assert (EnT : nT = 1) by (pose proof (class_T_false_dims h Hn (eq_sym HcT)) as X; rewrite Ed in X; exact X).
        revert Hsub. subst nT. intros Hsub. cbn [bind] in Hs. cbn [base_of has_base negb] in Hs. rewrite HmG in Hs. cbn [bind] in Hs.
        rewrite Hst in Hs. cbn [bind] in Hs. rewrite Hsub in Hs. cbn [Nat.ltb Nat.leb bind] in Hs.
        fin hr GConst Hwr HokG Hs Hin; [rewrite Edr, Hsub; reflexivity|].
        rewrite Edr. cbn [cidx]. rewrite every_nth_nth by lia. f_equal. nia.
  Qed.

  Lemma preserving_slices_cases :
    preserving (Some TSlices) = Some [VSlices; GSlices] /\ preserving (Some VSlices) = Some [GSlices].
  Proof. vm_compute. split; reflexivity. Qed.

  Lemma nth_error_nth_ok (l : list V) i : i < length l -> nth_error l i = Some (nth i l vnone).
  Proof.
    intros H. destruct (nth_error l i) eqn:E; [f_equal; symmetry; apply nth_error_nth; exact E|].
    apply nth_error_None in E. lia.
  Qed.

  (** ** subset along the time axis: [_copy_sample(.., 'time', idx)] *)
  Lemma copy_sample_time_den h hr c vs idx s' nS nT nV :
    hwf0 h -> hwf hr -> sdim hr = sdim h ->
    dims h = (nS, nT, nV) -> dims hr = (nS, 1, nV) ->
    class_ok (shape hr) TSamples = false ->
    class_ok (shape hr) VSamples = class_ok (shape h) VSamples ->
    idx < nT -> entry_ok h c vs -> c <> GConst ->
    copy_sample_k veqb vnone h hr c vs BTime idx = Ok s' ->
    forall s v, s < nS -> v < nV -> den_k hr s' (s, 0, v) = den_k h (Some (c, vs)) (s, idx, v).
  Proof.
    intros Hw0 Hwr Hsd Ed Edr HcT HcV Hidx [Hok [Hsl Hlen]] Hc Hs s v Hps Hpv.
    pose proof (dims_pos0 h Hw0) as Hpos. rewrite Ed in Hpos. destruct Hpos as [HS [HT HV]].
    destruct Hw0 as [Hn [Hposh Hsdh]]. pose proof Hwr as [Hnr [_ [_ [Hht _]]]].
    assert (Hns0 : forall d, sdim h = Some d -> n_slices h = Some nS /\ n_slices hr = Some nS).
    { intros d Hd. rewrite (n_slices_dims0 h d (conj Hn (conj Hposh Hsdh)) Hd), Ed.
      rewrite (n_slices_dims hr d Hwr ltac:(congruence)), Edr. split; reflexivity. }
    destruct copy_dests_eq as [_ [_ [CS _]]]. destruct preserving_slices_cases as [PT PV].
    assert (HokG : forall x, base_of x = BGlobal -> class_ok (shape hr) x = true).
    { intros x Hx. rewrite (class_ok_base _ _ Hnr), Hx. reflexivity. }
    assert (Hin : in_dims (dims hr) (s, 0, v)) by (rewrite Edr; cbn; lia).
    assert (HokV : base_of c = BVector -> class_ok (shape hr) VSamples = true).
    { intros Hb. rewrite HcV. rewrite (class_ok_base _ _ Hn), Hb in Hok. exact Hok. }
    assert (Hnd4 : base_of c = BTime -> 4 <= ndim h).
    { intros Hb. apply (class_ok_ndim _ _ Hok). exact Hb. }
    unfold ProofsSimplify.den_k at 2. rewrite Hok, Ed. rewrite Ed in Hlen.
    unfold copy_sample_k in Hs.
    destruct c; try contradiction; cbn [is_samples sub_of base_of cbase_eqb cls_eqb negb andb] in Hs.
    - (* GSlices *)
      cbn [mult_spec] in Hlen. unfold global_slice_subset in Hs.
      destruct (sdim h) as [d0|] eqn:Esd; [|exfalso; apply Hsl; reflexivity].
      destruct (Hns0 _ eq_refl) as [Hnsh Hnsr]. rewrite Hnsh in Hs. rewrite class_valid_ok in Hs.
      destruct (class_ok (shape h) VSamples) eqn:EV; cbn [negb] in Hs.
      + assert (Hn5 : ndim h = 5) by (apply (class_ok_ndim _ _ EV); reflexivity).
        rewrite (shape_at3_dims h ltac:(lia)), (shape_at4_dims h ltac:(lia)), Ed in Hs. cbn [fst snd bind] in Hs.
        rewrite (put_ok hr GSlices _ Hwr (HokG GSlices eq_refl)) in Hs. cbn [bind] in Hs.
        set (f := fun vec => py_slice (vec * (nS * nT) + idx * nS) (vec * (nS * nT) + idx * nS + nS) vs) in *.
        assert (Hf : forall x, x < nV -> length (f x) = nS).
        { intros x Hx. unfold f. rewrite py_slice_length; [lia|]. rewrite Hlen.
          assert (x * (nS * nT) + (nS * nT) <= nS * nT * nV) by nia. nia. }
        fins hr GSlices Hwr (HokG GSlices eq_refl) Hs Hin.
        * rewrite Edr, (flat_map_blocks_length f nS nV Hf). cbn [mult_spec]. ring.
        * rewrite Edr. cbn [cidx]. replace (s + nS * (0 + 1 * v)) with (v * nS + s) by ring.
          rewrite (flat_map_blocks_nth f nS nV v s vnone Hf Hpv Hps). unfold f.
          rewrite py_slice_nth by lia. f_equal. ring.
      + assert (EnV : nV = 1) by (pose proof (class_V_false_dims h Hn EV) as X; rewrite Ed in X; exact X).
        subst nV. cbn [bind] in Hs. rewrite (put_ok hr GSlices _ Hwr (HokG GSlices eq_refl)) in Hs. cbn [bind] in Hs.
        fins hr GSlices Hwr (HokG GSlices eq_refl) Hs Hin.
        * rewrite Edr, py_slice_length by (rewrite Hlen; nia). cbn [mult_spec]. lia.
        * rewrite Edr. cbn [cidx]. rewrite py_slice_nth by lia. f_equal. nia.
    - (* TSamples *)
      cbn [mult_spec] in Hlen. rewrite CS in Hs. cbn [find cls_eqb negb andb] in Hs. rewrite !class_valid_ok in Hs.
      destruct (class_ok (shape hr) VSamples) eqn:EV.
      + cbn [bind] in Hs. rewrite (multiplicity_ok hr VSamples Hnr EV ltac:(discriminate)), Edr in Hs.
        cbn [bind mult_spec] in Hs. destruct (nV =? 1) eqn:E1.
        * apply Nat.eqb_eq in E1. subst nV. rewrite (nth_error_nth_ok vs idx) in Hs by (rewrite Hlen; lia).
          rewrite (put_ok hr VSamples _ Hwr EV) in Hs. injection Hs as <-.
          unfold ProofsSimplify.den_k. rewrite EV, Edr. cbn [cidx]. replace v with 0 by lia. cbn [nth]. f_equal. lia.
        * rewrite (shape_at3_dims h (Hnd4 eq_refl)), Ed in Hs. cbn [fst snd] in Hs.
          destruct nT as [|nT']; [lia|]. rewrite (put_ok hr VSamples _ Hwr EV) in Hs. cbn [bind] in Hs.
          fin hr VSamples Hwr EV Hs Hin.
          -- rewrite Edr. cbn [mult_spec]. apply every_nth_length; [lia | exact Hidx | exact Hlen].
          -- rewrite Edr. cbn [cidx]. rewrite every_nth_nth by lia. f_equal. ring.
      + assert (EnV : nV = 1) by (pose proof (class_V_false_dims h Hn (eq_sym HcV)) as X; rewrite Ed in X; exact X).
        subst nV. rewrite (HokG GConst eq_refl) in Hs. cbn [bind] in Hs.
        rewrite (multiplicity_ok hr GConst Hnr (HokG GConst eq_refl) ltac:(discriminate)), Edr in Hs. cbn [bind mult_spec Nat.eqb] in Hs.
        rewrite (nth_error_nth_ok vs idx) in Hs by (rewrite Hlen; lia).
        rewrite (put_ok hr GConst _ Hwr (HokG GConst eq_refl)) in Hs. injection Hs as <-.
        unfold ProofsSimplify.den_k. rewrite (HokG GConst eq_refl), Edr. cbn [cidx nth]. f_equal. lia.
    - (* TSlices *)
      rewrite PT in Hs. unfold first_valid in Hs. cbn [find] in Hs. rewrite !class_valid_ok in Hs.
      rewrite (class_ok_base _ VSlices Hnr) in Hs. cbn [base_of] in Hs.
      cbn [mult_spec] in Hlen.
      destruct (class_ok (shape hr) VSamples) eqn:EV.
      + assert (EV' : class_ok (shape hr) VSlices = true) by (rewrite (class_ok_base _ _ Hnr); exact EV).
        rewrite (put_ok hr VSlices _ Hwr EV') in Hs. injection Hs as <-.
        unfold ProofsSimplify.den_k. rewrite EV', Edr. cbn [cidx]. f_equal. lia.
      + assert (EnV : nV = 1) by (pose proof (class_V_false_dims h Hn (eq_sym HcV)) as X; rewrite Ed in X; exact X).
        subst nV. rewrite (HokG GSlices eq_refl) in Hs.
        rewrite (put_ok hr GSlices _ Hwr (HokG GSlices eq_refl)) in Hs. injection Hs as <-.
        unfold ProofsSimplify.den_k. rewrite (HokG GSlices eq_refl), Edr. cbn [cidx]. f_equal. nia.
    - (* VSamples *)
      rewrite (put_ok hr VSamples _ Hwr (HokV eq_refl)) in Hs. injection Hs as <-.
      unfold ProofsSimplify.den_k. rewrite (HokV eq_refl), Edr. reflexivity.
    - (* VSlices *)
      cbn [mult_spec] in Hlen.
      destruct (sdim h) as [d0|] eqn:Esd; [|exfalso; apply Hsl; reflexivity].
      destruct (Hns0 _ eq_refl) as [Hnsh Hnsr]. rewrite Hnsr in Hs.
      assert (EV' : class_ok (shape hr) VSlices = true) by (rewrite (class_ok_base _ _ Hnr); apply HokV; reflexivity).
      rewrite (put_ok hr VSlices _ Hwr EV') in Hs. cbn [bind] in Hs.
      eapply (put_simplify_den hr VSlices); [exact Hwr | exact EV' | intros _; congruence | | intros _; congruence | exact Hs | exact Hin | ].
      * rewrite Edr, py_slice_length by (rewrite Hlen; nia). cbn [mult_spec]. lia.
      * rewrite Edr. cbn [cidx]. rewrite py_slice_nth by lia. f_equal. ring.
  Qed.

  (** ** subset along the vector axis: [_copy_sample(.., 'vector', idx)] (the source is 5-D) *)
  Lemma copy_sample_vector_den h hr c vs idx s' nS nT nV :
    hwf0 h -> hwf hr -> sdim hr = sdim h ->
    dims h = (nS, nT, nV) -> dims hr = (nS, nT, 1) ->
    class_ok (shape hr) VSamples = false ->
    class_ok (shape hr) TSamples = class_ok (shape h) TSamples ->
    idx < nV -> entry_ok h c vs -> c <> GConst ->
    copy_sample_k veqb vnone h hr c vs BVector idx = Ok s' ->
    forall s t, s < nS -> t < nT -> den_k hr s' (s, t, 0) = den_k h (Some (c, vs)) (s, t, idx).
  Proof.
    intros Hw0 Hwr Hsd Ed Edr HcV HcT Hidx [Hok [Hsl Hlen]] Hc Hs s t Hps Hpt.
    pose proof (dims_pos0 h Hw0) as Hpos. rewrite Ed in Hpos. destruct Hpos as [HS [HT HV]].
    destruct Hw0 as [Hn [Hposh Hsdh]]. pose proof Hwr as [Hnr [_ [_ [Hht _]]]].
    assert (Hns0 : forall d, sdim h = Some d -> n_slices h = Some nS).
    { intros d Hd. rewrite (n_slices_dims0 h d (conj Hn (conj Hposh Hsdh)) Hd), Ed. reflexivity. }
    destruct copy_dests_eq as [_ [_ [CS _]]]. destruct preserving_slices_cases as [PT PV].
    assert (HokG : forall x, base_of x = BGlobal -> class_ok (shape hr) x = true).
    { intros x Hx. rewrite (class_ok_base _ _ Hnr), Hx. reflexivity. }
    assert (Hin : in_dims (dims hr) (s, t, 0)) by (rewrite Edr; cbn; lia).
    assert (HokT : base_of c = BTime -> class_ok (shape hr) TSamples = true).
    { intros Hb. rewrite HcT. rewrite (class_ok_base _ _ Hn), Hb in Hok. exact Hok. }
    assert (Hnd4 : base_of c = BTime -> 4 <= ndim h).
    { intros Hb. apply (class_ok_ndim _ _ Hok). exact Hb. }
    unfold ProofsSimplify.den_k at 2. rewrite Hok, Ed. rewrite Ed in Hlen.
    unfold copy_sample_k in Hs.
    destruct c; try contradiction; cbn [is_samples sub_of base_of cbase_eqb cls_eqb negb andb] in Hs.
    - (* GSlices *)
      cbn [mult_spec] in Hlen. unfold global_slice_subset in Hs.
      destruct (sdim h) as [d0|] eqn:Esd; [|exfalso; apply Hsl; reflexivity].
      rewrite (Hns0 _ eq_refl) in Hs.
      destruct (shape_at h 3) as [t3|] eqn:E3; cbn [bind] in Hs; [|discriminate].
      assert (Et3 : t3 = nT).
      { unfold shape_at in E3. unfold dims in Ed. injection Ed as _ E _. rewrite <- E.
        symmetry. apply nth_error_nth. exact E3. }
      subst t3. rewrite (put_ok hr GSlices _ Hwr (HokG GSlices eq_refl)) in Hs. cbn [bind] in Hs.
      fins hr GSlices Hwr (HokG GSlices eq_refl) Hs Hin.
      * rewrite Edr, py_slice_length by (rewrite Hlen; nia). cbn [mult_spec]. lia.
      * rewrite Edr. cbn [cidx]. rewrite py_slice_nth by nia. f_equal. ring.
    - (* TSamples *)
      cbn [mult_spec] in Hlen.
      rewrite (multiplicity_ok hr TSamples Hnr (HokT eq_refl) ltac:(discriminate)), Edr in Hs. cbn [bind mult_spec] in Hs.
      rewrite (put_ok hr TSamples _ Hwr (HokT eq_refl)) in Hs. cbn [bind] in Hs.
      fin hr TSamples Hwr (HokT eq_refl) Hs Hin.
      * rewrite Edr, py_slice_length by (rewrite Hlen; nia). cbn [mult_spec]. lia.
      * rewrite Edr. cbn [cidx]. rewrite py_slice_nth by lia. f_equal. ring.
    - (* TSlices *)
      assert (ET' : class_ok (shape hr) TSlices = true) by (rewrite (class_ok_base _ _ Hnr); apply HokT; reflexivity).
      rewrite (put_ok hr TSlices _ Hwr ET') in Hs. injection Hs as <-.
      unfold ProofsSimplify.den_k. rewrite ET', Edr. reflexivity.
    - (* VSamples *)
      cbn [mult_spec] in Hlen. rewrite CS in Hs. cbn [find cls_eqb negb andb] in Hs. rewrite !class_valid_ok in Hs.
      rewrite (HokG GConst eq_refl) in Hs. cbn [bind] in Hs.
      rewrite (multiplicity_ok hr GConst Hnr (HokG GConst eq_refl) ltac:(discriminate)), Edr in Hs. cbn [bind mult_spec Nat.eqb] in Hs.
      rewrite (nth_error_nth_ok vs idx) in Hs by (rewrite Hlen; lia).
      rewrite (put_ok hr GConst _ Hwr (HokG GConst eq_refl)) in Hs. injection Hs as <-.
      unfold ProofsSimplify.den_k. rewrite (HokG GConst eq_refl), Edr. reflexivity.
    - (* VSlices *)
      cbn [mult_spec] in Hlen. rewrite PV in Hs. unfold first_valid in Hs. cbn [find] in Hs. rewrite !class_valid_ok in Hs.
      rewrite (HokG GSlices eq_refl) in Hs.
      rewrite (put_ok hr GSlices _ Hwr (HokG GSlices eq_refl)) in Hs. injection Hs as <-.
      unfold ProofsSimplify.den_k. rewrite (HokG GSlices eq_refl), Edr. cbn [cidx]. f_equal. ring.
  Qed.

  (** ** all paths of [get_subset] for one key *)
  Lemma subset_k_den h hr dim idx c vs s' :
    hwf0 h -> no_trailing1 (shape h) = true -> dim < ndim h -> idx < nth dim (shape h) 0 ->
    subset_hdr h dim = Ok hr -> entry_ok h c vs ->
    subset_k veqb vnone h hr dim idx (Some (c, vs)) = Ok s' ->
    forall p, in_dims (dims hr) p ->
      den_k hr s' p = den_k h (Some (c, vs)) (set_axis (axis_of h dim) idx p).
  Proof.
    intros Hw0 Hnt Hdim Hidx Hh He Hs p Hp.
    pose proof Hw0 as [Hn [Hposh Hsdh]].
    destruct (subset_hdr_rel h hr dim Hn Hposh Hsdh Hnt Hdim Hh) as [Hwr [Hsd [Hdims [HcT HcV]]]].
    pose proof (axis_idx_bound h dim idx Hw0 Hdim Hidx) as Hb.
    pose proof Hwr as [Hnr _].
    destruct (dims h) as [[nS nT] nV] eqn:Ed.
    pose proof He as [Hok [Hsl Hlen]].
    unfold subset_k, visible in Hs. rewrite class_valid_ok, Hok in Hs.
    destruct (cls_eqb_spec c GConst) as [->|Hc].
    { assert (HG : class_ok (shape hr) GConst = true) by (rewrite (class_ok_base _ _ Hnr); reflexivity).
      rewrite (put_ok hr GConst _ Hwr HG) in Hs. injection Hs as <-.
      unfold ProofsSimplify.den_k. rewrite HG, Hok. destruct (dims hr) as [[? ?] ?], p as [[? ?] ?].
      destruct (axis_of h dim); reflexivity. }
    unfold axis_of in *. destruct p as [[s t] v].
    destruct (odim_is (sdim h) dim) eqn:E1.
    - (* slice axis *)
      rewrite Hdims in Hp. cbn [in_dims] in Hp. destruct Hp as [Hs0 [Ht Hv]]. assert (s = 0) by lia. subst s.
      cbn [set_axis].
      destruct (is_slices c) eqn:Esl; cbn [negb] in Hs.
      + eapply copy_slice_den; eauto.
      + assert (Hokr : class_ok (shape hr) c = true).
        { rewrite (class_ok_base _ _ Hnr). rewrite (class_ok_base _ _ Hn) in Hok.
          destruct c; cbn [base_of] in *; try reflexivity; try discriminate Esl; rewrite ?HcT, ?HcV; exact Hok. }
        rewrite (put_ok hr c _ Hwr Hokr) in Hs. injection Hs as <-.
        unfold ProofsSimplify.den_k. rewrite Hokr, Hok, Hdims, Ed.
        destruct c; try discriminate Esl; try contradiction; reflexivity.
    - destruct (dim <? 3) eqn:E2.
      + (* non-slice spatial axis: nothing changes *)
        assert (Hokr : class_ok (shape hr) c = true).
        { rewrite (class_ok_base _ _ Hnr). rewrite (class_ok_base _ _ Hn) in Hok.
          destruct c; cbn [base_of] in *; try reflexivity; rewrite ?HcT, ?HcV; exact Hok. }
        rewrite (put_ok hr c _ Hwr Hokr) in Hs. injection Hs as <-.
        unfold ProofsSimplify.den_k. rewrite Hokr, Hok, Hdims, Ed. reflexivity.
      + destruct (dim =? 3) eqn:E3.
        * (* time axis *)
          rewrite Hdims in Hp. cbn [in_dims] in Hp. destruct Hp as [Hs0 [Ht Hv]]. assert (t = 0) by lia. subst t.
          cbn [set_axis]. eapply copy_sample_time_den; eauto.
        * (* vector axis *)
          rewrite Hdims in Hp. cbn [in_dims] in Hp. destruct Hp as [Hs0 [Ht Hv]]. assert (v = 0) by lia. subst v.
          cbn [set_axis]. eapply copy_sample_vector_den; eauto.
  Qed.

  (** ** lifting to whole extensions *)
  Lemma dedup_keys_spec seen l k : In k (dedup_keys seen l) <-> In k l /\ ~ In k seen.
  Proof.
    revert seen. induction l as [|x r IH]; intros seen; cbn [dedup_keys]; [tauto|].
    destruct (mem_key x seen) eqn:E.
    - apply mem_key_In in E. rewrite IH. cbn [In]. split; [tauto|]. intros [[->|H] Hn]; [contradiction | tauto].
    - assert (Hx : ~ In x seen) by (intros H; apply mem_key_In in H; congruence).
      cbn [In]. rewrite IH. cbn [In]. split.
      + intros [->|[H Hn]]; [tauto|]. split; [tauto|]. intros Hs. apply Hn. right; exact Hs.
      + intros [[->|H] Hn]; [tauto|]. destruct (str_eqb_spec x k) as [->|Hne]; [tauto|].
        right. split; [exact H|]. intros [->|Hs]; [congruence | contradiction].
  Qed.

  Lemma dedup_keys_NoDup seen l : NoDup (dedup_keys seen l).
  Proof.
    revert seen. induction l as [|x r IH]; intros seen; cbn [dedup_keys]; [constructor|].
    destruct (mem_key x seen); [apply IH|]. constructor; [|apply IH].
    rewrite dedup_keys_spec. cbn [In]. tauto.
  Qed.

  Lemma assoc_In' (l : list (key * (cls * list V))) k x : assoc k l = Some x -> In (k, x) l.
  Proof.
    induction l as [|[k' y] r IH]; cbn [assoc]; [discriminate|].
    unfold key_eqb. destruct (str_eqb_spec k k') as [->|_].
    - intros H; injection H as ->. left; reflexivity.
    - intros H; right; auto.
  Qed.

  Lemma assoc_not_in (l : list (key * (cls * list V))) k : ~ In k (map fst l) -> assoc k l = None.
  Proof.
    induction l as [|[k' x] r IH]; cbn [assoc map fst In]; [reflexivity|]. intros H.
    unfold key_eqb. destruct (str_eqb_spec k k') as [->|_]; [exfalso; apply H; left; reflexivity|].
    apply IH. tauto.
  Qed.

  Lemma collect_keys (l : list (key * kst V)) k : In k (map fst (collect l)) -> In k (map fst l).
  Proof.
    induction l as [|[k' [x|]] r IH]; cbn [collect map fst In]; [tauto| |]; intros H; [destruct H; [left; exact H|right; auto] | right; auto].
  Qed.

  Lemma map_keys_lookup (f : key -> res (kst V)) keys ents :
    NoDup keys -> map_keys f keys = Ok ents ->
    forall k, (In k keys -> exists s, f k = Ok s /\ assoc k ents = s) /\ (~ In k keys -> assoc k ents = None).
  Proof.
    unfold map_keys. revert ents. induction keys as [|k0 r IH]; intros ents Hnd H k.
    - cbn in H. injection H as <-. split; [intros []| reflexivity].
    - cbn [mapM] in H. destruct (f k0) as [s0|] eqn:Ef; cbn [bind] in H; [|discriminate].
      destruct (mapM (fun k1 => (do s <- f k1; Ok (k1, s))%res) r) as [l'|] eqn:Em; [|discriminate].
      cbn [bind] in H. injection H as <-. inversion Hnd as [|? ? Hk0 Hr]; subst.
      specialize (IH (collect l') Hr). try rewrite Em in IH. cbn [bind] in IH. specialize (IH eq_refl).
      assert (Hnone : assoc k0 (collect l') = None) by (apply (IH k0); exact Hk0).
      split.
      + intros [->|Hin].
        * exists s0. split; [exact Ef|]. destruct s0 as [x|]; cbn [collect assoc].
          -- unfold key_eqb. rewrite str_eqb_refl. reflexivity.
          -- exact Hnone.
        * destruct (proj1 (IH k) Hin) as [s [Hf Ha]]. exists s. split; [exact Hf|].
          destruct s0 as [x|]; cbn [collect assoc]; [|exact Ha].
          unfold key_eqb. destruct (str_eqb_spec k k0) as [->|_]; [contradiction | exact Ha].
      + intros Hn. cbn [In] in Hn. destruct s0 as [x|]; cbn [collect assoc].
        * unfold key_eqb. destruct (str_eqb_spec k k0) as [->|_]; [tauto|]. apply (IH k). tauto.
        * apply (IH k). tauto.
  Qed.

  (** C04 at the extension level: [get_subset] is restriction of the denotation *)
  Theorem subset_den (e r : ext V) dim idx :
    valid e -> no_trailing1 (shape (hdr_of e)) = true ->
    dim < ndim (hdr_of e) -> idx < nth dim (shape (hdr_of e)) 0 ->
    get_subset veqb vnone e dim idx = Ok r ->
    forall k p, in_dims (dims (hdr_of r)) p ->
      den vnone r k p = den vnone e k (set_axis (axis_of (hdr_of e) dim) idx p).
  Proof.
    intros [[Hn [Hpos [Hsd _]]] [_ Hent]] Hnt Hdim Hidx Hg k p Hp.
    unfold get_subset in Hg.
    apply bind_ok in Hg as [hr [Hh Hg]]. apply bind_ok in Hg as [u [_ Hg]].
    apply bind_ok in Hg as [ents [Hm Hg]]. injection Hg as <-. cbn [hdr_of] in Hp.
    rewrite !den_den_k. unfold lookup_e at 1. cbn [hdr_of entries].
    pose proof (map_keys_lookup _ _ _ (dedup_keys_NoDup [] (keys_e e)) Hm k) as [Hin Hout].
    destruct (lookup_e e k) as [[c vs]|] eqn:El.
    - assert (Hk : In k (dedup_keys [] (keys_e e))).
      { apply dedup_keys_spec. split; [|tauto]. unfold lookup_e in El. apply assoc_In' in El.
        unfold keys_e. apply in_map_iff. exists (k, (c, vs)). split; [reflexivity | exact El]. }
      destruct (Hin Hk) as [s' [Hf Ha]]. rewrite Ha. cbn beta in Hf. try rewrite El in Hf.
      eapply subset_k_den; eauto; [exact (conj Hn (conj Hpos Hsd))|].
      unfold lookup_e in El. apply assoc_In' in El. exact (Hent _ _ _ El).
    - destruct (in_dec (list_eq_dec N.eq_dec) k (dedup_keys [] (keys_e e))) as [Hk|Hk].
      + destruct (Hin Hk) as [s' [Hf Ha]]. rewrite Ha. cbn beta in Hf. try rewrite El in Hf. cbn in Hf. injection Hf as <-. reflexivity.
      + rewrite (Hout Hk). reflexivity.
  Qed.
End WithV.
