(** List facts used by the merge proofs (C03): [nth] of replication, Python slices, the interleave loops,
    strided slices, chunks; boolean list equality.  Only about Ext/Seq.v. *)
From Coq Require Import List Bool Arith Lia.
From DV Require Import Common.Res Ext.Seq.
Import ListNotations.
Local Open Scope nat_scope.

Section Lists.
  Context {A : Type}.
  Implicit Types l : list A.

  Lemma nth_firstn_lt l n i (d : A) : i < n -> nth i (firstn n l) d = nth i l d.
  Proof.
    revert n i; induction l as [|x xs IH]; intros [|n] [|i] H; simpl; try reflexivity; try lia.
    apply IH. lia.
  Qed.

  Lemma nth_skipn_add l n i (d : A) : nth i (skipn n l) d = nth (n + i) l d.
  Proof.
    revert l; induction n as [|n IH]; intros l; [reflexivity|].
    destruct l as [|x xs]; simpl; [destruct i; reflexivity | apply IH].
  Qed.

  Lemma skipn_add l a b : skipn a (skipn b l) = skipn (b + a) l.
  Proof.
    revert l; induction b as [|b IH]; intros l; [reflexivity|].
    destruct l as [|x xs]; cbn [skipn Nat.add]; [apply skipn_nil | apply IH].
  Qed.

  (** ** [py_slice] *)
  Lemma py_slice_length a n l : a + n <= length l -> length (py_slice a (a + n) l) = n.
  Proof.
    intros H. unfold py_slice. rewrite firstn_length, skipn_length. lia.
  Qed.

  Lemma py_slice_nth a n l r (d : A) : r < n -> nth r (py_slice a (a + n) l) d = nth (a + r) l d.
  Proof.
    intros H. unfold py_slice. rewrite nth_firstn_lt by lia. apply nth_skipn_add.
  Qed.

  Lemma py_slice_all l n : n = length l -> py_slice 0 n l = l.
  Proof. intros ->. unfold py_slice. rewrite Nat.sub_0_r. cbn [skipn]. apply firstn_all. Qed.

  (** ** replication *)
  Lemma rep_each_length n l : length (rep_each n l) = n * length l.
  Proof.
    unfold rep_each. induction l as [|x xs IH]; cbn [flat_map length]; [lia|].
    rewrite app_length, repeat_length, IH. lia.
  Qed.

  Lemma nth_repeat_any (x : A) n i d : i < n -> nth i (repeat x n) d = x.
  Proof. revert i; induction n as [|n IH]; intros [|i] H; simpl; try lia; [reflexivity | apply IH; lia]. Qed.

  Lemma rep_each_nth n l i (d : A) : n <> 0 -> nth i (rep_each n l) d = nth (i / n) l d.
  Proof.
    intros Hn. unfold rep_each. revert i. induction l as [|x xs IH]; intros i; cbn [flat_map].
    - destruct i, (_ / n); reflexivity.
    - destruct (Nat.lt_ge_cases i n) as [Hlt|Hge].
      + rewrite app_nth1 by (rewrite repeat_length; exact Hlt).
        rewrite Nat.div_small by exact Hlt. cbn [nth]. apply nth_repeat_any. exact Hlt.
      + rewrite app_nth2 by (rewrite repeat_length; exact Hge). rewrite repeat_length, IH.
        replace i with ((i - n) + 1 * n) at 2 by lia. rewrite Nat.div_add by exact Hn.
        rewrite Nat.add_1_r. reflexivity.
  Qed.

  Lemma rep_list_length n l : length (rep_list n l) = n * length l.
  Proof.
    unfold rep_list. induction n as [|n IH]; cbn [repeat concat length]; [reflexivity|].
    rewrite app_length, IH. lia.
  Qed.

  Lemma rep_list_nth n l i (d : A) : i < n * length l -> nth i (rep_list n l) d = nth (i mod length l) l d.
  Proof.
    unfold rep_list. revert i. induction n as [|n IH]; intros i H; [lia|].
    cbn [repeat concat]. destruct (Nat.lt_ge_cases i (length l)) as [Hlt|Hge].
    - rewrite app_nth1 by exact Hlt. rewrite Nat.mod_small by exact Hlt. reflexivity.
    - rewrite app_nth2 by exact Hge. rewrite IH by lia.
      assert (Hl : length l <> 0) by lia.
      replace i with ((i - length l) + 1 * length l) at 2 by lia.
      rewrite Nat.mod_add by exact Hl. reflexivity.
  Qed.

  Lemma rep_each_one l : rep_each 1 l = l.
  Proof. unfold rep_each. induction l as [|x xs IH]; simpl; [reflexivity | f_equal; exact IH]. Qed.

  Lemma rep_list_one l : rep_list 1 l = l.
  Proof. unfold rep_list. cbn [repeat concat]. apply app_nil_r. Qed.

  (** ** blocks of constant length under [flat_map] over [seq] *)
  Lemma flat_map_block_length (f : nat -> list A) b N a :
    (forall i, a <= i < a + N -> length (f i) = b) -> length (flat_map f (seq a N)) = N * b.
  Proof.
    revert a. induction N as [|N IH]; intros a H; [reflexivity|].
    cbn [seq flat_map]. rewrite app_length, H by lia. rewrite IH; [lia|]. intros i Hi. apply H. lia.
  Qed.

  Lemma flat_map_block_nth (f : nat -> list A) b N a k r (d : A) :
    (forall i, a <= i < a + N -> length (f i) = b) -> k < N -> r < b ->
    nth (k * b + r) (flat_map f (seq a N)) d = nth r (f (a + k)) d.
  Proof.
    revert a k. induction N as [|N IH]; intros a k H Hk Hr; [lia|].
    cbn [seq flat_map]. destruct k as [|k].
    - rewrite app_nth1 by (rewrite H by lia; lia). rewrite Nat.add_0_r. reflexivity.
    - rewrite app_nth2 by (rewrite H by lia; lia). rewrite H by lia.
      replace (S k * b + r - b) with (k * b + r) by lia.
      rewrite IH; [f_equal; f_equal; lia | intros i Hi; apply H; lia | lia | lia].
  Qed.

  (** ** the interleave loops *)
  Lemma interleave_length n m nvol l1 l2 :
    nvol * n <= length l1 -> nvol * m <= length l2 ->
    length (interleave n m nvol l1 l2) = nvol * (n + m).
  Proof.
    intros H1 H2. unfold interleave. apply flat_map_block_length.
    intros i Hi. rewrite app_length, !py_slice_length; nia.
  Qed.

  Lemma interleave_nth n m nvol l1 l2 vol r (d : A) :
    nvol * n <= length l1 -> nvol * m <= length l2 -> vol < nvol -> r < n + m ->
    nth (vol * (n + m) + r) (interleave n m nvol l1 l2) d =
    if r <? n then nth (vol * n + r) l1 d else nth (vol * m + (r - n)) l2 d.
  Proof.
    intros H1 H2 Hv Hr. unfold interleave.
    rewrite (flat_map_block_nth _ (n + m)); try assumption.
    - cbn [Nat.add]. destruct (Nat.ltb_spec r n) as [Hlt|Hge].
      + rewrite app_nth1 by (rewrite py_slice_length by nia; exact Hlt). apply py_slice_nth. exact Hlt.
      + rewrite app_nth2 by (rewrite py_slice_length by nia; exact Hge).
        rewrite py_slice_length by nia. apply py_slice_nth. lia.
    - intros i Hi. rewrite app_length, !py_slice_length; nia.
  Qed.

  (** one block: the interleave is a plain append *)
  Lemma interleave_one n m l1 l2 : n = length l1 -> m = length l2 -> interleave n m 1 l1 l2 = l1 ++ l2.
  Proof.
    intros -> ->. unfold interleave. cbn [seq flat_map Nat.mul Nat.add]. rewrite app_nil_r.
    rewrite !py_slice_all by reflexivity. reflexivity.
  Qed.

  (** ** strided slices *)
  Lemma every_nth_fuel_nth fuel stride l i (d : A) :
    stride <> 0 -> length l <= fuel -> nth i (every_nth_fuel fuel stride l) d = nth (i * stride) l d.
  Proof.
    intros Hs. revert l i. induction fuel as [|f IH]; intros l i Hl.
    - destruct l; [|simpl in Hl; lia]. destruct i, (_ * stride); reflexivity.
    - destruct l as [|x xs]; [destruct i, (_ * stride); reflexivity|].
      cbn [every_nth_fuel]. destruct i as [|i]; [reflexivity|].
      change (nth i (every_nth_fuel f stride (skipn stride (x :: xs))) d = nth (S i * stride) (x :: xs) d).
      rewrite IH.
      + rewrite nth_skipn_add. reflexivity.
      + rewrite skipn_length. cbn [length] in *. lia.
  Qed.

  Lemma every_nth_fuel_length n fuel stride l :
    stride <> 0 -> length l = n * stride -> length l <= fuel -> length (every_nth_fuel fuel stride l) = n.
  Proof.
    intros Hs. revert fuel l. induction n as [|n IH]; intros fuel l Hl Hf.
    - destruct l; [|simpl in Hl; lia]. destruct fuel; reflexivity.
    - destruct l as [|x xs]; [simpl in Hl; lia|]. destruct fuel as [|f]; [simpl in Hf; lia|].
      cbn [every_nth_fuel length]. f_equal. apply IH.
      + rewrite skipn_length. lia.
      + rewrite skipn_length. cbn [length] in *. lia.
  Qed.

  Lemma every_nth_nth idx stride l i (d : A) :
    stride <> 0 -> nth i (every_nth idx stride l) d = nth (idx + i * stride) l d.
  Proof.
    intros Hs. unfold every_nth. rewrite every_nth_fuel_nth; [apply nth_skipn_add | exact Hs|].
    rewrite skipn_length. lia.
  Qed.

  Lemma every_nth0_length p n l : p <> 0 -> length l = n * p -> length (every_nth 0 p l) = n.
  Proof.
    intros Hp Hl. unfold every_nth. cbn [skipn]. apply every_nth_fuel_length; [exact Hp | exact Hl | lia].
  Qed.

  (** ** chunks *)
  Lemma chunks_length n p l : length (chunks n p l) = n.
  Proof. revert l; induction n as [|n IH]; intros l; cbn [chunks length]; [reflexivity | rewrite IH; reflexivity]. Qed.

  Lemma chunks_nth n p l k (dl : list A) : k < n -> nth k (chunks n p l) dl = firstn p (skipn (k * p) l).
  Proof.
    revert l k; induction n as [|n IH]; intros l k H; [lia|].
    cbn [chunks]. destruct k as [|k]; [reflexivity|].
    cbn [nth]. rewrite IH by lia. rewrite skipn_add. f_equal.
  Qed.

  Lemma In_chunks n p l ch : In ch (chunks n p l) -> exists k, k < n /\ ch = firstn p (skipn (k * p) l).
  Proof.
    intros H. destruct (In_nth _ _ [] H) as [k [Hk Hn]]. rewrite chunks_length in Hk.
    exists k. split; [exact Hk|]. rewrite <- Hn. apply chunks_nth. exact Hk.
  Qed.

  Lemma chunks_In n p l k : k < n -> In (firstn p (skipn (k * p) l)) (chunks n p l).
  Proof.
    intros H. rewrite <- (chunks_nth n p l k []) by exact H. apply nth_In. rewrite chunks_length. exact H.
  Qed.
End Lists.

(** ** boolean equality of lists *)
Section Eqb.
  Context {V : Type} (veqb : V -> V -> bool).
  Hypothesis veqb_spec : forall a b, reflect (a = b) (veqb a b).

  Lemma list_eqb_spec (a b : list V) : reflect (a = b) (list_eqb veqb a b).
  Proof.
    revert b; induction a as [|x xs IH]; intros [|y ys]; cbn [list_eqb]; try (constructor; congruence).
    destruct (veqb_spec x y) as [->|Hn]; cbn [andb].
    - destruct (IH ys) as [->|Hn]; constructor; congruence.
    - constructor; congruence.
  Qed.

  Lemma list_eqb_eq (a b : list V) : list_eqb veqb a b = true <-> a = b.
  Proof. destruct (list_eqb_spec a b); split; congruence. Qed.

  (** two lists of the same length are equal iff they agree at every index *)
  Lemma list_eq_nth (a b : list V) (d : V) :
    length a = length b -> (forall i, i < length a -> nth i a d = nth i b d) -> a = b.
  Proof.
    revert b; induction a as [|x xs IH]; intros [|y ys] Hl H; cbn [length] in *; try lia; [reflexivity|].
    f_equal; [apply (H 0); lia|]. apply IH; [lia|]. intros i Hi. apply (H (S i)). lia.
  Qed.

  Lemma all_eq_first_spec (l : list V) (d : V) :
    all_eq_first veqb l = true <-> forall i, i < length l -> nth i l d = nth 0 l d.
  Proof.
    unfold all_eq_first. destruct l as [|x xs]; [split; [intros _ i Hi; simpl in Hi; lia | reflexivity]|].
    rewrite forallb_forall. split.
    - intros H i Hi. specialize (H (nth i (x :: xs) d) (nth_In _ _ Hi)).
      destruct (veqb_spec (nth i (x :: xs) d) x); [assumption | discriminate].
    - intros H v Hin. destruct (In_nth _ _ d Hin) as [i [Hi Hv]]. specialize (H i Hi).
      rewrite Hv in H. change (nth 0 (x :: xs) d) with x in H. subst v. destruct (veqb_spec x x); congruence.
  Qed.
End Eqb.
