(** Facts about the GENERATED class tables, all decided by computation: a source edit of any of the
    literals re-checks (or breaks) them, and through them every proof that uses them. *)
From Coq Require Import List Bool Arith NArith ZArith QArith.
From DV Require Import Common.Res Common.Str Generated.T_classes Generated.T_ext_tol
     Ext.Types Ext.Classes Ext.Seq Ext.Model Ext.Spec.
Import ListNotations.
Local Open Scope nat_scope.

(** every name in every table decodes to a class (nothing is silently dropped by [decode_list]) *)
Lemma tables_decode :
  all_decode classifications
  && forallb (fun kv => all_decode (fst kv :: snd kv)) const_tests
  && forallb (fun kv => all_decode (fst kv :: snd kv)) repeat_tests
  && forallb (fun kv => match fst kv with Some n => all_decode [n] | None => true end && all_decode (snd kv))
             preserving_changes
  && all_decode copy_slice_global_dests && all_decode copy_slice_vector_dests && all_decode copy_sample_dests
  && (length insert_slice_bases_c =? length insert_slice_bases) = true.
Proof. vm_compute. reflexivity. Qed.

Lemma classifications_eq : classifications_c = [GConst; GSlices; TSamples; TSlices; VSamples; VSlices].
Proof. vm_compute. reflexivity. Qed.

Lemma const_dests_eq :
  map const_dests all_classes =
  [None; Some [GConst; VSamples; TSamples]; Some [GConst; VSamples]; Some [GConst]; Some [GConst];
   Some [GConst; TSamples]].
Proof. vm_compute. reflexivity. Qed.

Lemma repeat_dests_eq :
  map repeat_dests all_classes = [None; Some [TSlices; VSlices]; None; None; None; Some [TSlices]].
Proof. vm_compute. reflexivity. Qed.

Lemma preserving_eq :
  map preserving (None :: map Some all_classes) =
  [Some [GConst; VSamples; TSamples; TSlices; VSlices; GSlices];
   Some [VSamples; TSamples; TSlices; VSlices; GSlices];
   Some [];
   Some [GSlices];
   Some [VSlices; GSlices];
   Some [TSamples; GSlices];
   Some [GSlices]].
Proof. vm_compute. reflexivity. Qed.

Lemma copy_dests_eq :
  copy_slice_global_dests_c = [TSamples; VSamples; GConst] /\
  copy_slice_vector_dests_c = [TSamples; GConst] /\
  copy_sample_dests_c = [VSamples; GConst] /\
  insert_slice_bases_c = [BTime; BVector; BGlobal].
Proof. vm_compute. repeat split; reflexivity. Qed.

(** [_preserving_changes[None]] lists all classes in the preference order of the spec *)
Lemma preserving_none_is_pref_order :
  option_map (map pref_rank) (preserving None) = Some [0; 1; 2; 3; 4; 5].
Proof. vm_compute. reflexivity. Qed.

(** every allowed change goes up in the preference order and the relation is transitively closed *)
Lemma preserving_increasing :
  forallb (fun c => match preserving (Some c) with
                    | Some l => forallb (fun d => pref_rank c <? pref_rank d) l
                    | None => false end) all_classes = true.
Proof. vm_compute. reflexivity. Qed.

Lemma preserving_transitive :
  forallb (fun c => match preserving (Some c) with
                    | Some l => forallb (fun d => match preserving (Some d) with
                                                  | Some l2 => forallb (fun x => mem_cls x l) l2
                                                  | None => false end) l
                    | None => false end) all_classes = true.
Proof. vm_compute. reflexivity. Qed.

(** the destinations of the const tests and repeat tests come in increasing preference order and are below the source *)
Lemma const_tests_ordered :
  forallb (fun c => match const_dests c with
                    | Some l => forallb (fun d => pref_rank d <? pref_rank c) l
                                && (fix inc (l : list cls) := match l with
                                                              | a :: ((b :: _) as r) => (pref_rank a <? pref_rank b) && inc r
                                                              | _ => true end) l
                    | None => cls_eqb c GConst end) all_classes = true.
Proof. vm_compute. reflexivity. Qed.

Lemma valid_take_eq : (valid_take_3d, valid_take_4d, valid_take_5d, valid_skip_5d) = (2, 4, 2, 4).
Proof. vm_compute. reflexivity. Qed.

(** [get_valid_classes] agrees with the declarative rule of the spec *)
Lemma valid_classes_3 h : ndim h = 3 -> valid_classes h = [GConst; GSlices].
Proof. intros H. unfold valid_classes. rewrite H. vm_compute. reflexivity. Qed.
Lemma valid_classes_4 h : ndim h = 4 -> valid_classes h = [GConst; GSlices; TSamples; TSlices].
Proof. intros H. unfold valid_classes. rewrite H. vm_compute. reflexivity. Qed.
Lemma valid_classes_5 h : ndim h = 5 ->
  valid_classes h = if nth 3 (shape h) 0 =? 1 then [GConst; GSlices; VSamples; VSlices]
                    else [GConst; GSlices; TSamples; TSlices; VSamples; VSlices].
Proof. intros H. unfold valid_classes. rewrite H. destruct (nth 3 (shape h) 0 =? 1); vm_compute; reflexivity. Qed.

Lemma class_valid_ok h c : class_valid h c = class_ok (shape h) c.
Proof.
  unfold class_valid, class_ok. fold (ndim h).
  destruct (ndim h) as [|[|[|[|[|[|n]]]]]] eqn:E.
  1-3: unfold valid_classes; rewrite E; destruct c; reflexivity.
  - rewrite (valid_classes_3 h E). destruct c; reflexivity.
  - rewrite (valid_classes_4 h E). destruct c; reflexivity.
  - rewrite (valid_classes_5 h E). destruct (nth 3 (shape h) 0 =? 1); destruct c; reflexivity.
  - unfold valid_classes; rewrite E; destruct c; reflexivity.
Qed.

(** the tolerance of meta_valid is whatever the source says (the property names no number); the proofs only need it to
    be non-negative *)
Lemma meta_valid_atol_nonneg : (0 <= meta_valid_atol)%Q.
Proof. vm_compute. discriminate. Qed.
