(** C03, per key: [merge_hdr] builds a frame; iterating the one-step theorem over the inputs; the final
    simplify; the per-key theorems [merge_k_den] (slice / time / vector axis) and [merge_k_nonslice]. *)
From Coq Require Import List Bool Arith QArith Lia.
From DV Require Import Common.Res Common.Str Ext.Types Ext.Classes Ext.Seq Ext.Model Ext.Spec Ext.TableFacts
     Ext.ValidFacts Ext.ProofsMergeSeq Ext.ProofsMergeDen Ext.ProofsMergeStep Ext.ProofsMergeFrame
     Ext.ProofsMergeSimplify.
Import ListNotations.
Local Open Scope nat_scope.

(** * The grid of the inputs and of the partial results *)

Definition d_in (hfull : hdr) (ish : list nat) : pos := (in_S hfull ish, nth 3 ish 1, nth 4 ish 1).

Lemma frame_dims hfull ish dim N ax :
  frame hfull ish dim N -> axis_of (sdim hfull) dim = Some ax -> (3 <= dim -> sdim hfull <> None) ->
  coord ax (d_in hfull ish) = 1 /\
  (forall ho, inp hfull ish ho -> dims ho = d_in hfull ish) /\
  (forall m, 1 <= m -> dims (with_dim hfull dim m) = set_coord ax (d_in hfull ish) m).
Proof.
  intros F Hax Hn3. pose proof (axis_of_cases _ _ _ (fr_sdim _ _ _ _ F) Hax) as Hcase.
  assert (Hinp : forall ho, inp hfull ish ho -> dims ho = d_in hfull ish).
  { intros ho [Hsh Hsd]. unfold dims, d_in, in_S. rewrite Hsh, Hsd. reflexivity. }
  split; [|split; [exact Hinp|]].
  - destruct ax; unfold d_in, in_S; cbn [coord].
    + destruct Hcase as [-> _]. apply (fr_sing _ _ _ _ F).
    + destruct Hcase as [-> _]. apply (fr_sing _ _ _ _ F).
    + destruct Hcase as [-> _]. apply (fr_sing _ _ _ _ F).
  - intros m Hm.
    (* a dummy input header with the right shape *)
    set (ho := mk_hdr ish (sdim hfull) (aff hfull) false false).
    assert (Hin : inp hfull ish ho) by (split; reflexivity).
    destruct ax.
    + destruct Hcase as [Hs _]. pose proof (frame_slice_ctx hfull ish dim N ho m F Hin Hs Hm) as X.
      rewrite (sx_d _ _ _ _ _ _ X). unfold d_in. reflexivity.
    + destruct Hcase as [-> _]. destruct (frame_time_ctx hfull ish N ho m F Hin (Hn3 ltac:(lia)) Hm) as [X _].
      rewrite (tx_d _ _ _ _ _ _ X). unfold d_in. reflexivity.
    + destruct Hcase as [-> _]. pose proof (frame_vec_ctx hfull ish N ho m F Hin (Hn3 ltac:(lia)) Hm) as X.
      rewrite (vx_d _ _ _ _ _ _ X). unfold d_in. reflexivity.
Qed.

Lemma in_dims_set_coord ax d m m' p :
  in_dims (set_coord ax d m) p -> coord ax p < m' -> in_dims (set_coord ax d m') p.
Proof. destruct d as [[a b] c], p as [[s t] v], ax; cbn; lia. Qed.

Lemma in_dims_coord ax d m p : in_dims (set_coord ax d m) p -> coord ax p < m.
Proof. destruct d as [[a b] c], p as [[s t] v], ax; cbn; lia. Qed.

Lemma in_dims_set0 ax d m p : coord ax d = 1 -> in_dims (set_coord ax d m) p -> in_dims d (set_coord ax p 0).
Proof. destruct d as [[a b] c], p as [[s t] v], ax; cbn; lia. Qed.

Lemma set_coord_same ax p : coord ax p = 0 -> set_coord ax p 0 = p.
Proof. destruct p as [[s t] v], ax; cbn; intros ->; reflexivity. Qed.


(** * [merge_hdr] builds a frame *)

Lemma make_empty_hdr_inv sh a sd h :
  make_empty_hdr sh a sd = Ok h ->
  3 <= length sh <= 5 /\ (length a = 4 /\ Forall (fun r => length r = 4) a) /\ (forall d, sd = Some d -> d < 3) /\
  h = mk_hdr sh sd a ((length sh =? 4) || ((4 <? length sh) && negb (nth 3 sh 0 =? 1))) (4 <? length sh).
Proof.
  unfold make_empty_hdr. intros H.
  destruct ((3 <=? length sh) && (length sh <? 6)) eqn:E1; cbn [negb] in H; [|discriminate].
  destruct ((length a =? 4) && forallb (fun r => length r =? 4) a) eqn:E2; cbn [negb] in H; [|discriminate].
  destruct (match sd with None => true | Some d => d <? 3 end) eqn:E3; cbn [negb] in H; [|discriminate].
  apply Ok_inj in H. subst h.
  apply andb_true_iff in E1 as [A B]. apply Nat.leb_le in A. apply Nat.ltb_lt in B.
  apply andb_true_iff in E2 as [C D]. apply Nat.eqb_eq in C.
  split; [lia|]. split; [split; [exact C|]|].
  - apply Forall_forall. intros r Hr. rewrite forallb_forall in D. apply Nat.eqb_eq. auto.
  - split; [|reflexivity]. intros d ->. apply Nat.ltb_lt. exact E3.
Qed.

Lemma make_empty_hdr_bases sh a sd h :
  make_empty_hdr sh a sd = Ok h -> forall c, has_base h (base_of c) = class_ok (shape h) c.
Proof.
  intros H c. destruct (make_empty_hdr_inv _ _ _ _ H) as [Hn [_ [_ ->]]]. cbn [shape].
  unfold class_ok. destruct (length sh) as [|[|[|[|[|[|n]]]]]]; try lia; destruct c; reflexivity.
Qed.

Lemma merge_hdr_inv (hs : list hdr) h0 dim a sd hfull :
  hd_error hs = Some h0 -> merge_hdr hs dim a sd = Ok hfull ->
  dim < 5 /\ nth dim (shape h0) 1 = 1 /\
  exists osh, set_nth dim (length hs) (pad_to (S dim) (shape h0)) = Some osh /\
    make_empty_hdr osh (match a with Some m => m | None => aff h0 end)
                   (match sd with Some d => Some d | None => sdim h0 end) = Ok hfull /\
    ndim_ok h0 = true /\
    forallb (fun c => (is_slices c && negb (use_slices hfull h0)) || has_base hfull (base_of c)) (valid_classes h0) = true.
Proof.
  intros Hhd H. unfold merge_hdr in H.
  destruct (Nat.leb_spec 5 dim) as [E|E]; [discriminate|].
  destruct hs as [|h hs']; [discriminate|]. cbn [hd_error] in Hhd. apply Some_inj in Hhd. subst h.
  destruct ((dim <? length (shape h0)) && negb (nth dim (shape h0) 0 =? 1)) eqn:E1; [discriminate|].
  destruct (set_nth dim (length (h0 :: hs')) (pad_to (S dim) (shape h0))) as [osh|] eqn:E2; [|discriminate].
  apply bind_ok in H as [hf [Hm H]].
  destruct (ndim_ok h0) eqn:E3; cbn [negb] in H; [|discriminate].
  destruct (forallb _ (valid_classes h0)) eqn:E4; [|discriminate]. apply Ok_inj in H. subst hf.
  split; [lia|]. split.
  - apply andb_false_iff in E1 as [E1|E1].
    + apply Nat.ltb_ge in E1. apply nth_overflow. exact E1.
    + apply negb_false_iff, Nat.eqb_eq in E1. destruct (Nat.lt_ge_cases dim (length (shape h0))) as [Hlt|Hge].
      * rewrite (nth_indep _ 1 0 Hlt). exact E1.
      * apply nth_overflow. exact Hge.
  - exists osh. repeat split; assumption.
Qed.

Lemma merge_hdr_frame (hs : list hdr) h0 dim a sd hfull :
  hd_error hs = Some h0 -> 2 <= length hs -> Forall (fun n => 1 <= n) (shape h0) ->
  merge_hdr hs dim a sd = Ok hfull ->
  frame hfull (shape h0) dim (length hs) /\ hdr_wf hfull /\
  sdim hfull = (match sd with Some d => Some d | None => sdim h0 end) /\
  aff hfull = (match a with Some m => m | None => aff h0 end).
Proof.
  intros Hhd HN Hpos H.
  destruct (merge_hdr_inv hs h0 dim a sd hfull Hhd H) as [Hdim [Hsing [osh [Eset [Hm [Hnd Hfa]]]]]].
  destruct (make_empty_hdr_inv _ _ _ _ Hm) as [Hn [Haff [Hsd Ehf]]].
  pose proof (make_empty_hdr_bases _ _ _ _ Hm) as Hbases.
  assert (Hshape : shape hfull = osh) by (rewrite Ehf; reflexivity).
  assert (Hsdim : sdim hfull = match sd with Some d => Some d | None => sdim h0 end) by (rewrite Ehf; reflexivity).
  assert (Hafff : aff hfull = match a with Some m => m | None => aff h0 end) by (rewrite Ehf; reflexivity).
  assert (Hnd0 : 3 <= length (shape h0) <= 5).
  { unfold ndim_ok, ndim in Hnd. apply andb_true_iff in Hnd as [A B]. apply Nat.leb_le in A. apply Nat.ltb_lt in B. lia. }
  assert (Hn1 : ~ (dim = 4 /\ length (shape h0) = 4 /\ nth 3 (shape h0) 1 = 1)).
  { intros [-> [H4 HT]]. rewrite (valid_classes_4 h0 H4) in Hfa. rewrite forallb_forall in Hfa.
    specialize (Hfa TSamples ltac:(cbn; auto)). cbn [is_slices sub_of base_of andb orb has_base] in Hfa.
    rewrite Ehf in Hfa. cbn [has_time] in Hfa.
    destruct (shape h0) as [|x [|y [|z [|t [|v r]]]]]; cbn [length] in H4; try lia.
    cbn [nth] in HT. subst t. cbn [pad_to set_nth option_map] in Eset. apply Some_inj in Eset. subst osh.
    cbn in Hfa. discriminate. }
  assert (F : frame hfull (shape h0) dim (length hs)).
  { constructor; try assumption.
    - rewrite Hshape. exact Eset.
    - intros d Hd. apply Hsd. rewrite <- Hsdim. exact Hd. }
  split; [exact F|]. split; [|split; assumption].
  (* hdr_wf *)
  set (ho := mk_hdr (shape h0) (sdim hfull) (aff hfull) false false).
  assert (Hin : inp hfull (shape h0) ho) by (split; reflexivity).
  destruct (frame_generic hfull (shape h0) dim (length hs) ho (length hs) F Hin ltac:(lia)) as [_ [Hok _]].
  rewrite (with_dim_full _ _ _ _ F) in Hok. destruct Hok as [A [B C]].
  split; [exact A|]. split; [exact B|]. split; [exact C|]. split.
  - rewrite Hafff. exact Haff.
  - intros c Hc. rewrite Hbases. exact Hc.
Qed.

Section WithV.
  Context {V : Type} (veqb : V -> V -> bool) (vnone : V).
  Hypothesis veqb_spec : forall a b, reflect (a = b) (veqb a b).
  Notation den_k := (den_k vnone).

  (** what input [(ho, ko)] contributes to the result with header [hr] *)
  Definition den_ink (hr : hdr) (i : hdr * kst V) (p : pos) : V :=
    den_k (fst i) (drop_k (use_slices hr (fst i)) (snd i)) p.

  Definition inp_ok (hfull : hdr) (ish : list nat) (i : hdr * kst V) : Prop :=
    inp hfull ish (fst i) /\ good_k (fst i) (snd i).

  (** the accumulated state after the first input *)
  Lemma init_k_drop hfull h0 (k0 : kst V) : good_k h0 k0 -> init_k hfull h0 k0 = drop_k (use_slices hfull h0) k0.
  Proof. intros Hg. unfold init_k. rewrite (visible_good _ _ Hg). reflexivity. Qed.

  Lemma good_k_transfer h h' (s : kst V) :
    dims h' = dims h -> sdim h' = sdim h ->
    (forall c, class_ok (shape h) c = true -> class_ok (shape h') c = true) ->
    good_k h s -> good_k h' s /\ forall p, den_k h' s p = den_k h s p.
  Proof.
    intros Hd Hs Hm Hg. destruct s as [[c vs]|]; [|split; [exact I | reflexivity]].
    destruct Hg as [Hok [Hsl Hl]]. split.
    - split; [apply Hm; exact Hok|]. split; [rewrite Hs; exact Hsl | rewrite Hd; exact Hl].
    - intros p. rewrite !den_k_good by auto. rewrite Hd. reflexivity.
  Qed.

  (** THEOREM 2, iterated: inserting the remaining inputs one after the other *)
  Lemma insert_all_k_den hfull ish dim N ax :
    frame hfull ish dim N -> axis_of (sdim hfull) dim = Some ax -> (3 <= dim -> sdim hfull <> None) ->
    forall others j ks,
      1 <= j -> Forall (inp_ok hfull ish) others -> good_k (with_dim hfull dim j) ks ->
      exists ks', insert_all_k veqb vnone hfull dim j others ks = Ok ks' /\
        good_k (with_dim hfull dim (j + length others)) ks' /\
        (others <> [] -> nondeg_k (with_dim hfull dim (j + length others)) ks') /\
        forall p, in_dims (dims (with_dim hfull dim (j + length others))) p ->
          den_k (with_dim hfull dim (j + length others)) ks' p =
          if coord ax p <? j then den_k (with_dim hfull dim j) ks p
          else den_ink hfull (nth (coord ax p - j) others (hfull, None)) (set_coord ax p 0).
  Proof.
    intros F Hax Hn3. destruct (frame_dims hfull ish dim N ax F Hax Hn3) as [Hc1 [Hdin Hdm]].
    induction others as [|[ho ko] rest IH]; intros j ks Hj Hall Hg.
    - exists ks. cbn [insert_all_k length]. rewrite Nat.add_0_r. split; [reflexivity|]. split; [exact Hg|].
      split; [congruence|]. intros p Hp. rewrite Hdm in Hp by exact Hj.
      pose proof (in_dims_coord _ _ _ _ Hp) as Hlt. apply Nat.ltb_lt in Hlt. rewrite Hlt. reflexivity.
    - inversion Hall as [|? ? [Hinp Hgo] Hrest]; subst. cbn [fst snd] in *.
      destruct (insert_k_den veqb vnone veqb_spec hfull ish dim N ho j ax ks ko F Hinp Hj Hax Hn3 Hg Hgo)
        as [ks1 [E1 [G1 [N1 D1]]]].
      cbn [insert_all_k]. rewrite E1. cbn [bind].
      destruct (IH (S j) ks1 ltac:(lia) Hrest G1) as [ks' [E' [G' [_ D']]]].
      exists ks'. cbn [length]. replace (j + S (length rest)) with (S j + length rest) by lia.
      split; [exact E'|]. split; [exact G'|]. split.
      { intros _. destruct rest as [|x rest'].
        - cbn [insert_all_k] in E'. apply Ok_inj in E'. subst ks'. cbn [length]. rewrite Nat.add_0_r. exact N1.
        - destruct (IH (S j) ks1 ltac:(lia) Hrest G1) as [ks'' [E'' [_ [N'' _]]]].
          rewrite E' in E''. apply Ok_inj in E''. subst ks''. apply N''. discriminate. }
      intros p Hp. rewrite (D' p Hp). rewrite Hdm in Hp by lia.
      destruct (Nat.ltb_spec (coord ax p) (S j)) as [Hlt|Hge].
      + rewrite D1 by (rewrite Hdm by lia; eapply in_dims_set_coord; eassumption).
        destruct (Nat.ltb_spec (coord ax p) j) as [Hlt2|Hge2]; [reflexivity|].
        replace (coord ax p - j) with 0 by lia. reflexivity.
      + destruct (Nat.ltb_spec (coord ax p) j) as [Hlt2|Hge2]; [lia|].
        replace (coord ax p - j) with (S (coord ax p - S j)) by lia. reflexivity.
  Qed.

  (** no trailing singleton dimension (outside the region of the open finding N4) *)
  Definition n4_free (h : hdr) : Prop :=
    (ndim h = 4 -> nth 3 (shape h) 1 <> 1) /\ (ndim h = 5 -> nth 4 (shape h) 1 <> 1).

  Lemma set_coord_coord ax d : set_coord ax d (coord ax d) = d.
  Proof. destruct d as [[a b] c], ax; reflexivity. Qed.

  (** the final simplify of a key that ended up in ('global','slices') *)
  Lemma final_simplify hfull ish dim N ks :
    frame hfull ish dim N -> hdr_ok hfull -> n4_free hfull -> good_k hfull ks ->
    exists ks', (match visible hfull ks with
                 | Some (GSlices, _) => simplify_k veqb vnone hfull ks
                 | _ => Ok ks
                 end) = Ok ks' /\ good_k hfull ks' /\
                forall p, in_dims (dims hfull) p -> den_k hfull ks' p = den_k hfull ks p.
  Proof.
    intros F Hh [H4 H5] Hg. rewrite (visible_good _ _ Hg).
    destruct ks as [[c vs]|]; [|exists None; auto].
    destruct c; try (eexists; split; [reflexivity|]; split; [exact Hg | reflexivity]).
    destruct Hg as [Hok [Hsl Hl]].
    destruct (simplify_gslices_den veqb vnone veqb_spec hfull vs Hh (fr_bases _ _ _ _ F) (Hsl eq_refl) Hl H4 H5)
      as [s' [E [G D]]].
    exists s'. split; [exact E|]. split; [exact G|]. intros p Hp. rewrite den_k_good by exact Hok. apply D. exact Hp.
  Qed.

  (** THEOREM 3, per key: merging along the slice / time / vector axis concatenates the inputs *)
  Theorem merge_k_den hfull ish dim N ax ins :
    frame hfull ish dim N -> axis_of (sdim hfull) dim = Some ax -> (3 <= dim -> sdim hfull <> None) ->
    n4_free hfull -> length ins = N -> Forall (inp_ok hfull ish) ins ->
    exists ks, merge_k veqb vnone hfull dim ins = Ok ks /\ good_k hfull ks /\
      forall p, in_dims (dims hfull) p ->
        den_k hfull ks p = den_ink hfull (nth (coord ax p) ins (hfull, None)) (set_coord ax p 0).
  Proof.
    intros F Hax Hn3 Hn4 Hlen Hall. pose proof (fr_N _ _ _ _ F) as HN.
    destruct ins as [|[h0 k0] rest]; [cbn [length] in Hlen; lia|].
    inversion Hall as [|? ? [Hinp0 Hg0] Hrest]; subst. cbn [fst snd length] in *.
    destruct (frame_dims hfull ish dim _ ax F Hax Hn3) as [Hc1 [Hdin Hdm]].
    destruct (frame_generic hfull ish dim _ h0 1 F Hinp0 (le_n 1)) as [Hh0 [Hhs1 [Hsd1 [_ [Hmono1 _]]]]].
    (* the state after the first input *)
    set (ks0 := drop_k (use_slices hfull h0) k0).
    assert (Hg00 : good_k h0 ks0) by (apply drop_k_good; exact Hg0).
    destruct (good_k_transfer h0 (with_dim hfull dim 1) ks0) as [Hg1 Hd1]; try assumption.
    { rewrite Hdm by lia. rewrite (Hdin h0 Hinp0). rewrite <- (set_coord_coord ax (d_in hfull ish)) at 2. rewrite Hc1. reflexivity. }
    { destruct Hinp0 as [_ H]. rewrite H, Hsd1. reflexivity. }
    destruct (insert_all_k_den hfull ish dim _ ax F Hax Hn3 rest 1 ks0 (le_n 1) Hrest Hg1) as [ks [E [G [_ D]]]].
    replace (1 + length rest) with (S (length rest)) in * by lia.
    rewrite (with_dim_full hfull ish dim _ F) in G, D.
    assert (Hhf : hdr_ok hfull).
    { destruct (frame_generic hfull ish dim _ h0 (S (length rest)) F Hinp0 ltac:(lia)) as [_ [H _]].
      rewrite (with_dim_full hfull ish dim _ F) in H. exact H. }
    destruct (final_simplify hfull ish dim _ ks F Hhf Hn4 G) as [ks' [E' [G' D']]].
    exists ks'. split.
    - unfold merge_k. rewrite (init_k_drop _ _ _ Hg0). fold ks0. rewrite E. cbn [bind]. exact E'.
    - split; [exact G'|]. intros p Hp. rewrite (D' p Hp), (D p Hp).
      destruct (Nat.ltb_spec (coord ax p) 1) as [Hlt|Hge].
      + assert (E0 : coord ax p = 0) by lia. rewrite E0. cbn [nth]. unfold den_ink. cbn [fst snd]. fold ks0.
        rewrite Hd1. rewrite set_coord_same by exact E0. reflexivity.
      + destruct (coord ax p) as [|c]; [lia|]. cbn [nth]. replace (S c - 1) with c by lia. reflexivity.
  Qed.

  (** * Non-slice spatial axis *)

  (** self and the input agree at every grid position *)
  Definition agree_k (hfull h : hdr) (ks : kst V) (i : hdr * kst V) : Prop :=
    forall p, in_dims (dims h) p -> den_k h ks p = den_ink hfull i p.

  Lemma insert_k_nonslice hfull ish dim N ho j ks ko :
    frame hfull ish dim N -> inp hfull ish ho -> 1 <= j -> dim < 3 -> sdim hfull <> Some dim ->
    good_k (with_dim hfull dim j) ks -> good_k ho ko ->
    exists ks', insert_k veqb vnone (with_dim hfull dim j) ho dim ks ko = Ok ks' /\
      good_k (with_dim hfull dim (S j)) ks' /\
      ((agree_k hfull (with_dim hfull dim j) ks (ho, ko) /\
        forall p, in_dims (dims ho) p -> den_k (with_dim hfull dim (S j)) ks' p = den_k (with_dim hfull dim j) ks p) \/
       (~ agree_k hfull (with_dim hfull dim j) ks (ho, ko) /\ ks' = None)).
  Proof.
    intros F Hin Hj Hd3 Hns Hgs Hgo.
    destruct (frame_generic hfull ish dim N ho j F Hin Hj) as [Hho [Hhs [Hsd [Haff [Hmono Hbase]]]]].
    destruct (frame_generic hfull ish dim N ho (S j) F Hin ltac:(lia)) as [_ [Hhs' [Hsd' _]]].
    destruct (frame_nonslice hfull ish dim N ho j F Hin Hd3 Hns Hj) as [Hdj Hokj].
    destruct (frame_nonslice hfull ish dim N ho (S j) F Hin Hd3 Hns ltac:(lia)) as [Hdj' Hokj'].
    pose proof (use_slices_with_dim hfull dim j ho Hsd Haff) as Hus.
    unfold agree_k, den_ink. cbn [fst snd].
    set (hs := with_dim hfull dim j) in *. set (hs' := with_dim hfull dim (S j)) in *.
    set (ko2 := drop_k (use_slices hfull ho) ko).
    assert (Hgo2 : good_k ho ko2) by (apply drop_k_good; exact Hgo).
    assert (Hsdo : sdim ho = sdim hs) by (destruct Hin as [_ H]; rewrite H, Hsd; reflexivity).
    assert (Htr : forall s, good_k hs s -> good_k hs' s /\ forall p, den_k hs' s p = den_k hs s p).
    { intros s Hs. apply good_k_transfer; [congruence | congruence | | exact Hs].
      intros c Hc. rewrite <- Hokj'. rewrite Hokj. exact Hc. }
    unfold insert_k. rewrite Hus. rewrite (visible_good _ _ Hgo), (visible_good _ _ Hgs).
    change (match ko with Some (c, vs) => if is_slices c && negb (use_slices hfull ho) then None else Some (c, vs)
                     | None => None end) with ko2.
    assert (Hod : odim_is (sdim hs) dim = false).
    { rewrite Hsd. unfold odim_is. destruct (sdim hfull) as [d|]; [|reflexivity].
      apply Nat.eqb_neq. intros ->. apply Hns. reflexivity. }
    rewrite Hdj.
    assert (K : forall oc, (match ko2 with Some (c, _) => c | None => GConst end) = oc ->
                exists ks', (bind (reclassify_k vnone hs ks oc) (fun ks1 =>
                   if odim_is (sdim hs) dim then insert_slice_k veqb vnone hs ho ks1 ko2
                   else if dim <? 3 then insert_non_slice_k veqb vnone hs ho ks1 ko2
                   else if dim =? 3 then insert_sample_k veqb vnone hs ho ks1 ko2 BTime
                   else if dim =? 4 then insert_sample_k veqb vnone hs ho ks1 ko2 BVector
                   else Ok ks1)) = Ok ks' /\
                  good_k hs' ks' /\
                  (((forall p, in_dims (dims ho) p -> den_k hs ks p = den_k ho ko2 p) /\
                    forall p, in_dims (dims ho) p -> den_k hs' ks' p = den_k hs ks p) \/
                   (~ (forall p, in_dims (dims ho) p -> den_k hs ks p = den_k ho ko2 p) /\ ks' = None))).
    { intros oc Hoc.
      assert (Hoko : class_ok (shape hs) oc = true).
      { subst oc. destruct ko2 as [[c vs]|]; [apply Hmono; destruct Hgo2 as [H _]; exact H | apply class_ok_const; exact Hhs]. }
      assert (Hocsl : is_slices oc = true -> sdim hs <> None).
      { subst oc. destruct ko2 as [[c vs]|]; [|discriminate]. destruct Hgo2 as [_ [H _]]. rewrite <- Hsdo. exact H. }
      destruct (reclassify_k_ok vnone hs ks oc Hhs Hgs Hoko Hocsl (Hbase _ Hoko)) as [ks1 E1].
      rewrite E1. cbn [bind].
      destruct (reclassify_k_den vnone hs ks oc ks1 Hhs Hgs Hoko Hocsl E1) as [Hg1 [Hd1 [c1 [vs1 [-> [Hw1 _]]]]]].
      assert (Hw : widens (kst_class ko2) c1).
      { subst oc. destruct ko2 as [[c vs]|]; [exact Hw1 | right; apply allowed_from_none]. }
      rewrite Hod. replace (dim <? 3) with true by (symmetry; apply Nat.ltb_lt; exact Hd3).
      rewrite Hdj in Hd1.
      destruct (insert_non_slice_k_den veqb vnone veqb_spec hs ho c1 vs1 ko2 Hhs Hho (eq_sym Hdj) Hsdo Hokj Hg1 Hgo2 Hw)
        as [[Ha E]|[Hna E]]; rewrite E; rewrite Hdj in *.
      - eexists. split; [reflexivity|]. destruct (Htr _ Hg1) as [G' D']. split; [exact G'|]. left. split.
        + intros p Hp. rewrite <- Hd1 by exact Hp. apply Ha. exact Hp.
        + intros p Hp. rewrite D'. apply Hd1. exact Hp.
      - exists None. split; [reflexivity|]. split; [exact I|]. right. split; [|reflexivity].
        intros H. apply Hna. intros p Hp. rewrite Hd1 by exact Hp. apply H. exact Hp. }
    destruct ko2 as [[oc ovs]|] eqn:Eko.
    - apply (K oc eq_refl).
    - destruct ks as [[c vs]|].
      + apply (K GConst eq_refl).
      + exists None. split; [reflexivity|]. split; [exact I|]. left. split; reflexivity.
  Qed.

  (** the state after the first input is a good state of the one-position partial result *)
  Lemma init_k_good hfull ish dim N h0 (k0 : kst V) :
    frame hfull ish dim N -> inp hfull ish h0 -> good_k h0 k0 ->
    dims (with_dim hfull dim 1) = dims h0 ->
    good_k (with_dim hfull dim 1) (init_k hfull h0 k0) /\
    forall p, den_k (with_dim hfull dim 1) (init_k hfull h0 k0) p = den_ink hfull (h0, k0) p.
  Proof.
    intros F Hin Hg Hd. rewrite (init_k_drop _ _ _ Hg).
    destruct (frame_generic hfull ish dim N h0 1 F Hin (le_n 1)) as [_ [_ [Hsd1 [_ [Hmono1 _]]]]].
    destruct Hin as [_ H]. unfold den_ink. cbn [fst snd].
    apply good_k_transfer; try assumption; try congruence.
    apply drop_k_good. exact Hg.
  Qed.

  Lemma all_vnone_stays hfull ish dim N :
    frame hfull ish dim N -> dim < 3 -> sdim hfull <> Some dim ->
    forall others j ks,
      1 <= j -> Forall (inp_ok hfull ish) others -> good_k (with_dim hfull dim j) ks ->
      (forall p, in_dims (d_in hfull ish) p -> den_k (with_dim hfull dim j) ks p = vnone) ->
      exists ks', insert_all_k veqb vnone hfull dim j others ks = Ok ks' /\
        good_k (with_dim hfull dim (j + length others)) ks' /\
        forall p, in_dims (d_in hfull ish) p -> den_k (with_dim hfull dim (j + length others)) ks' p = vnone.
  Proof.
    intros F Hd3 Hns. induction others as [|[ho ko] rest IH]; intros j ks Hj Hall Hg Hv.
    - exists ks. cbn [insert_all_k length]. rewrite Nat.add_0_r. auto.
    - inversion Hall as [|? ? [Hinp Hgo] Hrest]; subst. cbn [fst snd] in *.
      destruct (insert_k_nonslice hfull ish dim N ho j ks ko F Hinp Hj Hd3 Hns Hg Hgo) as [ks1 [E1 [G1 C1]]].
      cbn [insert_all_k]. rewrite E1. cbn [bind].
      assert (Hdo : dims ho = d_in hfull ish).
      { destruct Hinp as [Hsh Hsd]. unfold dims, d_in, in_S. rewrite Hsh, Hsd. reflexivity. }
      assert (Hv1 : forall p, in_dims (d_in hfull ish) p -> den_k (with_dim hfull dim (S j)) ks1 p = vnone).
      { destruct C1 as [[_ D]|[_ ->]]; [|reflexivity]. intros p Hp. rewrite D by (rewrite Hdo; exact Hp). apply Hv. exact Hp. }
      destruct (IH (S j) ks1 ltac:(lia) Hrest G1 Hv1) as [ks' [E' [G' D']]].
      exists ks'. cbn [length]. replace (j + S (length rest)) with (S j + length rest) by lia. auto.
  Qed.

  Lemma insert_all_k_nonslice hfull ish dim N :
    frame hfull ish dim N -> dim < 3 -> sdim hfull <> Some dim ->
    forall others j ks,
      1 <= j -> Forall (inp_ok hfull ish) others -> good_k (with_dim hfull dim j) ks ->
      exists ks', insert_all_k veqb vnone hfull dim j others ks = Ok ks' /\
        good_k (with_dim hfull dim (j + length others)) ks' /\
        ((Forall (agree_k hfull (with_dim hfull dim j) ks) others /\
          forall p, in_dims (d_in hfull ish) p ->
            den_k (with_dim hfull dim (j + length others)) ks' p = den_k (with_dim hfull dim j) ks p) \/
         (Exists (fun i => ~ agree_k hfull (with_dim hfull dim j) ks i) others /\
          forall p, in_dims (d_in hfull ish) p -> den_k (with_dim hfull dim (j + length others)) ks' p = vnone)).
  Proof.
    intros F Hd3 Hns. induction others as [|[ho ko] rest IH]; intros j ks Hj Hall Hg.
    - exists ks. cbn [insert_all_k length]. rewrite Nat.add_0_r. split; [reflexivity|]. split; [exact Hg|].
      left. split; [constructor | reflexivity].
    - inversion Hall as [|? ? [Hinp Hgo] Hrest]; subst. cbn [fst snd] in *.
      destruct (insert_k_nonslice hfull ish dim N ho j ks ko F Hinp Hj Hd3 Hns Hg Hgo) as [ks1 [E1 [G1 C1]]].
      cbn [insert_all_k]. rewrite E1. cbn [bind].
      assert (Hdo : dims ho = d_in hfull ish).
      { destruct Hinp as [Hsh Hsd]. unfold dims, d_in, in_S. rewrite Hsh, Hsd. reflexivity. }
      assert (Hdj : forall m, 1 <= m -> dims (with_dim hfull dim m) = d_in hfull ish).
      { intros m Hm. destruct (frame_nonslice hfull ish dim N ho m F Hinp Hd3 Hns Hm) as [H _]. congruence. }
      cbn [length]. replace (j + S (length rest)) with (S j + length rest) by lia.
      destruct C1 as [[Ha D1]|[Hna ->]].
      + destruct (IH (S j) ks1 ltac:(lia) Hrest G1) as [ks' [E' [G' C']]].
        exists ks'. split; [exact E'|]. split; [exact G'|].
        assert (Hag : forall i, agree_k hfull (with_dim hfull dim (S j)) ks1 i <-> agree_k hfull (with_dim hfull dim j) ks i).
        { intros i. unfold agree_k. rewrite !Hdj by lia. split; intros H p Hp.
          - rewrite <- D1 by (rewrite Hdo; exact Hp). apply H. exact Hp.
          - rewrite D1 by (rewrite Hdo; exact Hp). apply H. exact Hp. }
        destruct C' as [[Hf D']|[He D']].
        * left. split.
          -- constructor; [exact Ha|]. eapply Forall_impl; [|exact Hf]. intros i Hi. apply Hag. exact Hi.
          -- intros p Hp. rewrite D' by exact Hp. apply D1. rewrite Hdo. exact Hp.
        * right. split; [|exact D'].
          apply Exists_cons_tl. eapply Exists_impl; [|exact He]. intros i Hi H. apply Hi. apply Hag. exact H.
      + destruct (all_vnone_stays hfull ish dim N F Hd3 Hns rest (S j) None ltac:(lia) Hrest I (fun _ _ => eq_refl))
          as [ks' [E' [G' D']]].
        exists ks'. split; [exact E'|]. split; [exact G'|]. right. split; [|exact D'].
        apply Exists_cons_hd. exact Hna.
  Qed.

  (** THEOREM 4, per key: merging along a non-slice spatial axis keeps a key iff all inputs agree on it *)
  Theorem merge_k_nonslice hfull ish dim N ins i0 :
    frame hfull ish dim N -> dim < 3 -> sdim hfull <> Some dim ->
    n4_free hfull -> length ins = N -> Forall (inp_ok hfull ish) ins -> hd_error ins = Some i0 ->
    exists ks, merge_k veqb vnone hfull dim ins = Ok ks /\ good_k hfull ks /\
      ((Forall (fun i => forall p, in_dims (d_in hfull ish) p -> den_ink hfull i p = den_ink hfull i0 p) ins /\
        forall p, in_dims (d_in hfull ish) p -> den_k hfull ks p = den_ink hfull i0 p) \/
       (Exists (fun i => ~ forall p, in_dims (d_in hfull ish) p -> den_ink hfull i p = den_ink hfull i0 p) ins /\
        forall p, in_dims (d_in hfull ish) p -> den_k hfull ks p = vnone)).
  Proof.
    intros F Hd3 Hns Hn4 Hlen Hall Hhd. pose proof (fr_N _ _ _ _ F) as HN.
    destruct ins as [|[h0 k0] rest]; [cbn [length] in Hlen; lia|].
    cbn [hd_error] in Hhd. apply Some_inj in Hhd. subst i0.
    inversion Hall as [|? ? [Hinp0 Hg0] Hrest]; subst. cbn [fst snd length] in *.
    assert (Hdj : forall m, 1 <= m -> dims (with_dim hfull dim m) = d_in hfull ish).
    { intros m Hm. destruct (frame_nonslice hfull ish dim _ h0 m F Hinp0 Hd3 Hns Hm) as [H _].
      rewrite H. destruct Hinp0 as [Hsh Hsd]. unfold dims, d_in, in_S. rewrite Hsh, Hsd. reflexivity. }
    assert (Hd0 : dims h0 = d_in hfull ish).
    { destruct Hinp0 as [Hsh Hsd]. unfold dims, d_in, in_S. rewrite Hsh, Hsd. reflexivity. }
    destruct (init_k_good hfull ish dim _ h0 k0 F Hinp0 Hg0 ltac:(rewrite Hdj by lia; congruence)) as [Hg1 Hd1].
    destruct (insert_all_k_nonslice hfull ish dim _ F Hd3 Hns rest 1 _ (le_n 1) Hrest Hg1) as [ks [E [G C]]].
    replace (1 + length rest) with (S (length rest)) in * by lia.
    rewrite (with_dim_full hfull ish dim _ F) in G, C.
    assert (Hhf : hdr_ok hfull).
    { destruct (frame_generic hfull ish dim _ h0 (S (length rest)) F Hinp0 ltac:(lia)) as [_ [H _]].
      rewrite (with_dim_full hfull ish dim _ F) in H. exact H. }
    assert (Hdf : dims hfull = d_in hfull ish).
    { rewrite <- (with_dim_full hfull ish dim _ F) at 1. apply Hdj. lia. }
    destruct (final_simplify hfull ish dim _ ks F Hhf Hn4 G) as [ks' [E' [G' D']]]. rewrite Hdf in D'.
    exists ks'. split; [unfold merge_k; rewrite E; cbn [bind]; exact E'|]. split; [exact G'|].
    assert (Hag : forall i, agree_k hfull (with_dim hfull dim 1) (init_k hfull h0 k0) i <->
                   forall p, in_dims (d_in hfull ish) p -> den_ink hfull i p = den_ink hfull (h0, k0) p).
    { intros i. unfold agree_k. rewrite Hdj by lia. split; intros H p Hp.
      - rewrite <- Hd1. symmetry. apply H. exact Hp.
      - rewrite Hd1. symmetry. apply H. exact Hp. }
    destruct C as [[Hf D]|[He D]].
    - left. split.
      + constructor; [reflexivity|]. eapply Forall_impl; [|exact Hf]. intros i Hi. apply Hag. exact Hi.
      + intros p Hp. rewrite D' by exact Hp. rewrite D by exact Hp. apply Hd1.
    - right. split.
      + apply Exists_cons_tl. eapply Exists_impl; [|exact He]. intros i Hi H. apply Hi. apply Hag. exact H.
      + intros p Hp. rewrite D' by exact Hp. apply D. exact Hp.
  Qed.
End WithV.
