(** Correspondence glue for [NiftiWrapper.split]. *)
From Coq Require Import List Bool Arith NArith ZArith QArith.
From DV Require Import Common.Res Common.Str Common.Jv Ext.Types Ext.Seq Ext.Model Ext.Corr Ext.Split.
Import ListNotations.
Local Open Scope nat_scope.

Fixpoint lz_eqb (a b : list Z) : bool :=
  match a, b with
  | [], [] => true
  | x :: xs, y :: ys => Z.eqb x y && lz_eqb xs ys
  | _, _ => false
  end.

Definition wimg_eqb (a b : wimg) : bool :=
  list_nat_eqb (wi_shape a) (wi_shape b) && onat_eqb (wi_slice a) (wi_slice b)
  && llq_eqb (wi_aff a) (wi_aff b) && lz_eqb (wi_data a) (wi_data b).

Fixpoint pieces_eqb (a b : list (wimg * jext)) : bool :=
  match a, b with
  | [], [] => true
  | (w1, e1) :: xs, (w2, e2) :: ys => wimg_eqb w1 w2 && ext_eqb e1 e2 && pieces_eqb xs ys
  | _, _ => false
  end.

Record split_case := mk_split_case {
  spc_img : wimg; spc_ext : jext; spc_dim : option nat;
  spc_obs : res (list (wimg * jext)) }.
Definition run_split (c : split_case) := split jv_eqb JNull (spc_img c) (spc_ext c) (spc_dim c).
Definition check_split (c : split_case) : bool :=
  inputs_ok [spc_ext c] && res_eqb pieces_eqb (run_split c) (spc_obs c).
