(** Stage D of the source equality for the extension algebra (second part): DcmMetaExtension._insert(dim, other), translated in
    state-passing style with two instances whose contents are both threaded ([insert_st]: per-slice meta data of `other` is set
    aside and put back), refines the per-key model Ext.Model.insert_k applied to every key. *)
From Coq Require Import List Bool Arith NArith ZArith Lia.
From DV Require Import Common.Res Common.Str Common.Jv Common.PyOps2 Common.PyOps2Dyn Generated.T_classes Generated.T_src_ext
     Generated.T_src_state Ext.Types Ext.Classes Ext.Seq Ext.SeqFacts Ext.Model Ext.TableFacts Ext.SrcEq Ext.SrcEqAlg Ext.SrcEqState
     Ext.SrcEqSubset Ext.SrcEqSample Ext.SrcEqGetSubset Ext.SrcEqInsert.
Import ListNotations.
Local Open Scope nat_scope.

(** * _change_class with a classification that may be None (as _insert passes best_dest) *)

Lemma change_class_o_some cl sh ns pc st k c :
  change_class_o cl sh ns pc st k (Some c) = change_class_st cl sh ns pc st k c.
Proof.
  unfold change_class_o, change_class_st.
  destruct (get_values_and_class_st cl sh st k) as [[v cc]|e]; [|reflexivity]. cbn [bind].
  destruct cc as [cc|]; cbn [py_option_eqb].
  - destruct (py_pair_eqb str_eqb str_eqb cc c); [reflexivity|]. rewrite get_changed_class_o_some. reflexivity.
  - rewrite get_changed_class_o_some. reflexivity.
Qed.

Lemma preserving_some (c : cls) : exists raw, read_preserving (Some (name_of_cls c)) = Ok raw.
Proof. destruct c; eexists; vm_compute; reflexivity. Qed.

(** _change_class(key, None): nothing for a key the instance does not (visibly) hold, ValueError otherwise *)
Lemma change_class_o_none (o : obj) (h : hdr) (f : key -> kst jv) (k : key) :
  Holds o h f -> ndim_ok h = true -> bases_ok h ->
  change_class_o classifications (shape h) (n_slices h) preserving_changes (JObj o) k None
  = match visible h (f k) with None => Ok (tt, JObj o) | Some _ => Err EValue end.
Proof.
  intros HH Hok Hb. unfold change_class_o. rewrite (get_values_and_class_st_eq o h f HH Hok Hb k). cbn [bind].
  unfold values_and_class_of. destruct (visible h (f k)) as [[c vs]|] eqn:Ev; cbv iota beta; cbn [py_option_eqb]; [|reflexivity].
  unfold get_changed_class_o. rewrite (get_values_and_class_st_eq o h f HH Hok Hb k). cbn [bind].
  unfold values_and_class_of. rewrite Ev. cbv iota beta. cbn [py_option_eqb].
  destruct (preserving_some c) as [raw Er]. unfold read_preserving in Er. rewrite Er. reflexivity.
Qed.

(** * Replacing a whole class dictionary *)

Lemma dyn_setc2_ok (o : obj) (c : cls) (bo d' : obj) :
  jassoc (name_of_base (base_of c)) o = Some (JObj bo) ->
  dyn_setc2 (JObj o) (@fst str str (name_of_cls c)) (@snd str str (name_of_cls c)) (JObj d') = Ok (JObj (set_class o c bo d')).
Proof. intros H1. unfold dyn_setc2. cbn [name_of_cls fst snd dyn_getitem]. rewrite H1. reflexivity. Qed.

Lemma HoldsW_setclass (o : obj) (h : hdr) (g : cls -> key -> option jv) (c : cls) (d' : obj) :
  HoldsW o h g -> has_base h (base_of c) = true -> NoDup (map fst d') ->
  exists o', dyn_setc2 (JObj o) (@fst str str (name_of_cls c)) (@snd str str (name_of_cls c)) (JObj d') = Ok (JObj o') /\
             HoldsW o' h (fun c' k' => if cls_eqb c' c then jassoc k' d' else g c' k').
Proof.
  intros HH Hb Hnd. destruct (hw_dict _ _ _ HH c Hb) as [d [Hd _]]. destruct (class_dict_parts o c d Hd) as [bo [H1 _]].
  exists (set_class o c bo d'). split; [exact (dyn_setc2_ok o c bo d' H1) | exact (HoldsW_set o h g c bo d' HH H1 Hnd)].
Qed.

(** * get_keys *)

Lemma py_for_app_in {A B R} (l : list A) (fn : A -> list B) (body : A -> list B -> res (ctl R (list B))) :
  (forall x a, In x l -> body x a = Ok (Next (a ++ fn x))) -> forall acc, py_for l acc body = Ok (Next (acc ++ flat_map fn l)).
Proof.
  induction l as [|x r IH]; intros H acc.
  - cbn [py_for flat_map]. rewrite app_nil_r. reflexivity.
  - cbn [py_for flat_map]. rewrite (H x acc (or_introl eq_refl)). cbn [bind].
    rewrite (IH (fun y a Hy => H y a (or_intror Hy))), app_assoc. reflexivity.
Qed.

Lemma visible_some_iff (h : hdr) (s : kst jv) : visible h s <> None <-> exists c vs, s = Some (c, vs) /\ class_valid h c = true.
Proof.
  unfold visible. destruct s as [[c vs]|].
  - destruct (class_valid h c) eqn:E.
    + split; [intros _; exists c, vs; split; [reflexivity | exact E] | discriminate].
    + split; [intros H; exfalso; apply H; reflexivity | intros (c' & vs' & H1 & H2); injection H1 as <- <-; congruence].
  - split; [intros H; exfalso; apply H; reflexivity | intros (c' & vs' & H1 & _); discriminate H1].
Qed.

Lemma get_keys_st_spec (o : obj) (h : hdr) (f : key -> kst jv) :
  Holds o h f -> ndim_ok h = true -> bases_ok h ->
  exists L, get_keys_st classifications (shape h) (JObj o) = Ok L /\ forall k, In k L <-> visible h (f k) <> None.
Proof.
  intros HH Hok Hb. unfold get_keys_st. rewrite get_valid_classes_src_eq, Hok. cbn [bind].
  set (fn := fun n : str * str => match cls_of_name n with
                                   | Some c => match class_dict_of o c with Some d => map fst d | None => [] end
                                   | None => [] end).
  rewrite (py_for_app_in (map name_of_cls (valid_classes h)) fn).
  - cbn [bind app]. eexists. split; [reflexivity|]. intros k. rewrite in_flat_map. split.
    + intros [n [Hn Hk]]. apply in_map_iff in Hn. destruct Hn as [c [<- Hc]]. unfold fn in Hk. rewrite cls_of_name_of_cls in Hk.
      assert (Hv : class_valid h c = true) by (apply mem_cls_In; exact Hc).
      destruct (hw_dict _ _ _ HH c (Hb c Hv)) as [d [Hd [_ Hj]]]. rewrite Hd in Hk.
      apply jassoc_in in Hk. rewrite Hj in Hk. unfold stored in Hk. apply visible_some_iff.
      destruct (f k) as [[c' vs]|]; [|exfalso; apply Hk; reflexivity].
      destruct (cls_eqb_spec c' c) as [->|Hne]; [|exfalso; apply Hk; reflexivity]. exists c, vs. split; [reflexivity | exact Hv].
    + intros Hvis. apply visible_some_iff in Hvis. destruct Hvis as (c & vs & Hf & Hv).
      exists (name_of_cls c). split; [apply in_map; apply mem_cls_In; exact Hv|].
      unfold fn. rewrite cls_of_name_of_cls. destruct (hw_dict _ _ _ HH c (Hb c Hv)) as [d [Hd [_ Hj]]]. rewrite Hd.
      apply jassoc_in. rewrite Hj. unfold stored. rewrite Hf, cls_eqb_refl. discriminate.
  - intros [bn sn] a Hin. apply in_map_iff in Hin. destruct Hin as [c [Hc Hin]].
    assert (Hv : class_valid h c = true) by (apply mem_cls_In; exact Hin).
    destruct (hw_dict _ _ _ HH c (Hb c Hv)) as [d [Hd _]]. destruct (class_dict_parts o c d Hd) as [bo [H1 H2]].
    unfold fn. rewrite <- Hc, cls_of_name_of_cls, Hd. cbn [name_of_cls] in Hc. injection Hc as <- <-.
    cbn [dyn_getitem]. rewrite H1. cbn [bind dyn_getitem]. rewrite H2. reflexivity.
Qed.

(** * One key of the two inner loops of _insert, as the translation writes them (the main theorem checks by conversion that these
    ARE the generated loop bodies) *)

Local Open Scope res_scope.
Definition reclassify_body (self_classifications : list (str * str)) (self_shape : list nat) (self_n_slices : option nat)
    (self__preserving_changes : list (option (str * str) * list (str * str))) (other_classes : str * str)
    : str -> jv -> res (ctl (unit * jv) jv) :=
  fun key st__ =>
  do t__14 <- get_classification_st self_classifications self_shape st__ key;
  let local_classes := t__14 in
  if (negb ((py_option_eqb (py_pair_eqb str_eqb str_eqb)) local_classes (Some other_classes))) then
    do t__15 <- py_dict_get (py_option_eqb (py_pair_eqb str_eqb str_eqb)) self__preserving_changes local_classes;
    let local_allow := t__15 in
    do t__16 <- py_dict_get (py_option_eqb (py_pair_eqb str_eqb str_eqb)) self__preserving_changes (Some other_classes);
    let other_allow := t__16 in
    if (py_in (py_pair_eqb str_eqb str_eqb) other_classes local_allow) then
      do p__17 <- change_class_o self_classifications self_shape self_n_slices self__preserving_changes st__ key (Some other_classes);
      let st__ := (snd p__17) in
      Ok (Next st__)
    else
      if (negb (match local_classes with Some x__ => py_in (py_pair_eqb str_eqb str_eqb) x__ other_allow | None => false end)) then
        do c__19 <- py_for_b local_allow None (fun dest_class best_dest =>
            do t__18 <- dyn_contains st__ (JStr (fst dest_class));
            if (andb t__18 (py_in (py_pair_eqb str_eqb str_eqb) dest_class other_allow)) then
              let best_dest := dest_class in
              Ok (BrkB (Some best_dest))
            else
              Ok (NextB best_dest)
          );
        match c__19 with
        | RetB rv__21 => Ok (Ret rv__21)
        | BrkB best_dest | NextB best_dest =>
          do p__20 <- change_class_o self_classifications self_shape self_n_slices self__preserving_changes st__ key best_dest;
          let st__ := (snd p__20) in
          Ok (Next st__)
        end
      else
        Ok (Next st__)
  else
    Ok (Next st__).

Definition dispatch_body (self_classifications : list (str * str)) (self_shape : list nat) (self_slice_dim self_n_slices : option nat)
    (self__preserving_changes : list (option (str * str) * list (str * str)))
    (other__classifications : list (str * str)) (other__shape : list nat) (other__n_slices : option nat)
    (other___preserving_changes : list (option (str * str) * list (str * str))) (other__st : jv) (dim : nat)
    : str -> jv -> res (ctl (unit * jv) jv) :=
  fun key st__ =>
  if ((py_option_eqb Nat.eqb) (Some dim) self_slice_dim) then
    do p__23 <- insert_slice_st self_classifications self_shape self_slice_dim self_n_slices self__preserving_changes st__ key other__classifications other__shape other__n_slices other___preserving_changes other__st;
    let st__ := (snd p__23) in
    Ok (Next st__)
  else
    if (Nat.ltb dim 3%nat) then
      do p__24 <- insert_non_slice_st self_classifications self_shape self_slice_dim st__ key other__classifications other__shape other__n_slices other___preserving_changes other__st;
      let st__ := (snd p__24) in
      Ok (Next st__)
    else
      if (Nat.eqb dim 3%nat) then
        do p__25 <- insert_sample_st self_classifications self_shape self_slice_dim self_n_slices self__preserving_changes st__ key other__classifications other__shape other__n_slices other___preserving_changes other__st [116; 105; 109; 101]%N;
        let st__ := (snd p__25) in
        Ok (Next st__)
      else
        if (Nat.eqb dim 4%nat) then
          do p__26 <- insert_sample_st self_classifications self_shape self_slice_dim self_n_slices self__preserving_changes st__ key other__classifications other__shape other__n_slices other___preserving_changes other__st [118; 101; 99; 116; 111; 114]%N;
          let st__ := (snd p__26) in
          Ok (Next st__)
        else
          Ok (Next st__).
Local Close Scope res_scope.

(** * Reclassification of one key *)

Lemma preserving_names_o (lc : option cls) :
  match preserving lc with
  | Some la => read_preserving (option_map name_of_cls lc) = Ok (map name_of_cls la)
  | None => read_preserving (option_map name_of_cls lc) = Err EKey
  end.
Proof. destruct lc as [[]|]; vm_compute; reflexivity. Qed.

Lemma ocls_names (lc : option cls) (oc : cls) :
  py_option_eqb (py_pair_eqb str_eqb str_eqb) (option_map name_of_cls lc) (Some (name_of_cls oc)) = ocls_eqb lc (Some oc).
Proof. destruct lc as [c|]; cbn [option_map py_option_eqb ocls_eqb]; [apply cname_eq_cls | reflexivity]. Qed.

Lemma find_dest_loop {R} (o : obj) (hs : hdr) (g : cls -> key -> option jv) (oa : list cls) (la : list cls) : HoldsW o hs g ->
  py_for_b (map name_of_cls la) (@None (str * str))
    (fun dest_class best_dest =>
       bind (dyn_contains (JObj o) (JStr (fst dest_class))) (fun t =>
       if andb t (py_in (py_pair_eqb str_eqb str_eqb) dest_class (map name_of_cls oa)) then Ok (@BrkB R _ (Some dest_class)) else Ok (NextB best_dest)))
  = Ok (match find (fun d => has_base hs (base_of d) && mem_cls d oa) la with Some d => BrkB (Some (name_of_cls d)) | None => NextB None end).
Proof.
  intros HH. induction la as [|d r IH]; [reflexivity|]. cbn [map py_for_b find].
  change (@fst (list N) (list N) (name_of_cls d)) with (@fst str str (name_of_cls d)).
  rewrite (has_base_contains o hs g d HH). cbn [bind]. rewrite py_in_names.
  destruct (has_base hs (base_of d) && mem_cls d oa); [reflexivity | exact IH].
Qed.

Lemma reclassify_ref (o : obj) (hs : hdr) (f : key -> kst jv) (k : key) (oc : cls) :
  Holds o hs f -> ndim_ok hs = true -> bases_ok hs -> kst_storable hs (f k) -> visible hs (f k) = f k ->
  match reclassify_k JNull hs (f k) oc with
  | Ok s' => exists o', reclassify_body classifications (shape hs) (n_slices hs) preserving_changes (name_of_cls oc) k (JObj o)
                        = Ok (Next (JObj o')) /\ Holds o' hs (upd f k s')
  | Err e => reclassify_body classifications (shape hs) (n_slices hs) preserving_changes (name_of_cls oc) k (JObj o) = Err e
  end.
Proof.
  intros HH Hok Hb Hst Hvis. unfold reclassify_body, reclassify_k. rewrite (get_classification_st_eq o hs f HH Hok Hb k). cbn [bind].
  cbv zeta.
  assert (Hchange : forall d, match change_class_k JNull hs (f k) d with
     | Ok s' => exists o', bind (change_class_o classifications (shape hs) (n_slices hs) preserving_changes (JObj o) k (Some (name_of_cls d)))
                                (fun p => Ok (@Next (unit * jv) _ (snd p))) = Ok (Next (JObj o')) /\ Holds o' hs (upd f k s')
     | Err e => bind (change_class_o classifications (shape hs) (n_slices hs) preserving_changes (JObj o) k (Some (name_of_cls d)))
                     (fun p => Ok (@Next (unit * jv) _ (snd p))) = Err e end).
  { intros d. rewrite change_class_o_some. pose proof (change_class_st_ref o hs f k d HH Hok Hb Hst Hvis) as HC.
    destruct (change_class_k JNull hs (f k) d) as [s'|e].
    - destruct HC as [o' [E H]]. exists o'. rewrite E. split; [reflexivity | exact H].
    - rewrite HC. reflexivity. }
  pose proof (change_class_o_none o hs f k HH Hok Hb) as Hnone.
  pose proof (preserving_names_o (kst_class (visible hs (f k)))) as Hl.
  pose proof (preserving_names_o (Some oc)) as Ho. unfold read_preserving in Hl, Ho. cbn [option_map] in Ho.
  destruct (visible hs (f k)) as [[c0 vs0]|]; cbn [kst_class option_map py_option_eqb ocls_eqb] in *.
  - (* the key has a (valid) class c0 *)
    rewrite cname_eq_cls. destruct (cls_eqb c0 oc); cbn [negb].
    { exists o. split; [reflexivity | exact (Holds_upd_same o hs f k HH)]. }
    destruct (preserving (Some c0)) as [la|]; [|rewrite Hl; reflexivity]. rewrite Hl. cbn [bind].
    destruct (preserving (Some oc)) as [oa|].
    2:{ replace (py_dict_get _ preserving_changes (@Some _ (name_of_cls oc))) with (@Err (list sname) EKey) by (symmetry; exact Ho). reflexivity. }
    replace (py_dict_get _ preserving_changes (@Some _ (name_of_cls oc))) with (@Ok (list sname) (map name_of_cls oa)) by (symmetry; exact Ho).
    cbn [bind].
    rewrite !py_in_names. destruct (mem_cls oc la); [exact (Hchange oc)|].
    destruct (negb (mem_cls c0 oa)).
    + rewrite (find_dest_loop o hs _ oa la HH). cbn [bind].
      destruct (find (fun d => has_base hs (base_of d) && mem_cls d oa) la) as [d|]; [exact (Hchange d)|].
      change (@None cname) with (@None (str * str)%type). rewrite Hnone. reflexivity.
    + exists o. split; [reflexivity | exact (Holds_upd_same o hs f k HH)].
  - (* the key is not (visibly) held *)
    destruct (preserving None) as [la|]; [|rewrite Hl; reflexivity]. rewrite Hl. cbn [bind].
    destruct (preserving (Some oc)) as [oa|].
    2:{ replace (py_dict_get _ preserving_changes (@Some _ (name_of_cls oc))) with (@Err (list sname) EKey) by (symmetry; exact Ho). reflexivity. }
    replace (py_dict_get _ preserving_changes (@Some _ (name_of_cls oc))) with (@Ok (list sname) (map name_of_cls oa)) by (symmetry; exact Ho).
    cbn [bind].
    rewrite !py_in_names. destruct (mem_cls oc la); [exact (Hchange oc)|]. cbn [negb].
    rewrite (find_dest_loop o hs _ oa la HH). cbn [bind].
    destruct (find (fun d => has_base hs (base_of d) && mem_cls d oa) la) as [d|]; [exact (Hchange d)|].
    change (@None cname) with (@None (str * str)%type). rewrite Hnone. cbn [bind snd]. exists o. split; [reflexivity | exact (Holds_upd_same o hs f k HH)].
Qed.

(** * The insertion proper of one key: the dispatch on dim *)

Definition insert_dispatch (hs ho : hdr) (dim : nat) (ks ko : kst jv) : res (kst jv) :=
  if odim_is (sdim hs) dim then insert_slice_k jv_eqb JNull hs ho ks ko
  else if dim <? 3 then insert_non_slice_k jv_eqb JNull hs ho ks ko
  else if dim =? 3 then insert_sample_k jv_eqb JNull hs ho ks ko BTime
  else if dim =? 4 then insert_sample_k jv_eqb JNull hs ho ks ko BVector
  else Ok ks.

Lemma dispatch_ref (o oo : obj) (hs ho : hdr) (f fo : key -> kst jv) (k : key) (dim : nat) (c : cls) (lv : list jv) :
  Holds o hs f -> Holds oo ho fo -> ndim_ok hs = true -> bases_ok hs -> ndim_ok ho = true -> bases_ok ho ->
  kst_storable ho (fo k) -> (odim_is (sdim hs) dim = true -> prod_list (skipn 3 (shape hs)) <> 0) ->
  f k = Some (c, lv) -> class_valid hs c = true -> kst_storable hs (f k) ->
  match insert_dispatch hs ho dim (f k) (fo k) with
  | Ok s' => exists o', dispatch_body classifications (shape hs) (sdim hs) (n_slices hs) preserving_changes
                                      classifications (shape ho) (n_slices ho) preserving_changes (JObj oo) dim k (JObj o)
                        = Ok (Next (JObj o')) /\ Holds o' hs (upd f k s')
  | Err e => dispatch_body classifications (shape hs) (sdim hs) (n_slices hs) preserving_changes
                           classifications (shape ho) (n_slices ho) preserving_changes (JObj oo) dim k (JObj o) = Err e
  end.
Proof.
  intros HH HO Hoks Hbs Hoko Hbo Hsto Hnv Hf Hv Hst. unfold dispatch_body, insert_dispatch. rewrite odim_eq.
  destruct (odim_is (sdim hs) dim) eqn:Eo.
  - pose proof (insert_slice_st_all o oo hs ho f fo k c lv HH HO Hoks Hbs Hoko Hbo Hsto (Hnv eq_refl) Hf Hv Hst) as H.
    destruct (insert_slice_k jv_eqb JNull hs ho (f k) (fo k)) as [s'|e].
    + destruct H as [o' [E H]]. exists o'. rewrite E. split; [reflexivity | exact H].
    + rewrite H. reflexivity.
  - destruct (dim <? 3).
    + pose proof (insert_non_slice_st_ref o oo hs ho f fo k c lv HH HO Hoks Hbs Hoko Hbo Hsto Hf Hv Hst) as H.
      destruct (insert_non_slice_k jv_eqb JNull hs ho (f k) (fo k)) as [s'|e].
      * destruct H as [o' [E H]]. exists o'. rewrite E. split; [reflexivity | exact H].
      * rewrite H. reflexivity.
    + destruct (dim =? 3).
      * pose proof (insert_sample_st_all o oo hs ho f fo k c lv BTime TSamples HH HO Hoks Hbs Hoko Hbo Hsto eq_refl Hf Hv Hst) as H.
        destruct (insert_sample_k jv_eqb JNull hs ho (f k) (fo k) BTime) as [s'|e].
        -- destruct H as [o' [E H]]. exists o'. cbn [name_of_base] in E. unfold s_time in E. rewrite E. split; [reflexivity | exact H].
        -- cbn [name_of_base] in H. unfold s_time in H. rewrite H. reflexivity.
      * destruct (dim =? 4).
        -- pose proof (insert_sample_st_all o oo hs ho f fo k c lv BVector VSamples HH HO Hoks Hbs Hoko Hbo Hsto eq_refl Hf Hv Hst) as H.
           destruct (insert_sample_k jv_eqb JNull hs ho (f k) (fo k) BVector) as [s'|e].
           ++ destruct H as [o' [E H]]. exists o'. cbn [name_of_base] in E. unfold s_vector in E. rewrite E. split; [reflexivity | exact H].
           ++ cbn [name_of_base] in H. unfold s_vector in H. rewrite H. reflexivity.
        -- exists o. split; [reflexivity | exact (Holds_upd_same o hs f k HH)].
Qed.

(** * A loop over distinct keys whose body changes only its own key *)

Section KeyLoop.
  Variable hs : hdr.
  Context {R : Type}.
  Variable body : str -> jv -> res (ctl R jv).
  Variable S : key -> kst jv -> res (kst jv).
  Variable Pre : key -> kst jv -> Prop.
  Variable T : key -> kst jv.

  Hypothesis Hbody : forall (o : obj) (f : key -> kst jv) (k : key), Holds o hs f -> Pre k (f k) ->
    match S k (f k) with
    | Ok s' => exists o', body k (JObj o) = Ok (Next (JObj o')) /\ Holds o' hs (upd f k s')
    | Err e => body k (JObj o) = Err e
    end.

  Lemma key_loop (ks : list key) : forall (o : obj) (f : key -> kst jv),
    Holds o hs f -> NoDup ks -> (forall k, In k ks -> Pre k (f k) /\ S k (f k) = Ok (T k)) ->
    exists o' f', py_for ks (JObj o) body = Ok (Next (JObj o')) /\ Holds o' hs f' /\
                  forall k, f' k = if mem_key k ks then T k else f k.
  Proof.
    induction ks as [|k r IH]; intros o f HH Hnd Hall.
    - exists o, f. split; [reflexivity|]. split; [exact HH | intros k; reflexivity].
    - inversion Hnd as [|? ? Hni Hnd']; subst. destruct (Hall k (or_introl eq_refl)) as [Hp Hs].
      pose proof (Hbody o f k HH Hp) as Hb. rewrite Hs in Hb. destruct Hb as [o1 [E1 H1]].
      destruct (IH o1 (upd f k (T k)) H1 Hnd') as [o' [f' [E' [H' Hf']]]].
      { intros k' Hk'. rewrite upd_other by (intros ->; contradiction). apply Hall. right. exact Hk'. }
      exists o', f'. split; [cbn [py_for]; rewrite E1; cbn [bind]; exact E'|]. split; [exact H'|].
      intros k'. rewrite Hf'. cbn [mem_key existsb]. fold (mem_key k' r). unfold upd.
      destruct (key_eqb k' k) eqn:Ek; cbn [orb].
      + unfold key_eqb in Ek. apply str_eqb_eq in Ek. subst k'.
        destruct (mem_key k r) eqn:Em; [|reflexivity]. apply mem_key_In in Em. contradiction.
      + reflexivity.
  Qed.
End KeyLoop.

(** * One class of `other`: reclassify its keys, then insert them *)

Local Open Scope res_scope.
Definition insert_class_body (self_classifications : list (str * str)) (self_shape : list nat) (self_slice_dim self_n_slices : option nat)
    (self__preserving_changes : list (option (str * str) * list (str * str)))
    (other__classifications : list (str * str)) (other__shape : list nat) (other__n_slices : option nat)
    (other___preserving_changes : list (option (str * str) * list (str * str))) (other__st : jv) (missing_keys : list str) (dim : nat)
    : (str * str) -> jv -> res (ctl (unit * jv) jv) :=
  fun other_classes st__ =>
  do t__10 <- get_class_dict_st other__st other_classes;
  do t__11 <- dyn_keys t__10;
  let other_keys := t__11 in
  do c__12 <- (
    if ((py_pair_eqb str_eqb str_eqb) other_classes ([103; 108; 111; 98; 97; 108]%N, [99; 111; 110; 115; 116]%N)) then
      let other_keys := (other_keys ++ missing_keys) in
      Ok (Next other_keys)
    else
      Ok (Next other_keys)
    );
  match c__12 with
  | Ret rv__13 => Ok (Ret rv__13)
  | Next other_keys =>
    do c__22 <- py_for other_keys st__ (fun key st__ =>
        do t__14 <- get_classification_st self_classifications self_shape st__ key;
        let local_classes := t__14 in
        if (negb ((py_option_eqb (py_pair_eqb str_eqb str_eqb)) local_classes (Some other_classes))) then
          do t__15 <- py_dict_get (py_option_eqb (py_pair_eqb str_eqb str_eqb)) self__preserving_changes local_classes;
          let local_allow := t__15 in
          do t__16 <- py_dict_get (py_option_eqb (py_pair_eqb str_eqb str_eqb)) self__preserving_changes (Some other_classes);
          let other_allow := t__16 in
          if (py_in (py_pair_eqb str_eqb str_eqb) other_classes local_allow) then
            do p__17 <- change_class_o self_classifications self_shape self_n_slices self__preserving_changes st__ key (Some other_classes);
            let st__ := (snd p__17) in
            Ok (Next st__)
          else
            if (negb (match local_classes with Some x__ => py_in (py_pair_eqb str_eqb str_eqb) x__ other_allow | None => false end)) then
              do c__19 <- py_for_b local_allow None (fun dest_class best_dest =>
                  do t__18 <- dyn_contains st__ (JStr (fst dest_class));
                  if (andb t__18 (py_in (py_pair_eqb str_eqb str_eqb) dest_class other_allow)) then
                    let best_dest := dest_class in
                    Ok (BrkB (Some best_dest))
                  else
                    Ok (NextB best_dest)
                );
              match c__19 with
              | RetB rv__21 => Ok (Ret rv__21)
              | BrkB best_dest | NextB best_dest =>
                do p__20 <- change_class_o self_classifications self_shape self_n_slices self__preserving_changes st__ key best_dest;
                let st__ := (snd p__20) in
                Ok (Next st__)
              end
            else
              Ok (Next st__)
        else
          Ok (Next st__)
      );
    match c__22 with
    | Ret rv__29 => Ok (Ret rv__29)
    | Next st__ =>
      do c__27 <- py_for other_keys st__ (fun key st__ =>
          if ((py_option_eqb Nat.eqb) (Some dim) self_slice_dim) then
            do p__23 <- insert_slice_st self_classifications self_shape self_slice_dim self_n_slices self__preserving_changes st__ key other__classifications other__shape other__n_slices other___preserving_changes other__st;
            let st__ := (snd p__23) in
            Ok (Next st__)
          else
            if (Nat.ltb dim 3%nat) then
              do p__24 <- insert_non_slice_st self_classifications self_shape self_slice_dim st__ key other__classifications other__shape other__n_slices other___preserving_changes other__st;
              let st__ := (snd p__24) in
              Ok (Next st__)
            else
              if (Nat.eqb dim 3%nat) then
                do p__25 <- insert_sample_st self_classifications self_shape self_slice_dim self_n_slices self__preserving_changes st__ key other__classifications other__shape other__n_slices other___preserving_changes other__st [116; 105; 109; 101]%N;
                let st__ := (snd p__25) in
                Ok (Next st__)
              else
                if (Nat.eqb dim 4%nat) then
                  do p__26 <- insert_sample_st self_classifications self_shape self_slice_dim self_n_slices self__preserving_changes st__ key other__classifications other__shape other__n_slices other___preserving_changes other__st [118; 101; 99; 116; 111; 114]%N;
                  let st__ := (snd p__26) in
                  Ok (Next st__)
                else
                  Ok (Next st__)
        );
      match c__27 with
      | Ret rv__28 => Ok (Ret rv__28)
      | Next st__ =>
        Ok (Next st__)
      end
    end
  end.
Local Close Scope res_scope.

Section ClassStep.
  Variables (oo1 : obj) (hs ho : hdr) (fo1 : key -> kst jv) (dim : nat) (missing : list key).
  Hypothesis HO : Holds oo1 ho fo1.
  Hypothesis Hoks : ndim_ok hs = true.
  Hypothesis Hbs : bases_ok hs.
  Hypothesis Hoko : ndim_ok ho = true.
  Hypothesis Hbo : bases_ok ho.
  Hypothesis Hnv : odim_is (sdim hs) dim = true -> prod_list (skipn 3 (shape hs)) <> 0.

  (** what must hold of a key when it is reclassified, and of its state when it is inserted *)
  Definition pre_reclassify (k : key) (s : kst jv) : Prop := kst_storable hs s /\ visible hs s = s.
  Definition pre_insert (k : key) (s : kst jv) : Prop :=
    kst_storable ho (fo1 k) /\ kst_storable hs s /\ exists c lv, s = Some (c, lv) /\ class_valid hs c = true.

  Notation cbody := (insert_class_body classifications (shape hs) (sdim hs) (n_slices hs) preserving_changes
                                       classifications (shape ho) (n_slices ho) preserving_changes (JObj oo1) missing dim).

  Lemma class_step (oc : cls) (d : obj) (T1 T2 : key -> kst jv) (o : obj) (f : key -> kst jv) :
    class_valid ho oc = true -> class_dict_of oo1 oc = Some d ->
    let ks := map fst d ++ (if cls_eqb oc GConst then missing else []) in
    NoDup ks -> Holds o hs f ->
    (forall k, In k ks -> pre_reclassify k (f k) /\ reclassify_k JNull hs (f k) oc = Ok (T1 k)) ->
    (forall k, In k ks -> pre_insert k (T1 k) /\ insert_dispatch hs ho dim (T1 k) (fo1 k) = Ok (T2 k)) ->
    exists o' f', cbody (name_of_cls oc) (JObj o) = Ok (Next (JObj o')) /\ Holds o' hs f' /\
                  forall k, f' k = if mem_key k ks then T2 k else f k.
  Proof.
    intros Hv Hd ks Hnd HH H1 H2. unfold insert_class_body.
    rewrite (get_class_dict_st_ok oo1 oc d Hd). cbn [bind dyn_keys].
    change ([103; 108; 111; 98; 97; 108]%N, [99; 111; 110; 115; 116]%N) with (name_of_cls GConst). rewrite cname_eq_cls.
    assert (Hks : (if cls_eqb oc GConst then Ok (@Next (unit * jv) _ (map fst d ++ missing)) else Ok (Next (map fst d)))
                  = Ok (Next ks)).
    { unfold ks. destruct (cls_eqb oc GConst); [reflexivity | rewrite app_nil_r; reflexivity]. }
    cbv zeta. rewrite Hks. cbn [bind].
    (* first loop: reclassification *)
    destruct (key_loop hs (reclassify_body classifications (shape hs) (n_slices hs) preserving_changes (name_of_cls oc))
                (fun k s => reclassify_k JNull hs s oc) pre_reclassify T1
                ltac:(intros o0 f0 k0 HH0 [Hst Hvis]; exact (reclassify_ref o0 hs f0 k0 oc HH0 Hoks Hbs Hst Hvis))
                ks o f HH Hnd H1) as [o1 [f1 [E1 [HH1 Hf1]]]].
    (* second loop: insertion *)
    destruct (key_loop hs (dispatch_body classifications (shape hs) (sdim hs) (n_slices hs) preserving_changes
                                         classifications (shape ho) (n_slices ho) preserving_changes (JObj oo1) dim)
                (fun k s => insert_dispatch hs ho dim s (fo1 k)) pre_insert T2
                ltac:(intros o0 f0 k0 HH0 [Hso [Hss [c [lv [Hf Hcv]]]]];
                      exact (dispatch_ref o0 oo1 hs ho f0 fo1 k0 dim c lv HH0 HO Hoks Hbs Hoko Hbo Hso Hnv Hf Hcv Hss))
                ks o1 f1 HH1 Hnd) as [o2 [f2 [E2 [HH2 Hf2]]]].
    { intros k Hk. rewrite Hf1. apply mem_key_In in Hk. rewrite Hk. apply H2. apply mem_key_In. exact Hk. }
    exists o2, f2. split; [|split; [exact HH2|]].
    - unfold reclassify_body in E1. unfold dispatch_body in E2. unfold Types.key in *. rewrite E1. cbn [bind]. rewrite E2. reflexivity.
    - intros k. rewrite Hf2, Hf1. destruct (mem_key k ks); reflexivity.
  Qed.
End ClassStep.

(** * Setting the per-slice meta data of `other` aside, and putting it back *)

Definition has_key (m : list ((str * str) * jv)) (n : str * str) : Prop := exists v, py_dict_get (py_pair_eqb str_eqb str_eqb) m n = Ok v.

Lemma cn_refl (n : str * str) : py_pair_eqb str_eqb str_eqb n n = true.
Proof. unfold py_pair_eqb. rewrite !str_eqb_refl. reflexivity. Qed.
Lemma cn_eq (n n' : str * str) : py_pair_eqb str_eqb str_eqb n n' = true -> n = n'.
Proof.
  unfold py_pair_eqb. intros H. apply andb_true_iff in H. destruct H as [H1 H2]. apply str_eqb_eq in H1. apply str_eqb_eq in H2.
  destruct n, n'. cbn [fst snd] in *. subst. reflexivity.
Qed.

Lemma has_key_set (m : list ((str * str) * jv)) (n n' : str * str) (v : jv) :
  n' = n \/ has_key m n' -> has_key (py_dict_set (py_pair_eqb str_eqb str_eqb) m n v) n'.
Proof.
  unfold has_key. intros H. induction m as [|[k0 v0] r IH]; cbn [py_dict_set].
  - destruct H as [->|[w Hw]]; [|discriminate Hw]. exists v. cbn [py_dict_get]. rewrite cn_refl. reflexivity.
  - destruct (py_pair_eqb str_eqb str_eqb n k0) eqn:E.
    + apply cn_eq in E. subst k0. cbn [py_dict_get]. destruct (py_pair_eqb str_eqb str_eqb n' n) eqn:E'; [exists v; reflexivity|].
      destruct H as [->|[w Hw]]; [rewrite cn_refl in E'; discriminate E'|].
      cbn [py_dict_get] in Hw. rewrite E' in Hw. exists w. exact Hw.
    + cbn [py_dict_get]. destruct (py_pair_eqb str_eqb str_eqb n' k0) eqn:Ek; [exists v0; reflexivity|].
      apply IH. destruct H as [->|[w Hw]]; [left; reflexivity|]. right. cbn [py_dict_get] in Hw. rewrite Ek in Hw. exists w. exact Hw.
Qed.

Definition without_slices (cl : list cls) (fo : key -> kst jv) : key -> kst jv :=
  fun k => match fo k with Some (c, vs) => if is_slices c && mem_cls c cl then None else Some (c, vs) | None => None end.

Section SetAside.
  Variable ho : hdr.
  Hypothesis Hbo : bases_ok ho.

  Notation bodyA := (fun (classes : str * str) '(other_slc_meta, other__st) =>
      if str_eqb (snd classes) [115; 108; 105; 99; 101; 115]%N then
        bind (get_class_dict_st other__st classes) (fun t2 =>
        bind (dyn_setc2 other__st (fst classes) (snd classes) (JObj [])) (fun other__st' =>
        Ok (@Next (unit * jv) _ (py_dict_set (py_pair_eqb str_eqb str_eqb) other_slc_meta classes t2, other__st'))))
      else Ok (Next (other_slc_meta, other__st))).

  Lemma set_aside (cl : list cls) : forall (oo : obj) (fo : key -> kst jv) (meta : list ((str * str) * jv)),
    (forall c, In c cl -> class_valid ho c = true) -> Holds oo ho fo ->
    exists meta' oo', py_for (map name_of_cls cl) (meta, JObj oo) bodyA = Ok (Next (meta', JObj oo')) /\
                      Holds oo' ho (without_slices cl fo) /\
                      forall c, (In c cl /\ is_slices c = true) \/ has_key meta (name_of_cls c) -> has_key meta' (name_of_cls c).
  Proof.
    induction cl as [|c r IH]; intros oo fo meta Hval HH.
    - exists meta, oo. split; [reflexivity|]. split.
      + apply (Holds_feq oo ho fo); [|exact HH]. intros k. unfold without_slices. destruct (fo k) as [[c vs]|]; [|reflexivity].
        rewrite andb_false_r. reflexivity.
      + intros c [[[] _]|H]. exact H.
    - cbn [map py_for]. rewrite is_slices_name.
      assert (Hv : class_valid ho c = true) by (apply Hval; left; reflexivity).
      destruct (is_slices c) eqn:Es.
      + destruct (hw_dict _ _ _ HH c (Hbo c Hv)) as [d [Hd _]]. rewrite (get_class_dict_st_ok oo c d Hd). cbn [bind].
        destruct (HoldsW_setclass oo ho (stored fo) c [] HH (Hbo c Hv) (NoDup_nil _)) as [oo1 [E1 H1]].
        replace (dyn_setc2 (JObj oo) _ _ (JObj [])) with (@Ok jv (JObj oo1)) by (symmetry; exact E1). cbn [bind].
        set (fo1 := fun k => match fo k with Some (c0, vs) => if cls_eqb c0 c then None else Some (c0, vs) | None => None end).
        assert (HH1 : Holds oo1 ho fo1).
        { unfold Holds. eapply HoldsW_ext; [|exact H1]. intros c' k' _. cbv beta. unfold stored, fo1. cbn [jassoc].
          destruct (fo k') as [[c0 vs]|]; [|destruct (cls_eqb c' c); reflexivity].
          destruct (cls_eqb_spec c0 c) as [->|Hne].
          - destruct (cls_eqb c' c) eqn:E'; [reflexivity|]. destruct (cls_eqb_spec c c') as [Hx|_]; [|reflexivity].
            subst c'. rewrite cls_eqb_refl in E'. discriminate E'.
          - destruct (cls_eqb c' c) eqn:E'; [|reflexivity]. apply cls_eqb_eq in E'. subst c'.
            destruct (cls_eqb_spec c0 c) as [Hx|_]; [contradiction | reflexivity]. }
        destruct (IH oo1 fo1 (py_dict_set (py_pair_eqb str_eqb str_eqb) meta (name_of_cls c) (JObj d))
                     (fun c0 H0 => Hval c0 (or_intror H0)) HH1) as [meta' [oo' [E' [H' Hm']]]].
        exists meta', oo'. split; [exact E'|]. split.
        * apply (Holds_feq oo' ho (without_slices r fo1)); [|exact H']. intros k. unfold without_slices, fo1.
          destruct (fo k) as [[c0 vs]|]; [|reflexivity]. unfold mem_cls. cbn [existsb]. fold (mem_cls c0 r).
          destruct (cls_eqb_spec c0 c) as [->|Hne]; [rewrite Es; reflexivity|]. cbn [orb]. reflexivity.
        * intros c0 H0. apply Hm'. destruct H0 as [[[<-|Hin] Hs]|Hk].
          -- right. apply has_key_set. left. reflexivity.
          -- left. split; assumption.
          -- right. apply has_key_set. right. exact Hk.
      + destruct (IH oo fo meta (fun c0 H0 => Hval c0 (or_intror H0)) HH) as [meta' [oo' [E' [H' Hm']]]].
        exists meta', oo'. split; [exact E'|]. split.
        * apply (Holds_feq oo' ho (without_slices r fo)); [|exact H']. intros k. unfold without_slices.
          destruct (fo k) as [[c0 vs]|]; [|reflexivity]. unfold mem_cls. cbn [existsb]. fold (mem_cls c0 r).
          destruct (cls_eqb_spec c0 c) as [->|Hne]; [rewrite Es; reflexivity|]. cbn [orb]. reflexivity.
        * intros c0 H0. apply Hm'. destruct H0 as [[[<-|Hin] Hs]|Hk]; [rewrite Es in Hs; discriminate Hs | left; split; assumption | right; exact Hk].
  Qed.
End SetAside.

Section Restore.
  Variable ho : hdr.
  Variable meta : list ((str * str) * jv).

  Definition bases_present (ox : obj) : Prop := forall c, class_valid ho c = true -> exists bo, jassoc (name_of_base (base_of c)) ox = Some (JObj bo).

  Lemma Holds_bases_present (ox : obj) (fx : key -> kst jv) : Holds ox ho fx -> bases_ok ho -> bases_present ox.
  Proof.
    intros HH Hb c Hv. destruct (hw_dict _ _ _ HH c (Hb c Hv)) as [d [Hd _]]. destruct (class_dict_parts ox c d Hd) as [bo [H1 _]].
    exists bo. exact H1.
  Qed.

  Lemma restore (cl : list cls) : forall ox : obj,
    (forall c, In c cl -> class_valid ho c = true) -> (forall c, In c cl -> is_slices c = true -> has_key meta (name_of_cls c)) ->
    bases_present ox ->
    exists ox', py_for (map name_of_cls cl) (JObj ox)
                  (fun (classes : str * str) other__st =>
                     if str_eqb (snd classes) [115; 108; 105; 99; 101; 115]%N then
                       bind (py_dict_get (py_pair_eqb str_eqb str_eqb) meta classes) (fun t =>
                       bind (dyn_setc2 other__st (fst classes) (snd classes) t) (fun other__st' => Ok (@Next (unit * jv) _ other__st')))
                     else Ok (Next other__st))
                = Ok (Next (JObj ox')).
  Proof.
    induction cl as [|c r IH]; intros ox Hval Hm Hbp.
    - exists ox. reflexivity.
    - cbn [map py_for]. rewrite is_slices_name. destruct (is_slices c) eqn:Es.
      + destruct (Hm c (or_introl eq_refl) Es) as [v Hv]. rewrite Hv. cbn [bind].
        destruct (Hbp c (Hval c (or_introl eq_refl))) as [bo Hbo].
        assert (E : dyn_setc2 (JObj ox) (fst (name_of_cls c)) (snd (name_of_cls c)) v
                    = Ok (JObj (jset (name_of_base (base_of c)) (JObj (jset (name_of_sub (sub_of c)) v bo)) ox))).
        { unfold dyn_setc2. cbn [name_of_cls fst snd dyn_getitem]. rewrite Hbo. reflexivity. }
        replace (dyn_setc2 (JObj ox) _ _ v) with (@Ok jv (JObj (jset (name_of_base (base_of c)) (JObj (jset (name_of_sub (sub_of c)) v bo)) ox)))
          by (symmetry; exact E).
        cbn [bind]. apply IH.
        * intros c0 H0. apply Hval. right. exact H0.
        * intros c0 H0. apply Hm. right. exact H0.
        * intros c0 Hv0. rewrite jassoc_jset. destruct (str_eqb (name_of_base (base_of c0)) (name_of_base (base_of c))).
          -- eexists. reflexivity.
          -- exact (Hbp c0 Hv0).
      + apply IH; [intros c0 H0; apply Hval; right; exact H0 | intros c0 H0; apply Hm; right; exact H0 | exact Hbp].
  Qed.
End Restore.

(** * Sets of keys *)

Lemma py_set_in (l : list str) (k : str) : In k (py_set str_eqb l) <-> In k l.
Proof.
  induction l as [|x r IH]; [tauto|]. cbn [py_set In]. rewrite filter_In, IH. split.
  - intros [H|[H _]]; [left; exact H | right; exact H].
  - intros [H|H]; [left; exact H|]. destruct (str_eqb x k) eqn:E.
    + left. apply str_eqb_eq in E. exact E.
    + right. split; [exact H | reflexivity].
Qed.

Lemma py_set_nodup (l : list str) : NoDup (py_set str_eqb l).
Proof.
  induction l as [|x r IH]; [constructor|]. cbn [py_set]. constructor.
  - rewrite filter_In. intros [_ H]. rewrite str_eqb_refl in H. discriminate H.
  - apply NoDup_filter. exact IH.
Qed.

Lemma py_diff_in (a b : list str) (k : str) : In k (py_diff str_eqb a b) <-> In k a /\ ~ In k b.
Proof.
  unfold py_diff. rewrite filter_In. split; intros [H1 H2]; split; try exact H1.
  - intros Hb. apply negb_true_iff in H2. assert (existsb (str_eqb k) b = true); [|congruence].
    apply existsb_exists. exists k. split; [exact Hb | apply str_eqb_refl].
  - apply negb_true_iff. destruct (existsb (str_eqb k) b) eqn:E; [|reflexivity]. apply existsb_exists in E. destruct E as [x [Hx E]].
    apply str_eqb_eq in E. subst x. contradiction.
Qed.

Lemma insert_k_unfold (hs ho : hdr) (dim : nat) (ks ko : kst jv) :
  insert_k jv_eqb JNull hs ho dim ks ko =
  let ko2 := match visible ho ko with
             | Some (c, vs) => if is_slices c && negb (use_slices hs ho) then None else Some (c, vs)
             | None => None
             end in
  match ko2, visible hs ks with
  | None, None => Ok ks
  | _, _ => bind (reclassify_k JNull hs ks (match ko2 with Some (c, _) => c | None => GConst end)) (fun ks1 =>
            insert_dispatch hs ho dim ks1 ko2)
  end.
Proof. reflexivity. Qed.

Lemma dispatch_present (hs ho : hdr) (dim : nat) (s ko r : kst jv) : dim < 5 ->
  insert_dispatch hs ho dim s ko = Ok r -> exists c lv, s = Some (c, lv) /\ class_valid hs c = true.
Proof.
  intros Hd H. apply visible_some_iff. intros Hn. unfold insert_dispatch in H.
  destruct (odim_is (sdim hs) dim).
  - unfold insert_slice_k in H. rewrite Hn in H. discriminate H.
  - destruct (dim <? 3) eqn:E2.
    + unfold insert_non_slice_k in H. rewrite Hn in H. discriminate H.
    + destruct (dim =? 3) eqn:E3.
      * unfold insert_sample_k in H. rewrite Hn in H. discriminate H.
      * destruct (dim =? 4) eqn:E4.
        -- unfold insert_sample_k in H. rewrite Hn in H. discriminate H.
        -- apply Nat.eqb_neq in E3. apply Nat.eqb_neq in E4. apply Nat.ltb_ge in E2. lia.
Qed.

Lemma NoDup_app' {A} (a b : list A) : NoDup a -> NoDup b -> (forall x, In x a -> In x b -> False) -> NoDup (a ++ b).
Proof.
  induction a as [|x r IH]; intros Ha Hb Hd; [exact Hb|]. inversion Ha as [|? ? Hni Ha']; subst. cbn [app]. constructor.
  - rewrite in_app_iff. intros [H|H]; [contradiction | exact (Hd x (or_introl eq_refl) H)].
  - apply IH; [exact Ha' | exact Hb | intros y H1 H2; exact (Hd y (or_intror H1) H2)].
Qed.

(** * The loop over the classes of `other` *)

Section InsertLoop.
  Variables (oo1 : obj) (hs ho : hdr) (f ko2 R : key -> kst jv) (dim : nat) (M : list key).
  Hypothesis HO1 : Holds oo1 ho ko2.
  Hypothesis Hoks : ndim_ok hs = true.
  Hypothesis Hbs : bases_ok hs.
  Hypothesis Hoko : ndim_ok ho = true.
  Hypothesis Hbo : bases_ok ho.
  Hypothesis Hnv : odim_is (sdim hs) dim = true -> prod_list (skipn 3 (shape hs)) <> 0.
  Hypothesis Hdim5 : dim < 5.
  Hypothesis Hvs : forall k, visible hs (f k) = f k.
  Hypothesis Hs1 : forall k, kst_storable hs (f k).
  Hypothesis Hso : forall k, kst_storable ho (ko2 k).
  Hypothesis HM : forall k, In k M <-> (f k <> None /\ ko2 k = None).
  Hypothesis HMnd : NoDup M.

  (** the class of `other` under which a key is processed, and whether it is processed at all *)
  Definition cls_of (k : key) : cls := match ko2 k with Some (c, _) => c | None => GConst end.
  Definition processed (k : key) : bool :=
    match ko2 k with Some _ => true | None => match f k with Some _ => true | None => false end end.

  Hypothesis HR : forall k, processed k = true ->
    exists s1, reclassify_k JNull hs (f k) (cls_of k) = Ok s1 /\ kst_storable hs s1 /\ insert_dispatch hs ho dim s1 (ko2 k) = Ok (R k).

  Definition InvI (done : list cls) (g : key -> kst jv) : Prop :=
    forall k, g k = if processed k && mem_cls (cls_of k) done then R k else f k.

  Notation cbody := (insert_class_body classifications (shape hs) (sdim hs) (n_slices hs) preserving_changes
                                       classifications (shape ho) (n_slices ho) preserving_changes (JObj oo1) M dim).

  Lemma class_loop_ins (cl : list cls) : forall (done : list cls) (o : obj) (g : key -> kst jv),
    (forall c, In c cl -> class_valid ho c = true) -> NoDup cl -> (forall c, In c cl -> ~ In c done) ->
    Holds o hs g -> InvI done g ->
    exists o' g', py_for (map name_of_cls cl) (JObj o) cbody = Ok (Next (JObj o')) /\ Holds o' hs g' /\ InvI (rev cl ++ done) g'.
  Proof.
    induction cl as [|c r IH]; intros done o g Hval Hnd Hfresh HH Hinv.
    - exists o, g. split; [reflexivity|]. split; assumption.
    - inversion Hnd as [|? ? Hni Hnd']; subst.
      assert (Hv : class_valid ho c = true) by (apply Hval; left; reflexivity).
      destruct (hw_dict _ _ _ HO1 c (Hbo c Hv)) as [d [Hd [Hdn Hj]]].
      assert (Hcd : mem_cls c done = false).
      { destruct (mem_cls c done) eqn:E; [|reflexivity]. apply mem_cls_In in E. exfalso. exact (Hfresh c (or_introl eq_refl) E). }
      assert (Hind : forall k, In k (map fst d) <-> exists vs, ko2 k = Some (c, vs)).
      { intros k. rewrite <- jassoc_in, Hj. unfold stored. destruct (ko2 k) as [[c' vs]|].
        - destruct (cls_eqb_spec c' c) as [->|Hne].
          + split; [intros _; exists vs; reflexivity | discriminate].
          + split; [intros H; exfalso; apply H; reflexivity | intros [vs' H]; injection H as -> _; contradiction].
        - split; [intros H; exfalso; apply H; reflexivity | intros [vs' H]; discriminate H]. }
      set (ks := map fst d ++ (if cls_eqb c GConst then M else [])).
      assert (Hks : forall k, In k ks <-> processed k = true /\ cls_of k = c).
      { intros k. unfold ks. rewrite in_app_iff, Hind. unfold processed, cls_of. split.
        - intros [[vs Hk]|Hk].
          + rewrite Hk. split; reflexivity.
          + destruct (cls_eqb_spec c GConst) as [->|Hne]; [|destruct Hk]. apply HM in Hk. destruct Hk as [Hf Hk]. rewrite Hk.
            destruct (f k); [split; reflexivity | exfalso; apply Hf; reflexivity].
        - intros [Hp Hc]. destruct (ko2 k) as [[c' vs]|] eqn:Ek.
          + left. exists vs. rewrite Hc. reflexivity.
          + right. subst c. cbn [cls_eqb]. apply HM. split; [|exact Ek]. destruct (f k); [discriminate | discriminate Hp]. }
      assert (Hksnd : NoDup ks).
      { unfold ks. apply NoDup_app'; [exact Hdn | destruct (cls_eqb c GConst); [exact HMnd | constructor] |].
        intros k H1 H2. apply Hind in H1. destruct H1 as [vs H1]. destruct (cls_eqb c GConst); [|destruct H2].
        apply HM in H2. destruct H2 as [_ H2]. rewrite H1 in H2. discriminate H2. }
      assert (Hgk : forall k, In k ks -> g k = f k).
      { intros k Hk. apply Hks in Hk. destruct Hk as [_ Hc]. rewrite Hinv, Hc, Hcd, andb_false_r. reflexivity. }
      set (T1 := fun k => match reclassify_k JNull hs (f k) c with Ok s => s | Err _ => None end).
      destruct (class_step oo1 hs ho ko2 dim M HO1 Hoks Hbs Hoko Hbo Hnv c d T1 R o g Hv Hd Hksnd HH) as [o1 [g1 [E1 [HH1 Hg1]]]].
      { intros k Hk. rewrite (Hgk k Hk). apply Hks in Hk. destruct Hk as [Hp Hc]. destruct (HR k Hp) as [s1 [Hr _]]. rewrite Hc in Hr.
        split; [split; [apply Hs1 | apply Hvs]|]. unfold T1. rewrite Hr. reflexivity. }
      { intros k Hk. apply Hks in Hk. destruct Hk as [Hp Hc]. destruct (HR k Hp) as [s1 [Hr [Hst Hd1]]]. rewrite Hc in Hr.
        unfold T1. rewrite Hr. split; [|exact Hd1]. split; [apply Hso|]. split; [exact Hst|].
        exact (dispatch_present hs ho dim s1 (ko2 k) (R k) Hdim5 Hd1). }
      fold ks in Hg1.
      assert (Hinv1 : InvI (c :: done) g1).
      { intros k. rewrite Hg1. unfold mem_cls. cbn [existsb]. fold (mem_cls (cls_of k) done).
        destruct (mem_key k ks) eqn:Em.
        - apply mem_key_In in Em. apply Hks in Em. destruct Em as [Hp Hc]. rewrite Hp, Hc, cls_eqb_refl. reflexivity.
        - rewrite Hinv. destruct (processed k) eqn:Hp; [|reflexivity]. cbn [andb].
          destruct (cls_eqb_spec (cls_of k) c) as [Hc|Hne]; [|reflexivity].
          assert (Hin : In k ks) by (apply Hks; split; assumption). apply mem_key_In in Hin. rewrite Hin in Em. discriminate Em. }
      destruct (IH (c :: done) o1 g1 (fun c0 H0 => Hval c0 (or_intror H0)) Hnd') with (2 := HH1) (3 := Hinv1) as [o' [g' [E' [H' I']]]].
      { intros c0 H0 [->|H1']; [contradiction | exact (Hfresh c0 (or_intror H0) H1')]. }
      exists o', g'. split; [|split; [exact H'|]].
      + cbn [map py_for]. rewrite E1. cbn [bind]. exact E'.
      + cbn [rev]. rewrite <- app_assoc. exact I'.
  Qed.
End InsertLoop.

(** * _insert *)

(** the class of `other` under which a key is reclassified: its class in other, ('global','const') when other does not hold it or its
    per-slice meta data is not used *)
Definition other_class (us : bool) (ko : kst jv) : cls :=
  match ko with Some (c, _) => if is_slices c && negb us then GConst else c | None => GConst end.

Notation insert_code sn on o oo hs ho dim :=
  (insert_st classifications (shape hs) (sdim hs) (n_slices hs) preserving_changes sn (JObj o) dim
             classifications (shape ho) (n_slices ho) preserving_changes on (JObj oo)).

Theorem insert_st_ref (o oo : obj) (hs ho : hdr) (f fo R : key -> kst jv) (dim : nat) (sn on : option nat) :
  Holds o hs f -> Holds oo ho fo -> ndim_ok hs = true -> bases_ok hs -> ndim_ok ho = true -> bases_ok ho ->
  (match sn, on with Some a, Some b => Nat.eqb a b | _, _ => false end) = use_slices hs ho ->
  dim < 5 -> (odim_is (sdim hs) dim = true -> prod_list (skipn 3 (shape hs)) <> 0) ->
  (forall k, visible hs (f k) = f k) -> (forall k, visible ho (fo k) = fo k) ->
  (forall k, kst_storable hs (f k)) -> (forall k, kst_storable ho (fo k)) ->
  (forall k, insert_k jv_eqb JNull hs ho dim (f k) (fo k) = Ok (R k)) ->
  (forall k s1, reclassify_k JNull hs (f k) (other_class (use_slices hs ho) (fo k)) = Ok s1 -> kst_storable hs s1) ->
  exists o', insert_code sn on o oo hs ho dim = Ok (tt, JObj o') /\ Holds o' hs R.
Proof.
  intros HH HO Hoks Hbs Hoko Hbo Hus Hdim5 Hnv Hvs Hvo Hs1 Hso HR Hs2.
  set (us := use_slices hs ho) in *.
  set (ko2 := fun k => match fo k with Some (c, vs) => if is_slices c && negb us then None else Some (c, vs) | None => None end).
  assert (Hvo2 : forall k, visible ho (ko2 k) = ko2 k).
  { intros k. unfold ko2. pose proof (Hvo k) as Hk. destruct (fo k) as [[c vs]|]; [|reflexivity].
    destruct (is_slices c && negb us); [reflexivity | exact Hk]. }
  assert (Hso2 : forall k, kst_storable ho (ko2 k)).
  { intros k. unfold ko2. pose proof (Hso k) as Hk. destruct (fo k) as [[c vs]|]; [|exact I].
    destruct (is_slices c && negb us); [exact I | exact Hk]. }
  (* A: the per-slice meta data of other is set aside *)
  assert (HA : exists meta oo1,
    (if negb us then
       bind (get_valid_classes_src classifications (shape ho)) (fun t1 =>
       bind (py_for t1 (@nil ((str * str) * jv), JObj oo)
               (fun (classes : str * str) '(other_slc_meta, other__st) =>
                  if str_eqb (snd classes) [115; 108; 105; 99; 101; 115]%N then
                    bind (get_class_dict_st other__st classes) (fun t2 =>
                    bind (dyn_setc2 other__st (fst classes) (snd classes) (JObj [])) (fun other__st' =>
                    Ok (@Next (unit * jv) _ (py_dict_set (py_pair_eqb str_eqb str_eqb) other_slc_meta classes t2, other__st'))))
                  else Ok (Next (other_slc_meta, other__st))))
            (fun c3 => match c3 with Ret rv => Ok (Ret rv) | Next (m_, st_) => Ok (Next (m_, st_)) end))
     else Ok (Next (@nil ((str * str) * jv), JObj oo))) = Ok (Next (meta, JObj oo1)) /\
    Holds oo1 ho ko2 /\
    (us = false -> forall c, class_valid ho c = true -> is_slices c = true -> has_key meta (name_of_cls c))).
  { destruct us eqn:Eus; cbn [negb].
    - exists [], oo. split; [reflexivity|]. split; [|discriminate].
      apply (Holds_feq oo ho fo); [|exact HO]. intros k. unfold ko2. destruct (fo k) as [[c vs]|]; [|reflexivity].
      rewrite andb_false_r. reflexivity.
    - rewrite get_valid_classes_src_eq, Hoko. cbn [bind].
      destruct (set_aside ho Hbo (valid_classes ho) oo fo [] ltac:(intros c Hc; apply mem_cls_In; exact Hc) HO) as [meta [oo1 [E [H Hm]]]].
      exists meta, oo1. split.
      { match goal with |- bind ?X _ = _ => replace X with (Ok (@Next (unit * jv) _ (meta, JObj oo1))) by (symmetry; exact E) end.
        reflexivity. }
      split.
      + apply (Holds_feq oo1 ho (without_slices (valid_classes ho) fo)); [|exact H]. intros k. unfold without_slices, ko2.
        pose proof (Hvo k) as Hk. destruct (fo k) as [[c vs]|]; [|reflexivity].
        assert (Hcv : class_valid ho c = true).
        { assert (Hn : visible ho (Some (c, vs)) <> None) by (rewrite Hk; discriminate). apply visible_some_iff in Hn.
          destruct Hn as (c' & vs' & E1 & E2). injection E1 as <- <-. exact E2. }
        unfold class_valid in Hcv. rewrite Hcv. cbn [negb]. reflexivity.
      + intros _ c Hv Hs. apply Hm. left. split; [apply mem_cls_In; exact Hv | exact Hs]. }
  destruct HA as [meta [oo1 [EA [HO1 Hmeta]]]].
  (* B: the keys of self that other does not hold *)
  destruct (get_keys_st_spec o hs f HH Hoks Hbs) as [Ls [ELs HLs]].
  destruct (get_keys_st_spec oo1 ho ko2 HO1 Hoko Hbo) as [Lo [ELo HLo]].
  set (M := py_diff str_eqb (py_set str_eqb Ls) (py_set str_eqb Lo)).
  assert (HM : forall k, In k M <-> (f k <> None /\ ko2 k = None)).
  { intros k. unfold M. rewrite py_diff_in, !py_set_in, HLs, HLo, Hvs, Hvo2. split; intros [H1 H2]; split; try exact H1.
    - destruct (ko2 k); [exfalso; apply H2; discriminate | reflexivity].
    - rewrite H2. intros H; apply H; reflexivity. }
  assert (HMnd : NoDup M) by (unfold M, py_diff; apply NoDup_filter; apply py_set_nodup).
  (* C: the classes of other *)
  assert (HRp : forall k, processed f ko2 k = true ->
    exists s1, reclassify_k JNull hs (f k) (cls_of ko2 k) = Ok s1 /\ kst_storable hs s1 /\ insert_dispatch hs ho dim s1 (ko2 k) = Ok (R k)).
  { intros k Hp. pose proof (HR k) as Hk. rewrite insert_k_unfold, Hvo, Hvs in Hk. cbv zeta in Hk. fold us in Hk. fold (ko2 k) in Hk.
    unfold processed in Hp. unfold cls_of.
    assert (Hoc : other_class us (fo k) = match ko2 k with Some (c, _) => c | None => GConst end).
    { unfold other_class, ko2. destruct (fo k) as [[c vs]|]; [|reflexivity]. destruct (is_slices c && negb us); reflexivity. }
    pose proof (Hs2 k) as Hs2k. fold us in Hs2k. rewrite Hoc in Hs2k.
    destruct (ko2 k) as [[c vs]|] eqn:Ek.
    - destruct (reclassify_k JNull hs (f k) c) as [s1|e] eqn:Er; [|discriminate Hk]. exists s1. split; [reflexivity|].
      split; [exact (Hs2k s1 eq_refl) | exact Hk].
    - destruct (f k) as [x|] eqn:Ef; [|discriminate Hp].
      destruct (reclassify_k JNull hs (Some x) GConst) as [s1|e] eqn:Er; [|discriminate Hk]. exists s1. split; [reflexivity|].
      split; [|exact Hk]. exact (Hs2k s1 eq_refl). }
  destruct (class_loop_ins oo1 hs ho f ko2 R dim M HO1 Hoks Hbs Hoko Hbo Hnv Hdim5 Hvs Hs1 Hso2 HM HMnd HRp
              (valid_classes ho) [] o f ltac:(intros c Hc; apply mem_cls_In; exact Hc) (valid_classes_nodup ho)
              ltac:(intros c _ []) HH ltac:(intros k; rewrite andb_false_r; reflexivity)) as [o' [g' [EC [H' I']]]].
  exists o'. split.
  - unfold insert_st. cbv zeta. rewrite Hus.
    match goal with |- bind ?X _ = _ => replace X with (Ok (@Next (unit * jv) _ (meta, JObj oo1))) by (symmetry; exact EA) end.
    cbn [bind]. rewrite ELs, ELo. cbn [bind]. fold M. rewrite get_valid_classes_src_eq, Hoko. cbn [bind].
    match goal with |- bind ?X _ = _ => replace X with (Ok (@Next (unit * jv) _ (JObj o'))) by (symmetry; exact EC) end.
    cbn [bind]. destruct us eqn:Eus; cbn [negb bind]; [reflexivity|].
    destruct (restore ho meta (valid_classes ho) oo1 ltac:(intros c Hc; apply mem_cls_In; exact Hc)
                ltac:(intros c Hc Hs; apply (Hmeta eq_refl c); [apply mem_cls_In; exact Hc | exact Hs])
                (Holds_bases_present ho oo1 ko2 HO1 Hbo)) as [ox' Er].
    match goal with |- bind ?X _ = _ => replace X with (Ok (@Next (unit * jv) _ (JObj ox'))) by (symmetry; exact Er) end.
    reflexivity.
  - apply (Holds_feq o' hs g' R); [|exact H']. intros k. rewrite I', app_nil_r.
    destruct (processed f ko2 k) eqn:Hp; cbn [andb].
    + assert (Hcv : class_valid ho (cls_of ko2 k) = true).
      { unfold cls_of. pose proof (Hvo2 k) as Hk. destruct (ko2 k) as [[c vs]|]; [|exact (valid_gconst ho Hoko)].
        assert (Hn : visible ho (Some (c, vs)) <> None) by (rewrite Hk; discriminate). apply visible_some_iff in Hn.
        destruct Hn as (c' & vs' & E1 & E2). injection E1 as <- <-. exact E2. }
      replace (mem_cls (cls_of ko2 k) (rev (valid_classes ho))) with true; [reflexivity|].
      symmetry. apply mem_cls_In. apply in_rev. rewrite rev_involutive. apply mem_cls_In. exact Hcv.
    + pose proof (HR k) as Hk. rewrite insert_k_unfold, Hvo, Hvs in Hk. cbv zeta in Hk. fold us in Hk. fold (ko2 k) in Hk.
      unfold processed in Hp. destruct (ko2 k); [discriminate Hp|]. destruct (f k); [discriminate Hp|]. injection Hk as <-. reflexivity.
Qed.
