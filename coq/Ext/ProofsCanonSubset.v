(** C06, part 3: [get_subset] of an extension whose keys all sit at their canonical class returns an
    extension with the same property (and valid): every branch of [subset_k] either ends in [_simplify]
    (which lands on THE canonical class from any class, Ext/ProofsSimplifyCanon.v) or stores the unchanged
    value list under a class whose canonicity transfers from the source ([canon_transfer]).

    The literal [Spec.canonical] (with its clause "some position is not None") is NOT closed under
    [get_subset]: a key that is None on the selected part stays as a global constant None
    ([subset_canonical_refuted], replayed on the real code).  [canonical_mod_none] drops that clause. *)
From Coq Require Import List Bool Arith QArith Lia.
From DV Require Import Common.Res Common.Str Ext.Types Ext.Classes Ext.Seq Ext.Model Ext.Spec Ext.TableFacts
     Ext.ValidFacts Ext.ProofsValidBase Ext.ProofsSimplifySeq Ext.ProofsSimplifyLayout Ext.ProofsSimplifyCanon.
Import ListNotations.
Local Open Scope nat_scope.

Definition ax_of (h : hdr) (dim : nat) : option nat :=
  if odim_is (sdim h) dim then Some 0 else if dim <? 3 then None else if dim =? 3 then Some 1 else Some 2.

Definition rdims (ax : option nat) (d : pos) : pos :=
  let '(nS, nT, nV) := d in
  match ax with None => d | Some 0 => (1, nT, nV) | Some 1 => (nS, 1, nV) | Some _ => (nS, nT, 1) end.

Definition notrail (h : hdr) : Prop :=
  (ndim h = 4 -> snd (fst (dims h)) <> 1) /\ (ndim h = 5 -> snd (dims h) <> 1).


Lemma Forall_removelast {A} (P : A -> Prop) l : Forall P l -> Forall P (removelast l).
Proof.
  induction l as [|a [|b r] IH]; intros H; cbn [removelast]; [constructor | constructor |].
  inversion H; subst. constructor; [assumption | apply IH; assumption].
Qed.

Lemma Forall_trim_fuel P fuel l : Forall P l -> Forall P (trim_fuel fuel l).
Proof.
  revert l. induction fuel as [|f IH]; intros l H; cbn [trim_fuel]; [exact H|].
  destruct (_ && _); [apply IH, Forall_removelast; exact H | exact H].
Qed.

Lemma Forall_set_nth {A} (P : A -> Prop) i v l l' : set_nth i v l = Some l' -> P v -> Forall P l -> Forall P l'.
Proof.
  revert i l'. induction l as [|a r IH]; intros i l' H Hv Hl; [destruct i; discriminate|].
  inversion Hl; subst. destruct i as [|i]; cbn [set_nth] in H.
  - injection H as <-. constructor; assumption.
  - destruct (set_nth i v r) as [r'|] eqn:E; [|discriminate]. injection H as <-.
    constructor; [assumption | eapply IH; eauto].
Qed.

Lemma subset_frame h hr dim :
  hdr_wf h -> subset_hdr h dim = Ok hr ->
  hdr_wf hr /\ hdr_tight hr /\ sdim hr = sdim h /\ dims hr = rdims (ax_of h dim) (dims h) /\
  (forall x, class_ok (shape hr) x = true -> class_ok (shape h) x = true) /\ notrail hr /\ dim < ndim h.
Proof.
  intros Hw H. pose proof (hdr_wf_shape_wf h Hw) as Hswf.
  unfold subset_hdr in H.
  destruct (5 <=? dim) eqn:E5; [discriminate|]. apply Nat.leb_gt in E5.
  destruct (negb (ndim_ok h)); [discriminate|].
  destruct (set_nth dim 1 (shape h)) as [sh|] eqn:Es; [|discriminate].
  pose proof (make_empty_hdr_tight _ _ _ _ H) as Htight.
  unfold make_empty_hdr in H.
  destruct (negb ((3 <=? length (trim_ones sh)) && (length (trim_ones sh) <? 6))) eqn:E1; [discriminate|].
  destruct (negb _) eqn:E2 in H; [discriminate|]. destruct (negb _) eqn:E3 in H; [discriminate|].
  injection H as H. 
  assert (Hshape : shape hr = trim_ones sh) by (rewrite <- H; reflexivity).
  assert (Hsdim : sdim hr = sdim h) by (rewrite <- H; reflexivity).
  assert (Haff : aff hr = aff h) by (rewrite <- H; reflexivity).
  clear H E2 E3.
  destruct Hw as [Hn [Hp [Hsd [Haf Hb]]]].
  split.
  { split.
    - unfold ndim. rewrite Hshape. apply negb_false_iff, andb_true_iff in E1 as [H3 H6].
      apply Nat.leb_le in H3. apply Nat.ltb_lt in H6. lia.
    - split; [rewrite Hshape; apply Forall_trim_fuel; eapply Forall_set_nth; eauto|].
      split; [rewrite Hsdim; exact Hsd|]. split; [rewrite Haff; exact Haf|].
      intros c Hc. rewrite Htight. exact Hc. }
  split; [exact Htight|]. split; [exact Hsdim|].
  unfold notrail, ndim, dims, ax_of. rewrite Hshape, Hsdim. clear Hshape Hsdim Haff Htight E1 hr.
  shape_cases h Hswf; rewrite Hsh in *; clear Hsh;
  destruct dim as [|[|[|[|[|dim]]]]]; try lia; cbn [set_nth option_map] in Es; try discriminate; injection Es as <-.
  all: unfold trim_ones; cbn [length trim_fuel last removelast Nat.ltb Nat.leb andb].
  all: repeat match goal with |- context [?a =? 1] => destruct (Nat.eqb_spec a 1); [subst|]; cbn [length trim_fuel last removelast Nat.ltb Nat.leb andb] end.
  all: try (exfalso; lia).
  all: destruct (sdim h) as [[|[|[|d]]]|] eqn:Ed; try (specialize (Hsd _ eq_refl); lia);
       cbn [odim_is Nat.eqb Nat.ltb Nat.leb nth rdims length fst snd];
       (split; [reflexivity|]); (split; [intros c; unfold class_ok; cbn [length nth]; destruct c; cbn [base_of]; intros X; try discriminate X; try reflexivity; try exact X; try (apply negb_true_iff, Nat.eqb_neq; assumption)|]);
       (split; [split; intros; try lia; try discriminate|lia]).
Qed.

(** class admission in terms of the number of dimensions and (S, T, V) *)
Lemma class_ok_by_dims h nS nT nV : hdr_wf h -> dims h = (nS, nT, nV) ->
  (ndim h = 3 /\ nT = 1 /\ nV = 1 /\ forall c, class_ok (shape h) c = match base_of c with BGlobal => true | _ => false end) \/
  (ndim h = 4 /\ nV = 1 /\ forall c, class_ok (shape h) c = match base_of c with BVector => false | _ => true end) \/
  (ndim h = 5 /\ forall c, class_ok (shape h) c = match base_of c with BTime => negb (nT =? 1) | _ => true end).
Proof.
  intros Hw Ed. pose proof (hdr_wf_shape_wf h Hw) as Hswf. unfold dims, ndim in *.
  shape_cases h Hswf; rewrite Hsh in *; cbn [nth length] in *; injection Ed as E1 E2 E3; subst.
  - left. do 3 (split; [reflexivity|]). intros c. destruct c; reflexivity.
  - right; left. do 2 (split; [reflexivity|]). intros c. destruct c; reflexivity.
  - right; right. split; [reflexivity|]. intros c. destruct c; reflexivity.
Qed.

Lemma shape_at4_dims h v : shape_at h 4 = Some v -> snd (dims h) = v.
Proof. unfold shape_at, dims. intros H. cbn [fst snd]. apply (nth_error_nth _ _ 1) in H. exact H. Qed.

(** [idx < shape[dim]] in terms of (S, T, V) *)
Lemma idx_bound h dim idx nS nT nV : hdr_wf h -> dims h = (nS, nT, nV) -> dim < ndim h -> idx < nth dim (shape h) 0 ->
  match ax_of h dim with Some 0 => idx < nS | Some 1 => idx < nT | Some _ => idx < nV | None => True end.
Proof.
  intros Hw Ed Hd Hi. unfold ax_of, dims, ndim in *.
  rewrite (nth_indep _ 0 1) in Hi by exact Hd.
  destruct (sdim h) as [d|] eqn:Es; cbn [odim_is].
  - destruct (Nat.eqb_spec d dim) as [->|Hne].
    + injection Ed as <- _ _. exact Hi.
    + destruct (dim <? 3) eqn:E3; [exact I|]. apply Nat.ltb_ge in E3.
      destruct (Nat.eqb_spec dim 3) as [->|H3]; injection Ed as _ E2 E3'; subst; [exact Hi|].
      destruct Hw as [Hn _]. unfold ndim in Hn. assert (dim = 4) by lia. subst. exact Hi.
  - destruct (dim <? 3) eqn:E3; [exact I|]. apply Nat.ltb_ge in E3.
    destruct (Nat.eqb_spec dim 3) as [->|H3]; injection Ed as _ E2 E3'; subst; [exact Hi|].
    destruct Hw as [Hn _]. unfold ndim in Hn. assert (dim = 4) by lia. subst. exact Hi.
Qed.

Section WithV.
  Context {V : Type} (veqb : V -> V -> bool) (vnone : V).
  Hypothesis veqb_spec : forall a b, reflect (a = b) (veqb a b).

  Notation fden := (fden vnone).
  Notation entry_ok := (@entry_ok V).

  (** the key (if present) is well formed and sits at the canonical class of what it denotes *)
  Definition kcanon (h : hdr) (s : kst V) : Prop :=
    match s with
    | None => True
    | Some (c, vs) => entry_ok h c vs /\ canon_class (shape h) (dims h) (fden (dims h) c vs) c
    end.

  Lemma class_ok_gconst h : hdr_wf h -> class_ok (shape h) GConst = true.
  Proof.
    intros [Hn _]. unfold class_ok, ndim in *. destruct (length (shape h)) as [|[|[|[|[|[|n]]]]]]; try lia; reflexivity.
  Qed.

  Lemma kcanon_gconst h (vs : list V) : hdr_wf h -> length vs = 1 -> kcanon h (Some (GConst, vs)).
  Proof.
    intros Hw Hl. pose proof (class_ok_gconst h Hw) as Hc. split.
    - split; [exact Hc|]. split; [intros X; discriminate X|]. rewrite Hl. destruct (dims h) as [[? ?] ?]. reflexivity.
    - split; [exact Hc|]. split; [apply representable_self|]. intros c' _ _. cbn [pref_rank]. lia.
  Qed.

  (** a branch that ends in [_simplify] *)
  Lemma finish_simplify h c vs r :
    hdr_wf h -> hdr_tight h -> entry_ok h c vs -> simplify_dom h c ->
    simplify_k veqb vnone h (Some (c, vs)) = Ok r -> kcanon h r.
  Proof.
    intros Hw Ht Hok Hdom H. destruct (cls_eqb_spec c GConst) as [->|Hne].
    - rewrite simplify_gconst in H by apply Hok. injection H as <-.
      assert (Hl : length vs = 1).
      { destruct Hok as [_ [_ Hl]]. rewrite Hl. destruct (dims h) as [[? ?] ?]. reflexivity. }
      destruct vs as [|v [|w r']]; try (apply kcanon_gconst; assumption).
      destruct (veqb v vnone); [exact I | apply kcanon_gconst; assumption].
    - destruct (simplify_spec veqb vnone veqb_spec h c vs r Hw Ht Hok Hne Hdom H) as [c' [vs' [-> _]]].
      destruct (simplify_canon veqb vnone veqb_spec h c vs c' vs' Hw Ht Hok Hne Hdom H) as [H1 [_ H3]].
      split; assumption.
  Qed.

  Lemma put_ok h c (vs : list V) s : put h c vs = Ok s -> s = Some (c, vs) /\ has_base h (base_of c) = true.
  Proof. unfold put. destruct (has_base h (base_of c)); [|discriminate]. intros H; injection H as <-. auto. Qed.

  (** ** Canonicity transfers when the value list is kept under a class that reads it the same way *)
  Lemma canon_transfer (sh sh' : list nat) (d d' : pos) (c c2 : cls) (vs : list V) (rho : pos -> pos) :
    canon_class sh d (fden d c vs) c ->
    class_ok sh' c2 = true ->
    (forall q, in_dims d q -> in_dims d' (rho q)) ->
    (forall q q' x, proj x q = proj x q' -> proj x (rho q) = proj x (rho q')) ->
    (forall q, in_dims d q -> cidx d' c2 (rho q) = cidx d c q) ->
    (forall x, class_ok sh' x = true -> pref_rank x < pref_rank c2 -> class_ok sh x = true /\ pref_rank x < pref_rank c) ->
    canon_class sh' d' (fden d' c2 vs) c2.
  Proof.
    intros [_ [_ Hmin]] Hc2 Hin Hproj Hidx Hcls. split; [exact Hc2|]. split; [apply representable_self|].
    intros x Hx Hrx. destruct (le_lt_dec (pref_rank c2) (pref_rank x)) as [Hle|Hlt]; [exact Hle|]. exfalso.
    destruct (Hcls x Hx Hlt) as [Hxs Hxr].
    assert (Hr : representable d x (fden d c vs)).
    { apply representable_proj. intros q q' Hq Hq' E. unfold ProofsSimplifyLayout.fden.
      rewrite <- (Hidx q Hq), <- (Hidx q' Hq').
      apply (proj1 (representable_proj d' x _) Hrx); auto. }
    specialize (Hmin x Hxs Hr). lia.
  Qed.

  Definition rho_of (ax : option nat) (p : pos) : pos :=
    let '(s, t, v) := p in
    match ax with None => p | Some 0 => (0, t, v) | Some 1 => (s, 0, v) | Some _ => (s, t, 0) end.

  Lemma rho_in_dims ax d p : dims_pos d -> in_dims d p -> in_dims (rdims ax d) (rho_of ax p).
  Proof.
    destruct d as [[nS nT] nV], p as [[s t] v]. cbn [dims_pos in_dims]. intros [? [? ?]] [? [? ?]].
    destruct ax as [[|[|a]]|]; cbn [rdims rho_of in_dims]; lia.
  Qed.

  Lemma rho_proj ax q q' x : proj x q = proj x q' -> proj x (rho_of ax q) = proj x (rho_of ax q').
  Proof.
    destruct q as [[s t] v], q' as [[s' t'] v'].
    destruct ax as [[|[|a]]|], x; cbn [rho_of proj]; intros E; try injection E as E; subst; try reflexivity; congruence.
  Qed.

  Lemma mult_of_ok h c m : hdr_wf h -> (is_slices c = true -> sdim h <> None) ->
    multiplicity h c = Ok m -> class_ok (shape h) c = true /\ m = mult_spec (dims h) c.
  Proof.
    intros Hw Hs Hm. pose proof (multiplicity_class_ok _ _ _ Hm) as Hc. split; [exact Hc|].
    rewrite (mult_ok h c Hw Hc Hs) in Hm. injection Hm as <-. reflexivity.
  Qed.

  (** ** [_copy_slice] *)
  Lemma copy_slice_dest hr c dest :
    match base_of c with
    | BGlobal => match first_valid hr copy_slice_global_dests_c with Some d => Ok d | None => Err ECrash end
    | BVector => match first_valid hr copy_slice_vector_dests_c with Some d => Ok d | None => Err ECrash end
    | BTime => Ok GConst
    end = Ok dest ->
    let ok x := class_ok (shape hr) x in
    match base_of c with
    | BTime => dest = GConst
    | BGlobal => (dest = TSamples /\ ok TSamples = true) \/ (dest = VSamples /\ ok TSamples = false /\ ok VSamples = true) \/
                 (dest = GConst /\ ok TSamples = false /\ ok VSamples = false)
    | BVector => (dest = TSamples /\ ok TSamples = true) \/ (dest = GConst /\ ok TSamples = false)
    end.
  Proof.
    destruct copy_dests_eq as [Eg [Ev _]]. rewrite Eg, Ev. unfold first_valid. cbn [find]. rewrite !class_valid_ok.
    destruct (base_of c); cbn zeta.
    - destruct (class_ok (shape hr) TSamples); [intros H; injection H as <-; tauto|].
      destruct (class_ok (shape hr) VSamples); [intros H; injection H as <-; tauto|].
      destruct (class_ok (shape hr) GConst); intros H; [injection H as <-; tauto | discriminate].
    - intros H; injection H as <-; reflexivity.
    - destruct (class_ok (shape hr) TSamples); [intros H; injection H as <-; tauto|].
      destruct (class_ok (shape hr) GConst); intros H; [injection H as <-; tauto | discriminate].
  Qed.

  Lemma sub2_len (sub sub2 : list V) n dm k :
    length sub = n -> 1 <= n -> 1 <= k -> dm = k * n ->
    (if length sub <? dm then if length sub =? 0 then Err ECrash else Ok (rep_list (dm / length sub) sub) else Ok sub)
      = Ok sub2 -> length sub2 = dm.
  Proof.
    intros Hn H1 Hk -> H. rewrite Hn in H. destruct (n <? k * n) eqn:E.
    - destruct (n =? 0) eqn:E0; [apply Nat.eqb_eq in E0; lia|]. injection H as <-.
      rewrite rep_list_len, Hn. rewrite Nat.div_mul by lia. reflexivity.
    - injection H as <-. apply Nat.ltb_ge in E. nia.
  Qed.

  Lemma copy_slice_canon h hr c vs idx r nS nT nV :
    hdr_wf h -> hdr_wf hr -> hdr_tight hr -> sdim hr = sdim h ->
    dims h = (nS, nT, nV) -> dims hr = (1, nT, nV) ->
    entry_ok h c vs -> is_slices c = true -> idx < nS ->
    copy_slice_k veqb vnone h hr c vs idx = Ok r -> kcanon hr r.
  Proof.
    intros Hw Hwr Htr Hsd Ed Edr [Hc [Hs Hl]] Hsl Hidx H.
    pose proof (dims_pos_of_wf h Hw) as Hpos. rewrite Ed in Hpos. destruct Hpos as [HS [HT HV]].
    rewrite Ed in Hl.
    unfold copy_slice_k in H. apply bind_ok in H as [dest [Hdest H]].
    apply copy_slice_dest in Hdest. cbn zeta in Hdest.
    destruct (has_base hr (base_of dest)) eqn:Hb; cbn [negb] in H; [|discriminate].
    apply bind_ok in H as [dm [Hdm H]].
    rewrite (n_slices_dims h Hw (Hs Hsl)), Ed in H. cbn [fst] in H.
    assert (Hstr : (match Some nS with Some 0 => Err EValue | Some n => Ok n | None => Ok 1 end : res nat) = Ok nS)
      by (destruct nS; [lia | reflexivity]).
    rewrite Hstr in H. clear Hstr. cbn [bind] in H.
    apply bind_ok in H as [sub2 [Hsub2 H]].
    assert (Hdnsl : is_slices dest = false).
    { destruct (base_of c); [destruct Hdest as [[-> _]|[[-> _]|[-> _]]] | subst dest | destruct Hdest as [[-> _]|[-> _]]]; reflexivity. }
    destruct (mult_of_ok hr dest dm Hwr ltac:(intros X; congruence) Hdm) as [Hdok ->]. rewrite Edr in *.
    set (sub := every_nth idx nS vs) in *.
    assert (Hfin : length sub2 = mult_spec (1, nT, nV) dest -> kcanon hr r).
    { intros Hl2. apply (finish_simplify hr dest sub2 r Hwr Htr); [| |exact H].
      - split; [exact Hdok|]. split; [intros X; congruence|]. rewrite Edr. exact Hl2.
      - intros ->. discriminate Hdnsl. }
    apply Hfin. clear Hfin H.
    assert (Hsublen : forall n, length vs = n * nS -> length sub = n).
    { intros n Hn. unfold sub. apply every_nth_length; assumption. }
    destruct (class_ok_by_dims hr 1 nT nV Hwr Edr) as [[Hnd [-> [-> Hcls]]]|[[Hnd [-> Hcls]]|[Hnd Hcls]]];
      rewrite !Hcls in Hdest; cbn [base_of] in Hdest.
    all: destruct c; try discriminate Hsl; cbn [base_of mult_spec] in *.
    all: repeat match goal with
                | H : _ \/ _ |- _ => destruct H
                | H : _ /\ _ |- _ => destruct H
                end; try subst dest; try discriminate; cbn [mult_spec].
    all: try match goal with Hx : negb (?t =? 1) = false |- _ => apply negb_false_iff, Nat.eqb_eq in Hx; subst t end.
    all: match type of Hl with
         | _ = ?s * ?a * ?b => pose (n := a * b)
         | _ = ?s * ?a => pose (n := a)
         | _ = ?s => pose (n := 1)
         end; assert (Hn : length sub = n) by (apply Hsublen; rewrite Hl; unfold n; ring).
    all: first [ apply (sub2_len sub sub2 n _ 1 Hn); [unfold n; nia | lia | unfold n; ring | exact Hsub2]
               | match goal with |- _ = ?a * ?b => apply (sub2_len sub sub2 n _ b Hn); [unfold n; nia | lia | unfold n; ring | exact Hsub2] end ].
  Qed.

  (** ** branches that store the unchanged value list *)
  Lemma put_transfer h hr ax c c2 vs s :
    hdr_wf h -> hdr_wf hr -> hdr_tight hr -> sdim hr = sdim h -> dims hr = rdims ax (dims h) ->
    entry_ok h c vs -> canon_class (shape h) (dims h) (fden (dims h) c vs) c ->
    put hr c2 vs = Ok s ->
    mult_spec (dims hr) c2 = mult_spec (dims h) c ->
    (is_slices c2 = true -> is_slices c = true) ->
    (forall q, in_dims (dims h) q -> cidx (dims hr) c2 (rho_of ax q) = cidx (dims h) c q) ->
    (forall x, class_ok (shape hr) x = true -> pref_rank x < pref_rank c2 ->
               class_ok (shape h) x = true /\ pref_rank x < pref_rank c) ->
    kcanon hr s.
  Proof.
    intros Hw Hwr Htr Hsd Edr [Hc [Hs Hl]] Hcan Hput Hm Hsl Hidx Hcls.
    apply put_ok in Hput as [-> Hb]. rewrite Htr in Hb.
    split.
    - split; [exact Hb|]. split; [intros X; rewrite Hsd; apply Hs, Hsl, X | rewrite Hm; exact Hl].
    - apply (canon_transfer (shape h) (shape hr) (dims h) (dims hr) c c2 vs (rho_of ax)); try assumption.
      + intros q Hq. rewrite Edr. apply rho_in_dims; [apply dims_pos_of_wf; exact Hw | exact Hq].
      + intros q q' x. apply rho_proj.
  Qed.

  Lemma preserving_slices :
    preserving (Some TSlices) = Some [VSlices; GSlices] /\ preserving (Some VSlices) = Some [GSlices].
  Proof. vm_compute. split; reflexivity. Qed.

  (** ** [_copy_sample] along time *)
  Lemma copy_sample_time_canon h hr c vs idx r nS nT nV :
    hdr_wf h -> hdr_wf hr -> hdr_tight hr -> sdim hr = sdim h ->
    dims h = (nS, nT, nV) -> dims hr = (nS, 1, nV) ->
    (forall x, class_ok (shape hr) x = true -> class_ok (shape h) x = true) -> notrail hr ->
    entry_ok h c vs -> c <> GConst -> canon_class (shape h) (dims h) (fden (dims h) c vs) c -> idx < nT ->
    copy_sample_k veqb vnone h hr c vs BTime idx = Ok r -> kcanon hr r.
  Proof.
    intros Hw Hwr Htr Hsd Ed Edr Hmono [Hnt4 Hnt5] Hok Hne Hcan Hidx H. pose proof Hok as [Hc [Hs Hl]].
    pose proof (dims_pos_of_wf h Hw) as Hpos. rewrite Ed in Hpos. destruct Hpos as [HS [HT HV]].
    assert (Edr' : dims hr = rdims (Some 1) (dims h)) by (rewrite Ed; exact Edr).
    rewrite Edr in Hnt4, Hnt5. cbn [fst snd] in Hnt4, Hnt5.
    destruct copy_dests_eq as [_ [_ [Esd _]]]. destruct preserving_slices as [EpT EpV].
    pose proof (class_ok_by_dims hr nS 1 nV Hwr Edr) as Hcases.
    assert (Hcls5 : forall x, base_of x = BVector -> class_ok (shape hr) x = true ->
                    ndim hr = 5 /\ forall y, class_ok (shape hr) y = match base_of y with BTime => false | _ => true end).
    { intros x Hbx Hx. destruct Hcases as [[_ [_ [_ Hcls]]]|[[_ [_ Hcls]]|[Hnd Hcls]]];
        try (rewrite Hcls, Hbx in Hx; discriminate Hx). split; [exact Hnd|]. intros y. rewrite Hcls. reflexivity. }
    unfold copy_sample_k in H. rewrite Ed in Hl.
    destruct c; try contradiction; cbn [is_samples sub_of base_of cbase_eqb cls_eqb negb mult_spec] in *.
    - (* GSlices *)
      apply bind_ok in H as [sub [Hsub H]]. apply bind_ok in H as [s [Hput H]].
      apply put_ok in Hput as [-> Hb]. rewrite Htr in Hb.
      apply (finish_simplify hr GSlices sub r Hwr Htr); [| intros X; discriminate X | exact H].
      split; [exact Hb|]. split; [intros _; rewrite Hsd; apply Hs; reflexivity|]. rewrite Edr. cbn [mult_spec].
      unfold global_slice_subset in Hsub. rewrite (n_slices_dims h Hw (Hs eq_refl)), Ed in Hsub. cbn [fst] in Hsub.
      rewrite class_valid_ok in Hsub.
      destruct (class_ok (shape h) VSamples) eqn:EV; cbn [negb] in Hsub.
      + destruct (shape_at h 3) as [t|] eqn:E3; [|discriminate]. destruct (shape_at h 4) as [v|] eqn:E4; [|discriminate].
        apply shape_at3_dims in E3. apply shape_at4_dims in E4. rewrite Ed in E3, E4. cbn [fst snd] in E3, E4. subst t v.
        injection Hsub as <-. rewrite (flat_map_len_const _ nS); [rewrite seq_length; lia|].
        intros vec Hvec. apply in_seq in Hvec. apply py_slice_len_in. rewrite Hl.
        assert (idx * nS + nS <= nS * nT) by nia. assert (vec * (nS * nT) + nS * nT <= nS * nT * nV) by nia. lia.
      + injection Hsub as <-.
        assert (nV = 1).
        { destruct (class_ok_by_dims h nS nT nV Hw Ed) as [[_ [_ [-> _]]]|[[_ [-> _]]|[_ Hcls]]]; try reflexivity.
          rewrite Hcls in EV. discriminate EV. }
        subst nV. rewrite py_slice_len_in; [lia|]. rewrite Hl. nia.
    - (* TSamples *)
      apply bind_ok in H as [dest [Hdest H]]. apply bind_ok in H as [dm [Hdm H]].
      rewrite Esd in Hdest. cbn [find cls_eqb negb andb] in Hdest. rewrite !class_valid_ok in Hdest.
      destruct (class_ok (shape hr) VSamples) eqn:EV.
      + injection Hdest as <-. destruct (Hcls5 VSamples eq_refl EV) as [Hnd _].
        destruct (mult_of_ok hr VSamples dm Hwr ltac:(intros X; discriminate X) Hdm) as [_ ->]. rewrite Edr in H.
        cbn [mult_spec] in H. destruct (Nat.eqb_spec nV 1) as [->|HnV]; [exfalso; apply (Hnt5 Hnd); reflexivity|].
        destruct (shape_at h 3) as [t|] eqn:E3; [|discriminate].
        apply shape_at3_dims in E3. rewrite Ed in E3. cbn [fst snd] in E3. subst t.
        destruct nT as [|nT']; [lia|]. apply bind_ok in H as [s [Hput H]].
        apply put_ok in Hput as [-> Hb]. rewrite Htr in Hb.
        eapply (finish_simplify hr VSamples _ r Hwr Htr); [| intros X; discriminate X | exact H].
        split; [exact Hb|]. split; [intros X; discriminate X|]. rewrite Edr. cbn [mult_spec].
        apply every_nth_length; [exact Hidx | rewrite Hl; ring].
      + cbn [find] in Hdest. rewrite (class_ok_gconst hr Hwr) in Hdest. injection Hdest as <-.
        destruct (mult_of_ok hr GConst dm Hwr ltac:(intros X; discriminate X) Hdm) as [_ ->]. rewrite Edr in H.
        cbn [mult_spec Nat.eqb] in H. destruct (nth_error vs idx) as [v|]; [|discriminate].
        apply put_ok in H as [-> _]. apply kcanon_gconst; [exact Hwr | reflexivity].
    - (* TSlices *)
      rewrite EpT in H. unfold first_valid in H. cbn [find] in H. rewrite !class_valid_ok in H.
      destruct (class_ok (shape hr) VSlices) eqn:EV.
      + destruct (Hcls5 VSlices eq_refl EV) as [Hnd Hcls].
        apply (put_transfer h hr (Some 1) TSlices VSlices vs r Hw Hwr Htr Hsd Edr' Hok Hcan H).
        * rewrite Edr, Ed. cbn [mult_spec]. lia.
        * reflexivity.
        * intros [[s t] v] _. rewrite Edr, Ed. cbn [rho_of cidx]. lia.
        * intros x Hx Hr. split; [apply Hmono; exact Hx|]. rewrite Hcls in Hx.
          destruct x; cbn [base_of pref_rank] in *; try discriminate; lia.
      + assert (Hg : class_ok (shape hr) GSlices = true).
        { destruct Hcases as [[_ [_ [_ Hcls]]]|[[_ [_ Hcls]]|[_ Hcls]]]; rewrite Hcls; reflexivity. }
        rewrite Hg in H.
        assert (Hnd : ndim hr = 3 /\ nV = 1).
        { destruct Hcases as [[Hnd [_ [-> Hcls]]]|[[Hnd [-> Hcls]]|[Hnd Hcls]]].
          - split; [exact Hnd | reflexivity].
          - exfalso. apply (Hnt4 Hnd). reflexivity.
          - rewrite Hcls in EV. discriminate EV. }
        destruct Hnd as [Hnd ->].
        apply (put_transfer h hr (Some 1) TSlices GSlices vs r Hw Hwr Htr Hsd Edr' Hok Hcan H).
        * rewrite Edr, Ed. cbn [mult_spec]. lia.
        * reflexivity.
        * intros [[s t] v] Hq. rewrite Edr, Ed in *. cbn [in_dims rho_of cidx] in *. nia.
        * intros x Hx Hr. split; [apply Hmono; exact Hx|].
          destruct Hcases as [[_ [_ [_ Hcls]]]|[[Hnd4 _]|[Hnd5 _]]]; try lia.
          rewrite Hcls in Hx. destruct x; cbn [base_of pref_rank] in *; try discriminate; lia.
    - (* VSamples *)
      apply (put_transfer h hr (Some 1) VSamples VSamples vs r Hw Hwr Htr Hsd Edr' Hok Hcan H).
      + rewrite Edr, Ed. reflexivity.
      + intros X; exact X.
      + intros [[s t] v] _. rewrite Edr, Ed. reflexivity.
      + intros x Hx Hr. split; [apply Hmono; exact Hx | exact Hr].
    - (* VSlices *)
      rewrite (n_slices_dims hr Hwr) in H by (rewrite Hsd; apply Hs; reflexivity). rewrite Edr in H. cbn [fst] in H.
      apply bind_ok in H as [s [Hput H]]. apply put_ok in Hput as [-> Hb]. rewrite Htr in Hb.
      destruct (Hcls5 VSlices eq_refl Hb) as [Hnd Hcls].
      eapply (finish_simplify hr VSlices _ r Hwr Htr); [| | exact H].
      + split; [exact Hb|]. split; [intros _; rewrite Hsd; apply Hs; reflexivity|]. rewrite Edr. cbn [mult_spec].
        rewrite py_slice_len_in; [lia|]. rewrite Hl. nia.
      + intros _. left. specialize (Htr TSamples). cbn [base_of has_base] in Htr. rewrite Htr, Hcls. reflexivity.
  Qed.

  (** ** [_copy_sample] along the vector axis *)
  Lemma copy_sample_vector_canon h hr c vs idx r nS nT nV :
    hdr_wf h -> hdr_wf hr -> hdr_tight hr -> sdim hr = sdim h ->
    dims h = (nS, nT, nV) -> dims hr = (nS, nT, 1) ->
    (forall x, class_ok (shape hr) x = true -> class_ok (shape h) x = true) -> notrail hr ->
    entry_ok h c vs -> c <> GConst -> canon_class (shape h) (dims h) (fden (dims h) c vs) c -> idx < nV ->
    copy_sample_k veqb vnone h hr c vs BVector idx = Ok r -> kcanon hr r.
  Proof.
    intros Hw Hwr Htr Hsd Ed Edr Hmono [Hnt4 Hnt5] Hok Hne Hcan Hidx H. pose proof Hok as [Hc [Hs Hl]].
    pose proof (dims_pos_of_wf h Hw) as Hpos. rewrite Ed in Hpos. destruct Hpos as [HS [HT HV]].
    assert (Edr' : dims hr = rdims (Some 2) (dims h)) by (rewrite Ed; exact Edr).
    rewrite Edr in Hnt4, Hnt5. cbn [fst snd] in Hnt4, Hnt5.
    destruct copy_dests_eq as [_ [_ [Esd _]]]. destruct preserving_slices as [EpT EpV].
    pose proof (class_ok_by_dims hr nS nT 1 Hwr Edr) as Hcases.
    (* the result has no vector classes *)
    assert (Hnov : forall x, class_ok (shape hr) x = true -> base_of x <> BVector).
    { intros x Hx Hbx. destruct Hcases as [[_ [_ [_ Hcls]]]|[[_ [_ Hcls]]|[Hnd _]]];
        try (rewrite Hcls, Hbx in Hx; discriminate Hx). apply (Hnt5 Hnd). reflexivity. }
    unfold copy_sample_k in H. rewrite Ed in Hl.
    destruct c; try contradiction; cbn [is_samples sub_of base_of cbase_eqb cls_eqb negb mult_spec] in *.
    - (* GSlices *)
      apply bind_ok in H as [sub [Hsub H]]. apply bind_ok in H as [s [Hput H]].
      apply put_ok in Hput as [-> Hb]. rewrite Htr in Hb.
      apply (finish_simplify hr GSlices sub r Hwr Htr); [| intros X; discriminate X | exact H].
      split; [exact Hb|]. split; [intros _; rewrite Hsd; apply Hs; reflexivity|]. rewrite Edr. cbn [mult_spec].
      unfold global_slice_subset in Hsub. rewrite (n_slices_dims h Hw (Hs eq_refl)), Ed in Hsub. cbn [fst] in Hsub.
      destruct (shape_at h 3) as [t|] eqn:E3; [|discriminate].
      apply shape_at3_dims in E3. rewrite Ed in E3. cbn [fst snd] in E3. subst t.
      injection Hsub as <-. rewrite py_slice_len_in; [lia|]. rewrite Hl. nia.
    - (* TSamples *)
      apply bind_ok in H as [dm [Hdm H]]. apply bind_ok in H as [s [Hput H]].
      destruct (mult_of_ok hr TSamples dm Hwr ltac:(intros X; discriminate X) Hdm) as [Hb ->]. rewrite Edr in *.
      cbn [mult_spec] in *. apply put_ok in Hput as [-> _].
      eapply (finish_simplify hr TSamples _ r Hwr Htr); [| intros X; discriminate X | exact H].
      split; [exact Hb|]. split; [intros X; discriminate X|]. rewrite Edr. cbn [mult_spec].
      rewrite py_slice_len_in; [lia|]. rewrite Hl. nia.
    - (* TSlices *)
      apply (put_transfer h hr (Some 2) TSlices TSlices vs r Hw Hwr Htr Hsd Edr' Hok Hcan H).
      + rewrite Edr, Ed. reflexivity.
      + intros X; exact X.
      + intros [[s t] v] _. rewrite Edr, Ed. reflexivity.
      + intros x Hx Hr. split; [apply Hmono; exact Hx | exact Hr].
    - (* VSamples *)
      apply bind_ok in H as [dest [Hdest H]]. apply bind_ok in H as [dm [Hdm H]].
      rewrite Esd in Hdest. cbn [find cls_eqb negb andb] in Hdest. rewrite !class_valid_ok in Hdest.
      rewrite (class_ok_gconst hr Hwr) in Hdest. injection Hdest as <-.
      destruct (mult_of_ok hr GConst dm Hwr ltac:(intros X; discriminate X) Hdm) as [_ ->]. rewrite Edr in H.
      cbn [mult_spec Nat.eqb] in H. destruct (nth_error vs idx) as [v|]; [|discriminate].
      apply put_ok in H as [-> _]. apply kcanon_gconst; [exact Hwr | reflexivity].
    - (* VSlices *)
      rewrite EpV in H. unfold first_valid in H. cbn [find] in H. rewrite !class_valid_ok in H.
      assert (Hg : class_ok (shape hr) GSlices = true).
      { destruct Hcases as [[_ [_ [_ Hcls]]]|[[_ [_ Hcls]]|[_ Hcls]]]; rewrite Hcls; reflexivity. }
      rewrite Hg in H.
      apply (put_transfer h hr (Some 2) VSlices GSlices vs r Hw Hwr Htr Hsd Edr' Hok Hcan H).
      + rewrite Edr, Ed. cbn [mult_spec]. lia.
      + reflexivity.
      + intros [[s t] v] _. rewrite Edr, Ed. cbn [rho_of cidx]. nia.
      + intros x Hx Hr. split; [apply Hmono; exact Hx|]. pose proof (Hnov x Hx) as Hnx.
        destruct x; cbn [base_of pref_rank] in *; try congruence; lia.
  Qed.

  (** ** one key through [get_subset] *)
  Theorem subset_k_canon h hr dim idx c vs r :
    hdr_wf h -> subset_hdr h dim = Ok hr -> idx < nth dim (shape h) 0 ->
    entry_ok h c vs -> canon_class (shape h) (dims h) (fden (dims h) c vs) c ->
    subset_k veqb vnone h hr dim idx (Some (c, vs)) = Ok r -> kcanon hr r.
  Proof.
    intros Hw Hhr Hidx Hok Hcan H. pose proof Hok as [Hc [Hs Hl]].
    destruct (subset_frame h hr dim Hw Hhr) as [Hwr [Htr [Hsd [Edr [Hmono [Hnt Hdim]]]]]].
    destruct (dims h) as [[nS nT] nV] eqn:Ed.
    pose proof (idx_bound h dim idx nS nT nV Hw Ed Hdim Hidx) as Hib.
    unfold subset_k in H. rewrite (visible_ok h c vs Hc) in H.
    destruct (cls_eqb_spec c GConst) as [->|Hne].
    { apply put_ok in H as [-> _]. apply kcanon_gconst; [exact Hwr|]. rewrite Hl. reflexivity. }
    unfold ax_of in Edr, Hib.
    destruct (odim_is (sdim h) dim) eqn:Eod.
    - (* along the slice axis *)
      cbn [rdims] in Edr.
      destruct (is_slices c) eqn:Esl; cbn [negb] in H.
      + apply (copy_slice_canon h hr c vs idx r nS nT nV Hw Hwr Htr Hsd Ed Edr Hok Esl Hib H).
      + assert (Edr' : dims hr = rdims (Some 0) (dims h)) by (rewrite Ed; exact Edr).
        apply (put_transfer h hr (Some 0) c c vs r Hw Hwr Htr Hsd Edr' Hok); try assumption.
        * rewrite Ed. exact Hcan.
        * rewrite Edr, Ed. destruct c; try discriminate Esl; reflexivity.
        * intros X; exact X.
        * intros [[s t] v] _. rewrite Edr, Ed. destruct c; try discriminate Esl; reflexivity.
        * intros x Hx Hr. split; [apply Hmono; exact Hx | exact Hr].
    - destruct (dim <? 3) eqn:E3.
      + (* non-slice spatial axis: nothing changes *)
        cbn [rdims] in Edr.
        assert (Edr' : dims hr = rdims None (dims h)) by (rewrite Ed; exact Edr).
        apply (put_transfer h hr None c c vs r Hw Hwr Htr Hsd Edr' Hok); try assumption.
        * rewrite Ed. exact Hcan.
        * rewrite Edr, Ed. reflexivity.
        * intros X; exact X.
        * intros [[s t] v] _. rewrite Edr, Ed. reflexivity.
        * intros x Hx Hr. split; [apply Hmono; exact Hx | exact Hr].
      + destruct (dim =? 3) eqn:E4; cbn [rdims] in Edr.
        * apply (copy_sample_time_canon h hr c vs idx r nS nT nV Hw Hwr Htr Hsd Ed Edr Hmono Hnt Hok Hne); try assumption.
          rewrite Ed. exact Hcan.
        * apply (copy_sample_vector_canon h hr c vs idx r nS nT nV Hw Hwr Htr Hsd Ed Edr Hmono Hnt Hok Hne); try assumption.
          rewrite Ed. exact Hcan.
  Qed.

  (** * Whole extensions *)

  (** every key sits at the canonical class of what it denotes (keys that are None everywhere may be present,
      necessarily as a global constant) *)
  Definition canonical_mod_none (e : ext V) : Prop :=
    valid e /\
    forall k c vs, In (k, (c, vs)) (entries e) ->
      canon_class (shape (hdr_of e)) (dims (hdr_of e)) (den vnone e k) c.

  Lemma canonical_canonical_mod_none e : canonical vnone e -> canonical_mod_none e.
  Proof. intros [Hv H]. split; [exact Hv|]. intros k c vs Hin. apply (H k c vs Hin). Qed.

  Lemma canon_class_ext sh d (f g : pos -> V) c :
    (forall p, in_dims d p -> f p = g p) -> canon_class sh d f c -> canon_class sh d g c.
  Proof.
    intros E [H1 [H2 H3]]. split; [exact H1|]. split; [eapply representable_ext; eauto|].
    intros c' Hc' Hr. apply H3; [exact Hc'|]. eapply representable_ext; [|exact Hr].
    intros p Hp. symmetry. apply E. exact Hp.
  Qed.

  Lemma den_fden (e : ext V) k c vs p :
    lookup_e e k = Some (c, vs) -> class_ok (shape (hdr_of e)) c = true ->
    den vnone e k p = fden (dims (hdr_of e)) c vs p.
  Proof. intros Hl Hc. unfold den. rewrite Hl, Hc. reflexivity. Qed.

  Theorem subset_canonical_mod_none e dim idx r :
    canonical_mod_none e -> idx < nth dim (shape (hdr_of e)) 0 ->
    get_subset veqb vnone e dim idx = Ok r -> canonical_mod_none r.
  Proof.
    intros [Hv Hcan] Hidx H. pose proof Hv as [Hw [Hnd Hent]].
    unfold get_subset in H. apply bind_ok in H as [hr [Hhr H]]. apply bind_ok in H as [u [_ H]].
    apply bind_ok in H as [ents [Hents H]]. injection H as <-.
    destruct (subset_frame _ hr dim Hw Hhr) as [Hwr _].
    assert (Hndr : NoDup (map fst ents)).
    { eapply map_keys_NoDup; [exact Hents | apply dedup_keys_NoDup]. }
    assert (Hkey : forall k c vs, In (k, (c, vs)) ents -> kcanon hr (Some (c, vs))).
    { intros k c vs Hin. destruct (map_keys_In _ _ _ _ _ Hents Hin) as [_ Hk].
      destruct (lookup_e e k) as [[c0 vs0]|] eqn:El.
      - pose proof (lookup_In _ _ _ El) as Hin0. destruct (Hent _ _ _ Hin0) as [Hc0 [Hs0 Hl0]].
        apply (subset_k_canon (hdr_of e) hr dim idx c0 vs0 _ Hw Hhr Hidx); [split; [|split]; assumption | | exact Hk].
        eapply canon_class_ext; [|apply (Hcan _ _ _ Hin0)].
        intros p _. apply den_fden; assumption.
      - unfold subset_k, visible in Hk. discriminate Hk. }
    split.
    - split; [exact Hwr|]. split; [exact Hndr|]. intros k c vs Hin. apply (Hkey k c vs Hin).
    - intros k c vs Hin. cbn [hdr_of]. destruct (Hkey k c vs Hin) as [[Hc _] Hcc].
      eapply canon_class_ext; [|exact Hcc]. intros p _. symmetry. apply den_fden; [|exact Hc].
      apply In_lookup; [exact Hndr | exact Hin].
  Qed.
End WithV.

(** * The literal [Spec.canonical] is not closed: a key that is None on the selected slice stays, as a
      global constant None (value 0 plays None here) *)
Definition ex_e : ext nat :=
  mk_ext (mk_hdr [1; 1; 2; 2] (Some 2) ex_aff true false) [([107]%N, (GSlices, [0; 1; 0; 2]))].

Lemma ex_e_canonical : canonical 0 ex_e.
Proof.
  assert (Hv : valid ex_e) by (apply validb_valid; vm_compute; reflexivity).
  split; [exact Hv|]. intros k c vs [Hin|[]]. injection Hin as <- <- <-. split.
  - split; [reflexivity|]. split.
    + intros p q _ _ E. unfold den. cbn. cbn in E. rewrite E. reflexivity.
    + intros c' Hc' Hr. destruct c'; try discriminate Hc'; cbn [pref_rank]; try lia; exfalso.
      * specialize (Hr (0, 0, 0) (1, 0, 0) ltac:(cbn; lia) ltac:(cbn; lia) eq_refl). vm_compute in Hr. discriminate Hr.
      * specialize (Hr (0, 0, 0) (1, 0, 0) ltac:(cbn; lia) ltac:(cbn; lia) eq_refl). vm_compute in Hr. discriminate Hr.
      * specialize (Hr (1, 0, 0) (1, 1, 0) ltac:(cbn; lia) ltac:(cbn; lia) eq_refl). vm_compute in Hr. discriminate Hr.
  - exists (1, 0, 0). split; [cbn; lia|]. vm_compute. discriminate.
Qed.

Theorem subset_canonical_refuted :
  exists (e r : ext nat) dim idx,
    canonical 0 e /\ nondegenerate e /\ idx < nth dim (shape (hdr_of e)) 0 /\
    get_subset Nat.eqb 0 e dim idx = Ok r /\ ~ canonical 0 r.
Proof.
  exists ex_e. eexists. exists 2, 0. split; [exact ex_e_canonical|]. split.
  { apply nondegenerateb_nondegenerate; [apply validb_valid|]; vm_compute; reflexivity. }
  split; [cbn; lia|]. split; [vm_compute; reflexivity|].
  intros [_ H]. destruct (H _ _ _ (or_introl eq_refl)) as [_ [[[s t] v] [_ Hp]]]. apply Hp. reflexivity.
Qed.

(** non-vacuity of [subset_canonical_mod_none]: the same extension, split along time *)
Example subset_canonical_mod_none_example :
  exists r, get_subset Nat.eqb 0 ex_e 3 1 = Ok r /\ entries r = [([107]%N, (GSlices, [0; 2]))] /\
            canonical_mod_none 0 ex_e /\ 1 < nth 3 (shape (hdr_of ex_e)) 0.
Proof.
  eexists. split; [vm_compute; reflexivity|]. split; [reflexivity|].
  split; [apply canonical_canonical_mod_none, ex_e_canonical | cbn; lia].
Qed.
