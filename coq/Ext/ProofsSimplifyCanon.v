(** C06, part 2b: [_simplify] (Model.simplify_k) lands on the class of least preference rank that can
    represent the values, keeps the denotation, and produces a well-formed entry.

    Reachability: [reach c] = [_const_tests[c]] then [_repeat_tests[c]] then [c] itself.  From
    ('global','slices') every class is reachable; from ('vector','slices'): const, time samples, time slices;
    from ('time','samples'): const, vector samples; from the others: const.  [reach_complete] shows that the
    classes NOT reachable from [c] can represent a function stored in [c] only when a reachable class of lower
    rank can as well, so the result is the canonical class whatever the starting class.

    One pair of the tables is wrong about the VALUES it keeps: ('vector','slices') -> ('time','samples')
    keeps [values[::n_slices]] (T entries) where the destination needs T*V ([simplify_vslices_tsamples_refuted]);
    no public operation reaches it (get_subset simplifies such keys only when the result has no time axis). *)
From Coq Require Import List Bool Arith QArith Lia.
From DV Require Import Common.Res Common.Str Ext.Types Ext.Classes Ext.Seq Ext.Model Ext.Spec Ext.TableFacts
     Ext.ValidFacts Ext.ProofsSimplifySeq Ext.ProofsSimplifyLayout.
Import ListNotations.
Local Open Scope nat_scope.

(** * Facts about the generated tables (re-checked whenever dcmmeta.py changes) *)
Definition dests_of (o : option (list cls)) : list cls := match o with Some l => l | None => [] end.
Definition reach (c : cls) : list cls := dests_of (const_dests c) ++ dests_of (repeat_dests c) ++ [c].

Definition lt_all (a : cls) (l : list cls) : bool := forallb (fun x => pref_rank a <? pref_rank x) l.
Fixpoint ssorted (l : list cls) : bool := match l with [] => true | a :: r => lt_all a r && ssorted r end.

(** the tests are tried in strictly increasing preference rank and end below the source class *)
Lemma reach_sorted : forallb (fun c => ssorted (reach c)) all_classes = true.
Proof. vm_compute. reflexivity. Qed.

Lemma reach_eq :
  map reach all_classes =
  [[GConst]; [GConst; VSamples; TSamples; TSlices; VSlices; GSlices]; [GConst; VSamples; TSamples];
   [GConst; TSlices]; [GConst; VSamples]; [GConst; TSamples; TSlices; VSlices]].
Proof. vm_compute. reflexivity. Qed.

(** from ('global','slices') every class is reachable *)
Lemma reach_gslices_all c : In c (reach GSlices).
Proof. destruct c; vm_compute; tauto. Qed.

Inductive ktag := TagAll | TagConst | TagRepeat.
Definition kind_tag (src dest : cls) : option ktag :=
  match src, dest with
  | GConst, _ => None
  | _, GConst => Some TagAll
  | GSlices, VSamples | GSlices, TSamples | TSamples, VSamples | VSlices, TSamples => Some TagConst
  | GSlices, TSlices | GSlices, VSlices | VSlices, TSlices => Some TagRepeat
  | _, _ => None
  end.
Definition is_const_tag (o : option ktag) : bool := match o with Some TagAll | Some TagConst => true | _ => false end.
Definition is_repeat_tag (o : option ktag) : bool := match o with Some TagRepeat => true | _ => false end.

(** every entry of [_const_tests] / [_repeat_tests] is one of the pairs the proofs know *)
Lemma tables_known_pairs :
  forallb (fun c => forallb (fun d => is_const_tag (kind_tag c d)) (dests_of (const_dests c))
                    && forallb (fun d => is_repeat_tag (kind_tag c d)) (dests_of (repeat_dests c))
                    && (cls_eqb c GConst || match const_dests c with Some _ => true | None => false end))
          all_classes = true.
Proof. vm_compute. reflexivity. Qed.

Lemma const_dests_known c d : In d (dests_of (const_dests c)) -> is_const_tag (kind_tag c d) = true.
Proof.
  pose proof tables_known_pairs as H. rewrite forallb_forall in H. specialize (H c (all_classes_complete c)).
  apply andb_true_iff in H as [H _]. apply andb_true_iff in H as [H _]. rewrite forallb_forall in H. apply H.
Qed.

Lemma repeat_dests_known c d : In d (dests_of (repeat_dests c)) -> is_repeat_tag (kind_tag c d) = true.
Proof.
  pose proof tables_known_pairs as H. rewrite forallb_forall in H. specialize (H c (all_classes_complete c)).
  apply andb_true_iff in H as [H _]. apply andb_true_iff in H as [_ H]. rewrite forallb_forall in H. apply H.
Qed.

Lemma const_dests_some c : c <> GConst -> exists l, const_dests c = Some l.
Proof.
  intros Hc. pose proof tables_known_pairs as H. rewrite forallb_forall in H. specialize (H c (all_classes_complete c)).
  apply andb_true_iff in H as [_ H]. destruct (cls_eqb_spec c GConst); [contradiction|]. cbn [orb] in H.
  destruct (const_dests c); [eauto | discriminate].
Qed.

Lemma test_of_tag d src dest :
  match kind_tag src dest with
  | Some TagAll => test_of d src dest = Some KAll
  | Some TagConst => exists P, test_of d src dest = Some (KConst P)
  | Some TagRepeat => exists P, test_of d src dest = Some (KRepeat P)
  | None => True
  end.
Proof. destruct d as [[nS nT] nV]. destruct src, dest; cbn [kind_tag test_of]; eauto. Qed.

Lemma ssorted_after (l1 : list cls) d l2 x : ssorted (l1 ++ d :: l2) = true -> In x l2 -> pref_rank d < pref_rank x.
Proof.
  induction l1 as [|a l1 IH]; cbn [app ssorted]; rewrite andb_true_iff; intros [H1 H2] Hx.
  - unfold lt_all in H1. rewrite forallb_forall in H1. apply Nat.ltb_lt. apply H1. exact Hx.
  - apply IH; assumption.
Qed.

(** * "first element of the list that satisfies R" *)
Definition pick_spec (R : cls -> Prop) (l : list cls) (r : option cls) : Prop :=
  match r with
  | Some d => exists l1 l2, l = l1 ++ d :: l2 /\ R d /\ forall x, In x l1 -> ~ R x
  | None => forall x, In x l -> ~ R x
  end.

Lemma pick_skip (R : cls -> Prop) d l r : ~ R d -> pick_spec R l r -> pick_spec R (d :: l) r.
Proof.
  intros Hn. destruct r as [x|]; cbn [pick_spec].
  - intros [l1 [l2 [-> [Hx Hb]]]]. exists (d :: l1), l2. split; [reflexivity|]. split; [exact Hx|].
    intros y [<-|Hy]; [exact Hn | apply Hb; exact Hy].
  - intros H y [<-|Hy]; [exact Hn | apply H; exact Hy].
Qed.

Lemma pick_hit (R : cls -> Prop) d l : R d -> pick_spec R (d :: l) (Some d).
Proof. intros H. exists [], l. split; [reflexivity|]. split; [exact H|]. intros x []. Qed.

Lemma pick_app_none (R : cls -> Prop) l1 l2 r : pick_spec R l1 None -> pick_spec R l2 r -> pick_spec R (l1 ++ l2) r.
Proof.
  intros H1. induction l1 as [|a l1 IH]; [auto|]. intros H2. cbn [app]. apply pick_skip.
  - apply H1. left; reflexivity.
  - apply IH; [|exact H2]. intros x Hx. apply H1. right; exact Hx.
Qed.

Lemma pick_app_some (R : cls -> Prop) l1 l2 d : pick_spec R l1 (Some d) -> pick_spec R (l1 ++ l2) (Some d).
Proof.
  intros [a [b [-> [Hd Hb]]]]. exists a, (b ++ l2). split; [rewrite <- app_assoc; reflexivity|]. split; assumption.
Qed.

Lemma pick_least (R : cls -> Prop) l d :
  ssorted l = true -> pick_spec R l (Some d) -> forall x, In x l -> R x -> pref_rank d <= pref_rank x.
Proof.
  intros Hs [l1 [l2 [-> [Hd Hb]]]] x Hx Rx. apply in_app_or in Hx as [Hx|[<-|Hx]].
  - exfalso. exact (Hb x Hx Rx).
  - lia.
  - pose proof (ssorted_after _ _ _ _ Hs Hx). lia.
Qed.

(** * Headers *)
(** the base dictionaries present are exactly those of the admitted classes (true of everything [make_empty] builds) *)
Definition hdr_tight (h : hdr) : Prop := forall c, has_base h (base_of c) = class_ok (shape h) c.

Lemma make_empty_hdr_tight sh a sd h : make_empty_hdr sh a sd = Ok h -> hdr_tight h.
Proof.
  unfold make_empty_hdr. intros H.
  destruct (negb ((3 <=? length sh) && (length sh <? 6))) eqn:E1; [discriminate|].
  destruct (negb _) in H; [discriminate|]. destruct (negb _) in H; [discriminate|]. injection H as <-.
  apply negb_false_iff, andb_true_iff in E1 as [H3 H6]. apply Nat.leb_le in H3. apply Nat.ltb_lt in H6.
  intros c. unfold class_ok. cbn [shape has_base has_time has_vec].
  destruct (length sh) as [|[|[|[|[|[|n]]]]]] eqn:El; try lia; destruct c; cbn [base_of]; reflexivity.
Qed.

Lemma dims_pos_of_wf (h : hdr) : hdr_wf h -> dims_pos (dims h).
Proof.
  intros [_ [Hall _]]. rewrite Forall_forall in Hall.
  assert (Hn : forall i, 1 <= nth i (shape h) 1).
  { intros i. destruct (Nat.lt_ge_cases i (length (shape h))) as [Hi|Hi].
    - apply Hall. apply nth_In. exact Hi.
    - rewrite nth_overflow by exact Hi. lia. }
  unfold dims, dims_pos. destruct (sdim h); repeat split; auto.
Qed.

Section WithV.
  Context {V : Type} (veqb : V -> V -> bool) (vnone : V).
  Hypothesis veqb_spec : forall a b, reflect (a = b) (veqb a b).

  Notation fden := (fden vnone).

  (** a stored entry obeys the format rules *)
  Definition entry_ok (h : hdr) (c : cls) (vs : list V) : Prop :=
    class_ok (shape h) c = true /\ (is_slices c = true -> sdim h <> None) /\ length vs = mult_spec (dims h) c.

  (** [d] can be tried ([d[0] in self._content]) and represents the values stored as [(c, vs)] *)
  Definition reprs (h : hdr) (c : cls) (vs : list V) (d : cls) : Prop :=
    has_base h (base_of d) = true /\ representable (dims h) d (fden (dims h) c vs).

  (** the only entry of the tables whose extraction is wrong is kept out *)
  Definition simplify_dom (h : hdr) (c : cls) : Prop := c = VSlices -> has_time h = false \/ snd (dims h) = 1.

  Lemma sdim_lt3 h c : hdr_wf h -> (is_slices c = true -> sdim h <> None) ->
    is_slices c = true -> exists d, sdim h = Some d /\ d < 3.
  Proof.
    intros [_ [_ [Hsd _]]] Hs Hc. specialize (Hs Hc). destruct (sdim h) as [d|] eqn:E; [|congruence].
    exists d. split; [reflexivity | apply Hsd; reflexivity].
  Qed.

  Lemma mult_ok h c : hdr_wf h -> class_ok (shape h) c = true -> (is_slices c = true -> sdim h <> None) ->
    multiplicity h c = Ok (mult_spec (dims h) c).
  Proof. intros Hw Hc Hs. apply multiplicity_ok; [apply Hw | exact Hc | apply sdim_lt3; assumption]. Qed.

  Lemma mult_spec_pos d c : dims_pos d -> 1 <= mult_spec d c.
  Proof. destruct d as [[nS nT] nV]. cbn [dims_pos]. intros [? [? ?]]. destruct c; cbn [mult_spec]; nia. Qed.

  Lemma n_slices_dims h : hdr_wf h -> sdim h <> None -> n_slices h = Some (fst (fst (dims h))).
  Proof.
    intros [Hn [_ [Hsd _]]] Hne. unfold n_slices, dims. destruct (sdim h) as [d|] eqn:E; [|congruence].
    cbn [fst]. f_equal. apply nth_indep. specialize (Hsd d eq_refl). unfold ndim in Hn. lia.
  Qed.

  Lemma shape_at3_dims h t : shape_at h 3 = Some t -> snd (fst (dims h)) = t.
  Proof. unfold shape_at, dims. intros H. cbn [fst snd]. apply (nth_error_nth _ _ 1) in H. exact H. Qed.

  (** ** [_get_const_period] computes the period of the test *)
  Lemma const_period_ok h c d per :
    hdr_wf h -> class_ok (shape h) c = true -> class_ok (shape h) d = true ->
    (is_slices c = true -> sdim h <> None) ->
    is_const_tag (kind_tag c d) = true ->
    const_period h c d = Ok per ->
    test_of (dims h) c d = Some (match per with None => KAll | Some P => KConst P end).
  Proof.
    intros Hw Hc Hd Hs Htag Hper. pose proof (dims_pos_of_wf h Hw) as Hpos.
    destruct (dims h) as [[nS nT] nV] eqn:Ed. cbn [dims_pos] in Hpos. destruct Hpos as [HS [HT HV]].
    destruct c, d; cbn [kind_tag is_const_tag] in Htag; try discriminate; cbn [const_period] in Hper;
      try (injection Hper as <-; reflexivity).
    - (* GSlices -> TSamples *)
      rewrite !mult_ok in Hper by (assumption || (intros X; discriminate X)). rewrite Ed in Hper.
      cbn [mult_spec bind] in Hper.
      destruct (nT * nV =? 0) eqn:E0; [apply Nat.eqb_eq in E0; nia|]. injection Hper as <-. cbn [test_of].
      do 2 f_equal. rewrite <- Nat.mul_assoc. symmetry. apply Nat.div_mul. nia.
    - (* GSlices -> VSamples *)
      rewrite !mult_ok in Hper by (assumption || (intros X; discriminate X)). rewrite Ed in Hper.
      cbn [mult_spec bind] in Hper.
      destruct (nV =? 0) eqn:E0; [apply Nat.eqb_eq in E0; nia|]. injection Hper as <-. cbn [test_of].
      do 2 f_equal. symmetry. apply Nat.div_mul. lia.
    - (* TSamples -> VSamples *)
      destruct (shape_at h 3) as [t|] eqn:E3; [|discriminate]. injection Hper as <-.
      apply shape_at3_dims in E3. rewrite Ed in E3. cbn [fst snd] in E3. subst t. reflexivity.
    - (* VSlices -> TSamples *)
      injection Hper as <-. rewrite (n_slices_dims h Hw (Hs eq_refl)). rewrite Ed. reflexivity.
  Qed.

  Lemma hd_res_nth (l : list V) v : hd_res l = Ok v -> nth 0 l vnone = v.
  Proof. destruct l; cbn [hd_res]; [discriminate|]. intros H; injection H as <-. reflexivity. Qed.

  (** ** the loop over [_const_tests[c]] *)
  Lemma simplify_const_spec h c vs ds r :
    hdr_wf h -> hdr_tight h -> entry_ok h c vs -> simplify_dom h c ->
    (forall d, In d ds -> is_const_tag (kind_tag c d) = true) ->
    simplify_const veqb h c vs ds = Ok r ->
    pick_spec (reprs h c vs) ds (option_map fst r) /\
    forall d nv, r = Some (d, nv) ->
      entry_ok h d nv /\ forall p, in_dims (dims h) p -> fden (dims h) d nv p = fden (dims h) c vs p.
  Proof.
    intros Hw Ht [Hc [Hs Hl]] Hdom. pose proof (dims_pos_of_wf h Hw) as Hpos.
    revert r. induction ds as [|d ds IH]; intros r Htags H.
    - cbn [simplify_const] in H. injection H as <-. split; [intros x []|]. intros d nv Hx; discriminate Hx.
    - cbn [simplify_const] in H.
      assert (Htags' : forall x, In x ds -> is_const_tag (kind_tag c x) = true) by (intros x Hx; apply Htags; right; exact Hx).
      destruct (has_base h (base_of d)) eqn:Hb.
      2:{ destruct (IH r Htags' H) as [Hp Hr]. split; [|exact Hr].
          apply pick_skip; [|exact Hp]. intros [Hb' _]. congruence. }
      assert (Hd : class_ok (shape h) d = true) by (rewrite <- Ht; exact Hb).
      apply bind_ok in H as [per [Hper H]]. apply bind_ok in H as [isc [Hisc H]].
      pose proof (const_period_ok h c d per Hw Hc Hd Hs (Htags d (or_introl eq_refl)) Hper) as Htest.
      (* the verdict is exactly representability *)
      assert (Hiff : isc = true <-> representable (dims h) d (fden (dims h) c vs)).
      { rewrite (test_reads_representable vnone (dims h) c d _ vs Hpos Htest Hl).
        destruct per as [[|[|P]]|]; cbn [krel].
        - destruct (is_constant_ok veqb veqb_spec vs 0 isc vnone Hisc) as [H0 _]. lia.
        - injection Hisc as <-. split; [|reflexivity]. intros _ i j _ _ E. rewrite !Nat.div_1_r in E. subst. reflexivity.
        - destruct (is_constant_ok veqb veqb_spec vs _ isc vnone Hisc) as [_ [_ Hx]]. exact Hx.
        - rewrite (is_constant_none_ok veqb veqb_spec vs isc vnone Hisc). unfold all_equal. split.
          + intros Hx i j Hi Hj _. apply Hx; assumption.
          + intros Hx i j Hi Hj. apply Hx; auto. }
      destruct isc.
      + (* hit *)
        assert (Hrep : representable (dims h) d (fden (dims h) c vs)) by (apply Hiff; reflexivity).
        assert (Hx : extract_ok (dims h) c d).
        { unfold extract_ok. destruct c; try exact I. destruct d; try exact I.
          destruct (Hdom eq_refl) as [Hf|Hv]; [|exact Hv]. cbn [base_of has_base] in Hb. congruence. }
        pose proof (pair_len (dims h) c d _ Hpos Htest Hx) as Hlen.
        assert (Hnsl : is_slices d = false).
        { pose proof (Htags d (or_introl eq_refl)) as Hg. destruct c, d; cbn [kind_tag is_const_tag] in Hg; try discriminate; reflexivity. }
        assert (Hgood : forall nv, r = Some (d, nv) -> length nv = mult_spec (dims h) d ->
                  (forall n, n < mult_spec (dims h) d -> nth n nv vnone =
                      nth (krep (match per with None => KAll | Some P => KConst P end) n) vs vnone) ->
                  pick_spec (reprs h c vs) (d :: ds) (option_map fst r) /\
                  forall d' nv', r = Some (d', nv') ->
                    entry_ok h d' nv' /\ forall p, in_dims (dims h) p -> fden (dims h) d' nv' p = fden (dims h) c vs p).
        { intros nv -> Hlnv Hnth. split; [apply pick_hit; split; assumption|].
          intros d' nv' E. injection E as <- <-. split.
          - split; [exact Hd|]. split; [intros X; congruence | exact Hlnv].
          - apply (extract_same_den vnone (dims h) c d _ vs nv Hpos Htest Hx Hl Hnth Hrep). }
        destruct per as [P|].
        * injection H as <-. cbn [pair_len] in Hlen. destruct Hlen as [HP Hm]. apply (Hgood (every_nth 0 P vs) eq_refl).
          -- apply every_nth_length; [lia | lia].
          -- intros n _. cbn [krep]. rewrite every_nth_nth by exact HP. reflexivity.
        * apply bind_ok in H as [v [Hv H]]. injection H as <-. apply (Hgood [v] eq_refl).
          -- rewrite Hlen. reflexivity.
          -- intros n Hn. rewrite Hlen in Hn. assert (n = 0) by lia. subst n. cbn [krep nth].
             symmetry. apply hd_res_nth. exact Hv.
      + (* miss *)
        destruct (IH r Htags' H) as [Hp Hr]. split; [|exact Hr].
        apply pick_skip; [|exact Hp]. intros [_ Hrep]. apply Hiff in Hrep. discriminate.
  Qed.

  (** ** the loop over [_repeat_tests[c]] *)
  Lemma simplify_repeat_spec h c vs ds r :
    hdr_wf h -> hdr_tight h -> entry_ok h c vs ->
    (forall d, In d ds -> is_repeat_tag (kind_tag c d) = true) ->
    simplify_repeat veqb h vs ds = Ok r ->
    pick_spec (reprs h c vs) ds (option_map fst r) /\
    forall d nv, r = Some (d, nv) ->
      entry_ok h d nv /\ forall p, in_dims (dims h) p -> fden (dims h) d nv p = fden (dims h) c vs p.
  Proof.
    intros Hw Ht [Hc [Hs Hl]]. pose proof (dims_pos_of_wf h Hw) as Hpos.
    revert r. induction ds as [|d ds IH]; intros r Htags H.
    - cbn [simplify_repeat] in H. injection H as <-. split; [intros x []|]. intros d nv Hx; discriminate Hx.
    - cbn [simplify_repeat] in H.
      assert (Htags' : forall x, In x ds -> is_repeat_tag (kind_tag c x) = true) by (intros x Hx; apply Htags; right; exact Hx).
      destruct (has_base h (base_of d)) eqn:Hb.
      2:{ destruct (IH r Htags' H) as [Hp Hr]. split; [|exact Hr].
          apply pick_skip; [|exact Hp]. intros [Hb' _]. congruence. }
      assert (Hd : class_ok (shape h) d = true) by (rewrite <- Ht; exact Hb).
      pose proof (Htags d (or_introl eq_refl)) as Htag.
      assert (Hcs : is_slices c = true /\ is_slices d = true).
      { destruct c, d; cbn [kind_tag is_repeat_tag] in Htag; try discriminate; split; reflexivity. }
      destruct Hcs as [Hcs Hds].
      assert (Hsd : is_slices d = true -> sdim h <> None) by (intros _; apply Hs; exact Hcs).
      rewrite (mult_ok h d Hw Hd Hsd) in H. cbn [bind] in H.
      apply bind_ok in H as [rep [Hrep H]].
      assert (Htest : test_of (dims h) c d = Some (KRepeat (mult_spec (dims h) d))).
      { pose proof (test_of_tag (dims h) c d) as Hx.
        destruct (kind_tag c d) as [[| |]|]; try discriminate Htag. destruct Hx as [P HP].
        pose proof (pair_len (dims h) c d _ Hpos HP) as Hlen.
        assert (Hxo : extract_ok (dims h) c d) by (destruct c, d; try exact I; discriminate Hds).
        destruct (Hlen Hxo) as [-> _]. exact HP. }
      destruct (is_repeating_ok veqb veqb_spec vs _ rep vnone Hrep) as [H2 [Hlt [_ Hiff0]]].
      assert (Hiff : rep = true <-> representable (dims h) d (fden (dims h) c vs)).
      { rewrite (test_reads_representable vnone (dims h) c d _ vs Hpos Htest Hl). cbn [krel]. exact Hiff0. }
      destruct rep.
      + injection H as <-. cbv beta iota delta [option_map fst].
        assert (Hr : representable (dims h) d (fden (dims h) c vs)) by (apply Hiff; reflexivity).
        split; [apply pick_hit; split; assumption|].
        intros d' nv' E. injection E as <- <-. split.
        * split; [exact Hd|]. split; [exact Hsd|]. rewrite firstn_length.
          change (Nat.min (mult_spec (dims h) d) (length vs) = mult_spec (dims h) d). lia.
        * assert (Hxo : extract_ok (dims h) c d) by (destruct c, d; try exact I; discriminate Hds).
          apply (extract_same_den vnone (dims h) c d _ vs _ Hpos Htest Hxo Hl); [|exact Hr].
          intros n Hn. cbn [krep]. apply nth_firstn_c. exact Hn.
      + destruct (IH r Htags' H) as [Hp Hr]. split; [|exact Hr].
        apply pick_skip; [|exact Hp]. intros [_ Hx]. apply Hiff in Hx. discriminate.
  Qed.

  Lemma visible_ok h c (vs : list V) : class_ok (shape h) c = true -> visible h (Some (c, vs)) = Some (c, vs).
  Proof. intros H. unfold visible. rewrite class_valid_ok, H. reflexivity. Qed.

  (** ** [_simplify] of a constant: deleted when None, untouched otherwise *)
  Lemma simplify_gconst h (vs : list V) :
    class_ok (shape h) GConst = true ->
    simplify_k veqb vnone h (Some (GConst, vs)) =
    Ok (match vs with [v] => if veqb v vnone then None else Some (GConst, vs) | _ => Some (GConst, vs) end).
  Proof.
    intros Hc. unfold simplify_k. rewrite (visible_ok h GConst vs Hc).
    destruct vs as [|v [|w r]]; try reflexivity. destruct (veqb v vnone); reflexivity.
  Qed.

  (** ** [_simplify] of a varying entry *)
  Theorem simplify_spec h c vs r :
    hdr_wf h -> hdr_tight h -> entry_ok h c vs -> c <> GConst -> simplify_dom h c ->
    simplify_k veqb vnone h (Some (c, vs)) = Ok r ->
    exists c' vs', r = Some (c', vs') /\ entry_ok h c' vs' /\
      (forall p, in_dims (dims h) p -> fden (dims h) c' vs' p = fden (dims h) c vs p) /\
      pick_spec (reprs h c vs) (reach c) (Some c') /\ (c' = c -> vs' = vs).
  Proof.
    intros Hw Ht Hok Hne Hdom H. pose proof Hok as [Hc [Hs Hl]].
    assert (Hself : reprs h c vs c).
    { split; [rewrite Ht; exact Hc | apply representable_self]. }
    assert (Hstay : pick_spec (reprs h c vs) (dests_of (const_dests c)) None ->
                    pick_spec (reprs h c vs) (dests_of (repeat_dests c)) None ->
                    pick_spec (reprs h c vs) (reach c) (Some c)).
    { intros H1 H2. unfold reach. apply pick_app_none; [exact H1|]. apply pick_app_none; [exact H2|].
      apply pick_hit. exact Hself. }
    assert (Hnotin : forall l, ssorted (l ++ [c]) = true -> ~ In c l).
    { intros l Hsrt Hin. apply in_split in Hin as [l1 [l2 ->]]. rewrite <- app_assoc in Hsrt. cbn [app] in Hsrt.
      pose proof (ssorted_after l1 c (l2 ++ [c]) c Hsrt ltac:(apply in_or_app; right; left; reflexivity)). lia. }
    assert (Hsorted : ssorted (reach c) = true).
    { pose proof reach_sorted as Hx. rewrite forallb_forall in Hx. apply Hx. apply all_classes_complete. }
    unfold simplify_k in H. rewrite (visible_ok h c vs Hc) in H.
    destruct (const_dests_some c Hne) as [cd Hcd].
    assert (H' : (do r0 <- simplify_const veqb h c vs cd;
                  match r0 with
                  | Some x => Ok (Some x)
                  | None => match repeat_dests c with
                            | None => Ok (Some (c, vs))
                            | Some rd => do r2 <- simplify_repeat veqb h vs rd;
                                         match r2 with Some x => Ok (Some x) | None => Ok (Some (c, vs)) end
                            end
                  end)%res = Ok r).
    { destruct c; try contradiction; rewrite Hcd in H; exact H. }
    clear H. apply bind_ok in H' as [r0 [H0 H]].
    assert (Hctags : forall d, In d cd -> is_const_tag (kind_tag c d) = true).
    { intros d Hd. apply const_dests_known. rewrite Hcd. exact Hd. }
    destruct (simplify_const_spec h c vs cd r0 Hw Ht Hok Hdom Hctags H0) as [Hp0 Hg0].
    assert (Ecd : dests_of (const_dests c) = cd) by (rewrite Hcd; reflexivity).
    destruct r0 as [[c' vs']|].
    - injection H as <-. destruct (Hg0 c' vs' eq_refl) as [Hok' Hden].
      exists c', vs'. split; [reflexivity|]. split; [exact Hok'|]. split; [exact Hden|]. split.
      + unfold reach. rewrite Ecd. apply pick_app_some. exact Hp0.
      + intros ->. exfalso. cbn [option_map fst] in Hp0. destruct Hp0 as [l1 [l2 [E _]]].
        unfold reach in Hsorted. rewrite Ecd, E in Hsorted. rewrite app_assoc in Hsorted.
        apply (Hnotin _ Hsorted). apply in_or_app. left. apply in_or_app. right. left. reflexivity.
    - cbn [option_map] in Hp0. rewrite <- Ecd in Hp0.
      destruct (repeat_dests c) as [rd|] eqn:Hrd.
      + apply bind_ok in H as [r2 [H2 H]].
        assert (Hrtags : forall d, In d rd -> is_repeat_tag (kind_tag c d) = true).
        { intros d Hd. apply repeat_dests_known. rewrite Hrd. exact Hd. }
        destruct (simplify_repeat_spec h c vs rd r2 Hw Ht Hok Hrtags H2) as [Hp2 Hg2].
        destruct r2 as [[c' vs']|].
        * injection H as <-. destruct (Hg2 c' vs' eq_refl) as [Hok' Hden].
          exists c', vs'. split; [reflexivity|]. split; [exact Hok'|]. split; [exact Hden|]. split.
          -- unfold reach. apply pick_app_none; [exact Hp0|]. rewrite Hrd. cbn [dests_of]. apply pick_app_some. exact Hp2.
          -- intros ->. exfalso. cbn [option_map fst] in Hp2. destruct Hp2 as [l1 [l2 [E _]]].
             unfold reach in Hsorted. rewrite Hrd in Hsorted. cbn [dests_of] in Hsorted. rewrite E in Hsorted.
             rewrite app_assoc in Hsorted.
             apply (Hnotin _ Hsorted). apply in_or_app. right. apply in_or_app. right. left. reflexivity.
        * injection H as <-. exists c, vs. split; [reflexivity|]. split; [exact Hok|]. split; [reflexivity|].
          split; [|reflexivity]. apply Hstay; [exact Hp0|]. try rewrite Hrd. cbn [dests_of]. exact Hp2.
      + injection H as <-. exists c, vs. split; [reflexivity|]. split; [exact Hok|]. split; [reflexivity|].
        split; [|reflexivity]. apply Hstay; [exact Hp0|]. try rewrite Hrd. cbn [dests_of]. intros x [].
  Qed.

  (** ** the classes that cannot be reached from [c] never beat the reachable ones *)
  Lemma reach_complete d c vs x :
    dims_pos d -> representable d x (fden d c vs) ->
    exists y, In y (reach c) /\ pref_rank y <= pref_rank x /\ representable d y (fden d c vs) /\
              (y = x \/ y = c \/ y = GConst).
  Proof.
    intros Hpos Hr.
    assert (Hconst : forall (g : pos -> pos),
               (forall p, in_dims d p -> in_dims d (g p)) ->
               (forall p, cidx d c (g p) = cidx d c p) ->
               (forall p q, proj x (g p) = proj x (g q)) ->
               representable d GConst (fden d c vs)).
    { intros g Hg1 Hg2 Hg3 p q Hp Hq _. unfold ProofsSimplifyLayout.fden. rewrite <- (Hg2 p), <- (Hg2 q).
      apply (proj1 (representable_proj d x _) Hr); auto. }
    destruct d as [[nS nT] nV]. cbn [dims_pos] in Hpos. destruct Hpos as [HS [HT HV]].
    destruct c, x;
      first
        [ (* x itself is reachable *)
          solve [ eexists; split; [|split; [|split; [exact Hr | left; reflexivity]]]; [vm_compute; tauto | lia] ]
        | (* c itself is at least as good *)
          solve [ eexists; split; [|split; [|split; [apply representable_self | right; left; reflexivity]]];
                  [vm_compute; tauto | cbn [pref_rank]; lia] ]
        | idtac ].
    - (* TSlices, x = TSamples *)
      exists GConst. split; [vm_compute; tauto|]. split; [cbn [pref_rank]; lia|]. split; [|tauto].
      apply (Hconst (fun p => let '(s, _, _) := p in (s, 0, 0))).
      + intros [[s t] v]. cbn [in_dims]. lia.
      + intros [[s t] v]. reflexivity.
      + intros [[s t] v] [[s' t'] v']. reflexivity.
    - (* TSlices, x = VSamples *)
      exists GConst. split; [vm_compute; tauto|]. split; [cbn [pref_rank]; lia|]. split; [|tauto].
      apply (Hconst (fun p => let '(s, _, _) := p in (s, 0, 0))).
      + intros [[s t] v]. cbn [in_dims]. lia.
      + intros [[s t] v]. reflexivity.
      + intros [[s t] v] [[s' t'] v']. reflexivity.
    - (* VSlices, x = VSamples *)
      exists GConst. split; [vm_compute; tauto|]. split; [cbn [pref_rank]; lia|]. split; [|tauto].
      apply (Hconst (fun p => let '(s, t, _) := p in (s, t, 0))).
      + intros [[s t] v]. cbn [in_dims]. lia.
      + intros [[s t] v]. reflexivity.
      + intros [[s t] v] [[s' t'] v']. reflexivity.
  Qed.

  (** ** the result of [_simplify] is THE canonical class *)
  Theorem simplify_canon h c vs c' vs' :
    hdr_wf h -> hdr_tight h -> entry_ok h c vs -> c <> GConst -> simplify_dom h c ->
    simplify_k veqb vnone h (Some (c, vs)) = Ok (Some (c', vs')) ->
    entry_ok h c' vs' /\
    (forall p, in_dims (dims h) p -> fden (dims h) c' vs' p = fden (dims h) c vs p) /\
    canon_class (shape h) (dims h) (fden (dims h) c' vs') c'.
  Proof.
    intros Hw Ht Hok Hne Hdom H. pose proof (dims_pos_of_wf h Hw) as Hpos.
    destruct (simplify_spec h c vs _ Hw Ht Hok Hne Hdom H) as [c2 [vs2 [E [Hok' [Hden [Hpick _]]]]]].
    injection E as <- <-. split; [exact Hok'|]. split; [exact Hden|].
    destruct Hok' as [Hc' [Hs' Hl']]. split; [exact Hc'|]. split; [apply representable_self|].
    intros x Hx Hrx.
    assert (Hrx' : representable (dims h) x (fden (dims h) c vs)).
    { eapply representable_ext; [|exact Hrx]. exact Hden. }
    destruct (reach_complete (dims h) c vs x Hpos Hrx') as [y [Hy [Hle [Hry Hwhich]]]].
    assert (Hyok : class_ok (shape h) y = true).
    { destruct Hwhich as [->|[->| ->]]; [exact Hx | apply Hok |].
      destruct Hw as [Hn _]. unfold class_ok. unfold ndim in Hn.
      destruct (length (shape h)) as [|[|[|[|[|[|n]]]]]]; try lia; reflexivity. }
    assert (Hsorted : ssorted (reach c) = true).
    { pose proof reach_sorted as Hz. rewrite forallb_forall in Hz. apply Hz. apply all_classes_complete. }
    pose proof (pick_least _ _ _ Hsorted Hpick y Hy) as Hmin.
    assert (pref_rank c' <= pref_rank y); [|lia].
    apply Hmin. split; [rewrite Ht; exact Hyok | exact Hry].
  Qed.

  (** least rank among the reachable classes, stated without [reach_complete] (this is the statement that
      depends only on the ORDER of the tables) *)
  Theorem simplify_least h c vs c' vs' :
    hdr_wf h -> hdr_tight h -> entry_ok h c vs -> c <> GConst -> simplify_dom h c ->
    simplify_k veqb vnone h (Some (c, vs)) = Ok (Some (c', vs')) ->
    In c' (reach c) /\
    forall x, In x (reach c) -> class_ok (shape h) x = true -> representable (dims h) x (fden (dims h) c vs) ->
              pref_rank c' <= pref_rank x.
  Proof.
    intros Hw Ht Hok Hne Hdom H.
    destruct (simplify_spec h c vs _ Hw Ht Hok Hne Hdom H) as [c2 [vs2 [E [_ [_ [Hpick _]]]]]].
    injection E as <- <-.
    assert (Hsorted : ssorted (reach c) = true).
    { pose proof reach_sorted as Hz. rewrite forallb_forall in Hz. apply Hz. apply all_classes_complete. }
    split.
    - destruct Hpick as [l1 [l2 [-> _]]]. apply in_or_app. right. left. reflexivity.
    - intros x Hx Hxok Hrx. apply (pick_least _ _ _ Hsorted Hpick x Hx). split; [rewrite Ht; exact Hxok | exact Hrx].
  Qed.
End WithV.

(** * Non-vacuity and the defective pair *)
Definition ex_aff : list (list Q) := [[1;0;0;0];[0;1;0;0];[0;0;1;0];[0;0;0;1]]%Q.
Definition ex_h5 : hdr := mk_hdr [1; 1; 2; 3; 2] (Some 2) ex_aff true true.

(** a ('global','slices') key that only depends on the vector index, with THREE periods per test:
    it is not constant, and becomes ('vector','samples') *)
Example simplify_gslices_to_vsamples :
  simplify_k Nat.eqb 0 ex_h5 (Some (GSlices, [7;7;7;7;7;7; 8;8;8;8;8;8])) = Ok (Some (VSamples, [7; 8])).
Proof. vm_compute. reflexivity. Qed.

(** the defect sits in the last period only: the key stays where it is *)
Example simplify_gslices_stays :
  simplify_k Nat.eqb 0 ex_h5 (Some (GSlices, [7;7;7;7;7;7; 8;8;8;8;8;9])) = Ok (Some (GSlices, [7;7;7;7;7;7; 8;8;8;8;8;9])).
Proof. vm_compute. reflexivity. Qed.

(** [_simplify] of a ('vector','slices') key that is constant within every volume of a full 5-D extension
    returns T values under ('time','samples'), which needs T*V: the entry is malformed and positions with v > 0
    read None.  (The hypotheses of [simplify_spec] exclude exactly this: [simplify_dom].) *)
Example simplify_vslices_tsamples_refuted :
  exists h c vs c' vs',
    validb (mk_ext h [([107]%N, (c, vs))]) = true /\
    simplify_k Nat.eqb 0 h (Some (c, vs)) = Ok (Some (c', vs')) /\
    length vs' <> mult_spec (dims h) c' /\
    fden 0 (dims h) c' vs' (0, 0, 1) <> fden 0 (dims h) c vs (0, 0, 1).
Proof.
  exists ex_h5, VSlices, [1; 1; 2; 2; 3; 3], TSamples, [1; 2; 3]. vm_compute.
  repeat split; try reflexivity; intros H; discriminate H.
Qed.
