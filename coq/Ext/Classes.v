(** Decoding of the GENERATED class tables (Generated/T_classes.v, names as code points) into [cls].
    The model consumes only the decoded tables defined here; Ext/TableFacts.v re-checks by computation
    that every name decodes and what the decoded tables are. *)
From Coq Require Import List Bool Arith NArith ZArith QArith.
From DV Require Import Common.Res Common.Str Generated.T_classes Ext.Types.
Import ListNotations.
Local Open Scope nat_scope.

Definition s_global : str := [103; 108; 111; 98; 97; 108]%N.
Definition s_time : str := [116; 105; 109; 101]%N.
Definition s_vector : str := [118; 101; 99; 116; 111; 114]%N.
Definition s_const : str := [99; 111; 110; 115; 116]%N.
Definition s_slices : str := [115; 108; 105; 99; 101; 115]%N.
Definition s_samples : str := [115; 97; 109; 112; 108; 101; 115]%N.

Definition base_of_name (s : str) : option cbase :=
  if str_eqb s s_global then Some BGlobal
  else if str_eqb s s_time then Some BTime
  else if str_eqb s s_vector then Some BVector else None.

Definition sub_of_name (s : str) : option csub :=
  if str_eqb s s_const then Some SConst
  else if str_eqb s s_slices then Some SSlices
  else if str_eqb s s_samples then Some SSamples else None.

Definition cls_of_name (n : cname) : option cls :=
  match base_of_name (fst n), sub_of_name (snd n) with
  | Some BGlobal, Some SConst => Some GConst
  | Some BGlobal, Some SSlices => Some GSlices
  | Some BTime, Some SSamples => Some TSamples
  | Some BTime, Some SSlices => Some TSlices
  | Some BVector, Some SSamples => Some VSamples
  | Some BVector, Some SSlices => Some VSlices
  | _, _ => None
  end.

Definition name_of_base (b : cbase) : str :=
  match b with BGlobal => s_global | BTime => s_time | BVector => s_vector end.
Definition name_of_sub (s : csub) : str :=
  match s with SConst => s_const | SSlices => s_slices | SSamples => s_samples end.
Definition name_of_cls (c : cls) : cname := (name_of_base (base_of c), name_of_sub (sub_of c)).

Definition cname_eqb (a b : cname) : bool := str_eqb (fst a) (fst b) && str_eqb (snd a) (snd b).
Definition ocname_eqb (a b : option cname) : bool :=
  match a, b with Some x, Some y => cname_eqb x y | None, None => true | _, _ => false end.

(** Names that do not decode are dropped here; [TableFacts.tables_decode] shows there are none. *)
Definition decode_list (l : list cname) : list cls :=
  flat_map (fun n => match cls_of_name n with Some c => [c] | None => [] end) l.
Definition all_decode (l : list cname) : bool :=
  forallb (fun n => match cls_of_name n with Some _ => true | None => false end) l.

Fixpoint lookup_tbl {K A} (eqb : K -> K -> bool) (k : K) (l : list (K * A)) : option A :=
  match l with
  | [] => None
  | (k', a) :: r => if eqb k k' then Some a else lookup_tbl eqb k r
  end.

(** [DcmMetaExtension.classifications] *)
Definition classifications_c : list cls := decode_list classifications.

(** [_const_tests[c]]; [None] = KeyError *)
Definition const_dests (c : cls) : option (list cls) :=
  option_map decode_list (lookup_tbl cname_eqb (name_of_cls c) const_tests).

(** [_repeat_tests[c]]; [None] = [c not in _repeat_tests] *)
Definition repeat_dests (c : cls) : option (list cls) :=
  option_map decode_list (lookup_tbl cname_eqb (name_of_cls c) repeat_tests).

(** [_preserving_changes[c]] ([c] may be Python's None); [None] = KeyError *)
Definition preserving (c : option cls) : option (list cls) :=
  option_map decode_list (lookup_tbl ocname_eqb (option_map name_of_cls c) preserving_changes).

Definition copy_slice_global_dests_c : list cls := decode_list copy_slice_global_dests.
Definition copy_slice_vector_dests_c : list cls := decode_list copy_slice_vector_dests.
Definition copy_sample_dests_c : list cls := decode_list copy_sample_dests.
Definition insert_slice_bases_c : list cbase :=
  flat_map (fun n => match base_of_name n with Some b => [b] | None => [] end) insert_slice_bases.

(** [(base, 'slices')] as a class *)
Definition slices_of_base (b : cbase) : cls :=
  match b with BGlobal => GSlices | BTime => TSlices | BVector => VSlices end.
Definition samples_of_base (b : cbase) : option cls :=
  match b with BGlobal => None | BTime => Some TSamples | BVector => Some VSamples end.
