(** C03: the final [_simplify] pass of [from_sequence] over ('global','slices') keys keeps the denotation
    (and cannot fail unless the shape has a trailing singleton dimension: open finding N4). *)
From Coq Require Import List Bool Arith Lia.
From DV Require Import Common.Res Common.Str Ext.Types Ext.Classes Ext.Seq Ext.Model Ext.Spec Ext.TableFacts
     Ext.ValidFacts Ext.ProofsMergeSeq Ext.ProofsMergeDen Ext.ProofsMergeStep.
Import ListNotations.
Local Open Scope nat_scope.

Lemma const_dests_gslices : const_dests GSlices = Some [GConst; VSamples; TSamples].
Proof. vm_compute. reflexivity. Qed.
Lemma repeat_dests_gslices : repeat_dests GSlices = Some [TSlices; VSlices].
Proof. vm_compute. reflexivity. Qed.

Section WithV.
  Context {V : Type} (veqb : V -> V -> bool) (vnone : V).
  Hypothesis veqb_spec : forall a b, reflect (a = b) (veqb a b).
  Notation den_k := (den_k vnone).

  Lemma nth_chunk (l : list V) p k r d : r < p -> nth r (firstn p (skipn (k * p) l)) d = nth (k * p + r) l d.
  Proof. intros H. rewrite nth_firstn_lt by exact H. apply nth_skipn_add. Qed.

  (** every block of [p] values is constant *)
  Lemma chunks_const (l : list V) m p d :
    length l = m * p -> forallb (all_eq_first veqb) (chunks m p l) = true ->
    forall k r, k < m -> r < p -> nth (k * p + r) l d = nth (k * p) l d.
  Proof.
    intros Hl Hf k r Hk Hr. rewrite forallb_forall in Hf.
    specialize (Hf _ (chunks_In m p l k Hk)).
    rewrite (all_eq_first_spec veqb veqb_spec _ d) in Hf.
    assert (Hlen : length (firstn p (skipn (k * p) l)) = p).
    { rewrite firstn_length, skipn_length. nia. }
    specialize (Hf r ltac:(lia)). rewrite !nth_chunk in Hf by lia. rewrite Hf. f_equal. lia.
  Qed.

  (** every block of [p] values equals the first one *)
  Lemma chunks_repeat (l : list V) m p d :
    length l = m * p ->
    forallb (fun ch => list_eqb veqb ch (firstn p l)) (tl (chunks m p l)) = true ->
    forall k r, k < m -> r < p -> nth (k * p + r) l d = nth r l d.
  Proof.
    intros Hl Hf k r Hk Hr. destruct k as [|k]; [reflexivity|].
    destruct m as [|m]; [lia|]. cbn [chunks tl] in Hf. rewrite forallb_forall in Hf.
    specialize (Hf _ (chunks_In m p (skipn p l) k ltac:(lia))).
    apply (list_eqb_eq veqb veqb_spec) in Hf.
    assert (E : nth r (firstn p (skipn (k * p) (skipn p l))) d = nth r (firstn p l) d) by (rewrite Hf; reflexivity).
    rewrite nth_chunk, nth_skipn_add, nth_firstn_lt in E by lia. rewrite <- E. f_equal. lia.
  Qed.

  (** one [_const_tests] step of the final simplify of a ('global','slices') key *)
  Lemma const_step h vs d nS nT nV per :
    hdr_ok h -> sdim h <> None -> dims h = (nS, nT, nV) -> length vs = nS * nT * nV ->
    class_ok (shape h) d = true ->
    (d = VSamples /\ per = nS * nT) \/ (d = TSamples /\ per = nS) ->
    const_period h GSlices d = Ok (Some per) /\
    exists b, (match Some per with Some 1 => Ok true | _ => is_constant veqb vs (Some per) end) = Ok b /\
              (per = 1 -> b = true) /\
              (b = true ->
               length (every_nth 0 per vs) = mult_spec (nS, nT, nV) d /\
               forall p, in_dims (nS, nT, nV) p ->
                 nth (cidx (nS, nT, nV) d p) (every_nth 0 per vs) vnone = nth (cidx (nS, nT, nV) GSlices p) vs vnone).
  Proof.
    intros Hh Hsd Hd Hl Hok Hcase.
    destruct (dims_pos h _ _ _ Hh Hd) as [HS [HT HV]].
    assert (Hm : mult_spec (nS, nT, nV) GSlices = mult_spec (nS, nT, nV) d * per)
      by (destruct Hcase as [[-> ->]|[-> ->]]; cbn [mult_spec]; ring).
    assert (Hper : 1 <= per) by (destruct Hcase as [[-> ->]|[-> ->]]; nia).
    assert (Hmd : 1 <= mult_spec (nS, nT, nV) d) by (destruct Hcase as [[-> ->]|[-> ->]]; cbn [mult_spec]; nia).
    split.
    - unfold const_period.
      destruct Hcase as [[-> ->]|[-> ->]];
        rewrite (multiplicity_ok' h GSlices Hh (class_ok_gslices h Hh) (fun _ => Hsd));
        (rewrite (multiplicity_ok' h VSamples Hh Hok (fun H => ltac:(discriminate H))) ||
         rewrite (multiplicity_ok' h TSamples Hh Hok (fun H => ltac:(discriminate H))));
        cbn [bind]; rewrite Hd; rewrite Hm;
        match goal with |- context [Nat.eqb ?x 0] => destruct (Nat.eqb_spec x 0) as [E|_]; [lia|] end;
        f_equal; f_equal; rewrite Nat.mul_comm; apply Nat.div_mul; lia.
    - assert (Hm' : length vs = mult_spec (nS, nT, nV) d * per) by (rewrite Hl; exact Hm). clear Hm. rename Hm' into Hm.
      (* index decomposition *)
      assert (Hidx : forall p, in_dims (nS, nT, nV) p ->
                exists r, r < per /\ cidx (nS, nT, nV) GSlices p = cidx (nS, nT, nV) d p * per + r /\
                          cidx (nS, nT, nV) d p < mult_spec (nS, nT, nV) d).
      { intros [[s t] v] [Hs [Ht Hv]]. destruct Hcase as [[-> ->]|[-> ->]]; cbn [cidx mult_spec].
        - exists (s + nS * t). split; [nia|]. split; [ring | lia].
        - exists s. split; [lia|]. split; [ring | nia]. }
      assert (Hfin : (forall k r, k < mult_spec (nS, nT, nV) d -> r < per -> nth (k * per + r) vs vnone = nth (k * per) vs vnone) ->
                length (every_nth 0 per vs) = mult_spec (nS, nT, nV) d /\
                forall p, in_dims (nS, nT, nV) p ->
                  nth (cidx (nS, nT, nV) d p) (every_nth 0 per vs) vnone = nth (cidx (nS, nT, nV) GSlices p) vs vnone).
      { intros Hc. split; [apply every_nth0_length; [lia | exact Hm]|].
        intros p Hp. destruct (Hidx p Hp) as [r [Hr [E Hk]]]. rewrite E, every_nth_nth by lia.
        cbn [Nat.add]. symmetry. apply Hc; assumption. }
      destruct per as [|[|per']]; [lia | |].
      + exists true. split; [reflexivity|]. split; [reflexivity|]. intros _. apply Hfin.
        intros k r Hk Hr. f_equal. lia.
      + unfold is_constant. destruct (Nat.leb_spec (S (S per')) 1) as [E|_]; [lia|].
        rewrite Hm, Nat.mod_mul by lia. cbn [Nat.eqb negb]. rewrite Nat.div_mul by lia.
        eexists. split; [reflexivity|]. split; [lia|]. intros Hb. apply Hfin.
        apply (chunks_const vs _ _ vnone Hm Hb).
  Qed.

  (** one [_repeat_tests] step *)
  Lemma repeat_step h vs d nS nT nV :
    hdr_ok h -> sdim h <> None -> dims h = (nS, nT, nV) -> length vs = nS * nT * nV ->
    class_ok (shape h) d = true -> d = TSlices \/ d = VSlices ->
    2 <= mult_spec (nS, nT, nV) d -> mult_spec (nS, nT, nV) d < nS * nT * nV ->
    multiplicity h d = Ok (mult_spec (nS, nT, nV) d) /\
    exists b, is_repeating veqb vs (mult_spec (nS, nT, nV) d) = Ok b /\
              (b = true ->
               length (firstn (mult_spec (nS, nT, nV) d) vs) = mult_spec (nS, nT, nV) d /\
               forall p, in_dims (nS, nT, nV) p ->
                 nth (cidx (nS, nT, nV) d p) (firstn (mult_spec (nS, nT, nV) d) vs) vnone =
                 nth (cidx (nS, nT, nV) GSlices p) vs vnone).
  Proof.
    intros Hh Hsd Hd Hl Hok Hcase H2 Hlt.
    destruct (dims_pos h _ _ _ Hh Hd) as [HS [HT HV]].
    split.
    { rewrite <- Hd. apply multiplicity_ok'; [exact Hh | exact Hok | intros _; exact Hsd]. }
    set (dm := mult_spec (nS, nT, nV) d) in *.
    assert (Hk : exists m, length vs = m * dm /\
              forall p, in_dims (nS, nT, nV) p ->
                exists k, k < m /\ cidx (nS, nT, nV) d p < dm /\
                          cidx (nS, nT, nV) GSlices p = k * dm + cidx (nS, nT, nV) d p).
    { subst dm. destruct Hcase as [-> | ->]; cbn [mult_spec cidx] in *.
      - exists (nT * nV). split; [lia|]. intros [[s t] v] [Hs [Ht Hv]]. exists (t + nT * v).
        split; [nia|]. split; [lia | ring].
      - exists nV. split; [lia|]. intros [[s t] v] [Hs [Ht Hv]]. exists v.
        split; [lia|]. split; [nia | ring]. }
    destruct Hk as [m [Hm Hidx]].
    unfold is_repeating. rewrite Hl.
    destruct (Nat.leb_spec dm 1) as [E|_]; [lia|]. destruct (Nat.leb_spec (nS * nT * nV) dm) as [E|_]; [lia|].
    cbn [orb]. rewrite <- Hl, Hm, Nat.mod_mul by lia. cbn [Nat.eqb negb]. rewrite Nat.div_mul by lia.
    eexists. split; [reflexivity|]. intros Hb. split.
    - rewrite firstn_length. nia.
    - intros p Hp. destruct (Hidx p Hp) as [k [Hk [Hc E]]]. rewrite E.
      rewrite nth_firstn_lt by exact Hc. symmetry. apply (chunks_repeat vs m dm vnone Hm Hb); assumption.
  Qed.

  Lemma class_ok_time_eq sh : class_ok sh TSlices = class_ok sh TSamples.
  Proof. reflexivity. Qed.
  Lemma class_ok_vec_eq sh : class_ok sh VSlices = class_ok sh VSamples.
  Proof. reflexivity. Qed.

  Definition perd (nS nT : nat) (d : cls) : nat := match d with VSamples => nS * nT | _ => nS end.

  (** what a destination found by the final simplify has to satisfy *)
  Definition simp_ok (h : hdr) (d3 : pos) (vs : list V) (x : cls * list V) : Prop :=
    class_ok (shape h) (fst x) = true /\ length (snd x) = mult_spec d3 (fst x) /\
    forall p, in_dims d3 p -> nth (cidx d3 (fst x) p) (snd x) vnone = nth (cidx d3 GSlices p) vs vnone.

  Lemma simplify_const_cons h c vs d ds :
    simplify_const veqb h c vs (d :: ds) =
    if has_base h (base_of d) then
      bind (const_period h c d) (fun period =>
      bind (match period with Some 1 => Ok true | _ => is_constant veqb vs period end) (fun isc =>
      if isc then
        match period with
        | None => bind (hd_res vs) (fun v => Ok (Some (d, [v])))
        | Some p => Ok (Some (d, every_nth 0 p vs))
        end
      else simplify_const veqb h c vs ds))
    else simplify_const veqb h c vs ds.
  Proof. reflexivity. Qed.

  Lemma simplify_const_spec h vs nS nT nV dests :
    hdr_ok h -> (forall c, has_base h (base_of c) = class_ok (shape h) c) -> sdim h <> None ->
    dims h = (nS, nT, nV) -> length vs = nS * nT * nV ->
    (forall d, In d dests -> d = VSamples \/ d = TSamples) ->
    exists r, simplify_const veqb h GSlices vs dests = Ok r /\
      match r with
      | Some x => simp_ok h (nS, nT, nV) vs x
      | None => forall d, In d dests -> class_ok (shape h) d = true -> perd nS nT d <> 1
      end.
  Proof.
    intros Hh Hb Hsd Hd Hl. induction dests as [|d ds IH]; intros Hin.
    - exists None. split; [reflexivity|]. intros d [].
    - rewrite simplify_const_cons, Hb.
      destruct (IH (fun d' H => Hin d' (or_intror H))) as [r [Er Hr]].
      destruct (class_ok (shape h) d) eqn:Eok.
      + assert (Hcase : (d = VSamples /\ perd nS nT d = nS * nT) \/ (d = TSamples /\ perd nS nT d = nS)).
        { destruct (Hin d (or_introl eq_refl)) as [-> | ->]; [left | right]; split; reflexivity. }
        destruct (const_step h vs d nS nT nV (perd nS nT d) Hh Hsd Hd Hl Eok Hcase) as [Ep [b [Eb [Hb1 Hb2]]]].
        rewrite Ep. cbn [bind]. rewrite Eb. cbn [bind]. destruct b.
        * eexists. split; [reflexivity|]. destruct (Hb2 eq_refl) as [HL HN]. split; [exact Eok|]. split; assumption.
        * exists r. split; [exact Er|]. destruct r as [x|]; [exact Hr|].
          intros d' [<-|Hd'] Hok'; [intros E1; specialize (Hb1 E1); discriminate | apply Hr; assumption].
      + exists r. split; [exact Er|]. destruct r as [x|]; [exact Hr|].
        intros d' [<-|Hd'] Hok'; [congruence | apply Hr; assumption].
  Qed.

  Lemma simplify_repeat_cons h vs d ds :
    simplify_repeat veqb h vs (d :: ds) =
    if has_base h (base_of d) then
      bind (multiplicity h d) (fun dm =>
      bind (is_repeating veqb vs dm) (fun rep =>
      if rep then Ok (Some (d, firstn dm vs)) else simplify_repeat veqb h vs ds))
    else simplify_repeat veqb h vs ds.
  Proof. reflexivity. Qed.

  Lemma simplify_repeat_spec h vs nS nT nV dests :
    hdr_ok h -> (forall c, has_base h (base_of c) = class_ok (shape h) c) -> sdim h <> None ->
    dims h = (nS, nT, nV) -> length vs = nS * nT * nV ->
    (forall d, In d dests -> (d = TSlices \/ d = VSlices) /\
       (class_ok (shape h) d = true -> 2 <= mult_spec (nS, nT, nV) d /\ mult_spec (nS, nT, nV) d < nS * nT * nV)) ->
    exists r, simplify_repeat veqb h vs dests = Ok r /\
      match r with Some x => simp_ok h (nS, nT, nV) vs x | None => True end.
  Proof.
    intros Hh Hb Hsd Hd Hl. induction dests as [|d ds IH]; intros Hin.
    - exists None. split; [reflexivity | exact I].
    - rewrite simplify_repeat_cons, Hb.
      destruct (IH (fun d' H => Hin d' (or_intror H))) as [r [Er Hr]].
      destruct (class_ok (shape h) d) eqn:Eok; [|exists r; split; assumption].
      destruct (Hin d (or_introl eq_refl)) as [Hcase Hbnd]. destruct (Hbnd Eok) as [H2 Hlt].
      destruct (repeat_step h vs d nS nT nV Hh Hsd Hd Hl Eok Hcase H2 Hlt) as [Em [b [Eb Hb2]]].
      rewrite Em. cbn [bind]. rewrite Eb. cbn [bind]. destruct b.
      + eexists. split; [reflexivity|]. destruct (Hb2 eq_refl) as [HL HN]. split; [exact Eok|]. split; assumption.
      + exists r. split; assumption.
  Qed.

  (** the final pass of [from_sequence] over ('global','slices') keeps the denotation; it cannot fail when the
      shape has no trailing singleton dimension (open finding N4 otherwise) *)
  Lemma simplify_gslices_den h vs :
    hdr_ok h -> (forall c, has_base h (base_of c) = class_ok (shape h) c) -> sdim h <> None ->
    length vs = mult_spec (dims h) GSlices ->
    (ndim h = 4 -> nth 3 (shape h) 1 <> 1) -> (ndim h = 5 -> nth 4 (shape h) 1 <> 1) ->
    exists s', simplify_k veqb vnone h (Some (GSlices, vs)) = Ok s' /\ good_k h s' /\
               forall p, in_dims (dims h) p -> den_k h s' p = nth (cidx (dims h) GSlices p) vs vnone.
  Proof.
    intros Hh Hb Hsd Hl H4 H5.
    destruct (dims h) as [[nS nT] nV] eqn:Hd. cbn [mult_spec] in Hl.
    destruct (dims_pos h _ _ _ Hh Hd) as [HS [HT HV]].
    pose proof (class_ok_gslices h Hh) as HokG.
    assert (Hgood : good_k h (Some (GSlices, vs))).
    { split; [exact HokG|]. split; [intros _; exact Hsd|]. rewrite Hd. exact Hl. }
    assert (HT2 : class_ok (shape h) TSamples = true -> 2 <= nT).
    { intros Hc. pose proof Hd as Hd'. unfold dims in Hd'. injection Hd' as _ <- _. destruct Hh as [Hn _]. unfold ndim, class_ok in *.
      destruct (shape h) as [|a [|b [|c [|t [|v [|x r]]]]]]; cbn [length] in *; try lia; try discriminate Hc.
      cbn [nth base_of] in *. destruct (Nat.eqb_spec t 1); [discriminate | lia]. }
    assert (HV2 : class_ok (shape h) VSamples = true -> 2 <= nV).
    { intros Hc. pose proof Hd as Hd'. unfold dims in Hd'. injection Hd' as _ _ <-. destruct Hh as [Hn _]. unfold ndim, class_ok in *.
      destruct (shape h) as [|a [|b [|c [|t [|v [|x r]]]]]]; cbn [length] in *; try lia; try discriminate Hc. }
    assert (Fin : forall x, simp_ok h (nS, nT, nV) vs x ->
               good_k h (Some x) /\
               forall p, in_dims (nS, nT, nV) p -> den_k h (Some x) p = nth (cidx (nS, nT, nV) GSlices p) vs vnone).
    { intros [d L] [Hok [HL HN]]. cbn [fst snd] in *. split.
      - split; [exact Hok|]. split; [intros _; exact Hsd|]. rewrite Hd. exact HL.
      - intros p Hp. rewrite den_k_good by exact Hok. rewrite Hd. apply HN. exact Hp. }
    unfold simplify_k. rewrite (visible_good _ _ Hgood). rewrite const_dests_gslices, repeat_dests_gslices.
    rewrite simplify_const_cons. cbn [has_base base_of const_period bind is_constant].
    (* ('global','const') *)
    destruct (all_eq_first veqb vs) eqn:E0.
    { destruct vs as [|x xs]; [cbn [length] in Hl; nia|]. cbn [hd_res bind].
      eexists. split; [reflexivity|]. split.
      - split; [apply class_ok_const; exact Hh|]. split; [discriminate|]. rewrite Hd. reflexivity.
      - intros p Hp. rewrite den_k_good by (apply class_ok_const; exact Hh). rewrite Hd.
        rewrite (all_eq_first_spec veqb veqb_spec _ vnone) in E0.
        rewrite E0 by (rewrite Hl; apply (cidx_lt (nS, nT, nV) GSlices p Hp)).
        destruct p as [[? ?] ?]. reflexivity. }
    destruct (simplify_const_spec h vs nS nT nV [VSamples; TSamples] Hh Hb Hsd Hd Hl) as [r [Er Hr]].
    { intros d [<-|[<-|[]]]; auto. }
    rewrite Er. cbn [bind]. destruct r as [x|].
    { exists (Some x). split; [reflexivity|]. apply Fin. exact Hr. }
    destruct (simplify_repeat_spec h vs nS nT nV [TSlices; VSlices] Hh Hb Hsd Hd Hl) as [r2 [Er2 Hr2]].
    { intros d [<-|[<-|[]]]; (split; [auto|]); intros Hok; cbn [mult_spec].
      - pose proof (Hr TSamples (or_intror (or_introl eq_refl)) Hok) as Hp. cbn [perd] in Hp.
        specialize (HT2 Hok). assert (2 * nS <= nS * nT) by nia. assert (nS * nT <= nS * nT * nV) by nia. lia.
      - pose proof (Hr VSamples (or_introl eq_refl) Hok) as Hp. cbn [perd] in Hp.
        specialize (HV2 Hok). assert (1 <= nS * nT) by nia. assert (2 * (nS * nT) <= nS * nT * nV) by nia. lia. }
    rewrite Er2. cbn [bind]. destruct r2 as [x|].
    { exists (Some x). split; [reflexivity|]. apply Fin. exact Hr2. }
    exists (Some (GSlices, vs)). split; [reflexivity|]. split; [exact Hgood|].
    intros p Hp. rewrite den_k_good by exact HokG. rewrite Hd. reflexivity.
  Qed.
End WithV.
