(** Links between the executable predicates of the model ([multiplicity], [validb], [nondegenerateb])
    and the declarative spec ([mult_spec], [valid], [nondegenerate]). *)
From Coq Require Import List Bool Arith ZArith QArith Lia.
From DV Require Import Common.Res Common.Str Ext.Types Ext.Classes Ext.Seq Ext.Model Ext.Spec Ext.TableFacts.
Import ListNotations.
Local Open Scope nat_scope.

Lemma multiplicity_ok h c :
  3 <= ndim h <= 5 -> class_ok (shape h) c = true ->
  (is_slices c = true -> exists d, sdim h = Some d /\ d < 3) ->
  multiplicity h c = Ok (mult_spec (dims h) c).
Proof.
  intros Hn Hok Hsl. unfold multiplicity. rewrite class_valid_ok, Hok. cbn [negb]. f_equal.
  unfold dims, n_slices, ndim in *.
  destruct (shape h) as [|a [|b [|c0 [|t [|v [|x r]]]]]]; cbn [length] in Hn; try lia.
  - destruct c; try discriminate Hok; cbn [sub_of base_of mult_spec]; [lia|].
    destruct (Hsl eq_refl) as [d [-> Hd]]. destruct d as [|[|[|?]]]; try lia;
      cbn [nth skipn prod_list fold_left]; lia.
  - destruct c; try discriminate Hok; cbn [sub_of base_of mult_spec nth length Nat.eqb]; try lia.
    all: destruct (Hsl eq_refl) as [d [-> Hd]]; destruct d as [|[|[|?]]]; try lia;
      cbn [nth skipn prod_list fold_left]; lia.
  - destruct c; cbn [sub_of base_of mult_spec nth length Nat.eqb]; try lia.
    all: destruct (Hsl eq_refl) as [d [-> Hd]]; destruct d as [|[|[|?]]]; try lia;
      cbn [nth skipn prod_list fold_left]; lia.
Qed.

(** conversely: a successful [multiplicity] means the class is admitted *)
Lemma multiplicity_class_ok h c m : multiplicity h c = Ok m -> class_ok (shape h) c = true.
Proof.
  unfold multiplicity. rewrite class_valid_ok. destruct (class_ok (shape h) c); [reflexivity | discriminate].
Qed.

Lemma multiplicity_pos_sdim h c m :
  multiplicity h c = Ok m -> 1 <= m -> is_slices c = true -> sdim h <> None.
Proof.
  unfold multiplicity, n_slices. destruct (negb (class_valid h c)); [discriminate|].
  intros H Hm Hs. injection H as <-. destruct c; try discriminate Hs;
    cbn [sub_of] in Hm; destruct (sdim h); try congruence; lia.
Qed.

Lemma mem_key_In k l : mem_key k l = true <-> In k l.
Proof.
  unfold mem_key. rewrite existsb_exists. split.
  - intros [x [Hin He]]. unfold key_eqb in He. apply str_eqb_eq in He. subst; exact Hin.
  - intros Hin. exists k. split; [exact Hin | apply str_eqb_refl].
Qed.

Lemma nodup_keys_NoDup l : nodup_keys l = true -> NoDup l.
Proof.
  induction l as [|k r IH]; simpl; [constructor|].
  rewrite andb_true_iff, negb_true_iff. intros [Hn Hr]. constructor; [|auto].
  intros Hin. apply mem_key_In in Hin. congruence.
Qed.

Section WithV.
  Context {V : Type}.

  (** the executable validity test implies the declarative one *)
  Lemma validb_valid (e : ext V) : validb e = true -> valid e.
  Proof.
    unfold validb. rewrite !andb_true_iff.
    intros [[[[[[[Hnd Hpos] Hsd] Ha4] Harows] Hbase] Hnodup] Hents].
    assert (Hn : 3 <= ndim (hdr_of e) <= 5).
    { unfold ndim_ok in Hnd. apply andb_true_iff in Hnd as [H1 H2].
      apply Nat.leb_le in H1. apply Nat.ltb_lt in H2. lia. }
    assert (Hsd' : forall d, sdim (hdr_of e) = Some d -> d < 3).
    { intros d Hd. rewrite Hd in Hsd. apply Nat.ltb_lt. exact Hsd. }
    split; [|split].
    - split; [exact Hn|]. split.
      { apply Forall_forall. intros n Hin. rewrite forallb_forall in Hpos. apply Nat.leb_le. auto. }
      split; [exact Hsd'|]. split.
      { split; [apply Nat.eqb_eq; exact Ha4|]. apply Forall_forall. intros r Hin.
        rewrite forallb_forall in Harows. apply Nat.eqb_eq. auto. }
      intros c Hc. rewrite forallb_forall in Hbase. apply Hbase. apply mem_cls_In.
      rewrite <- class_valid_ok in Hc. exact Hc.
    - apply nodup_keys_NoDup. exact Hnodup.
    - intros k c vs Hin. rewrite forallb_forall in Hents. specialize (Hents _ Hin). cbn [fst snd] in Hents.
      destruct (multiplicity (hdr_of e) c) as [m|] eqn:Em; [|discriminate].
      apply andb_true_iff in Hents as [Hm Hl]. apply Nat.leb_le in Hm. apply Nat.eqb_eq in Hl.
      pose proof (multiplicity_class_ok _ _ _ Em) as Hok.
      split; [exact Hok|]. split.
      + intros Hs. eapply multiplicity_pos_sdim; eauto.
      + rewrite Hl. assert (Hx : multiplicity (hdr_of e) c = Ok (mult_spec (dims (hdr_of e)) c)).
        { apply multiplicity_ok; [exact Hn | exact Hok|]. intros Hs.
          pose proof (multiplicity_pos_sdim _ _ _ Em Hm Hs) as Hne.
          destruct (sdim (hdr_of e)) as [d|] eqn:Ed; [|congruence]. exists d. split; [reflexivity | auto]. }
        rewrite Em in Hx. injection Hx as ->. reflexivity.
  Qed.

  Lemma nondegenerateb_nondegenerate (e : ext V) : valid e -> nondegenerateb e = true -> nondegenerate e.
  Proof.
    intros [[Hn [_ [Hsd _]]] [_ Hent]] Hb k c vs Hin Hc.
    unfold nondegenerateb in Hb. rewrite forallb_forall in Hb. specialize (Hb _ Hin). cbn [fst snd] in Hb.
    destruct (Hent _ _ _ Hin) as [Hok [Hsl _]].
    rewrite multiplicity_ok in Hb; [|exact Hn|exact Hok|].
    - destruct (cls_eqb_spec c GConst); [contradiction|]. cbn [orb] in Hb.
      destruct (mult_spec (dims (hdr_of e)) c) as [|[|m]]; [lia | discriminate | lia].
    - intros Hs. specialize (Hsl Hs). destruct (sdim (hdr_of e)) as [d|] eqn:Ed; [|congruence].
      exists d. split; [reflexivity | auto].
  Qed.
End WithV.
