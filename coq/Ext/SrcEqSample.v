(** Stage C of the source equality for the extension algebra (second part): DcmMetaExtension._copy_sample, translated in
    state-passing style with two instances (Generated/T_src_state.v: [copy_sample_st]), refines the per-key model
    Ext.Model.copy_sample_k iterated over the source class dictionary in dictionary order.

    ONE lemma carries all the loops ([put_loop]): a loop over a class dictionary whose body, for each key, computes a plan
    (destination class, values, simplify or not) that does not depend on the state, stores `render dest values` under the key
    and possibly calls _simplify, refines the fold of "plan; put; simplify_k" over the dictionary.  The eight loop sites of
    _copy_sample are instances ([sample_plan]); the two-pass site (store all, then simplify all) is reduced to it. *)
From Coq Require Import List Bool Arith NArith ZArith Lia.
From DV Require Import Common.Res Common.Str Common.Jv Common.PyOps2 Common.PyOps2Dyn Generated.T_classes Generated.T_src_ext
     Generated.T_src_state Ext.Types Ext.Classes Ext.Seq Ext.SeqFacts Ext.Model Ext.TableFacts Ext.SrcEq Ext.SrcEqAlg Ext.SrcEqState
     Ext.SrcEqSubset.
Import ListNotations.
Local Open Scope nat_scope.

Notation obj := (list (str * jv)).

(** * The generic loop *)

(** what is done for one key: the class that receives it, its values, and whether _simplify is called afterwards *)
Definition plan := (cls * list jv * bool)%type.

(** the state of a key can be simplified by the translated _simplify exactly as the model does (hypotheses of SRC_simplify) *)
Definition st_ok (hr : hdr) (d : cls) (vals : list jv) : Prop :=
  class_valid hr d = true /\ (d = GConst -> length vals = 1) /\ (d <> GConst -> multiplicity hr d <> Ok 1) /\
  (is_slices d = true -> n_slices hr <> None).

Section PutLoop.
  Variable hr : hdr.
  Context {R : Type}.
  Hypothesis Hok : ndim_ok hr = true.
  Hypothesis Hbases : bases_ok hr.

  Definition run_plan (p : plan) : res (kst jv) :=
    let '(d, vals, simp) := p in
    bind (put hr d vals) (fun s => if simp then simplify_k jv_eqb JNull hr s else Ok s).

  (** the code for one key, given its plan *)
  Definition code_plan (p : plan) (st : jv) (k : key) : res (ctl R jv) :=
    let '(d, vals, simp) := p in
    bind (dyn_set2 st (@fst str str (name_of_cls d)) (@snd str str (name_of_cls d)) k (render d vals)) (fun st1 =>
    if simp then bind (simplify_st classifications (shape hr) (n_slices hr) (okeys const_tests) (okeys repeat_tests) st1 k)
                      (fun p => Ok (Next (snd p)))
    else Ok (Next st1)).

  Lemma put_step (o : obj) (f : key -> kst jv) (k : key) (d : cls) (vals : list jv) (simp : bool) :
    Holds o hr f -> f k = None -> (simp = true -> st_ok hr d vals) ->
    match run_plan (d, vals, simp) with
    | Ok s' => exists o', code_plan (d, vals, simp) (JObj o) k = Ok (Next (JObj o')) /\ Holds o' hr (upd f k s')
    | Err e => code_plan (d, vals, simp) (JObj o) k = Err e
    end.
  Proof.
    intros HH Hf Hs. unfold run_plan, code_plan, put.
    destruct (has_base hr (base_of d)) eqn:Hbd.
    2:{ rewrite (dyn_set2_nobase o d k _ (hw_nobase _ _ _ HH _ Hbd)). reflexivity. }
    cbn [bind]. destruct simp.
    - destruct (Hs eq_refl) as [Hcv [Hlen [Hnd Hsl]]].
      destruct (HoldsW_setkey o hr (stored f) d k (render d vals) HH Hbd) as [o1 [E1 H1]].
      assert (H1' : Holds o1 hr (upd f k (Some (d, vals)))) by (apply Holds_fresh_set; [exact Hf | exact H1]).
      set (f1 := upd f k (Some (d, vals))) in *.
      assert (Hf1 : f1 k = Some (d, vals)) by (unfold f1, upd, key_eqb; rewrite str_eqb_refl; reflexivity).
      pose proof (simplify_st_ref o1 hr f1 k H1' Hok Hbases) as Hsim. rewrite Hf1 in Hsim.
      assert (Hvis : visible hr (Some (d, vals)) = Some (d, vals)) by (unfold visible; rewrite Hcv; reflexivity).
      specialize (Hsim ltac:(unfold kst_storable; rewrite Hvis; destruct d; try (apply Hnd; discriminate); apply Hlen; reflexivity) Hvis).
      specialize (Hsim ltac:(intros c0 vs0 Hx; injection Hx as <- <-; exact Hsl)).
      rewrite E1. cbn [bind]. unfold simplify_run in Hsim.
      destruct (simplify_k jv_eqb JNull hr (Some (d, vals))) as [s'|e].
      + destruct Hsim as [b [o' [E2 H2]]]. rewrite E2. cbn [bind snd]. exists o'. split; [reflexivity|].
        apply (upd_upd f k (Some (d, vals))). exact H2.
      + rewrite Hsim. reflexivity.
    - destruct (HoldsW_setkey o hr (stored f) d k (render d vals) HH Hbd) as [o1 [E1 H1]].
      rewrite E1. cbn [bind]. exists o1. split; [reflexivity|]. apply Holds_fresh_set; [exact Hf | exact H1].
  Qed.

  (** the fold of the model over a dictionary *)
  Fixpoint fold_plan (P : key -> list jv -> res plan) (d : list (key * list jv)) (f : key -> kst jv) : res (key -> kst jv) :=
    match d with
    | [] => Ok f
    | (k, vs) :: r => bind (bind (P k vs) run_plan) (fun s' => fold_plan P r (upd f k s'))
    end.

  Definition items (d : list (key * list jv)) : list (str * jv) := map (fun kv => (fst kv, JArr (snd kv))) d.

  (** THE loop lemma.  [enc] is how the dictionary stores a value list (a list for the varying classes, the bare value for
      ('global','const')) *)
  Lemma put_loop_enc (enc : list jv -> jv) (body : str * jv -> jv -> res (ctl R jv)) (P : key -> list jv -> res plan)
        (d : list (key * list jv)) :
    (forall o k vs, In (k, vs) d -> body (k, enc vs) (JObj o) = bind (P k vs) (fun p => code_plan p (JObj o) k)) ->
    (forall k vs dd vals, In (k, vs) d -> P k vs = Ok (dd, vals, true) -> st_ok hr dd vals) ->
    forall (o : obj) (f : key -> kst jv),
    Holds o hr f -> NoDup (map fst d) -> (forall k, In k (map fst d) -> f k = None) ->
    match fold_plan P d f with
    | Ok f' => exists o', py_for (map (fun kv => (fst kv, enc (snd kv))) d) (JObj o) body = Ok (Next (JObj o')) /\ Holds o' hr f'
    | Err e => py_for (map (fun kv => (fst kv, enc (snd kv))) d) (JObj o) body = Err e
    end.
  Proof.
    induction d as [|[k vs] r IH]; intros Hb Hgood o f HH Hnd Hfresh.
    - cbn [fold_plan map py_for]. exists o. split; [reflexivity | exact HH].
    - cbn [fold_plan map py_for fst snd]. rewrite (Hb o k vs (or_introl eq_refl)).
      destruct (P k vs) as [[[dd vals] simp]|e] eqn:EP; [|reflexivity]. cbn [bind].
      assert (Hfk : f k = None) by (apply Hfresh; left; reflexivity).
      pose proof (put_step o f k dd vals simp HH Hfk) as Hst.
      specialize (Hst ltac:(intros ->; exact (Hgood k vs dd vals (or_introl eq_refl) EP))).
      destruct (run_plan (dd, vals, simp)) as [s'|e].
      + destruct Hst as [o' [E H]]. rewrite E. cbn [bind].
        inversion Hnd as [|? ? Hni Hnd']; subst.
        refine (IH (fun o0 k0 vs0 Hin => Hb o0 k0 vs0 (or_intror Hin)) (fun k0 vs0 dd0 vals0 Hin => Hgood k0 vs0 dd0 vals0 (or_intror Hin))
                   o' (upd f k s') H Hnd' _).
        intros k' Hk'. unfold upd, key_eqb. destruct (str_eqb k' k) eqn:E'.
        * apply str_eqb_eq in E'. subst k'. contradiction.
        * apply Hfresh. right. exact Hk'.
      + rewrite Hst. reflexivity.
  Qed.

  Lemma put_loop (body : str * jv -> jv -> res (ctl R jv)) (P : key -> list jv -> res plan) (d : list (key * list jv)) :
    (forall o k vs, In (k, vs) d -> body (k, JArr vs) (JObj o) = bind (P k vs) (fun p => code_plan p (JObj o) k)) ->
    (forall k vs dd vals, In (k, vs) d -> P k vs = Ok (dd, vals, true) -> st_ok hr dd vals) ->
    forall (o : obj) (f : key -> kst jv),
    Holds o hr f -> NoDup (map fst d) -> (forall k, In k (map fst d) -> f k = None) ->
    match fold_plan P d f with
    | Ok f' => exists o', py_for (items d) (JObj o) body = Ok (Next (JObj o')) /\ Holds o' hr f'
    | Err e => py_for (items d) (JObj o) body = Err e
    end.
  Proof. exact (put_loop_enc JArr body P d). Qed.
End PutLoop.

(** * _copy_sample: the model per key as a plan *)

Definition sample_dest (hr : hdr) (c : cls) : res cls :=
  match find (fun d => negb (cls_eqb d c) && class_valid hr d) copy_sample_dests_c with
  | Some d => Ok d
  | None => match rev copy_sample_dests_c with d :: _ => Ok d | [] => Err ECrash end
  end.

Definition sample_plan (ho hr : hdr) (c : cls) (sb : cbase) (idx : nat) (vs : list jv) : res plan :=
  if is_samples c then
    if cbase_eqb (base_of c) sb then
      bind (sample_dest hr c) (fun dest =>
      bind (multiplicity hr dest) (fun dm =>
      if dm =? 1 then match nth_error vs idx with Some v => Ok (dest, [v], false) | None => Err EIndex end
      else match shape_at ho 3 with
           | None => Err EIndex
           | Some 0 => Err EValue
           | Some stride => Ok (dest, every_nth idx stride vs, true)
           end))
    else if cls_eqb c TSamples then bind (multiplicity hr c) (fun dm => Ok (c, py_slice (idx * dm) (idx * dm + dm) vs, true))
    else Ok (c, vs, false)
  else
    if cbase_eqb (base_of c) sb then
      match preserving (Some c) with
      | None => Err EKey
      | Some pc => match first_valid hr pc with None => Err EType | Some d => Ok (d, vs, false) end
      end
    else if negb (cbase_eqb (base_of c) BGlobal) then
      match sb with
      | BTime => match n_slices hr with None => Err EType | Some n => Ok (c, py_slice (idx * n) (idx * n + n) vs, true) end
      | _ => Ok (c, vs, false)
      end
    else bind (global_slice_subset ho vs sb idx) (fun sub => Ok (c, sub, true)).

(** one step of the fold is the model's per-key function *)
Lemma copy_sample_k_plan (ho hr : hdr) (c : cls) (vs : list jv) (sb : cbase) (idx : nat) :
  copy_sample_k jv_eqb JNull ho hr c vs sb idx = bind (sample_plan ho hr c sb idx vs) (run_plan hr).
Proof.
  unfold copy_sample_k, sample_plan, sample_dest, run_plan.
  assert (Hput : forall d (l : list jv), bind (put hr d l) (fun s => Ok s) = put hr d l) by (intros d l; destruct (put hr d l); reflexivity).
  destruct (is_samples c).
  - destruct (cbase_eqb (base_of c) sb).
    + match goal with |- bind ?x _ = _ => destruct x as [dest|] end; [|reflexivity]. cbn [bind].
      destruct (multiplicity hr dest) as [dm|]; [|reflexivity]. cbn [bind].
      destruct (dm =? 1).
      * destruct (nth_error vs idx); cbn [bind]; rewrite ?Hput; reflexivity.
      * destruct (shape_at ho 3) as [[|s]|]; reflexivity.
    + destruct (cls_eqb c TSamples); [|cbn [bind]; rewrite Hput; reflexivity]. destruct (multiplicity hr c); reflexivity.
  - destruct (cbase_eqb (base_of c) sb).
    + destruct (preserving (Some c)) as [pc|]; [|reflexivity]. destruct (first_valid hr pc); cbn [bind]; rewrite ?Hput; reflexivity.
    + destruct (negb (cbase_eqb (base_of c) BGlobal)).
      * destruct sb; cbn [bind]; rewrite ?Hput; try reflexivity. destruct (n_slices hr); reflexivity.
      * destruct (global_slice_subset ho vs sb idx); reflexivity.
Qed.

(** what the code computes once per class, before the loops *)
Definition sample_prelude (ho hr : hdr) (c : cls) (sb : cbase) : res unit :=
  if is_samples c then
    if cbase_eqb (base_of c) sb then
      bind (sample_dest hr c) (fun dest => bind (multiplicity hr dest) (fun dm =>
      if dm =? 1 then Ok tt else match shape_at ho 3 with Some _ => Ok tt | None => Err EIndex end))
    else if cls_eqb c TSamples then bind (multiplicity hr c) (fun _ => Ok tt) else Ok tt
  else if cbase_eqb (base_of c) sb then match preserving (Some c) with Some _ => Ok tt | None => Err EKey end
  else Ok tt.

Definition copy_sample_all (ho hr : hdr) (c : cls) (sb : cbase) (idx : nat) (d : list (key * list jv)) (f : key -> kst jv)
  : res (key -> kst jv) :=
  bind (sample_prelude ho hr c sb) (fun _ => fold_plan hr (fun _ vs => sample_plan ho hr c sb idx vs) d f).

(** * The code side *)

Lemma base_names_eq (b' b : cbase) : str_eqb (name_of_base b') (name_of_base b) = cbase_eqb b' b.
Proof. destruct b', b; reflexivity. Qed.

Lemma jassoc_items (d : list (key * list jv)) (k : key) (vs : list jv) :
  NoDup (map fst d) -> In (k, vs) d -> jassoc k (items d) = Some (JArr vs).
Proof.
  unfold items. induction d as [|[k0 v0] r IH]; intros Hnd Hin; [destruct Hin|].
  cbn [map fst snd jassoc]. inversion Hnd as [|? ? Hni Hnd']; subst. destruct Hin as [Hin|Hin].
  - injection Hin as -> ->. rewrite str_eqb_refl. reflexivity.
  - destruct (str_eqb k k0) eqn:E.
    + apply str_eqb_eq in E. subst k0. exfalso. apply Hni. apply in_map_iff. exists (k, vs). split; [reflexivity | exact Hin].
    + apply IH; assumption.
Qed.

(** _global_slice_subset reading the source content: the ('global','slices') dictionary of the source is [items d] *)
Lemma gss_st_eq (ho : hdr) (ost : jv) (d : list (key * list jv)) (k : key) (vs : list jv) (sb : cbase) (idx : nat) :
  get_class_dict_st ost (name_of_cls GSlices) = Ok (JObj (items d)) -> NoDup (map fst d) -> In (k, vs) d ->
  ndim_ok ho = true -> (sb = BVector -> n_slices ho = None -> 4 <= ndim ho) ->
  global_slice_subset_st classifications (shape ho) (n_slices ho) ost k (name_of_base sb) idx
  = rmap JArr (global_slice_subset ho vs sb idx).
Proof.
  intros Hsrc Hnd Hin Hok Hv. unfold global_slice_subset_st, global_slice_subset.
  change ([103; 108; 111; 98; 97; 108]%N, [115; 108; 105; 99; 101; 115]%N) with (name_of_cls GSlices).
  rewrite Hsrc. cbn [bind dyn_getitem]. rewrite (jassoc_items d k vs Hnd Hin). cbn [bind dyn_slice dyn_iter].
  rewrite get_valid_classes_src_eq, Hok. cbn [bind].
  change ([118; 101; 99; 116; 111; 114]%N, [115; 97; 109; 112; 108; 101; 115]%N) with (name_of_cls VSamples).
  rewrite py_in_names. fold (class_valid ho VSamples).
  unfold shape_at.
  destruct sb; cbn [name_of_base str_eqb s_global s_time s_vector N.eqb Pos.eqb andb].
  - destruct (n_slices ho) as [n|]; cbn [py_nat_o bind];
      [|destruct (class_valid ho VSamples) eqn:Ecv; [destruct (vsamples_5d ho Ecv) as (a & b & c & d0 & e & Hsh); rewrite Hsh|]; reflexivity].
    destruct (class_valid ho VSamples); cbn [negb].
    + unfold PyOps2.py_index. destruct (nth_error (shape ho) 3) as [t|]; [|reflexivity]. cbn [bind].
      destruct (nth_error (shape ho) 4) as [v|]; [|reflexivity]. cbn [bind].
      rewrite (py_for_app _ (fun vec => py_slice (vec * (n * t) + idx * n) (vec * (n * t) + idx * n + n) vs)).
      * cbn [bind rmap app]. unfold py_range. rewrite Nat.sub_0_r. reflexivity.
      * intros vec a. rewrite pslice_pos. reflexivity.
    + rewrite pslice_pos. unfold py_slice. reflexivity.
  - destruct (n_slices ho) as [n|]; cbn [py_nat_o bind];
      [|destruct (class_valid ho VSamples) eqn:Ecv; [destruct (vsamples_5d ho Ecv) as (a & b & c & d0 & e & Hsh); rewrite Hsh|]; reflexivity].
    destruct (class_valid ho VSamples); cbn [negb].
    + unfold PyOps2.py_index. destruct (nth_error (shape ho) 3) as [t|]; [|reflexivity]. cbn [bind].
      destruct (nth_error (shape ho) 4) as [v|]; [|reflexivity]. cbn [bind].
      rewrite (py_for_app _ (fun vec => py_slice (vec * (n * t) + idx * n) (vec * (n * t) + idx * n + n) vs)).
      * cbn [bind rmap app]. unfold py_range. rewrite Nat.sub_0_r. reflexivity.
      * intros vec a. rewrite pslice_pos. reflexivity.
    + rewrite pslice_pos. unfold py_slice. reflexivity.
  - unfold PyOps2.py_index. destruct (n_slices ho) as [n|] eqn:En.
    + destruct (nth_error (shape ho) 3) as [t|]; [|reflexivity]. cbn [bind py_nat_o rmap]. rewrite pslice_pos. unfold py_slice. reflexivity.
    + specialize (Hv eq_refl eq_refl). unfold ndim in Hv.
      destruct (nth_error (shape ho) 3) as [t|] eqn:E3; [reflexivity|].
      apply nth_error_None in E3. lia.
Qed.

(** the loop lemma in the form the sites use it *)
Lemma site (hr : hdr) (body : str * jv -> jv -> res (ctl (unit * jv) jv)) (P : key -> list jv -> res plan)
      (d : list (key * list jv)) (o : obj) (f : key -> kst jv) :
  ndim_ok hr = true -> bases_ok hr ->
  (forall o k vs, In (k, vs) d -> body (k, JArr vs) (JObj o) = bind (P k vs) (fun p => code_plan hr p (JObj o) k)) ->
  (forall k vs dd vals, In (k, vs) d -> P k vs = Ok (dd, vals, true) -> st_ok hr dd vals) ->
  Holds o hr f -> NoDup (map fst d) -> (forall k, In k (map fst d) -> f k = None) ->
  match fold_plan hr P d f with
  | Ok f' => exists o', bind (py_for (items d) (JObj o) body) (fun c => match c with Ret rv => Ok rv | Next st => Ok (tt, st) end)
                        = Ok (tt, JObj o') /\ Holds o' hr f'
  | Err e => bind (py_for (items d) (JObj o) body) (fun c => match c with Ret rv => Ok rv | Next st => Ok (tt, st) end) = Err e
  end.
Proof.
  intros Hok Hbases Hb Hg HH Hnd Hfr.
  pose proof (put_loop hr Hok Hbases body P d Hb Hg o f HH Hnd Hfr) as H.
  destruct (fold_plan hr P d f) as [f'|e].
  - destruct H as [o' [E H]]. exists o'. split; [rewrite E; reflexivity | exact H].
  - rewrite H. reflexivity.
Qed.

(** * The two-pass site: store every key, then simplify every key

    (dest_mult <> 1 branch of the same-base samples case).  Stores cannot fail differently for different keys, and _simplify
    of one key reads and writes only that key, so the two passes compute, key by key, what the single pass computes. *)

Definition feq (f g : key -> kst jv) : Prop := forall k, f k = g k.
Definition res_feq (a b : res (key -> kst jv)) : Prop :=
  match a, b with Ok f, Ok g => feq f g | Err e, Err e' => e = e' | _, _ => False end.

Lemma Holds_feq (o : obj) (h : hdr) (f g : key -> kst jv) : feq f g -> Holds o h f -> Holds o h g.
Proof. intros E. apply HoldsW_ext. intros c k _. unfold stored. rewrite (E k). reflexivity. Qed.

Lemma upd_other (f : key -> kst jv) (k k' : key) (s : kst jv) : k' <> k -> upd f k s k' = f k'.
Proof.
  intros Hn. unfold upd, key_eqb. destruct (str_eqb k' k) eqn:E; [|reflexivity]. apply str_eqb_eq in E. contradiction.
Qed.
Lemma upd_same (f : key -> kst jv) (k : key) (s : kst jv) : upd f k s k = s.
Proof. unfold upd, key_eqb. rewrite str_eqb_refl. reflexivity. Qed.

Section TwoPass.
  Variable hr : hdr.
  Hypothesis Hok : ndim_ok hr = true.
  Hypothesis Hbases : bases_ok hr.
  Variable dest : cls.
  Variable g : list jv -> list jv.

  Fixpoint simp_fold (ks : list key) (f : key -> kst jv) : res (key -> kst jv) :=
    match ks with
    | [] => Ok f
    | k :: r => bind (simplify_k jv_eqb JNull hr (f k)) (fun s' => simp_fold r (upd f k s'))
    end.

  Definition puts (d : list (key * list jv)) (f : key -> kst jv) : key -> kst jv :=
    fold_left (fun f kv => upd f (fst kv) (Some (dest, g (snd kv)))) d f.

  Lemma puts_congr (d : list (key * list jv)) (k : key) : forall f f', f k = f' k -> puts d f k = puts d f' k.
  Proof.
    induction d as [|[k0 vs] r IH]; intros f f' E; [exact E|]. cbn [puts fold_left fst snd]. apply IH.
    unfold upd. destruct (key_eqb k k0); [reflexivity | exact E].
  Qed.

  Lemma puts_other (d : list (key * list jv)) (k : key) : forall f, ~ In k (map fst d) -> puts d f k = f k.
  Proof.
    induction d as [|[k0 vs] r IH]; intros f Hn; [reflexivity|]. cbn [puts fold_left fst snd].
    cbn [map fst In] in Hn. fold (puts r (upd f k0 (Some (dest, g vs)))). rewrite IH by tauto.
    apply upd_other. intros ->. tauto.
  Qed.

  Lemma simp_fold_ext (ks : list key) : forall f f', feq f f' -> res_feq (simp_fold ks f) (simp_fold ks f').
  Proof.
    induction ks as [|k r IH]; intros f f' E; [exact E|]. cbn [simp_fold]. rewrite <- (E k).
    destruct (simplify_k jv_eqb JNull hr (f k)) as [s'|e]; [|reflexivity]. cbn [bind]. apply IH.
    intros k'. unfold upd. destruct (key_eqb k' k); [reflexivity | apply E].
  Qed.

  Lemma res_feq_trans (a b c : res (key -> kst jv)) : res_feq a b -> res_feq b c -> res_feq a c.
  Proof.
    destruct a as [fa|ea], b as [fb|eb], c as [fc|ec]; unfold res_feq; try tauto; try congruence;
      try (intros H1 H2 k; rewrite (H1 k); apply H2).
  Qed.

  Let P (simp : bool) : key -> list jv -> res plan := fun _ vs => Ok (dest, g vs, simp).

  Lemma fold_store (d : list (key * list jv)) : has_base hr (base_of dest) = true ->
    forall f, fold_plan hr (P false) d f = Ok (puts d f).
  Proof.
    intros Hb. induction d as [|[k vs] r IH]; intros f; [reflexivity|].
    cbn [fold_plan puts fold_left fst snd]. unfold P at 1. cbn [bind run_plan]. unfold put. rewrite Hb. cbn [bind]. apply IH.
  Qed.

  Lemma fold_nobase (d : list (key * list jv)) (simp : bool) (f : key -> kst jv) : has_base hr (base_of dest) = false ->
    fold_plan hr (P simp) d f = match d with [] => Ok f | _ => Err EKey end.
  Proof.
    intros Hb. destruct d as [|[k vs] r]; [reflexivity|]. cbn [fold_plan]. unfold P at 1. cbn [bind run_plan]. unfold put. rewrite Hb. reflexivity.
  Qed.

  Lemma two_pass (d : list (key * list jv)) : has_base hr (base_of dest) = true -> NoDup (map fst d) ->
    forall f, res_feq (fold_plan hr (P true) d f) (simp_fold (map fst d) (puts d f)).
  Proof.
    intros Hb. induction d as [|[k vs] r IH]; intros Hnd f; [intros k; reflexivity|].
    inversion Hnd as [|? ? Hni Hnd']; subst.
    cbn [fold_plan puts fold_left fst snd map simp_fold]. fold (puts r (upd f k (Some (dest, g vs)))).
    unfold P at 1. cbn [bind run_plan]. unfold put. rewrite Hb. cbn [bind].
    rewrite (puts_other r k _ Hni), upd_same.
    destruct (simplify_k jv_eqb JNull hr (Some (dest, g vs))) as [s'|e]; [|reflexivity]. cbn [bind].
    eapply res_feq_trans; [apply (IH Hnd')|]. apply simp_fold_ext. intros k'.
    destruct (str_eqb k' k) eqn:E.
    - apply str_eqb_eq in E. subst k'. rewrite upd_same, (puts_other r k _ Hni), upd_same. reflexivity.
    - assert (Hne : k' <> k) by (intros ->; rewrite str_eqb_refl in E; discriminate).
      rewrite (upd_other _ k k' s' Hne). apply puts_congr. rewrite !upd_other by exact Hne. reflexivity.
  Qed.

  (** the second pass in the code *)
  Lemma simp_loop (ks : list key) : forall (o : obj) (f : key -> kst jv),
    Holds o hr f -> NoDup ks -> (forall k, In k ks -> exists vals, f k = Some (dest, vals) /\ st_ok hr dest vals) ->
    match simp_fold ks f with
    | Ok f' => exists o', py_for ks (JObj o) (fun key st =>
                 bind (simplify_st classifications (shape hr) (n_slices hr) (okeys const_tests) (okeys repeat_tests) st key)
                      (fun p => Ok (@Next (unit * jv) jv (snd p)))) = Ok (Next (JObj o')) /\ Holds o' hr f'
    | Err e => py_for ks (JObj o) (fun key st =>
                 bind (simplify_st classifications (shape hr) (n_slices hr) (okeys const_tests) (okeys repeat_tests) st key)
                      (fun p => Ok (@Next (unit * jv) jv (snd p)))) = Err e
    end.
  Proof.
    induction ks as [|k r IH]; intros o f HH Hnd Hall.
    - cbn [simp_fold py_for]. exists o. split; [reflexivity | exact HH].
    - cbn [simp_fold py_for]. destruct (Hall k (or_introl eq_refl)) as [vals [Hfk [Hcv [Hlen [Hndg Hsl]]]]].
      inversion Hnd as [|? ? Hni Hnd']; subst.
      pose proof (simplify_st_ref o hr f k HH Hok Hbases) as Hsim. rewrite Hfk in Hsim.
      assert (Hvis : visible hr (Some (dest, vals)) = Some (dest, vals)) by (unfold visible; rewrite Hcv; reflexivity).
      specialize (Hsim ltac:(unfold kst_storable; rewrite Hvis; destruct dest; try (apply Hndg; discriminate); apply Hlen; reflexivity) Hvis).
      specialize (Hsim ltac:(intros c0 vs0 Hx; injection Hx as <- <-; exact Hsl)).
      unfold simplify_run in Hsim. rewrite Hfk.
      destruct (simplify_k jv_eqb JNull hr (Some (dest, vals))) as [s'|e].
      + destruct Hsim as [b [o' [E2 H2]]]. rewrite E2. cbn [bind snd].
        apply (IH o' (upd f k s') H2 Hnd'). intros k' Hk'. rewrite upd_other by (intros ->; contradiction).
        apply Hall. right. exact Hk'.
      + rewrite Hsim. reflexivity.
  Qed.
End TwoPass.

(** * Reading the tables *)

Lemma preserving_names (c : cls) :
  match preserving (Some c) with
  | Some pc => read_preserving (Some (name_of_cls c)) = Ok (map name_of_cls pc)
  | None => read_preserving (Some (name_of_cls c)) = Err EKey
  end.
Proof. destruct c; vm_compute; reflexivity. Qed.

Lemma preserving_slices_dest (hr : hdr) (c d : cls) (pc : list cls) :
  is_samples c = false -> c <> GConst -> base_of c <> BGlobal -> preserving (Some c) = Some pc -> first_valid hr pc = Some d -> d <> GConst.
Proof.
  intros Hs Hc Hb Hp Hf. apply find_some in Hf. destruct Hf as [Hin _]. intros ->.
  destruct c; try discriminate Hs; try (exfalso; apply Hc; reflexivity); try (exfalso; apply Hb; reflexivity);
    vm_compute in Hp; injection Hp as <-; cbn [In] in Hin; repeat (destruct Hin as [Hin|Hin]; [discriminate Hin|]); exact Hin.
Qed.

(** the destination search of the same-base samples case: only the loop variable is read after the loop *)
Lemma sample_dest_loop (hr : hdr) (c : cls) : ndim_ok hr = true -> is_samples c = true ->
  exists dest r, sample_dest hr c = Ok dest /\
    py_for_b [([118; 101; 99; 116; 111; 114]%N, [115; 97; 109; 112; 108; 101; 115]%N); ([103; 108; 111; 98; 97; 108]%N, [99; 111; 110; 115; 116]%N)]
      (@None (str * str)%type, @None (str * str)%type)
      (fun dest_cls '(best_dest, dest_cls__o) =>
         bind (if negb (py_pair_eqb str_eqb str_eqb dest_cls (name_of_cls c))
               then bind (get_valid_classes_src classifications (shape hr)) (fun t => Ok (py_in (py_pair_eqb str_eqb str_eqb) dest_cls t))
               else Ok false) (fun t =>
         if t then Ok (@BrkB (unit * jv) _ (Some dest_cls, Some dest_cls)) else Ok (NextB (best_dest, Some dest_cls))))
    = Ok r /\ match r with RetB _ => False | BrkB (_, x) | NextB (_, x) => x = Some (name_of_cls dest) end.
Proof.
  intros Hok Hs. unfold sample_dest.
  change ([118; 101; 99; 116; 111; 114]%N, [115; 97; 109; 112; 108; 101; 115]%N) with (name_of_cls VSamples).
  change ([103; 108; 111; 98; 97; 108]%N, [99; 111; 110; 115; 116]%N) with (name_of_cls GConst).
  cbn [py_for_b]. rewrite !cname_eq_cls, get_valid_classes_src_eq, Hok. cbn [bind]. rewrite !py_in_names.
  fold (class_valid hr VSamples). fold (class_valid hr GConst).
  change copy_sample_dests_c with [VSamples; GConst]. cbn [find rev app].
  destruct c; try discriminate Hs; cbn [cls_eqb negb andb bind];
    destruct (class_valid hr VSamples); cbn [bind]; try (eexists; eexists; split; [reflexivity|]; split; reflexivity);
    destruct (class_valid hr GConst); cbn [bind]; eexists; eexists; (split; [reflexivity|]; split; reflexivity).
Qed.

Lemma fold_plan_ext (hr : hdr) (P P' : key -> list jv -> res plan) (d : list (key * list jv)) :
  (forall k vs, P k vs = P' k vs) -> forall f, fold_plan hr P d f = fold_plan hr P' d f.
Proof.
  intros E. induction d as [|[k vs] r IH]; intros f; [reflexivity|]. cbn [fold_plan]. rewrite E.
  destruct (bind (P' k vs) (run_plan hr)); [|reflexivity]. cbn [bind]. apply IH.
Qed.

Lemma map_fst_items (d : list (key * list jv)) : map fst (items d) = map fst d.
Proof. unfold items. rewrite map_map. reflexivity. Qed.

Lemma puts_in (dest : cls) (g : list jv -> list jv) (d : list (key * list jv)) (k : key) (vs : list jv) :
  NoDup (map fst d) -> In (k, vs) d -> forall f, puts dest g d f k = Some (dest, g vs).
Proof.
  induction d as [|[k0 vs0] r IH]; intros Hnd Hin f; [destruct Hin|].
  inversion Hnd as [|? ? Hni Hnd']; subst. cbn [puts fold_left fst snd]. fold (puts dest g r (upd f k0 (Some (dest, g vs0)))).
  destruct Hin as [Hin|Hin].
  - injection Hin as -> ->. rewrite (puts_other dest g r k _ Hni). apply upd_same.
  - apply IH; assumption.
Qed.

(** * The translated method: one lemma per loop site, all instances of [site] *)

(** the translated _copy_sample on a result whose header is hr, reading a source whose header is ho *)
Definition sample_code (o : obj) (ho hr : hdr) (ost : jv) (c : cls) (sb : cbase) (idx : nat) : res (unit * jv) :=
  copy_sample_st classifications (shape hr) (n_slices hr) preserving_changes (okeys const_tests) (okeys repeat_tests) (JObj o)
                 classifications (shape ho) (n_slices ho) ost (name_of_cls c) (name_of_base sb) idx.

Ltac site_cbn := cbn [name_of_cls base_of sub_of name_of_base name_of_sub fst snd py_pair_eqb str_eqb s_global s_time s_vector s_const s_slices s_samples N.eqb Pos.eqb andb negb].

Section Sites.
  Variables (o : obj) (ho hr : hdr) (f : key -> kst jv) (ost : jv) (idx : nat) (d : list (key * list jv)).
  Hypothesis HH : Holds o hr f.
  Hypothesis Hok : ndim_ok hr = true.
  Hypothesis Hbases : bases_ok hr.
  Hypothesis Hnd : NoDup (map fst d).
  Hypothesis Hfr : forall k, In k (map fst d) -> f k = None.

  (* S3: time samples, vector subset *)
  Lemma site_ts_v :
  get_class_dict_st ost (name_of_cls TSamples) = Ok (JObj (items d)) ->
  (forall k vs dd vals, In (k, vs) d -> sample_plan ho hr TSamples BVector idx vs = Ok (dd, vals, true) -> st_ok hr dd vals) ->
  match copy_sample_all ho hr TSamples BVector idx d f with
  | Ok f' => exists o', sample_code o ho hr ost TSamples BVector idx = Ok (tt, JObj o') /\ Holds o' hr f'
  | Err e => sample_code o ho hr ost TSamples BVector idx = Err e
  end.
  Proof.
    intros Hsrc Hgood.
    unfold copy_sample_all, sample_code, copy_sample_st. site_cbn.
    change ([116; 105; 109; 101]%N, [115; 97; 109; 112; 108; 101; 115]%N) with (name_of_cls TSamples).
    rewrite Hsrc. cbn [bind dyn_items].
    unfold sample_prelude. cbn [is_samples base_of sub_of cbase_eqb cls_eqb bind].
    rewrite get_multiplicity_src_eq.
    destruct (multiplicity hr TSamples) as [dm|e] eqn:Em; cbn [bind]; [|reflexivity].
    apply (site hr _ _ d o f Hok Hbases); try assumption.
    intros o0 k vs Hin. unfold sample_plan. cbn [is_samples base_of sub_of cbase_eqb cls_eqb bind]. rewrite Em.
    cbn [bind dyn_slice]. rewrite pslice_pos. reflexivity.
  Qed.

  (* S4 / S7: plain copies *)
  Lemma site_copy (c : cls) (sb : cbase) :
  (c = VSamples /\ sb = BTime) \/ (c = TSlices /\ sb = BVector) ->
  get_class_dict_st ost (name_of_cls c) = Ok (JObj (items d)) ->
  match copy_sample_all ho hr c sb idx d f with
  | Ok f' => exists o', sample_code o ho hr ost c sb idx = Ok (tt, JObj o') /\ Holds o' hr f'
  | Err e => sample_code o ho hr ost c sb idx = Err e
  end.
  Proof.
    intros Hc Hsrc. unfold copy_sample_all, sample_code, copy_sample_st.
    destruct Hc as [[-> ->]|[-> ->]]; site_cbn.
    - change ([118; 101; 99; 116; 111; 114]%N, [115; 97; 109; 112; 108; 101; 115]%N) with (name_of_cls VSamples).
      rewrite Hsrc; cbn [bind dyn_items];
      unfold sample_prelude; cbn [is_samples base_of sub_of cbase_eqb cls_eqb bind];
      (apply (site hr _ _ d o f Hok Hbases); try assumption;
       [ intros o0 k vs Hin; reflexivity
       | intros k vs dd vals Hin Hp; discriminate Hp ]).
    - change ([116; 105; 109; 101]%N, [115; 108; 105; 99; 101; 115]%N) with (name_of_cls TSlices).
      rewrite Hsrc; cbn [bind dyn_items];
      unfold sample_prelude; cbn [is_samples base_of sub_of cbase_eqb cls_eqb bind];
      (apply (site hr _ _ d o f Hok Hbases); try assumption;
       [ intros o0 k vs Hin; reflexivity
       | intros k vs dd vals Hin Hp; discriminate Hp ]).
  Qed.

  (* S6: vector slices, time subset *)
  Lemma site_vsl_t :
  get_class_dict_st ost (name_of_cls VSlices) = Ok (JObj (items d)) ->
  (forall k vs dd vals, In (k, vs) d -> sample_plan ho hr VSlices BTime idx vs = Ok (dd, vals, true) -> st_ok hr dd vals) ->
  match copy_sample_all ho hr VSlices BTime idx d f with
  | Ok f' => exists o', sample_code o ho hr ost VSlices BTime idx = Ok (tt, JObj o') /\ Holds o' hr f'
  | Err e => sample_code o ho hr ost VSlices BTime idx = Err e
  end.
  Proof.
    intros Hsrc Hgood.
    unfold copy_sample_all, sample_code, copy_sample_st. site_cbn.
    change ([118; 101; 99; 116; 111; 114]%N, [115; 108; 105; 99; 101; 115]%N) with (name_of_cls VSlices).
    rewrite Hsrc. cbn [bind dyn_items].
    unfold sample_prelude. cbn [is_samples base_of sub_of cbase_eqb cls_eqb bind].
    apply (site hr _ _ d o f Hok Hbases); try assumption.
    intros o0 k vs Hin. unfold sample_plan. cbn [is_samples base_of sub_of cbase_eqb cls_eqb bind negb].
    unfold code_plan. destruct (n_slices hr) as [n|]; [|reflexivity]. cbn [py_nat_o bind dyn_slice]. rewrite pslice_pos. reflexivity.
  Qed.

  (* S8: global slices *)
  Lemma site_gsl (sb : cbase) :
  sb <> BGlobal -> ndim_ok ho = true -> (sb = BVector -> n_slices ho = None -> 4 <= ndim ho) ->
  get_class_dict_st ost (name_of_cls GSlices) = Ok (JObj (items d)) ->
  (forall k vs dd vals, In (k, vs) d -> sample_plan ho hr GSlices sb idx vs = Ok (dd, vals, true) -> st_ok hr dd vals) ->
  match copy_sample_all ho hr GSlices sb idx d f with
  | Ok f' => exists o', sample_code o ho hr ost GSlices sb idx = Ok (tt, JObj o') /\ Holds o' hr f'
  | Err e => sample_code o ho hr ost GSlices sb idx = Err e
  end.
  Proof.
    intros Hsb Hoko Hv Hsrc Hgood.
    assert (Hcode : sample_code o ho hr ost GSlices sb idx =
      bind (py_for (items d) (JObj o) (fun '(key, vals) st__ =>
              bind (global_slice_subset_st classifications (shape ho) (n_slices ho) ost key (name_of_base sb) idx) (fun t =>
              bind (dyn_set2 st__ s_global s_slices key t) (fun st__0 =>
              bind (simplify_st classifications (shape hr) (n_slices hr) (okeys const_tests) (okeys repeat_tests) st__0 key) (fun p =>
              Ok (Next (snd p)))))))
           (fun c => match c with Ret rv => Ok rv | Next st => Ok (tt, st) end)).
    { unfold sample_code, copy_sample_st.
      destruct sb; [exfalso; apply Hsb; reflexivity| |]; site_cbn;
      change ([103; 108; 111; 98; 97; 108]%N, [115; 108; 105; 99; 101; 115]%N) with (name_of_cls GSlices);
      rewrite Hsrc; reflexivity. }
    rewrite Hcode. unfold copy_sample_all.
    replace (sample_prelude ho hr GSlices sb) with (@Ok unit tt) by (destruct sb; try reflexivity; exfalso; apply Hsb; reflexivity).
    cbn [bind].
    apply (site hr _ _ d o f Hok Hbases); try assumption.
    intros o0 k vs Hin. rewrite (gss_st_eq ho ost d k vs sb idx Hsrc Hnd Hin Hoko Hv).
    unfold sample_plan. replace (cbase_eqb (base_of GSlices) sb) with false by (destruct sb; try reflexivity; exfalso; apply Hsb; reflexivity).
    cbn [is_samples base_of sub_of cbase_eqb negb].
    destruct (global_slice_subset ho vs sb idx) as [sub|e]; reflexivity.
  Qed.

  (* S5: same-base slices *)
  Lemma site_sl_same (c : cls) (sb : cbase) :
  (c = TSlices /\ sb = BTime) \/ (c = VSlices /\ sb = BVector) ->
  get_class_dict_st ost (name_of_cls c) = Ok (JObj (items d)) ->
  match copy_sample_all ho hr c sb idx d f with
  | Ok f' => exists o', sample_code o ho hr ost c sb idx = Ok (tt, JObj o') /\ Holds o' hr f'
  | Err e => sample_code o ho hr ost c sb idx = Err e
  end.
  Proof.
    intros Hc Hsrc.
    assert (Hcode : sample_code o ho hr ost c sb idx =
      bind (read_preserving (Some (name_of_cls c))) (fun t =>
      bind (py_for_b t (@None (str * str)%type) (fun dest_class best_dest =>
              bind (get_valid_classes_src classifications (shape hr)) (fun t0 =>
              if py_in (py_pair_eqb str_eqb str_eqb) dest_class t0 then Ok (@BrkB (unit * jv) _ (Some dest_class)) else Ok (NextB best_dest))))
       (fun c34 => match c34 with
        | RetB rv => Ok rv
        | BrkB best_dest | NextB best_dest =>
          bind (py_for (items d) (JObj o) (fun '(key, vals) st__ =>
              bind (py_some best_dest) (fun t36 => bind (dyn_set2 st__ (fst t36) (snd t36) key vals) (fun st__0 => Ok (Next st__0)))))
           (fun c => match c with Ret rv => Ok rv | Next st => Ok (tt, st) end)
        end))).
    { unfold sample_code, copy_sample_st, read_preserving.
      destruct Hc as [[-> ->]|[-> ->]]; site_cbn.
      - change ([116; 105; 109; 101]%N, [115; 108; 105; 99; 101; 115]%N) with (name_of_cls TSlices).
        rewrite Hsrc. reflexivity.
      - change ([118; 101; 99; 116; 111; 114]%N, [115; 108; 105; 99; 101; 115]%N) with (name_of_cls VSlices).
        rewrite Hsrc. reflexivity. }
    rewrite Hcode. clear Hcode.
    pose proof (preserving_names c) as Hp. unfold copy_sample_all, sample_prelude.
    assert (Hs : is_samples c = false) by (destruct Hc as [[-> ->]|[-> ->]]; reflexivity).
    assert (Hb : cbase_eqb (base_of c) sb = true) by (destruct Hc as [[-> ->]|[-> ->]]; reflexivity).
    assert (Hcc : c <> GConst) by (destruct Hc as [[-> _]|[-> _]]; discriminate).
    assert (Hbg : base_of c <> BGlobal) by (destruct Hc as [[-> _]|[-> _]]; discriminate).
    rewrite Hs, Hb.
    destruct (preserving (Some c)) as [pc|] eqn:Ep; rewrite Hp; cbn [bind]; [|reflexivity].
    rewrite (dest_loop hr pc Hok).
    assert (Hplan : forall vs, sample_plan ho hr c sb idx vs
                    = match first_valid hr pc with None => Err EType | Some d0 => Ok (d0, vs, false) end).
    { intros vs. unfold sample_plan. rewrite Hs, Hb, Ep. reflexivity. }
    pose proof (preserving_slices_dest hr c) as Hdest. specialize (fun d0 => Hdest d0 pc Hs Hcc Hbg Ep).
    destruct (first_valid hr pc) as [d0|] eqn:Ef;
      (apply (site hr _ _ d o f Hok Hbases); try assumption;
       [ intros o0 k vs Hin; rewrite Hplan; cbn [py_some bind code_plan];
         try (specialize (Hdest d0 eq_refl); destruct d0; try (exfalso; apply Hdest; reflexivity)); reflexivity
       | intros k vs dd vals Hin Hp'; rewrite Hplan in Hp'; discriminate Hp' ]).
  Qed.

  Ltac site_cbn2 := cbn [name_of_cls base_of sub_of name_of_base name_of_sub fst snd str_eqb s_global s_time s_vector s_const s_slices s_samples N.eqb Pos.eqb andb negb].

  (* the code after the destination search of the same-base samples case *)
  Definition same_tail (dco : option (str * str)) : res (unit * jv) :=
    bind (py_unbound dco) (fun t5 =>
    bind (get_multiplicity_src classifications (shape hr) (n_slices hr) t5) (fun t6 =>
    if t6 =? 1 then
      bind (py_for (items d) (JObj o) (fun '(key, vals) st__ =>
              bind (dyn_getidx vals (BPos idx)) (fun t8 => bind (py_unbound dco) (fun t9 =>
              bind (dyn_set2 st__ (fst t9) (snd t9) key t8) (fun st__0 => Ok (Next st__0))))))
           (fun c => match c with Ret rv => Ok rv | Next st => Ok (tt, st) end)
    else
      bind (py_index (shape ho) (BPos 3)) (fun t12 =>
      bind (py_for (items d) (JObj o) (fun '(key, vals) st__ =>
              bind (dyn_slice_step (Some (BPos idx)) None t12 vals) (fun t14 => bind (py_unbound dco) (fun t15 =>
              bind (dyn_set2 st__ (fst t15) (snd t15) key t14) (fun st__0 => Ok (Next st__0))))))
           (fun c16 => match c16 with
            | Ret rv => Ok rv
            | Next st__ =>
              bind (py_for (map fst (items d)) st__ (fun key st__0 =>
                      bind (simplify_st classifications (shape hr) (n_slices hr) (okeys const_tests) (okeys repeat_tests) st__0 key)
                           (fun p => Ok (Next (snd p)))))
                   (fun c19 => match c19 with Ret rv => Ok rv | Next st__0 => Ok (tt, st__0) end)
            end)))).

  Lemma same_tail_ref (c : cls) (sb : cbase) (dest : cls) :
  is_samples c = true -> cbase_eqb (base_of c) sb = true -> sample_dest hr c = Ok dest ->
  (forall k vs dd vals, In (k, vs) d -> sample_plan ho hr c sb idx vs = Ok (dd, vals, true) -> st_ok hr dd vals) ->
  (multiplicity hr dest = Ok 1 -> dest = GConst) ->
  match copy_sample_all ho hr c sb idx d f with
  | Ok f' => exists o', same_tail (Some (name_of_cls dest)) = Ok (tt, JObj o') /\ Holds o' hr f'
  | Err e => same_tail (Some (name_of_cls dest)) = Err e
  end.
  Proof.
    intros Hs Hb Hd Hgood Hdeg. unfold same_tail, copy_sample_all, sample_prelude. rewrite Hs, Hb, Hd.
    cbn [py_unbound bind]. rewrite get_multiplicity_src_eq.
    destruct (multiplicity hr dest) as [dm|e] eqn:Em; cbn [bind]; [|reflexivity].
    assert (Hplan : forall vs, sample_plan ho hr c sb idx vs =
       if dm =? 1 then match nth_error vs idx with Some v => Ok (dest, [v], false) | None => Err EIndex end
       else match shape_at ho 3 with
           | None => Err EIndex
           | Some 0 => Err EValue
           | Some stride => Ok (dest, every_nth idx stride vs, true)
           end).
    { intros vs. unfold sample_plan. rewrite Hs, Hb, Hd. cbn [bind]. rewrite Em. reflexivity. }
    destruct (dm =? 1) eqn:E1.
    - (* the destination has multiplicity 1: one value, stored bare *)
      apply Nat.eqb_eq in E1. subst dm. rewrite (Hdeg eq_refl) in *.
      apply (site hr _ _ d o f Hok Hbases); try assumption.
      intros o0 k vs Hin. rewrite Hplan. cbn [dyn_getidx]. unfold py_index.
      destruct (nth_error vs idx); reflexivity.
    - unfold py_index. fold (shape_at ho 3) in *. 
      destruct (shape_at ho 3) as [[|s]|] eqn:Esh; cbn [bind]; [| |reflexivity].
      + (* stride 0: ValueError at the first key *)
        destruct d as [|[k vs] r].
        * cbn. exists o. split; [reflexivity | exact HH].
        * cbn [fold_plan]. rewrite Hplan. reflexivity.
      + assert (Hdc : dest <> GConst).
        { intros ->. unfold multiplicity in Em. destruct (negb (class_valid hr GConst)); [discriminate Em|].
          injection Em as <-. discriminate E1. }
        set (g := @every_nth jv idx (S s)).
        rewrite (fold_plan_ext hr _ (fun _ vs => Ok (dest, g vs, true)) d (fun _ vs => Hplan vs)).
        match goal with |- context [py_for (items d) (JObj o) ?b] => set (body1 := b) end.
        assert (Hb1 : forall o0 k vs, In (k, vs) d ->
          body1 (k, JArr vs) (JObj o0) = bind (Ok (dest, g vs, false)) (fun p => code_plan hr p (JObj o0) k)).
        { intros o0 k vs Hin. unfold body1. cbn [dyn_slice_step Nat.eqb py_unbound bind code_plan]. rewrite py_every_skip by lia.
          destruct dest; try (exfalso; apply Hdc; reflexivity); reflexivity. }
        clearbody body1.
        pose proof (put_loop hr Hok Hbases body1 (fun _ vs => Ok (dest, g vs, false)) d Hb1
                      ltac:(intros k vs dd vals Hin Hp; discriminate Hp) o f HH Hnd Hfr) as H1.
        destruct (has_base hr (base_of dest)) eqn:Hbd.
        * rewrite (fold_store hr dest g d Hbd) in H1. destruct H1 as [o1 [E1' H1]]. rewrite E1'. cbn [bind].
          rewrite map_fst_items.
          pose proof (simp_loop hr Hok Hbases dest g (map fst d) o1 (puts dest g d f) H1 Hnd) as H2.
          specialize (H2 ltac:(intros k Hk; apply in_map_iff in Hk; destruct Hk as [[k0 vs] [<- Hin]]; exists (g vs); split;
                               [apply puts_in; assumption | apply (Hgood k0 vs); [exact Hin | rewrite Hplan; reflexivity]])).
          pose proof (two_pass hr dest g d Hbd Hnd f) as H3. unfold res_feq in H3.
          destruct (simp_fold hr (map fst d) (puts dest g d f)) as [f2|e2];
            destruct (fold_plan hr (fun _ vs => Ok (dest, g vs, true)) d f) as [f'|e']; try contradiction.
          -- destruct H2 as [o2 [E2 H2]]. unfold Types.key in *. rewrite E2. cbn [bind]. exists o2. split; [reflexivity|].
             apply (Holds_feq o2 hr f2 f'); [intros k; symmetry; apply H3 | exact H2].
          -- unfold Types.key in *. rewrite H2. subst e'. reflexivity.
        * rewrite (fold_nobase hr dest g d false f Hbd) in H1. rewrite (fold_nobase hr dest g d true f Hbd).
          destruct d as [|kv r].
          -- destruct H1 as [o1 [E1' H1]]. cbn in E1'. injection E1' as <-. cbn. exists o. split; [reflexivity | exact HH].
          -- rewrite H1. reflexivity.
  Qed.

  (* S1 / S2: same-base samples *)
  Lemma site_sa_same (c : cls) (sb : cbase) :
  (c = TSamples /\ sb = BTime) \/ (c = VSamples /\ sb = BVector) ->
  get_class_dict_st ost (name_of_cls c) = Ok (JObj (items d)) ->
  (forall k vs dd vals, In (k, vs) d -> sample_plan ho hr c sb idx vs = Ok (dd, vals, true) -> st_ok hr dd vals) ->
  (forall dest, sample_dest hr c = Ok dest -> multiplicity hr dest = Ok 1 -> dest = GConst) ->
  match copy_sample_all ho hr c sb idx d f with
  | Ok f' => exists o', sample_code o ho hr ost c sb idx = Ok (tt, JObj o') /\ Holds o' hr f'
  | Err e => sample_code o ho hr ost c sb idx = Err e
  end.
  Proof.
    intros Hc Hsrc Hgood Hdeg.
    assert (Hs : is_samples c = true) by (destruct Hc as [[-> ->]|[-> ->]]; reflexivity).
    assert (Hb : cbase_eqb (base_of c) sb = true) by (destruct Hc as [[-> ->]|[-> ->]]; reflexivity).
    destruct (sample_dest_loop hr c Hok Hs) as (dest & r & Hd & Hl & Hr).
    assert (Hcode : sample_code o ho hr ost c sb idx = same_tail (Some (name_of_cls dest))).
    { unfold sample_code, copy_sample_st.
      destruct Hc as [[-> ->]|[-> ->]]; site_cbn2.
      - change ([103; 108; 111; 98; 97; 108]%N, [99; 111; 110; 115; 116]%N) with (name_of_cls GConst).
        change ([116; 105; 109; 101]%N, [115; 97; 109; 112; 108; 101; 115]%N) with (name_of_cls TSamples).
        rewrite cname_eq_cls. cbn [cls_eqb negb]. rewrite Hsrc. cbn [bind dyn_items dyn_keys].
        match goal with |- context [py_for_b ?l ?s ?b] => set (L := py_for_b l s b) end.
        assert (HL : L = Ok r) by exact Hl. rewrite HL. clear HL L. cbn [bind].
        destruct r as [rv|[bd dco]|[bd dco]]; [contradiction| |]; subst dco; reflexivity.
      - change ([103; 108; 111; 98; 97; 108]%N, [99; 111; 110; 115; 116]%N) with (name_of_cls GConst).
        change ([118; 101; 99; 116; 111; 114]%N, [115; 97; 109; 112; 108; 101; 115]%N) with (name_of_cls VSamples).
        rewrite cname_eq_cls. cbn [cls_eqb negb]. rewrite Hsrc. cbn [bind dyn_items dyn_keys].
        match goal with |- context [py_for_b ?l ?s ?b] => set (L := py_for_b l s b) end.
        assert (HL : L = Ok r) by exact Hl. rewrite HL. clear HL L. cbn [bind].
        destruct r as [rv|[bd dco]|[bd dco]]; [contradiction| |]; subst dco; reflexivity. }
    rewrite Hcode. apply (same_tail_ref c sb dest Hs Hb Hd Hgood (Hdeg dest Hd)).
  Qed.
End Sites.

Theorem copy_sample_st_ref (o : obj) (ho hr : hdr) (f : key -> kst jv) (ost : jv) (c : cls) (sb : cbase) (idx : nat)
        (d : list (key * list jv)) :
  Holds o hr f -> ndim_ok hr = true -> bases_ok hr -> ndim_ok ho = true ->
  (c = GSlices -> sb = BVector -> n_slices ho = None -> 4 <= ndim ho) ->
  c <> GConst -> sb <> BGlobal ->
  get_class_dict_st ost (name_of_cls c) = Ok (JObj (items d)) ->
  NoDup (map fst d) -> (forall k, In k (map fst d) -> f k = None) ->
  (forall k vs dd vals, In (k, vs) d -> sample_plan ho hr c sb idx vs = Ok (dd, vals, true) -> st_ok hr dd vals) ->
  (is_samples c = true -> base_of c = sb ->
   forall dest, sample_dest hr c = Ok dest -> multiplicity hr dest = Ok 1 -> dest = GConst) ->
  match copy_sample_all ho hr c sb idx d f with
  | Ok f' => exists o', sample_code o ho hr ost c sb idx = Ok (tt, JObj o') /\ Holds o' hr f'
  | Err e => sample_code o ho hr ost c sb idx = Err e
  end.
Proof.
  intros HH Hok Hbases Hoko Hv Hc Hsb Hsrc Hnd Hfr Hgood Hdeg.
  destruct c; [exfalso; apply Hc; reflexivity| | | | |]; (destruct sb; [exfalso; apply Hsb; reflexivity| |]).
  - apply site_gsl; try assumption. intros Hx. apply Hv; [reflexivity | exact Hx].
  - apply site_gsl; try assumption. intros Hx. apply Hv; [reflexivity | exact Hx].
  - apply site_sa_same; try assumption; [left; split; reflexivity | apply Hdeg; reflexivity].
  - apply site_ts_v; assumption.
  - apply site_sl_same; try assumption. left; split; reflexivity.
  - apply site_copy; try assumption. right; split; reflexivity.
  - apply site_copy; try assumption. left; split; reflexivity.
  - apply site_sa_same; try assumption; [right; split; reflexivity | apply Hdeg; reflexivity].
  - apply site_vsl_t; assumption.
  - apply site_sl_same; try assumption. right; split; reflexivity.
Qed.
