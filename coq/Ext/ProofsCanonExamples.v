(** C06: non-vacuity.  Every hypothesis of every C06 theorem is instantiated on a concrete non-trivial input and the
    conclusion is obtained BY APPLYING the theorem (Props/C06.v restates these as Examples). *)
From Coq Require Import List Bool Arith NArith QArith Lia.
From DV Require Import Common.Res Common.Str Ext.Types Ext.Classes Ext.Seq Ext.Model Ext.Spec Ext.ValidFacts
     Ext.ProofsSimplifySeq Ext.ProofsSimplifyLayout Ext.ProofsSimplifyCanon Ext.ProofsCanonSubset
     Ext.ProofsMergeDen Ext.ProofsMergeFrame Ext.ProofsMergeKey Ext.ProofsMerge Ext.ProofsCanonMerge Ext.ProofsCanonCorollaries.
Import ListNotations.
Local Open Scope nat_scope.

Definition kK : key := [107]%N.

(** * sequence tests *)
Definition l_bad : list nat := [1; 1; 2; 2; 3; 4].     (* three periods of 2, the defect in the last one *)
Definition l_rep : list nat := [1; 2; 1; 3; 1; 2].     (* three periods of 2, the defect in the middle one *)

Lemma ex_is_constant :
  2 <= 2 /\ length l_bad mod 2 = 0 /\ is_constant Nat.eqb l_bad (Some 2) = Ok false /\
  ~ (forall c k, c < length l_bad / 2 -> k < 2 -> nth (c * 2 + k) l_bad 0 = nth (c * 2) l_bad 0) /\
  (length [1; 1; 2] mod 2 <> 0 /\ is_constant Nat.eqb [1; 1; 2] (Some 2) = Err EValue) /\
  (1 <= 1 /\ is_constant Nat.eqb [1; 1] (Some 1) = Err EValue).
Proof.
  destruct (is_constant_spec Nat.eqb Nat.eqb_spec l_bad 2 0) as [_ [_ H]].
  destruct (H (le_n 2) eq_refl) as [b [Hb Hiff]].
  assert (E : is_constant Nat.eqb l_bad (Some 2) = Ok false) by (vm_compute; reflexivity).
  rewrite E in Hb. injection Hb as <-.
  refine (conj (le_n 2) (conj eq_refl (conj E (conj _ (conj _ _))))).
  - intros Hall. apply Hiff in Hall. discriminate Hall.
  - assert (Hm : length [1; 1; 2] mod 2 <> 0) by (vm_compute; discriminate).
    exact (conj Hm (proj1 (proj2 (is_constant_spec Nat.eqb Nat.eqb_spec [1; 1; 2] 2 0)) (le_n 2) Hm)).
  - exact (conj (le_n 1) (proj1 (is_constant_spec Nat.eqb Nat.eqb_spec [1; 1] 1 0) (le_n 1))).
Qed.

Lemma ex_is_constant_none :
  is_constant Nat.eqb l_bad None = Ok false /\
  ~ (forall i j, i < length l_bad -> j < length l_bad -> nth i l_bad 0 = nth j l_bad 0).
Proof.
  destruct (is_constant_none_spec Nat.eqb Nat.eqb_spec l_bad 0) as [b [Hb Hiff]].
  assert (E : is_constant Nat.eqb l_bad None = Ok false) by (vm_compute; reflexivity).
  rewrite E in Hb. injection Hb as <-. refine (conj E _). intros Hall. apply Hiff in Hall. discriminate Hall.
Qed.

Lemma ex_is_repeating :
  2 <= 2 /\ 2 < length l_rep /\ length l_rep mod 2 = 0 /\ is_repeating Nat.eqb l_rep 2 = Ok false /\
  ~ (forall i, i < length l_rep -> nth i l_rep 0 = nth (i mod 2) l_rep 0) /\
  (length [1; 2] <= 2 /\ is_repeating Nat.eqb [1; 2] 2 = Err EValue) /\
  (length [1; 2; 3] mod 2 <> 0 /\ is_repeating Nat.eqb [1; 2; 3] 2 = Err EValue).
Proof.
  destruct (is_repeating_spec Nat.eqb Nat.eqb_spec l_rep 2 0) as [_ [_ H]].
  assert (Hlt : 2 < length l_rep) by (cbn; lia).
  destruct (H (le_n 2) Hlt eq_refl) as [b [Hb Hiff]].
  assert (E : is_repeating Nat.eqb l_rep 2 = Ok false) by (vm_compute; reflexivity).
  rewrite E in Hb. injection Hb as <-.
  refine (conj (le_n 2) (conj Hlt (conj eq_refl (conj E (conj _ (conj _ _)))))).
  - intros Hall. apply Hiff in Hall. discriminate Hall.
  - assert (Hl : length [1; 2] <= 2) by (cbn; lia).
    exact (conj Hl (proj1 (is_repeating_spec Nat.eqb Nat.eqb_spec [1; 2] 2 0) (or_intror Hl))).
  - assert (Hm : length [1; 2; 3] mod 2 <> 0) by (vm_compute; discriminate).
    assert (Hl : 2 < length [1; 2; 3]) by (cbn; lia).
    exact (conj Hm (proj1 (proj2 (is_repeating_spec Nat.eqb Nat.eqb_spec [1; 2; 3] 2 0)) (le_n 2) Hl Hm)).
Qed.

(** * a 5-D header with S = 2, T = 3, V = 2 and a ('global','slices') key that depends on the vector index only *)
Definition vs_vec : list nat := [7;7;7;7;7;7; 8;8;8;8;8;8].

Lemma ex_h5_wf : hdr_wf ex_h5.
Proof.
  refine (conj _ (conj _ (conj _ (conj _ _)))).
  - cbn. lia.
  - repeat constructor.
  - intros d H. injection H as <-. lia.
  - split; [reflexivity | repeat constructor].
  - intros c _. destruct c; reflexivity.
Qed.

Lemma ex_h5_tight : hdr_tight ex_h5.
Proof. intros c. destruct c; reflexivity. Qed.

Lemma ex_h5_entry : entry_ok ex_h5 GSlices vs_vec.
Proof. refine (conj eq_refl (conj _ eq_refl)). intros _ H. discriminate H. Qed.

Lemma ex_h5_dom : @simplify_dom ex_h5 GSlices.
Proof. intros H. discriminate H. Qed.

Lemma ex_test_reads :
  ProofsSimplifyLayout.dims_pos (2, 3, 2) /\ test_of (2, 3, 2) GSlices VSamples = Some (KConst 6) /\
  length vs_vec = mult_spec (2, 3, 2) GSlices /\
  representable (2, 3, 2) VSamples (fun p => nth (cidx (2, 3, 2) GSlices p) vs_vec 0) /\
  ~ representable (2, 3, 2) GConst (fun p => nth (cidx (2, 3, 2) GSlices p) vs_vec 0).
Proof.
  assert (Hd : ProofsSimplifyLayout.dims_pos (2, 3, 2)) by (cbn; lia).
  refine (conj Hd (conj eq_refl (conj eq_refl (conj _ _)))).
  - apply (proj2 (test_reads_representable 0 (2, 3, 2) GSlices VSamples (KConst 6) vs_vec Hd eq_refl eq_refl)).
    cbn [krel].
    assert (E : is_constant Nat.eqb vs_vec (Some 6) = Ok true) by (vm_compute; reflexivity).
    destruct (is_constant_ok Nat.eqb Nat.eqb_spec vs_vec 6 true 0 E) as [_ [_ Hiff]].
    exact (proj1 Hiff eq_refl).
  - intros Hr. specialize (Hr (0, 0, 0) (0, 0, 1)). cbn in Hr.
    assert (7 = 8) by (apply Hr; lia || reflexivity). discriminate.
Qed.

Lemma ex_const_period :
  hdr_wf ex_h5 /\ class_ok (shape ex_h5) GSlices = true /\ class_ok (shape ex_h5) VSamples = true /\
  (is_slices GSlices = true -> sdim ex_h5 <> None) /\ is_const_tag (kind_tag GSlices VSamples) = true /\
  const_period ex_h5 GSlices VSamples = Ok (Some 6) /\
  test_of (dims ex_h5) GSlices VSamples = Some (KConst 6).
Proof.
  assert (Hs : is_slices GSlices = true -> sdim ex_h5 <> None) by (intros _ H; discriminate H).
  assert (E : const_period ex_h5 GSlices VSamples = Ok (Some 6)) by (vm_compute; reflexivity).
  refine (conj ex_h5_wf (conj eq_refl (conj eq_refl (conj Hs (conj eq_refl (conj E _)))))).
  exact (const_period_ok ex_h5 GSlices VSamples (Some 6) ex_h5_wf eq_refl eq_refl Hs eq_refl E).
Qed.

Lemma ex_simplify :
  hdr_wf ex_h5 /\ hdr_tight ex_h5 /\ entry_ok ex_h5 GSlices vs_vec /\ GSlices <> GConst /\ @simplify_dom ex_h5 GSlices /\
  simplify_k Nat.eqb 0 ex_h5 (Some (GSlices, vs_vec)) = Ok (Some (VSamples, [7; 8])) /\
  (* conclusions of simplify_spec / simplify_least / simplify_canon *)
  entry_ok ex_h5 VSamples [7; 8] /\
  (forall p, in_dims (dims ex_h5) p -> fden 0 (dims ex_h5) VSamples [7; 8] p = fden 0 (dims ex_h5) GSlices vs_vec p) /\
  pick_spec (reprs 0 ex_h5 GSlices vs_vec) (reach GSlices) (Some VSamples) /\
  (forall x, In x (reach GSlices) -> class_ok (shape ex_h5) x = true ->
             representable (dims ex_h5) x (fden 0 (dims ex_h5) GSlices vs_vec) -> pref_rank VSamples <= pref_rank x) /\
  canon_class (shape ex_h5) (dims ex_h5) (fden 0 (dims ex_h5) VSamples [7; 8]) VSamples.
Proof.
  assert (Hne : GSlices <> GConst) by discriminate.
  assert (E : simplify_k Nat.eqb 0 ex_h5 (Some (GSlices, vs_vec)) = Ok (Some (VSamples, [7; 8]))) by (vm_compute; reflexivity).
  destruct (simplify_spec Nat.eqb 0 Nat.eqb_spec ex_h5 GSlices vs_vec _ ex_h5_wf ex_h5_tight ex_h5_entry Hne ex_h5_dom E)
    as [c' [vs' [Er [_ [_ [Hpick _]]]]]].
  injection Er as <- <-.
  destruct (simplify_least Nat.eqb 0 Nat.eqb_spec ex_h5 GSlices vs_vec _ _ ex_h5_wf ex_h5_tight ex_h5_entry Hne ex_h5_dom E)
    as [_ Hleast].
  destruct (simplify_canon Nat.eqb 0 Nat.eqb_spec ex_h5 GSlices vs_vec _ _ ex_h5_wf ex_h5_tight ex_h5_entry Hne ex_h5_dom E)
    as [Hok [Hden Hcan]].
  exact (conj ex_h5_wf (conj ex_h5_tight (conj ex_h5_entry (conj Hne (conj ex_h5_dom (conj E
           (conj Hok (conj Hden (conj Hpick (conj Hleast Hcan)))))))))).
Qed.

(** a ('vector','slices') list that is in fact constant: ('vector','samples') is NOT reachable from there, and
    [reach_complete] finds the reachable class that does at least as well *)
Lemma ex_reach_complete :
  ProofsSimplifyLayout.dims_pos (2, 3, 2) /\ representable (2, 3, 2) VSamples (fden 0 (2, 3, 2) VSlices [5; 5; 5; 5; 5; 5]) /\
  ~ In VSamples (reach VSlices) /\
  exists y, In y (reach VSlices) /\ pref_rank y <= pref_rank VSamples /\
            representable (2, 3, 2) y (fden 0 (2, 3, 2) VSlices [5; 5; 5; 5; 5; 5]) /\
            (y = VSamples \/ y = VSlices \/ y = GConst).
Proof.
  assert (Hd : ProofsSimplifyLayout.dims_pos (2, 3, 2)) by (cbn; lia).
  assert (Hr : representable (2, 3, 2) VSamples (fden 0 (2, 3, 2) VSlices [5; 5; 5; 5; 5; 5])).
  { intros [[s t] v] [[s' t'] v'] [Hs [Ht _]] [Hs' [Ht' _]] _. unfold fden. cbn [cidx].
    destruct s as [|[|s]], t as [|[|[|t]]], s' as [|[|s']], t' as [|[|[|t']]]; try lia; reflexivity. }
  refine (conj Hd (conj Hr (conj _ (reach_complete 0 (2, 3, 2) VSlices _ VSamples Hd Hr)))).
  vm_compute. intros [H|[H|[H|[H|[]]]]]; discriminate H.
Qed.

(** * splitting *)
Lemma ex_subset :
  exists r, get_subset Nat.eqb 0 ex_e 3 1 = Ok r /\
            canonical 0 ex_e /\ valid ex_e /\ nondegenerate ex_e /\ canonical_mod_none 0 ex_e /\
            1 < nth 3 (shape (hdr_of ex_e)) 0 /\
            entries r = [(kK, (GSlices, [0; 2]))] /\ canonical_mod_none 0 r.
Proof.
  eexists. split; [vm_compute; reflexivity|].
  pose proof ex_e_canonical as Hc. pose proof (canonical_canonical_mod_none 0 ex_e Hc) as Hm.
  assert (Hi : 1 < nth 3 (shape (hdr_of ex_e)) 0) by (cbn; lia).
  assert (Hn : nondegenerate ex_e) by (apply nondegenerateb_nondegenerate; [apply Hc | vm_compute; reflexivity]).
  refine (conj Hc (conj (proj1 Hc) (conj Hn (conj Hm (conj Hi (conj eq_refl _)))))).
  apply (subset_canonical_mod_none Nat.eqb 0 Nat.eqb_spec ex_e 3 1 _ Hm Hi). vm_compute. reflexivity.
Qed.

(** * merging *)
Definition ex_m_e0 : ext nat := mk_ext ex_m_h [(kK, (GConst, [7]))].
Definition ex_m_rest : list (ext nat) := [mk_ext ex_m_h [(kK, (GSlices, [7; 7]))]; mk_ext ex_m_h [(kK, (GConst, [8]))]].

Lemma ex_m_inputs e : In e ex_m_es ->
  valid e /\ nondegenerate e /\ shape (hdr_of e) = shape (hdr_of ex_m_e0) /\ sdim (hdr_of e) = sdim_res ex_m_e0 None.
Proof.
  intros [<-|[<-|[<-|[]]]];
    (refine (conj _ (conj _ (conj eq_refl eq_refl)));
     [apply validb_valid; vm_compute; reflexivity
     | apply nondegenerateb_nondegenerate; [apply validb_valid|]; vm_compute; reflexivity]).
Qed.

Lemma ex_merge :
  exists r, from_sequence Nat.eqb 0 ex_m_es 3 None None = Ok r /\
            ex_m_es = ex_m_e0 :: ex_m_rest /\ 1 <= length ex_m_rest /\
            (forall e, In e ex_m_es -> valid e /\ nondegenerate e /\ shape (hdr_of e) = shape (hdr_of ex_m_e0) /\
                                       sdim (hdr_of e) = sdim_res ex_m_e0 None) /\
            axis_of (sdim_res ex_m_e0 None) 3 = Some AxT /\ (3 <= 3 -> sdim_res ex_m_e0 None <> None) /\
            entries r = [(kK, (TSamples, [7; 7; 8]))] /\
            canonical_mod_none 0 r.
Proof.
  eexists. split; [vm_compute; reflexivity|].
  assert (H1 : 1 <= length ex_m_rest) by (cbn; lia).
  assert (H3 : 3 <= 3 -> sdim_res ex_m_e0 None <> None) by (intros _ H; discriminate H).
  refine (conj eq_refl (conj H1 (conj ex_m_inputs (conj eq_refl (conj H3 (conj eq_refl _)))))).
  apply (merge_canonical_axis Nat.eqb 0 Nat.eqb_spec ex_m_es ex_m_e0 ex_m_rest 3 None None AxT _ eq_refl H1 ex_m_inputs eq_refl H3).
  vm_compute. reflexivity.
Qed.

(** two canonical inputs merged along a non-slice spatial axis *)
Lemma ex_merge_nonslice :
  exists r, from_sequence Nat.eqb 0 [ex_e; ex_e] 0 None None = Ok r /\
            1 <= length [ex_e] /\
            (forall e, In e [ex_e; ex_e] -> canonical_mod_none 0 e /\ shape (hdr_of e) = shape (hdr_of ex_e) /\
                                           sdim (hdr_of e) = sdim_res ex_e None) /\
            0 < 3 /\ sdim_res ex_e None <> Some 0 /\
            entries r = [(kK, (GSlices, [0; 1; 0; 2]))] /\ shape (hdr_of r) = [2; 1; 2; 2] /\ canonical_mod_none 0 r.
Proof.
  eexists. split; [vm_compute; reflexivity|].
  assert (H1 : 1 <= length [ex_e]) by (cbn; lia).
  assert (Hm : canonical_mod_none 0 ex_e) by (apply canonical_canonical_mod_none, ex_e_canonical).
  assert (H2 : forall e, In e [ex_e; ex_e] -> canonical_mod_none 0 e /\ shape (hdr_of e) = shape (hdr_of ex_e) /\
                                              sdim (hdr_of e) = sdim_res ex_e None).
  { intros e [<-|[<-|[]]]; exact (conj Hm (conj eq_refl eq_refl)). }
  assert (H3 : 0 < 3) by lia.
  assert (H4 : sdim_res ex_e None <> Some 0) by (intros H; discriminate H).
  refine (conj H1 (conj H2 (conj H3 (conj H4 (conj eq_refl (conj eq_refl _)))))).
  apply (merge_canonical_nonslice Nat.eqb 0 Nat.eqb_spec [ex_e; ex_e] ex_e [ex_e] 0 None None _ eq_refl H1 H2 H3 H4).
  vm_compute. reflexivity.
Qed.

(** one insert inside that time merge: constant 7 so far, the next source says 8 *)
Definition ex_m_full : hdr := mk_hdr [1; 1; 2; 3] (Some 2) ex_aff true false.

Lemma ex_insert :
  frame ex_m_full [1; 1; 2] 3 3 /\ inp ex_m_full [1; 1; 2] ex_m_h /\ 1 <= 1 /\
  axis_of (sdim ex_m_full) 3 = Some AxT /\ (3 <= 3 -> sdim ex_m_full <> None) /\
  pre_ax 0 AxT (with_dim ex_m_full 3 1) (init_k ex_m_full ex_m_h (Some (GConst, [7]))) /\
  good_k ex_m_h (Some (GConst, [8])) /\ nondeg_k ex_m_h (Some (GConst, [8])) /\
  insert_k Nat.eqb 0 (with_dim ex_m_full 3 1) ex_m_h 3 (init_k ex_m_full ex_m_h (Some (GConst, [7]))) (Some (GConst, [8]))
    = Ok (Some (TSamples, [7; 8])) /\
  inv_post 0 (with_dim ex_m_full 3 2) (Some (TSamples, [7; 8])).
Proof.
  assert (Hm : merge_hdr [ex_m_h; ex_m_h; ex_m_h] 3 None None = Ok ex_m_full) by (vm_compute; reflexivity).
  assert (Hp : Forall (fun n => 1 <= n) (shape ex_m_h)) by (repeat constructor).
  destruct (merge_hdr_frame [ex_m_h; ex_m_h; ex_m_h] ex_m_h 3 None None ex_m_full eq_refl ltac:(cbn; lia) Hp Hm) as [F _].
  cbn [length shape ex_m_h] in F.
  assert (Hin : inp ex_m_full [1; 1; 2] ex_m_h) by (split; reflexivity).
  assert (H3 : 3 <= 3 -> sdim ex_m_full <> None) by (intros _ H; discriminate H).
  assert (Hg7 : good_k ex_m_h (Some (GConst, [7]))) by (refine (conj eq_refl (conj _ eq_refl)); intros H; discriminate H).
  assert (Hg8 : good_k ex_m_h (Some (GConst, [8]))) by (refine (conj eq_refl (conj _ eq_refl)); intros H; discriminate H).
  assert (Hn7 : nondeg_k ex_m_h (Some (GConst, [7]))) by (intros H; congruence).
  assert (Hn8 : nondeg_k ex_m_h (Some (GConst, [8]))) by (intros H; congruence).
  pose proof (init_pre 0 ex_m_full [1; 1; 2] 3 3 AxT ex_m_h _ F eq_refl H3 Hin Hg7 Hn7) as Hpre.
  assert (E : insert_k Nat.eqb 0 (with_dim ex_m_full 3 1) ex_m_h 3 (init_k ex_m_full ex_m_h (Some (GConst, [7]))) (Some (GConst, [8]))
              = Ok (Some (TSamples, [7; 8]))) by (vm_compute; reflexivity).
  refine (conj F (conj Hin (conj (le_n 1) (conj eq_refl (conj H3 (conj Hpre (conj Hg8 (conj Hn8 (conj E _))))))))).
  exact (insert_k_inv Nat.eqb 0 Nat.eqb_spec ex_m_full [1; 1; 2] 3 3 ex_m_h 1 AxT _ _ _ F Hin (le_n 1) eq_refl H3 Hpre Hg8 Hn8 E).
Qed.

(** * corollaries *)
Definition ex_c_h : hdr := mk_hdr [1; 1; 2; 2] (Some 2) ex_aff true false.
Definition ex_c_e0 : ext nat := mk_ext ex_c_h [(kK, (GConst, [7]))].
Definition ex_c_rest : list (ext nat) := [mk_ext ex_c_h [(kK, (TSamples, [7; 7]))]; mk_ext ex_c_h [(kK, (GSlices, [7; 7; 7; 7]))]].
Definition ex_c_es : list (ext nat) := ex_c_e0 :: ex_c_rest.

Lemma ex_c_inputs e : In e ex_c_es ->
  valid e /\ nondegenerate e /\ shape (hdr_of e) = shape (hdr_of ex_c_e0) /\ sdim (hdr_of e) = sdim_res ex_c_e0 None.
Proof.
  intros [<-|[<-|[<-|[]]]];
    (refine (conj _ (conj _ (conj eq_refl eq_refl)));
     [apply validb_valid; vm_compute; reflexivity
     | apply nondegenerateb_nondegenerate; [apply validb_valid|]; vm_compute; reflexivity]).
Qed.

(** the same constant stored three different ways in three sources, merged along the vector axis *)
Lemma ex_const_readable :
  exists r, from_sequence Nat.eqb 0 ex_c_es 4 None None = Ok r /\
            canonical_mod_none 0 r /\ 7 <> 0 /\
            (forall p, in_dims (dims (hdr_of r)) p -> den 0 r kK p = 7) /\
            lookup_e r kK = Some (GConst, [7]) /\ getitem r kK = Ok 7.
Proof.
  eexists. split; [vm_compute; reflexivity|].
  assert (H1 : 1 <= length ex_c_rest) by (cbn; lia).
  assert (H3 : 3 <= 4 -> sdim_res ex_c_e0 None <> None) by (intros _ H; discriminate H).
  match goal with |- canonical_mod_none 0 ?r /\ _ =>
    assert (Hc : canonical_mod_none 0 r)
      by (apply (merge_canonical_axis Nat.eqb 0 Nat.eqb_spec ex_c_es ex_c_e0 ex_c_rest 4 None None AxV r eq_refl H1 ex_c_inputs eq_refl H3);
          vm_compute; reflexivity);
    assert (Hall : forall p, in_dims (dims (hdr_of r)) p -> den 0 r kK p = 7) by (intros [[s t] v] _; reflexivity)
  end.
  assert (Hv : 7 <> 0) by discriminate.
  exact (conj Hc (conj Hv (conj Hall (const_readable 0 _ kK 7 Hc Hv Hall)))).
Qed.

Lemma ex_merge_const_readable :
  exists r, from_sequence Nat.eqb 0 ex_c_es 4 None None = Ok r /\
            inputs_ok ex_c_es ex_c_e0 None /\ (forall x, In x ex_c_es -> nondegenerate x) /\
            axis_of (out_sdim None ex_c_e0) 4 = Some AxV /\ (3 <= 4 -> out_sdim None ex_c_e0 <> None) /\
            trailing1b (shape (hdr_of r)) = false /\ 7 <> 0 /\
            (forall x q, In x ex_c_es -> in_dims (dims (hdr_of x)) q -> den_in 0 (hdr_of r) x kK q = 7) /\
            lookup_e r kK = Some (GConst, [7]) /\ getitem r kK = Ok 7.
Proof.
  eexists. split; [vm_compute; reflexivity|].
  assert (Hin : inputs_ok ex_c_es ex_c_e0 None).
  { refine (conj eq_refl (conj _ _)); [cbn; lia|]. intros x Hx. destruct (ex_c_inputs x Hx) as [A [_ [B C]]]. exact (conj A (conj B C)). }
  assert (Hnd : forall x, In x ex_c_es -> nondegenerate x) by (intros x Hx; apply (ex_c_inputs x Hx)).
  assert (H3 : 3 <= 4 -> out_sdim None ex_c_e0 <> None) by (intros _ H; discriminate H).
  assert (Hv : 7 <> 0) by discriminate.
  match goal with |- _ /\ _ /\ _ /\ _ /\ trailing1b (shape (hdr_of ?r)) = false /\ _ =>
    assert (Hall : forall x q, In x ex_c_es -> in_dims (dims (hdr_of x)) q -> den_in 0 (hdr_of r) x kK q = 7)
  end.
  { intros x [[s t] v] Hx Hq. destruct Hx as [<-|[<-|[<-|[]]]]; cbn in Hq;
      destruct s as [|[|s]], t as [|[|t]], v as [|v]; try lia; vm_compute; reflexivity. }
  refine (conj Hin (conj Hnd (conj eq_refl (conj H3 (conj eq_refl (conj Hv (conj Hall _))))))).
  apply (merge_const_readable Nat.eqb 0 Nat.eqb_spec ex_c_es ex_c_e0 4 None None AxV _ kK 7 Hin Hnd eq_refl H3);
    first [assumption | vm_compute; reflexivity].
Qed.

(** the piece of [ex_e] on which the key is None everywhere keeps it as the global constant None (0 here) *)
Lemma ex_none :
  exists r, get_subset Nat.eqb 0 ex_e 2 0 = Ok r /\ canonical_mod_none 0 r /\
            (forall p, in_dims (dims (hdr_of r)) p -> den 0 r kK p = 0) /\
            (lookup_e r kK = None \/ lookup_e r kK = Some (GConst, [0])) /\ lookup_e r kK = Some (GConst, [0]).
Proof.
  eexists. split; [vm_compute; reflexivity|].
  assert (Hm : canonical_mod_none 0 ex_e) by (apply canonical_canonical_mod_none, ex_e_canonical).
  assert (Hi : 0 < nth 2 (shape (hdr_of ex_e)) 0) by (cbn; lia).
  match goal with |- canonical_mod_none 0 ?r /\ _ =>
    assert (Hc : canonical_mod_none 0 r)
      by (apply (subset_canonical_mod_none Nat.eqb 0 Nat.eqb_spec ex_e 2 0 r Hm Hi); vm_compute; reflexivity);
    assert (Hall : forall p, in_dims (dims (hdr_of r)) p -> den 0 r kK p = 0) by (intros [[s t] v] _; reflexivity)
  end.
  exact (conj Hc (conj Hall (conj (none_only_const 0 _ kK Hc Hall) eq_refl))).
Qed.

(** the time merge above: constant within every volume, different between volumes *)
Lemma ex_per_volume :
  exists r, from_sequence Nat.eqb 0 ex_m_es 3 None None = Ok r /\ canonical_mod_none 0 r /\
            lookup_e r kK = Some (TSamples, [7; 7; 8]) /\
            (forall s s' t v, in_dims (dims (hdr_of r)) (s, t, v) -> in_dims (dims (hdr_of r)) (s', t, v) ->
                              den 0 r kK (s, t, v) = den 0 r kK (s', t, v)) /\
            den 0 r kK (0, 2, 0) = 8 /\ den 0 r kK (1, 0, 0) = 7 /\
            is_slices TSamples = false /\ length [7; 7; 8] = mult_spec (dims (hdr_of r)) TSamples /\
            length [7; 7; 8] <= snd (fst (dims (hdr_of r))) * snd (dims (hdr_of r)).
Proof.
  eexists. split; [vm_compute; reflexivity|].
  assert (H1 : 1 <= length ex_m_rest) by (cbn; lia).
  assert (H3 : 3 <= 3 -> sdim_res ex_m_e0 None <> None) by (intros _ H; discriminate H).
  match goal with |- canonical_mod_none 0 ?r /\ _ =>
    assert (Hc : canonical_mod_none 0 r)
      by (apply (merge_canonical_axis Nat.eqb 0 Nat.eqb_spec ex_m_es ex_m_e0 ex_m_rest 3 None None AxT r eq_refl H1 ex_m_inputs eq_refl H3);
          vm_compute; reflexivity);
    assert (Hvol : forall s s' t v, in_dims (dims (hdr_of r)) (s, t, v) -> in_dims (dims (hdr_of r)) (s', t, v) ->
                                    den 0 r kK (s, t, v) = den 0 r kK (s', t, v)) by (intros; reflexivity);
    assert (El : lookup_e r kK = Some (TSamples, [7; 7; 8])) by reflexivity
  end.
  exact (conj Hc (conj El (conj Hvol (conj eq_refl (conj eq_refl (per_volume 0 _ kK TSamples [7; 7; 8] Hc El Hvol)))))).
Qed.
