(** Stage A of the source equality for the extension algebra: the per-key READERS
    DcmMetaExtension._global_slice_subset and _get_changed_class, as translated on every run into
    coq/Generated/T_src_ext.v, compute what Ext.Model.global_slice_subset / changed_class compute.

    The stored values are dynamic JSON values ([jv]); the model's list of values of a key of class [c] is stored as
    [render c vs]: the bare value for ('global','const'), the JSON list otherwise (the convention of Link/Abs.v).
    What the readers see of the content comes through the parameters [get_values_and_class] / [get_class_dict]:
      [values_and_class_of h s]   from the per-key state [visible h s]
      [slices_dict_of k vs]       the ('global','slices') dictionary restricted to the key at hand.
    Results are values too: the model's list [l] corresponds to [render new l] / [JArr l]. *)
From Coq Require Import List Bool Arith NArith ZArith Lia.
From DV Require Import Common.Res Common.Str Common.Jv Common.PyOps2 Common.PyOps2Dyn Generated.T_classes Generated.T_src_ext
     Ext.Types Ext.Classes Ext.Seq Ext.Model Ext.TableFacts Ext.SrcEq.
Import ListNotations.
Local Open Scope nat_scope.

(** how a class stores the values of one key (= Link.Abs.render) *)
Definition render (c : cls) (vs : list jv) : jv := match c with GConst => hd JNull vs | _ => JArr vs end.

Definition values_and_class_of (h : hdr) (s : kst jv) : jv * option cname :=
  match visible h s with
  | None => (JNull, None)
  | Some (c, vs) => (render c vs, Some (name_of_cls c))
  end.

Definition slices_dict_of (k : key) (vs : list jv) : list (str * jv) := [(k, JArr vs)].

(** * _global_slice_subset *)

Lemma py_for_app {A B R} (l : list A) (f : A -> list B) (acc : list B) (body : A -> list B -> res (ctl R (list B))) :
  (forall x a, body x a = Ok (Next (a ++ f x))) -> py_for l acc body = Ok (Next (acc ++ flat_map f l)).
Proof.
  intros H. revert acc. induction l as [|x r IH]; intros acc.
  - cbn [py_for flat_map]. rewrite app_nil_r. reflexivity.
  - cbn [py_for flat_map]. rewrite H. cbn [bind]. rewrite IH, app_assoc. reflexivity.
Qed.

Lemma vsamples_5d (h : hdr) : class_valid h VSamples = true -> exists a b c d e, shape h = [a; b; c; d; e].
Proof.
  unfold class_valid, valid_classes, ndim.
  destruct (shape h) as [|a [|b [|c [|d [|e [|f r]]]]]]; cbn [length nth]; intros H;
    try (vm_compute in H; discriminate H).
  repeat eexists.
Qed.

Theorem global_slice_subset_src_eq (h : hdr) (k : key) (vs : list jv) (sb : cbase) (idx : nat) :
  ndim_ok h = true ->
  (sb = BVector -> n_slices h = None -> 4 <= ndim h) ->
  global_slice_subset_src (fun _ => slices_dict_of k vs) classifications (shape h) (n_slices h) k (name_of_base sb) idx
  = rmap JArr (global_slice_subset h vs sb idx).
Proof.
  intros Hok Hv. unfold global_slice_subset_src, global_slice_subset, slices_dict_of.
  cbn [py_dict_get]. rewrite str_eqb_refl. cbn [bind dyn_slice].
  rewrite get_valid_classes_src_eq, Hok. cbn [bind].
  change ([118; 101; 99; 116; 111; 114]%N, [115; 97; 109; 112; 108; 101; 115]%N) with (name_of_cls VSamples).
  rewrite py_in_names. fold (class_valid h VSamples).
  unfold shape_at.
  destruct sb; cbn [name_of_base str_eqb s_global s_time s_vector N.eqb Pos.eqb andb].
  - (* global *)
    destruct (n_slices h) as [n|]; cbn [py_nat_o bind];
      [|destruct (class_valid h VSamples) eqn:Ecv; [destruct (vsamples_5d h Ecv) as (a & b & c & d & e & Hsh); rewrite Hsh|]; reflexivity].
    destruct (class_valid h VSamples); cbn [negb].
    + unfold PyOps2.py_index. destruct (nth_error (shape h) 3) as [t|]; [|reflexivity]. cbn [bind].
      destruct (nth_error (shape h) 4) as [v|]; [|reflexivity]. cbn [bind].
      rewrite (py_for_app _ (fun vec => py_slice (vec * (n * t) + idx * n) (vec * (n * t) + idx * n + n) vs)).
      * cbn [bind rmap app]. unfold py_range. rewrite Nat.sub_0_r. reflexivity.
      * intros vec a. rewrite pslice_pos. reflexivity.
    + rewrite pslice_pos. unfold py_slice. reflexivity.
  - (* time *)
    destruct (n_slices h) as [n|]; cbn [py_nat_o bind];
      [|destruct (class_valid h VSamples) eqn:Ecv; [destruct (vsamples_5d h Ecv) as (a & b & c & d & e & Hsh); rewrite Hsh|]; reflexivity].
    destruct (class_valid h VSamples); cbn [negb].
    + unfold PyOps2.py_index. destruct (nth_error (shape h) 3) as [t|]; [|reflexivity]. cbn [bind].
      destruct (nth_error (shape h) 4) as [v|]; [|reflexivity]. cbn [bind].
      rewrite (py_for_app _ (fun vec => py_slice (vec * (n * t) + idx * n) (vec * (n * t) + idx * n + n) vs)).
      * cbn [bind rmap app]. unfold py_range. rewrite Nat.sub_0_r. reflexivity.
      * intros vec a. rewrite pslice_pos. reflexivity.
    + rewrite pslice_pos. unfold py_slice. reflexivity.
  - (* vector *)
    unfold PyOps2.py_index. destruct (n_slices h) as [n|] eqn:En.
    + destruct (nth_error (shape h) 3) as [t|]; [|reflexivity]. cbn [bind py_nat_o rmap]. rewrite pslice_pos. unfold py_slice. reflexivity.
    + specialize (Hv eq_refl eq_refl). unfold ndim in Hv.
      destruct (nth_error (shape h) 3) as [t|] eqn:E3; [reflexivity|].
      apply nth_error_None in E3. lia.
Qed.

(** * _get_changed_class *)

Notation cname_eq := (py_pair_eqb str_eqb str_eqb).

(** the table _preserving_changes as the code reads it and as the model decodes it *)
Definition sname := (str * str)%type.     (* a classification as the generated code types it (= T_classes.cname) *)
Definition read_preserving (cc : option sname) : res (list sname) :=
  @py_dict_get (option (str * str)%type) (list (str * str)%type) (py_option_eqb cname_eq) preserving_changes cc.

Lemma preserving_read (cc : option cls) :
  match preserving cc with
  | Some allowed =>
      exists raw, read_preserving (option_map name_of_cls cc) = Ok raw /\
                  forall new, @py_in (str * str)%type cname_eq (name_of_cls new) raw = mem_cls new allowed
  | None => read_preserving (option_map name_of_cls cc) = Err EKey
  end.
Proof.
  destruct cc as [[]|]; vm_compute (preserving _); eexists; (split; [vm_compute; reflexivity | intros []; vm_compute; reflexivity]).
Qed.

Lemma is_slices_name (c : cls) : str_eqb (snd (name_of_cls c)) [115; 108; 105; 99; 101; 115]%N = is_slices c.
Proof. destruct c; reflexivity. Qed.

Lemma py_repeat_one {A} (v : A) (n : nat) : py_repeat [v] n = repeat v n.
Proof. unfold py_repeat. induction n as [|n IH]; [reflexivity|]. cbn [repeat concat app]. rewrite IH. reflexivity. Qed.

Lemma rep_each_loop {R} (l : list jv) (n : nat) :
  py_for l (@nil jv) (fun value result => Ok (Next (result ++ py_repeat [value] n))) = Ok (@Next R _ (rep_each n l)).
Proof.
  rewrite (py_for_app l (fun v => repeat v n)).
  - reflexivity.
  - intros x a. rewrite py_repeat_one. reflexivity.
Qed.

Lemma hd_index (l : list jv) : PyOps2.py_index l (BPos 0) = hd_res l.
Proof. destruct l; reflexivity. Qed.

(** the stored value of a key in its per-key state is well formed: a constant is a singleton, and a varying class is
    not degenerate (multiplicity 1), where the real code is inconsistent about bare values and 1-lists *)
Definition kst_storable (h : hdr) (s : kst jv) : Prop :=
  match visible h s with
  | Some (GConst, vs) => length vs = 1
  | Some (c, _) => multiplicity h c <> Ok 1
  | None => True
  end.

(** the literal ('global', 'const') of the generated code *)
Lemma lit_gconst : ([103; 108; 111; 98; 97; 108]%N, [99; 111; 110; 115; 116]%N) = name_of_cls GConst.
Proof. reflexivity. Qed.

(** the part of _get_changed_class that computes new_mult *)
Lemma new_mult_eq (h : hdr) (new : cls) (sd : option nat) (K : nat -> res jv) :
  bind (if class_valid h new
        then bind (get_multiplicity_src classifications (shape h) (n_slices h) (name_of_cls new))
                  (fun t6 => if Nat.eqb t6 0
                             then bind (py_bound_o sd) (fun t7 => bind (PyOps2.py_index (shape h) t7) (fun t8 => Ok (Next t8)))
                             else Ok (Next t6))
        else Ok (Next 1))
       (fun c9 : ctl jv nat => match c9 with Ret rv => Ok rv | Next nm => K nm end)
  = bind (if class_valid h new
          then bind (multiplicity h new)
                    (fun m => if m =? 0
                              then match sd with
                                   | None => Err EType
                                   | Some d => match shape_at h d with Some n => Ok n | None => Err EIndex end
                                   end
                              else Ok m)
          else Ok 1) K.
Proof.
  destruct (class_valid h new); [|reflexivity]. rewrite get_multiplicity_src_eq.
  destruct (multiplicity h new) as [m|]; [|reflexivity]. cbn [bind].
  destruct (m =? 0); [|reflexivity]. destruct sd as [d|]; [|reflexivity]. cbn [py_bound_o bind].
  unfold PyOps2.py_index, shape_at. destruct (nth_error (shape h) d); reflexivity.
Qed.

Lemma hd_res_render (l : list jv) :
  bind (hd_res l) (fun t => Ok t) = rmap (render GConst) (bind (hd_res l) (fun v => Ok [v])).
Proof. destruct l; reflexivity. Qed.

Theorem get_changed_class_src_eq (h : hdr) (s : kst jv) (k : key) (new : cls) (sd : option nat) :
  ndim_ok h = true -> kst_storable h s ->
  get_changed_class_src (fun _ => values_and_class_of h s) classifications (shape h) (n_slices h) preserving_changes
                        k (name_of_cls new) sd
  = rmap (render new) (changed_class JNull h s new sd).
Proof.
  intros Hok Hst. unfold get_changed_class_src, changed_class, values_and_class_of, kst_storable in *.
  destruct (visible h s) as [[c vs]|]; cbv beta iota; cbn [kst_class ocls_eqb py_option_eqb].
  - (* the key is present with class c *)
    rewrite cname_eq_cls.
    destruct (cls_eqb_spec c new) as [->|Hne]; [reflexivity|].
    pose proof (preserving_read (Some c)) as Hp. cbn [option_map] in Hp. unfold read_preserving in Hp.
    destruct (preserving (Some c)) as [allowed|]; [|rewrite Hp; reflexivity].
    destruct Hp as [raw [Hraw Hin]]. rewrite Hraw. cbn [bind]. rewrite Hin.
    destruct (mem_cls new allowed); [|reflexivity]. cbn [negb].
    rewrite get_multiplicity_src_eq.
    destruct (multiplicity h c) as [cm|] eqn:Ecm; [|reflexivity]. cbn [bind]. cbv zeta.
    rewrite get_valid_classes_src_eq, Hok. cbn [bind]. rewrite py_in_names. fold (class_valid h new).
    rewrite is_slices_name, new_mult_eq.
    match goal with |- bind ?X _ = _ => destruct X as [nm|] end; [|reflexivity]. cbn [bind].
    unfold py_floordiv. destruct (cm =? 0); [reflexivity|]. cbn [bind]. cbv zeta.
    rewrite !lit_gconst, !cname_eq_cls.
    destruct c.
    + (* a constant: one value *)
      assert (cm = 1) as ->.
      { unfold multiplicity in Ecm. destruct (negb (class_valid h GConst)); [discriminate Ecm|]. injection Ecm as <-. reflexivity. }
      destruct vs as [|v [|w r]]; try discriminate Hst. cbn [Nat.eqb render hd is_slices sub_of].
      rewrite rep_each_loop. cbn [bind].
      destruct new; cbn [cls_eqb]; try reflexivity. exfalso. apply Hne. reflexivity.
    + assert (Hc1 : Nat.eqb cm 1 = false) by (apply Nat.eqb_neq; intros ->; apply Hst; reflexivity).
      rewrite Hc1. cbn [is_slices sub_of render dyn_times bind dyn_getidx]. rewrite hd_index.
      destruct new; cbn [cls_eqb render rmap]; try reflexivity. apply hd_res_render.
    + assert (Hc1 : Nat.eqb cm 1 = false) by (apply Nat.eqb_neq; intros ->; apply Hst; reflexivity).
      rewrite Hc1. cbn [is_slices sub_of render dyn_iter bind]. rewrite rep_each_loop. cbn [bind]. rewrite hd_index.
      destruct new; cbn [cls_eqb render rmap]; try reflexivity. apply hd_res_render.
    + assert (Hc1 : Nat.eqb cm 1 = false) by (apply Nat.eqb_neq; intros ->; apply Hst; reflexivity).
      rewrite Hc1. cbn [is_slices sub_of render dyn_times bind dyn_getidx]. rewrite hd_index.
      destruct new; cbn [cls_eqb render rmap]; try reflexivity. apply hd_res_render.
    + assert (Hc1 : Nat.eqb cm 1 = false) by (apply Nat.eqb_neq; intros ->; apply Hst; reflexivity).
      rewrite Hc1. cbn [is_slices sub_of render dyn_iter bind]. rewrite rep_each_loop. cbn [bind]. rewrite hd_index.
      destruct new; cbn [cls_eqb render rmap]; try reflexivity. apply hd_res_render.
    + assert (Hc1 : Nat.eqb cm 1 = false) by (apply Nat.eqb_neq; intros ->; apply Hst; reflexivity).
      rewrite Hc1. cbn [is_slices sub_of render dyn_times bind dyn_getidx]. rewrite hd_index.
      destruct new; cbn [cls_eqb render rmap]; try reflexivity. apply hd_res_render.
  - (* the key is absent: its value is None, replicated *)
    pose proof (preserving_read None) as Hp. cbn [option_map] in Hp. unfold read_preserving in Hp.
    destruct (preserving None) as [allowed|]; [|rewrite Hp; reflexivity].
    destruct Hp as [raw [Hraw Hin]]. rewrite Hraw. cbn [bind]. rewrite Hin.
    destruct (mem_cls new allowed); [|reflexivity]. cbn [negb bind]. cbv zeta.
    rewrite get_valid_classes_src_eq, Hok. cbn [bind]. rewrite py_in_names. fold (class_valid h new).
    rewrite new_mult_eq.
    match goal with |- bind ?X _ = _ => destruct X as [nm|] end; [|reflexivity]. cbn [bind].
    unfold py_floordiv. cbn [Nat.eqb bind]. cbv zeta.
    rewrite !lit_gconst, !cname_eq_cls. rewrite rep_each_loop. cbn [bind]. rewrite hd_index.
    destruct new; cbn [cls_eqb render rmap]; try reflexivity. apply hd_res_render.
Qed.
