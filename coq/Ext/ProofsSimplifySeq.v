(** C06, part 1: the sequence tests [is_constant] / [is_repeating] (dcmmeta.py:45-100) are EXACT, for every
    period and every number of periods (induction over the chunk list, no sampling), and the strided /
    prefix extractions [values[::period]], [values[:m]] used by [_simplify] pick the expected elements. *)
From Coq Require Import List Bool Arith Lia.
From DV Require Import Common.Res Ext.Seq.
Import ListNotations.
Local Open Scope nat_scope.

(** * Plain list facts *)
Section Lists.
  Context {A : Type}.

  Lemma nth_skipn_c (n i : nat) (l : list A) d : nth i (skipn n l) d = nth (n + i) l d.
  Proof.
    revert l. induction n as [|n IH]; intros l; [reflexivity|].
    destruct l as [|x r]; [destruct i; reflexivity|]. cbn [skipn plus nth]. apply IH.
  Qed.

  Lemma nth_firstn_c (n i : nat) (l : list A) d : i < n -> nth i (firstn n l) d = nth i l d.
  Proof.
    revert i l. induction n as [|n IH]; intros i l Hi; [lia|].
    destruct l as [|x r]; [destruct i; reflexivity|]. destruct i as [|i]; [reflexivity|].
    cbn [firstn nth]. apply IH. lia.
  Qed.

  Lemma nth_tl_c (i : nat) (l : list A) d : nth i (tl l) d = nth (S i) l d.
  Proof. destruct l; [destruct i; reflexivity | reflexivity]. Qed.

  Lemma forallb_nth (f : A -> bool) (l : list A) d :
    forallb f l = true <-> forall i, i < length l -> f (nth i l d) = true.
  Proof.
    rewrite forallb_forall. split.
    - intros H i Hi. apply H. apply nth_In. exact Hi.
    - intros H x Hx. destruct (In_nth _ _ d Hx) as [i [Hi <-]]. apply H. exact Hi.
  Qed.

  Lemma chunks_length (n p : nat) (l : list A) : length (chunks n p l) = n.
  Proof. revert l. induction n as [|n IH]; intros l; [reflexivity|]. cbn [chunks length]. rewrite IH. reflexivity. Qed.

  Lemma skipn_skipn_c (a b : nat) (l : list A) : skipn a (skipn b l) = skipn (b + a) l.
  Proof.
    revert l. induction b as [|b IH]; intros l; [reflexivity|].
    destruct l as [|x r]; [destruct a; reflexivity|]. cbn [skipn plus]. apply IH.
  Qed.

  Lemma nth_chunks (n p c : nat) (l : list A) :
    c < n -> nth c (chunks n p l) [] = firstn p (skipn (c * p) l).
  Proof.
    revert c l. induction n as [|n IH]; intros c l Hc; [lia|].
    destruct c as [|c]; [reflexivity|]. cbn [chunks nth]. rewrite IH by lia.
    rewrite skipn_skipn_c. f_equal.
  Qed.

  (** element [k] of chunk [c] *)
  Lemma nth_chunk_elem (p c k : nat) (l : list A) d :
    k < p -> nth k (firstn p (skipn (c * p) l)) d = nth (c * p + k) l d.
  Proof. intros Hk. rewrite nth_firstn_c by exact Hk. apply nth_skipn_c. Qed.

  Lemma chunk_full_length (p c : nat) (l : list A) :
    c * p + p <= length l -> length (firstn p (skipn (c * p) l)) = p.
  Proof. intros H. rewrite firstn_length, skipn_length. lia. Qed.

  (** * [l[idx::stride]] *)
  Lemma every_nth_fuel_nth (fuel stride : nat) (l : list A) (k : nat) d :
    1 <= stride -> length l <= fuel -> nth k (every_nth_fuel fuel stride l) d = nth (k * stride) l d.
  Proof.
    intros Hs. revert l k. induction fuel as [|f IH]; intros l k Hl.
    - destruct l; [|cbn [length] in Hl; lia]. cbn [every_nth_fuel]. destruct k, (_ * stride); reflexivity.
    - cbn [every_nth_fuel]. destruct l as [|x r] eqn:El.
      + destruct k, (_ * stride); reflexivity.
      + destruct k as [|k]; [reflexivity|].
        transitivity (nth k (every_nth_fuel f stride (skipn stride (x :: r))) d); [reflexivity|]. rewrite IH.
        * rewrite nth_skipn_c. f_equal; lia.
        * rewrite skipn_length. cbn [length] in *. lia.
  Qed.

  Lemma every_nth_nth (idx stride : nat) (l : list A) (k : nat) d :
    1 <= stride -> nth k (every_nth idx stride l) d = nth (idx + k * stride) l d.
  Proof.
    intros Hs. unfold every_nth. rewrite every_nth_fuel_nth; [apply nth_skipn_c | exact Hs |].
    rewrite skipn_length. lia.
  Qed.

  Lemma every_nth_fuel_length (fuel stride : nat) (l : list A) (n : nat) :
    1 <= stride -> length l <= fuel ->
    n * stride < length l + stride <= S n * stride -> length (every_nth_fuel fuel stride l) = n.
  Proof.
    intros Hs. revert l n. induction fuel as [|f IH]; intros l n Hl Hn.
    - destruct l; [|cbn [length] in Hl; lia]. cbn [every_nth_fuel length] in *. nia.
    - cbn [every_nth_fuel]. destruct l as [|x r] eqn:El.
      + cbn [length] in *. nia.
      + destruct n as [|n]; [cbn [length] in Hn; nia|]. cbn [length]. f_equal. apply IH.
        * rewrite skipn_length. cbn [length] in *. lia.
        * rewrite skipn_length. cbn [length] in *. nia.
  Qed.

  (** [len(l[idx::stride]) = n] when [len(l) = n * stride] and [idx < stride] *)
  Lemma every_nth_length (idx stride n : nat) (l : list A) :
    idx < stride -> length l = n * stride -> length (every_nth idx stride l) = n.
  Proof.
    intros Hi Hl. unfold every_nth. destruct n as [|n].
    - destruct l; [reflexivity | cbn [length] in Hl; lia].
    - apply every_nth_fuel_length; [lia | rewrite skipn_length; lia |]. rewrite skipn_length. nia.
  Qed.

  Lemma py_slice_nth (a b i : nat) (l : list A) d : i < b - a -> nth i (py_slice a b l) d = nth (a + i) l d.
  Proof. intros H. unfold py_slice. rewrite nth_firstn_c by exact H. apply nth_skipn_c. Qed.

  Lemma py_slice_length (a b : nat) (l : list A) : b <= length l -> length (py_slice a b l) = b - a.
  Proof. intros H. unfold py_slice. rewrite firstn_length, skipn_length. lia. Qed.
End Lists.

(** * Arithmetic of positions inside periods *)
Lemma divmod_pos (i p : nat) : 1 <= p -> i = (i / p) * p + i mod p /\ i mod p < p.
Proof.
  intros Hp. split; [|apply Nat.mod_upper_bound; lia].
  pose proof (Nat.div_mod i p ltac:(lia)). lia.
Qed.

Lemma div_chunk (c k p : nat) : k < p -> (c * p + k) / p = c.
Proof. intros Hk. symmetry. apply (Nat.div_unique _ _ _ k); lia. Qed.

Lemma mod_chunk (c k p : nat) : k < p -> (c * p + k) mod p = k.
Proof. intros Hk. symmetry. apply (Nat.mod_unique _ _ c k); lia. Qed.

Lemma div_lt_periods (i n p : nat) : 1 <= p -> i < n * p -> i / p < n.
Proof. intros Hp Hi. apply Nat.div_lt_upper_bound; lia. Qed.

Lemma exact_periods (len p : nat) : 1 <= p -> len mod p = 0 -> len = (len / p) * p.
Proof. intros Hp Hm. pose proof (Nat.div_mod len p ltac:(lia)). lia. Qed.

(** * The tests *)
Section WithV.
  Context {V : Type} (veqb : V -> V -> bool).
  Hypothesis veqb_spec : forall a b, reflect (a = b) (veqb a b).

  Lemma veqb_true a b : veqb a b = true <-> a = b.
  Proof. destruct (veqb_spec a b); split; congruence. Qed.

  Lemma list_eqb_eq (a b : list V) : list_eqb veqb a b = true <-> a = b.
  Proof.
    revert b. induction a as [|x xs IH]; intros [|y ys]; cbn [list_eqb]; try (split; congruence).
    rewrite andb_true_iff, veqb_true, IH. split; [intros [-> ->]; reflexivity | intros H; injection H; auto].
  Qed.

  Lemma all_eq_first_spec (l : list V) d :
    all_eq_first veqb l = true <-> forall i, i < length l -> nth i l d = nth 0 l d.
  Proof.
    unfold all_eq_first. destruct l as [|x r]; [split; [cbn [length]; intros _ i Hi; lia | reflexivity]|].
    rewrite (forallb_nth _ _ d). cbn [nth]. split; intros H i Hi; specialize (H i Hi).
    - apply veqb_true in H. exact H.
    - apply veqb_true. exact H.
  Qed.

  (** the two readings of "constant" and "periodic" used below *)
  Definition all_equal (l : list V) (d : V) : Prop := forall i j, i < length l -> j < length l -> nth i l d = nth j l d.
  (** every period-[p] chunk is constant *)
  Definition chunks_constant (l : list V) (p : nat) (d : V) : Prop :=
    forall c k, c < length l / p -> k < p -> nth (c * p + k) l d = nth (c * p) l d.
  Definition const_mod_period (l : list V) (p : nat) (d : V) : Prop :=
    forall i j, i < length l -> j < length l -> i / p = j / p -> nth i l d = nth j l d.
  Definition repeats (l : list V) (p : nat) (d : V) : Prop :=
    forall i, i < length l -> nth i l d = nth (i mod p) l d.
  Definition same_mod_period (l : list V) (p : nat) (d : V) : Prop :=
    forall i j, i < length l -> j < length l -> i mod p = j mod p -> nth i l d = nth j l d.

  Lemma chunks_constant_iff (l : list V) (p : nat) d :
    1 <= p -> length l mod p = 0 -> (chunks_constant l p d <-> const_mod_period l p d).
  Proof.
    intros Hp Hm. pose proof (exact_periods _ _ Hp Hm) as Hlen. split.
    - intros H i j Hi Hj Hij.
      destruct (divmod_pos i p Hp) as [Ei Hip]. destruct (divmod_pos j p Hp) as [Ej Hjp].
      assert (Hci : i / p < length l / p) by (apply div_lt_periods; lia).
      rewrite Ei, Ej, <- Hij. rewrite (H _ _ Hci Hip). rewrite Hij in Hci. rewrite Hij.
      rewrite (H _ _ Hci Hjp). reflexivity.
    - intros H c k Hc Hk. apply H; [nia | nia |]. rewrite div_chunk by exact Hk.
      replace (c * p) with (c * p + 0) by lia. rewrite div_chunk by lia. reflexivity.
  Qed.

  Lemma repeats_iff (l : list V) (p : nat) d :
    1 <= p -> p <= length l -> (repeats l p d <-> same_mod_period l p d).
  Proof.
    intros Hp Hl. split.
    - intros H i j Hi Hj Hij. rewrite (H i Hi), (H j Hj), Hij. reflexivity.
    - intros H i Hi. apply H; [exact Hi | |].
      + pose proof (Nat.mod_upper_bound i p ltac:(lia)). lia.
      + rewrite Nat.mod_mod by lia. reflexivity.
  Qed.

  (** ** [is_constant]: exact, including the two ValueError cases *)
  Theorem is_constant_none_spec (l : list V) d :
    exists b, is_constant veqb l None = Ok b /\ (b = true <-> all_equal l d).
  Proof.
    eexists. split; [reflexivity|]. rewrite (all_eq_first_spec l d). split.
    - intros H i j Hi Hj. rewrite (H i Hi), (H j Hj). reflexivity.
    - intros H i Hi. apply H; lia.
  Qed.

  Theorem is_constant_spec (l : list V) (p : nat) d :
    (p <= 1 -> is_constant veqb l (Some p) = Err EValue) /\
    (2 <= p -> length l mod p <> 0 -> is_constant veqb l (Some p) = Err EValue) /\
    (2 <= p -> length l mod p = 0 ->
       exists b, is_constant veqb l (Some p) = Ok b /\ (b = true <-> chunks_constant l p d)).
  Proof.
    unfold is_constant. split; [|split].
    - intros Hp. apply Nat.leb_le in Hp. rewrite Hp. reflexivity.
    - intros Hp Hm. destruct (p <=? 1) eqn:E; [reflexivity|].
      apply Nat.eqb_neq in Hm. rewrite Hm. reflexivity.
    - intros Hp Hm. destruct (p <=? 1) eqn:E; [apply Nat.leb_le in E; lia|].
      rewrite Hm. cbn [Nat.eqb negb]. eexists. split; [reflexivity|].
      assert (Hlen : length l = (length l / p) * p) by (apply exact_periods; [lia | exact Hm]).
      rewrite (forallb_nth _ _ []). rewrite chunks_length. split.
      + intros H c k Hc Hk. specialize (H c Hc). rewrite nth_chunks in H by exact Hc.
        rewrite (all_eq_first_spec _ d) in H. rewrite chunk_full_length in H by nia.
        specialize (H k Hk). rewrite !nth_chunk_elem in H by lia. rewrite H. f_equal. lia.
      + intros H c Hc. rewrite nth_chunks by exact Hc. rewrite (all_eq_first_spec _ d).
        rewrite chunk_full_length by nia. intros k Hk. rewrite !nth_chunk_elem by lia.
        rewrite (H c k Hc Hk). f_equal. lia.
  Qed.

  (** ** [is_repeating] *)
  Theorem is_repeating_spec (l : list V) (p : nat) d :
    (p <= 1 \/ length l <= p -> is_repeating veqb l p = Err EValue) /\
    (2 <= p -> p < length l -> length l mod p <> 0 -> is_repeating veqb l p = Err EValue) /\
    (2 <= p -> p < length l -> length l mod p = 0 ->
       exists b, is_repeating veqb l p = Ok b /\ (b = true <-> repeats l p d)).
  Proof.
    unfold is_repeating. split; [|split].
    - intros H. assert (E : (p <=? 1) || (length l <=? p) = true).
      { apply orb_true_iff. destruct H as [H|H]; [left | right]; apply Nat.leb_le; exact H. }
      rewrite E. reflexivity.
    - intros Hp Hl Hm.
      assert (E : (p <=? 1) || (length l <=? p) = false).
      { apply orb_false_iff. split; apply Nat.leb_gt; lia. }
      rewrite E. apply Nat.eqb_neq in Hm. rewrite Hm. reflexivity.
    - intros Hp Hl Hm.
      assert (E : (p <=? 1) || (length l <=? p) = false).
      { apply orb_false_iff. split; apply Nat.leb_gt; lia. }
      rewrite E, Hm. cbn [Nat.eqb negb]. eexists. split; [reflexivity|].
      assert (Hlen : length l = (length l / p) * p) by (apply exact_periods; [lia | exact Hm]).
      set (n := length l / p) in *.
      assert (Hfirst : firstn p l = firstn p (skipn (0 * p) l)) by reflexivity.
      rewrite (forallb_nth _ _ []).
      assert (Htl : length (tl (chunks n p l)) = n - 1).
      { pose proof (chunks_length n p l) as Hc. destruct (chunks n p l); cbn [tl length] in *; lia. }
      rewrite Htl. split.
      + intros H i Hi.
        destruct (divmod_pos i p ltac:(lia)) as [Ei Hip].
        assert (Hc : i / p < n) by (apply div_lt_periods; lia).
        destruct (i / p) as [|c] eqn:Ec.
        * rewrite Nat.mod_small; [reflexivity | lia].
        * specialize (H c ltac:(lia)). rewrite nth_tl_c, nth_chunks in H by lia.
          apply list_eqb_eq in H.
          assert (Hk : nth (i mod p) (firstn p (skipn (S c * p) l)) d = nth (i mod p) (firstn p l) d)
            by (rewrite H; reflexivity).
          rewrite nth_chunk_elem in Hk by exact Hip. rewrite nth_firstn_c in Hk by exact Hip.
          rewrite <- Hk. f_equal. lia.
      + intros H c Hc. rewrite nth_tl_c, nth_chunks by lia. apply list_eqb_eq.
        apply (nth_ext _ _ d d).
        * rewrite chunk_full_length by nia. rewrite firstn_length. lia.
        * rewrite chunk_full_length by nia. intros k Hk.
          rewrite nth_chunk_elem by exact Hk. rewrite nth_firstn_c by exact Hk.
          rewrite (H (S c * p + k)) by nia. rewrite mod_chunk by exact Hk. reflexivity.
  Qed.

  (** the forms used by the classification proofs: a verdict, when there is one, is the right one *)
  Corollary is_constant_ok (l : list V) (p : nat) (b : bool) d :
    is_constant veqb l (Some p) = Ok b ->
    2 <= p /\ length l mod p = 0 /\ (b = true <-> const_mod_period l p d).
  Proof.
    intros H. destruct (is_constant_spec l p d) as [H1 [H2 H3]].
    destruct (le_lt_dec p 1) as [Hp|Hp]; [rewrite (H1 Hp) in H; discriminate|].
    destruct (Nat.eq_dec (length l mod p) 0) as [Hm|Hm]; [|rewrite (H2 Hp Hm) in H; discriminate].
    destruct (H3 Hp Hm) as [b' [Hb Hiff]]. rewrite H in Hb. injection Hb as <-.
    split; [lia|]. split; [exact Hm|]. rewrite Hiff. apply chunks_constant_iff; [lia | exact Hm].
  Qed.

  Corollary is_constant_none_ok (l : list V) (b : bool) d :
    is_constant veqb l None = Ok b -> (b = true <-> all_equal l d).
  Proof.
    intros H. destruct (is_constant_none_spec l d) as [b' [Hb Hiff]]. rewrite H in Hb. injection Hb as <-. exact Hiff.
  Qed.

  Corollary is_repeating_ok (l : list V) (p : nat) (b : bool) d :
    is_repeating veqb l p = Ok b ->
    2 <= p /\ p < length l /\ length l mod p = 0 /\ (b = true <-> same_mod_period l p d).
  Proof.
    intros H. destruct (is_repeating_spec l p d) as [H1 [H2 H3]].
    destruct (le_lt_dec p 1) as [Hp|Hp]; [rewrite (H1 (or_introl Hp)) in H; discriminate|].
    destruct (le_lt_dec (length l) p) as [Hl|Hl]; [rewrite (H1 (or_intror Hl)) in H; discriminate|].
    destruct (Nat.eq_dec (length l mod p) 0) as [Hm|Hm]; [|rewrite (H2 Hp Hl Hm) in H; discriminate].
    destruct (H3 Hp Hl Hm) as [b' [Hb Hiff]]. rewrite H in Hb. injection Hb as <-.
    repeat split; try lia; try exact Hm; rewrite Hiff; apply repeats_iff; lia.
  Qed.
End WithV.

(** non-vacuity: three periods, the defect sits in the LAST one (the "first two periods only" mutant says true) *)
Example is_constant_third_period :
  is_constant Nat.eqb [1; 1; 2; 2; 3; 4] (Some 2) = Ok false /\ is_constant Nat.eqb [1; 1; 2; 2; 3; 3] (Some 2) = Ok true /\
  is_constant Nat.eqb [1; 1; 2] (Some 2) = Err EValue /\ is_constant Nat.eqb [1; 1] (Some 1) = Err EValue.
Proof. vm_compute. repeat split; reflexivity. Qed.

Example is_repeating_second_period :
  is_repeating Nat.eqb [1; 2; 1; 3; 1; 2] 2 = Ok false /\ is_repeating Nat.eqb [1; 2; 1; 2; 1; 2] 2 = Ok true /\
  is_repeating Nat.eqb [1; 2] 2 = Err EValue /\ is_repeating Nat.eqb [1; 2; 3] 2 = Err EValue.
Proof. vm_compute. repeat split; reflexivity. Qed.
