(** What the refinement theorems ask of an extension follows from the format rules: a valid, non-degenerate extension has distinct
    keys, a 3..5-D header with its base dictionaries, no entry of an invalid class, and only storable per-key states. *)
From Coq Require Import List Bool Arith NArith ZArith QArith Lia.
From DV Require Import Common.Res Common.Str Common.Jv Ext.Types Ext.Classes Ext.Seq Ext.Model Ext.Spec Ext.TableFacts Ext.ValidFacts
     Ext.SrcEqAlg Ext.SrcEqState.
Import ListNotations.
Local Open Scope nat_scope.

Lemma assoc_in (k : key) (l : list (key * (cls * list jv))) (x : cls * list jv) : assoc k l = Some x -> In (k, x) l.
Proof.
  induction l as [|[k0 x0] r IH]; cbn [assoc]; [discriminate|]. destruct (key_eqb k k0) eqn:E.
  - intros H. injection H as ->. unfold key_eqb in E. apply str_eqb_eq in E. subst k0. left. reflexivity.
  - intros H. right. exact (IH H).
Qed.

Theorem valid_ext_ok (e : ext jv) : valid e -> nondegenerate e ->
  NoDup (keys_e e) /\ ndim_ok (hdr_of e) = true /\ bases_ok (hdr_of e) /\
  (forall k, visible (hdr_of e) (lookup_e e k) = lookup_e e k) /\
  (forall k, kst_storable (hdr_of e) (lookup_e e k)).
Proof.
  intros [[Hn [Hpos [Hsd [Haff Hbase]]]] [Hnd Hent]] Hdeg. split; [exact Hnd|]. split.
  { unfold ndim_ok. apply andb_true_iff. split; [apply Nat.leb_le; lia | apply Nat.ltb_lt; lia]. }
  split.
  { intros c Hc. apply Hbase. rewrite <- class_valid_ok. exact Hc. }
  assert (Hlk : forall k c vs, lookup_e e k = Some (c, vs) -> class_valid (hdr_of e) c = true /\
                               (is_slices c = true -> sdim (hdr_of e) <> None) /\ length vs = mult_spec (dims (hdr_of e)) c /\
                               (c <> GConst -> mult_spec (dims (hdr_of e)) c <> 1)).
  { intros k c vs Hk. unfold lookup_e in Hk. apply assoc_in in Hk. destruct (Hent k c vs Hk) as [H1 [H2 H3]].
    split; [rewrite class_valid_ok; exact H1|]. split; [exact H2|]. split; [exact H3 | exact (Hdeg k c vs Hk)]. }
  split.
  - intros k. unfold visible. destruct (lookup_e e k) as [[c vs]|] eqn:Ek; [|reflexivity].
    destruct (Hlk k c vs Ek) as [Hv _]. rewrite Hv. reflexivity.
  - intros k. unfold kst_storable, visible. destruct (lookup_e e k) as [[c vs]|] eqn:Ek; [|exact I].
    destruct (Hlk k c vs Ek) as [Hv [Hs [Hl Hd]]]. rewrite Hv.
    assert (Hm : multiplicity (hdr_of e) c = Ok (mult_spec (dims (hdr_of e)) c)).
    { apply multiplicity_ok; [exact Hn | rewrite <- class_valid_ok; exact Hv|]. intros Hsl. specialize (Hs Hsl).
      destruct (sdim (hdr_of e)) as [d|] eqn:Ed; [|exfalso; apply Hs; reflexivity]. exists d. split; [reflexivity | exact (Hsd d eq_refl)]. }
    destruct c; try (rewrite Hm; intros Hx; injection Hx as Hx; exact (Hd ltac:(discriminate) Hx)).
    rewrite Hl. reflexivity.
Qed.
