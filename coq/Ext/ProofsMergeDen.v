(** C03, exported layer: per-key denotation [den_k], per-key validity [good_k], and the widening lemmas
    ([changed_class] / [change_class_k] keep the denotation).  Other properties (C05 C06 C07 C13) import this
    file; the names and statements here are meant to be stable. *)
From Coq Require Import List Bool Arith Lia.
From DV Require Import Common.Res Common.Str Ext.Types Ext.Classes Ext.Seq Ext.Model Ext.Spec Ext.TableFacts
     Ext.ValidFacts Ext.ProofsMergeSeq.
Import ListNotations.
Local Open Scope nat_scope.

(** * Header facts *)

(** the part of [Spec.hdr_wf] that the per-key lemmas need *)
Definition hdr_ok (h : hdr) : Prop :=
  3 <= ndim h <= 5 /\ Forall (fun n => 1 <= n) (shape h) /\ (forall d, sdim h = Some d -> d < 3).

Lemma hdr_wf_ok h : hdr_wf h -> hdr_ok h.
Proof. intros [H1 [H2 [H3 _]]]. repeat split; try assumption; lia. Qed.

Lemma nth_ge1 (l : list nat) i : Forall (fun n => 1 <= n) l -> 1 <= nth i l 1.
Proof.
  intros H. destruct (Nat.lt_ge_cases i (length l)) as [Hlt|Hge].
  - rewrite Forall_forall in H. apply H. apply nth_In. exact Hlt.
  - rewrite nth_overflow by exact Hge. lia.
Qed.

Lemma dims_pos h nS nT nV : hdr_ok h -> dims h = (nS, nT, nV) -> 1 <= nS /\ 1 <= nT /\ 1 <= nV.
Proof.
  intros [_ [Hf _]] Hd. unfold dims in Hd. injection Hd as <- <- <-.
  repeat split; try apply nth_ge1; try assumption. destruct (sdim h); [apply nth_ge1; assumption | lia].
Qed.

Lemma mult_spec_pos d c : (let '(nS, nT, nV) := d in 1 <= nS /\ 1 <= nT /\ 1 <= nV) -> 1 <= mult_spec d c.
Proof. destruct d as [[nS nT] nV]. intros [H1 [H2 H3]]. destruct c; cbn [mult_spec]; nia. Qed.

Lemma mult_pos h c : hdr_ok h -> 1 <= mult_spec (dims h) c.
Proof.
  intros H. apply mult_spec_pos. destruct (dims h) as [[nS nT] nV] eqn:E. exact (dims_pos _ _ _ _ H E).
Qed.

Lemma multiplicity_ok' h c :
  hdr_ok h -> class_ok (shape h) c = true -> (is_slices c = true -> sdim h <> None) ->
  multiplicity h c = Ok (mult_spec (dims h) c).
Proof.
  intros [Hn [_ Hsd]] Hok Hsl. apply multiplicity_ok; [exact Hn | exact Hok|].
  intros Hs. specialize (Hsl Hs). destruct (sdim h) as [d|] eqn:E; [|congruence]. exists d. split; [reflexivity | auto].
Qed.

Lemma idx3_lt' s t v nS nT nV : s < nS -> t < nT -> v < nV -> s + nS * (t + nT * v) < nS * nT * nV.
Proof.
  intros Hs Ht Hv. assert (H1 : t + nT * v < nT * nV) by nia.
  assert (H2 : nS * (t + nT * v) + nS <= nS * (nT * nV)) by nia. nia.
Qed.

Lemma cidx_lt d c p :
  in_dims d p -> cidx d c p < mult_spec d c.
Proof.
  destruct d as [[nS nT] nV], p as [[s t] v]. cbn [in_dims]. intros [Hs [Ht Hv]].
  destruct c; cbn [cidx mult_spec]; try lia; try nia. apply idx3_lt'; assumption.
Qed.

(** every index below the multiplicity is the index of some grid position *)
Lemma cidx_onto d c i :
  (let '(nS, nT, nV) := d in 1 <= nS /\ 1 <= nT /\ 1 <= nV) ->
  i < mult_spec d c -> exists p, in_dims d p /\ cidx d c p = i.
Proof.
  destruct d as [[nS nT] nV]. intros [H1 [H2 H3]] Hi. destruct c; cbn [mult_spec] in Hi.
  - exists (0, 0, 0). cbn [in_dims cidx]. repeat split; lia.
  - exists (i mod nS, (i / nS) mod nT, i / nS / nT). cbn [in_dims cidx].
    assert (Hn1 : nS <> 0) by lia. assert (Hn2 : nT <> 0) by lia.
    pose proof (Nat.mod_upper_bound i nS Hn1). pose proof (Nat.mod_upper_bound (i / nS) nT Hn2).
    pose proof (Nat.div_mod i nS Hn1). pose proof (Nat.div_mod (i / nS) nT Hn2).
    assert (i / nS / nT < nV).
    { apply Nat.div_lt_upper_bound; [exact Hn2|]. apply Nat.div_lt_upper_bound; [exact Hn1|]. nia. }
    repeat split; try assumption. nia.
  - exists (0, i mod nT, i / nT). cbn [in_dims cidx]. assert (Hn2 : nT <> 0) by lia.
    pose proof (Nat.mod_upper_bound i nT Hn2). pose proof (Nat.div_mod i nT Hn2).
    assert (i / nT < nV) by (apply Nat.div_lt_upper_bound; [exact Hn2 | nia]).
    repeat split; try assumption; try lia.
  - exists (i, 0, 0). cbn [in_dims cidx]. repeat split; lia.
  - exists (0, 0, i). cbn [in_dims cidx]. repeat split; lia.
  - exists (i mod nS, i / nS, 0). cbn [in_dims cidx]. assert (Hn1 : nS <> 0) by lia.
    pose proof (Nat.mod_upper_bound i nS Hn1). pose proof (Nat.div_mod i nS Hn1).
    assert (i / nS < nT) by (apply Nat.div_lt_upper_bound; [exact Hn1 | nia]).
    repeat split; try assumption; try lia.
Qed.

(** * The widening order of [_preserving_changes] *)

Definition allowedb (oc : option cls) (new : cls) : bool :=
  match preserving oc with Some l => mem_cls new l | None => false end.

(** [oc] (a class, or [None] for an absent key) can be turned into [new] without losing data *)
Definition widens (oc : option cls) (new : cls) : Prop := oc = Some new \/ allowedb oc new = true.

(** by how much the value list grows (element-wise for non-slice sources, whole-list for per-slice sources) *)
Definition wfact (d : pos) (c new : cls) : nat :=
  let '(nS, nT, nV) := d in
  match c, new with
  | GConst, x => mult_spec d x
  | VSamples, TSamples => nT
  | VSamples, GSlices => nS * nT
  | TSamples, GSlices => nS
  | TSlices, VSlices => nT
  | TSlices, GSlices => nT * nV
  | VSlices, GSlices => nV
  | _, _ => 1
  end.

Lemma allowed_not_const c new : allowedb (Some c) new = true -> new <> GConst /\ c <> new.
Proof. destruct c, new; vm_compute; intros H; try discriminate H; split; discriminate. Qed.

Lemma wfact_mult d c new :
  allowedb (Some c) new = true -> mult_spec d new = wfact d c new * mult_spec d c.
Proof.
  destruct d as [[nS nT] nV]. destruct c, new; vm_compute allowedb; intros H; try discriminate H;
    cbn [wfact mult_spec]; lia.
Qed.

Lemma div_idx a b q : a < b -> (a + b * q) / b = q.
Proof. intros H. symmetry. apply (Nat.div_unique _ _ q a); [exact H | lia]. Qed.

Lemma mod_idx a b q : a < b -> (a + b * q) mod b = a.
Proof. intros H. symmetry. apply (Nat.mod_unique _ _ q a); [exact H | lia]. Qed.

(** the index laws behind "replicate per-slice lists whole, other lists element-wise" *)
Lemma widen_index d c new p :
  allowedb (Some c) new = true -> in_dims d p ->
  if is_slices c then cidx d new p mod mult_spec d c = cidx d c p
  else cidx d new p / wfact d c new = cidx d c p.
Proof.
  destruct d as [[nS nT] nV], p as [[s t] v]. intros Ha [Hs [Ht Hv]].
  destruct c, new; vm_compute allowedb in Ha; try discriminate Ha; clear Ha;
    cbn [is_slices sub_of cidx wfact mult_spec].
  - (* const -> gslices *) apply Nat.div_small. apply idx3_lt'; assumption.
  - apply Nat.div_small. nia.
  - apply Nat.div_small. lia.
  - apply Nat.div_small. lia.
  - apply Nat.div_small. nia.
  - (* tsamples -> gslices *) apply div_idx. exact Hs.
  - (* tslices -> gslices *) apply mod_idx. exact Hs.
  - (* tslices -> vslices *) apply mod_idx. exact Hs.
  - (* vsamples -> gslices *)
    replace (s + nS * (t + nT * v)) with ((s + nS * t) + (nS * nT) * v) by ring. apply div_idx. nia.
  - (* vsamples -> tsamples *) apply div_idx. exact Ht.
  - (* vslices -> gslices *)
    replace (s + nS * (t + nT * v)) with ((s + nS * t) + (nS * nT) * v) by ring. apply mod_idx. nia.
Qed.

Lemma Ok_inj {A} (a b : A) : Ok a = Ok b -> a = b.
Proof. intros H. injection H as ->. reflexivity. Qed.

Section WithV.
  Context {V : Type} (veqb : V -> V -> bool) (vnone : V).

  (** * Per-key denotation and validity *)

  (** value of a key in state [s] under header [h] at grid position [p] *)
  Definition den_k (h : hdr) (s : kst V) (p : pos) : V :=
    match s with
    | Some (c, vs) => if class_ok (shape h) c then nth (cidx (dims h) c p) vs vnone else vnone
    | None => vnone
    end.

  Lemma den_den_k (e : ext V) k p : den vnone e k p = den_k (hdr_of e) (lookup_e e k) p.
  Proof. unfold den, den_k. destruct (lookup_e e k) as [[c vs]|]; reflexivity. Qed.

  (** the per-key part of [Spec.valid] *)
  Definition good_k (h : hdr) (s : kst V) : Prop :=
    match s with
    | None => True
    | Some (c, vs) =>
        class_ok (shape h) c = true /\ (is_slices c = true -> sdim h <> None) /\ length vs = mult_spec (dims h) c
    end.

  (** the per-key part of [Spec.nondegenerate] *)
  Definition nondeg_k (h : hdr) (s : kst V) : Prop :=
    match s with Some (c, _) => c <> GConst -> mult_spec (dims h) c <> 1 | None => True end.

  Lemma assoc_In' (l : list (key * (cls * list V))) k x : assoc k l = Some x -> In (k, x) l.
  Proof.
    induction l as [|[k' y] r IH]; simpl; [discriminate|].
    unfold key_eqb. destruct (str_eqb_spec k k') as [->|_].
    - intros H; injection H as ->. left; reflexivity.
    - intros H; right; auto.
  Qed.

  Lemma valid_good_k (e : ext V) k : valid e -> good_k (hdr_of e) (lookup_e e k).
  Proof.
    intros [_ [_ Hent]]. unfold good_k, lookup_e. destruct (assoc k (entries e)) as [[c vs]|] eqn:E; [|exact I].
    apply (Hent k c vs). apply assoc_In'. exact E.
  Qed.

  Lemma nondegenerate_nondeg_k (e : ext V) k : nondegenerate e -> nondeg_k (hdr_of e) (lookup_e e k).
  Proof.
    intros Hn. unfold nondeg_k, lookup_e. destruct (assoc k (entries e)) as [[c vs]|] eqn:E; [|exact I].
    apply (Hn k c vs). apply assoc_In'. exact E.
  Qed.

  Lemma visible_good h s : good_k h s -> visible h s = s.
  Proof.
    destruct s as [[c vs]|]; [|reflexivity]. intros [Hok _]. unfold visible. rewrite class_valid_ok, Hok. reflexivity.
  Qed.

  Lemma den_k_good h c vs p : class_ok (shape h) c = true -> den_k h (Some (c, vs)) p = nth (cidx (dims h) c p) vs vnone.
  Proof. intros H. unfold den_k. rewrite H. reflexivity. Qed.

  (** * [_get_changed_class] keeps the denotation *)

  (** closed form of [changed_class] on a present key and a strictly wider class *)
  Lemma changed_class_some h c vs new sd :
    hdr_ok h -> good_k h (Some (c, vs)) ->
    class_ok (shape h) new = true -> (is_slices new = true -> sdim h <> None) ->
    allowedb (Some c) new = true ->
    changed_class vnone h (Some (c, vs)) new sd =
    Ok (if is_slices c then rep_list (wfact (dims h) c new) vs else rep_each (wfact (dims h) c new) vs).
  Proof.
    intros Hh Hg Hok Hsl Ha. pose proof Hg as [Hcok [Hcsl Hlen]].
    destruct (allowed_not_const _ _ Ha) as [Hnc Hne].
    unfold changed_class. rewrite (visible_good _ _ Hg). cbn [kst_class ocls_eqb].
    destruct (cls_eqb_spec c new) as [->|_]; [congruence|].
    pose proof Ha as Ha2. unfold allowedb in Ha2. destruct (preserving (Some c)) as [l|] eqn:Ep; [|discriminate].
    rewrite Ha2. cbn [negb].
    rewrite (multiplicity_ok' h c Hh Hcok Hcsl). cbn [bind].
    rewrite class_valid_ok, Hok, (multiplicity_ok' h new Hh Hok Hsl). cbn [bind].
    pose proof (mult_pos h new Hh) as Hp1. pose proof (mult_pos h c Hh) as Hp2.
    destruct (Nat.eqb_spec (mult_spec (dims h) new) 0) as [E|_]; [lia|]. cbn [bind].
    destruct (Nat.eqb_spec (mult_spec (dims h) c) 0) as [E|_]; [lia|].
    assert (Hf : mult_spec (dims h) new / mult_spec (dims h) c = wfact (dims h) c new).
    { rewrite (wfact_mult (dims h) c new Ha). apply Nat.div_mul. lia. }
    rewrite Hf. destruct (cls_eqb_spec new GConst) as [->|_]; [congruence | reflexivity].
  Qed.

  Lemma preserving_None : preserving None = Some [GConst; VSamples; TSamples; TSlices; VSlices; GSlices].
  Proof. vm_compute. reflexivity. Qed.

  Lemma allowed_from_none new : allowedb None new = true.
  Proof. unfold allowedb. rewrite preserving_None. destruct new; reflexivity. Qed.

  Lemma rep_each_single (x : V) n : rep_each n [x] = repeat x n.
  Proof. unfold rep_each. cbn [flat_map]. apply app_nil_r. Qed.

  Lemma class_ok_const h : hdr_ok h -> class_ok (shape h) GConst = true.
  Proof.
    intros [Hn _]. unfold class_ok, ndim in *. destruct (length (shape h)) as [|[|[|[|[|[|n]]]]]]; try lia; reflexivity.
  Qed.

  (** an absent key is the constant None *)
  Lemma changed_class_none h new sd :
    hdr_ok h -> class_ok (shape h) new = true -> (is_slices new = true -> sdim h <> None) ->
    changed_class vnone h None new sd = Ok (repeat vnone (mult_spec (dims h) new)).
  Proof.
    intros Hh Hok Hsl. unfold changed_class. cbn [visible kst_class ocls_eqb].
    rewrite preserving_None. replace (mem_cls new _) with true by (destruct new; reflexivity). cbn [negb bind].
    rewrite class_valid_ok, Hok, (multiplicity_ok' h new Hh Hok Hsl). cbn [bind].
    pose proof (mult_pos h new Hh) as Hp1.
    destruct (Nat.eqb_spec (mult_spec (dims h) new) 0) as [E|_]; [lia|]. cbn [bind Nat.eqb].
    rewrite Nat.div_1_r, rep_each_single.
    destruct (cls_eqb_spec new GConst) as [->|_]; [|reflexivity].
    destruct (dims h) as [[nS nT] nV]. reflexivity.
  Qed.

  (** the three outcomes of [changed_class] on a present key *)
  Lemma changed_class_cases h c vs new sd :
    hdr_ok h -> good_k h (Some (c, vs)) ->
    class_ok (shape h) new = true -> (is_slices new = true -> sdim h <> None) ->
    (c = new /\ changed_class vnone h (Some (c, vs)) new sd = Ok vs) \/
    (allowedb (Some c) new = true /\
     changed_class vnone h (Some (c, vs)) new sd =
     Ok (if is_slices c then rep_list (wfact (dims h) c new) vs else rep_each (wfact (dims h) c new) vs)) \/
    (c <> new /\ allowedb (Some c) new = false /\ exists e, changed_class vnone h (Some (c, vs)) new sd = Err e).
  Proof.
    intros Hh Hg Hok Hsl.
    destruct (cls_eqb_spec c new) as [->|Hne].
    - left. split; [reflexivity|]. unfold changed_class. rewrite (visible_good _ _ Hg). cbn [kst_class ocls_eqb].
      rewrite cls_eqb_refl. reflexivity.
    - right. destruct (allowedb (Some c) new) eqn:Ea.
      + left. split; [reflexivity|]. apply changed_class_some; assumption.
      + right. split; [exact Hne|]. split; [reflexivity|].
        unfold changed_class. rewrite (visible_good _ _ Hg). cbn [kst_class ocls_eqb].
        destruct (cls_eqb_spec c new) as [->|_]; [congruence|].
        unfold allowedb in Ea. destruct (preserving (Some c)) as [l|]; [|eauto]. rewrite Ea. cbn [negb]. eauto.
  Qed.

  (** THEOREM 1 (value-list form): [_get_changed_class] returns exactly [mult] values and every grid position
      reads the same value through the new class as through the old one *)
  Lemma changed_class_den h s new sd vs' :
    hdr_ok h -> good_k h s ->
    class_ok (shape h) new = true -> (is_slices new = true -> sdim h <> None) ->
    changed_class vnone h s new sd = Ok vs' ->
    length vs' = mult_spec (dims h) new /\
    forall p, in_dims (dims h) p -> nth (cidx (dims h) new p) vs' vnone = den_k h s p.
  Proof.
    intros Hh Hg Hok Hsl Hc. destruct s as [[c vs]|].
    - pose proof Hg as [Hcok [Hcsl Hlen]].
      destruct (changed_class_cases h c vs new sd Hh Hg Hok Hsl) as [[-> E]|[[Ha E]|[_ [_ [e E]]]]];
        rewrite E in Hc; [apply Ok_inj in Hc; subst vs' | apply Ok_inj in Hc; subst vs' | discriminate].
      + split; [exact Hlen|]. intros p _. rewrite den_k_good by exact Hok. reflexivity.
      + pose proof (wfact_mult (dims h) c new Ha) as Hm. pose proof (mult_pos h c Hh) as Hp. pose proof (mult_pos h new Hh) as Hp'.
        assert (Hw : wfact (dims h) c new <> 0) by (intros E0; rewrite E0 in Hm; lia).
        split.
        * destruct (is_slices c); [rewrite rep_list_length | rewrite rep_each_length]; rewrite Hlen, Hm; reflexivity.
        * intros p Hp0. rewrite den_k_good by exact Hcok.
          pose proof (widen_index (dims h) c new p Ha Hp0) as Hi.
          destruct (is_slices c).
          -- assert (Hb : cidx (dims h) new p < wfact (dims h) c new * length vs)
               by (rewrite Hlen, <- Hm; apply cidx_lt; exact Hp0).
             rewrite (rep_list_nth _ _ _ vnone Hb), Hlen, Hi. reflexivity.
          -- rewrite rep_each_nth by exact Hw. rewrite Hi. reflexivity.
    - rewrite changed_class_none in Hc by assumption. injection Hc as <-.
      split; [apply repeat_length|]. intros p _. cbn [den_k].
      destruct (Nat.lt_ge_cases (cidx (dims h) new p) (mult_spec (dims h) new)) as [Hlt|Hge].
      + apply nth_repeat_any. exact Hlt.
      + apply nth_overflow. rewrite repeat_length. exact Hge.
  Qed.

  Lemma changed_class_ok h s new sd :
    hdr_ok h -> good_k h s ->
    class_ok (shape h) new = true -> (is_slices new = true -> sdim h <> None) ->
    widens (kst_class s) new ->
    exists vs', changed_class vnone h s new sd = Ok vs'.
  Proof.
    intros Hh Hg Hok Hsl Hw. destruct s as [[c vs]|].
    - destruct (changed_class_cases h c vs new sd Hh Hg Hok Hsl) as [[-> E]|[[Ha E]|[Hne [Hna _]]]]; eauto.
      destruct Hw as [Hw|Hw]; cbn [kst_class] in Hw; [injection Hw as ->; congruence | congruence].
    - rewrite changed_class_none by assumption. eauto.
  Qed.

  (** the target class is not admitted by [h] (an input of lower dimensionality): the model's multiplicity is 1;
      the result is meaningful when the key is absent or constant *)
  Lemma changed_class_invalid h s new sd :
    hdr_ok h -> good_k h s -> class_ok (shape h) new = false -> widens (kst_class s) new ->
    exists vs', changed_class vnone h s new sd = Ok vs' /\
                (s = None -> vs' = [vnone]) /\ (forall v, s = Some (GConst, [v]) -> vs' = [v]).
  Proof.
    intros Hh Hg Hok Hw.
    assert (Hnc : new <> GConst) by (intros ->; rewrite (class_ok_const h Hh) in Hok; discriminate).
    destruct s as [[c vs]|].
    - pose proof Hg as [Hcok [Hcsl Hlen]].
      destruct Hw as [Hw|Hw]; cbn [kst_class] in Hw; [injection Hw as ->; congruence|].
      destruct (allowed_not_const _ _ Hw) as [_ Hne].
      unfold changed_class. rewrite (visible_good _ _ Hg). cbn [kst_class ocls_eqb].
      destruct (cls_eqb_spec c new) as [->|_]; [congruence|].
      unfold allowedb in Hw. destruct (preserving (Some c)) as [l|]; [|discriminate]. rewrite Hw. cbn [negb].
      rewrite (multiplicity_ok' h c Hh Hcok Hcsl). cbn [bind]. rewrite class_valid_ok, Hok. cbn [bind].
      pose proof (mult_pos h c Hh) as Hp.
      destruct (Nat.eqb_spec (mult_spec (dims h) c) 0) as [E|_]; [lia|].
      destruct (cls_eqb_spec new GConst) as [->|_]; [congruence|].
      eexists. split; [reflexivity|]. split; [discriminate|].
      intros v Hv. injection Hv as -> ->. cbn [is_slices sub_of].
      destruct (dims h) as [[nS nT] nV]. cbn [mult_spec]. rewrite Nat.div_1_r. apply rep_each_one.
    - unfold changed_class. cbn [visible kst_class ocls_eqb]. rewrite preserving_None.
      replace (mem_cls new _) with true by (destruct new; reflexivity). cbn [negb bind].
      rewrite class_valid_ok, Hok. cbn [bind Nat.eqb]. rewrite Nat.div_1_r.
      destruct (cls_eqb_spec new GConst) as [->|_]; [congruence|].
      eexists. split; [reflexivity|]. split; [intros _; apply rep_each_one | discriminate].
  Qed.

  (** * [_change_class] *)

  (** THEOREM 1: widening a key in place keeps its denotation, and the new state is well formed *)
  Lemma change_class_k_den h s new s' :
    hdr_ok h -> good_k h s ->
    class_ok (shape h) new = true -> (is_slices new = true -> sdim h <> None) ->
    change_class_k vnone h s new = Ok s' ->
    (exists vs', s' = Some (new, vs')) /\ good_k h s' /\
    forall p, in_dims (dims h) p -> den_k h s' p = den_k h s p.
  Proof.
    intros Hh Hg Hok Hsl Hc. unfold change_class_k in Hc. rewrite (visible_good _ _ Hg) in Hc.
    destruct (ocls_eqb (kst_class s) (Some new)) eqn:Eo.
    - injection Hc as <-. destruct s as [[c vs]|]; [|discriminate]. cbn [kst_class ocls_eqb] in Eo.
      apply cls_eqb_eq in Eo. subst c. split; [eauto|]. split; [exact Hg | reflexivity].
    - apply bind_ok in Hc as [vals [Hv Hp]]. unfold put in Hp.
      destruct (has_base h (base_of new)); [|discriminate]. injection Hp as <-.
      destruct (changed_class_den h s new None vals Hh Hg Hok Hsl Hv) as [Hlen Hden].
      split; [eauto|]. split; [cbn [good_k]; auto|].
      intros p Hp. rewrite den_k_good by exact Hok. apply Hden. exact Hp.
  Qed.

  Lemma change_class_k_ok h s new :
    hdr_ok h -> good_k h s ->
    class_ok (shape h) new = true -> (is_slices new = true -> sdim h <> None) ->
    has_base h (base_of new) = true -> widens (kst_class s) new ->
    exists s', change_class_k vnone h s new = Ok s'.
  Proof.
    intros Hh Hg Hok Hsl Hb Hw. unfold change_class_k. rewrite (visible_good _ _ Hg).
    destruct (ocls_eqb (kst_class s) (Some new)); [eauto|].
    destruct (changed_class_ok h s new None Hh Hg Hok Hsl Hw) as [vs' ->]. cbn [bind]. unfold put. rewrite Hb. eauto.
  Qed.
End WithV.
