(** Executable model of the JSON text codec used by [DcmMetaExtension]
    (src/dcmstack/dcmmeta.py: [to_json], [from_json], [_mangle], [_unmangle], [__str__]):

      print : jv -> str           = CPython  json.dumps(obj, indent=4)
                                    (ensure_ascii=True, item separator ",", key separator ": ")
      parse : str -> option jv    = CPython  json.loads(s, object_pairs_hook=OrderedDict)
                                    ([None] = JSONDecodeError, a ValueError)

    Strings are lists of code points.  A float is an opaque lexeme ([JNum tok]): the printer emits the
    token ([float.__repr__], resp. NaN / Infinity / -Infinity), the parser returns the lexeme that
    CPython hands to [float()].  Everything else is interpreted: integers of any size, the escape
    table of [encode_basestring_ascii] / [scanstring], the indent layout, the OrderedDict
    construction from the parsed pairs (first position, last value).  No proofs in this file. *)
From Coq Require Import List Bool ZArith NArith Decimal DecimalZ Lia.
From DV Require Import Common.Str Common.Jv Common.Res.
Import ListNotations.
Local Open Scope N_scope.

(* ------------------------------------------------------------------------------------------ *)
(** * Characters *)

Definition is_ws (c : N) : bool := (c =? 32) || (c =? 9) || (c =? 10) || (c =? 13).
Definition is_digit (c : N) : bool := (48 <=? c) && (c <=? 57).

Fixpoint skip_ws (s : str) : str :=
  match s with
  | c :: r => if is_ws c then skip_ws r else s
  | [] => []
  end.

(** lowercase hex digit of a nibble *)
Definition hexdig (n : N) : N := if n <? 10 then 48 + n else 87 + n.
Definition hex4 (c : N) : str :=
  [hexdig ((c / 4096) mod 16); hexdig ((c / 256) mod 16); hexdig ((c / 16) mod 16); hexdig (c mod 16)].

Definition unhex (c : N) : option N :=
  if (48 <=? c) && (c <=? 57) then Some (c - 48)
  else if (97 <=? c) && (c <=? 102) then Some (c - 87)
  else if (65 <=? c) && (c <=? 70) then Some (c - 55)
  else None.

Definition unhex4 (a b c d : N) : option N :=
  match unhex a, unhex b, unhex c, unhex d with
  | Some x, Some y, Some z, Some w => Some (((x * 16 + y) * 16 + z) * 16 + w)
  | _, _, _, _ => None
  end.

Definition is_high (u : N) : bool := (55296 <=? u) && (u <=? 56319).   (* D800..DBFF *)
Definition is_low (u : N) : bool := (56320 <=? u) && (u <=? 57343).    (* DC00..DFFF *)
Definition join_surr (hi lo : N) : N := 65536 + (hi - 55296) * 1024 + (lo - 56320).

(* ------------------------------------------------------------------------------------------ *)
(** * Printer *)

(** [encode_basestring_ascii], one code point. *)
Definition print_char (c : N) : str :=
  if c =? 34 then [92; 34]
  else if c =? 92 then [92; 92]
  else if c =? 10 then [92; 110]
  else if c =? 13 then [92; 114]
  else if c =? 9 then [92; 116]
  else if c =? 8 then [92; 98]
  else if c =? 12 then [92; 102]
  else if (32 <=? c) && (c <=? 126) then [c]
  else if c <? 65536 then 92 :: 117 :: hex4 c
  else let v := c - 65536 in
       (92 :: 117 :: hex4 (55296 + v / 1024)) ++ (92 :: 117 :: hex4 (56320 + v mod 1024)).

Definition print_string (s : str) : str := 34 :: flat_map print_char s ++ [34].

Fixpoint uint_str (d : Decimal.uint) : str :=
  match d with
  | Decimal.Nil => []
  | Decimal.D0 d => 48 :: uint_str d
  | Decimal.D1 d => 49 :: uint_str d
  | Decimal.D2 d => 50 :: uint_str d
  | Decimal.D3 d => 51 :: uint_str d
  | Decimal.D4 d => 52 :: uint_str d
  | Decimal.D5 d => 53 :: uint_str d
  | Decimal.D6 d => 54 :: uint_str d
  | Decimal.D7 d => 55 :: uint_str d
  | Decimal.D8 d => 56 :: uint_str d
  | Decimal.D9 d => 57 :: uint_str d
  end.

(** [int.__repr__] *)
Definition print_int (z : Z) : str :=
  match Z.to_int z with
  | Decimal.Pos d => uint_str d
  | Decimal.Neg d => 45 :: uint_str d
  end.

Definition nl (lvl : nat) : str := 10 :: repeat 32 (4 * lvl)%nat.

Fixpoint join (sep : str) (l : list str) : str :=
  match l with
  | [] => []
  | x :: r => match r with [] => x | _ :: _ => x ++ sep ++ join sep r end
  end.

Definition s_null : str := [110; 117; 108; 108].
Definition s_true : str := [116; 114; 117; 101].
Definition s_false : str := [102; 97; 108; 115; 101].
Definition s_nan : str := [78; 97; 78].
Definition s_inf : str := [73; 110; 102; 105; 110; 105; 116; 121].
Definition s_ninf : str := 45 :: s_inf.

(** [_iterencode] with [indent=4] at nesting level [lvl]. *)
Fixpoint print_at (lvl : nat) (j : jv) {struct j} : str :=
  match j with
  | JNull => s_null
  | JBool true => s_true
  | JBool false => s_false
  | JInt z => print_int z
  | JNum tok => tok
  | JStr s => print_string s
  | JArr [] => [91; 93]
  | JArr l =>
      91 :: nl (S lvl) ++ join (44 :: nl (S lvl)) (map (print_at (S lvl)) l) ++ nl lvl ++ [93]
  | JObj [] => [123; 125]
  | JObj l =>
      123 :: nl (S lvl)
        ++ join (44 :: nl (S lvl))
                (map (fun kv => print_string (fst kv) ++ 58 :: 32 :: print_at (S lvl) (snd kv)) l)
        ++ nl lvl ++ [125]
  end.

Definition print (j : jv) : str := print_at 0 j.

(* ------------------------------------------------------------------------------------------ *)
(** * Scanner: strings ([scanstring], strict) *)

Definition simple_escape (e : N) : option N :=
  if e =? 34 then Some 34
  else if e =? 92 then Some 92
  else if e =? 47 then Some 47
  else if e =? 98 then Some 8
  else if e =? 102 then Some 12
  else if e =? 110 then Some 10
  else if e =? 114 then Some 13
  else if e =? 116 then Some 9
  else None.

(** [s] is the text after the opening quote; result: decoded string and the text after the closing
    quote.  A high surrogate escape directly followed by a low surrogate escape is joined; any other
    surrogate escape is kept as the lone code point (as CPython does). *)
Fixpoint scan_str (s : str) : option (str * str) :=
  match s with
  | [] => None
  | c :: r =>
    if c =? 34 then Some ([], r)
    else if c =? 92 then
      match r with
      | [] => None
      | e :: r1 =>
        if e =? 117 then
          match r1 with
          | h1 :: h2 :: h3 :: h4 :: r2 =>
            match unhex4 h1 h2 h3 h4 with
            | None => None
            | Some u =>
              let lone := match scan_str r2 with Some (x, t) => Some (u :: x, t) | None => None end in
              if is_high u then
                match r2 with
                | b :: b' :: g1 :: g2 :: g3 :: g4 :: r3 =>
                  if (b =? 92) && (b' =? 117) then
                    match unhex4 g1 g2 g3 g4 with
                    | None => None
                    | Some u2 =>
                      if is_low u2
                      then match scan_str r3 with
                           | Some (x, t) => Some (join_surr u u2 :: x, t)
                           | None => None
                           end
                      else lone
                    end
                  else lone
                | _ => lone
                end
              else lone
            end
          | _ => None
          end
        else
          match simple_escape e with
          | Some x1 => match scan_str r1 with Some (x, t) => Some (x1 :: x, t) | None => None end
          | None => None
          end
      end
    else if c <? 32 then None
    else match scan_str r with Some (x, t) => Some (c :: x, t) | None => None end
  end.

(* ------------------------------------------------------------------------------------------ *)
(** * Scanner: numbers.  CPython's NUMBER_RE: optional minus, then 0 or a nonzero digit followed by
      digits; optionally a dot and one or more digits; optionally e/E, an optional sign and one or more
      digits.  Optional groups that do not match in full are not consumed. *)

Fixpoint span_digits (s : str) : str * str :=
  match s with
  | c :: r => if is_digit c then let (a, b) := span_digits r in (c :: a, b) else ([], s)
  | [] => ([], [])
  end.

Definition scan_intpart (s : str) : option (str * str) :=
  match s with
  | [] => None
  | c :: r =>
    if c =? 48 then Some ([48], r)
    else if is_digit c then let (a, b) := span_digits r in Some (c :: a, b)
    else None
  end.

Definition scan_frac (s : str) : str * str :=
  match s with
  | c :: r =>
    if c =? 46 then
      match span_digits r with
      | ([], _) => ([], s)
      | (a, b) => (46 :: a, b)
      end
    else ([], s)
  | [] => ([], [])
  end.

Definition scan_sign (s : str) : str * str :=
  match s with
  | c :: r => if (c =? 43) || (c =? 45) then ([c], r) else ([], s)
  | [] => ([], [])
  end.

Definition scan_exp (s : str) : str * str :=
  match s with
  | c :: r =>
    if (c =? 101) || (c =? 69) then
      let (sg, r1) := scan_sign r in
      match span_digits r1 with
      | ([], _) => ([], s)
      | (a, b) => (c :: sg ++ a, b)
      end
    else ([], s)
  | [] => ([], [])
  end.

Definition mk_digit (c : N) (d : Decimal.uint) : Decimal.uint :=
  if c =? 48 then Decimal.D0 d else if c =? 49 then Decimal.D1 d else if c =? 50 then Decimal.D2 d
  else if c =? 51 then Decimal.D3 d else if c =? 52 then Decimal.D4 d else if c =? 53 then Decimal.D5 d
  else if c =? 54 then Decimal.D6 d else if c =? 55 then Decimal.D7 d else if c =? 56 then Decimal.D8 d
  else Decimal.D9 d.

Fixpoint str_uint (s : str) : Decimal.uint :=
  match s with
  | [] => Decimal.Nil
  | c :: r => mk_digit c (str_uint r)
  end.

(** Python [int(token)] on a token of the integer shape. *)
Definition int_of_tok (neg : bool) (ds : str) : Z :=
  Z.of_int (if neg then Decimal.Neg (str_uint ds) else Decimal.Pos (str_uint ds)).

Definition scan_minus (s : str) : bool * str :=
  match s with
  | c :: r => if c =? 45 then (true, r) else (false, s)
  | [] => (false, [])
  end.

Definition scan_number (s : str) : option (jv * str) :=
  let (neg, s1) := scan_minus s in
  match scan_intpart s1 with
  | None => None
  | Some (ip, s2) =>
    let (fr, s3) := scan_frac s2 in
    let (ex, s4) := scan_exp s3 in
    match fr, ex with
    | [], [] => Some (JInt (int_of_tok neg ip), s4)
    | _, _ => Some (JNum ((if neg then [45] else []) ++ ip ++ fr ++ ex), s4)
    end
  end.

(* ------------------------------------------------------------------------------------------ *)
(** * OrderedDict(pairs) *)

Fixpoint od_set (k : str) (v : jv) (l : list (str * jv)) : list (str * jv) :=
  match l with
  | [] => [(k, v)]
  | (k', v') :: r => if str_eqb k k' then (k', v) :: r else (k', v') :: od_set k v r
  end.

Definition od_of_pairs (ps : list (str * jv)) : list (str * jv) :=
  fold_left (fun acc kv => od_set (fst kv) (snd kv) acc) ps [].

(* ------------------------------------------------------------------------------------------ *)
(** * Scanner: values ([scan_once], [JSONArray], [JSONObject]) *)

Definition lit (p : str) (v : jv) (s : str) (otherwise : option (jv * str)) : option (jv * str) :=
  if prefixb p s then Some (v, skipn (length p) s) else otherwise.

Fixpoint parse_val (fuel : nat) (s : str) {struct fuel} : option (jv * str) :=
  match fuel with
  | O => None
  | S f =>
    match s with
    | [] => None
    | c :: r =>
      if c =? 34 then
        match scan_str r with Some (x, t) => Some (JStr x, t) | None => None end
      else if c =? 123 then
        match skip_ws r with
        | [] => None
        | c1 :: r1 =>
          if c1 =? 125 then Some (JObj [], r1)
          else match parse_members f (c1 :: r1) with
               | Some (ps, t) => Some (JObj (od_of_pairs ps), t)
               | None => None
               end
        end
      else if c =? 91 then
        match skip_ws r with
        | [] => None
        | c1 :: r1 =>
          if c1 =? 93 then Some (JArr [], r1)
          else match parse_elems f (c1 :: r1) with
               | Some (vs, t) => Some (JArr vs, t)
               | None => None
               end
        end
      else if c =? 110 then lit s_null JNull s (scan_number s)
      else if c =? 116 then lit s_true (JBool true) s (scan_number s)
      else if c =? 102 then lit s_false (JBool false) s (scan_number s)
      else if c =? 78 then lit s_nan (JNum s_nan) s (scan_number s)
      else if c =? 73 then lit s_inf (JNum s_inf) s (scan_number s)
      else if c =? 45 then lit s_ninf (JNum s_ninf) s (scan_number s)
      else scan_number s
    end
  end

(** [s] stands at the first character of an element; result: this and all following elements, and the
    text after the closing bracket. *)
with parse_elems (fuel : nat) (s : str) {struct fuel} : option (list jv * str) :=
  match fuel with
  | O => None
  | S f =>
    match parse_val f s with
    | None => None
    | Some (v, r) =>
      match skip_ws r with
      | [] => None
      | c :: r1 =>
        if c =? 93 then Some ([v], r1)
        else if c =? 44 then
          match parse_elems f (skip_ws r1) with
          | Some (vs, t) => Some (v :: vs, t)
          | None => None
          end
        else None
      end
    end
  end

(** [s] stands where the opening quote of a member name is expected. *)
with parse_members (fuel : nat) (s : str) {struct fuel} : option (list (str * jv) * str) :=
  match fuel with
  | O => None
  | S f =>
    match s with
    | [] => None
    | q :: r0 =>
      if q =? 34 then
        match scan_str r0 with
        | None => None
        | Some (k, r) =>
          match skip_ws r with
          | [] => None
          | c :: r1 =>
            if c =? 58 then
              match parse_val f (skip_ws r1) with
              | None => None
              | Some (v, r2) =>
                match skip_ws r2 with
                | [] => None
                | c2 :: r3 =>
                  if c2 =? 125 then Some ([(k, v)], r3)
                  else if c2 =? 44 then
                    match parse_members f (skip_ws r3) with
                    | Some (ps, t) => Some ((k, v) :: ps, t)
                    | None => None
                    end
                  else None
                end
              end
            else None
          end
        end
      else None
    end
  end.

(** [JSONDecoder.decode]: leading white space, one value, trailing white space, end of text. *)
Definition parse (s : str) : option jv :=
  match parse_val (length s) (skip_ws s) with
  | Some (v, r) => match skip_ws r with [] => Some v | _ :: _ => None end
  | None => None
  end.

(* ------------------------------------------------------------------------------------------ *)
(** * Well-formed values: the domain of the round-trip theorems *)

(** Unicode scalar value (a code point that is not a surrogate). *)
Definition scalar (c : N) : bool := (c <? 55296) || ((57344 <=? c) && (c <=? 1114111)).

(** A float lexeme: one of the three constants CPython emits for non-finite floats, or a token that the
    CPython number pattern matches in full and that has a fraction or an exponent part (every
    [float.__repr__] of a finite float has this shape). *)
Definition float_tok (t : str) : bool :=
  str_eqb t s_nan || str_eqb t s_inf || str_eqb t s_ninf ||
  match scan_number t with
  | Some (JNum t', []) => str_eqb t' t
  | _ => false
  end.

Fixpoint nodupb (l : list str) : bool :=
  match l with
  | [] => true
  | k :: r => negb (existsb (str_eqb k) r) && nodupb r
  end.

Fixpoint wfb (j : jv) : bool :=
  match j with
  | JNull | JBool _ | JInt _ => true
  | JNum t => float_tok t
  | JStr s => forallb scalar s
  | JArr l => forallb wfb l
  | JObj l => nodupb (map fst l) && forallb (fun kv => forallb scalar (fst kv) && wfb (snd kv)) l
  end.

Definition wf (j : jv) : Prop := wfb j = true.

(* ------------------------------------------------------------------------------------------ *)
(** * UTF-8: [str.encode('utf-8')] and strict [bytes.decode('utf-8')]; bytes are numbers below 256.
      The encoder is total (Python raises UnicodeEncodeError on a surrogate code point; the text that
      json.dumps emits with ensure_ascii is pure ASCII, so that never happens in [_mangle]).  The decoder
      rejects stray and missing continuation bytes, overlong forms, encoded surrogates and values above
      U+10FFFF, as CPython does ([None] = UnicodeDecodeError, a ValueError). *)

Definition utf8_enc_char (c : N) : list N :=
  if c <? 128 then [c]
  else if c <? 2048 then [192 + c / 64; 128 + c mod 64]
  else if c <? 65536 then [224 + c / 4096; 128 + (c / 64) mod 64; 128 + c mod 64]
  else [240 + c / 262144; 128 + (c / 4096) mod 64; 128 + (c / 64) mod 64; 128 + c mod 64].

Definition utf8_encode (s : str) : list N := flat_map utf8_enc_char s.

Definition is_cont (b : N) : bool := (128 <=? b) && (b <=? 191).

Definition cons_opt (c : N) (o : option str) : option str :=
  match o with Some x => Some (c :: x) | None => None end.

Fixpoint utf8_decode (b : list N) : option str :=
  match b with
  | [] => Some []
  | b1 :: r1 =>
    if b1 <? 128 then cons_opt b1 (utf8_decode r1)
    else if (194 <=? b1) && (b1 <=? 223) then
      match r1 with
      | b2 :: r2 =>
        if is_cont b2 then cons_opt ((b1 - 192) * 64 + (b2 - 128)) (utf8_decode r2) else None
      | [] => None
      end
    else if (224 <=? b1) && (b1 <=? 239) then
      match r1 with
      | b2 :: b3 :: r3 =>
        if is_cont b2 && is_cont b3 then
          let c := (b1 - 224) * 4096 + (b2 - 128) * 64 + (b3 - 128) in
          if (2048 <=? c) && negb ((55296 <=? c) && (c <=? 57343)) then cons_opt c (utf8_decode r3) else None
        else None
      | _ => None
      end
    else if (240 <=? b1) && (b1 <=? 244) then
      match r1 with
      | b2 :: b3 :: b4 :: r4 =>
        if is_cont b2 && is_cont b3 && is_cont b4 then
          let c := (b1 - 240) * 262144 + (b2 - 128) * 4096 + (b3 - 128) * 64 + (b4 - 128) in
          if (65536 <=? c) && (c <=? 1114111) then cons_opt c (utf8_decode r4) else None
        else None
      | _ => None
      end
    else None
  end.

(* ------------------------------------------------------------------------------------------ *)
(** * Structure layer: [DcmMetaExtension] serialisation entry points over the raw content [jv].
      [check_valid] is the validity check of the extension content (modelled in DV.Content); it is
      kept abstract here. *)

Section Structure.
  Variable check_valid : jv -> res unit.

  (** [to_json]: check_valid(), then json.dumps(self._content, indent=4). *)
  Definition to_json (e : jv) : res str :=
    match check_valid e with Ok _ => Ok (print e) | Err x => Err x end.

  (** [from_json]: json.loads (JSONDecodeError is a ValueError), then check_valid(). *)
  Definition from_json (s : str) : res jv :=
    match parse s with
    | None => Err EValue
    | Some j => match check_valid j with Ok _ => Ok j | Err x => Err x end
    end.

  (** [from_runtime_repr]: adopt the dictionary, then check_valid(). *)
  Definition from_runtime_repr (e : jv) : res jv :=
    match check_valid e with Ok _ => Ok e | Err x => Err x end.

  (** [_mangle]: json.dumps(value, indent=4).encode('utf-8'): the extension bytes inside a NIfTI file.
      [_unmangle]: value.decode('utf-8'), then json.loads with OrderedDict pairs (either step failing
      is a ValueError). *)
  Definition mangle (e : jv) : list N := utf8_encode (print e).
  Definition unmangle (b : list N) : option jv :=
    match utf8_decode b with Some s => parse s | None => None end.

  (** [__str__]: _mangle(content).decode('utf-8'); no validity check. *)
  Definition to_str (e : jv) : res str :=
    match utf8_decode (mangle e) with Some s => Ok s | None => Err EValue end.

  (** File layer.  [store b] = what nibabel hands back as the extension bytes after
      [NiftiWrapper.to_filename] + [nb.load] ([None]: the file cannot be read back).
      [to_filename] refuses invalid extensions; [NiftiWrapper.__init__] validates on load. *)
  Variable store : str -> option str.

  Definition save_load (e : jv) : res jv :=
    match check_valid e with
    | Err x => Err x
    | Ok _ =>
      match store (mangle e) with
      | None => Err ECrash
      | Some b =>
        match unmangle b with
        | None => Err EValue
        | Some j => match check_valid j with Ok _ => Ok j | Err _ => Err EMissingExt end
        end
      end
    end.

  (** Histories.  A live extension object keeps two forms of its content: the runtime dictionary
      ([h_obj], what the DcmMeta API edits in place) and the encoded bytes last produced or read
      ([h_raw], nibabel's [_raw]).  nibabel re-encodes on every access to the encoded form ([_sync]:
      [content], [get_sizeondisk], [write_to]), so an edit made after an earlier encoding must still
      reach the file.  [HEdit c]: the API call left the dictionary equal to [c] (the encoded form is
      not touched); [HTouch]: something asked for the encoded form; [HSave]: NiftiWrapper.to_filename
      (validity check, then write); [HLoad]: NiftiWrapper.from_filename of the file written last (an
      invalid extension in a file is skipped by NiftiWrapper, which then finds none). *)
  Record hstate := { h_obj : jv; h_raw : str; h_file : option str }.
  Inductive hop := HEdit (c : jv) | HTouch | HSave | HLoad.
  Inductive hevent := EvNone | EvSaved (b : str) | EvRefused (x : err) | EvLoaded (r : res jv).

  Definition hstep (s : hstate) (o : hop) : hstate * hevent :=
    match o with
    | HEdit c => ({| h_obj := c; h_raw := h_raw s; h_file := h_file s |}, EvNone)
    | HTouch => ({| h_obj := h_obj s; h_raw := mangle (h_obj s); h_file := h_file s |}, EvNone)
    | HSave =>
      match check_valid (h_obj s) with
      | Err x => (s, EvRefused x)
      | Ok _ =>
        let raw := mangle (h_obj s) in
        match store raw with
        | None => ({| h_obj := h_obj s; h_raw := raw; h_file := None |}, EvRefused ECrash)
        | Some b => ({| h_obj := h_obj s; h_raw := raw; h_file := Some b |}, EvSaved b)
        end
      end
    | HLoad =>
      match h_file s with
      | None => (s, EvLoaded (Err ECrash))
      | Some b =>
        match unmangle b with
        | None => (s, EvLoaded (Err EValue))
        | Some j =>
          match check_valid j with
          | Ok _ => ({| h_obj := j; h_raw := b; h_file := h_file s |}, EvLoaded (Ok j))
          | Err _ => (s, EvLoaded (Err EMissingExt))
          end
        end
      end
    end.

  Fixpoint hrun (s : hstate) (ops : list hop) : hstate * list hevent :=
    match ops with
    | [] => (s, [])
    | o :: r => let (s1, e) := hstep s o in let (s2, es) := hrun s1 r in (s2, e :: es)
    end.
End Structure.
