(** Structure layer of C09: the serialisation entry points of [DcmMetaExtension] over the raw content,
    with the validity check abstract, and sample values for the non-vacuity examples. *)
From Coq Require Import List Bool ZArith NArith Lia.
From DV Require Import Common.Str Common.Jv Common.Res Json.Model Json.ProofsLex Json.ProofsNum Json.ProofsCodec Json.ProofsUtf8.
Import ListNotations.
Local Open Scope N_scope.

(** The bytes of a well-formed content are its printed text (pure ASCII), and they decode and parse back. *)
Lemma mangle_print e : wf e -> mangle e = print e.
Proof. intros Hwf. unfold mangle. apply utf8_encode_ascii. apply print_ascii; exact Hwf. Qed.

Lemma unmangle_mangle e : wf e -> unmangle (mangle e) = Some e.
Proof.
  intros Hwf. unfold unmangle, mangle. rewrite utf8_decode_encode.
  - apply parse_print; exact Hwf.
  - apply ascii_scalar. apply print_ascii; exact Hwf.
Qed.

Lemma to_str_print e : wf e -> to_str e = Ok (print e).
Proof.
  intros Hwf. unfold to_str, mangle. rewrite utf8_decode_encode; [reflexivity|].
  apply ascii_scalar. apply print_ascii; exact Hwf.
Qed.

Section Structure.
  Variable check_valid : jv -> res unit.

  Lemma to_json_defined_iff_valid e :
    (exists s, to_json check_valid e = Ok s) <-> check_valid e = Ok tt.
  Proof.
    unfold to_json. split.
    - intros [s H]. destruct (check_valid e) as [[]|x]; [reflexivity|discriminate].
    - intros ->. eexists. reflexivity.
  Qed.

  Lemma to_json_text e s : to_json check_valid e = Ok s -> s = print e /\ check_valid e = Ok tt.
  Proof. unfold to_json. destruct (check_valid e) as [[]|x]; [|discriminate]. intros [= <-]. split; reflexivity. Qed.

  Lemma from_to e s : wf e -> to_json check_valid e = Ok s -> from_json check_valid s = Ok e.
  Proof.
    intros Hwf H. apply to_json_text in H as [-> Hv]. unfold from_json.
    rewrite (parse_print e Hwf), Hv. reflexivity.
  Qed.

  Lemma from_runtime_repr_iff_valid e :
    from_runtime_repr check_valid e = Ok e <-> check_valid e = Ok tt.
  Proof.
    unfold from_runtime_repr. split.
    - destruct (check_valid e) as [[]|x]; [reflexivity|discriminate].
    - intros ->. reflexivity.
  Qed.

  Lemma str_is_json e s : wf e -> to_json check_valid e = Ok s -> to_str e = Ok s.
  Proof. intros Hwf H. apply to_json_text in H as [-> _]. apply to_str_print; exact Hwf. Qed.

  Variable store : str -> option str.
  Hypothesis store_faithful : forall b, store b = Some b.

  (** All three constructors give the same result on the serialised form of the same content: the same
      extension when the content is valid, the same refusal otherwise. *)
  Lemma constructors_agree e : wf e ->
    from_json check_valid (print e) = from_runtime_repr check_valid e
    /\ save_load check_valid store e = from_runtime_repr check_valid e.
  Proof.
    intros Hwf. unfold from_json, from_runtime_repr, save_load.
    rewrite store_faithful, (unmangle_mangle e Hwf), (parse_print e Hwf). split; [reflexivity|].
    destruct (check_valid e) as [[]|x]; reflexivity.
  Qed.

  Lemma file_roundtrip e : wf e -> check_valid e = Ok tt -> save_load check_valid store e = Ok e.
  Proof.
    intros Hwf Hv. destruct (constructors_agree e Hwf) as [_ ->].
    apply from_runtime_repr_iff_valid. exact Hv.
  Qed.

  Lemma save_load_twice e e1 : wf e -> save_load check_valid store e = Ok e1 ->
    e1 = e /\ mangle e1 = mangle e /\ save_load check_valid store e1 = Ok e1.
  Proof.
    intros Hwf H. destruct (constructors_agree e Hwf) as [_ Hs]. rewrite Hs in H.
    unfold from_runtime_repr in H. destruct (check_valid e) as [[]|x] eqn:Hv; [|discriminate].
    injection H as <-. repeat split. apply file_roundtrip; assumption.
  Qed.
  (** Whatever the encoded-form cache of the live object holds ([h_raw s] is arbitrary: stale bytes from
      before an edit, bytes read from an earlier file, nothing), a save stores the encoding of the content
      the object has now, and loading that file gives this content back, with the cache equal to the
      stored bytes. *)
  Lemma history_step s : wf (h_obj s) -> check_valid (h_obj s) = Ok tt ->
    exists s1 s2,
      hstep check_valid store s HSave = (s1, EvSaved (mangle (h_obj s)))
      /\ h_obj s1 = h_obj s /\ h_raw s1 = mangle (h_obj s)
      /\ hstep check_valid store s1 HLoad = (s2, EvLoaded (Ok (h_obj s)))
      /\ h_obj s2 = h_obj s /\ h_raw s2 = mangle (h_obj s).
  Proof.
    intros Hwf Hv. unfold hstep. rewrite Hv, store_faithful. eexists _, _.
    split; [reflexivity|]. cbn [h_obj h_raw h_file]. split; [reflexivity|]. split; [reflexivity|].
    rewrite (unmangle_mangle _ Hwf), Hv. cbn [h_obj h_raw].
    repeat split; reflexivity.
  Qed.

  (** An edit or a request for the encoded form never changes what the next save stores for a given
      content: the events of a history do not depend on the initial cache. *)
  Lemma history_cache_irrelevant ops : forall s raw',
    snd (hrun check_valid store s ops)
    = snd (hrun check_valid store {| h_obj := h_obj s; h_raw := raw'; h_file := h_file s |} ops)
    /\ h_obj (fst (hrun check_valid store s ops))
       = h_obj (fst (hrun check_valid store {| h_obj := h_obj s; h_raw := raw'; h_file := h_file s |} ops))
    /\ h_file (fst (hrun check_valid store s ops))
       = h_file (fst (hrun check_valid store {| h_obj := h_obj s; h_raw := raw'; h_file := h_file s |} ops)).
  Proof.
    induction ops as [|o ops IH]; intros s raw'; [repeat split; reflexivity|].
    cbn [hrun].
    assert (Hstep : exists r1 r2,
               hstep check_valid store s o
               = ({| h_obj := h_obj (fst (hstep check_valid store s o)); h_raw := r1;
                     h_file := h_file (fst (hstep check_valid store s o)) |}, snd (hstep check_valid store s o))
               /\ hstep check_valid store {| h_obj := h_obj s; h_raw := raw'; h_file := h_file s |} o
                  = ({| h_obj := h_obj (fst (hstep check_valid store s o)); h_raw := r2;
                        h_file := h_file (fst (hstep check_valid store s o)) |}, snd (hstep check_valid store s o))).
    { destruct s as [obj raw file]. destruct o as [c| | |]; cbn [hstep h_obj h_raw h_file].
      - eexists _, _. split; reflexivity.
      - eexists _, _. split; reflexivity.
      - destruct (check_valid obj) as [[]|x]; [|eexists _, _; split; reflexivity].
        destruct (store (mangle obj)); eexists _, _; split; reflexivity.
      - destruct file as [b|]; [|eexists _, _; split; reflexivity].
        destruct (unmangle b) as [j|]; [|eexists _, _; split; reflexivity].
        destruct (check_valid j) as [[]|x]; eexists _, _; split; reflexivity. }
    destruct Hstep as (r1 & r2 & E1 & E2). rewrite E1, E2.
    set (s1 := {| h_obj := _; h_raw := r1; h_file := _ |}).
    specialize (IH s1 r2). cbn [h_obj h_file] in IH. destruct IH as (IHa & IHb & IHc).
    destruct (hrun check_valid store s1 ops) as [sa ea].
    destruct (hrun check_valid store _ ops) as [sb eb]. cbn [fst snd] in *.
    repeat split; congruence.
  Qed.
End Structure.

(* ------------------------------------------------------------------------------------------ *)
(** * Sample values for the examples in Props/C09.v *)

(** A nested object: keys with a Latin-1 letter, a quote, a backslash, a newline, a non-BMP code point, control
    characters, DEL and U+FFFF, the empty key; a negative 30-digit integer, float tokens with exponent, negative
    zero, NaN, null, booleans, empty and nested containers. *)
Definition sample : jv :=
  JObj [ ([233; 34; 92; 10; 128512],
          JArr [JInt (-123456789012345678901234567890); JNum [49; 46; 53; 101; 45; 48; 55]; JNull;
                JObj [([], JArr []); ([107], JObj [])]]);
         ([1; 127; 65535], JBool true);
         ([45], JNum [45; 48; 46; 48]);
         ([110], JNum s_nan);
         ([98], JBool false) ].

Lemma sample_wf : wf sample.
Proof. vm_compute. reflexivity. Qed.

(** A stand-in validity check for the examples: accepts exactly objects. *)
Definition sample_check (j : jv) : res unit :=
  match j with JObj _ => Ok tt | _ => Err EInvalidExt end.

Definition sample_store (b : str) : option str := Some b.

(** Which tokens count as float lexemes ([float_tok]): accepted  0.1  -0.0  1e+22  5e-324  1.7976931348623157e+308
    1.5e-07  123456789012345680.0  2E5  NaN  Infinity  -Infinity ; rejected  1  -12  01.5  1.  .5  1e  1e+  0x1p3
    nan  (1.5 followed by a space)  --1.0  1.5e3x  and the empty token. *)
Example float_tok_samples :
  forallb float_tok
    [ [48; 46; 49];
      [45; 48; 46; 48];
      [49; 101; 43; 50; 50];
      [53; 101; 45; 51; 50; 52];
      [49; 46; 55; 57; 55; 54; 57; 51; 49; 51; 52; 56; 54; 50; 51; 49; 53; 55; 101; 43; 51; 48; 56];
      [49; 46; 53; 101; 45; 48; 55];
      [49; 50; 51; 52; 53; 54; 55; 56; 57; 48; 49; 50; 51; 52; 53; 54; 56; 48; 46; 48];
      [50; 69; 53];
      [78; 97; 78];
      [73; 110; 102; 105; 110; 105; 116; 121];
      [45; 73; 110; 102; 105; 110; 105; 116; 121] ] = true
  /\ forallb (fun t => negb (float_tok t))
    [ [49];
      [45; 49; 50];
      [48; 49; 46; 53];
      [49; 46];
      [46; 53];
      [49; 101];
      [49; 101; 43];
      [48; 120; 49; 112; 51];
      [110; 97; 110];
      [49; 46; 53; 32];
      [45; 45; 49; 46; 48];
      [49; 46; 53; 101; 51; 120];
      [] ] = true.
Proof. split; vm_compute; reflexivity. Qed.
