(** Structure layer of C09: the serialisation entry points of [DcmMetaExtension] over the raw content,
    with the validity check abstract, and sample values for the non-vacuity examples. *)
From Coq Require Import List Bool ZArith NArith Lia.
From DV Require Import Common.Str Common.Jv Common.Res Json.Model Json.ProofsLex Json.ProofsNum Json.ProofsCodec.
Import ListNotations.
Local Open Scope N_scope.

Section Structure.
  Variable check_valid : jv -> res unit.

  Lemma to_json_defined_iff_valid e :
    (exists s, to_json check_valid e = Ok s) <-> check_valid e = Ok tt.
  Proof.
    unfold to_json. split.
    - intros [s H]. destruct (check_valid e) as [[]|x]; [reflexivity|discriminate].
    - intros ->. eexists. reflexivity.
  Qed.

  Lemma to_json_text e s : to_json check_valid e = Ok s -> s = print e /\ check_valid e = Ok tt.
  Proof. unfold to_json. destruct (check_valid e) as [[]|x]; [|discriminate]. intros [= <-]. split; reflexivity. Qed.

  Lemma from_to e s : wf e -> to_json check_valid e = Ok s -> from_json check_valid s = Ok e.
  Proof.
    intros Hwf H. apply to_json_text in H as [-> Hv]. unfold from_json.
    rewrite (parse_print e Hwf), Hv. reflexivity.
  Qed.

  Lemma from_runtime_repr_iff_valid e :
    from_runtime_repr check_valid e = Ok e <-> check_valid e = Ok tt.
  Proof.
    unfold from_runtime_repr. split.
    - destruct (check_valid e) as [[]|x]; [reflexivity|discriminate].
    - intros ->. reflexivity.
  Qed.

  Lemma str_is_json e s : to_json check_valid e = Ok s -> to_str e = s.
  Proof. intros H. apply to_json_text in H as [-> _]. reflexivity. Qed.

  Variable store : str -> option str.
  Hypothesis store_faithful : forall b, store b = Some b.

  (** All three constructors give the same result on the serialised form of the same content: the same
      extension when the content is valid, the same refusal otherwise. *)
  Lemma constructors_agree e : wf e ->
    from_json check_valid (print e) = from_runtime_repr check_valid e
    /\ save_load check_valid store e = from_runtime_repr check_valid e.
  Proof.
    intros Hwf. unfold from_json, from_runtime_repr, save_load, mangle, unmangle.
    rewrite store_faithful, (parse_print e Hwf). split; [reflexivity|].
    destruct (check_valid e) as [[]|x]; reflexivity.
  Qed.

  Lemma file_roundtrip e : wf e -> check_valid e = Ok tt -> save_load check_valid store e = Ok e.
  Proof.
    intros Hwf Hv. destruct (constructors_agree e Hwf) as [_ ->].
    apply from_runtime_repr_iff_valid. exact Hv.
  Qed.

  Lemma save_load_twice e e1 : wf e -> save_load check_valid store e = Ok e1 ->
    e1 = e /\ mangle e1 = mangle e /\ save_load check_valid store e1 = Ok e1.
  Proof.
    intros Hwf H. destruct (constructors_agree e Hwf) as [_ Hs]. rewrite Hs in H.
    unfold from_runtime_repr in H. destruct (check_valid e) as [[]|x] eqn:Hv; [|discriminate].
    injection H as <-. repeat split. apply file_roundtrip; assumption.
  Qed.
End Structure.

(* ------------------------------------------------------------------------------------------ *)
(** * Sample values for the examples in Props/C09.v *)

(** A nested object: keys with a Latin-1 letter, a quote, a backslash, a newline, a non-BMP code point, control
    characters, DEL and U+FFFF, the empty key; a negative 30-digit integer, float tokens with exponent, negative
    zero, NaN, null, booleans, empty and nested containers. *)
Definition sample : jv :=
  JObj [ ([233; 34; 92; 10; 128512],
          JArr [JInt (-123456789012345678901234567890); JNum [49; 46; 53; 101; 45; 48; 55]; JNull;
                JObj [([], JArr []); ([107], JObj [])]]);
         ([1; 127; 65535], JBool true);
         ([45], JNum [45; 48; 46; 48]);
         ([110], JNum s_nan);
         ([98], JBool false) ].

Lemma sample_wf : wf sample.
Proof. vm_compute. reflexivity. Qed.

(** A stand-in validity check for the examples: accepts exactly objects. *)
Definition sample_check (j : jv) : res unit :=
  match j with JObj _ => Ok tt | _ => Err EInvalidExt end.

Definition sample_store (b : str) : option str := Some b.

(** Which tokens count as float lexemes ([float_tok]): accepted  0.1  -0.0  1e+22  5e-324  1.7976931348623157e+308
    1.5e-07  123456789012345680.0  2E5  NaN  Infinity  -Infinity ; rejected  1  -12  01.5  1.  .5  1e  1e+  0x1p3
    nan  (1.5 followed by a space)  --1.0  1.5e3x  and the empty token. *)
Example float_tok_samples :
  forallb float_tok
    [ [48; 46; 49];
      [45; 48; 46; 48];
      [49; 101; 43; 50; 50];
      [53; 101; 45; 51; 50; 52];
      [49; 46; 55; 57; 55; 54; 57; 51; 49; 51; 52; 56; 54; 50; 51; 49; 53; 55; 101; 43; 51; 48; 56];
      [49; 46; 53; 101; 45; 48; 55];
      [49; 50; 51; 52; 53; 54; 55; 56; 57; 48; 49; 50; 51; 52; 53; 54; 56; 48; 46; 48];
      [50; 69; 53];
      [78; 97; 78];
      [73; 110; 102; 105; 110; 105; 116; 121];
      [45; 73; 110; 102; 105; 110; 105; 116; 121] ] = true
  /\ forallb (fun t => negb (float_tok t))
    [ [49];
      [45; 49; 50];
      [48; 49; 46; 53];
      [49; 46];
      [46; 53];
      [49; 101];
      [49; 101; 43];
      [48; 120; 49; 112; 51];
      [110; 97; 110];
      [49; 46; 53; 32];
      [45; 45; 49; 46; 48];
      [49; 46; 53; 101; 51; 120];
      [] ] = true.
Proof. split; vm_compute; reflexivity. Qed.
