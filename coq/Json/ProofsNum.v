(** Number tokens: the scanner is stable under appending a delimiter, integers round-trip. *)
From Coq Require Import List Bool ZArith NArith Decimal DecimalFacts DecimalPos DecimalN DecimalZ Lia.
From DV Require Import Common.Str Common.Jv Common.Res Json.Model Json.ProofsLex.
Import ListNotations.
Local Open Scope N_scope.

(* ------------------------------------------------------------------------------------------ *)
(** * Appending a delimiter-headed text does not change what the number scanner does *)

Lemma scan_intpart_app s rest ip s2 :
  delim rest -> scan_intpart s = Some (ip, s2) -> scan_intpart (s ++ rest) = Some (ip, s2 ++ rest).
Proof.
  intros Hd H. destruct s as [|c r]; [discriminate|]. cbn [List.app]. cbn [scan_intpart] in *.
  destruct (c =? 48).
  - injection H as <- <-. reflexivity.
  - destruct (is_digit c); [|discriminate].
    rewrite (span_digits_app r rest Hd). destruct (span_digits r) as [a b].
    injection H as <- <-. reflexivity.
Qed.

Lemma scan_frac_app s rest :
  delim rest -> scan_frac (s ++ rest) = (fst (scan_frac s), snd (scan_frac s) ++ rest).
Proof.
  intros Hd. destruct s as [|c r]; cbn [List.app].
  - destruct rest as [|c r]; [reflexivity|]. cbn [delim] in Hd.
    apply delim_char_facts in Hd as (_ & H46 & _). cbn [scan_frac].
    destruct (N.eqb_spec c 46); [contradiction|reflexivity].
  - cbn [scan_frac]. destruct (c =? 46); [|reflexivity].
    rewrite (span_digits_app r rest Hd). destruct (span_digits r) as [[|a0 a] b]; reflexivity.
Qed.

Lemma scan_sign_app s rest :
  delim rest -> scan_sign (s ++ rest) = (fst (scan_sign s), snd (scan_sign s) ++ rest).
Proof.
  intros Hd. destruct s as [|c r]; cbn [List.app].
  - destruct rest as [|c r]; [reflexivity|]. cbn [delim] in Hd.
    apply delim_char_facts in Hd as (_ & _ & _ & _ & H43 & H45). cbn [scan_sign].
    destruct (N.eqb_spec c 43); [contradiction|]. destruct (N.eqb_spec c 45); [contradiction|]. reflexivity.
  - cbn [scan_sign]. destruct ((c =? 43) || (c =? 45)); reflexivity.
Qed.

Lemma scan_exp_app s rest :
  delim rest -> scan_exp (s ++ rest) = (fst (scan_exp s), snd (scan_exp s) ++ rest).
Proof.
  intros Hd. destruct s as [|c r]; cbn [List.app].
  - destruct rest as [|c r]; [reflexivity|]. cbn [delim] in Hd.
    apply delim_char_facts in Hd as (_ & _ & H101 & H69 & _). cbn [scan_exp].
    destruct (N.eqb_spec c 101); [contradiction|]. destruct (N.eqb_spec c 69); [contradiction|]. reflexivity.
  - cbn [scan_exp]. destruct ((c =? 101) || (c =? 69)); [|reflexivity].
    rewrite (scan_sign_app r rest Hd). destruct (scan_sign r) as [sg r1]. cbn [fst snd].
    rewrite (span_digits_app r1 rest Hd). destruct (span_digits r1) as [[|a0 a] b]; reflexivity.
Qed.

Lemma scan_number_app s rest v r :
  delim rest -> scan_number s = Some (v, r) -> scan_number (s ++ rest) = Some (v, r ++ rest).
Proof.
  intros Hd H. unfold scan_number in *.
  assert (Hs : scan_minus (s ++ rest) = (fst (scan_minus s), snd (scan_minus s) ++ rest)).
  { destruct s as [|c r0].
    - cbn [scan_minus scan_intpart] in H. discriminate.
    - cbn [List.app scan_minus]. destruct (c =? 45); reflexivity. }
  rewrite Hs. destruct (scan_minus s) as [neg s1]. cbn [fst snd]. clear Hs.
  destruct (scan_intpart s1) as [[ip s2]|] eqn:Ei; [|discriminate].
  rewrite (scan_intpart_app _ _ _ _ Hd Ei).
  rewrite (scan_frac_app s2 rest Hd). destruct (scan_frac s2) as [fr s3]. cbn [fst snd].
  rewrite (scan_exp_app s3 rest Hd). destruct (scan_exp s3) as [ex s4]. cbn [fst snd].
  destruct fr, ex; injection H as <- <-; reflexivity.
Qed.

(* ------------------------------------------------------------------------------------------ *)
(** * Integers *)

Lemma scan_intpart_uint_pos p :
  scan_intpart (uint_str (Pos.to_uint p)) = Some (uint_str (Pos.to_uint p), []).
Proof.
  destruct (pos_uint_head p) as (c & r & E & _ & Hd & H48 & _). rewrite E. cbn [scan_intpart].
  destruct (N.eqb_spec c 48); [contradiction|]. rewrite Hd, span_digits_uint. reflexivity.
Qed.

Lemma scan_number_print_int z : scan_number (print_int z) = Some (JInt z, []).
Proof.
  unfold print_int. pose proof (DecimalZ.of_to z) as Hz.
  destruct z as [|p|p]; cbn [Z.to_int] in *.
  - reflexivity.
  - unfold scan_number.
    destruct (pos_uint_head p) as (c & r & E & _ & Hd & H48 & Hsu).
    assert (H45 : (c =? 45) = false).
    { apply N.eqb_neq. intros ->. discriminate Hd. }
    assert (Hm : scan_minus (uint_str (Pos.to_uint p)) = (false, uint_str (Pos.to_uint p))).
    { rewrite E. cbn [scan_minus]. rewrite H45. reflexivity. }
    rewrite Hm. rewrite scan_intpart_uint_pos.
    cbn [scan_frac scan_exp]. unfold int_of_tok. rewrite str_uint_uint. rewrite Hz. reflexivity.
  - unfold scan_number. cbn [scan_minus]. change (45 =? 45) with true. cbv iota. rewrite scan_intpart_uint_pos.
    cbn [scan_frac scan_exp]. unfold int_of_tok. rewrite str_uint_uint. rewrite Hz. reflexivity.
Qed.

(* ------------------------------------------------------------------------------------------ *)
(** * Dispatch of [parse_val] on a number token *)

Lemma is_digit_range c : is_digit c = true -> 48 <= c <= 57.
Proof. unfold is_digit. rewrite andb_true_iff, !N.leb_le. tauto. Qed.

Lemma scan_number_head s v r :
  scan_number s = Some (v, r) ->
  exists c t, s = c :: t /\ (is_digit c = true \/ (c = 45 /\ exists c2 t2, t = c2 :: t2 /\ is_digit c2 = true)).
Proof.
  intros H. destruct s as [|c t]; [discriminate|]. exists c, t. split; [reflexivity|].
  unfold scan_number in H. cbn [scan_minus] in H. destruct (N.eqb_spec c 45) as [->|N45].
  - right. split; [reflexivity|]. destruct t as [|c2 t2]; [discriminate|]. exists c2, t2. split; [reflexivity|].
    cbn [scan_intpart] in H. destruct (N.eqb_spec c2 48) as [->|_]; [reflexivity|].
    destruct (is_digit c2); [reflexivity|discriminate].
  - left. cbn [scan_intpart] in H. destruct (N.eqb_spec c 48) as [->|_]; [reflexivity|].
    destruct (is_digit c); [reflexivity|discriminate].
Qed.

Lemma parse_val_number f s v r :
  scan_number s = Some (v, r) -> parse_val (S f) s = Some (v, r).
Proof.
  intros H. destruct (scan_number_head _ _ _ H) as (c & t & -> & Hc).
  cbn [parse_val]. destruct Hc as [Hd | (-> & c2 & t2 & -> & Hd)].
  - apply is_digit_range in Hd.
    destruct (N.eqb_spec c 34); [lia|]. destruct (N.eqb_spec c 123); [lia|]. destruct (N.eqb_spec c 91); [lia|].
    destruct (N.eqb_spec c 110); [lia|]. destruct (N.eqb_spec c 116); [lia|]. destruct (N.eqb_spec c 102); [lia|].
    destruct (N.eqb_spec c 78); [lia|]. destruct (N.eqb_spec c 73); [lia|]. destruct (N.eqb_spec c 45); [lia|].
    exact H.
  - apply is_digit_range in Hd.
    change (45 =? 34) with false. change (45 =? 123) with false. change (45 =? 91) with false.
    change (45 =? 110) with false. change (45 =? 116) with false. change (45 =? 102) with false.
    change (45 =? 78) with false. change (45 =? 73) with false. change (45 =? 45) with true. cbv iota.
    unfold lit, s_ninf, s_inf. cbn [prefixb]. change (45 =? 45) with true. cbn [andb].
    destruct (N.eqb_spec 73 c2); [lia|]. cbn [andb]. exact H.
Qed.

(** The token of a well-formed float, followed by a delimiter, is read back as that token. *)
Lemma parse_val_float_tok f t rest :
  float_tok t = true -> delim rest -> parse_val (S f) (t ++ rest) = Some (JNum t, rest).
Proof.
  unfold float_tok. intros H Hd. rewrite !orb_true_iff in H. destruct H as [[[H|H]|H]|H].
  - apply str_eqb_eq in H. subst t. reflexivity.
  - apply str_eqb_eq in H. subst t. reflexivity.
  - apply str_eqb_eq in H. subst t. reflexivity.
  - destruct (scan_number t) as [[[| | |t'| | |] [|? ?]]|] eqn:E; try discriminate.
    apply str_eqb_eq in H. subst t'.
    apply parse_val_number. rewrite (scan_number_app _ _ _ _ Hd E). reflexivity.
Qed.

Lemma parse_val_int f z rest :
  delim rest -> parse_val (S f) (print_int z ++ rest) = Some (JInt z, rest).
Proof.
  intros Hd. apply parse_val_number.
  rewrite (scan_number_app _ _ _ _ Hd (scan_number_print_int z)). reflexivity.
Qed.
