(** UTF-8: strict decoding inverts encoding on Unicode scalar values; the text printed for a well-formed
    value is pure ASCII, on which encoding and decoding are the identity. *)
From Coq Require Import List Bool ZArith NArith Lia.
From DV Require Import Common.Str Common.Jv Common.Res Json.Model Json.ProofsLex Json.ProofsNum Json.ProofsCodec.
Import ListNotations.
Local Open Scope N_scope.

Ltac Zify.zify_post_hook ::= Z.to_euclidean_division_equations.

Arguments is_cont : simpl never.

(* ------------------------------------------------------------------------------------------ *)
(** * decode (encode s) = s on scalar values *)

Lemma is_cont_true b : 128 <= b <= 191 -> is_cont b = true.
Proof. unfold is_cont. intros H. rewrite andb_true_iff, !N.leb_le. lia. Qed.

Lemma dec1 b1 r : b1 < 128 -> utf8_decode (b1 :: r) = cons_opt b1 (utf8_decode r).
Proof. intros H. cbn [utf8_decode]. destruct (N.ltb_spec b1 128); [reflexivity | lia]. Qed.

Lemma dec2 b1 b2 r : 194 <= b1 <= 223 -> is_cont b2 = true ->
  utf8_decode (b1 :: b2 :: r) = cons_opt ((b1 - 192) * 64 + (b2 - 128)) (utf8_decode r).
Proof.
  intros H1 H2. cbn [utf8_decode]. destruct (N.ltb_spec b1 128); [lia|].
  destruct (N.leb_spec 194 b1); [|lia]. destruct (N.leb_spec b1 223); [|lia]. cbn [andb]. rewrite H2. reflexivity.
Qed.

Lemma dec3 b1 b2 b3 r :
  224 <= b1 <= 239 -> is_cont b2 = true -> is_cont b3 = true ->
  2048 <= (b1 - 224) * 4096 + (b2 - 128) * 64 + (b3 - 128) ->
  ((b1 - 224) * 4096 + (b2 - 128) * 64 + (b3 - 128) < 55296 \/ 57343 < (b1 - 224) * 4096 + (b2 - 128) * 64 + (b3 - 128)) ->
  utf8_decode (b1 :: b2 :: b3 :: r) = cons_opt ((b1 - 224) * 4096 + (b2 - 128) * 64 + (b3 - 128)) (utf8_decode r).
Proof.
  intros H1 H2 H3 H4 H5. cbn [utf8_decode]. destruct (N.ltb_spec b1 128); [lia|].
  destruct (N.leb_spec 194 b1); [|lia]. destruct (N.leb_spec b1 223); [lia|]. cbn [andb].
  destruct (N.leb_spec 224 b1); [|lia]. destruct (N.leb_spec b1 239); [|lia]. cbn [andb].
  rewrite H2, H3. cbn [andb]. cbv zeta.
  set (c := (b1 - 224) * 4096 + (b2 - 128) * 64 + (b3 - 128)) in *.
  destruct (N.leb_spec 2048 c); [|lia]. cbn [andb].
  destruct (N.leb_spec 55296 c), (N.leb_spec c 57343); cbn [andb negb]; try reflexivity. lia.
Qed.

Lemma dec4 b1 b2 b3 b4 r :
  240 <= b1 <= 244 -> is_cont b2 = true -> is_cont b3 = true -> is_cont b4 = true ->
  65536 <= (b1 - 240) * 262144 + (b2 - 128) * 4096 + (b3 - 128) * 64 + (b4 - 128) <= 1114111 ->
  utf8_decode (b1 :: b2 :: b3 :: b4 :: r)
  = cons_opt ((b1 - 240) * 262144 + (b2 - 128) * 4096 + (b3 - 128) * 64 + (b4 - 128)) (utf8_decode r).
Proof.
  intros H1 H2 H3 H4 H5. cbn [utf8_decode]. destruct (N.ltb_spec b1 128); [lia|].
  destruct (N.leb_spec 194 b1); [|lia]. destruct (N.leb_spec b1 223); [lia|]. cbn [andb].
  destruct (N.leb_spec 224 b1); [|lia]. destruct (N.leb_spec b1 239); [lia|]. cbn [andb].
  destruct (N.leb_spec 240 b1); [|lia]. destruct (N.leb_spec b1 244); [|lia]. cbn [andb].
  rewrite H2, H3, H4. cbn [andb]. cbv zeta.
  set (c := (b1 - 240) * 262144 + (b2 - 128) * 4096 + (b3 - 128) * 64 + (b4 - 128)) in *.
  destruct (N.leb_spec 65536 c); [|lia]. destruct (N.leb_spec c 1114111); [|lia]. reflexivity.
Qed.

Lemma utf8_decode_enc_char c tail :
  scalar c = true -> utf8_decode (utf8_enc_char c ++ tail) = cons_opt c (utf8_decode tail).
Proof.
  intros Hs. apply scalar_cases in Hs. unfold utf8_enc_char.
  destruct (N.ltb_spec c 128) as [L1|L1]; [cbn [List.app]; apply dec1; exact L1|].
  destruct (N.ltb_spec c 2048) as [L2|L2].
  { cbn [List.app]. rewrite dec2; [f_equal; lia | lia | apply is_cont_true; lia]. }
  destruct (N.ltb_spec c 65536) as [L3|L3].
  { cbn [List.app].
    assert (E : (224 + c / 4096 - 224) * 4096 + (128 + (c / 64) mod 64 - 128) * 64 + (128 + c mod 64 - 128) = c) by lia.
    rewrite dec3; [rewrite E; reflexivity | lia | apply is_cont_true; lia | apply is_cont_true; lia
                   | rewrite E; lia | rewrite E; lia]. }
  cbn [List.app].
  assert (E : (240 + c / 262144 - 240) * 262144 + (128 + (c / 4096) mod 64 - 128) * 4096
              + (128 + (c / 64) mod 64 - 128) * 64 + (128 + c mod 64 - 128) = c) by lia.
  rewrite dec4; [rewrite E; reflexivity | lia | apply is_cont_true; lia | apply is_cont_true; lia
                 | apply is_cont_true; lia | rewrite E; lia].
Qed.

Theorem utf8_decode_encode s : forallb scalar s = true -> utf8_decode (utf8_encode s) = Some s.
Proof.
  induction s as [|c s IH]; intros H; [reflexivity|].
  cbn [forallb] in H. apply andb_true_iff in H as [Hc Hs].
  unfold utf8_encode in *. cbn [flat_map]. rewrite utf8_decode_enc_char by exact Hc.
  rewrite IH by exact Hs. reflexivity.
Qed.

(* ------------------------------------------------------------------------------------------ *)
(** * ASCII texts *)

Definition asciib (s : str) : bool := forallb (fun c => c <? 128) s.

Lemma asciib_app a b : asciib (a ++ b) = asciib a && asciib b.
Proof. apply forallb_app. Qed.

Lemma asciib_cons c s : asciib (c :: s) = (c <? 128) && asciib s.
Proof. reflexivity. Qed.

Lemma utf8_encode_ascii s : asciib s = true -> utf8_encode s = s.
Proof.
  induction s as [|c s IH]; intros H; [reflexivity|].
  rewrite asciib_cons in H. apply andb_true_iff in H as [Hc Hs].
  unfold utf8_encode in *. cbn [flat_map]. unfold utf8_enc_char at 1. rewrite Hc. cbn [List.app].
  rewrite IH by exact Hs. reflexivity.
Qed.

Lemma ascii_scalar s : asciib s = true -> forallb scalar s = true.
Proof.
  unfold asciib. rewrite !forallb_forall. intros H c Hin. specialize (H c Hin).
  apply N.ltb_lt in H. unfold scalar. destruct (N.ltb_spec c 55296); [reflexivity | lia].
Qed.

Lemma utf8_decode_ascii s : asciib s = true -> utf8_decode s = Some s.
Proof.
  intros H. rewrite <- (utf8_encode_ascii s H) at 1. apply utf8_decode_encode. apply ascii_scalar; exact H.
Qed.

(* ------------------------------------------------------------------------------------------ *)
(** * The printer emits ASCII only *)

Lemma hexdig_ascii n : n < 16 -> hexdig n < 128.
Proof. intros H. unfold hexdig. destruct (n <? 10); lia. Qed.

Lemma asciib_hex4 c : asciib (hex4 c) = true.
Proof.
  unfold hex4, asciib. cbn [forallb]. rewrite !andb_true_iff, !N.ltb_lt.
  repeat split; apply hexdig_ascii; apply N.mod_lt; discriminate.
Qed.

Lemma asciib_print_char c : asciib (print_char c) = true.
Proof.
  unfold print_char.
  repeat match goal with
         | |- context [if ?x =? ?y then _ else _] => destruct (x =? y); [reflexivity|]
         end.
  destruct (N.leb_spec 32 c); cbn [andb].
  - destruct (N.leb_spec c 126).
    + unfold asciib. cbn [forallb]. destruct (N.ltb_spec c 128); [reflexivity | lia].
    + destruct (c <? 65536).
      * rewrite !asciib_cons, asciib_hex4. reflexivity.
      * cbv zeta. rewrite asciib_app, !asciib_cons, !asciib_hex4. reflexivity.
  - destruct (c <? 65536).
    + rewrite !asciib_cons, asciib_hex4. reflexivity.
    + cbv zeta. rewrite asciib_app, !asciib_cons, !asciib_hex4. reflexivity.
Qed.

Lemma asciib_flat_map_print_char s : asciib (flat_map print_char s) = true.
Proof.
  induction s as [|c s IH]; [reflexivity|]. cbn [flat_map]. rewrite asciib_app, asciib_print_char, IH. reflexivity.
Qed.

Lemma asciib_print_string s : asciib (print_string s) = true.
Proof. unfold print_string. rewrite asciib_cons, asciib_app, asciib_flat_map_print_char. reflexivity. Qed.

Lemma asciib_uint_str d : asciib (uint_str d) = true.
Proof.
  induction d as [|d IH|d IH|d IH|d IH|d IH|d IH|d IH|d IH|d IH|d IH]; cbn [uint_str];
    [reflexivity | rewrite asciib_cons, IH; reflexivity ..].
Qed.

Lemma asciib_print_int z : asciib (print_int z) = true.
Proof. unfold print_int. destruct (Z.to_int z); [|rewrite asciib_cons]; rewrite asciib_uint_str; reflexivity. Qed.

Lemma asciib_repeat32 n : asciib (repeat 32 n) = true.
Proof. induction n as [|n IH]; [reflexivity|]. cbn [repeat]. rewrite asciib_cons, IH. reflexivity. Qed.

Lemma asciib_nl k : asciib (nl k) = true.
Proof. unfold nl. rewrite asciib_cons, asciib_repeat32. reflexivity. Qed.

Lemma asciib_join sep l : asciib sep = true -> forallb asciib l = true -> asciib (join sep l) = true.
Proof.
  intros Hsep. induction l as [|x l IH]; intros H; [reflexivity|].
  cbn [forallb] in H. apply andb_true_iff in H as [Hx Hl]. destruct l as [|y l].
  - exact Hx.
  - rewrite join_cons_ne by discriminate. rewrite !asciib_app, Hx, Hsep, (IH Hl). reflexivity.
Qed.

(** number tokens *)
Lemma is_digit_ascii c : is_digit c = true -> (c <? 128) = true.
Proof. intros H. apply is_digit_range in H. apply N.ltb_lt. lia. Qed.

Lemma asciib_span_digits s : asciib (fst (span_digits s)) = true.
Proof.
  induction s as [|c s IH]; [reflexivity|]. cbn [span_digits].
  destruct (is_digit c) eqn:Hd; [|reflexivity].
  destruct (span_digits s) as [a b]. cbn [fst] in *. rewrite asciib_cons, (is_digit_ascii c Hd), IH. reflexivity.
Qed.

Lemma asciib_scan_intpart s ip r : scan_intpart s = Some (ip, r) -> asciib ip = true.
Proof.
  destruct s as [|c s]; [discriminate|]. cbn [scan_intpart].
  destruct (c =? 48); [intros [= <- _]; reflexivity|].
  destruct (is_digit c) eqn:Hd; [|discriminate].
  pose proof (asciib_span_digits s) as Ha. destruct (span_digits s) as [a b]. cbn [fst] in Ha.
  intros [= <- _]. rewrite asciib_cons, (is_digit_ascii c Hd), Ha. reflexivity.
Qed.

Lemma asciib_scan_frac s : asciib (fst (scan_frac s)) = true.
Proof.
  destruct s as [|c s]; [reflexivity|]. cbn [scan_frac]. destruct (c =? 46); [|reflexivity].
  pose proof (asciib_span_digits s) as Ha. destruct (span_digits s) as [[|a0 a] b]; [reflexivity|].
  cbn [fst] in *. rewrite asciib_cons, Ha. reflexivity.
Qed.

Lemma asciib_scan_sign s : asciib (fst (scan_sign s)) = true.
Proof.
  destruct s as [|c s]; [reflexivity|]. cbn [scan_sign].
  destruct (N.eqb_spec c 43) as [->|_]; [reflexivity|]. destruct (N.eqb_spec c 45) as [->|_]; reflexivity.
Qed.

Lemma asciib_scan_exp s : asciib (fst (scan_exp s)) = true.
Proof.
  destruct s as [|c s]; [reflexivity|]. cbn [scan_exp].
  destruct (N.eqb_spec c 101) as [->|_]; [|destruct (N.eqb_spec c 69) as [->|_]; [|reflexivity]]; cbn [orb];
    pose proof (asciib_scan_sign s) as Hs; destruct (scan_sign s) as [sg r1]; cbn [fst] in Hs;
    pose proof (asciib_span_digits r1) as Ha; destruct (span_digits r1) as [[|a0 a] b]; try reflexivity;
    cbn [fst] in *; rewrite asciib_cons, asciib_app, Hs, Ha; reflexivity.
Qed.

Lemma asciib_scan_number s t r : scan_number s = Some (JNum t, r) -> asciib t = true.
Proof.
  unfold scan_number. destruct (scan_minus s) as [neg s1].
  destruct (scan_intpart s1) as [[ip s2]|] eqn:Ei; [|discriminate].
  pose proof (asciib_scan_intpart _ _ _ Ei) as Hip.
  pose proof (asciib_scan_frac s2) as Hfr. destruct (scan_frac s2) as [fr s3]. cbn [fst] in Hfr.
  pose proof (asciib_scan_exp s3) as Hex. destruct (scan_exp s3) as [ex s4]. cbn [fst] in Hex.
  assert (Hall : asciib ((if neg then [45] else []) ++ ip ++ fr ++ ex) = true).
  { rewrite !asciib_app, Hip, Hfr, Hex. destruct neg; reflexivity. }
  destruct fr as [|f0 fr], ex as [|e0 ex]; try discriminate; intros [= <- _]; exact Hall.
Qed.

Lemma asciib_float_tok t : float_tok t = true -> asciib t = true.
Proof.
  unfold float_tok. rewrite !orb_true_iff. intros [[[H|H]|H]|H];
    try (apply str_eqb_eq in H; subst t; reflexivity).
  destruct (scan_number t) as [[[| | |t'| | |] [|? ?]]|] eqn:E; try discriminate.
  apply str_eqb_eq in H. subst t'. exact (asciib_scan_number _ _ _ E).
Qed.

Theorem print_ascii : forall j lvl, wf j -> asciib (print_at lvl j) = true.
Proof.
  induction j as [| b | z | t | s | l IH | l IH] using jv_ind'; intros lvl Hwf.
  - reflexivity.
  - destruct b; reflexivity.
  - apply asciib_print_int.
  - apply asciib_float_tok. exact Hwf.
  - apply asciib_print_string.
  - destruct l as [|x l]; [reflexivity|]. unfold wf in Hwf. cbn [wfb] in Hwf.
    cbn [print_at]. rewrite asciib_cons, !asciib_app, !asciib_nl.
    rewrite asciib_join; [reflexivity | rewrite asciib_cons, asciib_nl; reflexivity |].
    rewrite forallb_forall in Hwf. rewrite Forall_forall in IH.
    apply forallb_forall. intros p Hp. apply in_map_iff in Hp as (y & <- & Hy).
    apply IH; [exact Hy | exact (Hwf y Hy)].
  - destruct l as [|kv l]; [reflexivity|]. unfold wf in Hwf. cbn [wfb] in Hwf.
    apply andb_true_iff in Hwf as [_ Hwf].
    cbn [print_at]. rewrite asciib_cons, !asciib_app, !asciib_nl.
    rewrite asciib_join; [reflexivity | rewrite asciib_cons, asciib_nl; reflexivity |].
    rewrite forallb_forall in Hwf. rewrite Forall_forall in IH.
    apply forallb_forall. intros p Hp. apply in_map_iff in Hp as (y & <- & Hy).
    rewrite asciib_app, asciib_print_string, !asciib_cons. cbn [andb N.ltb].
    specialize (Hwf y Hy). apply andb_true_iff in Hwf as [_ Hwy].
    change (58 <? 128) with true. change (32 <? 128) with true. cbn [andb].
    apply IH; [exact Hy | exact Hwy].
Qed.
