(** The text codec round-trips: [parse (print j) = Some j] for every well-formed [j]. *)
From Coq Require Import List Bool ZArith NArith Lia.
From DV Require Import Common.Str Common.Jv Common.Res Json.Model Json.ProofsLex Json.ProofsNum.
Import ListNotations.
Local Open Scope N_scope.

Arguments nl : simpl never.

(* ------------------------------------------------------------------------------------------ *)
(** * White space and layout *)

Lemma skip_ws_repeat n s : skip_ws (repeat 32 n ++ s) = skip_ws s.
Proof. induction n as [|n IH]; [reflexivity|]. cbn [repeat List.app skip_ws]. exact IH. Qed.

Lemma skip_ws_nl k s : skip_ws (nl k ++ s) = skip_ws s.
Proof. unfold nl. cbn [List.app skip_ws]. change (is_ws 10) with true. cbv iota. apply skip_ws_repeat. Qed.

Lemma skip_ws_nonws c s : is_ws c = false -> skip_ws (c :: s) = c :: s.
Proof. intros H. cbn [skip_ws]. rewrite H. reflexivity. Qed.

Lemma delim_nl k s : delim (nl k ++ s).
Proof. reflexivity. Qed.

Lemma length_nl_pos k : (1 <= length (nl k))%nat.
Proof. unfold nl. cbn [length]. lia. Qed.

Lemma join_cons_ne sep (a : str) r : r <> [] -> join sep (a :: r) = a ++ sep ++ join sep r.
Proof. destruct r; [contradiction|reflexivity]. Qed.

(* ------------------------------------------------------------------------------------------ *)
(** * First character of a printed value *)

Definition vstart (c : N) : Prop := is_ws c = false /\ c <> 93 /\ c <> 125.

Lemma vstart_digit c : is_digit c = true -> vstart c.
Proof.
  intros H. apply is_digit_range in H. unfold vstart, is_ws.
  destruct (N.eqb_spec c 32); [lia|]. destruct (N.eqb_spec c 9); [lia|].
  destruct (N.eqb_spec c 10); [lia|]. destruct (N.eqb_spec c 13); [lia|].
  repeat split; try reflexivity; lia.
Qed.

Lemma vstart_const c : In c [45; 78; 73; 110; 116; 102; 34; 91; 123] -> vstart c.
Proof.
  cbn [In]. intros H. repeat (destruct H as [<- | H]; [repeat split; discriminate|]). contradiction.
Qed.

Lemma scan_number_vstart s v r : scan_number s = Some (v, r) -> exists c t, s = c :: t /\ vstart c.
Proof.
  intros H. destruct (scan_number_head _ _ _ H) as (c & t & -> & [Hd | (Hc & _)]); exists c, t; split; try reflexivity.
  - apply vstart_digit; exact Hd.
  - subst c. apply vstart_const. cbn [In]. tauto.
Qed.

Lemma print_at_head lvl j : wf j -> exists c r, print_at lvl j = c :: r /\ vstart c.
Proof.
  intros Hwf. destruct j as [|[|]|z|t|s|[|x l]|[|kv l]]; cbn [print_at];
    try (eexists _, _; split; [reflexivity|]; apply vstart_const; cbn [In]; tauto).
  - exact (scan_number_vstart _ _ _ (scan_number_print_int z)).
  - unfold wf in Hwf. cbn [wfb] in Hwf. unfold float_tok in Hwf. rewrite !orb_true_iff in Hwf.
    destruct Hwf as [[[H|H]|H]|H]; try (apply str_eqb_eq in H; subst t; eexists _, _; split; [reflexivity|];
                                         apply vstart_const; cbn [In]; tauto).
    destruct (scan_number t) as [[v r]|] eqn:E; [|discriminate]. exact (scan_number_vstart _ _ _ E).
Qed.

Lemma skip_ws_print lvl j tail : wf j -> skip_ws (print_at lvl j ++ tail) = print_at lvl j ++ tail.
Proof.
  intros Hwf. destruct (print_at_head lvl j Hwf) as (c & r & -> & Hws & _). cbn [List.app].
  apply skip_ws_nonws; exact Hws.
Qed.

Lemma skip_ws_join_vals sep lvl y l tail :
  wf y -> skip_ws (join sep (map (print_at lvl) (y :: l)) ++ tail) = join sep (map (print_at lvl) (y :: l)) ++ tail.
Proof.
  intros Hwf. destruct l as [|z l].
  - cbn [map join]. apply skip_ws_print; exact Hwf.
  - change (map (print_at lvl) (y :: z :: l)) with (print_at lvl y :: map (print_at lvl) (z :: l)).
    rewrite join_cons_ne by discriminate. rewrite <- app_assoc. apply skip_ws_print; exact Hwf.
Qed.

(* ------------------------------------------------------------------------------------------ *)
(** * OrderedDict(pairs) is the identity on pairs with distinct keys *)

Lemma existsb_str_false k l : existsb (str_eqb k) l = false -> ~ In k l.
Proof.
  intros H Hin. assert (existsb (str_eqb k) l = true); [|congruence].
  apply existsb_exists. exists k. split; [exact Hin | apply str_eqb_refl].
Qed.

Lemma od_set_fresh k v acc : ~ In k (map fst acc) -> od_set k v acc = acc ++ [(k, v)].
Proof.
  induction acc as [|[k' v'] acc IH]; intros Hn; [reflexivity|]. cbn [od_set].
  cbn [map fst In] in Hn. destruct (str_eqb_spec k k') as [->|_]; [tauto|].
  rewrite IH by tauto. reflexivity.
Qed.

Lemma od_fold_nodup ps : forall acc,
  nodupb (map fst ps) = true -> (forall k, In k (map fst ps) -> ~ In k (map fst acc)) ->
  fold_left (fun a kv => od_set (fst kv) (snd kv) a) ps acc = acc ++ ps.
Proof.
  induction ps as [|[k v] ps IH]; intros acc Hnd Hdis; cbn [fold_left].
  - rewrite app_nil_r. reflexivity.
  - cbn [map fst nodupb] in Hnd. apply andb_true_iff in Hnd as [Hk Hnd]. apply negb_true_iff in Hk.
    apply existsb_str_false in Hk. cbn [fst snd].
    rewrite od_set_fresh by (apply Hdis; cbn [map fst In]; tauto).
    rewrite IH; [rewrite <- app_assoc; reflexivity | exact Hnd |].
    intros k0 Hin. rewrite map_app, in_app_iff. cbn [map fst In]. intros [H|[H|[]]].
    + apply (Hdis k0); [cbn [map fst In]; tauto | exact H].
    + subst k0. contradiction.
Qed.

Lemma od_of_pairs_nodup ps : nodupb (map fst ps) = true -> od_of_pairs ps = ps.
Proof. intros H. unfold od_of_pairs. rewrite od_fold_nodup; [reflexivity | exact H | intros k _ []]. Qed.

(* ------------------------------------------------------------------------------------------ *)
(** * The main induction *)

Definition RT (j : jv) : Prop :=
  forall lvl rest fuel, wf j -> delim rest -> (length (print_at lvl j) <= fuel)%nat ->
    parse_val fuel (print_at lvl j ++ rest) = Some (j, rest).

Lemma elems_rt l : Forall RT l ->
  forall lvl' lvl rest f, l <> [] -> forallb wfb l = true ->
    (length (join (44%N :: nl lvl') (map (print_at lvl') l)) < f)%nat ->
    parse_elems f (join (44 :: nl lvl') (map (print_at lvl') l) ++ nl lvl ++ 93 :: rest) = Some (l, rest).
Proof.
  induction 1 as [|x l Hx Hl IH]; intros lvl' lvl rest f Hne Hwf Hlen; [contradiction|].
  cbn [forallb] in Hwf. apply andb_true_iff in Hwf as [Hwx Hwl].
  destruct f as [|f]; [lia|]. cbn [parse_elems].
  destruct l as [|y l].
  - cbn [map join] in *.
    rewrite (Hx lvl' (nl lvl ++ 93 :: rest) f Hwx (delim_nl _ _)) by lia.
    rewrite skip_ws_nl. reflexivity.
  - change (map (print_at lvl') (x :: y :: l)) with (print_at lvl' x :: map (print_at lvl') (y :: l)) in *.
    rewrite join_cons_ne in * by discriminate.
    rewrite !app_length in Hlen. cbn [length] in Hlen.
    rewrite <- !app_assoc. cbn [List.app].
    rewrite (Hx lvl' _ f Hwx (delim_44 _)) by lia.
    rewrite (skip_ws_nonws 44) by reflexivity.
    change (44 =? 93) with false. change (44 =? 44) with true. cbv iota.
    rewrite skip_ws_nl.
    cbn [forallb] in Hwl. pose proof Hwl as Hwl'. apply andb_true_iff in Hwl' as [Hwy _].
    rewrite skip_ws_join_vals by exact Hwy.
    rewrite IH; [reflexivity | discriminate | exact Hwl |].
    pose proof (length_nl_pos lvl'). lia.
Qed.

Definition pmember (lvl : nat) (kv : str * jv) : str :=
  print_string (fst kv) ++ 58 :: 32 :: print_at lvl (snd kv).

Lemma pmember_head lvl kv : exists r, pmember lvl kv = 34 :: r.
Proof. unfold pmember, print_string. eexists. reflexivity. Qed.

Lemma join_members_head sep lvl kv l : exists r, join sep (map (pmember lvl) (kv :: l)) = 34 :: r.
Proof.
  destruct l as [|kv' l].
  - cbn [map join]. apply pmember_head.
  - change (map (pmember lvl) (kv :: kv' :: l)) with (pmember lvl kv :: map (pmember lvl) (kv' :: l)).
    rewrite join_cons_ne by discriminate. destruct (pmember_head lvl kv) as [r ->]. eexists. reflexivity.
Qed.

Lemma skip_ws_join_members sep lvl kv l tail :
  skip_ws (join sep (map (pmember lvl) (kv :: l)) ++ tail) = join sep (map (pmember lvl) (kv :: l)) ++ tail.
Proof.
  destruct (join_members_head sep lvl kv l) as [r ->]. cbn [List.app]. apply skip_ws_nonws. reflexivity.
Qed.

Lemma members_rt l : Forall (fun kv => RT (snd kv)) l ->
  forall lvl' lvl rest f, l <> [] ->
    forallb (fun kv => forallb scalar (fst kv) && wfb (snd kv)) l = true ->
    (length (join (44%N :: nl lvl') (map (pmember lvl') l)) < f)%nat ->
    parse_members f (join (44 :: nl lvl') (map (pmember lvl') l) ++ nl lvl ++ 125 :: rest) = Some (l, rest).
Proof.
  induction 1 as [|[k v] l Hx Hl IH]; intros lvl' lvl rest f Hne Hwf Hlen; [contradiction|].
  cbn [forallb fst snd] in Hwf. apply andb_true_iff in Hwf as [Hwx Hwl]. apply andb_true_iff in Hwx as [Hk Hwv].
  cbn [snd] in Hx.
  destruct f as [|f]; [lia|].
  destruct l as [|kv' l].
  - cbn [map join] in *. unfold pmember, print_string in *. cbn [fst snd] in *.
    rewrite !app_length in Hlen. cbn [length] in Hlen. rewrite !app_length in Hlen. cbn [length] in Hlen.
    rewrite <- !app_assoc. cbn [List.app]. rewrite <- !app_assoc. cbn [List.app].
    cbn [parse_members]. change (34 =? 34) with true. cbv iota.
    rewrite scan_str_print by exact Hk.
    rewrite (skip_ws_nonws 58) by reflexivity. change (58 =? 58) with true. cbv iota.
    cbn [skip_ws]. change (is_ws 32) with true. cbv iota.
    rewrite skip_ws_print by exact Hwv.
    rewrite (Hx lvl' (nl lvl ++ 125 :: rest) f Hwv (delim_nl _ _)) by lia.
    rewrite skip_ws_nl. reflexivity.
  - change (map (pmember lvl') ((k, v) :: kv' :: l)) with (pmember lvl' (k, v) :: map (pmember lvl') (kv' :: l)) in *.
    rewrite join_cons_ne in * by discriminate.
    unfold pmember at 1, print_string in Hlen. unfold pmember at 1, print_string. cbn [fst snd] in *.
    rewrite !app_length in Hlen. cbn [length] in Hlen. rewrite !app_length in Hlen. cbn [length] in Hlen.
    rewrite <- !app_assoc. cbn [List.app]. rewrite <- !app_assoc. cbn [List.app].
    cbn [parse_members]. change (34 =? 34) with true. cbv iota.
    rewrite scan_str_print by exact Hk.
    rewrite (skip_ws_nonws 58) by reflexivity. change (58 =? 58) with true. cbv iota.
    cbn [skip_ws]. change (is_ws 32) with true. cbv iota.
    rewrite skip_ws_print by exact Hwv.
    rewrite (Hx lvl' _ f Hwv (delim_44 _)) by lia.
    rewrite (skip_ws_nonws 44) by reflexivity.
    change (44 =? 125) with false. change (44 =? 44) with true. cbv iota.
    rewrite skip_ws_nl.
    rewrite skip_ws_join_members.
    rewrite IH; [reflexivity | discriminate | exact Hwl |].
    pose proof (length_nl_pos lvl'). lia.
Qed.

Theorem parse_val_print : forall j, RT j.
Proof.
  induction j as [| b | z | t | s | l IH | l IH] using jv_ind'; intros lvl rest fuel Hwf Hd Hlen.
  - destruct fuel as [|f]; [cbn [print_at length s_null] in Hlen; lia|]. reflexivity.
  - destruct fuel as [|f]; [destruct b; cbn [print_at length s_true s_false] in Hlen; lia|]. destruct b; reflexivity.
  - destruct fuel as [|f].
    + exfalso. destruct (print_at_head lvl (JInt z) Hwf) as (c & r & E & _). rewrite E in Hlen. cbn [length] in Hlen. lia.
    + cbn [print_at]. apply parse_val_int; exact Hd.
  - destruct fuel as [|f].
    + exfalso. destruct (print_at_head lvl (JNum t) Hwf) as (c & r & E & _). rewrite E in Hlen. cbn [length] in Hlen. lia.
    + cbn [print_at]. apply parse_val_float_tok; [exact Hwf | exact Hd].
  - destruct fuel as [|f]; [cbn [print_at print_string length] in Hlen; lia|].
    cbn [print_at]. unfold print_string. cbn [List.app]. rewrite <- app_assoc. cbn [List.app parse_val].
    change (34 =? 34) with true. cbv iota. rewrite scan_str_print by exact Hwf. reflexivity.
  - destruct l as [|x l].
    + destruct fuel as [|f]; [cbn [print_at length] in Hlen; lia|]. reflexivity.
    + unfold wf in Hwf. cbn [wfb] in Hwf.
      cbn [print_at] in *. set (J := join (44 :: nl (S lvl)) (map (print_at (S lvl)) (x :: l))) in *.
      destruct fuel as [|f]; [cbn [length] in Hlen; lia|].
      cbn [length] in Hlen. rewrite !app_length in Hlen. cbn [length] in Hlen.
      cbn [List.app parse_val]. change (91 =? 34) with false. change (91 =? 123) with false.
      change (91 =? 91) with true. cbv iota.
      rewrite <- !app_assoc. cbn [List.app]. rewrite skip_ws_nl.
      pose proof Hwf as Hwf'. cbn [forallb] in Hwf'. apply andb_true_iff in Hwf' as [Hwx _].
      subst J. rewrite skip_ws_join_vals by exact Hwx.
      set (J := join (44 :: nl (S lvl)) (map (print_at (S lvl)) (x :: l))) in *.
      assert (HJ : exists c r, J ++ nl lvl ++ 93 :: rest = c :: r /\ c <> 93).
      { subst J. destruct l as [|y l].
        - cbn [map join]. destruct (print_at_head (S lvl) x Hwx) as (c & r & -> & _ & H93 & _).
          cbn [List.app]. eexists _, _. split; [reflexivity | exact H93].
        - change (map (print_at (S lvl)) (x :: y :: l)) with (print_at (S lvl) x :: map (print_at (S lvl)) (y :: l)).
          rewrite join_cons_ne by discriminate.
          destruct (print_at_head (S lvl) x Hwx) as (c & r & -> & _ & H93 & _).
          cbn [List.app]. eexists _, _. split; [reflexivity | exact H93]. }
      destruct HJ as (c & r & E & H93). rewrite E. destruct (N.eqb_spec c 93); [contradiction|]. rewrite <- E.
      subst J. rewrite (elems_rt (x :: l) IH (S lvl) lvl rest f); [reflexivity | discriminate | exact Hwf |].
      pose proof (length_nl_pos (S lvl)). lia.
  - destruct l as [|kv l].
    + destruct fuel as [|f]; [cbn [print_at length] in Hlen; lia|]. reflexivity.
    + unfold wf in Hwf. cbn [wfb] in Hwf. apply andb_true_iff in Hwf as [Hnd Hwf].
      cbn [print_at] in *. fold (pmember (S lvl)) in *.
      set (J := join (44 :: nl (S lvl)) (map (pmember (S lvl)) (kv :: l))) in *.
      destruct fuel as [|f]; [cbn [length] in Hlen; lia|].
      cbn [length] in Hlen. rewrite !app_length in Hlen. cbn [length] in Hlen.
      cbn [List.app parse_val]. change (123 =? 34) with false. change (123 =? 123) with true. cbv iota.
      rewrite <- !app_assoc. cbn [List.app]. rewrite skip_ws_nl.
      subst J. rewrite skip_ws_join_members.
      set (J := join (44 :: nl (S lvl)) (map (pmember (S lvl)) (kv :: l))) in *.
      destruct (join_members_head (44 :: nl (S lvl)) (S lvl) kv l) as [r Er]. fold J in Er.
      assert (E : J ++ nl lvl ++ 125 :: rest = 34 :: r ++ nl lvl ++ 125 :: rest) by (rewrite Er; reflexivity).
      rewrite E. change (34 =? 125) with false. cbv iota. rewrite <- E.
      subst J. rewrite (members_rt (kv :: l) IH (S lvl) lvl rest f); [| discriminate | exact Hwf |].
      * rewrite od_of_pairs_nodup by exact Hnd. reflexivity.
      * match goal with
        | |- (?a < f)%nat => match type of Hlen with (S (_ + (?b + _)) <= _)%nat => change b with a in Hlen end
        end. lia.
Qed.

(* ------------------------------------------------------------------------------------------ *)
(** * Top level *)

Theorem parse_print j : wf j -> parse (print j) = Some j.
Proof.
  intros Hwf. unfold parse, print.
  rewrite <- (app_nil_r (print_at 0 j)) at 2. rewrite skip_ws_print by exact Hwf.
  rewrite app_nil_r at 1.
  rewrite <- (app_nil_r (print_at 0 j)) at 2.
  rewrite (parse_val_print j 0%nat [] _ Hwf delim_nil (le_n _)). reflexivity.
Qed.

Corollary print_stable j : wf j -> forall j', parse (print j) = Some j' -> print j' = print j.
Proof. intros Hwf j' H. rewrite (parse_print j Hwf) in H. injection H as <-. reflexivity. Qed.

Corollary print_injective a b : wf a -> wf b -> print a = print b -> a = b.
Proof.
  intros Ha Hb H. pose proof (parse_print a Ha) as Pa. rewrite H, (parse_print b Hb) in Pa.
  injection Pa as <-. reflexivity.
Qed.
