(** Lexical lemmas for the JSON codec: hex digits, string escapes, decimal integers, number tokens. *)
From Coq Require Import List Bool ZArith NArith Decimal DecimalFacts DecimalPos DecimalN DecimalZ Lia.
From DV Require Import Common.Str Common.Jv Common.Res Json.Model.
Import ListNotations.
Local Open Scope N_scope.

Ltac Zify.zify_post_hook ::= Z.to_euclidean_division_equations.

Arguments unhex4 : simpl never.
Arguments is_high : simpl never.
Arguments is_low : simpl never.
Arguments join_surr : simpl never.
Arguments simple_escape : simpl never.
Arguments hex4 : simpl never.
Arguments nl : simpl never.

(* ------------------------------------------------------------------------------------------ *)
(** * Hex digits *)

Lemma lt16_cases (P : N -> Prop) :
  P 0 -> P 1 -> P 2 -> P 3 -> P 4 -> P 5 -> P 6 -> P 7 -> P 8 -> P 9 -> P 10 -> P 11 -> P 12 -> P 13 ->
  P 14 -> P 15 -> forall n, n < 16 -> P n.
Proof.
  intros H0 H1 H2 H3 H4 H5 H6 H7 H8 H9 H10 H11 H12 H13 H14 H15 n Hn.
  assert (Hc : n = 0 \/ n = 1 \/ n = 2 \/ n = 3 \/ n = 4 \/ n = 5 \/ n = 6 \/ n = 7 \/ n = 8 \/ n = 9 \/
               n = 10 \/ n = 11 \/ n = 12 \/ n = 13 \/ n = 14 \/ n = 15) by lia.
  repeat (destruct Hc as [-> | Hc]; [assumption|]). subst n; assumption.
Qed.

Lemma unhex_hexdig n : n < 16 -> unhex (hexdig n) = Some n.
Proof. revert n. apply lt16_cases; reflexivity. Qed.

Lemma unhex4_hex4 c : c < 65536 -> match hex4 c with
                                   | [a; b; d; e] => unhex4 a b d e = Some c
                                   | _ => False
                                   end.
Proof.
  intros Hc. unfold hex4, unhex4.
  rewrite !unhex_hexdig by (apply N.mod_lt; discriminate).
  f_equal. lia.
Qed.

(* ------------------------------------------------------------------------------------------ *)
(** * One-step equations of [scan_str] *)

Lemma scan_str_quote r : scan_str (34 :: r) = Some ([], r).
Proof. reflexivity. Qed.

Definition cons_res (c : N) (o : option (str * str)) : option (str * str) :=
  match o with Some (x, t) => Some (c :: x, t) | None => None end.

Lemma scan_str_plain c r :
  c <> 34 -> c <> 92 -> 32 <= c -> scan_str (c :: r) = cons_res c (scan_str r).
Proof.
  intros H1 H2 H3. cbn [scan_str].
  destruct (N.eqb_spec c 34) as [?|_]; [contradiction|].
  destruct (N.eqb_spec c 92) as [?|_]; [contradiction|].
  destruct (N.ltb_spec c 32) as [?|_]; [lia|]. reflexivity.
Qed.

Lemma scan_str_simple e x r :
  e <> 117 -> simple_escape e = Some x -> scan_str (92 :: e :: r) = cons_res x (scan_str r).
Proof.
  intros H1 H2. cbn [scan_str]. change (92 =? 34) with false. change (92 =? 92) with true. cbv iota.
  destruct (N.eqb_spec e 117) as [?|_]; [contradiction|]. rewrite H2. reflexivity.
Qed.

Lemma scan_str_u_lone h1 h2 h3 h4 u r :
  unhex4 h1 h2 h3 h4 = Some u -> is_high u = false ->
  scan_str (92 :: 117 :: h1 :: h2 :: h3 :: h4 :: r) = cons_res u (scan_str r).
Proof.
  intros H1 H2. cbn [scan_str]. change (92 =? 34) with false. change (92 =? 92) with true.
  change (117 =? 117) with true. cbv iota. rewrite H1, H2. reflexivity.
Qed.

Lemma scan_str_u_pair h1 h2 h3 h4 g1 g2 g3 g4 u u2 r :
  unhex4 h1 h2 h3 h4 = Some u -> is_high u = true ->
  unhex4 g1 g2 g3 g4 = Some u2 -> is_low u2 = true ->
  scan_str (92 :: 117 :: h1 :: h2 :: h3 :: h4 :: 92 :: 117 :: g1 :: g2 :: g3 :: g4 :: r)
  = cons_res (join_surr u u2) (scan_str r).
Proof.
  intros H1 H2 H3 H4. cbn [scan_str]. change (92 =? 34) with false. change (92 =? 92) with true.
  change (117 =? 117) with true. cbv iota. rewrite H1, H2. cbn [andb]. rewrite H3, H4. reflexivity.
Qed.

(* ------------------------------------------------------------------------------------------ *)
(** * [scan_str] inverts [print_char] on scalar values *)

Lemma scalar_cases c : scalar c = true -> c < 55296 \/ (57344 <= c /\ c <= 1114111).
Proof.
  unfold scalar. rewrite orb_true_iff, andb_true_iff, N.ltb_lt, !N.leb_le. tauto.
Qed.

Lemma is_high_false u : u < 55296 \/ 56319 < u -> is_high u = false.
Proof.
  unfold is_high. intros H. destruct (N.leb_spec 55296 u), (N.leb_spec u 56319); try reflexivity. lia.
Qed.

Lemma is_high_true u : 55296 <= u <= 56319 -> is_high u = true.
Proof. unfold is_high. intros H. rewrite andb_true_iff, !N.leb_le. lia. Qed.

Lemma is_low_true u : 56320 <= u <= 57343 -> is_low u = true.
Proof. unfold is_low. intros H. rewrite andb_true_iff, !N.leb_le. lia. Qed.

Lemma scan_str_print_char c tail :
  scalar c = true -> scan_str (print_char c ++ tail) = cons_res c (scan_str tail).
Proof.
  intros Hs. apply scalar_cases in Hs. unfold print_char.
  destruct (N.eqb_spec c 34) as [->|N34]; [reflexivity|].
  destruct (N.eqb_spec c 92) as [->|N92]; [reflexivity|].
  destruct (N.eqb_spec c 10) as [->|N10]; [reflexivity|].
  destruct (N.eqb_spec c 13) as [->|N13]; [reflexivity|].
  destruct (N.eqb_spec c 9) as [->|N9]; [reflexivity|].
  destruct (N.eqb_spec c 8) as [->|N8]; [reflexivity|].
  destruct (N.eqb_spec c 12) as [->|N12]; [reflexivity|].
  destruct (N.leb_spec 32 c) as [L32|L32]; cbn [andb].
  - destruct (N.leb_spec c 126) as [L126|L126].
    + cbn [List.app]. apply scan_str_plain; assumption.
    + destruct (N.ltb_spec c 65536) as [Lb|Lb].
      * pose proof (unhex4_hex4 c Lb) as Hh.
        destruct (hex4 c) as [|h1 [|h2 [|h3 [|h4 [|? ?]]]]]; try contradiction.
        cbn [List.app]. apply scan_str_u_lone; [exact Hh|]. apply is_high_false. lia.
      * cbv zeta. set (v := c - 65536).
        assert (Hv : v < 1048576) by (unfold v; lia).
        assert (Hhi : 55296 + v / 1024 < 65536) by lia.
        assert (Hlo : 56320 + v mod 1024 < 65536) by lia.
        pose proof (unhex4_hex4 _ Hhi) as Hh. pose proof (unhex4_hex4 _ Hlo) as Hl.
        destruct (hex4 (55296 + v / 1024)) as [|h1 [|h2 [|h3 [|h4 [|? ?]]]]]; try contradiction.
        destruct (hex4 (56320 + v mod 1024)) as [|g1 [|g2 [|g3 [|g4 [|? ?]]]]]; try contradiction.
        cbn [List.app].
        assert (Hih : is_high (55296 + v / 1024) = true) by (apply is_high_true; lia).
        assert (Hil : is_low (56320 + v mod 1024) = true) by (apply is_low_true; lia).
        change (([92; 117; h1; h2; h3; h4] ++ [92; 117; g1; g2; g3; g4]) ++ tail)
          with (92 :: 117 :: h1 :: h2 :: h3 :: h4 :: 92 :: 117 :: g1 :: g2 :: g3 :: g4 :: tail).
        rewrite (scan_str_u_pair _ _ _ _ _ _ _ _ _ _ _ Hh Hih Hl Hil).
        replace (join_surr (55296 + v / 1024) (56320 + v mod 1024)) with c; [reflexivity|].
        unfold join_surr. unfold v. lia.
  - destruct (N.ltb_spec c 65536) as [Lb|Lb]; [|lia].
    pose proof (unhex4_hex4 c Lb) as Hh.
    destruct (hex4 c) as [|h1 [|h2 [|h3 [|h4 [|? ?]]]]]; try contradiction.
    cbn [List.app]. apply scan_str_u_lone; [exact Hh|]. apply is_high_false. lia.
Qed.

Lemma scan_str_print s tail :
  forallb scalar s = true ->
  scan_str (flat_map print_char s ++ 34 :: tail) = Some (s, tail).
Proof.
  induction s as [|c s IH]; intros Hs.
  - reflexivity.
  - cbn [forallb] in Hs. apply andb_true_iff in Hs as [Hc Hs].
    cbn [flat_map]. rewrite <- app_assoc, scan_str_print_char by exact Hc.
    rewrite IH by exact Hs. reflexivity.
Qed.

(* ------------------------------------------------------------------------------------------ *)
(** * Delimiters: what may follow a number token without changing how it is scanned *)

Definition delim_char (c : N) : bool :=
  negb (is_digit c) && negb (c =? 46) && negb (c =? 101) && negb (c =? 69) && negb (c =? 43) && negb (c =? 45).

Definition delim (rest : str) : Prop :=
  match rest with [] => True | c :: _ => delim_char c = true end.

Lemma delim_char_facts c :
  delim_char c = true ->
  is_digit c = false /\ c <> 46 /\ c <> 101 /\ c <> 69 /\ c <> 43 /\ c <> 45.
Proof.
  unfold delim_char. rewrite !andb_true_iff, !negb_true_iff, !N.eqb_neq. tauto.
Qed.

Lemma delim_44 r : delim (44 :: r). Proof. reflexivity. Qed.
Lemma delim_10 r : delim (10 :: r). Proof. reflexivity. Qed.
Lemma delim_nil : delim []. Proof. exact I. Qed.

(* ------------------------------------------------------------------------------------------ *)
(** * Digits *)

Lemma span_digits_app s rest :
  delim rest -> span_digits (s ++ rest) = (fst (span_digits s), snd (span_digits s) ++ rest).
Proof.
  intros Hd. induction s as [|c s IH]; cbn [List.app].
  - destruct rest as [|c r]; [reflexivity|]. cbn [span_digits]. cbn [delim] in Hd.
    apply delim_char_facts in Hd as [-> _]. reflexivity.
  - cbn [span_digits]. destruct (is_digit c); [|reflexivity].
    rewrite IH. destruct (span_digits s) as [a b]. reflexivity.
Qed.

Lemma span_digits_uint d : span_digits (uint_str d) = (uint_str d, []).
Proof.
  induction d as [|d IH|d IH|d IH|d IH|d IH|d IH|d IH|d IH|d IH|d IH]; cbn [uint_str span_digits];
    try reflexivity;
    match goal with |- context [is_digit ?c] => change (is_digit c) with true end; cbv iota; rewrite IH; reflexivity.
Qed.

Lemma str_uint_uint d : str_uint (uint_str d) = d.
Proof.
  induction d as [|d IH|d IH|d IH|d IH|d IH|d IH|d IH|d IH|d IH|d IH]; cbn [uint_str str_uint];
    try reflexivity; rewrite IH; reflexivity.
Qed.

Lemma nzhead_not_D0 d d' : nzhead d <> D0 d'.
Proof.
  induction d as [|d IH|d IH|d IH|d IH|d IH|d IH|d IH|d IH|d IH|d IH]; cbn [nzhead]; try discriminate. exact IH.
Qed.

(** The decimal digits of a positive number start with a nonzero digit. *)
Lemma pos_uint_head p :
  exists c r, uint_str (Pos.to_uint p) = c :: uint_str r /\ Pos.to_uint p <> D0 r
              /\ is_digit c = true /\ c <> 48
              /\ str_uint (c :: uint_str r) = Pos.to_uint p.
Proof.
  pose proof (DecimalPos.Unsigned.to_uint_nonnil p) as Hnil.
  pose proof (DecimalPos.Unsigned.to_uint_nonzero p) as Hnz.
  assert (Hnorm : unorm (Pos.to_uint p) = Pos.to_uint p).
  { rewrite <- (DecimalPos.Unsigned.to_of (Pos.to_uint p)), DecimalPos.Unsigned.of_to. reflexivity. }
  assert (Hstr : str_uint (uint_str (Pos.to_uint p)) = Pos.to_uint p) by apply str_uint_uint.
  destruct (Pos.to_uint p) as [|d|d|d|d|d|d|d|d|d|d] eqn:E.
  - contradiction.
  - exfalso. unfold unorm in Hnorm. cbn [nzhead] in Hnorm.
    destruct (nzhead d) as [|u|u|u|u|u|u|u|u|u|u] eqn:En; try discriminate Hnorm.
    + apply Hnz. symmetry. exact Hnorm.
    + exact (nzhead_not_D0 d u En).
  - exists 49, d. cbn [uint_str]. repeat split; try discriminate; try exact Hstr.
  - exists 50, d. cbn [uint_str]. repeat split; try discriminate; try exact Hstr.
  - exists 51, d. cbn [uint_str]. repeat split; try discriminate; try exact Hstr.
  - exists 52, d. cbn [uint_str]. repeat split; try discriminate; try exact Hstr.
  - exists 53, d. cbn [uint_str]. repeat split; try discriminate; try exact Hstr.
  - exists 54, d. cbn [uint_str]. repeat split; try discriminate; try exact Hstr.
  - exists 55, d. cbn [uint_str]. repeat split; try discriminate; try exact Hstr.
  - exists 56, d. cbn [uint_str]. repeat split; try discriminate; try exact Hstr.
  - exists 57, d. cbn [uint_str]. repeat split; try discriminate; try exact Hstr.
Qed.
