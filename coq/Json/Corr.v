(** Correspondence glue for C09: case records (inputs + what the implementation did) and the
    boolean checks evaluated inside Coq by the generated shards. *)
From Coq Require Import List Bool ZArith NArith Ascii String.
From DV Require Import Common.Str Common.Jv Common.Res Json.Model.
Import ListNotations.

(** Compact literals: a pure-ASCII text (what json.dumps emits) may be written in a shard as a Coq string
    literal; [sos] turns it into the list of its code points. *)
Fixpoint sos (s : String.string) : str :=
  match s with
  | String.EmptyString => []
  | String.String a r => Ascii.N_of_ascii a :: sos r
  end.

(** Long integers are written in a shard as a decimal string (Coq's own numeral notation is quadratic
    on thousand-digit literals); [zdec] reads it by Horner's rule. *)
Fixpoint zdec_go (s : String.string) (acc : Z) : Z :=
  match s with
  | String.EmptyString => acc
  | String.String a r => zdec_go r (10 * acc + (Z.of_N (Ascii.N_of_ascii a) - 48))%Z
  end.
Definition zdec (neg : bool) (s : String.string) : Z :=
  let v := zdec_go s 0%Z in if neg then (- v)%Z else v.

Definition opt_jv_eqb (a b : option jv) : bool :=
  match a, b with
  | Some x, Some y => jv_eqb x y
  | None, None => true
  | _, _ => false
  end.

Definition unit_eqb (a b : unit) : bool := true.

(* -------------------------------------------------------------------------------------------- *)
(** Part "codec": a JSON value and the exact text json.dumps(value, indent=4) produced for it.
    The model printer must give exactly that text, and the model parser must read it back. *)
Record codec_case := { cc_val : jv; cc_text : str }.

Definition check_codec (c : codec_case) : bool :=
  wfb (cc_val c)   (* the generated value lies in the domain of the round-trip theorems *)
  && str_eqb (print (cc_val c)) (cc_text c) && opt_jv_eqb (parse (cc_text c)) (Some (cc_val c)).

Definition show_codec (c : codec_case) := (wfb (cc_val c), print (cc_val c), parse (cc_text c)).

(* -------------------------------------------------------------------------------------------- *)
(** Part "loads": an arbitrary text and what json.loads(text, object_pairs_hook=OrderedDict) did with it
    ([None] = JSONDecodeError).  Float lexemes are observed verbatim (json.loads is run with parse_float and
    parse_constant hooks that keep the lexeme the scanner cut out), so non-canonical spellings such as
    1.50 or 2E5 are compared exactly as well. *)
Record loads_case := { lc_text : str; lc_result : option jv }.

Definition check_loads (c : loads_case) : bool := opt_jv_eqb (parse (lc_text c)) (lc_result c).

Definition show_loads (c : loads_case) := parse (lc_text c).

(* -------------------------------------------------------------------------------------------- *)
(** Part "ext": the content of a DcmMetaExtension (snapshot taken before any serialisation call; a separate
    clause of the Python oracle holds it to the generator's truth), the outcome of check_valid(), and
    what to_json(), str() and every reload path produced.
    What C09 states and what is therefore compared: refusal as raised / not raised (no exception class);
    the JSON text READS BACK to the content (the layout of the text is not pinned: the model parser accepts
    any layout); str() is the same text as to_json(); every re-serialisation is byte-identical to that
    text; every reloaded extension has that content; the extension bytes found in every file written
    decode (UTF-8, JSON) to that content.
    [check_valid] is instantiated with the implementation's verdict (the validity model is DV.Content's
    business; the oracle holds that verdict to the format rules), [store] with the bytes found in the file. *)
Record ext_case := {
  ec_content : jv;
  ec_valid : res unit;
  ec_to_json : res str;
  ec_str : option str;             (* None: str() raised *)
  ec_reser : list str;             (* to_json() of the extension obtained through every reload path *)
  ec_files : list (list N);        (* extension bytes found in every file written *)
  ec_loaded : list jv              (* content of the extension obtained through every reload path *)
}.

Definition ok_agree {A B} (a : res A) (b : res B) : bool := Bool.eqb (is_ok a) (is_ok b).

Definition check_ext (c : ext_case) : bool :=
  let cv := fun _ : jv => ec_valid c in
  let e := ec_content c in
  ok_agree (to_json cv e) (ec_to_json c)
  && match ec_to_json c with
     | Ok t =>
         wfb e   (* a serialisable content lies in the domain of the round-trip theorems *)
         && res_eqb jv_eqb (from_json cv t) (Ok e)
         && match ec_str c with Some s => str_eqb s t | None => false end
         && res_eqb jv_eqb (from_runtime_repr cv e) (Ok e)
         && forallb (str_eqb t) (ec_reser c)
         && forallb (fun j => jv_eqb j e) (ec_loaded c)
         && forallb (fun b => res_eqb jv_eqb (save_load cv (fun _ => Some b) e) (Ok e)) (ec_files c)
     | Err _ => match ec_reser c, ec_files c with [], [] => true | _, _ => false end
     end.

Definition show_ext (c : ext_case) :=
  (wfb (ec_content c), to_json (fun _ => ec_valid c) (ec_content c),
   match ec_to_json c with Ok t => parse t | Err _ => None end, map unmangle (ec_files c)).

(* -------------------------------------------------------------------------------------------- *)
(** Part "ext_hist": a live extension object that has already been encoded or written once (or that
    came out of a file) is edited in place through the DcmMeta API and written again, several times.
    One [save_point] per write: the content of the in-memory object at that moment (snapshot before the
    calls), what check_valid()/to_json()/str() did, the raw extension bytes found in the file (read from the
    file's extension section, not through the object; None when the write was refused), and the content of
    the extension that NiftiWrapper.from_filename found in that file.
    The model runs HEdit;HSave;HLoad per point with [store] := the bytes found in the file, starting from a
    cache that holds the previous encoding: a valid state must be written and the bytes in the file must
    load (UTF-8, JSON, validity) to the current content; an invalid state must be refused. *)
Record save_point := {
  sp_content : jv;
  sp_valid : res unit;
  sp_to_json : res str;
  sp_str : option str;
  sp_file : option (list N);
  sp_loaded : res jv
}.

Record hist_case := { hc_initial : jv; hc_touched : bool; hc_points : list save_point }.

Definition hevent_eqb (a b : hevent) : bool :=
  match a, b with
  | EvNone, EvNone => true
  | EvSaved x, EvSaved y => str_eqb x y
  | EvRefused x, EvRefused y => err_eqb x y
  | EvLoaded x, EvLoaded y => res_eqb jv_eqb x y
  | _, _ => false
  end.

Definition ident_store (b : str) : option str := Some b.

Fixpoint check_points (s : hstate) (ps : list save_point) : bool :=
  match ps with
  | [] => true
  | p :: r =>
    let cv := fun _ : jv => sp_valid p in
    let st := fun _ : list N => sp_file p in
    let e := sp_content p in
    let s1 := fst (hstep cv st s (HEdit e)) in
    let (s2, e2) := hstep cv st s1 HSave in
    wfb e
    && ok_agree (to_json cv e) (sp_to_json p)
    && match sp_to_json p with
       | Ok t => res_eqb jv_eqb (from_json cv t) (Ok e)
                 && match sp_str p with Some x => str_eqb x t | None => false end
       | Err _ => true
       end
    && Bool.eqb (is_ok (sp_valid p)) (match sp_file p with Some _ => true | None => false end)
    && match e2 with
       | EvSaved _ =>
           let (s3, e3) := hstep cv st s2 HLoad in
           hevent_eqb e3 (EvLoaded (sp_loaded p)) && res_eqb jv_eqb (sp_loaded p) (Ok e) && check_points s3 r
       | EvRefused _ => check_points s2 r
       | _ => false
       end
  end.

Definition check_hist (c : hist_case) : bool :=
  let s0 := {| h_obj := hc_initial c; h_raw := []; h_file := None |} in
  let s1 := if hc_touched c then fst (hstep (fun _ => Ok tt) ident_store s0 HTouch) else s0 in
  match hc_points c with [] => false | _ :: _ => check_points s1 (hc_points c) end.

Definition show_hist (c : hist_case) :=
  map (fun p => (wfb (sp_content p), is_ok (sp_valid p), match sp_file p with Some b => unmangle b | None => None end))
      (hc_points c).
