(** Correspondence glue for C09: case records (inputs + what the implementation did) and the
    boolean checks evaluated inside Coq by the generated shards. *)
From Coq Require Import List Bool ZArith NArith.
From DV Require Import Common.Str Common.Jv Common.Res Json.Model.
Import ListNotations.

Definition opt_jv_eqb (a b : option jv) : bool :=
  match a, b with
  | Some x, Some y => jv_eqb x y
  | None, None => true
  | _, _ => false
  end.

Definition unit_eqb (a b : unit) : bool := true.

(* -------------------------------------------------------------------------------------------- *)
(** Part "codec": a JSON value and the exact text json.dumps(value, indent=4) produced for it.
    The model printer must give exactly that text, and the model parser must read it back. *)
Record codec_case := { cc_val : jv; cc_text : str }.

Definition check_codec (c : codec_case) : bool :=
  wfb (cc_val c)   (* the generated value lies in the domain of the round-trip theorems *)
  && str_eqb (print (cc_val c)) (cc_text c) && opt_jv_eqb (parse (cc_text c)) (Some (cc_val c)).

Definition show_codec (c : codec_case) := (wfb (cc_val c), print (cc_val c), parse (cc_text c)).

(* -------------------------------------------------------------------------------------------- *)
(** Part "loads": an arbitrary text and what json.loads(text, object_pairs_hook=OrderedDict) did with it
    ([None] = JSONDecodeError).  Float lexemes are observed verbatim (json.loads is run with parse_float and
    parse_constant hooks that keep the lexeme the scanner cut out), so non-canonical spellings such as
    1.50 or 2E5 are compared exactly as well. *)
Record loads_case := { lc_text : str; lc_result : option jv }.

Definition check_loads (c : loads_case) : bool := opt_jv_eqb (parse (lc_text c)) (lc_result c).

Definition show_loads (c : loads_case) := parse (lc_text c).

(* -------------------------------------------------------------------------------------------- *)
(** Part "ext": the raw content of a DcmMetaExtension, the outcome of its check_valid(), and what
    to_json(), str(), and every reload path produced.  [check_valid] is instantiated with the
    implementation's own verdict on this content (the validity model is DV.Content's business): what
    is tied here is that to_json = check_valid;print, str = print, from_json = parse;check_valid and
    that every constructor gives back the same content and the same bytes. *)
Record ext_case := {
  ec_content : jv;                 (* ext._content as built by the implementation *)
  ec_valid : res unit;             (* outcome of ext.check_valid() *)
  ec_to_json : res str;            (* outcome of ext.to_json() *)
  ec_str : str;                    (* str(ext) *)
  ec_reser : list str              (* to_json() of the extension obtained through every reload path *)
}.

Definition check_ext (c : ext_case) : bool :=
  let cv := fun _ : jv => ec_valid c in
  res_eqb str_eqb (to_json cv (ec_content c)) (ec_to_json c)
  && str_eqb (to_str (ec_content c)) (ec_str c)
  && match ec_to_json c with
     | Ok t =>
         wfb (ec_content c)   (* a serialisable content lies in the domain of the round-trip theorems *)
         && res_eqb jv_eqb (from_json cv t) (Ok (ec_content c))
         && res_eqb jv_eqb (from_runtime_repr cv (ec_content c)) (Ok (ec_content c))
         && res_eqb jv_eqb (save_load cv (fun b => Some b) (ec_content c)) (Ok (ec_content c))
         && forallb (fun t' => str_eqb t' (print (ec_content c))) (ec_reser c)
     | Err _ => match ec_reser c with [] => true | _ => false end
     end.

Definition show_ext (c : ext_case) :=
  (wfb (ec_content c), to_json (fun _ => ec_valid c) (ec_content c), to_str (ec_content c),
   match ec_to_json c with Ok t => parse t | Err _ => None end).
