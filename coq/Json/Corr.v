(** Correspondence glue for C09: case records (inputs + what the implementation did) and the
    boolean checks evaluated inside Coq by the generated shards. *)
From Coq Require Import List Bool ZArith NArith Ascii String.
From DV Require Import Common.Str Common.Jv Common.Res Json.Model.
Import ListNotations.

(** Compact literals: a pure-ASCII text (what json.dumps emits) may be written in a shard as a Coq string
    literal; [sos] turns it into the list of its code points. *)
Fixpoint sos (s : String.string) : str :=
  match s with
  | String.EmptyString => []
  | String.String a r => Ascii.N_of_ascii a :: sos r
  end.

(** Long integers are written in a shard as a decimal string (Coq's own numeral notation is quadratic
    on thousand-digit literals); [zdec] reads it by Horner's rule. *)
Fixpoint zdec_go (s : String.string) (acc : Z) : Z :=
  match s with
  | String.EmptyString => acc
  | String.String a r => zdec_go r (10 * acc + (Z.of_N (Ascii.N_of_ascii a) - 48))%Z
  end.
Definition zdec (neg : bool) (s : String.string) : Z :=
  let v := zdec_go s 0%Z in if neg then (- v)%Z else v.

Definition opt_jv_eqb (a b : option jv) : bool :=
  match a, b with
  | Some x, Some y => jv_eqb x y
  | None, None => true
  | _, _ => false
  end.

Definition unit_eqb (a b : unit) : bool := true.

(* -------------------------------------------------------------------------------------------- *)
(** Part "codec": a JSON value and the exact text json.dumps(value, indent=4) produced for it.
    The model printer must give exactly that text, and the model parser must read it back. *)
Record codec_case := { cc_val : jv; cc_text : str }.

Definition check_codec (c : codec_case) : bool :=
  wfb (cc_val c)   (* the generated value lies in the domain of the round-trip theorems *)
  && str_eqb (print (cc_val c)) (cc_text c) && opt_jv_eqb (parse (cc_text c)) (Some (cc_val c)).

Definition show_codec (c : codec_case) := (wfb (cc_val c), print (cc_val c), parse (cc_text c)).

(* -------------------------------------------------------------------------------------------- *)
(** Part "loads": an arbitrary text and what json.loads(text, object_pairs_hook=OrderedDict) did with it
    ([None] = JSONDecodeError).  Float lexemes are observed verbatim (json.loads is run with parse_float and
    parse_constant hooks that keep the lexeme the scanner cut out), so non-canonical spellings such as
    1.50 or 2E5 are compared exactly as well. *)
Record loads_case := { lc_text : str; lc_result : option jv }.

Definition check_loads (c : loads_case) : bool := opt_jv_eqb (parse (lc_text c)) (lc_result c).

Definition show_loads (c : loads_case) := parse (lc_text c).

(* -------------------------------------------------------------------------------------------- *)
(** Part "ext": the raw content of a DcmMetaExtension, the outcome of its check_valid(), and what
    to_json(), str(), and every reload path produced.  [check_valid] is instantiated with the
    implementation's own verdict on this content (the validity model is DV.Content's business): what
    is tied here is that to_json = check_valid;print, str = print, from_json = parse;check_valid and
    that every constructor gives back the same content and the same bytes. *)
Record ext_case := {
  ec_content : jv;                 (* ext._content as built by the implementation *)
  ec_valid : res unit;             (* outcome of ext.check_valid() *)
  ec_to_json : res str;            (* outcome of ext.to_json() *)
  ec_str : str;                    (* str(ext) *)
  ec_reser : list str              (* to_json() of the extension obtained through every reload path *)
}.

Definition check_ext (c : ext_case) : bool :=
  let cv := fun _ : jv => ec_valid c in
  res_eqb str_eqb (to_json cv (ec_content c)) (ec_to_json c)
  && res_eqb str_eqb (to_str (ec_content c)) (Ok (ec_str c))
  && match ec_to_json c with
     | Ok t =>
         wfb (ec_content c)   (* a serialisable content lies in the domain of the round-trip theorems *)
         && res_eqb jv_eqb (from_json cv t) (Ok (ec_content c))
         && res_eqb jv_eqb (from_runtime_repr cv (ec_content c)) (Ok (ec_content c))
         && res_eqb jv_eqb (save_load cv (fun b => Some b) (ec_content c)) (Ok (ec_content c))
         && forallb (fun t' => str_eqb t' (print (ec_content c))) (ec_reser c)
     | Err _ => match ec_reser c with [] => true | _ => false end
     end.

Definition show_ext (c : ext_case) :=
  (wfb (ec_content c), to_json (fun _ => ec_valid c) (ec_content c), to_str (ec_content c),
   match ec_to_json c with Ok t => parse t | Err _ => None end).

(* -------------------------------------------------------------------------------------------- *)
(** Part "ext_hist": a live extension object that has already been encoded or written once (or that
    came out of a file) is edited in place through the DcmMeta API and written again, possibly twice.
    One [save_point] per write: the content of the in-memory object at that moment, what to_json()/str()
    said, the raw extension bytes found in the file (read from the file's extension section, not through
    the object), and the content of the extension that NiftiWrapper.from_filename found in that file.
    The model runs HEdit;HSave;HLoad per point, starting from a cache that holds the previous encoding. *)
Record save_point := {
  sp_content : jv;
  sp_valid : res unit;
  sp_to_json : res str;
  sp_str : str;
  sp_file : option str;          (* None: the write was refused or failed *)
  sp_loaded : res jv
}.

Record hist_case := { hc_initial : jv; hc_touched : bool; hc_points : list save_point }.

Definition hevent_eqb (a b : hevent) : bool :=
  match a, b with
  | EvNone, EvNone => true
  | EvSaved x, EvSaved y => str_eqb x y
  | EvRefused x, EvRefused y => err_eqb x y
  | EvLoaded x, EvLoaded y => res_eqb jv_eqb x y
  | _, _ => false
  end.

Definition ident_store (b : str) : option str := Some b.

Fixpoint check_points (s : hstate) (ps : list save_point) : bool :=
  match ps with
  | [] => true
  | p :: r =>
    let cv := fun _ : jv => sp_valid p in
    let s1 := fst (hstep cv ident_store s (HEdit (sp_content p))) in
    let (s2, e2) := hstep cv ident_store s1 HSave in
    let (s3, e3) := hstep cv ident_store s2 HLoad in
    wfb (sp_content p)
    && res_eqb str_eqb (to_json cv (sp_content p)) (sp_to_json p)
    && res_eqb str_eqb (to_str (sp_content p)) (Ok (sp_str p))
    && hevent_eqb e2 (match sp_file p with Some b => EvSaved b | None => EvRefused ECrash end)
    && hevent_eqb e3 (EvLoaded (sp_loaded p))
    && check_points s3 r
  end.

Definition check_hist (c : hist_case) : bool :=
  let s0 := {| h_obj := hc_initial c; h_raw := []; h_file := None |} in
  let s1 := if hc_touched c then fst (hstep (fun _ => Ok tt) ident_store s0 HTouch) else s0 in
  match hc_points c with [] => false | _ :: _ => check_points s1 (hc_points c) end.

Definition show_hist (c : hist_case) :=
  map (fun p => (wfb (sp_content p), print (sp_content p))) (hc_points c).
