(** C18, end to end without a condition on WHICH files are refused: when closeness is an equivalence on
    the values present, removing the refused files from the path list gives the same stacks under keys
    that correspond one to one, equal on the exactly compared entries and close on the tolerance-compared
    ones (the key of a group carries the values of the first file seen, also when that file is refused). *)
From Coq Require Import List Bool ZArith NArith QArith Lia Permutation.
From DV Require Import Common.Res Common.Str Generated.T_group Group.Model Group.Spec Group.ProofsBase
  Group.ProofsGroup Group.ProofsClasses Group.ProofsSkip Group.ProofsIsolation.
Import ListNotations.

(* ------------------------------------------------------------------ subsequences *)

Inductive subseq {A} : list A -> list A -> Prop :=
| ss_nil : subseq [] []
| ss_skip x a b : subseq a b -> subseq a (x :: b)
| ss_take x a b : subseq a b -> subseq (x :: a) (x :: b).

Lemma subseq_nil_l {A} (l : list A) : subseq [] l.
Proof. induction l; [apply ss_nil | apply ss_skip; assumption]. Qed.

Lemma subseq_refl {A} (l : list A) : subseq l l.
Proof. induction l; [apply ss_nil | apply ss_take; assumption]. Qed.

Lemma subseq_app_r {A} (a b : list A) x : subseq a b -> subseq a (b ++ [x]).
Proof. induction 1; cbn [app]; [apply subseq_nil_l | apply ss_skip; assumption | apply ss_take; assumption]. Qed.

Lemma subseq_snoc {A} (a b : list A) x : subseq a b -> subseq (a ++ [x]) (b ++ [x]).
Proof. induction 1; cbn [app]; [apply ss_take, ss_nil | apply ss_skip; assumption | apply ss_take; assumption]. Qed.

Lemma subseq_filter {A} (q : A -> bool) l : subseq (filter q l) l.
Proof. induction l as [|x xs IH]; cbn [filter]; [constructor|]. destruct (q x); [apply ss_take | apply ss_skip]; exact IH. Qed.

Lemma subseq_trans {A} (a b c : list A) : subseq a b -> subseq b c -> subseq a c.
Proof.
  intros H1 H2. revert a H1. induction H2 as [|x b c _ IH|x b c _ IH]; intros a H1.
  - exact H1.
  - apply ss_skip. apply IH. exact H1.
  - inversion H1; subst; [apply ss_skip | apply ss_take]; apply IH; assumption.
Qed.

Lemma subseq_In {A} (a b : list A) x : subseq a b -> In x a -> In x b.
Proof. induction 1; intros Hin; [exact Hin | right; auto | destruct Hin as [<-|Hin]; [left; reflexivity | right; auto]]. Qed.

Lemma subseq_map {A B} (g : A -> B) (a b : list A) : subseq a b -> subseq (map g a) (map g b).
Proof. induction 1; cbn [map]; [apply ss_nil | apply ss_skip; assumption | apply ss_take; assumption]. Qed.

Lemma subseq_eq {A} (b : list A) : NoDup b -> forall a a', subseq a b -> subseq a' b ->
  (forall x, In x a <-> In x a') -> a = a'.
Proof.
  induction b as [|y b IH]; intros Hnd a a' H1 H2 Hiff.
  - inversion H1; inversion H2; subst. reflexivity.
  - inversion Hnd as [|? ? Hy Hnd']; subst.
    assert (Hny : forall c, subseq c b -> ~ In y c) by (intros c Hc Hin; apply Hy; eapply subseq_In; eassumption).
    inversion H1 as [|? ? ? S1|? a0 ? S1]; inversion H2 as [|? ? ? S2|? a0' ? S2]; subst.
    + apply IH; assumption.
    + exfalso. apply (Hny a S1). apply Hiff. left; reflexivity.
    + exfalso. apply (Hny a' S2). apply Hiff. left; reflexivity.
    + f_equal. apply IH; try assumption. intros x. split; intros Hx.
      * assert (Hx' : In x (y :: a0')) by (apply Hiff; right; exact Hx).
        destruct Hx' as [<-|Hx']; [exfalso; exact (Hny a0 S1 Hx) | exact Hx'].
      * assert (Hx' : In x (y :: a0)) by (apply Hiff; right; exact Hx).
        destruct Hx' as [<-|Hx']; [exfalso; exact (Hny a0' S2 Hx) | exact Hx'].
Qed.

(* ------------------------------------------------------------------ more list lemmas *)

Lemma NoDup_concat_inj {A B} (h : A -> list B) (L : list A) a b :
  NoDup (concat (map h L)) -> In a L -> In b L -> h a = h b -> h a <> [] -> a = b.
Proof.
  induction L as [|c r IH]; cbn [map concat]; intros Hnd Ha Hb Hab Hne; [destruct Ha|].
  assert (Hr : NoDup (concat (map h r))).
  { clear -Hnd. induction (h c) as [|z zs IHc]; [exact Hnd|]. cbn [app] in Hnd. inversion Hnd; subst. apply IHc; assumption. }
  assert (Hdis : forall d, In d r -> h d = h c -> h c <> [] -> False).
  { intros d Hd Hdc Hcne. destruct (h c) as [|z zs] eqn:Ec; [congruence|].
    cbn [app] in Hnd. inversion Hnd as [|? ? Hz _]; subst. apply Hz. apply in_or_app. right.
    apply in_concat. exists (h d). split; [apply in_map; exact Hd | rewrite Hdc; left; reflexivity]. }
  destruct Ha as [<-|Ha], Hb as [<-|Hb].
  - reflexivity.
  - exfalso. apply (Hdis b Hb); [symmetry; exact Hab | exact Hne].
  - exfalso. apply (Hdis a Ha); [exact Hab | rewrite <- Hab; exact Hne].
  - apply IH; assumption.
Qed.

Lemma NoDup_of_concat {A B} (h : A -> list B) (L : list A) :
  NoDup (concat (map h L)) -> (forall a, In a L -> h a <> []) -> NoDup L.
Proof.
  induction L as [|c r IH]; cbn [map concat]; intros Hnd Hne; [constructor|].
  assert (Hr : NoDup (concat (map h r))).
  { clear -Hnd. induction (h c) as [|z zs IHc]; [exact Hnd|]. cbn [app] in Hnd. inversion Hnd; subst. apply IHc; assumption. }
  constructor; [|apply IH; [exact Hr | intros a Ha; apply Hne; right; exact Ha]].
  intros Hin. pose proof (Hne c (or_introl eq_refl)) as Hc. destruct (h c) as [|z zs] eqn:Ec; [congruence|].
  cbn [app] in Hnd. inversion Hnd as [|? ? Hz _]; subst. apply Hz. apply in_or_app. right.
  apply in_concat. exists (h c). split; [apply in_map; exact Hin | rewrite Ec; left; reflexivity].
Qed.

Lemma bij_from_rel {A B} (R : A -> B -> Prop) (la : list A) : forall (lb : list B),
  NoDup la -> NoDup lb ->
  (forall a, In a la -> exists b, In b lb /\ R a b) ->
  (forall b, In b lb -> exists a, In a la /\ R a b) ->
  (forall a a' b, In a la -> In a' la -> In b lb -> R a b -> R a' b -> a = a') ->
  (forall a b b', In a la -> In b lb -> In b' lb -> R a b -> R a b' -> b = b') ->
  exists lb', Permutation lb lb' /\ Forall2 R la lb'.
Proof.
  induction la as [|a la IH]; intros lb Hna Hnb Hab Hba Hinj Hfun.
  - destruct lb as [|b lb]; [exists []; split; constructor|].
    destruct (Hba b (or_introl eq_refl)) as [a [[] _]].
  - destruct (Hab a (or_introl eq_refl)) as [b [Hb Rab]].
    apply in_split in Hb. destruct Hb as [l1 [l2 ->]].
    inversion Hna as [|? ? Hnia Hna']; subst.
    pose proof (NoDup_remove_1 _ _ _ Hnb) as Hnb0. pose proof (NoDup_remove_2 _ _ _ Hnb) as Hnib.
    assert (Hsub : forall x, In x (l1 ++ l2) -> In x (l1 ++ b :: l2)).
    { intros x Hx. apply in_app_or in Hx. apply in_or_app. destruct Hx; [left | right; right]; assumption. }
    assert (Hcase : forall x, In x (l1 ++ b :: l2) -> x = b \/ In x (l1 ++ l2)).
    { intros x Hx. apply in_app_or in Hx. destruct Hx as [Hx|[<-|Hx]]; [right; apply in_or_app; left | left | right; apply in_or_app; right]; auto. }
    destruct (IH (l1 ++ l2) Hna' Hnb0) as [lb0 [Hp HF]].
    + intros a' Ha'. destruct (Hab a' (or_intror Ha')) as [b' [Hb' Rab']].
      destruct (Hcase b' Hb') as [->|Hb0]; [|exists b'; split; assumption].
      exfalso. apply Hnia. rewrite (Hinj a a' b (or_introl eq_refl) (or_intror Ha') (in_elt _ _ _) Rab Rab'). exact Ha'.
    + intros b' Hb'. destruct (Hba b' (Hsub _ Hb')) as [a' [[<-|Ha'] Rab']]; [|exists a'; split; assumption].
      exfalso. apply Hnib. rewrite (Hfun a b b' (or_introl eq_refl) (in_elt _ _ _) (Hsub _ Hb') Rab Rab'). exact Hb'.
    + intros x x' y Hx Hx' Hy. apply Hinj; [right | right | apply Hsub]; assumption.
    + intros x y y' Hx Hy Hy'. apply Hfun; [right | apply Hsub | apply Hsub]; assumption.
    + exists (b :: lb0). split; [|constructor; assumption].
      etransitivity; [symmetry; apply Permutation_middle | apply perm_skip; exact Hp].
Qed.

(* ------------------------------------------------------------------ group members are in path order *)

Section Order.
  Context {F : Type}.
  Variables (group_by close_tests : list str) (atol : Q).
  Hypothesis atol_nonneg : 0 <= atol.

  Local Notation step := (@step F group_by close_tests atol).
  Local Notation run := (@run F group_by close_tests atol).
  Local Notation parse_and_group := (@parse_and_group F group_by close_tests atol).

  Definition ord_inv (pl : list (rd F)) (st : gstate F) : Prop :=
    forall e s, In e (fst st) -> In s (snd e) -> subseq (snd s) (map fst (imgs pl)).

  Lemma ord_step warn pl st r st' : ord_inv pl st -> step warn st r = Ok st' -> ord_inv (pl ++ [r]) st'.
  Proof.
    intros Hi Hs. unfold ord_inv in Hi |- *. rewrite imgs_app.
    assert (Hsame : forall (st0 : gstate F), fst st0 = fst st -> forall e s, In e (fst st0) -> In s (snd e) ->
                      subseq (snd s) (map fst (imgs pl ++ []))).
    { intros st0 E0 e s He Hss. rewrite app_nil_r. rewrite E0 in He. apply (Hi e s He Hss). }
    destruct r as [e0|attrs f m|attrs e0]; cbn [Model.step] in Hs.
    - destruct warn; [|discriminate]. injection Hs as <-. apply (Hsame _ eq_refl).
    - cbn [imgs]. destruct (is_image attrs); cbn [negb] in Hs.
      + destruct (add_result atol _ _ f (fst st)) as [rs'|e1] eqn:E; cbn [bind] in Hs; [|discriminate].
        injection Hs as <-. cbn [fst]. rewrite map_app. cbn [map fst].
        intros e s He Hss. apply add_result_spec in E.
        destruct E as [[pre [k [subs [subs' [post [E1 [-> [_ [Hsub _]]]]]]]]]|[-> _]].
        * rewrite E1 in Hi. apply in_app_or in He. destruct He as [He|[<-|He]].
          -- apply subseq_app_r. apply (Hi e s); [apply in_or_app; left; exact He | exact Hss].
          -- cbn [snd] in Hss. apply add_sub_spec in Hsub.
             destruct Hsub as [[pre2 [c [ms [post2 [-> [-> _]]]]]]|[-> _]].
             ++ apply in_app_or in Hss. destruct Hss as [Hss|[<-|Hss]].
                ** apply subseq_app_r. apply (Hi (k, pre2 ++ (c, ms) :: post2) s); [apply in_elt | cbn [snd]; apply in_or_app; left; exact Hss].
                ** cbn [snd]. apply subseq_snoc. apply (Hi (k, pre2 ++ (c, ms) :: post2) (c, ms)); [apply in_elt | cbn [snd]; apply in_elt].
                ** apply subseq_app_r. apply (Hi (k, pre2 ++ (c, ms) :: post2) s); [apply in_elt | cbn [snd]; apply in_or_app; right; right; exact Hss].
             ++ apply in_app_or in Hss. destruct Hss as [Hss|[<-|[]]].
                ** apply subseq_app_r. apply (Hi (k, subs) s); [apply in_elt | exact Hss].
                ** cbn [snd]. apply (subseq_snoc [] _ f). apply subseq_nil_l.
          -- apply subseq_app_r. apply (Hi e s); [apply in_or_app; right; right; exact He | exact Hss].
        * apply in_app_or in He. destruct He as [He|[<-|[]]].
          -- apply subseq_app_r. apply (Hi e s He Hss).
          -- cbn [snd] in Hss. destruct Hss as [<-|[]]. cbn [snd]. apply (subseq_snoc [] _ f). apply subseq_nil_l.
      + injection Hs as <-. apply (Hsame _ eq_refl).
    - assert (E0 : fst st' = fst st).
      { destruct (negb (is_image attrs)); [injection Hs as <-; reflexivity|]. destruct warn; [injection Hs as <-; reflexivity | discriminate]. }
      apply (Hsame _ E0).
  Qed.

  Lemma members_ordered warn (l : list (rd F)) gs w :
    parse_and_group warn l = Ok (gs, w) -> forall g, In g gs -> subseq (snd g) (map fst (imgs l)).
  Proof.
    intros H g Hg. destruct (parse_and_group_inv _ _ _ atol_nonneg _ _ _ _ H) as [rs [_ [_ [Hperm Hrun]]]].
    assert (Hord : ord_inv l (rs, w)).
    { change l with ([] ++ l). eapply (run_ind_inv _ _ _ ord_inv warn); [intros; eapply ord_step; eassumption | | exact Hrun].
      intros e s []. }
    pose proof (Permutation_in _ Hperm Hg) as Hg'. apply in_flat in Hg'. destruct Hg' as [e [s [He [Hs ->]]]].
    cbn [snd]. apply (Hord e s He Hs).
  Qed.
End Order.

(* ------------------------------------------------------------------ keys of the two groupings *)

Section Keys.
  Context {F : Type}.
  Variables (group_by close_tests : list str) (atol : Q).
  Hypothesis atol_nonneg : 0 <= atol.
  Variable p : F -> bool.

  Local Notation parse_and_group := (@parse_and_group F group_by close_tests atol).
  Local Notation SG := (same_group group_by close_tests atol).
  Local Notation KC := (keys_close group_by close_tests atol).

  Lemma keys_close_of_parts (m m' : meta) gb :
    key_eqb (map m (exact_keys gb close_tests)) (map m' (exact_keys gb close_tests)) = true ->
    match_close atol (map m (close_keys gb close_tests)) (map m' (close_keys gb close_tests)) = Ok true ->
    keys_close gb close_tests atol (map m gb) (map m' gb).
  Proof.
    unfold exact_keys, close_keys. induction gb as [|g gs IH]; cbn [filter map keys_close]; [auto|].
    destruct (mem_str g close_tests) eqn:E; cbn [negb map key_eqb match_close]; intros He Hc.
    - destruct (close_elem atol (m g) (m' g)) as [[|]|e] eqn:Ece; cbn [bind] in Hc; try discriminate.
      split; [reflexivity | apply IH; assumption].
    - apply andb_true_iff in He. destruct He as [He1 He2]. apply gval_eqb_eq in He1.
      split; [exact He1 | apply IH; assumption].
  Qed.

  Lemma same_group_keys_close m m' : SG m m' = Ok true -> KC (map m group_by) (map m' group_by).
  Proof. intros H. apply sg_true in H. destruct H as [H1 H2]. apply keys_close_of_parts; assumption. Qed.

  Lemma imgs_drop (l : list (rd F)) : imgs (drop_files p l) = filter (fun x => p (fst x)) (imgs l).
  Proof.
    induction l as [|r l' IH]; [reflexivity|].
    destruct r as [e|attrs f m|attrs e]; cbn [drop_files filter keep_rd imgs]; fold (drop_files p l'); try exact IH.
    destruct (is_image attrs) eqn:Ei; cbn [negb orb].
    - destruct (p f) eqn:Ep; cbn [imgs filter fst]; rewrite ?Ei, ?Ep; [f_equal|]; exact IH.
    - cbn [imgs]. rewrite Ei. exact IH.
  Qed.

  Lemma n_skipped_drop (l : list (rd F)) : n_skipped (drop_files p l) = n_skipped l.
  Proof.
    unfold n_skipped. induction l as [|r l' IH]; [reflexivity|].
    destruct r as [e|attrs f m|attrs e]; cbn [drop_files filter keep_rd skipped]; fold (drop_files p l');
      try (cbn [length]; rewrite IH; reflexivity).
    destruct (is_image attrs) eqn:Ei; cbn [negb orb].
    - destruct (p f); cbn [filter skipped]; rewrite ?Ei; cbn [negb]; exact IH.
    - cbn [filter skipped]. rewrite Ei. cbn [negb length]. rewrite IH. reflexivity.
  Qed.

  Section Two.
    Variables (warn : bool) (l : list (rd F)) (gs gs2 : list (group F)) (w w2 : nat).
    Hypothesis H : parse_and_group warn l = Ok (gs, w).
    Hypothesis H2 : parse_and_group warn (drop_files p l) = Ok (gs2, w2).
    Hypothesis Hnd : NoDup (map fst (imgs l)).
    Hypothesis Heq : close_equiv group_by close_tests atol (map snd (imgs l)).

    Lemma in_drop f m : In (f, m) (imgs (drop_files p l)) <-> In (f, m) (imgs l) /\ p f = true.
    Proof. rewrite imgs_drop, filter_In. cbn [fst]. reflexivity. Qed.

    Lemma Hnd2 : NoDup (map fst (imgs (drop_files p l))).
    Proof.
      rewrite imgs_drop. clear -Hnd. induction (imgs l) as [|[f m] r IH]; cbn [filter map fst] in *; [constructor|].
      inversion Hnd as [|? ? Hx Hr]; subst. destruct (p f); cbn [map fst]; [|apply IH; exact Hr].
      constructor; [|apply IH; exact Hr]. intros Hin. apply Hx. apply in_map_iff in Hin. destruct Hin as [[f' m'] [E Hin]].
      apply filter_In in Hin. apply in_map_iff. exists (f', m'). split; [exact E | exact (proj1 Hin)].
    Qed.

    Lemma Heq2 : close_equiv group_by close_tests atol (map snd (imgs (drop_files p l))).
    Proof.
      assert (Hm : forall a, In a (map snd (imgs (drop_files p l))) -> In a (map snd (imgs l))).
      { intros a Ha. apply in_map_iff in Ha. destruct Ha as [[f m] [<- Hin]]. apply in_drop in Hin.
        apply in_map_iff. exists (f, m). split; [reflexivity | exact (proj1 Hin)]. }
      destruct Heq as [R [S T]]. split; [|split].
      - intros a Ha. apply R. auto.
      - intros a b Ha Hb. apply S; auto.
      - intros a b c Ha Hb Hc. apply T; auto.
    Qed.

    Lemma member_meta (ll : list (rd F)) gg ww g f :
      parse_and_group warn ll = Ok (gg, ww) -> In g gg -> In f (snd g) -> exists m, In (f, m) (imgs ll).
    Proof.
      intros Hll Hg Hf. pose proof (partition _ _ _ atol_nonneg _ _ _ _ Hll) as Pl.
      apply in_fst_pair. eapply Permutation_in; [exact Pl|]. apply in_concat. exists (snd g). split; [apply in_map; exact Hg | exact Hf].
    Qed.

    Lemma member_group (ll : list (rd F)) gg ww f m :
      parse_and_group warn ll = Ok (gg, ww) -> In (f, m) (imgs ll) -> exists g, In g gg /\ In f (snd g).
    Proof.
      intros Hll Hfm. pose proof (partition _ _ _ atol_nonneg _ _ _ _ Hll) as Pl.
      assert (Hf : In f (concat (map snd gg))).
      { eapply Permutation_in; [symmetry; exact Pl|]. apply in_map_iff. exists (f, m). split; [reflexivity | exact Hfm]. }
      apply in_concat in Hf. destruct Hf as [ms [Hms Hf]]. apply in_map_iff in Hms. destruct Hms as [g [<- Hg]].
      exists g. split; assumption.
    Qed.

    (** a group of the full list and a group of the reduced list that share a file *)
    Lemma share g g2 f0 :
      In g gs -> In g2 gs2 -> In f0 (snd g) -> In f0 (snd g2) ->
      snd g2 = filter p (snd g) /\ KC (fst g) (fst g2).
    Proof.
      intros Hg Hg2 Hf0 Hf02.
      pose proof (groups_disjoint _ _ _ atol_nonneg _ _ _ _ H Hnd) as D.
      pose proof (groups_disjoint _ _ _ atol_nonneg _ _ _ _ H2 Hnd2) as D2.
      destruct (member_meta _ _ _ _ _ H2 Hg2 Hf02) as [m0 Hm02]. pose proof (proj1 (in_drop _ _) Hm02) as [Hm0 Ep0].
      assert (Hset : forall f, In f (snd g2) <-> In f (filter p (snd g))).
      { intros f. rewrite filter_In. split.
        - intros Hf. destruct (member_meta _ _ _ _ _ H2 Hg2 Hf) as [m Hm2]. pose proof (proj1 (in_drop _ _) Hm2) as [Hm Ep].
          split; [|exact Ep].
          assert (R : SG m0 m = Ok true) by (apply (classes _ _ _ atol_nonneg _ _ _ _ H2 Hnd2 Heq2 _ _ _ _ Hm02 Hm2); exists g2; auto).
          apply (classes _ _ _ atol_nonneg _ _ _ _ H Hnd Heq _ _ _ _ Hm0 Hm) in R. destruct R as [g' [Hg' [Ha Hb]]].
          assert (E : snd g' = snd g) by (eapply NoDup_concat_unique; [exact D | apply in_map; exact Hg' | apply in_map; exact Hg | exact Ha | exact Hf0]).
          rewrite <- E. exact Hb.
        - intros [Hf Ep]. destruct (member_meta _ _ _ _ _ H Hg Hf) as [m Hm].
          assert (Hm2 : In (f, m) (imgs (drop_files p l))) by (apply in_drop; split; assumption).
          assert (R : SG m0 m = Ok true) by (apply (classes _ _ _ atol_nonneg _ _ _ _ H Hnd Heq _ _ _ _ Hm0 Hm); exists g; auto).
          apply (classes _ _ _ atol_nonneg _ _ _ _ H2 Hnd2 Heq2 _ _ _ _ Hm02 Hm2) in R. destruct R as [g' [Hg' [Ha Hb]]].
          assert (E : snd g' = snd g2) by (eapply NoDup_concat_unique; [exact D2 | apply in_map; exact Hg' | apply in_map; exact Hg2 | exact Ha | exact Hf02]).
          rewrite <- E. exact Hb. }
      split.
      - apply (subseq_eq (map fst (imgs l)) Hnd); [| |exact Hset].
        + eapply subseq_trans; [apply (members_ordered _ _ _ atol_nonneg _ _ _ _ H2 g2 Hg2)|].
          rewrite imgs_drop. apply subseq_map. apply subseq_filter.
        + eapply subseq_trans; [apply subseq_filter | apply (members_ordered _ _ _ atol_nonneg _ _ _ _ H g Hg)].
      - destruct (key_is_member_value _ _ _ atol_nonneg _ _ _ _ _ H Hg) as [fa [ma [Hma [Hfa Ka]]]].
        destruct (key_is_member_value _ _ _ atol_nonneg _ _ _ _ _ H2 Hg2) as [fb [mb [Hmb2 [Hfb Kb]]]].
        apply key_eqb_eq in Ka. apply key_eqb_eq in Kb. rewrite Ka, Kb.
        apply same_group_keys_close.
        pose proof (proj1 (in_drop _ _) Hmb2) as [Hmb _].
        apply (classes _ _ _ atol_nonneg _ _ _ _ H Hnd Heq _ _ _ _ Hma Hmb). exists g. split; [exact Hg|]. split; [exact Hfa|].
        apply (proj1 (Hset fb)) in Hfb. apply filter_In in Hfb. exact (proj1 Hfb).
    Qed.

    Lemma concat_fgroups (gg : list (list gval * list F)) :
      concat (map snd (fgroups p gg)) = filter p (concat (map snd gg)).
    Proof.
      induction gg as [|[k g] r IH]; [reflexivity|].
      rewrite fgroups_cons. cbn [map concat snd]. rewrite filter_app, <- IH.
      destruct (filter p g); reflexivity.
    Qed.

    Lemma in_fgroups (gg : list (group F)) a :
      In a (fgroups p gg) <-> exists g, In g gg /\ a = (fst g, filter p (snd g)) /\ filter p (snd g) <> [].
    Proof.
      unfold fgroups. rewrite filter_In, in_map_iff. split.
      - intros [[g [<- Hg]] Hne]. exists g. split; [exact Hg|]. split; [reflexivity|].
        cbn [fgroup snd] in Hne. destruct (filter p (snd g)); [discriminate | discriminate].
      - intros [g [Hg [-> Hne]]]. split; [exists g; split; [reflexivity | exact Hg]|].
        cbn [snd]. destruct (filter p (snd g)); [congruence | reflexivity].
    Qed.

    (** the groups of the reduced list correspond one to one to the non-emptied filtered groups of the full list *)
    Lemma groups_bijection :
      exists gs2', Permutation gs2 gs2' /\
                   Forall2 (fun a b => KC (fst a) (fst b) /\ snd a = snd b) (fgroups p gs) gs2'.
    Proof.
      pose proof (groups_disjoint _ _ _ atol_nonneg _ _ _ _ H Hnd) as D.
      pose proof (groups_disjoint _ _ _ atol_nonneg _ _ _ _ H2 Hnd2) as D2.
      assert (DF : NoDup (concat (map snd (fgroups p gs)))) by (rewrite concat_fgroups; apply NoDup_filter; exact D).
      assert (NE2 : forall b, In b gs2 -> snd b <> []) by (intros b Hb; eapply groups_nonempty; eassumption).
      assert (NEF : forall a, In a (fgroups p gs) -> snd a <> []).
      { intros a Ha. apply in_fgroups in Ha. destruct Ha as [g [_ [-> Hne]]]. exact Hne. }
      apply bij_from_rel.
      - eapply NoDup_of_concat; eassumption.
      - eapply NoDup_of_concat; eassumption.
      - intros a Ha. apply in_fgroups in Ha. destruct Ha as [g [Hg [-> Hne]]]. cbn [fst snd].
        destruct (filter p (snd g)) as [|f0 r] eqn:Ef; [congruence|].
        assert (Hf0 : In f0 (filter p (snd g))) by (rewrite Ef; left; reflexivity).
        apply filter_In in Hf0. destruct Hf0 as [Hf0 Ep0].
        destruct (member_meta _ _ _ _ _ H Hg Hf0) as [m0 Hm0].
        destruct (member_group _ _ _ _ _ H2 (proj2 (in_drop _ _) (conj Hm0 Ep0))) as [g2 [Hg2 Hf02]].
        destruct (share _ _ _ Hg Hg2 Hf0 Hf02) as [S1 S2].
        exists g2. split; [exact Hg2|]. split; [exact S2 | rewrite S1, Ef; reflexivity].
      - intros b Hb. destruct (snd b) as [|f0 r] eqn:Eb; [exfalso; exact (NE2 b Hb Eb)|].
        assert (Hf02 : In f0 (snd b)) by (rewrite Eb; left; reflexivity).
        destruct (member_meta _ _ _ _ _ H2 Hb Hf02) as [m0 Hm02]. pose proof (proj1 (in_drop _ _) Hm02) as [Hm0 Ep0].
        destruct (member_group _ _ _ _ _ H Hm0) as [g [Hg Hf0]].
        destruct (share _ _ _ Hg Hb Hf0 Hf02) as [S1 S2].
        exists (fst g, filter p (snd g)). split.
        + apply in_fgroups. exists g. split; [exact Hg|]. split; [reflexivity|]. rewrite <- S1, Eb. discriminate.
        + cbn [fst snd]. split; [exact S2 | rewrite <- S1, Eb; reflexivity].
      - intros a a' b Ha Ha' Hb [_ E1] [_ E2].
        eapply (NoDup_concat_inj snd); [exact DF | exact Ha | exact Ha' | congruence | apply NEF; exact Ha].
      - intros a b b' Ha Hb Hb' [_ E1] [_ E2].
        eapply (NoDup_concat_inj snd); [exact D2 | exact Hb | exact Hb' | congruence | apply NE2; exact Hb].
    Qed.
  End Two.
End Keys.

(** parse_and_stack in warn mode, any set of refused files.  [p] selects the files to keep.  If every image
    file failing [p] is refused by (transactional) add_dcm when its turn comes, a fresh stack holds no file,
    payloads are distinct and closeness is an equivalence on the values present, then - provided both
    groupings succeed - the path list without those files gives the same stacks under corresponding keys
    (equal exact entries, close tolerance entries), with one warning less per dropped file. *)
Theorem parse_and_stack_isolation_keys {F state} (add : state -> F -> state * option err) (n_files : state -> nat)
        (p : F -> bool) group_by atol init (l : list (rd F)) gs w gs2 w2 :
  0 <= atol -> transactional add -> n_files init = 0%nat ->
  parse_and_group group_by default_close_keys atol true l = Ok (gs, w) ->
  parse_and_group group_by default_close_keys atol true (drop_files p l) = Ok (gs2, w2) ->
  NoDup (map fst (imgs l)) ->
  close_equiv group_by default_close_keys atol (map snd (imgs l)) ->
  (forall g, In g gs -> refused_along p add init (snd g)) ->
  exists sts sts' w',
    parse_and_stack state add n_files group_by atol true init l = Ok (sts, (length l - length (drop_files p l) + w')%nat) /\
    parse_and_stack state add n_files group_by atol true init (drop_files p l) = Ok (sts', w') /\
    same_stacks_up_to_keys group_by default_close_keys atol sts sts'.
Proof.
  intros Hat Htx H0 H H2 Hnd Heq Hr. unfold parse_and_stack. rewrite H, H2. cbn [bind fst snd]. rewrite !stack_all_closed.
  destruct (stacks_filter add n_files Htx p init gs H0 Hr) as [E1 E2].
  destruct (groups_bijection _ _ _ Hat p _ _ _ _ _ _ H H2 Hnd Heq) as [gs2' [Hp HF]].
  assert (Ew : w2 = w).
  { rewrite (warnings_count _ _ _ Hat _ _ _ _ H), (warnings_count _ _ _ Hat _ _ _ _ H2). apply n_skipped_drop. }
  subst w2.
  assert (EF : flat_map (keep_stack add n_files init) (fgroups p gs) = flat_map (keep_stack add n_files init) gs2' -> True) by auto.
  assert (HF2 : Forall2 (fun a b => keys_close group_by default_close_keys atol (fst a) (fst b) /\ snd a = snd b)
                        (flat_map (keep_stack add n_files init) (fgroups p gs)) (flat_map (keep_stack add n_files init) gs2')
                /\ refusals add init (fgroups p gs) = refusals add init gs2').
  { clear -HF. unfold refusals. induction HF as [|a b la lb [K E] _ [IH1 IH2]]; [split; [constructor | reflexivity]|].
    cbn [flat_map map]. split.
    - apply Forall2_app; [|exact IH1]. unfold keep_stack. rewrite E.
      destruct (Nat.eqb (n_files (fst (srun add init (snd b)))) 0); [constructor|].
      constructor; [|constructor]. cbn [fst snd]. split; [exact K | reflexivity].
    - unfold list_sum in *. cbn [fold_right]. rewrite E, IH2. reflexivity. }
  destruct HF2 as [HF2 HR].
  exists (flat_map (keep_stack add n_files init) gs), (flat_map (keep_stack add n_files init) gs2), (w + refusals add init gs2)%nat.
  split; [|split; [reflexivity|]].
  - f_equal. f_equal. rewrite E2, (n_refused_dropped _ _ _ Hat p _ _ _ _ H), HR.
    assert (E3 : refusals add init gs2' = refusals add init gs2).
    { unfold refusals. apply list_sum_perm. apply Permutation_map. symmetry. exact Hp. }
    rewrite E3. lia.
  - exists (flat_map (keep_stack add n_files init) gs2'). split; [apply perm_flat_map; exact Hp|].
    rewrite E1. exact HF2.
Qed.
