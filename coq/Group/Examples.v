(** Concrete inputs used by the non-vacuity Examples of Props/C18.v.  Key names come from the
    generated tables, so the examples follow the source. *)
From Coq Require Import List Bool ZArith NArith QArith Arith.
From DV Require Import Common.Res Common.Str Generated.T_group Group.Model Group.Spec.
Import ListNotations.

Definition k_uid : str := nth 0%nat default_group_keys [].
Definition k_num : str := nth 1%nat default_group_keys [].
Definition k_prot : str := nth 2%nat default_group_keys [].
Definition k_iop : str := nth 3%nat default_group_keys [].
Definition pix : list str := [nth 0%nat pix_attrs []].

Definition mk (uid : str) (num : Z) (prot : str) (iop : list Qc) : meta :=
  mget [(k_uid, GStr uid); (k_num, GInt num); (k_prot, GStr prot); (k_iop, GTup iop)].

Definition qs (l : list Q) : list Qc := map Qcanon.Q2Qc l.
Definition ax : list Qc := qs [1; 0; 0; 0; 1; 0].
Definition ax_near : list Qc := qs [1; 3 # 100000; 0; 0; 1; 0].       (* within 5e-5 of ax *)
Definition ax_far : list Qc := qs [1; 2 # 10000; 0; 0; 1; 0].         (* beyond *)

(** series A: files 0 and 1 (orientation within tolerance), a fault, a pixel-less data set,
    series B (other protocol): file 3, series C (orientation beyond tolerance): file 4 *)
Definition ex_l : list (rd nat) :=
  [ Data pix 0%nat (mk [49%N] 1%Z [97%N] ax);
    Fault ECrash;
    Data pix 1%nat (mk [49%N] 1%Z [97%N] ax_near);
    Data [] 2%nat (mk [49%N] 1%Z [97%N] ax);
    Data pix 3%nat (mk [49%N] 1%Z [98%N] ax);
    Data pix 4%nat (mk [49%N] 1%Z [97%N] ax_far) ].

Definition ex_l1 : list (rd nat) := firstn 1%nat ex_l.
Definition ex_l2 : list (rd nat) := skipn 2%nat ex_l.

(** a closeness chain: 0 ~ 4e-5 ~ 8e-5 but 0 !~ 8e-5 *)
Definition ex_chain : list (rd nat) :=
  [ Data pix 0%nat (mk [49%N] 1%Z [97%N] (qs [1; 0; 0; 0; 1; 0]));
    Data pix 1%nat (mk [49%N] 1%Z [97%N] (qs [1; 4 # 100000; 0; 0; 1; 0]));
    Data pix 2%nat (mk [49%N] 1%Z [97%N] (qs [1; 8 # 100000; 0; 0; 1; 0])) ].

(** a toy transactional add_dcm: the stack is the list of accepted ids; odd ids are refused *)
Definition toy_add (st : list nat) (f : nat) : list nat * option err :=
  if Nat.even f then (st ++ [f], None) else (st, Some EIncongruent).

(** a toy add_dcm that is NOT transactional: a refused file is remembered *)
Definition leaky_add (st : list nat) (f : nat) : list nat * option err :=
  if Nat.even f then (st ++ [f], None) else (st ++ [100 + f]%nat, Some EIncongruent).

Definition not1 (f : nat) : bool := negb (Nat.eqb f 1%nat).

Lemma toy_add_transactional : transactional toy_add.
Proof.
  intros st f e. unfold toy_add. destruct (Nat.even f); cbn [fst snd]; [discriminate | reflexivity].
Qed.

(** table fact: the tolerance written in the source is not negative *)
Lemma group_atol_nonneg : 0 <= group_atol.
Proof. vm_compute. discriminate. Qed.

(** a transactional add_dcm that refuses file 0 only (the first file of its group in [ex_l]) *)
Definition add0 (st : list nat) (f : nat) : list nat * option err :=
  if Nat.eqb f 0%nat then (st, Some EIncongruent) else (st ++ [f], None).
Definition not0 (f : nat) : bool := negb (Nat.eqb f 0%nat).

Lemma add0_transactional : transactional add0.
Proof. intros st f e. unfold add0. destruct (Nat.eqb f 0); cbn [fst snd]; [reflexivity | discriminate]. Qed.

(** a file that reads but whose meta data cannot be extracted, and one that reads without pixels *)
Definition ex_xfault : rd nat := ExtractFault pix EValue.
Definition ex_xnopix : rd nat := ExtractFault [] EValue.
