(** Executable model of  dcmstack.parse_and_group / stack_group / parse_and_stack
    (src/dcmstack/dcmstack.py, "def parse_and_group" .. end of "def parse_and_stack").

    What is an INPUT of the model (not modelled): reading a path with pydicom and running the meta
    data extractor.  One path contributes one read result [rd]:
      - [Fault e]            pydicom.dcmread raised (class e), or the image test is_image(dcm) raised e (pydicom
                             decodes the pixel data element lazily): both are handled before the non-image skip,
      - [ExtractFault attrs e]  a data set was read (pydicom parses lazily) but the extractor raised e,
      - [Data attrs f meta]  a data set was read; [attrs] = which attribute names it has (only the
                             ones [is_image] may ask for matter), [f] = the payload that ends up in
                             the group (the Python triple (dcm, meta, path)), [meta] = meta.get.
    Values of group-by keys ([gval]): None, int, str, or a tuple of floats (lists / MultiValues are
    turned into tuples by the code).  Floats are exact rationals.                                   *)
From Coq Require Import List Bool ZArith NArith QArith Qabs Lia.
From Coq Require Qcanon.
From DV Require Import Common.Res Common.Str Generated.T_group.
Import ListNotations.
Open Scope res_scope.

(* ------------------------------------------------------------------ values *)

(** floats are canonical rationals ([Qc]): Python [==] on them is Leibniz equality *)
Notation Qc := Qcanon.Qc.
Definition qv (x : Qc) : Q := Qcanon.this x.

Inductive gval := GNone | GInt (z : Z) | GStr (s : str) | GTup (l : list Qc).

Fixpoint qlist_eqb (a b : list Qc) : bool :=
  match a, b with
  | [], [] => true
  | x :: xs, y :: ys => Qcanon.Qc_eq_bool x y && qlist_eqb xs ys
  | _, _ => false
  end.

(** Python [==] (and hash agreement) on the value domain. *)
Definition gval_eqb (a b : gval) : bool :=
  match a, b with
  | GNone, GNone => true
  | GInt x, GInt y => Z.eqb x y
  | GStr x, GStr y => str_eqb x y
  | GTup x, GTup y => qlist_eqb x y
  | _, _ => false
  end.

(** tuple [==] *)
Fixpoint key_eqb (a b : list gval) : bool :=
  match a, b with
  | [], [] => true
  | x :: xs, y :: ys => gval_eqb x y && key_eqb xs ys
  | _, _ => false
  end.

(* ------------------------------------------------------------------ np.allclose *)

(** numpy's default rtol (the call passes atol only; the translator fails when that changes). *)
Definition np_rtol : Q := 1 # 100000.

(** one element of  abs(a - b) <= atol + rtol * abs(b)   -- asymmetric in b, as in numpy *)
Definition close_q (atol a b : Q) : bool := Qle_bool (Qabs (a - b)) (atol + np_rtol * Qabs b).

Definition numeric (v : gval) : option (list Q) :=
  match v with
  | GInt z => Some [inject_Z z]     (* 0-d array; broadcasts like a 1-element array *)
  | GTup l => Some (map qv l)
  | GNone | GStr _ => None
  end.

(** numpy broadcasting of two 1-d shapes *)
Definition broadcast (a b : list Q) : res (list (Q * Q)) :=
  if Nat.eqb (length a) (length b) then Ok (combine a b)
  else match a, b with
       | [x], _ => Ok (map (fun y => (x, y)) b)
       | _, [y] => Ok (map (fun x => (x, y)) a)
       | _, _ => Err EValue            (* "operands could not be broadcast together" *)
       end.

Definition allclose (atol : Q) (a b : gval) : res bool :=
  match numeric a, numeric b with
  | Some x, Some y =>
      do ps <- broadcast x y;
      Ok (forallb (fun p => close_q atol (fst p) (snd p)) ps)
  | _, _ => Err EType                  (* None - float, or a str operand: TypeError *)
  end.

(** (c_val is None and close_list[c_idx] is None) or np.allclose(c_val, close_list[c_idx], atol=..) *)
Definition close_elem (atol : Q) (c_val new : gval) : res bool :=
  match c_val, new with
  | GNone, GNone => Ok true
  | _, _ => allclose atol c_val new
  end.

(** the inner  for c_idx, c_val in enumerate(c_list): ... break / else  *)
Fixpoint match_close (atol : Q) (c_list close_list : list gval) : res bool :=
  match c_list with
  | [] => Ok true
  | c :: cs =>
      match close_list with
      | [] => Err EIndex
      | n :: ns => do b <- close_elem atol c n;
                   if b then match_close atol cs ns else Ok false
      end
  end.

(* ------------------------------------------------------------------ key split / unpack *)

Definition mem_str (s : str) (l : list str) : bool := existsb (str_eqb s) l.

Definition meta := str -> gval.                        (* meta.get(key) *)

(** meta.get on an association list (used for literals) *)
Fixpoint mget (al : list (str * gval)) (k : str) : gval :=
  match al with
  | [] => GNone
  | (k', v) :: r => if str_eqb k k' then v else mget r k
  end.

Definition exact_keys (group_by close_tests : list str) : list str :=
  filter (fun g => negb (mem_str g close_tests)) group_by.
Definition close_keys (group_by close_tests : list str) : list str :=
  filter (fun g => mem_str g close_tests) group_by.

(** key_list / close_list *)
Definition ekey (group_by close_tests : list str) (m : meta) : list gval := map m (exact_keys group_by close_tests).
Definition ckey (group_by close_tests : list str) (m : meta) : list gval := map m (close_keys group_by close_tests).

(** the full_key loop: walk group_by, take the next element of the close key or of the eq key.
    (An exhausted key would be an IndexError; it cannot happen for keys built by ekey/ckey and is
    modelled as "stop".) *)
Fixpoint merge_key (group_by close_tests : list str) (eq_key close_key : list gval) : list gval :=
  match group_by with
  | [] => []
  | g :: gs =>
      if mem_str g close_tests then
        match close_key with
        | c :: cs => c :: merge_key gs close_tests eq_key cs
        | [] => []
        end
      else
        match eq_key with
        | e :: es => e :: merge_key gs close_tests es close_key
        | [] => []
        end
  end.

(* ------------------------------------------------------------------ ordering of full keys *)

(** Python [<] on two values that are not [==]; None = TypeError. *)
Fixpoint str_ltb (a b : str) : bool :=
  match a, b with
  | _, [] => false
  | [], _ :: _ => true
  | x :: xs, y :: ys => if N.eqb x y then str_ltb xs ys else N.ltb x y
  end.
Fixpoint qlist_ltb (a b : list Qc) : bool :=
  match a, b with
  | _, [] => false
  | [], _ :: _ => true
  | x :: xs, y :: ys => if Qcanon.Qc_eq_bool x y then qlist_ltb xs ys
                        else match Qcompare (qv x) (qv y) with Lt => true | _ => false end
  end.
Definition gval_ltb (a b : gval) : option bool :=
  match a, b with
  | GInt x, GInt y => Some (Z.ltb x y)
  | GStr x, GStr y => Some (str_ltb x y)
  | GTup x, GTup y => Some (qlist_ltb x y)
  | _, _ => None
  end.
(** tuple [<]: first position where the elements are not [==] decides *)
Fixpoint key_ltb (a b : list gval) : option bool :=
  match a, b with
  | _, [] => Some false
  | [], _ :: _ => Some true
  | x :: xs, y :: ys => if gval_eqb x y then key_ltb xs ys else gval_ltb x y
  end.

(* ------------------------------------------------------------------ parse_and_group *)

Definition is_image (attrs : list str) : bool := existsb (fun a => mem_str a attrs) pix_attrs.

Section Group.
  Context {F : Type}.

  Inductive rd := Fault (e : err) | Data (attrs : list str) (f : F) (m : meta)
                | ExtractFault (attrs : list str) (e : err).

  Definition subres := (list gval * list F)%type.          (* (close_list, sub_res) *)
  Definition entry := (list gval * list subres)%type.      (* results[key] *)
  Definition group := (list gval * list F)%type.           (* full key -> members *)

  Variables (group_by close_tests : list str) (atol : Q).

  (** for c_list, sub_res in results[key]: first matching sub result wins; else append *)
  Fixpoint add_sub (cl : list gval) (f : F) (subs : list subres) : res (list subres) :=
    match subs with
    | [] => Ok [(cl, [f])]
    | (c_list, sub) :: rest =>
        do b <- match_close atol c_list cl;
        if b then Ok ((c_list, sub ++ [f]) :: rest)
        else do rest' <- add_sub cl f rest; Ok ((c_list, sub) :: rest')
    end.

  (** results is an insertion-ordered dict keyed by the tuple of exact values *)
  Fixpoint add_result (key cl : list gval) (f : F) (rs : list entry) : res (list entry) :=
    match rs with
    | [] => Ok [(key, [(cl, [f])])]
    | (k, subs) :: rest =>
        if key_eqb key k then do subs' <- add_sub cl f subs; Ok ((k, subs') :: rest)
        else do rest' <- add_result key cl f rest; Ok ((k, subs) :: rest')
    end.

  Definition gstate := (list entry * nat)%type.            (* results, number of warnings issued *)

  (** one iteration of  for dcm_path in src_paths  *)
  Definition step (warn : bool) (st : gstate) (r : rd) : res gstate :=
    match r with
    | Fault e => if warn then Ok (fst st, S (snd st)) else Err e
    | ExtractFault attrs e =>            (* read, then the is_image test, then the extractor *)
        if negb (is_image attrs) then Ok (fst st, S (snd st))
        else if warn then Ok (fst st, S (snd st)) else Err e
    | Data attrs f m =>
        if negb (is_image attrs) then Ok (fst st, S (snd st))
        else do rs' <- add_result (ekey group_by close_tests m) (ckey group_by close_tests m) f (fst st);
             Ok (rs', snd st)
    end.

  Fixpoint run (warn : bool) (st : gstate) (l : list rd) : res gstate :=
    match l with
    | [] => Ok st
    | r :: l' => do st' <- step warn st r; run warn st' l'
    end.

  (** the (eq_key, close_key, sub_res) triples in dict / list order *)
  Definition flat (rs : list entry) : list group :=
    flat_map (fun e => map (fun sr => (merge_key group_by close_tests (fst e) (fst sr), snd sr)) (snd e)) rs.

  (** full_results[full_key] = sub_res *)
  Fixpoint dict_set (k : list gval) (v : list F) (d : list group) : list group :=
    match d with
    | [] => [(k, v)]
    | (k', v') :: r => if key_eqb k k' then (k', v) :: r else (k', v') :: dict_set k v r
    end.
  Definition unpack (rs : list entry) : list group :=
    fold_left (fun d kv => dict_set (fst kv) (snd kv) d) (flat rs) [].

  (** sorted(full_results.items()).  Domain: when two of the keys are not comparable ([<] between None
      and a value at the first differing position) CPython raises TypeError if it happens to compare
      that pair; the model raises whenever such a pair exists (exact for <= 2 groups and whenever all
      keys are comparable). *)
  Definition lt_ok (a b : group) : bool :=
    match key_ltb (fst a) (fst b), key_ltb (fst b) (fst a) with
    | Some x, Some y => x || y          (* equal keys would compare the member lists: not a total order *)
    | _, _ => false
    end.
  Fixpoint all_pairs (p : group -> group -> bool) (l : list group) : bool :=
    match l with
    | [] => true
    | x :: xs => forallb (p x) xs && all_pairs p xs
    end.
  Definition group_ltb (a b : group) : bool :=
    match key_ltb (fst a) (fst b) with Some true => true | _ => false end.
  Fixpoint insert_sorted (x : group) (l : list group) : list group :=
    match l with
    | [] => [x]
    | y :: ys => if group_ltb x y then x :: y :: ys else y :: insert_sorted x ys
    end.
  Definition isort (l : list group) : list group := fold_right insert_sorted [] l.
  Definition sort_groups (l : list group) : res (list group) :=
    if all_pairs lt_ok l then Ok (isort l) else Err EType.

  Definition parse_and_group (warn : bool) (l : list rd) : res (list group * nat) :=
    do st <- run warn ([], 0%nat) l;
    do gs <- sort_groups (unpack (fst st));
    Ok (gs, snd st).

End Group.

Arguments rd : clear implicits.
Arguments subres : clear implicits.
Arguments entry : clear implicits.
Arguments group : clear implicits.
Arguments gstate : clear implicits.

(* ------------------------------------------------------------------ stack_group / parse_and_stack *)

Section Stack.
  Context {F : Type}.

  (** [add st f] = (the stack object after result.add_dcm(dcm, meta), the exception raised if any).
      The object is returned in both cases: whether a refused file changed it is exactly what
      "transactional" is about. *)
  Variable state : Type.
  Variable add : state -> F -> state * option err.
  Variable n_files : state -> nat.          (* len(stack._files_info) *)

  Fixpoint stack_run (warn : bool) (st : state) (w : nat) (g : list F) : res (state * nat) :=
    match g with
    | [] => Ok (st, w)
    | f :: g' =>
        match add st f with
        | (st', None) => stack_run warn st' w g'
        | (st', Some e) => if warn then stack_run warn st' (S w) g' else Err e
        end
    end.

  (** stack_group(group, warn_on_except, stack_args);  [init] = DicomStack with the stack_args *)
  Definition stack_group (warn : bool) (init : state) (g : list F) : res (state * nat) :=
    stack_run warn init 0%nat g.

  (** for key in list(results.keys()): stack = stack_group(results[key], ...)   (a fresh stack each);
      a group whose stack holds no file is deleted from the result, otherwise results[key] = stack *)
  Fixpoint stack_all (warn : bool) (init : state) (gs : list (group F)) (w : nat)
    : res (list (list gval * state) * nat) :=
    match gs with
    | [] => Ok ([], w)
    | (k, g) :: gs' =>
        do r <- stack_run warn init w g;
        do r' <- stack_all warn init gs' (snd r);
        Ok ((if Nat.eqb (n_files (fst r)) 0 then fst r' else (k, fst r) :: fst r'), snd r')
    end.

  (** parse_and_stack does not forward close_tests: the grouping uses the module default *)
  Definition parse_and_stack (group_by : list str) (atol : Q) (warn : bool) (init : state) (l : list (rd F))
    : res (list (list gval * state) * nat) :=
    do r <- parse_and_group group_by default_close_keys atol warn l;
    stack_all warn init (fst r) (snd r).

End Stack.

(** the images of a path list, in order *)
Fixpoint imgs {F} (l : list (rd F)) : list (F * meta) :=
  match l with
  | [] => []
  | Fault _ :: r => imgs r
  | ExtractFault _ _ :: r => imgs r
  | Data attrs f m :: r => if is_image attrs then (f, m) :: imgs r else imgs r
  end.

(** what is skipped with a warning (in warn mode) *)
Definition skipped {F} (r : rd F) : bool :=
  match r with Fault _ | ExtractFault _ _ => true | Data attrs _ _ => negb (is_image attrs) end.

(** skipped with a warning in the given mode *)
Definition skipped_in {F} (warn : bool) (r : rd F) : bool :=
  match r with
  | Fault _ => warn
  | Data attrs _ _ => negb (is_image attrs)
  | ExtractFault attrs _ => negb (is_image attrs) || warn
  end.

(** the exception strict mode raises on this entry *)
Definition strict_error {F} (r : rd F) : option err :=
  match r with
  | Fault e => Some e
  | Data _ _ _ => None
  | ExtractFault attrs e => if is_image attrs then Some e else None
  end.

(** [add] built from a function that returns no state on refusal (so it is transactional by construction) *)
Definition add_of_res {state F} (a : state -> F -> res state) (st : state) (f : F) : state * option err :=
  match a st f with Ok st' => (st', None) | Err e => (st, Some e) end.

(** parse_and_group / parse_and_stack with the module's default arguments *)
Definition parse_and_group_default {F} := @parse_and_group F default_group_keys default_close_keys group_atol.
Definition parse_and_stack_default {F} state add n_files := @parse_and_stack F state add n_files default_group_keys group_atol.
