(** C18: when closeness is an equivalence on the values present, the groups are exactly its classes,
    and the member sets do not depend on the order of the path list. *)
From Coq Require Import List Bool ZArith NArith QArith Lia Permutation.
From DV Require Import Common.Res Common.Str Generated.T_group Group.Model Group.Spec Group.ProofsBase Group.ProofsGroup.
Import ListNotations.

Lemma imgs_perm {F} (l l' : list (rd F)) : Permutation l l' -> Permutation (imgs l) (imgs l').
Proof.
  induction 1 as [|x l l' _ IH|x y l|l l' l'' _ IH1 _ IH2].
  - constructor.
  - destruct x as [e|attrs f m|attrs e]; cbn [imgs]; [exact IH | | exact IH]. destruct (is_image attrs); [constructor|]; exact IH.
  - destruct x as [e|a f m|a e], y as [e'|a' f' m'|a' e']; cbn [imgs]; try reflexivity;
      repeat match goal with |- context [is_image ?a] => destruct (is_image a) end; try reflexivity.
    apply perm_swap.
  - etransitivity; eassumption.
Qed.

Lemma n_skipped_perm {F} (l l' : list (rd F)) : Permutation l l' -> n_skipped l = n_skipped l'.
Proof.
  unfold n_skipped. induction 1 as [|x l l' _ IH|x y l|l l' l'' _ IH1 _ IH2]; cbn [filter].
  - reflexivity.
  - destruct (skipped x); cbn [length]; congruence.
  - destruct (skipped x), (skipped y); reflexivity.
  - congruence.
Qed.

Lemma in_fst_pair {A B} (l : list (A * B)) a : In a (map fst l) -> exists b, In (a, b) l.
Proof. intros H. apply in_map_iff in H. destruct H as [[x y] [<- H]]. exists y. exact H. Qed.

Section Classes.
  Context {F : Type}.
  Variables (group_by close_tests : list str) (atol : Q).
  Hypothesis atol_nonneg : 0 <= atol.

  Local Notation EK := (ekey group_by close_tests).
  Local Notation CK := (ckey group_by close_tests).
  Local Notation MC := (match_close atol).
  Local Notation SG := (same_group group_by close_tests atol).
  Local Notation parse_and_group := (parse_and_group group_by close_tests atol).

  Lemma sg_true a b : SG a b = Ok true <-> key_eqb (EK a) (EK b) = true /\ MC (CK a) (CK b) = Ok true.
  Proof.
    unfold same_group. destruct (key_eqb (EK a) (EK b)); split.
    - intros H; split; [reflexivity | exact H].
    - intros [_ H]; exact H.
    - discriminate.
    - intros [H _]; discriminate.
  Qed.

  Section OneList.
    Variables (I : list (F * meta)) (rs : list (entry F)).
    Hypothesis Hinv : inv group_by close_tests atol I rs.
    Hypothesis Hnd : NoDup (map fst I).
    Hypothesis Heq : close_equiv group_by close_tests atol (map snd I).

    Lemma in_snd f m : In (f, m) I -> In m (map snd I).
    Proof. intros H. apply in_map_iff. exists (f, m). split; [reflexivity | exact H]. Qed.

    (** every member is related to the representative of its sub result *)
    Lemma sub_rep e s :
      In e rs -> In s (snd e) ->
      exists m0, In m0 (map snd I) /\ fst s = CK m0 /\ key_eqb (EK m0) (fst e) = true /\
                 forall f m, In f (snd s) -> In (f, m) I -> SG m0 m = Ok true.
    Proof.
      intros He Hs. destruct Hinv as [_ [Hent _]].
      rewrite Forall_forall in Hent. destruct (Hent e He) as [_ [_ Hok]].
      rewrite Forall_forall in Hok. destruct (Hok s Hs) as [[f0 [m0 [H1 [H2 [H3 H4]]]]] Hmem].
      exists m0. split; [eapply in_snd; exact H2|]. split; [exact H3|]. split; [exact H4|].
      intros f m Hf Hm.
      destruct (Hmem f Hf) as [m' [Ha [Hb Hc]]].
      assert (m' = m) by (eapply NoDup_fst_functional; eassumption). subst m'.
      apply sg_true. split.
      - eapply key_eqb_trans; [exact H4 | apply key_eqb_sym; exact Hb].
      - destruct Hc as [Hc|Hc].
        + rewrite <- H3. exact Hc.
        + rewrite <- H3, Hc. destruct Heq as [Hrefl _].
          pose proof (Hrefl m (in_snd _ _ Hm)) as Hr. apply sg_true in Hr. exact (proj2 Hr).
    Qed.

    Lemma same_sub_related e s f1 m1 f2 m2 :
      In e rs -> In s (snd e) -> In f1 (snd s) -> In f2 (snd s) -> In (f1, m1) I -> In (f2, m2) I ->
      SG m1 m2 = Ok true.
    Proof.
      intros He Hs Hf1 Hf2 Hm1 Hm2.
      destruct (sub_rep _ _ He Hs) as [m0 [Hi0 [_ [_ Hall]]]].
      pose proof (Hall _ _ Hf1 Hm1) as R1. pose proof (Hall _ _ Hf2 Hm2) as R2.
      destruct Heq as [_ [Hsym Htrans]].
      pose proof (in_snd _ _ Hm1) as I1. pose proof (in_snd _ _ Hm2) as I2.
      apply (Htrans m1 m0 m2 I1 Hi0 I2); [apply Hsym; assumption | exact R2].
    Qed.

    Lemma related_same_sub e1 s1 e2 s2 f1 m1 f2 m2 :
      In e1 rs -> In s1 (snd e1) -> In f1 (snd s1) -> In (f1, m1) I ->
      In e2 rs -> In s2 (snd e2) -> In f2 (snd s2) -> In (f2, m2) I ->
      SG m1 m2 = Ok true -> e1 = e2 /\ s1 = s2.
    Proof.
      intros He1 Hs1 Hf1 Hm1 He2 Hs2 Hf2 Hm2 R.
      destruct (sub_rep _ _ He1 Hs1) as [a [Ia [Ea [Ka Ra']]]]. pose proof (Ra' _ _ Hf1 Hm1) as Ra.
      destruct (sub_rep _ _ He2 Hs2) as [b [Ib [Eb [Kb Rb']]]]. pose proof (Rb' _ _ Hf2 Hm2) as Rb.
      pose proof (in_snd _ _ Hm1) as I1. pose proof (in_snd _ _ Hm2) as I2.
      destruct Heq as [_ [Hsym Htrans]].
      assert (Rab : SG a b = Ok true).
      { apply (Htrans a m1 b Ia I1 Ib Ra). apply (Htrans m1 m2 b I1 I2 Ib R). apply Hsym; assumption. }
      assert (Rba : SG b a = Ok true) by (apply Hsym; assumption).
      apply sg_true in Rab. apply sg_true in Rba. destruct Rab as [Kab Cab], Rba as [Kba Cba].
      destruct Hinv as [Hk [Hent _]].
      assert (Kee : key_eqb (fst e2) (fst e1) = true).
      { eapply key_eqb_trans; [apply key_eqb_sym; exact Kb|]. eapply key_eqb_trans; [exact Kba | exact Ka]. }
      assert (e1 = e2).
      { destruct (ForallOrdPairs_In Hk _ _ He1 He2) as [E|[E|E]]; [exact E | |]; unfold keyR in E.
        - congruence.
        - apply key_eqb_sym in Kee. congruence. }
      subst e2. split; [reflexivity|].
      rewrite Forall_forall in Hent. destruct (Hent e1 He1) as [_ [Hrep _]].
      destruct (ForallOrdPairs_In Hrep _ _ Hs1 Hs2) as [E|[E|E]]; [exact E | |]; unfold repR in E; exfalso.
      - rewrite Ea, Eb in E. congruence.
      - rewrite Ea, Eb in E. congruence.
    Qed.
  End OneList.

  (** the groups are exactly the classes of "equal on the exact keys and close on the close keys" *)
  Theorem classes warn (l : list (rd F)) gs w :
    parse_and_group warn l = Ok (gs, w) ->
    NoDup (map fst (imgs l)) ->
    close_equiv group_by close_tests atol (map snd (imgs l)) ->
    forall f1 m1 f2 m2, In (f1, m1) (imgs l) -> In (f2, m2) (imgs l) ->
      ((exists g, In g gs /\ In f1 (snd g) /\ In f2 (snd g)) <-> SG m1 m2 = Ok true).
  Proof.
    intros H Hnd Heq f1 m1 f2 m2 H1 H2.
    destruct (parse_and_group_inv _ _ _ atol_nonneg _ _ _ _ H) as [rs [Hinv [_ [Hperm _]]]].
    split.
    - intros [g [Hg [Hf1 Hf2]]]. pose proof (Permutation_in _ Hperm Hg) as Hg'.
      apply in_flat in Hg'. destruct Hg' as [e [s [He [Hs ->]]]]. cbn [snd] in *.
      exact (same_sub_related _ _ Hinv Hnd Heq _ _ _ _ _ _ He Hs Hf1 Hf2 H1 H2).
    - intros R.
      assert (Hin : forall f m, In (f, m) (imgs l) -> exists e s, In e rs /\ In s (snd e) /\ In f (snd s)).
      { intros f m Hfm. pose proof (partition _ _ _ atol_nonneg _ _ _ _ H) as Hp.
        assert (Hf : In f (concat (map snd gs))).
        { eapply Permutation_in; [symmetry; exact Hp|]. apply in_map_iff. exists (f, m). split; [reflexivity | exact Hfm]. }
        apply in_concat in Hf. destruct Hf as [ms [Hms Hf]]. apply in_map_iff in Hms. destruct Hms as [g [<- Hg]].
        pose proof (Permutation_in _ Hperm Hg) as Hg'. apply in_flat in Hg'.
        destruct Hg' as [e [s [He [Hs ->]]]]. exists e, s. repeat split; assumption. }
      destruct (Hin _ _ H1) as [e1 [s1 [He1 [Hs1 Hf1]]]]. destruct (Hin _ _ H2) as [e2 [s2 [He2 [Hs2 Hf2]]]].
      destruct (related_same_sub _ _ Hinv Hnd Heq _ _ _ _ _ _ _ _ He1 Hs1 Hf1 H1 He2 Hs2 Hf2 H2 R) as [<- <-].
      exists (merge_key group_by close_tests (fst e1) (fst s1), snd s1). cbn [snd].
      split; [|split; assumption].
      eapply Permutation_in; [symmetry; exact Hperm|]. apply in_flat. exists e1, s1. repeat split; assumption.
  Qed.

  Lemma groups_disjoint warn (l : list (rd F)) gs w :
    parse_and_group warn l = Ok (gs, w) -> NoDup (map fst (imgs l)) -> NoDup (concat (map snd gs)).
  Proof.
    intros H Hnd. eapply Permutation_NoDup; [symmetry; eapply partition; eassumption | exact Hnd].
  Qed.

  Lemma perm_half warn (l l' : list (rd F)) gs w gs' w' :
    Permutation l l' ->
    parse_and_group warn l = Ok (gs, w) -> parse_and_group warn l' = Ok (gs', w') ->
    NoDup (map fst (imgs l)) -> close_equiv group_by close_tests atol (map snd (imgs l)) ->
    forall g, In g gs -> exists g', In g' gs' /\ forall f, In f (snd g) <-> In f (snd g').
  Proof.
    intros Hp H H' Hnd Heq g Hg.
    pose proof (imgs_perm _ _ Hp) as Hip.
    assert (Hnd' : NoDup (map fst (imgs l'))) by (eapply Permutation_NoDup; [apply Permutation_map; exact Hip | exact Hnd]).
    assert (Heq' : close_equiv group_by close_tests atol (map snd (imgs l'))).
    { assert (Hm : forall a, In a (map snd (imgs l')) -> In a (map snd (imgs l))).
      { intros a. apply Permutation_in. apply Permutation_map. symmetry. exact Hip. }
      destruct Heq as [R [S T]]. split; [|split].
      - intros a Ha. apply R. auto.
      - intros a b Ha Hb. apply S; auto.
      - intros a b c Ha Hb Hc. apply T; auto. }
    pose proof (partition _ _ _ atol_nonneg _ _ _ _ H) as P. pose proof (partition _ _ _ atol_nonneg _ _ _ _ H') as P'.
    pose proof (groups_disjoint _ _ _ _ H Hnd) as D. pose proof (groups_disjoint _ _ _ _ H' Hnd') as D'.
    assert (Hfind : forall (ll : list (rd F)) gg ww, parse_and_group warn ll = Ok (gg, ww) ->
              forall f m, In (f, m) (imgs ll) -> exists g0, In g0 gg /\ In f (snd g0)).
    { intros ll gg ww Hll f m Hfm. pose proof (partition _ _ _ atol_nonneg _ _ _ _ Hll) as Pl.
      assert (Hf : In f (concat (map snd gg))).
      { eapply Permutation_in; [symmetry; exact Pl|]. apply in_map_iff. exists (f, m). split; [reflexivity | exact Hfm]. }
      apply in_concat in Hf. destruct Hf as [ms [Hms Hf]]. apply in_map_iff in Hms. destruct Hms as [g0 [<- Hg0]].
      exists g0. split; assumption. }
    assert (Hmeta : forall (ll : list (rd F)) gg ww, parse_and_group warn ll = Ok (gg, ww) ->
              forall g0 f, In g0 gg -> In f (snd g0) -> exists m, In (f, m) (imgs ll)).
    { intros ll gg ww Hll g0 f Hg0 Hf. pose proof (partition _ _ _ atol_nonneg _ _ _ _ Hll) as Pl.
      apply in_fst_pair. eapply Permutation_in; [exact Pl|]. apply in_concat. exists (snd g0). split; [|exact Hf].
      apply in_map. exact Hg0. }
    destruct (key_is_member_value _ _ _ atol_nonneg _ _ _ _ _ H Hg) as [f0 [m0 [Hf0 [Hf0g _]]]].
    assert (Hf0' : In (f0, m0) (imgs l')) by (eapply Permutation_in; [exact Hip | exact Hf0]).
    destruct (Hfind _ _ _ H' _ _ Hf0') as [g' [Hg' Hf0g']].
    exists g'. split; [exact Hg'|]. intros f. split.
    - intros Hf. destruct (Hmeta _ _ _ H _ _ Hg Hf) as [m Hm].
      assert (R : SG m0 m = Ok true).
      { apply (classes _ _ _ _ H Hnd Heq _ _ _ _ Hf0 Hm). exists g. auto. }
      assert (Hm' : In (f, m) (imgs l')) by (eapply Permutation_in; [exact Hip | exact Hm]).
      apply (classes _ _ _ _ H' Hnd' Heq' _ _ _ _ Hf0' Hm') in R. destruct R as [g'' [Hg'' [Ha Hb]]].
      assert (E : snd g'' = snd g').
      { eapply NoDup_concat_unique; [exact D' | apply in_map; exact Hg'' | apply in_map; exact Hg' | exact Ha | exact Hf0g']. }
      rewrite <- E. exact Hb.
    - intros Hf. destruct (Hmeta _ _ _ H' _ _ Hg' Hf) as [m Hm'].
      assert (R : SG m0 m = Ok true).
      { apply (classes _ _ _ _ H' Hnd' Heq' _ _ _ _ Hf0' Hm'). exists g'. auto. }
      assert (Hm : In (f, m) (imgs l)) by (eapply Permutation_in; [symmetry; exact Hip | exact Hm']).
      apply (classes _ _ _ _ H Hnd Heq _ _ _ _ Hf0 Hm) in R. destruct R as [g'' [Hg'' [Ha Hb]]].
      assert (E : snd g'' = snd g).
      { eapply NoDup_concat_unique; [exact D | apply in_map; exact Hg'' | apply in_map; exact Hg | exact Ha | exact Hf0g]. }
      rewrite <- E. exact Hb.
  Qed.

  (** the set of member sets (and the number of warnings) does not depend on the order of the paths *)
  Theorem permutation_invariant warn (l l' : list (rd F)) gs w gs' w' :
    Permutation l l' ->
    parse_and_group warn l = Ok (gs, w) -> parse_and_group warn l' = Ok (gs', w') ->
    NoDup (map fst (imgs l)) -> close_equiv group_by close_tests atol (map snd (imgs l)) ->
    same_member_sets gs gs' /\ w = w'.
  Proof.
    intros Hp H H' Hnd Heq. split; [split|].
    - eapply perm_half; eassumption.
    - pose proof (imgs_perm _ _ Hp) as Hip.
      assert (Hnd' : NoDup (map fst (imgs l'))) by (eapply Permutation_NoDup; [apply Permutation_map; exact Hip | exact Hnd]).
      assert (Heq' : close_equiv group_by close_tests atol (map snd (imgs l'))).
      { assert (Hm : forall a, In a (map snd (imgs l')) -> In a (map snd (imgs l))).
        { intros a. apply Permutation_in. apply Permutation_map. symmetry. exact Hip. }
        destruct Heq as [R [S T]]. split; [|split].
        - intros a Ha. apply R. auto.
        - intros a b Ha Hb. apply S; auto.
        - intros a b c Ha Hb Hc. apply T; auto. }
      intros g' Hg'. symmetry in Hp.
      destruct (perm_half _ _ _ _ _ _ _ Hp H' H Hnd' Heq' g' Hg') as [g [Hg Hiff]].
      exists g. split; [exact Hg|]. intros f. symmetry. apply Hiff.
    - rewrite (warnings_count _ _ _ atol_nonneg _ _ _ _ H), (warnings_count _ _ _ atol_nonneg _ _ _ _ H').
      apply n_skipped_perm. exact Hp.
  Qed.

End Classes.

(** a decidable form of [close_equiv] (for concrete lists) *)
Section Decide.
  Variables (group_by close_tests : list str) (atol : Q).
  Local Notation SG := (same_group group_by close_tests atol).

  Definition res_true (r : res bool) : bool := match r with Ok true => true | _ => false end.

  Lemma res_true_iff r : res_true r = true <-> r = Ok true.
  Proof. destruct r as [[|]|e]; cbn; split; congruence. Qed.

  Definition close_equivb (ms : list meta) : bool :=
    forallb (fun a => res_true (SG a a)) ms &&
    forallb (fun a => forallb (fun b => implb (res_true (SG a b)) (res_true (SG b a))) ms) ms &&
    forallb (fun a => forallb (fun b => forallb (fun c =>
       implb (res_true (SG a b) && res_true (SG b c)) (res_true (SG a c))) ms) ms) ms.

  Lemma close_equivb_sound ms : close_equivb ms = true -> close_equiv group_by close_tests atol ms.
  Proof.
    unfold close_equivb. rewrite !andb_true_iff, !forallb_forall. intros [[R S] T]. split; [|split].
    - intros a Ha. apply res_true_iff. apply R; exact Ha.
    - intros a b Ha Hb Hab. specialize (S a Ha). rewrite forallb_forall in S. specialize (S b Hb).
      apply res_true_iff in Hab. rewrite Hab in S. cbn [implb] in S. apply res_true_iff. exact S.
    - intros a b c Ha Hb Hc Hab Hbc. specialize (T a Ha). rewrite forallb_forall in T. specialize (T b Hb).
      rewrite forallb_forall in T. specialize (T c Hc).
      apply res_true_iff in Hab. apply res_true_iff in Hbc. rewrite Hab, Hbc in T. cbn [implb andb] in T.
      apply res_true_iff. exact T.
  Qed.
End Decide.
