(** C18, basic lemmas: Python equality on keys is an equivalence, equal keys are never "not close",
    list lemmas (ForallOrdPairs, Permutation of concat), specifications of add_sub / add_result,
    key split / merge, unpack = flat when the full keys are distinct, the sort is a permutation. *)
From Coq Require Import List Bool ZArith NArith QArith Qabs Lia Permutation.
From DV Require Import Common.Res Common.Str Generated.T_group Group.Model.
Import ListNotations.

(* ------------------------------------------------------------------ equality relations *)

Lemma Qc_eq_bool_refl x : Qcanon.Qc_eq_bool x x = true.
Proof. unfold Qcanon.Qc_eq_bool. destruct (Qcanon.Qc_eq_dec x x); [reflexivity | congruence]. Qed.

Lemma Qc_eq_bool_eq x y : Qcanon.Qc_eq_bool x y = true <-> x = y.
Proof. split; [apply Qcanon.Qc_eq_bool_correct | intros ->; apply Qc_eq_bool_refl]. Qed.

(** Python == on tuples of floats is Leibniz equality of the canonical values *)
Lemma qlist_eqb_eq a : forall b, qlist_eqb a b = true <-> a = b.
Proof.
  induction a as [|x xs IH]; intros [|y ys]; cbn [qlist_eqb]; try (split; [discriminate | congruence]); [split; reflexivity|].
  rewrite andb_true_iff, Qc_eq_bool_eq, IH. split; [intros [-> ->]; reflexivity | intros H; injection H; auto].
Qed.

Lemma qlist_eqb_refl l : qlist_eqb l l = true.
Proof. apply qlist_eqb_eq. reflexivity. Qed.

Lemma qlist_eqb_sym a b : qlist_eqb a b = true -> qlist_eqb b a = true.
Proof. rewrite !qlist_eqb_eq. congruence. Qed.

Lemma qlist_eqb_trans a b c : qlist_eqb a b = true -> qlist_eqb b c = true -> qlist_eqb a c = true.
Proof. rewrite !qlist_eqb_eq. congruence. Qed.

Lemma gval_eqb_eq a b : gval_eqb a b = true <-> a = b.
Proof.
  destruct a, b; cbn [gval_eqb]; try (split; [discriminate | congruence]); [split; reflexivity | | |].
  - rewrite Z.eqb_eq. split; congruence.
  - rewrite str_eqb_eq. split; congruence.
  - rewrite qlist_eqb_eq. split; congruence.
Qed.

Lemma gval_eqb_refl a : gval_eqb a a = true.
Proof.
  destruct a; cbn [gval_eqb]; [reflexivity | apply Z.eqb_refl | apply str_eqb_refl | apply qlist_eqb_refl].
Qed.

Lemma gval_eqb_sym a b : gval_eqb a b = true -> gval_eqb b a = true.
Proof.
  destruct a, b; cbn [gval_eqb]; try discriminate; try reflexivity.
  - rewrite !Z.eqb_eq. congruence.
  - rewrite !str_eqb_eq. congruence.
  - apply qlist_eqb_sym.
Qed.

Lemma gval_eqb_trans a b c : gval_eqb a b = true -> gval_eqb b c = true -> gval_eqb a c = true.
Proof.
  destruct a, b, c; cbn [gval_eqb]; try discriminate; try reflexivity.
  - rewrite !Z.eqb_eq. congruence.
  - rewrite !str_eqb_eq. congruence.
  - apply qlist_eqb_trans.
Qed.

Lemma key_eqb_refl a : key_eqb a a = true.
Proof. induction a as [|x xs IH]; cbn [key_eqb]; [reflexivity|]. rewrite gval_eqb_refl, IH. reflexivity. Qed.

Lemma key_eqb_eq a : forall b, key_eqb a b = true <-> a = b.
Proof.
  induction a as [|x xs IH]; intros [|y ys]; cbn [key_eqb]; try (split; [discriminate | congruence]); [split; reflexivity|].
  rewrite andb_true_iff, gval_eqb_eq, IH. split; [intros [-> ->]; reflexivity | intros H; injection H; auto].
Qed.

Lemma key_eqb_sym a : forall b, key_eqb a b = true -> key_eqb b a = true.
Proof.
  induction a as [|x xs IH]; intros [|y ys]; cbn [key_eqb]; try discriminate; [reflexivity|].
  rewrite !andb_true_iff. intros [H1 H2]. split; [apply gval_eqb_sym; exact H1 | apply IH; exact H2].
Qed.

Lemma key_eqb_trans a : forall b c, key_eqb a b = true -> key_eqb b c = true -> key_eqb a c = true.
Proof.
  induction a as [|x xs IH]; intros [|y ys] [|z zs]; cbn [key_eqb]; try discriminate; [reflexivity|].
  rewrite !andb_true_iff. intros [H1 H2] [H3 H4].
  split; [eapply gval_eqb_trans; eassumption | eapply IH; eassumption].
Qed.

Lemma key_eqb_sym_false a b : key_eqb a b = false -> key_eqb b a = false.
Proof.
  intros H. destruct (key_eqb b a) eqn:E; [|reflexivity].
  apply key_eqb_sym in E. congruence.
Qed.

(** eqb-equal on the left / right does not change a comparison *)
Lemma key_eqb_congr_l a a' b : key_eqb a a' = true -> key_eqb a b = key_eqb a' b.
Proof.
  intros H. destruct (key_eqb a b) eqn:E1, (key_eqb a' b) eqn:E2; try reflexivity.
  - apply key_eqb_sym in H. rewrite (key_eqb_trans _ _ _ H E1) in E2. discriminate.
  - rewrite (key_eqb_trans _ _ _ H E2) in E1. discriminate.
Qed.

Lemma key_eqb_map (f1 f2 : str -> gval) l :
  key_eqb (map f1 l) (map f2 l) = true <-> (forall g, In g l -> gval_eqb (f1 g) (f2 g) = true).
Proof.
  induction l as [|x xs IH]; cbn [map key_eqb].
  - split; [intros _ g [] | reflexivity].
  - rewrite andb_true_iff, IH. split.
    + intros [H1 H2] g [<-|Hg]; [exact H1 | apply H2; exact Hg].
    + intros H. split; [apply H; left; reflexivity | intros g Hg; apply H; right; exact Hg].
Qed.

(* ------------------------------------------------------------------ equal keys are never "not close" *)

Section Close.
  Variable atol : Q.
  Hypothesis atol_nonneg : 0 <= atol.

  Lemma close_q_eq a b : a == b -> close_q atol a b = true.
  Proof.
    intros H. unfold close_q. apply Qle_bool_iff.
    assert (E : Qabs (a - b) == 0).
    { assert (E0 : a - b == 0) by (rewrite H; ring). rewrite E0. reflexivity. }
    rewrite E.
    assert (H1 : 0 <= np_rtol * Qabs b).
    { apply Qmult_le_0_compat; [unfold np_rtol; discriminate | apply Qabs_nonneg]. }
    replace 0 with (0 + 0) by reflexivity.
    apply Qplus_le_compat; assumption.
  Qed.

  Lemma forallb_close_eq (x : list Q) :
    forallb (fun p => close_q atol (fst p) (snd p)) (combine x x) = true.
  Proof.
    induction x as [|a xs IH]; cbn [combine forallb]; [reflexivity|].
    rewrite IH, andb_true_r. cbn [fst snd]. apply close_q_eq. reflexivity.
  Qed.

  Lemma allclose_eq a b : gval_eqb a b = true -> allclose atol a b <> Ok false.
  Proof.
    destruct a, b; cbn [gval_eqb]; try discriminate; intros H; unfold allclose; cbn [numeric]; try discriminate.
    - apply Z.eqb_eq in H. subst z0. unfold broadcast. cbn [length Nat.eqb combine bind forallb fst snd].
      rewrite close_q_eq by reflexivity. discriminate.
    - apply qlist_eqb_eq in H. subst l0. unfold broadcast. rewrite Nat.eqb_refl. cbn [bind].
      rewrite forallb_close_eq. discriminate.
  Qed.

  Lemma close_elem_eq a b : gval_eqb a b = true -> close_elem atol a b <> Ok false.
  Proof.
    intros H. unfold close_elem. destruct a, b; try discriminate; try (apply allclose_eq; exact H).
  Qed.

  Lemma match_close_eq a : forall b, key_eqb a b = true -> match_close atol a b <> Ok false.
  Proof.
    induction a as [|c cs IH]; intros [|n ns]; cbn [key_eqb match_close]; try discriminate.
    rewrite andb_true_iff. intros [H1 H2].
    pose proof (close_elem_eq _ _ H1) as Hc.
    destruct (close_elem atol c n) as [[|]|e]; cbn [bind]; [apply IH; exact H2 | congruence | discriminate].
  Qed.

  Lemma match_close_false_neq a b : match_close atol a b = Ok false -> key_eqb a b = false.
  Proof.
    intros H. destruct (key_eqb a b) eqn:E; [|reflexivity].
    exfalso. exact (match_close_eq _ _ E H).
  Qed.
End Close.

(* ------------------------------------------------------------------ list lemmas *)

Lemma FOP_app {A} (R : A -> A -> Prop) l1 l2 :
  ForallOrdPairs R (l1 ++ l2) <->
  ForallOrdPairs R l1 /\ ForallOrdPairs R l2 /\ (forall a b, In a l1 -> In b l2 -> R a b).
Proof.
  induction l1 as [|x xs IH]; cbn [app].
  - split.
    + intros H. split; [constructor | split; [exact H | intros a b []]].
    + intros [_ [H _]]. exact H.
  - split.
    + intros H. inversion H as [|? ? Hx Hr]; subst.
      apply IH in Hr. destruct Hr as [H1 [H2 H3]].
      apply Forall_app in Hx. destruct Hx as [Hx1 Hx2].
      split; [constructor; assumption | split; [exact H2|]].
      intros a b [<-|Ha] Hb; [rewrite Forall_forall in Hx2; apply Hx2; exact Hb | apply H3; assumption].
    + intros [H1 [H2 H3]]. inversion H1 as [|? ? Hx Hr]; subst.
      constructor.
      * apply Forall_app. split; [exact Hx|]. apply Forall_forall. intros b Hb. apply H3; [left; reflexivity | exact Hb].
      * apply IH. split; [exact Hr | split; [exact H2|]]. intros a b Ha Hb. apply H3; [right; exact Ha | exact Hb].
Qed.

Lemma FOP_snoc {A} (R : A -> A -> Prop) l x :
  ForallOrdPairs R (l ++ [x]) <-> ForallOrdPairs R l /\ (forall a, In a l -> R a x).
Proof.
  rewrite FOP_app. split.
  - intros [H1 [_ H3]]. split; [exact H1 | intros a Ha; apply H3; [exact Ha | left; reflexivity]].
  - intros [H1 H2]. split; [exact H1 | split; [repeat constructor|]].
    intros a b Ha [<-|[]]. apply H2; exact Ha.
Qed.

Lemma FOP_replace {A} (R : A -> A -> Prop) pre x x' post :
  (forall y, R x y -> R x' y) -> (forall y, R y x -> R y x') ->
  ForallOrdPairs R (pre ++ x :: post) -> ForallOrdPairs R (pre ++ x' :: post).
Proof.
  intros Hl Hr. rewrite !FOP_app. intros [H1 [H2 H3]].
  split; [exact H1|]. split.
  - inversion H2 as [|? ? Hx Hp]; subst. constructor; [|exact Hp].
    eapply Forall_impl; [|exact Hx]. intros y Hy; apply Hl; exact Hy.
  - intros a b Ha [<-|Hb].
    + apply Hr. apply H3; [exact Ha | left; reflexivity].
    + apply H3; [exact Ha | right; exact Hb].
Qed.

Lemma FOP_map {A B} (g : A -> B) (R : B -> B -> Prop) l :
  ForallOrdPairs R (map g l) <-> ForallOrdPairs (fun a b => R (g a) (g b)) l.
Proof.
  induction l as [|x xs IH]; cbn [map].
  - split; intros _; constructor.
  - split; intros H; inversion H as [|? ? Hx Hr]; subst; constructor.
    + rewrite Forall_map in Hx. exact Hx.
    + apply IH; exact Hr.
    + rewrite Forall_map. exact Hx.
    + apply IH; exact Hr.
Qed.

Lemma Permutation_concat {A} (l l' : list (list A)) :
  Permutation l l' -> Permutation (concat l) (concat l').
Proof.
  induction 1; cbn [concat].
  - constructor.
  - apply Permutation_app_head; assumption.
  - rewrite !app_assoc. apply Permutation_app_tail. apply Permutation_app_comm.
  - etransitivity; eassumption.
Qed.

Lemma NoDup_fst_functional {A B} (l : list (A * B)) a b b' :
  NoDup (map fst l) -> In (a, b) l -> In (a, b') l -> b = b'.
Proof.
  induction l as [|[x y] r IH]; cbn [map fst]; intros Hnd H1 H2; [destruct H1|].
  inversion Hnd as [|? ? Hx Hr]; subst.
  destruct H1 as [E1|H1], H2 as [E2|H2].
  - congruence.
  - exfalso. apply Hx. injection E1 as -> ->. apply (in_map fst) in H2. exact H2.
  - exfalso. apply Hx. injection E2 as -> ->. apply (in_map fst) in H1. exact H1.
  - apply IH; assumption.
Qed.

Lemma NoDup_concat_unique {A} (L : list (list A)) a b x :
  NoDup (concat L) -> In a L -> In b L -> In x a -> In x b -> a = b.
Proof.
  induction L as [|c r IH]; cbn [concat]; intros Hnd Ha Hb Hxa Hxb; [destruct Ha|].
  assert (Hr : NoDup (concat r)).
  { clear -Hnd. induction c as [|z zs IHc]; [exact Hnd|]. cbn [app] in Hnd. inversion Hnd; subst. apply IHc; assumption. }
  assert (Hdis : forall y l, In l r -> In y c -> In y l -> False).
  { intros y l Hl Hyc Hyl. revert Hnd. clear -Hl Hyc Hyl.
    induction c as [|z zs IHc]; [destruct Hyc|]. cbn [app]. intros Hnd.
    inversion Hnd as [|? ? Hz Hzs]; subst.
    destruct Hyc as [<-|Hyc]; [|apply IHc; assumption].
    apply Hz. apply in_or_app. right. apply in_concat. exists l. split; assumption. }
  destruct Ha as [<-|Ha], Hb as [<-|Hb].
  - reflexivity.
  - exfalso. eapply Hdis; eassumption.
  - exfalso. eapply Hdis; eassumption.
  - apply IH; assumption.
Qed.

(* ------------------------------------------------------------------ key split / merge *)

Section Keys.
  Variables (group_by close_tests : list str).

  Lemma merge_split (m1 m2 : meta) :
    merge_key group_by close_tests (ekey group_by close_tests m1) (ckey group_by close_tests m2)
    = map (fun g => if mem_str g close_tests then m2 g else m1 g) group_by.
  Proof.
    unfold ekey, ckey, exact_keys, close_keys.
    induction group_by as [|g gs IH]; cbn [merge_key filter map]; [reflexivity|].
    destruct (mem_str g close_tests) eqn:E; cbn [negb map]; rewrite IH; reflexivity.
  Qed.

  (** the full key of a representative is its tuple of group-by values *)
  Lemma merge_split_same (m : meta) :
    merge_key group_by close_tests (ekey group_by close_tests m) (ckey group_by close_tests m) = map m group_by.
  Proof.
    rewrite merge_split. apply map_ext. intros g. destruct (mem_str g close_tests); reflexivity.
  Qed.

  Lemma merge_eqb_inv (a a' b b' : meta) :
    key_eqb (merge_key group_by close_tests (ekey group_by close_tests a) (ckey group_by close_tests b))
            (merge_key group_by close_tests (ekey group_by close_tests a') (ckey group_by close_tests b')) = true ->
    key_eqb (ekey group_by close_tests a) (ekey group_by close_tests a') = true /\
    key_eqb (ckey group_by close_tests b) (ckey group_by close_tests b') = true.
  Proof.
    rewrite !merge_split, key_eqb_map. intros H.
    unfold ekey, ckey, exact_keys, close_keys. rewrite !key_eqb_map. split; intros g Hg.
    - apply filter_In in Hg. destruct Hg as [Hg Hm]. specialize (H g Hg).
      destruct (mem_str g close_tests); [discriminate | exact H].
    - apply filter_In in Hg. destruct Hg as [Hg Hm]. specialize (H g Hg).
      rewrite Hm in H. exact H.
  Qed.

  Lemma merge_eqb_intro (a a' b b' : meta) :
    key_eqb (ekey group_by close_tests a) (ekey group_by close_tests a') = true ->
    key_eqb (ckey group_by close_tests b) (ckey group_by close_tests b') = true ->
    key_eqb (merge_key group_by close_tests (ekey group_by close_tests a) (ckey group_by close_tests b))
            (merge_key group_by close_tests (ekey group_by close_tests a') (ckey group_by close_tests b')) = true.
  Proof.
    rewrite !merge_split. unfold ekey, ckey, exact_keys, close_keys. rewrite !key_eqb_map. intros H1 H2 g Hg.
    destruct (mem_str g close_tests) eqn:E.
    - apply H2. apply filter_In. split; assumption.
    - apply H1. apply filter_In. split; [assumption | rewrite E; reflexivity].
  Qed.
End Keys.

(* ------------------------------------------------------------------ add_sub / add_result *)

Section Add.
  Context {F : Type}.
  Variables (atol : Q).

  Lemma add_sub_spec cl (f : F) subs subs' :
    add_sub atol cl f subs = Ok subs' ->
    (exists pre c ms post, subs = pre ++ (c, ms) :: post /\ subs' = pre ++ (c, ms ++ [f]) :: post /\
                           match_close atol c cl = Ok true /\
                           Forall (fun s => match_close atol (fst s) cl = Ok false) pre) \/
    (subs' = subs ++ [(cl, [f])] /\ Forall (fun s => match_close atol (fst s) cl = Ok false) subs).
  Proof.
    revert subs'. induction subs as [|[c ms] rest IH]; intros subs'; cbn [add_sub].
    - intros H. injection H as <-. right. split; [reflexivity | constructor].
    - destruct (match_close atol c cl) as [[|]|e] eqn:E; cbn [bind]; try discriminate.
      + intros H. injection H as <-. left. exists [], c, ms, rest. repeat split; try reflexivity; [exact E | constructor].
      + destruct (add_sub atol cl f rest) as [rest'|e] eqn:Er; cbn [bind]; try discriminate.
        intros H. injection H as <-.
        destruct (IH _ eq_refl) as [[pre [c' [ms' [post [H1 [H2 [H3 H4]]]]]]]|[H1 H2]].
        * left. exists ((c, ms) :: pre), c', ms', post. subst. repeat split; try reflexivity; [exact H3|].
          constructor; [exact E | exact H4].
        * right. subst. split; [reflexivity | constructor; [exact E | exact H2]].
  Qed.

  Lemma add_result_spec key cl (f : F) rs rs' :
    add_result atol key cl f rs = Ok rs' ->
    (exists pre k subs subs' post, rs = pre ++ (k, subs) :: post /\ rs' = pre ++ (k, subs') :: post /\
                                   key_eqb key k = true /\ add_sub atol cl f subs = Ok subs' /\
                                   Forall (fun e => key_eqb key (fst e) = false) pre) \/
    (rs' = rs ++ [(key, [(cl, [f])])] /\ Forall (fun e => key_eqb key (fst e) = false) rs).
  Proof.
    revert rs'. induction rs as [|[k subs] rest IH]; intros rs'; cbn [add_result].
    - intros H. injection H as <-. right. split; [reflexivity | constructor].
    - destruct (key_eqb key k) eqn:E.
      + destruct (add_sub atol cl f subs) as [subs'|e] eqn:Es; cbn [bind]; try discriminate.
        intros H. injection H as <-. left. exists [], k, subs, subs', rest.
        repeat split; try reflexivity; [exact E | exact Es | constructor].
      + destruct (add_result atol key cl f rest) as [rest'|e] eqn:Er; cbn [bind]; try discriminate.
        intros H. injection H as <-.
        destruct (IH _ eq_refl) as [[pre [k' [s [s' [post [H1 [H2 [H3 [H4 H5]]]]]]]]]|[H1 H2]].
        * left. exists ((k, subs) :: pre), k', s, s', post. subst. repeat split; try reflexivity; try assumption.
          constructor; [exact E | exact H5].
        * right. subst. split; [reflexivity | constructor; [exact E | exact H2]].
  Qed.

  (** members *)
  Definition smembers (subs : list (subres F)) : list F := concat (map snd subs).
  Definition rmembers (rs : list (entry F)) : list F := concat (map (fun e => smembers (snd e)) rs).

  Lemma smembers_app a b : smembers (a ++ b) = smembers a ++ smembers b.
  Proof. unfold smembers. rewrite map_app, concat_app. reflexivity. Qed.
  Lemma rmembers_app a b : rmembers (a ++ b) = rmembers a ++ rmembers b.
  Proof. unfold rmembers. rewrite map_app, concat_app. reflexivity. Qed.

  Lemma smembers_cons c (ms : list F) r : smembers ((c, ms) :: r) = ms ++ smembers r.
  Proof. reflexivity. Qed.
  Lemma rmembers_cons k (s : list (subres F)) r : rmembers ((k, s) :: r) = smembers s ++ rmembers r.
  Proof. reflexivity. Qed.

  Lemma add_sub_members cl (f : F) subs subs' :
    add_sub atol cl f subs = Ok subs' -> Permutation (smembers subs') (smembers subs ++ [f]).
  Proof.
    intros H. apply add_sub_spec in H. destruct H as [[pre [c [ms [post [-> [-> _]]]]]]|[-> _]].
    - rewrite !smembers_app, !smembers_cons. rewrite <- !app_assoc.
      apply Permutation_app_head. apply Permutation_app_head. apply Permutation_app_comm.
    - rewrite smembers_app, smembers_cons. change (smembers []) with (@nil F). rewrite app_nil_r. reflexivity.
  Qed.

  Lemma add_result_members key cl (f : F) rs rs' :
    add_result atol key cl f rs = Ok rs' -> Permutation (rmembers rs') (rmembers rs ++ [f]).
  Proof.
    intros H. apply add_result_spec in H.
    destruct H as [[pre [k [s [s' [post [-> [-> [_ [Hs _]]]]]]]]]|[-> _]].
    - apply add_sub_members in Hs. rewrite !rmembers_app, !rmembers_cons. rewrite <- !app_assoc.
      apply Permutation_app_head.
      etransitivity; [apply Permutation_app_tail; exact Hs|].
      rewrite <- !app_assoc. apply Permutation_app_head. apply Permutation_app_comm.
    - rewrite rmembers_app, rmembers_cons, smembers_cons.
      change (smembers []) with (@nil F). change (rmembers []) with (@nil F). rewrite !app_nil_r. reflexivity.
  Qed.
End Add.

(* ------------------------------------------------------------------ unpack, sort *)

Section Unpack.
  Context {F : Type}.
  Variables (group_by close_tests : list str).

  Definition key_fresh (earlier later : group F) : Prop := key_eqb (fst later) (fst earlier) = false.

  Lemma dict_set_fresh k (v : list F) d :
    Forall (fun g => key_eqb k (fst g) = false) d -> dict_set k v d = d ++ [(k, v)].
  Proof.
    induction d as [|[k' v'] r IH]; intros H; cbn [dict_set app]; [reflexivity|].
    inversion H as [|? ? H1 H2]; subst. cbn [fst] in H1. rewrite H1, IH by exact H2. reflexivity.
  Qed.

  Lemma fold_dict_set_distinct (l : list (group F)) : forall acc,
    ForallOrdPairs key_fresh (acc ++ l) ->
    fold_left (fun d kv => dict_set (fst kv) (snd kv) d) l acc = acc ++ l.
  Proof.
    induction l as [|[k v] l' IH]; intros acc H; cbn [fold_left]; [rewrite app_nil_r; reflexivity|].
    cbn [fst snd]. rewrite dict_set_fresh.
    - rewrite IH; rewrite <- app_assoc; [reflexivity | exact H].
    - apply FOP_app in H. destruct H as [_ [_ H]]. apply Forall_forall. intros g Hg.
      apply (H g (k, v) Hg). left; reflexivity.
  Qed.

  Lemma unpack_distinct (rs : list (entry F)) :
    ForallOrdPairs key_fresh (flat group_by close_tests rs) ->
    unpack group_by close_tests rs = flat group_by close_tests rs.
  Proof. intros H. unfold unpack. rewrite fold_dict_set_distinct; [reflexivity | exact H]. Qed.

  Lemma flat_members (rs : list (entry F)) :
    concat (map snd (flat group_by close_tests rs)) = rmembers rs.
  Proof.
    unfold flat, rmembers, smembers. induction rs as [|e r IH]; cbn [flat_map map concat]; [reflexivity|].
    rewrite map_app, concat_app, IH. f_equal. rewrite map_map. reflexivity.
  Qed.

  Lemma flat_app (a b : list (entry F)) :
    flat group_by close_tests (a ++ b) = flat group_by close_tests a ++ flat group_by close_tests b.
  Proof. unfold flat. apply flat_map_app. Qed.

  Lemma in_flat (rs : list (entry F)) g :
    In g (flat group_by close_tests rs) <->
    exists e s, In e rs /\ In s (snd e) /\ g = (merge_key group_by close_tests (fst e) (fst s), snd s).
  Proof.
    unfold flat. rewrite in_flat_map. split.
    - intros [e [He Hg]]. apply in_map_iff in Hg. destruct Hg as [s [<- Hs]]. exists e, s. auto.
    - intros [e [s [He [Hs ->]]]]. exists e. split; [exact He|]. apply in_map_iff. exists s. auto.
  Qed.

  Lemma insert_sorted_perm (x : group F) l : Permutation (insert_sorted x l) (x :: l).
  Proof.
    induction l as [|y ys IH]; cbn [insert_sorted]; [reflexivity|].
    destruct (group_ltb x y); [reflexivity|].
    etransitivity; [apply perm_skip; exact IH | apply perm_swap].
  Qed.

  Lemma isort_perm (l : list (group F)) : Permutation (isort l) l.
  Proof.
    induction l as [|x xs IH]; cbn [isort fold_right]; [reflexivity|].
    etransitivity; [apply insert_sorted_perm | apply perm_skip; exact IH].
  Qed.

  Lemma sort_groups_perm (l gs : list (group F)) : sort_groups l = Ok gs -> Permutation gs l.
  Proof.
    unfold sort_groups. destruct (all_pairs lt_ok l); [|discriminate].
    intros H. injection H as <-. apply isort_perm.
  Qed.
End Unpack.
