(** C18: the abstract [add] instantiated with the Stack model's add_dcm (coq/Stack/Model.v).
    Transactionality is C11's lemma (Stack/ProofsC11.v: a refused add leaves the state as it was). *)
From Coq Require Import List Bool ZArith NArith QArith Arith Permutation.
From Coq Require Qcanon.
From DV Require Import Common.Res Common.Str Generated.T_group Group.Model Group.Spec
  Group.ProofsSkip Group.ProofsIsolation Group.ProofsKeys Group.Examples.
From DV Require Stack.Model Stack.ProofsC11.
Import ListNotations.

(** result.add_dcm(dcm, meta) as the Stack model performs it: the state after the call and the exception *)
Definition real_add (st : Stack.Model.state) (f : Stack.Model.file) : Stack.Model.state * option err :=
  let '(s, r) := Stack.Model.step st (Stack.Model.OAdd f) in
  (s, match r with Ok _ => None | Err e => Some e end).

Lemma real_add_is_add_dcm st f : real_add st f = add_of_res Stack.Model.add_dcm st f.
Proof.
  unfold real_add, add_of_res. cbn [Stack.Model.step].
  destruct (Stack.Model.add_dcm st f); reflexivity.
Qed.

Lemma real_add_refuses st f e : Stack.Model.add_dcm st f = Err e -> snd (real_add st f) = Some e.
Proof. intros H. rewrite real_add_is_add_dcm. unfold add_of_res. rewrite H. reflexivity. Qed.

Lemma real_add_transactional : transactional real_add.
Proof.
  intros st f e H. unfold real_add in *.
  destruct (Stack.Model.add_dcm st f) as [st'|e'] eqn:E.
  - cbn [Stack.Model.step] in H. rewrite E in H. discriminate.
  - rewrite (Stack.ProofsC11.C11_add_transactional_lemma st f e' E). reflexivity.
Qed.

Theorem stack_real init g1 f g2 st1 w1 e :
  stack_group _ real_add true init g1 = Ok (st1, w1) -> Stack.Model.add_dcm st1 f = Err e ->
  stack_group _ real_add true init (g1 ++ f :: g2) = bump_warn 1 (stack_group _ real_add true init (g1 ++ g2)).
Proof.
  intros H1 H2. eapply stack_skip; [exact real_add_transactional | exact H1 | apply real_add_refuses; exact H2].
Qed.

(** len(stack._files_info) *)
Definition real_n_files (st : Stack.Model.state) : nat := length (Stack.Model.files_info st).

Theorem parse_and_stack_isolation_real (p : Stack.Model.file -> bool) group_by atol time_order vector_order
        (l : list (rd Stack.Model.file)) gs w :
  let init := Stack.Model.init time_order vector_order in
  0 <= atol ->
  parse_and_group group_by default_close_keys atol true l = Ok (gs, w) ->
  heads_closed p gs ->
  (forall g, In g gs -> refused_along p real_add init (snd g)) ->
  exists sts sts' w',
    parse_and_stack _ real_add real_n_files group_by atol true init l = Ok (sts, (length l - length (drop_files p l) + w')%nat) /\
    parse_and_stack _ real_add real_n_files group_by atol true init (drop_files p l) = Ok (sts', w') /\
    Permutation sts sts'.
Proof.
  intros init Hat H Hh Hr. eapply parse_and_stack_isolation; try eassumption; [exact real_add_transactional | reflexivity].
Qed.

Theorem parse_and_stack_isolation_keys_real (p : Stack.Model.file -> bool) group_by atol time_order vector_order
        (l : list (rd Stack.Model.file)) gs w gs2 w2 :
  let init := Stack.Model.init time_order vector_order in
  0 <= atol ->
  parse_and_group group_by default_close_keys atol true l = Ok (gs, w) ->
  parse_and_group group_by default_close_keys atol true (drop_files p l) = Ok (gs2, w2) ->
  NoDup (map fst (imgs l)) ->
  close_equiv group_by default_close_keys atol (map snd (imgs l)) ->
  (forall g, In g gs -> refused_along p real_add init (snd g)) ->
  exists sts sts' w',
    parse_and_stack _ real_add real_n_files group_by atol true init l = Ok (sts, (length l - length (drop_files p l) + w')%nat) /\
    parse_and_stack _ real_add real_n_files group_by atol true init (drop_files p l) = Ok (sts', w') /\
    same_stacks_up_to_keys group_by default_close_keys atol sts sts'.
Proof.
  intros init Hat H H2 Hnd Heq Hr. eapply parse_and_stack_isolation_keys; try eassumption; [exact real_add_transactional | reflexivity].
Qed.

(* ------------------------------------------------------------------ concrete Stack files *)

Definition sfile' (has_pix : bool) (i : nat) (rows : nat) (pos : Q) (t : Q) (tr : Q) (phase : str) : Stack.Model.file :=
  Stack.Model.mkfile i has_pix rows 2 [1; 1] [1; 0; 0; 0; 1; 0] (Qcanon.Q2Qc pos) (Some (Qcanon.Q2Qc t)) None [] (Some (Qcanon.Q2Qc tr)) (Some phase)
                     1 12 false.

Definition sfile := sfile' true.
Definition sA := sfile 0 2 0 1 2000 [82%N].
Definition sB := sfile 1 2 1 1 2000 [82%N].
Definition sC := sfile 8 2 0 1 3000 [67%N].       (* same position and time point as sA, other TR / phase: collides *)
Definition sD := sfile 9 3 5 7 2000 [82%N].       (* other Rows: incongruent *)

Definition sE := sfile' false 7 2 3 1 2000 [82%N].   (* add_dcm refuses it (NonImageDataSetError); alone in its group *)

Definition sinit : Stack.Model.state := Stack.Model.init true false.     (* DicomStack(time_order=...) *)

Definition sm : meta := mk [49%N] 1%Z [97%N] ax.
Definition sm2 : meta := mk [49%N] 1%Z [98%N] ax.

(** one series: sA, the collider, an unreadable file, sB, the incongruent file; a second series whose only
    file is refused *)
Definition real_l : list (rd Stack.Model.file) :=
  [ Data pix sE sm2; Data pix sA sm; Data pix sC sm; Fault ECrash; Data pix sB sm; Data pix sD sm ].

Definition keep_real (f : Stack.Model.file) : bool := Nat.ltb (Stack.Model.f_id f) 7.

Definition ids_of (r : res (list (list gval * Stack.Model.state) * nat)) : res (list (list nat) * nat) :=
  rmap (fun x => (map (fun ks => map (fun e => Stack.Model.f_id (fst e)) (Stack.Model.files_info (snd ks))) (fst x), snd x)) r.
