(** C18, end to end: removing from the path list the image files that add_dcm refuses gives the same
    stacks (as a set of (key, stack) pairs); only the number of warnings differs.  A group may lose all
    its files (it then disappears from both results); a group that keeps a file must keep its first one. *)
From Coq Require Import List Bool ZArith NArith QArith Lia Permutation.
From DV Require Import Common.Res Common.Str Generated.T_group Group.Model Group.Spec Group.ProofsBase
  Group.ProofsGroup Group.ProofsSkip.
Import ListNotations.

(* ------------------------------------------------------------------ list lemmas *)

Lemma filter_compl_length {A} (q : A -> bool) (l : list A) :
  (length (filter q l) + length (filter (fun x => negb (q x)) l) = length l)%nat.
Proof. induction l as [|x xs IH]; cbn [filter length]; [reflexivity|]. destruct (q x); cbn [negb length]; lia. Qed.

Lemma perm_filter_length {A} (q : A -> bool) (a b : list A) :
  Permutation a b -> length (filter q a) = length (filter q b).
Proof.
  induction 1 as [|x l l' _ IH|x y l|l l' l'' _ IH1 _ IH2]; cbn [filter].
  - reflexivity.
  - destruct (q x); cbn [length]; congruence.
  - destruct (q x), (q y); reflexivity.
  - congruence.
Qed.

Lemma perm_filter {A} (q : A -> bool) (a b : list A) :
  Permutation a b -> Permutation (filter q a) (filter q b).
Proof.
  induction 1 as [|x l l' _ IH|x y l|l l' l'' _ IH1 _ IH2]; cbn [filter].
  - constructor.
  - destruct (q x); [constructor|]; exact IH.
  - destruct (q x), (q y); try reflexivity. apply perm_swap.
  - etransitivity; eassumption.
Qed.

Lemma perm_flat_map {A B} (g : A -> list B) (a b : list A) :
  Permutation a b -> Permutation (flat_map g a) (flat_map g b).
Proof. intros H. rewrite !flat_map_concat_map. apply Permutation_concat. apply Permutation_map. exact H. Qed.

Lemma filter_nil_false {A} (q : A -> bool) l x : filter q l = [] -> In x l -> q x = false.
Proof.
  induction l as [|y ys IH]; cbn [filter]; intros H Hin; [destruct Hin|].
  destruct (q y) eqn:E; [discriminate|]. destruct Hin as [<-|Hin]; [exact E | apply IH; assumption].
Qed.

Lemma FOP_filter {A} (R : A -> A -> Prop) (q : A -> bool) l : ForallOrdPairs R l -> ForallOrdPairs R (filter q l).
Proof.
  induction 1 as [|x l Hx _ IH]; cbn [filter]; [constructor|].
  destruct (q x); [|exact IH]. constructor; [|exact IH].
  rewrite Forall_forall in *. intros y Hy. apply filter_In in Hy. apply Hx. exact (proj1 Hy).
Qed.

Lemma FOP_perm {A} (R : A -> A -> Prop) l l' :
  (forall x y, R x y -> R y x) -> Permutation l l' -> ForallOrdPairs R l -> ForallOrdPairs R l'.
Proof.
  intros Hsym Hp. induction Hp as [|x l l' Hp IH|x y l|l l' l'' _ IH1 _ IH2]; intros H.
  - constructor.
  - inversion H as [|? ? Hx Hr]; subst. constructor; [|apply IH; exact Hr].
    eapply Permutation_Forall; eassumption.
  - inversion H as [|? ? Hy Hr]; subst. inversion Hr as [|? ? Hx Hr']; subst.
    inversion Hy as [|? ? Hyx Hyl]; subst.
    constructor; [constructor; [apply Hsym; exact Hyx | exact Hx]|]. constructor; assumption.
  - auto.
Qed.

Lemma list_sum_perm a b : Permutation a b -> list_sum a = list_sum b.
Proof. unfold list_sum. induction 1; cbn [fold_right]; lia. Qed.

(* ------------------------------------------------------------------ grouping without the dropped files *)

Section Iso.
  Context {F : Type}.
  Variables (group_by close_tests : list str) (atol : Q).
  Hypothesis atol_nonneg : 0 <= atol.
  Variable p : F -> bool.

  Local Notation step := (@step F group_by close_tests atol).
  Local Notation run := (@run F group_by close_tests atol).
  Local Notation parse_and_group := (@parse_and_group F group_by close_tests atol).

  Definition ne_list {A} (l : list A) : bool := match l with [] => false | _ => true end.

  Definition fsub (s : subres F) : subres F := (fst s, filter p (snd s)).
  Definition fsubs (subs : list (subres F)) : list (subres F) := filter (fun s => ne_list (snd s)) (map fsub subs).
  Definition fent (e : entry F) : entry F := (fst e, fsubs (snd e)).
  Definition fm (rs : list (entry F)) : list (entry F) := filter (fun e => ne_list (snd e)) (map fent rs).
  Definition fgroup (g : group F) : group F := (fst g, filter p (snd g)).
  Definition fgroups (gs : list (group F)) : list (group F) := filter (fun g => ne_list (snd g)) (map fgroup gs).

  (** forward invariant: no sub result is empty;  backward invariant: a sub result that starts with a
      dropped file consists of dropped files only *)
  Definition NE_subs (subs : list (subres F)) : Prop := Forall (fun s => snd s <> []) subs.
  Definition NE (rs : list (entry F)) : Prop := Forall (fun e => NE_subs (snd e)) rs.
  Definition hc_sub (s : subres F) : Prop :=
    forall f, hd_error (snd s) = Some f -> p f = false -> filter p (snd s) = [].
  Definition HC_subs (subs : list (subres F)) : Prop := Forall hc_sub subs.
  Definition HC (rs : list (entry F)) : Prop := Forall (fun e => HC_subs (snd e)) rs.

  Lemma fsubs_cons c ms rest :
    fsubs ((c, ms) :: rest) = match filter p ms with [] => fsubs rest | _ => (c, filter p ms) :: fsubs rest end.
  Proof. unfold fsubs, fsub. cbn [map fst snd]. cbn [filter]. cbn [fst snd]. destruct (filter p ms); reflexivity. Qed.

  Lemma fsubs_app a b : fsubs (a ++ b) = fsubs a ++ fsubs b.
  Proof. unfold fsubs. rewrite map_app, filter_app. reflexivity. Qed.

  Lemma fm_app a b : fm (a ++ b) = fm a ++ fm b.
  Proof. unfold fm. rewrite map_app, filter_app. reflexivity. Qed.

  Lemma fm_cons k subs rest :
    fm ((k, subs) :: rest) = match fsubs subs with [] => fm rest | _ => (k, fsubs subs) :: fm rest end.
  Proof. unfold fm, fent. cbn [map fst snd]. cbn [filter]. cbn [fst snd]. destruct (fsubs subs); reflexivity. Qed.

  Lemma fsubs_single_keep cl f : p f = true -> fsubs [(cl, [f])] = [(cl, [f])].
  Proof. intros E. rewrite fsubs_cons. cbn [filter]. rewrite E. reflexivity. Qed.
  Lemma fsubs_single_drop cl f : p f = false -> fsubs [(cl, [f])] = [].
  Proof. intros E. rewrite fsubs_cons. cbn [filter]. rewrite E. reflexivity. Qed.

  Lemma Forall_fm (P : list gval -> Prop) rs :
    Forall (fun e => P (fst e)) rs -> Forall (fun e => P (fst e)) (fm rs).
  Proof.
    intros H. apply Forall_forall. intros e He. unfold fm in He. apply filter_In in He. destruct He as [He _].
    apply in_map_iff in He. destruct He as [e0 [<- He0]]. rewrite Forall_forall in H. apply (H e0 He0).
  Qed.

  (* ---- add_sub / add_result on the filtered state: a kept file *)

  Lemma add_sub_nonnil cl (f : F) subs subs' : add_sub atol cl f subs = Ok subs' -> subs' <> [].
  Proof.
    destruct subs as [|[c ms] rest]; cbn [add_sub]; [intros H; injection H as <-; discriminate|].
    destruct (match_close atol c cl) as [[|]|e]; cbn [bind]; try discriminate.
    - intros H; injection H as <-; discriminate.
    - destruct (add_sub atol cl f rest); cbn [bind]; [intros H; injection H as <-|]; discriminate.
  Qed.

  Lemma add_sub_keep cl f subs : p f = true -> forall subs',
    NE_subs subs -> add_sub atol cl f subs = Ok subs' -> HC_subs subs' ->
    add_sub atol cl f (fsubs subs) = Ok (fsubs subs').
  Proof.
    intros Ep. induction subs as [|[c ms] rest IH]; intros subs' Hne Hadd Hhc; cbn [add_sub] in Hadd.
    - injection Hadd as <-. rewrite fsubs_cons. cbn [filter]. rewrite Ep. reflexivity.
    - inversion Hne as [|? ? Hms Hner]; subst. cbn [snd] in Hms.
      rewrite fsubs_cons.
      destruct (match_close atol c cl) as [[|]|e] eqn:Emc; cbn [bind] in Hadd; try discriminate.
      + injection Hadd as <-. inversion Hhc as [|? ? Hh _]; subst.
        rewrite fsubs_cons, filter_app. cbn [filter]. rewrite Ep.
        destruct (filter p ms) as [|y ys] eqn:Ef.
        * exfalso. destruct ms as [|f0 ms']; [congruence|].
          assert (E0 : p f0 = false) by (apply (filter_nil_false p (f0 :: ms')); [exact Ef | left; reflexivity]).
          specialize (Hh f0 eq_refl E0). cbn [snd] in Hh.
          assert (p f = false) by (apply (filter_nil_false p _ f Hh); apply in_or_app; right; left; reflexivity).
          congruence.
        * cbn [app add_sub]. rewrite Emc. cbn [bind]. reflexivity.
      + destruct (add_sub atol cl f rest) as [rest'|e] eqn:Er; cbn [bind] in Hadd; [|discriminate].
        injection Hadd as <-. inversion Hhc as [|? ? _ Hhr]; subst.
        specialize (IH rest' Hner eq_refl Hhr). rewrite fsubs_cons.
        destruct (filter p ms) as [|y ys]; [exact IH|].
        cbn [add_sub]. rewrite Emc. cbn [bind]. rewrite IH. reflexivity.
  Qed.

  Lemma add_result_nomatch key cl (f : F) rs :
    Forall (fun e => key_eqb key (fst e) = false) rs ->
    add_result atol key cl f rs = Ok (rs ++ [(key, [(cl, [f])])]).
  Proof.
    induction rs as [|[k subs] rest IH]; intros H; cbn [add_result app]; [reflexivity|].
    inversion H as [|? ? H1 H2]; subst. cbn [fst] in H1. rewrite H1, (IH H2). reflexivity.
  Qed.

  Lemma add_result_hit key cl (f : F) pre k subs post :
    Forall (fun e => key_eqb key (fst e) = false) pre -> key_eqb key k = true ->
    add_result atol key cl f (pre ++ (k, subs) :: post)
    = bind (add_sub atol cl f subs) (fun subs' => Ok (pre ++ (k, subs') :: post)).
  Proof.
    induction pre as [|[k0 s0] pre IH]; intros H Hk; cbn [add_result app].
    - rewrite Hk. reflexivity.
    - inversion H as [|? ? H1 H2]; subst. cbn [fst] in H1. rewrite H1, (IH H2 Hk).
      destruct (add_sub atol cl f subs); reflexivity.
  Qed.

  Lemma add_result_keep key cl f rs rs' : p f = true ->
    NE rs -> ForallOrdPairs keyR rs -> add_result atol key cl f rs = Ok rs' -> HC rs' ->
    exists X, add_result atol key cl f (fm rs) = Ok X /\ Permutation X (fm rs').
  Proof.
    intros Ep Hne Hk Hadd Hhc. apply add_result_spec in Hadd.
    destruct Hadd as [[pre [k [subs [subs' [post [-> [-> [Hkk [Hs Hpre]]]]]]]]]|[-> Hall]].
    - apply key_eqb_eq in Hkk. subst k.
      apply Forall_app in Hne. destruct Hne as [_ Hne]. inversion Hne as [|? ? Hnes _]; subst. cbn [snd] in Hnes.
      apply Forall_app in Hhc. destruct Hhc as [_ Hhc]. inversion Hhc as [|? ? Hhcs _]; subst. cbn [snd] in Hhcs.
      pose proof (add_sub_keep _ _ _ Ep _ Hnes Hs Hhcs) as Hf.
      pose proof (add_sub_nonnil _ _ _ _ Hf) as Hnn.
      rewrite !fm_app, !fm_cons.
      assert (Hpre' : Forall (fun e => key_eqb key (fst e) = false) (fm pre)) by (apply (Forall_fm (fun k0 => key_eqb key k0 = false)); exact Hpre).
      destruct (fsubs subs') as [|s1 ss1] eqn:E1; [congruence|].
      destruct (fsubs subs) as [|s0 ss0] eqn:E0.
      + (* the entry does not exist without the dropped files: a new one is appended *)
        cbn [add_sub] in Hf. injection Hf as <- <-.
        assert (Hpost' : Forall (fun e => key_eqb key (fst e) = false) (fm post)).
        { apply (Forall_fm (fun k0 => key_eqb key k0 = false)). apply FOP_app in Hk. destruct Hk as [_ [Hk _]].
          inversion Hk as [|? ? Hx _]; subst. eapply Forall_impl; [|exact Hx]. intros e He. unfold keyR in He. cbn [fst] in He.
          apply key_eqb_sym_false. exact He. }
        exists ((fm pre ++ fm post) ++ [(key, [(cl, [f])])]). split.
        * apply add_result_nomatch. apply Forall_app. split; assumption.
        * rewrite <- app_assoc. apply Permutation_app_head. symmetry. apply Permutation_cons_append.
      + exists (fm pre ++ (key, s1 :: ss1) :: fm post). split; [|reflexivity].
        rewrite add_result_hit by (try exact Hpre'; apply key_eqb_refl). rewrite Hf. reflexivity.
    - exists (fm rs ++ [(key, [(cl, [f])])]). split.
      + apply add_result_nomatch. apply (Forall_fm (fun k0 => key_eqb key k0 = false)). exact Hall.
      + rewrite fm_app. apply Permutation_app_head. rewrite fm_cons, (fsubs_single_keep _ _ Ep). reflexivity.
  Qed.

  (* ---- add_result on a permuted state *)

  Lemma keyR_sym (a b : entry F) : keyR a b -> keyR b a.
  Proof. unfold keyR. apply key_eqb_sym_false. Qed.

  Lemma add_result_perm key cl (f : F) a b a' :
    Permutation a b -> ForallOrdPairs keyR a -> add_result atol key cl f a = Ok a' ->
    exists b', add_result atol key cl f b = Ok b' /\ Permutation a' b'.
  Proof.
    intros Hp Hk Hadd. pose proof (FOP_perm _ _ _ keyR_sym Hp Hk) as Hkb.
    apply add_result_spec in Hadd.
    destruct Hadd as [[pre [k [subs [subs' [post [-> [-> [Hkk [Hs _]]]]]]]]]|[-> Hall]].
    - assert (Hin : In (k, subs) b) by (eapply Permutation_in; [exact Hp | apply in_or_app; right; left; reflexivity]).
      apply in_split in Hin. destruct Hin as [pre2 [post2 ->]].
      assert (Hpre2 : Forall (fun e => key_eqb key (fst e) = false) pre2).
      { apply FOP_app in Hkb. destruct Hkb as [_ [_ Hc]]. apply Forall_forall. intros e He.
        specialize (Hc e (k, subs) He (or_introl eq_refl)). unfold keyR in Hc. cbn [fst] in Hc.
        apply key_eqb_eq in Hkk. subst k. exact Hc. }
      exists (pre2 ++ (k, subs') :: post2). split.
      + rewrite add_result_hit by assumption. rewrite Hs. reflexivity.
      + apply Permutation_app_inv in Hp. apply Permutation_elt. exact Hp.
    - exists (b ++ [(key, [(cl, [f])])]). split.
      + apply add_result_nomatch. eapply Permutation_Forall; eassumption.
      + apply Permutation_app_tail. exact Hp.
  Qed.

  (* ---- a dropped file leaves no trace *)

  Lemma add_sub_drop cl f subs subs' : p f = false -> add_sub atol cl f subs = Ok subs' -> fsubs subs' = fsubs subs.
  Proof.
    intros Ep H. apply add_sub_spec in H. destruct H as [[pre [c [ms [post [-> [-> _]]]]]]|[-> _]].
    - rewrite !fsubs_app, !fsubs_cons, filter_app. cbn [filter]. rewrite Ep, app_nil_r. reflexivity.
    - rewrite fsubs_app, (fsubs_single_drop _ _ Ep), app_nil_r. reflexivity.
  Qed.

  Lemma add_result_drop key cl f rs rs' : p f = false -> add_result atol key cl f rs = Ok rs' -> fm rs' = fm rs.
  Proof.
    intros Ep H. apply add_result_spec in H.
    destruct H as [[pre [k [s [s' [post [-> [-> [_ [Hs _]]]]]]]]]|[-> _]].
    - rewrite !fm_app, !fm_cons, (add_sub_drop _ _ _ _ Ep Hs). reflexivity.
    - rewrite fm_app, fm_cons, (fsubs_single_drop _ _ Ep). change (fm []) with (@nil (entry F)). rewrite app_nil_r. reflexivity.
  Qed.

  (* ---- invariants *)

  Lemma add_sub_NE cl (f : F) subs subs' : add_sub atol cl f subs = Ok subs' -> NE_subs subs -> NE_subs subs'.
  Proof.
    intros H Hne. apply add_sub_spec in H. destruct H as [[pre [c [ms [post [-> [-> _]]]]]]|[-> _]].
    - apply Forall_app in Hne. destruct Hne as [H1 H2]. inversion H2; subst.
      apply Forall_app. split; [exact H1|]. constructor; [|assumption]. cbn [snd]. destruct ms; discriminate.
    - apply Forall_app. split; [exact Hne|]. constructor; [cbn; discriminate | constructor].
  Qed.

  Lemma add_result_NE key cl (f : F) rs rs' : add_result atol key cl f rs = Ok rs' -> NE rs -> NE rs'.
  Proof.
    intros H Hne. apply add_result_spec in H.
    destruct H as [[pre [k [s [s' [post [-> [-> [_ [Hs _]]]]]]]]]|[-> _]].
    - apply Forall_app in Hne. destruct Hne as [H1 H2]. inversion H2; subst.
      apply Forall_app. split; [exact H1|]. constructor; [|assumption]. cbn [snd] in *. eapply add_sub_NE; eassumption.
    - apply Forall_app. split; [exact Hne|]. constructor; [|constructor]. cbn [snd]. constructor; [cbn; discriminate | constructor].
  Qed.

  Lemma add_result_keys key cl (f : F) rs rs' :
    add_result atol key cl f rs = Ok rs' -> ForallOrdPairs keyR rs -> ForallOrdPairs keyR rs'.
  Proof.
    intros H Hk. apply add_result_spec in H.
    destruct H as [[pre [k [s [s' [post [-> [-> _]]]]]]]|[-> Hall]].
    - eapply FOP_replace; [| |exact Hk]; intros y Hy; exact Hy.
    - apply FOP_snoc. split; [exact Hk|]. intros a Ha. rewrite Forall_forall in Hall. apply Hall; exact Ha.
  Qed.

  Lemma hc_sub_back c (ms : list F) f : hc_sub (c, ms ++ [f]) -> hc_sub (c, ms).
  Proof.
    unfold hc_sub. cbn [snd]. intros H f0 Hh E0.
    assert (Hh' : hd_error (ms ++ [f]) = Some f0) by (destruct ms; cbn in *; [discriminate | exact Hh]).
    specialize (H f0 Hh' E0). rewrite filter_app in H. apply app_eq_nil in H. exact (proj1 H).
  Qed.

  Lemma add_sub_HC cl (f : F) subs subs' : add_sub atol cl f subs = Ok subs' -> HC_subs subs' -> HC_subs subs.
  Proof.
    intros H Hh. apply add_sub_spec in H. destruct H as [[pre [c [ms [post [-> [-> _]]]]]]|[-> _]].
    - apply Forall_app in Hh. destruct Hh as [H1 H2]. inversion H2; subst.
      apply Forall_app. split; [exact H1|]. constructor; [|assumption]. eapply hc_sub_back; eassumption.
    - apply Forall_app in Hh. exact (proj1 Hh).
  Qed.

  Lemma add_result_HC key cl (f : F) rs rs' : add_result atol key cl f rs = Ok rs' -> HC rs' -> HC rs.
  Proof.
    intros H Hh. apply add_result_spec in H.
    destruct H as [[pre [k [s [s' [post [-> [-> [_ [Hs _]]]]]]]]]|[-> _]].
    - apply Forall_app in Hh. destruct Hh as [H1 H2]. inversion H2; subst.
      apply Forall_app. split; [exact H1|]. constructor; [|assumption]. cbn [snd] in *. eapply add_sub_HC; eassumption.
    - apply Forall_app in Hh. exact (proj1 Hh).
  Qed.

  Lemma step_HC warn st r st' : step warn st r = Ok st' -> HC (fst st') -> HC (fst st).
  Proof.
    destruct r as [e|attrs f m|attrs e]; cbn [Model.step].
    - destruct warn; [|discriminate]. intros H; injection H as <-. auto.
    - destruct (negb (is_image attrs)); [intros H; injection H as <-; auto|].
      destruct (add_result _ _ _ _ _) as [rs'|e] eqn:E; cbn [bind]; [|discriminate].
      intros H; injection H as <-. cbn [fst]. eapply add_result_HC; exact E.
    - destruct (negb (is_image attrs)); [intros H; injection H as <-; auto|].
      destruct warn; [|discriminate]. intros H; injection H as <-. auto.
  Qed.

  Lemma run_HC warn l : forall st st', run warn st l = Ok st' -> HC (fst st') -> HC (fst st).
  Proof.
    induction l as [|r l IH]; intros st st'; cbn [Model.run].
    - intros H; injection H as <-. auto.
    - destruct (step warn st r) as [st1|e] eqn:E; cbn [bind]; [|discriminate].
      intros H Hq. eapply step_HC; [exact E|]. eapply IH; eassumption.
  Qed.

  (* ---- the loop: the run without the dropped files is a permutation of the filtered full run *)

  Lemma fm_keys rs : ForallOrdPairs keyR rs -> ForallOrdPairs keyR (fm rs).
  Proof.
    intros H. unfold fm. apply FOP_filter. apply FOP_map. eapply FOP_impl_in; [|exact H].
    intros a b _ _ Hab. exact Hab.
  Qed.

  Lemma run_sim warn l : forall st1 st1' rs2,
    run warn st1 l = Ok st1' -> NE (fst st1) -> ForallOrdPairs keyR (fst st1) -> HC (fst st1') ->
    Permutation (fm (fst st1)) rs2 ->
    exists rs2', run warn (rs2, snd st1) (drop_files p l) = Ok (rs2', snd st1') /\ Permutation (fm (fst st1')) rs2'.
  Proof.
    induction l as [|r l IH]; intros st1 st1' rs2 Hrun Hne Hk Hhc Hp; cbn [Model.run drop_files filter] in *.
    - injection Hrun as <-. exists rs2. split; [reflexivity | exact Hp].
    - destruct (step warn st1 r) as [sta|e] eqn:E; cbn [bind] in Hrun; [|discriminate].
      pose proof (run_HC _ _ _ _ Hrun Hhc) as Hhca. fold (drop_files p l).
      destruct r as [e|attrs f m|attrs e]; cbn [keep_rd Model.step] in *.
      + destruct warn; [|discriminate]. injection E as <-. cbn [fst snd] in *.
        cbn [Model.run Model.step bind fst snd]. apply (IH (fst st1, S (snd st1)) st1' rs2 Hrun Hne Hk Hhc Hp).
      + destruct (is_image attrs) eqn:Ei; cbn [negb orb] in *.
        * destruct (add_result atol _ _ f (fst st1)) as [rsa|e] eqn:Ea; cbn [bind] in E; [|discriminate].
          injection E as <-. cbn [fst snd] in *.
          pose proof (add_result_NE _ _ _ _ _ Ea Hne) as Hnea. pose proof (add_result_keys _ _ _ _ _ Ea Hk) as Hka.
          destruct (p f) eqn:Ep.
          -- destruct (add_result_keep _ _ _ _ _ Ep Hne Hk Ea Hhca) as [X [HX HXp]].
             destruct (add_result_perm _ _ _ _ _ _ Hp (fm_keys _ Hk) HX) as [rs2a [H2 H2p]].
             cbn [Model.run Model.step fst snd]. rewrite Ei. cbn [negb]. rewrite H2. cbn [bind].
             apply (IH (rsa, snd st1) st1' rs2a Hrun Hnea Hka Hhc).
             cbn [fst]. etransitivity; [symmetry; exact HXp | exact H2p].
          -- apply (IH (rsa, snd st1) st1' rs2 Hrun Hnea Hka Hhc). cbn [fst].
             rewrite (add_result_drop _ _ _ _ _ Ep Ea). exact Hp.
        * injection E as <-. cbn [Model.run Model.step fst snd]. rewrite Ei. cbn [negb bind].
          apply (IH (fst st1, S (snd st1)) st1' rs2 Hrun Hne Hk Hhc Hp).
      + cbn [Model.run Model.step fst snd]. revert E.
        destruct (negb (is_image attrs)); [|destruct warn; [|discriminate]]; intros E; injection E as <-; cbn [bind fst snd] in *;
          apply (IH (fst st1, S (snd st1)) st1' rs2 Hrun Hne Hk Hhc Hp).
  Qed.

  (* ---- unpack and sort *)

  Definition mkg (k : list gval) (sr : subres F) : group F := (merge_key group_by close_tests k (fst sr), snd sr).

  Lemma flat_cons k subs (r : list (entry F)) :
    flat group_by close_tests ((k, subs) :: r) = map (mkg k) subs ++ flat group_by close_tests r.
  Proof. reflexivity. Qed.

  Lemma fgroups_app a b : fgroups (a ++ b) = fgroups a ++ fgroups b.
  Proof. unfold fgroups. rewrite map_app, filter_app. reflexivity. Qed.

  Lemma fsubs_groups k subs : map (mkg k) (fsubs subs) = fgroups (map (mkg k) subs).
  Proof.
    induction subs as [|[c ms] rest IH]; [reflexivity|].
    rewrite fsubs_cons. unfold fgroups, fgroup, mkg in *. cbn [map fst snd]. cbn [filter]. cbn [fst snd].
    destruct (filter p ms); cbn [ne_list map fst snd]; rewrite IH; reflexivity.
  Qed.

  Lemma flat_fm rs : flat group_by close_tests (fm rs) = fgroups (flat group_by close_tests rs).
  Proof.
    induction rs as [|[k subs] r IH]; [reflexivity|].
    rewrite fm_cons, flat_cons, fgroups_app, <- fsubs_groups, <- IH.
    destruct (fsubs subs) as [|s ss]; [reflexivity|]. rewrite flat_cons. reflexivity.
  Qed.

  Lemma all_pairs_FOP (q : group F -> group F -> bool) l :
    all_pairs q l = true <-> ForallOrdPairs (fun a b => q a b = true) l.
  Proof.
    induction l as [|x xs IH]; cbn [all_pairs].
    - split; [constructor | reflexivity].
    - rewrite andb_true_iff, IH, forallb_forall. split.
      + intros [H1 H2]. constructor; [apply Forall_forall; exact H1 | exact H2].
      + intros H. inversion H as [|? ? Hx Hr]; subst. split; [apply Forall_forall; exact Hx | exact Hr].
  Qed.

  Lemma lt_ok_sym (a b : group F) : lt_ok a b = true -> lt_ok b a = true.
  Proof.
    unfold lt_ok. destruct (key_ltb (fst a) (fst b)) as [x|], (key_ltb (fst b) (fst a)) as [y|]; try discriminate.
    rewrite orb_comm. auto.
  Qed.

  (** the grouping of the list without the dropped files = the grouping of the full list with the dropped
      files removed from every group and the emptied groups removed (as a set of groups) *)
  Lemma parse_and_group_filter warn (l : list (rd F)) gs w :
    parse_and_group warn l = Ok (gs, w) -> heads_closed p gs ->
    exists gs2, parse_and_group warn (drop_files p l) = Ok (gs2, w) /\ Permutation gs2 (fgroups gs).
  Proof.
    intros H Hh. destruct (parse_and_group_inv _ _ _ atol_nonneg _ _ _ _ H) as [rs [[Hk [He _]] [_ [Hperm Hrun]]]].
    assert (Hhc : HC rs).
    { apply Forall_forall. intros e Hie. apply Forall_forall. intros s His f Hf E0.
      apply (Hh (merge_key group_by close_tests (fst e) (fst s), snd s) f); [|exact Hf | exact E0].
      eapply Permutation_in; [symmetry; exact Hperm|]. apply in_flat. exists e, s. repeat split; assumption. }
    destruct (run_sim _ _ ([], 0%nat) (rs, w) [] Hrun (Forall_nil _) (FOP_nil _) Hhc (Permutation_refl _)) as [rs2 [Hrun2 Hp2]].
    cbn [fst snd] in *.
    pose proof (run_state_inv _ _ _ _ _ _ _ Hrun2) as [[Hk2 [He2 _]] _]. cbn [fst] in *.
    assert (Hsort : sort_groups (flat group_by close_tests rs) = Ok gs).
    { unfold Model.parse_and_group in H. rewrite Hrun in H. cbn [bind fst snd] in H.
      rewrite (unpack_distinct _ _ _ (flat_distinct _ _ _ atol_nonneg _ _ Hk He)) in H.
      destruct (sort_groups (flat group_by close_tests rs)); cbn [bind] in H; [injection H as <-; reflexivity | discriminate]. }
    assert (Hflat2 : Permutation (flat group_by close_tests rs2) (fgroups (flat group_by close_tests rs))).
    { rewrite <- flat_fm. symmetry. unfold flat. apply perm_flat_map. exact Hp2. }
    assert (Hall : all_pairs lt_ok (flat group_by close_tests rs2) = true).
    { apply all_pairs_FOP. eapply FOP_perm; [intros x y; apply lt_ok_sym | symmetry; exact Hflat2|].
      unfold fgroups. apply FOP_filter. apply FOP_map.
      unfold sort_groups in Hsort. destruct (all_pairs lt_ok (flat group_by close_tests rs)) eqn:Eall; [|discriminate].
      apply all_pairs_FOP in Eall. eapply FOP_impl_in; [|exact Eall]. intros a b _ _ Hab. exact Hab. }
    exists (isort (flat group_by close_tests rs2)). split.
    - unfold Model.parse_and_group. rewrite Hrun2. cbn [bind fst snd].
      rewrite (unpack_distinct _ _ _ (flat_distinct _ _ _ atol_nonneg _ _ Hk2 He2)).
      unfold sort_groups. rewrite Hall. reflexivity.
    - etransitivity; [apply isort_perm|]. etransitivity; [exact Hflat2|].
      unfold fgroups. apply perm_filter. apply Permutation_map. symmetry. exact Hperm.
  Qed.

  (* ---- counting the dropped files *)

  Fixpoint n_refused (gs : list (group F)) : nat :=
    match gs with [] => 0%nat | g :: r => (length (snd g) - length (filter p (snd g)) + n_refused r)%nat end.

  Lemma n_refused_concat gs :
    n_refused gs = length (filter (fun x => negb (p x)) (concat (map snd gs))).
  Proof.
    induction gs as [|g r IH]; cbn [n_refused map concat]; [reflexivity|].
    rewrite filter_app, app_length, IH. pose proof (filter_compl_length p (snd g)). lia.
  Qed.

  Lemma dropped_count (l : list (rd F)) :
    length (filter (fun x => negb (p x)) (map fst (imgs l))) = (length l - length (drop_files p l))%nat.
  Proof.
    induction l as [|r l IH]; [reflexivity|].
    pose proof (filter_length_le' (keep_rd p) l) as Hle. fold (drop_files p l) in Hle.
    destruct r as [e|attrs f m|attrs e]; cbn [imgs drop_files filter keep_rd length]; fold (drop_files p l).
    - rewrite IH. lia.
    - destruct (is_image attrs); cbn [negb orb map fst filter length].
      + destruct (p f); cbn [negb length]; rewrite IH; lia.
      + rewrite IH. lia.
    - rewrite IH. lia.
  Qed.

  Lemma n_refused_dropped warn (l : list (rd F)) gs w :
    parse_and_group warn l = Ok (gs, w) -> n_refused gs = (length l - length (drop_files p l))%nat.
  Proof.
    intros H. rewrite n_refused_concat, <- dropped_count.
    apply perm_filter_length. eapply partition; eassumption.
  Qed.
End Iso.

(* ------------------------------------------------------------------ the stacks *)

Section IsoStack.
  Context {F state : Type}.
  Variable add : state -> F -> state * option err.
  Variable n_files : state -> nat.
  Hypothesis add_tx : transactional add.
  Variable p : F -> bool.

  Local Notation stack_run := (stack_run state add).
  Local Notation stack_all := (stack_all state add n_files).

  (** warn mode never raises: the final stack and the number of refusals as plain functions *)
  Fixpoint srun (st : state) (g : list F) : state * nat :=
    match g with
    | [] => (st, 0%nat)
    | f :: g' => match add st f with
                 | (st', None) => srun st' g'
                 | (st', Some _) => (fst (srun st' g'), S (snd (srun st' g')))
                 end
    end.

  Lemma stack_run_srun g : forall st w,
    stack_run true st w g = Ok (fst (srun st g), (w + snd (srun st g))%nat).
  Proof.
    induction g as [|f g IH]; intros st w; cbn [Model.stack_run srun fst snd].
    - f_equal. f_equal. lia.
    - destruct (add st f) as [st' [e|]]; rewrite IH; cbn [fst snd]; [|reflexivity]. f_equal. f_equal. lia.
  Qed.

  Lemma srun_filter st g :
    refused_along p add st g ->
    fst (srun st g) = fst (srun st (filter p g)) /\
    snd (srun st g) = (length g - length (filter p g) + snd (srun st (filter p g)))%nat.
  Proof.
    intros Hr. pose proof (stack_run_filter add add_tx p g st 0%nat Hr) as H.
    rewrite !stack_run_srun in H. cbn [bump_warn] in H. injection H as H1 H2. split; [exact H1 | lia].
  Qed.

  Definition keep_stack (init : state) (kg : group F) : list (list gval * state) :=
    let r := srun init (snd kg) in
    if Nat.eqb (n_files (fst r)) 0 then [] else [(fst kg, fst r)].

  Definition refusals (init : state) (gs : list (group F)) : nat :=
    list_sum (map (fun g => snd (srun init (snd g))) gs).

  Lemma stack_all_closed init gs : forall w,
    stack_all true init gs w = Ok (flat_map (keep_stack init) gs, (w + refusals init gs)%nat).
  Proof.
    unfold refusals. induction gs as [|[k g] gs IH]; intros w; cbn [Model.stack_all map].
    - cbn [flat_map]. f_equal. f_equal. unfold list_sum. cbn [fold_right]. lia.
    - rewrite stack_run_srun. cbn [bind fst snd]. rewrite IH. cbn [bind fst snd].
      assert (E : (w + snd (srun init g) + list_sum (map (fun g0 => snd (srun init (snd g0))) gs)
                   = w + list_sum (snd (srun init g) :: map (fun g0 => snd (srun init (snd g0))) gs))%nat)
        by (unfold list_sum; cbn [fold_right]; lia).
      rewrite E. change (flat_map (keep_stack init) ((k, g) :: gs)) with (keep_stack init (k, g) ++ flat_map (keep_stack init) gs).
      assert (Ek : keep_stack init (k, g) = if Nat.eqb (n_files (fst (srun init g))) 0 then [] else [(k, fst (srun init g))]) by reflexivity.
      rewrite Ek. destruct (Nat.eqb (n_files (fst (srun init g))) 0); reflexivity.
  Qed.

  Lemma stack_all_perm init gs gs' w :
    Permutation gs gs' ->
    exists sts sts' n, stack_all true init gs w = Ok (sts, n) /\ stack_all true init gs' w = Ok (sts', n) /\
                       Permutation sts sts'.
  Proof.
    intros Hp. rewrite !stack_all_closed. eexists. eexists. eexists. split; [reflexivity|]. split.
    - f_equal. f_equal. f_equal. unfold refusals. symmetry. apply list_sum_perm. apply Permutation_map. exact Hp.
    - apply perm_flat_map. exact Hp.
  Qed.

  Lemma fgroups_cons k g (gs : list (group F)) :
    fgroups p ((k, g) :: gs) = match filter p g with [] => fgroups p gs | _ => (k, filter p g) :: fgroups p gs end.
  Proof. unfold fgroups, fgroup. cbn [map fst snd]. cbn [filter]. cbn [fst snd]. destruct (filter p g); reflexivity. Qed.

  (** the full groups against the groups without the dropped files *)
  Lemma stacks_filter init gs :
    n_files init = 0%nat ->
    (forall g, In g gs -> refused_along p add init (snd g)) ->
    flat_map (keep_stack init) gs = flat_map (keep_stack init) (fgroups p gs) /\
    refusals init gs = (n_refused p gs + refusals init (fgroups p gs))%nat.
  Proof.
    intros H0. induction gs as [|[k g] gs IH]; intros Hr; [split; reflexivity|].
    destruct (IH (fun g0 Hg0 => Hr g0 (or_intror Hg0))) as [IH1 IH2].
    destruct (srun_filter init g (Hr (k, g) (or_introl eq_refl))) as [S1 S2].
    assert (Ek : forall g', keep_stack init (k, g') = if Nat.eqb (n_files (fst (srun init g'))) 0 then [] else [(k, fst (srun init g'))])
      by reflexivity.
    assert (Er : forall (x : group F) xs, refusals init (x :: xs) = (snd (srun init (snd x)) + refusals init xs)%nat)
      by (intros; unfold refusals, list_sum; reflexivity).
    rewrite fgroups_cons. cbn [flat_map n_refused fst snd]. rewrite Ek, Er. cbn [snd].
    destruct (filter p g) as [|y ys] eqn:Ef.
    - cbn [srun fst snd length] in S1, S2. rewrite S1, H0. cbn [Nat.eqb app]. split; [exact IH1|]. rewrite S2, IH2. cbn [length]. lia.
    - cbn [flat_map]. rewrite Ek, Er, S1, IH1. cbn [snd]. split; [reflexivity|]. rewrite S2, IH2. lia.
  Qed.
End IsoStack.

(** parse_and_stack in warn mode.  [p] selects the files to keep.  If every image file failing [p] is
    refused by (transactional) add_dcm when its turn comes, a fresh stack holds no file, and every group
    that starts with a dropped file consists of dropped files only, then the result is the result for
    the path list without those files: the same (key, stack) pairs and one more warning per dropped file. *)
Theorem parse_and_stack_isolation {F state} (add : state -> F -> state * option err) (n_files : state -> nat)
        (p : F -> bool) group_by atol init (l : list (rd F)) gs w :
  0 <= atol -> transactional add -> n_files init = 0%nat ->
  parse_and_group group_by default_close_keys atol true l = Ok (gs, w) ->
  heads_closed p gs ->
  (forall g, In g gs -> refused_along p add init (snd g)) ->
  exists sts sts' w',
    parse_and_stack state add n_files group_by atol true init l = Ok (sts, (length l - length (drop_files p l) + w')%nat) /\
    parse_and_stack state add n_files group_by atol true init (drop_files p l) = Ok (sts', w') /\
    Permutation sts sts'.
Proof.
  intros Hat Htx H0 H Hh Hr. unfold parse_and_stack.
  destruct (parse_and_group_filter _ _ _ Hat p _ _ _ _ H Hh) as [gs2 [H2 Hp2]].
  rewrite H, H2. cbn [bind fst snd]. rewrite !stack_all_closed.
  destruct (stacks_filter add n_files Htx p init gs H0 Hr) as [E1 E2].
  exists (flat_map (keep_stack add n_files init) gs), (flat_map (keep_stack add n_files init) gs2),
         (w + refusals add init gs2)%nat.
  split; [|split; [reflexivity|]].
  - f_equal. f_equal. rewrite E2, (n_refused_dropped _ _ _ Hat p _ _ _ _ H).
    assert (E3 : refusals add init gs2 = refusals add init (fgroups p gs)).
    { unfold refusals. apply list_sum_perm. apply Permutation_map. exact Hp2. }
    rewrite E3. lia.
  - rewrite E1. apply perm_flat_map. symmetry. exact Hp2.
Qed.
