(** C18, end to end: removing from the path list the image files that add_dcm refuses (none of them
    the first file of its group) gives the same stacks; only the number of warnings differs. *)
From Coq Require Import List Bool ZArith NArith QArith Lia Permutation.
From DV Require Import Common.Res Common.Str Generated.T_group Group.Model Group.Spec Group.ProofsBase
  Group.ProofsGroup Group.ProofsSkip.
Import ListNotations.

Lemma filter_compl_length {A} (q : A -> bool) (l : list A) :
  (length (filter q l) + length (filter (fun x => negb (q x)) l) = length l)%nat.
Proof. induction l as [|x xs IH]; cbn [filter length]; [reflexivity|]. destruct (q x); cbn [negb length]; lia. Qed.

Lemma perm_filter_length {A} (q : A -> bool) (a b : list A) :
  Permutation a b -> length (filter q a) = length (filter q b).
Proof.
  induction 1 as [|x l l' _ IH|x y l|l l' l'' _ IH1 _ IH2]; cbn [filter].
  - reflexivity.
  - destruct (q x); cbn [length]; congruence.
  - destruct (q x), (q y); reflexivity.
  - congruence.
Qed.

Section Iso.
  Context {F : Type}.
  Variables (group_by close_tests : list str) (atol : Q).
  Hypothesis atol_nonneg : 0 <= atol.
  Variable p : F -> bool.

  Local Notation step := (@step F group_by close_tests atol).
  Local Notation run := (@run F group_by close_tests atol).
  Local Notation parse_and_group := (@parse_and_group F group_by close_tests atol).

  Definition fgroup (g : group F) : group F := (fst g, filter p (snd g)).
  Definition fsubs (subs : list (subres F)) : list (subres F) := map (fun s => (fst s, filter p (snd s))) subs.
  Definition fm (rs : list (entry F)) : list (entry F) := map (fun e => (fst e, fsubs (snd e))) rs.

  (** no sub result starts with a file that is to be dropped *)
  Definition heads_ok_subs (subs : list (subres F)) : Prop :=
    forall s f, In s subs -> hd_error (snd s) = Some f -> p f = true.
  Definition heads_ok (rs : list (entry F)) : Prop :=
    forall e, In e rs -> heads_ok_subs (snd e).

  (* ---- a kept file: the two runs move in lock step *)

  Lemma add_sub_keep cl f subs : p f = true ->
    add_sub atol cl f (fsubs subs) = rmap fsubs (add_sub atol cl f subs).
  Proof.
    intros Ep. induction subs as [|[c ms] rest IH]; cbn [fsubs map add_sub fst snd rmap].
    - cbn [filter]. rewrite Ep. reflexivity.
    - destruct (match_close atol c cl) as [[|]|e]; cbn [bind rmap]; try reflexivity.
      + cbn [fsubs map fst snd]. rewrite filter_app. cbn [filter]. rewrite Ep. reflexivity.
      + fold (fsubs rest). rewrite IH. destruct (add_sub atol cl f rest) as [r'|e]; cbn [rmap bind]; reflexivity.
  Qed.

  Lemma add_result_keep key cl f rs : p f = true ->
    add_result atol key cl f (fm rs) = rmap fm (add_result atol key cl f rs).
  Proof.
    intros Ep. induction rs as [|[k subs] rest IH]; cbn [fm map add_result fst snd rmap].
    - cbn [fsubs map filter fst snd]. rewrite Ep. reflexivity.
    - destruct (key_eqb key k).
      + rewrite (add_sub_keep _ _ _ Ep). destruct (add_sub atol cl f subs) as [s'|e]; cbn [rmap bind]; reflexivity.
      + fold (fm rest). rewrite IH. destruct (add_result atol key cl f rest) as [r'|e]; cbn [rmap bind]; reflexivity.
  Qed.

  (* ---- a dropped file that joined an existing sub result leaves no trace after filtering *)

  Lemma fsubs_app a b : fsubs (a ++ b) = fsubs a ++ fsubs b.
  Proof. apply map_app. Qed.
  Lemma fm_app a b : fm (a ++ b) = fm a ++ fm b.
  Proof. apply map_app. Qed.

  Lemma add_sub_drop cl f subs subs' : p f = false ->
    add_sub atol cl f subs = Ok subs' -> heads_ok_subs subs' -> fsubs subs' = fsubs subs.
  Proof.
    intros Ep H Hq. apply add_sub_spec in H.
    destruct H as [[pre [c [ms [post [-> [-> _]]]]]]|[-> _]].
    - rewrite !fsubs_app. cbn [fsubs map fst snd]. rewrite filter_app. cbn [filter]. rewrite Ep, app_nil_r. reflexivity.
    - exfalso. assert (E : p f = true); [|congruence].
      apply (Hq (cl, [f]) f); [apply in_or_app; right; left; reflexivity | reflexivity].
  Qed.

  Lemma add_result_drop key cl f rs rs' : p f = false ->
    add_result atol key cl f rs = Ok rs' -> heads_ok rs' -> fm rs' = fm rs.
  Proof.
    intros Ep H Hq. apply add_result_spec in H.
    destruct H as [[pre [k [s [s' [post [-> [-> [_ [Hs _]]]]]]]]]|[-> _]].
    - rewrite !fm_app. cbn [fm map fst snd]. f_equal. f_equal. f_equal.
      eapply add_sub_drop; [exact Ep | exact Hs|].
      apply (Hq (k, s')). apply in_or_app; right; left; reflexivity.
    - exfalso. assert (E : p f = true); [|congruence].
      assert (Hin : In (key, [(cl, [f])]) (rs ++ [(key, [(cl, [f])])])) by (apply in_or_app; right; left; reflexivity).
      apply (Hq _ Hin (cl, [f]) f); [left; reflexivity | reflexivity].
  Qed.

  (* ---- heads never change, so the condition on the final state holds for every earlier state *)

  Lemma hd_error_app_some (ms : list F) x f0 : hd_error ms = Some f0 -> hd_error (ms ++ [x]) = Some f0.
  Proof. destruct ms; cbn; [discriminate | auto]. Qed.

  Lemma add_sub_heads cl f subs subs' :
    add_sub atol cl f subs = Ok subs' -> heads_ok_subs subs' -> heads_ok_subs subs.
  Proof.
    intros H Hq s f0 Hs Hh. apply add_sub_spec in H.
    destruct H as [[pre [c [ms [post [-> [-> _]]]]]]|[-> _]].
    - apply in_app_or in Hs. destruct Hs as [Hs|[<-|Hs]].
      + apply (Hq s f0); [apply in_or_app; left; exact Hs | exact Hh].
      + apply (Hq (c, ms ++ [f]) f0); [apply in_or_app; right; left; reflexivity|].
        cbn [snd] in *. apply hd_error_app_some. exact Hh.
      + apply (Hq s f0); [apply in_or_app; right; right; exact Hs | exact Hh].
    - apply (Hq s f0); [apply in_or_app; left; exact Hs | exact Hh].
  Qed.

  Lemma add_result_heads key cl f rs rs' :
    add_result atol key cl f rs = Ok rs' -> heads_ok rs' -> heads_ok rs.
  Proof.
    intros H Hq e He. apply add_result_spec in H.
    destruct H as [[pre [k [s [s' [post [-> [-> [_ [Hs _]]]]]]]]]|[-> _]].
    - apply in_app_or in He. destruct He as [He|[<-|He]].
      + apply Hq. apply in_or_app; left; exact He.
      + cbn [snd]. eapply add_sub_heads; [exact Hs|].
        apply (Hq (k, s')). apply in_or_app; right; left; reflexivity.
      + apply Hq. apply in_or_app; right; right; exact He.
    - apply Hq. apply in_or_app; left; exact He.
  Qed.

  Lemma step_heads warn st r st' : step warn st r = Ok st' -> heads_ok (fst st') -> heads_ok (fst st).
  Proof.
    destruct r as [e|attrs f m]; cbn [Model.step].
    - destruct warn; [|discriminate]. intros H; injection H as <-. auto.
    - destruct (negb (is_image attrs)); [intros H; injection H as <-; auto|].
      destruct (add_result _ _ _ _ _) as [rs'|e] eqn:E; cbn [bind]; [|discriminate].
      intros H; injection H as <-. cbn [fst]. eapply add_result_heads; exact E.
  Qed.

  Lemma run_heads warn l : forall st st', run warn st l = Ok st' -> heads_ok (fst st') -> heads_ok (fst st).
  Proof.
    induction l as [|r l IH]; intros st st'; cbn [Model.run].
    - intros H; injection H as <-. auto.
    - destruct (step warn st r) as [st1|e] eqn:E; cbn [bind]; [|discriminate].
      intros H Hq. eapply step_heads; [exact E|]. eapply IH; eassumption.
  Qed.

  (* ---- the loop *)

  Lemma run_filter warn l : forall st st',
    run warn st l = Ok st' -> heads_ok (fst st') ->
    run warn (fm (fst st), snd st) (drop_files p l) = Ok (fm (fst st'), snd st').
  Proof.
    induction l as [|r l IH]; intros st st'; cbn [Model.run drop_files filter].
    - intros H; injection H as <-. reflexivity.
    - destruct (step warn st r) as [st1|e] eqn:E; cbn [bind]; [|discriminate].
      intros H Hq. pose proof (run_heads _ _ _ _ H Hq) as Hq1. specialize (IH _ _ H Hq).
      fold (drop_files p l).
      destruct r as [e|attrs f m]; cbn [keep_rd Model.step] in *.
      + cbn [Model.run Model.step fst snd]. destruct warn; [|discriminate]. injection E as <-. cbn [bind]. exact IH.
      + destruct (is_image attrs) eqn:Ei; cbn [negb orb] in *.
        * destruct (add_result atol _ _ f (fst st)) as [rs1|e] eqn:Ea; cbn [bind] in E; [|discriminate].
          injection E as <-. cbn [fst snd] in *.
          destruct (p f) eqn:Ep.
          -- cbn [Model.run Model.step fst snd]. rewrite Ei. cbn [negb].
             rewrite (add_result_keep _ _ _ _ Ep), Ea. cbn [rmap bind]. exact IH.
          -- rewrite (add_result_drop _ _ _ _ _ Ep Ea Hq1) in IH. exact IH.
        * injection E as <-. cbn [Model.run Model.step fst snd]. rewrite Ei. cbn [negb bind]. exact IH.
  Qed.

  (* ---- unpack and sort commute with filtering the members *)

  Lemma flat_fm rs : flat group_by close_tests (fm rs) = map fgroup (flat group_by close_tests rs).
  Proof.
    unfold flat, fm. induction rs as [|e r IH]; cbn [map flat_map]; [reflexivity|].
    rewrite map_app, IH. f_equal. cbn [fst snd]. unfold fsubs. rewrite !map_map. reflexivity.
  Qed.

  Lemma dict_set_fgroup k v d : dict_set k (filter p v) (map fgroup d) = map fgroup (dict_set k v d).
  Proof.
    induction d as [|[k' v'] r IH]; cbn [map dict_set fgroup fst snd]; [reflexivity|].
    destruct (key_eqb k k'); cbn [map fgroup fst snd]; [reflexivity | rewrite <- IH; reflexivity].
  Qed.

  Lemma unpack_fm rs : unpack group_by close_tests (fm rs) = map fgroup (unpack group_by close_tests rs).
  Proof.
    unfold unpack. rewrite flat_fm. change (@nil (group F)) with (map fgroup []) at 1.
    generalize (@nil (group F)). induction (flat group_by close_tests rs) as [|g l IH]; intros acc; cbn [map fold_left].
    - reflexivity.
    - cbn [fgroup fst snd]. rewrite dict_set_fgroup. apply IH.
  Qed.

  Lemma all_pairs_fgroup l : all_pairs lt_ok (map fgroup l) = all_pairs lt_ok l.
  Proof.
    induction l as [|x xs IH]; cbn [map all_pairs]; [reflexivity|]. rewrite IH. f_equal.
    clear IH. induction xs as [|y ys IHy]; cbn [map forallb]; [reflexivity|]. rewrite IHy. reflexivity.
  Qed.

  Lemma isort_fgroup l : isort (map fgroup l) = map fgroup (isort l).
  Proof.
    induction l as [|x xs IH]; cbn [map isort fold_right]; [reflexivity|].
    fold (isort (map fgroup xs)). fold (isort xs). rewrite IH.
    generalize (isort xs). intros s. induction s as [|y ys IHs]; cbn [map insert_sorted]; [reflexivity|].
    change (group_ltb (fgroup x) (fgroup y)) with (group_ltb x y).
    destruct (group_ltb x y); cbn [map]; [reflexivity | rewrite IHs; reflexivity].
  Qed.

  Lemma sort_groups_fgroup l : sort_groups (map fgroup l) = rmap (map fgroup) (sort_groups l).
  Proof.
    unfold sort_groups. rewrite all_pairs_fgroup. destruct (all_pairs lt_ok l); cbn [rmap]; [|reflexivity].
    rewrite isort_fgroup. reflexivity.
  Qed.

  (** the grouping of the list without the dropped files = the grouping of the full list, members filtered *)
  Lemma parse_and_group_filter warn l gs w :
    parse_and_group warn l = Ok (gs, w) ->
    (forall g f, In g gs -> hd_error (snd g) = Some f -> p f = true) ->
    parse_and_group warn (drop_files p l) = Ok (map fgroup gs, w).
  Proof.
    intros H Hh. destruct (parse_and_group_inv _ _ _ atol_nonneg _ _ _ _ H) as [rs [_ [_ [Hperm Hrun]]]].
    assert (Hq : heads_ok rs).
    { intros e He s f Hs Hf. apply (Hh (merge_key group_by close_tests (fst e) (fst s), snd s) f); [|exact Hf].
      eapply Permutation_in; [symmetry; exact Hperm|]. apply in_flat. exists e, s. repeat split; assumption. }
    assert (Hrun' : run warn ([], 0%nat) (drop_files p l) = Ok (fm rs, w)) by exact (run_filter _ _ _ _ Hrun Hq).
    unfold Model.parse_and_group in *. rewrite Hrun in H. rewrite Hrun'. cbn [bind fst snd] in *.
    rewrite unpack_fm, sort_groups_fgroup.
    destruct (sort_groups (unpack group_by close_tests rs)) as [gs0|e]; cbn [bind rmap] in *; [|discriminate].
    injection H as <-. reflexivity.
  Qed.

  (* ---- counting the dropped files *)

  Fixpoint n_refused (gs : list (group F)) : nat :=
    match gs with [] => 0%nat | g :: r => (length (snd g) - length (filter p (snd g)) + n_refused r)%nat end.

  Lemma n_refused_concat gs :
    n_refused gs = length (filter (fun x => negb (p x)) (concat (map snd gs))).
  Proof.
    induction gs as [|g r IH]; cbn [n_refused map concat]; [reflexivity|].
    rewrite filter_app, app_length, IH. pose proof (filter_compl_length p (snd g)). lia.
  Qed.

  Lemma dropped_count (l : list (rd F)) :
    length (filter (fun x => negb (p x)) (map fst (imgs l))) = (length l - length (drop_files p l))%nat.
  Proof.
    induction l as [|r l IH]; [reflexivity|].
    pose proof (filter_length_le' (keep_rd p) l) as Hle. fold (drop_files p l) in Hle.
    destruct r as [e|attrs f m]; cbn [imgs drop_files filter keep_rd length]; fold (drop_files p l).
    - rewrite IH. lia.
    - destruct (is_image attrs); cbn [negb orb map fst filter length].
      + destruct (p f); cbn [negb length]; rewrite IH; lia.
      + rewrite IH. lia.
  Qed.

  Lemma n_refused_dropped warn l gs w :
    parse_and_group warn l = Ok (gs, w) -> n_refused gs = (length l - length (drop_files p l))%nat.
  Proof.
    intros H. rewrite n_refused_concat, <- dropped_count.
    apply perm_filter_length. eapply partition; eassumption.
  Qed.
End Iso.

Section IsoStack.
  Context {F state : Type}.
  Variable add : state -> F -> state * option err.
  Hypothesis add_tx : transactional add.
  Variable p : F -> bool.

  Local Notation stack_run := (stack_run state add).
  Local Notation stack_all := (stack_all state add).

  Lemma stack_all_bump warn n init gs : forall w,
    stack_all warn init gs (n + w) = bump_warn n (stack_all warn init gs w).
  Proof.
    induction gs as [|[k g] gs IH]; intros w; cbn [Model.stack_all bump_warn]; [reflexivity|].
    rewrite stack_run_bump. destruct (stack_run warn init w g) as [[st' w']|e]; cbn [bump_warn bind fst snd]; [|reflexivity].
    rewrite IH. destruct (stack_all warn init gs w') as [[a w'']|e]; cbn [bump_warn bind fst snd]; reflexivity.
  Qed.

  Lemma stack_all_filter init gs : forall w,
    (forall g, In g gs -> refused_along p add init (snd g)) ->
    stack_all true init gs w = bump_warn (n_refused p gs) (stack_all true init (map (fgroup p) gs) w).
  Proof.
    induction gs as [|[k g] gs IH]; intros w Hr; cbn [Model.stack_all map fgroup fst snd n_refused bump_warn].
    - reflexivity.
    - rewrite (stack_run_filter add add_tx p g init w (Hr (k, g) (or_introl eq_refl))).
      destruct (stack_run true init w (filter p g)) as [[st' w']|e]; cbn [bump_warn bind fst snd]; [|reflexivity].
      rewrite stack_all_bump, IH by (intros g0 Hg0; apply Hr; right; exact Hg0).
      destruct (stack_all true init (map (fgroup p) gs) w') as [[a w'']|e]; cbn [bump_warn bind fst snd]; [|reflexivity].
      f_equal. f_equal. lia.
  Qed.
End IsoStack.

(** parse_and_stack in warn mode: the image files failing [p] are each refused by add_dcm when their
    turn comes and none of them is the first file of its group  ==>  the result is the result of the
    path list without them (one more warning per file). *)
Theorem parse_and_stack_isolation {F state} (add : state -> F -> state * option err) (p : F -> bool)
        group_by atol init (l : list (rd F)) gs w :
  0 <= atol -> transactional add ->
  parse_and_group group_by default_close_keys atol true l = Ok (gs, w) ->
  (forall g f, In g gs -> hd_error (snd g) = Some f -> p f = true) ->
  (forall g, In g gs -> refused_along p add init (snd g)) ->
  parse_and_stack state add group_by atol true init l
  = bump_warn (length l - length (drop_files p l))
              (parse_and_stack state add group_by atol true init (drop_files p l)).
Proof.
  intros Hat Htx H Hh Hr. unfold parse_and_stack.
  rewrite (parse_and_group_filter _ _ _ Hat p _ _ _ _ H Hh), H. cbn [bind fst snd].
  rewrite (stack_all_filter add Htx p init gs w Hr).
  rewrite (n_refused_dropped _ _ _ Hat p _ _ _ _ H). reflexivity.
Qed.
