(** Correspondence glue for C18: one case = a pool of files (their read results), several path
    lists over the pool with the implementation's observation for each. *)
From Coq Require Import List Bool ZArith NArith QArith Arith.
From DV Require Import Common.Res Common.Str Generated.T_group Group.Model.
Import ListNotations.

(** observation of parse_and_group: error class, or the groups (key, member file ids) and the number
    of warnings issued by dcmstack.  Canonical form: members ascending, groups ordered by members. *)
Inductive gobs := GErr (e : err) | GOk (gs : list (list gval * list nat)) (w : nat).

(** observation of parse_and_stack: error class, or per group the ids of the files that ended up in
    the stack (ascending; the list of groups ordered lexicographically), and the warnings count *)
Inductive sobs := SErr (e : err) | SOk (stacks : list (list nat)) (w : nat).

Record plist := { p_order : list nat; p_warn : bool; p_obs : gobs }.

(** [s_table]: the behaviour of the real add_dcm at the points the run visits:
    ((ids accepted so far, id offered), exception class or None).  add_dcm itself is outside this model. *)
Record slist := { s_order : list nat; s_warn : bool;
                  s_table : list (list nat * nat * option err); s_obs : sobs }.

Record case := { c_group_by : list str; c_close : list str;
                 c_files : list (rd nat);          (* indexed by file id *)
                 c_lists : list plist; c_stacks : list slist }.

(* ---------------------------------------------------------------- canonical forms *)

Fixpoint ins_nat (x : nat) (l : list nat) : list nat :=
  match l with [] => [x] | y :: ys => if x <=? y then x :: l else y :: ins_nat x ys end.
Definition sort_nat (l : list nat) : list nat := fold_right ins_nat [] l.

Fixpoint lex_leb (a b : list nat) : bool :=
  match a, b with
  | [], _ => true
  | _ :: _, [] => false
  | x :: xs, y :: ys => if x <? y then true else if y <? x then false else lex_leb xs ys
  end.

Section SortBy.
  Context {A : Type} (key : A -> list nat).
  Fixpoint ins_by (x : A) (l : list A) : list A :=
    match l with [] => [x] | y :: ys => if lex_leb (key x) (key y) then x :: l else y :: ins_by x ys end.
  Definition sort_by (l : list A) : list A := fold_right ins_by [] l.
End SortBy.

Fixpoint list_eqb {A} (eqb : A -> A -> bool) (a b : list A) : bool :=
  match a, b with
  | [], [] => true
  | x :: xs, y :: ys => eqb x y && list_eqb eqb xs ys
  | _, _ => false
  end.

Definition canon_groups (gs : list (group nat)) : list (list gval * list nat) :=
  sort_by snd (map (fun g => (fst g, sort_nat (snd g))) gs).

(** [a] = the model's result, [b] = the observation.  The property says "raises" without naming a class
    and "skipped with a warning": raised-vs-not-raised is compared, and the observed number of warnings
    (all warnings of the call minus those pydicom / the extractor issue for the same files on their own)
    must be at least the model's count.  The order of the returned dict is not compared.
    Group keys: the property says a group is keyed by its group-by values; which member supplies the value
    of a tolerance-compared key is not stated, so entry i of an observed key must be (Python ==) the value
    of group_by[i] of SOME member of that group ([key_ok], applied by [check]). *)
Definition gobs_eqb (a b : gobs) : bool :=
  match a, b with
  | GErr _, GErr _ => true
  | GOk g w, GOk g' w' => list_eqb (list_eqb Nat.eqb) (map snd g) (map snd g') && Nat.leb w w'
  | _, _ => false
  end.

Definition sobs_eqb (a b : sobs) : bool :=
  match a, b with
  | SErr _, SErr _ => true
  | SOk s w, SOk s' w' => list_eqb (list_eqb Nat.eqb) s s' && Nat.leb w w'
  | _, _ => false
  end.

(* ---------------------------------------------------------------- running the model *)

Definition reads (c : case) (order : list nat) : list (rd nat) :=
  map (fun i => nth i (c_files c) (Fault ECrash)) order.

Definition model_group (c : case) (p : plist) : gobs :=
  match parse_and_group (c_group_by c) (c_close c) group_atol (p_warn p) (reads c (p_order p)) with
  | Err e => GErr e
  | Ok (gs, w) => GOk (canon_groups gs) w
  end.

(** the stack object is represented by the list of accepted file ids *)
Definition table_add (tb : list (list nat * nat * option err)) (st : list nat) (f : nat) : list nat * option err :=
  match find (fun r => list_eqb Nat.eqb (fst (fst r)) st && Nat.eqb (snd (fst r)) f) tb with
  | Some (_, None) => (st ++ [f], None)
  | Some (_, Some e) => (st, Some e)
  | None => (st, Some ECrash)
  end.

Definition model_stack (c : case) (s : slist) : sobs :=
  match parse_and_stack (list nat) (table_add (s_table s)) (@length nat) (c_group_by c) group_atol (s_warn s) [] (reads c (s_order s)) with
  | Err e => SErr e
  | Ok (sts, w) => SOk (sort_by (fun x => x) (map (fun ks => sort_nat (snd ks)) sts)) w
  end.

Definition meta_of (c : case) (i : nat) : meta :=
  match nth i (c_files c) (Fault ECrash) with Data _ _ m => m | Fault _ | ExtractFault _ _ => fun _ => GNone end.

Definition key_ok (c : case) (g : list gval * list nat) : bool :=
  Nat.eqb (length (fst g)) (length (c_group_by c)) &&
  forallb (fun gk => existsb (fun i => gval_eqb (meta_of c i (fst gk)) (snd gk)) (snd g))
          (combine (c_group_by c) (fst g)).

Definition keys_ok (c : case) (o : gobs) : bool :=
  match o with GErr _ => true | GOk gs _ => forallb (key_ok c) gs end.

Definition check (c : case) : bool :=
  forallb (fun p => gobs_eqb (model_group c p) (p_obs p) && keys_ok c (p_obs p)) (c_lists c) &&
  forallb (fun s => sobs_eqb (model_stack c s) (s_obs s)) (c_stacks c).

Definition show (c : case) := (map (model_group c) (c_lists c), map (model_stack c) (c_stacks c)).
