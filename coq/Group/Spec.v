(** The small abstract vocabulary the C18 theorems are stated in. *)
From Coq Require Import List Bool ZArith NArith QArith Permutation.
From DV Require Import Common.Res Common.Str Group.Model.
Import ListNotations.

Section Spec.
  Variables (group_by close_tests : list str) (atol : Q).

  (** "equal on every exactly compared key, and the new file's close values are close to the
      representative's":  the test the code applies to (representative a, new file b). *)
  Definition same_group (a b : meta) : res bool :=
    if key_eqb (ekey group_by close_tests a) (ekey group_by close_tests b)
    then match_close atol (ckey group_by close_tests a) (ckey group_by close_tests b)
    else Ok false.

  (** closeness restricted to the values present is an equivalence (in particular np.allclose never
      raises on them): orientation clusters separated by more than the tolerance. *)
  Definition close_equiv (ms : list meta) : Prop :=
    (forall a, In a ms -> same_group a a = Ok true) /\
    (forall a b, In a ms -> In b ms -> same_group a b = Ok true -> same_group b a = Ok true) /\
    (forall a b c, In a ms -> In b ms -> In c ms ->
                   same_group a b = Ok true -> same_group b c = Ok true -> same_group a c = Ok true).
End Spec.

(** two lists of groups have the same member sets *)
Definition same_member_sets {F} (gs gs' : list (group F)) : Prop :=
  (forall g, In g gs -> exists g', In g' gs' /\ forall f, In f (snd g) <-> In f (snd g')) /\
  (forall g', In g' gs' -> exists g, In g gs /\ forall f, In f (snd g) <-> In f (snd g')).

(** number of path-list entries that are skipped with a warning in warn mode *)
Definition n_skipped {F} (l : list (rd F)) : nat := length (filter skipped l).

(** [add] leaves the stack unchanged whenever it raises *)
Definition transactional {state F} (add : state -> F -> state * option err) : Prop :=
  forall st f e, snd (add st f) = Some e -> fst (add st f) = st.

(** one more warning, same result *)
Definition bump_warn {A} (n : nat) (r : res (A * nat)) : res (A * nat) :=
  match r with Ok (a, w) => Ok (a, (n + w)%nat) | Err e => Err e end.

Section Drop.
  Context {F : Type} (p : F -> bool).

  (** the path list without the image files whose payload fails [p] *)
  Definition keep_rd (r : rd F) : bool :=
    match r with Fault _ | ExtractFault _ _ => true | Data attrs f _ => negb (is_image attrs) || p f end.
  Definition drop_files (l : list (rd F)) : list (rd F) := filter keep_rd l.

  (** along the additions of one group: every file failing [p] is refused when its turn comes *)
  Fixpoint refused_along {state} (add : state -> F -> state * option err) (st : state) (g : list F) : Prop :=
    match g with
    | [] => True
    | f :: g' =>
        if p f then refused_along add (fst (add st f)) g'
        else (exists e, snd (add st f) = Some e) /\ refused_along add st g'
    end.
End Drop.

(** every group that starts with a dropped file is dropped as a whole (so that no group changes its
    representative when the dropped files are taken out of the path list) *)
Definition heads_closed {F} (p : F -> bool) (gs : list (group F)) : Prop :=
  forall g f, In g gs -> hd_error (snd g) = Some f -> p f = false -> filter p (snd g) = [].

(** two full keys agree entry by entry: equal on the exactly compared keys, close (the code's own test,
    [close_elem]) on the tolerance-compared ones *)
Fixpoint keys_close (group_by close_tests : list str) (atol : Q) (k k' : list gval) : Prop :=
  match group_by, k, k' with
  | [], [], [] => True
  | g :: gs, x :: xs, y :: ys =>
      (if mem_str g close_tests then close_elem atol x y = Ok true else x = y) /\
      keys_close gs close_tests atol xs ys
  | _, _, _ => False
  end.

(** the same stacks under keys that correspond one to one up to [keys_close] *)
Definition same_stacks_up_to_keys {state} (group_by close_tests : list str) (atol : Q)
           (sts sts' : list (list gval * state)) : Prop :=
  exists sts'', Permutation sts' sts'' /\
                Forall2 (fun a b => keys_close group_by close_tests atol (fst a) (fst b) /\ snd a = snd b) sts sts''.
