(** C18: a skipped path-list entry (unreadable in warn mode, or a data set without pixels) changes
    nothing but the number of warnings; strict mode raises; the same for a file refused by add_dcm
    when add_dcm is transactional. *)
From Coq Require Import List Bool ZArith NArith QArith Lia Permutation.
From DV Require Import Common.Res Common.Str Generated.T_group Group.Model Group.Spec Group.ProofsBase Group.ProofsGroup.
Import ListNotations.

Section Skip.
  Context {F : Type}.
  Variables (group_by close_tests : list str) (atol : Q).

  Local Notation step := (@step F group_by close_tests atol).
  Local Notation run := (@run F group_by close_tests atol).
  Local Notation parse_and_group := (@parse_and_group F group_by close_tests atol).

  Definition bump_st (n : nat) (st : gstate F) : gstate F := (fst st, (n + snd st)%nat).

  Lemma step_bump warn n st r : step warn (bump_st n st) r = rmap (bump_st n) (step warn st r).
  Proof.
    assert (Hb : Ok (fst (bump_st n st), S (snd (bump_st n st))) = rmap (bump_st n) (Ok (fst st, S (snd st))))
      by (unfold bump_st; cbn [rmap fst snd]; f_equal; f_equal; lia).
    destruct r as [e|attrs f m|attrs e]; cbn [Model.step].
    - destruct warn; [exact Hb | reflexivity].
    - destruct (negb (is_image attrs)); [exact Hb|]. cbn [bump_st fst snd].
      destruct (add_result _ _ _ _ _) as [rs'|e]; cbn [bind rmap]; reflexivity.
    - destruct (negb (is_image attrs)); [exact Hb|]. destruct warn; [exact Hb | reflexivity].
  Qed.

  Lemma run_bump warn n l : forall st, run warn (bump_st n st) l = rmap (bump_st n) (run warn st l).
  Proof.
    induction l as [|r l IH]; intros st; cbn [Model.run]; [reflexivity|].
    rewrite step_bump. destruct (step warn st r) as [st'|e]; cbn [rmap bind]; [apply IH | reflexivity].
  Qed.

  Lemma step_skipped warn st x : skipped_in warn x = true -> step warn st x = Ok (bump_st 1 st).
  Proof.
    intros Hs. destruct x as [e|attrs f m|attrs e]; cbn [Model.step skipped_in] in *.
    - rewrite Hs. reflexivity.
    - rewrite Hs. reflexivity.
    - destruct (negb (is_image attrs)); [reflexivity|]. cbn [orb] in Hs. rewrite Hs. reflexivity.
  Qed.

  Lemma run_skip warn st l1 x l2 :
    skipped_in warn x = true ->
    run warn st (l1 ++ x :: l2) = rmap (bump_st 1) (run warn st (l1 ++ l2)).
  Proof.
    intros Hs. rewrite !run_app. destruct (run warn st l1) as [st1|e]; cbn [bind rmap]; [|reflexivity].
    cbn [Model.run]. rewrite (step_skipped _ _ _ Hs). cbn [bind]. apply run_bump.
  Qed.

  (** an entry that is skipped in the given mode (unreadable or not extractable in warn mode, a data set
      without pixels in either mode) only adds a warning *)
  Theorem skip warn l1 x l2 :
    skipped_in warn x = true ->
    parse_and_group warn (l1 ++ x :: l2) = bump_warn 1 (parse_and_group warn (l1 ++ l2)).
  Proof.
    intros Hs. unfold Model.parse_and_group. rewrite (run_skip _ _ _ _ _ Hs).
    destruct (run warn ([], 0%nat) (l1 ++ l2)) as [[rs w]|e]; cbn [rmap bind bump_warn]; [|reflexivity].
    unfold bump_st. cbn [fst snd].
    destruct (sort_groups _) as [gs|e]; cbn [bind bump_warn]; reflexivity.
  Qed.

  (** strict mode: the exception of the first unreadable / not extractable file propagates *)
  Theorem skip_strict l1 x e l2 st :
    strict_error x = Some e ->
    run false ([], 0%nat) l1 = Ok st ->
    parse_and_group false (l1 ++ x :: l2) = Err e.
  Proof.
    intros Hx H. unfold Model.parse_and_group. rewrite run_app, H. cbn [bind Model.run].
    destruct x as [e0|attrs f m|attrs e0]; cbn [strict_error Model.step] in *.
    - injection Hx as ->. reflexivity.
    - discriminate.
    - destruct (is_image attrs); [|discriminate]. injection Hx as ->. reflexivity.
  Qed.
End Skip.

Section StackSkip.
  Context {F state : Type}.
  Variable add : state -> F -> state * option err.
  Hypothesis add_tx : transactional add.

  Local Notation stack_run := (stack_run state add).
  Local Notation stack_group := (stack_group state add).

  Lemma stack_run_app warn st w g1 g2 :
    stack_run warn st w (g1 ++ g2) = bind (stack_run warn st w g1) (fun r => stack_run warn (fst r) (snd r) g2).
  Proof.
    revert st w. induction g1 as [|f g IH]; intros st w; cbn [app Model.stack_run]; [reflexivity|].
    destruct (add st f) as [st' [e|]]; [destruct warn|]; try apply IH. reflexivity.
  Qed.

  Lemma stack_run_bump warn n g : forall st w,
    stack_run warn st (n + w) g = bump_warn n (stack_run warn st w g).
  Proof.
    induction g as [|f g IH]; intros st w; cbn [Model.stack_run bump_warn]; [reflexivity|].
    destruct (add st f) as [st' [e|]]; [destruct warn|]; try apply IH; [|reflexivity].
    replace (S (n + w)) with (n + S w)%nat by lia. apply IH.
  Qed.

  (** warn mode: a refused file leaves the stack as if it had not been in the group *)
  Theorem stack_skip init g1 f g2 st1 w1 e :
    stack_group true init g1 = Ok (st1, w1) -> snd (add st1 f) = Some e ->
    stack_group true init (g1 ++ f :: g2) = bump_warn 1 (stack_group true init (g1 ++ g2)).
  Proof.
    unfold Model.stack_group. intros H1 He. rewrite !stack_run_app, H1. cbn [bind fst snd Model.stack_run].
    pose proof (add_tx st1 f e He) as Hst. destruct (add st1 f) as [st' [e'|]]; cbn [fst snd] in *; [|discriminate].
    subst st'. apply (stack_run_bump true 1).
  Qed.

  (** strict mode: the refusal propagates *)
  Theorem stack_skip_strict init g1 f g2 st1 w1 e :
    stack_group false init g1 = Ok (st1, w1) -> snd (add st1 f) = Some e ->
    stack_group false init (g1 ++ f :: g2) = Err e.
  Proof.
    unfold Model.stack_group. intros H1 He. rewrite stack_run_app, H1. cbn [bind fst snd Model.stack_run].
    destruct (add st1 f) as [st' [e'|]]; cbn [snd] in He; [|discriminate]. congruence.
  Qed.

  Lemma filter_length_le' {A} (q : A -> bool) (l : list A) : (length (filter q l) <= length l)%nat.
  Proof. induction l as [|x xs IH]; cbn [filter length]; [lia|]. destruct (q x); cbn [length]; lia. Qed.

  (** several refused files at once *)
  Lemma stack_run_filter (p : F -> bool) g : forall st w,
    refused_along p add st g ->
    stack_run true st w g = bump_warn (length g - length (filter p g)) (stack_run true st w (filter p g)).
  Proof.
    induction g as [|f g IH]; intros st w Hr; cbn [Model.stack_run filter refused_along length] in *.
    - reflexivity.
    - pose proof (filter_length_le' p g) as Hle.
      destruct (p f) eqn:Ep; cbn [Model.stack_run length].
      + destruct (add st f) as [st' [e|]]; cbn [fst] in Hr; rewrite (IH _ _ Hr); reflexivity.
      + destruct Hr as [[e He] Hr]. pose proof (add_tx st f e He) as Hst.
        destruct (add st f) as [st' [e'|]]; cbn [fst snd] in *; [|discriminate]. subst st'.
        rewrite (IH _ _ Hr). change (S w) with (1 + w)%nat. rewrite (stack_run_bump true 1).
        destruct (stack_run true st w (filter p g)) as [[a w']|e'']; cbn [bump_warn]; [|reflexivity].
        f_equal. f_equal. lia.
  Qed.
End StackSkip.
