(** C18: the invariant of the grouping loop and what follows from it: the groups partition the
    readable image files; full keys are distinct; every group key is the tuple of group-by values
    of a member; warnings are counted. *)
From Coq Require Import List Bool ZArith NArith QArith Lia Permutation.
From DV Require Import Common.Res Common.Str Generated.T_group Group.Model Group.Spec Group.ProofsBase.
Import ListNotations.

Lemma FOP_impl_in {A} (R R' : A -> A -> Prop) l :
  (forall a b, In a l -> In b l -> R a b -> R' a b) -> ForallOrdPairs R l -> ForallOrdPairs R' l.
Proof.
  induction l as [|x xs IH]; intros Himp H; [constructor|].
  inversion H as [|? ? Hx Hr]; subst. constructor.
  - rewrite Forall_forall in *. intros b Hb. apply Himp; [left; reflexivity | right; exact Hb | apply Hx; exact Hb].
  - apply IH; [|exact Hr]. intros a b Ha Hb. apply Himp; right; assumption.
Qed.

Lemma imgs_app {F} (a b : list (rd F)) : imgs (a ++ b) = imgs a ++ imgs b.
Proof.
  induction a as [|[e|attrs f m|attrs e] r IH]; cbn [app imgs]; [reflexivity | exact IH | | exact IH].
  destruct (is_image attrs); [cbn [app]; f_equal|]; exact IH.
Qed.

Lemma n_skipped_app {F} (a b : list (rd F)) : n_skipped (a ++ b) = (n_skipped a + n_skipped b)%nat.
Proof. unfold n_skipped. rewrite filter_app, app_length. reflexivity. Qed.

Section Inv.
  Context {F : Type}.
  Variables (group_by close_tests : list str) (atol : Q).
  Hypothesis atol_nonneg : 0 <= atol.

  Local Notation EK := (ekey group_by close_tests).
  Local Notation CK := (ckey group_by close_tests).
  Local Notation MC := (match_close atol).
  Local Notation SG := (same_group group_by close_tests atol).

  Definition keyR (e1 e2 : entry F) : Prop := key_eqb (fst e2) (fst e1) = false.
  Definition repR (s1 s2 : subres F) : Prop := MC (fst s1) (fst s2) = Ok false.

  (** a sub result under the exact key k: its close list is the close key of one of its members, every
      member has an exact key == k and either matched the representative or is the representative *)
  Definition sub_ok (I : list (F * meta)) (k : list gval) (s : subres F) : Prop :=
    (exists f0 m0, In f0 (snd s) /\ In (f0, m0) I /\ fst s = CK m0 /\ key_eqb (EK m0) k = true) /\
    (forall f, In f (snd s) -> exists m, In (f, m) I /\ key_eqb (EK m) k = true /\
                                        (MC (fst s) (CK m) = Ok true \/ fst s = CK m)).

  Definition subs_inv I k (subs : list (subres F)) : Prop :=
    ForallOrdPairs repR subs /\ Forall (sub_ok I k) subs.

  Definition entry_inv I (e : entry F) : Prop :=
    (exists m, fst e = EK m) /\ subs_inv I (fst e) (snd e).

  Definition inv (I : list (F * meta)) (rs : list (entry F)) : Prop :=
    ForallOrdPairs keyR rs /\ Forall (entry_inv I) rs /\ Permutation (rmembers rs) (map fst I).

  Lemma sub_ok_mono I x k s : sub_ok I k s -> sub_ok (I ++ [x]) k s.
  Proof.
    intros [[f0 [m0 [H1 [H2 [H3 H4]]]]] Hm]. split.
    - exists f0, m0. repeat split; try assumption. apply in_or_app; left; exact H2.
    - intros f Hf. destruct (Hm f Hf) as [m [Ha [Hb Hc]]]. exists m. repeat split; try assumption.
      apply in_or_app; left; exact Ha.
  Qed.

  Lemma subs_inv_mono I x k subs : subs_inv I k subs -> subs_inv (I ++ [x]) k subs.
  Proof.
    intros [H1 H2]. split; [exact H1|]. eapply Forall_impl; [|exact H2]. intros s; apply sub_ok_mono.
  Qed.

  Lemma entry_inv_mono I x e : entry_inv I e -> entry_inv (I ++ [x]) e.
  Proof. intros [H1 H2]. split; [exact H1 | apply subs_inv_mono; exact H2]. Qed.

  Lemma sub_ok_new I k f m : key_eqb (EK m) k = true -> sub_ok (I ++ [(f, m)]) k (CK m, [f]).
  Proof.
    intros Hk. split.
    - exists f, m. cbn [fst snd]. repeat split; [left; reflexivity | apply in_or_app; right; left; reflexivity | exact Hk].
    - cbn [fst snd]. intros f' [<-|[]]. exists m. repeat split; [apply in_or_app; right; left; reflexivity | exact Hk | right; reflexivity].
  Qed.

  Lemma add_sub_inv I k subs subs' f m :
    subs_inv I k subs -> key_eqb (EK m) k = true ->
    add_sub atol (CK m) f subs = Ok subs' -> subs_inv (I ++ [(f, m)]) k subs'.
  Proof.
    intros Hinv Hk Hadd. apply (subs_inv_mono _ (f, m)) in Hinv. destruct Hinv as [Hrep Hok].
    apply add_sub_spec in Hadd.
    destruct Hadd as [[pre [c [ms [post [-> [-> [Hmc _]]]]]]]|[-> Hall]].
    - split.
      + eapply FOP_replace; [| |exact Hrep]; intros y Hy; exact Hy.
      + apply Forall_app in Hok. destruct Hok as [Hpre Hrest].
        inversion Hrest as [|? ? Hs Hpost]; subst.
        apply Forall_app. split; [exact Hpre|]. constructor; [|exact Hpost].
        destruct Hs as [[f0 [m0 [H1 [H2 [H3 H4]]]]] Hm]. cbn [fst snd] in *. split.
        * exists f0, m0. cbn [fst snd]. repeat split; try assumption. apply in_or_app; left; exact H1.
        * cbn [fst snd]. intros f' Hf'. apply in_app_or in Hf'. destruct Hf' as [Hf'|[<-|[]]].
          -- apply Hm; exact Hf'.
          -- exists m. repeat split; [apply in_or_app; right; left; reflexivity | exact Hk | left; exact Hmc].
    - split.
      + apply FOP_snoc. split; [exact Hrep|]. intros a Ha. rewrite Forall_forall in Hall. apply Hall; exact Ha.
      + apply Forall_app. split; [exact Hok|]. constructor; [|constructor]. apply sub_ok_new; exact Hk.
  Qed.

  Lemma add_result_inv I rs rs' f m :
    inv I rs -> add_result atol (EK m) (CK m) f rs = Ok rs' -> inv (I ++ [(f, m)]) rs'.
  Proof.
    intros [Hk [He Hp]] Hadd.
    assert (Hperm : Permutation (rmembers rs') (map fst (I ++ [(f, m)]))).
    { rewrite map_app. cbn [map fst]. etransitivity; [eapply add_result_members; exact Hadd|].
      apply Permutation_app_tail. exact Hp. }
    split; [|split; [|exact Hperm]].
    - apply add_result_spec in Hadd.
      destruct Hadd as [[pre [k [s [s' [post [-> [-> _]]]]]]]|[-> Hall]].
      + eapply FOP_replace; [| |exact Hk]; intros y Hy; exact Hy.
      + apply FOP_snoc. split; [exact Hk|]. intros a Ha. rewrite Forall_forall in Hall. apply Hall; exact Ha.
    - assert (He' : Forall (entry_inv (I ++ [(f, m)])) rs).
      { eapply Forall_impl; [|exact He]. intros e; apply entry_inv_mono. }
      apply add_result_spec in Hadd.
      destruct Hadd as [[pre [k [s [s' [post [-> [-> [Hkk [Hs _]]]]]]]]]|[-> Hall]].
      + apply Forall_app in He. destruct He as [_ Hrest]. inversion Hrest as [|? ? Hent _]; subst.
        apply Forall_app in He'. destruct He' as [Hpre' Hrest']. inversion Hrest' as [|? ? _ Hpost']; subst.
        apply Forall_app. split; [exact Hpre'|]. constructor; [|exact Hpost'].
        destruct Hent as [Hsh Hsub]. split; [exact Hsh|]. cbn [fst snd] in *.
        eapply add_sub_inv; eassumption.
      + apply Forall_app. split; [exact He'|]. constructor; [|constructor].
        split; [exists m; reflexivity|]. cbn [fst snd]. split; [repeat constructor|].
        constructor; [|constructor]. apply sub_ok_new. apply key_eqb_refl.
  Qed.

  (* ---------------------------------------------------------------- the loop *)

  Local Notation step := (step group_by close_tests atol).
  Local Notation run := (run group_by close_tests atol).

  Lemma run_app warn st (l1 l2 : list (rd F)) :
    run warn st (l1 ++ l2) = bind (run warn st l1) (fun st' => run warn st' l2).
  Proof.
    revert st. induction l1 as [|r l IH]; intros st; cbn [app Model.run]; [reflexivity|].
    destruct (step warn st r) as [st'|e]; cbn [bind]; [apply IH | reflexivity].
  Qed.

  Lemma run_ind_inv (P : list (rd F) -> gstate F -> Prop) warn :
    (forall p st r st', P p st -> step warn st r = Ok st' -> P (p ++ [r]) st') ->
    forall l p st0 st, P p st0 -> run warn st0 l = Ok st -> P (p ++ l) st.
  Proof.
    intros Hstep. induction l as [|r l IH]; intros p st0 st H0 Hrun; cbn [Model.run] in Hrun.
    - injection Hrun as <-. rewrite app_nil_r. exact H0.
    - destruct (step warn st0 r) as [st1|e] eqn:E; cbn [bind] in Hrun; [|discriminate].
      replace (p ++ r :: l) with ((p ++ [r]) ++ l) by (rewrite <- app_assoc; reflexivity).
      eapply IH; [|exact Hrun]. eapply Hstep; eassumption.
  Qed.

  Definition state_inv (w0 : nat) (p : list (rd F)) (st : gstate F) : Prop :=
    inv (imgs p) (fst st) /\ snd st = (w0 + n_skipped p)%nat.

  Lemma step_inv warn w0 p st r st' :
    state_inv w0 p st -> step warn st r = Ok st' -> state_inv w0 (p ++ [r]) st'.
  Proof.
    intros [Hi Hw] Hs. unfold state_inv. rewrite imgs_app, n_skipped_app.
    destruct r as [e|attrs f m|attrs e]; cbn [Model.step] in Hs.
    - destruct warn; [|discriminate]. injection Hs as <-. cbn [fst snd imgs]. rewrite app_nil_r.
      split; [exact Hi|]. rewrite Hw. change (@n_skipped F [Fault e]) with 1%nat. lia.
    - assert (Hn : @n_skipped F [Data attrs f m] = if is_image attrs then 0%nat else 1%nat)
        by (unfold n_skipped; cbn [filter skipped]; destruct (is_image attrs); reflexivity).
      rewrite Hn. cbn [imgs]. destruct (is_image attrs); cbn [negb] in *.
      + destruct (add_result atol (EK m) (CK m) f (fst st)) as [rs'|e] eqn:E; cbn [bind] in Hs; [|discriminate].
        injection Hs as <-. cbn [fst snd length]. split; [eapply add_result_inv; eassumption | lia].
      + injection Hs as <-. cbn [fst snd length]. rewrite app_nil_r. split; [exact Hi | lia].
    - assert (Hs' : st' = (fst st, S (snd st))).
      { destruct (negb (is_image attrs)); [congruence|]. destruct warn; [congruence | discriminate]. }
      subst st'. cbn [fst snd imgs]. rewrite app_nil_r.
      split; [exact Hi|]. rewrite Hw. change (@n_skipped F [ExtractFault attrs e]) with 1%nat. lia.
  Qed.

  Lemma inv_nil : inv [] (@nil (entry F)).
  Proof. split; [constructor | split; [constructor | constructor]]. Qed.

  Lemma run_state_inv warn w0 l st :
    run warn ([], w0) l = Ok st -> state_inv w0 l st.
  Proof.
    intros H. change l with ([] ++ l).
    eapply (run_ind_inv (state_inv w0) warn); [intros; eapply step_inv; eassumption | | exact H].
    split; [exact inv_nil | cbn; lia].
  Qed.

  (* ---------------------------------------------------------------- full keys are distinct *)

  Lemma flat_distinct I (rs : list (entry F)) :
    ForallOrdPairs keyR rs -> Forall (entry_inv I) rs ->
    ForallOrdPairs key_fresh (flat group_by close_tests rs).
  Proof.
    induction rs as [|e r IH]; intros Hk He; [constructor|].
    inversion Hk as [|? ? Hke Hkr]; subst. inversion He as [|? ? Hee Her]; subst.
    change (e :: r) with ([e] ++ r). rewrite flat_app. apply FOP_app.
    destruct Hee as [[me Hme] [Hrep Hok]].
    destruct e as [k subs]. cbn [fst snd] in *. subst k.
    split; [|split; [apply IH; assumption|]].
    - unfold flat. cbn [flat_map]. rewrite app_nil_r. apply FOP_map.
      eapply FOP_impl_in; [|exact Hrep]. intros s1 s2 H1 H2 HR. unfold key_fresh, repR in *. cbn [fst snd].
      rewrite Forall_forall in Hok.
      destruct (Hok s1 H1) as [[_ [m1 [_ [_ [E1 _]]]]] _]. destruct (Hok s2 H2) as [[_ [m2 [_ [_ [E2 _]]]]] _].
      destruct s1 as [c1 ms1], s2 as [c2 ms2]. cbn [fst snd] in *. subst c1 c2.
      destruct (key_eqb _ _) eqn:E; [|reflexivity]. exfalso.
      apply merge_eqb_inv in E. destruct E as [_ E]. apply key_eqb_sym in E.
      exact (match_close_eq atol atol_nonneg _ _ E HR).
    - intros g1 g2 Hg1 Hg2. apply in_flat in Hg1. apply in_flat in Hg2.
      destruct Hg1 as [e1 [s1 [[<-|[]] [Hs1 ->]]]]. destruct Hg2 as [e2 [s2 [He2 [Hs2 ->]]]].
      unfold key_fresh. cbn [fst snd] in *.
      rewrite Forall_forall in Hke. specialize (Hke e2 He2). unfold keyR in Hke.
      rewrite Forall_forall in Her. destruct (Her e2 He2) as [[m2 Hm2] [_ Hok2]].
      rewrite Forall_forall in Hok, Hok2.
      destruct (Hok s1 Hs1) as [[_ [c1 [_ [_ [E1 _]]]]] _]. destruct (Hok2 s2 Hs2) as [[_ [c2 [_ [_ [E2 _]]]]] _].
      destruct e2 as [k2 subs2], s1 as [cc1 ms1], s2 as [cc2 ms2]. cbn [fst snd] in *. subst k2 cc1 cc2.
      destruct (key_eqb (merge_key _ _ _ _) _) eqn:E; [|reflexivity]. exfalso.
      apply merge_eqb_inv in E. destruct E as [E _]. congruence.
  Qed.

  (* ---------------------------------------------------------------- consequences for parse_and_group *)

  Local Notation parse_and_group := (parse_and_group group_by close_tests atol).

  Lemma parse_and_group_inv warn l gs w :
    parse_and_group warn l = Ok (gs, w) ->
    exists rs, inv (imgs l) rs /\ w = n_skipped l /\
               Permutation gs (flat group_by close_tests rs) /\
               run warn ([], 0%nat) l = Ok (rs, w).
  Proof.
    unfold Model.parse_and_group. intros H.
    destruct (run warn ([], 0%nat) l) as [[rs w']|e] eqn:Er; cbn [bind] in H; [|discriminate].
    pose proof (run_state_inv _ _ _ _ Er) as [Hi Hw]. cbn [fst snd] in *.
    destruct Hi as [Hk [He Hp]].
    rewrite (unpack_distinct _ _ _ (flat_distinct _ _ Hk He)) in H.
    destruct (sort_groups (flat group_by close_tests rs)) as [gs'|e] eqn:Es; cbn [bind] in H; [|discriminate].
    injection H as <- <-. exists rs. repeat split; try assumption.
    apply sort_groups_perm in Es. exact Es.
  Qed.

  (** every readable image file lies in exactly one group; nothing else lies in a group *)
  Lemma partition warn (l : list (rd F)) gs w :
    parse_and_group warn l = Ok (gs, w) ->
    Permutation (concat (map snd gs)) (map fst (imgs l)).
  Proof.
    intros H. destruct (parse_and_group_inv _ _ _ _ H) as [rs [[_ [_ Hp]] [_ [Hperm _]]]].
    etransitivity; [apply Permutation_concat; apply Permutation_map; exact Hperm|].
    rewrite flat_members. exact Hp.
  Qed.

  Lemma warnings_count warn (l : list (rd F)) gs w : parse_and_group warn l = Ok (gs, w) -> w = n_skipped l.
  Proof. intros H. destruct (parse_and_group_inv _ _ _ _ H) as [rs [_ [Hw _]]]. exact Hw. Qed.

  (** group -> the sub result it came from *)
  Lemma group_origin warn (l : list (rd F)) gs w g :
    parse_and_group warn l = Ok (gs, w) -> In g gs ->
    exists rs e s, inv (imgs l) rs /\ Permutation gs (flat group_by close_tests rs) /\
                   In e rs /\ In s (snd e) /\ g = (merge_key group_by close_tests (fst e) (fst s), snd s).
  Proof.
    intros H Hg. destruct (parse_and_group_inv _ _ _ _ H) as [rs [Hi [_ [Hperm _]]]].
    pose proof (Permutation_in _ Hperm Hg) as Hg'. apply in_flat in Hg'.
    destruct Hg' as [e [s [He [Hs ->]]]]. exists rs, e, s.
    split; [exact Hi|]. split; [exact Hperm|]. split; [exact He|]. split; [exact Hs | reflexivity].
  Qed.

  (** the key of a group is (==) the tuple of group-by values of one of its members *)
  Lemma key_is_member_value warn (l : list (rd F)) gs w g :
    parse_and_group warn l = Ok (gs, w) -> In g gs ->
    exists f0 m0, In (f0, m0) (imgs l) /\ In f0 (snd g) /\ key_eqb (fst g) (map m0 group_by) = true.
  Proof.
    intros H Hg. destruct (group_origin _ _ _ _ _ H Hg) as [rs [e [s [[_ [He _]] [_ [Hie [His ->]]]]]]].
    rewrite Forall_forall in He. destruct (He e Hie) as [[me Hme] [_ Hok]].
    rewrite Forall_forall in Hok. destruct (Hok s His) as [[f0 [m0 [H1 [H2 [H3 H4]]]]] _].
    exists f0, m0. cbn [fst snd]. repeat split; try assumption.
    rewrite <- (merge_split_same group_by close_tests m0), Hme, H3.
    apply merge_eqb_intro; [|apply key_eqb_refl]. rewrite <- Hme. apply key_eqb_sym. exact H4.
  Qed.

  Lemma groups_nonempty warn (l : list (rd F)) gs w g :
    parse_and_group warn l = Ok (gs, w) -> In g gs -> snd g <> [].
  Proof.
    intros H Hg. destruct (key_is_member_value _ _ _ _ _ H Hg) as [f0 [_ [_ [Hin _]]]].
    intros E. rewrite E in Hin. destruct Hin.
  Qed.

  (** the keys of the result are pairwise different (Python ==) *)
  Lemma keys_distinct warn (l : list (rd F)) gs w :
    parse_and_group warn l = Ok (gs, w) ->
    forall g1 g2, In g1 gs -> In g2 gs -> key_eqb (fst g1) (fst g2) = true -> g1 = g2.
  Proof.
    intros H g1 g2 H1 H2 E. destruct (parse_and_group_inv _ _ _ _ H) as [rs [[Hk [He _]] [_ [Hperm _]]]].
    pose proof (flat_distinct _ _ Hk He) as Hd.
    pose proof (Permutation_in _ Hperm H1) as H1'. pose proof (Permutation_in _ Hperm H2) as H2'.
    destruct (ForallOrdPairs_In Hd _ _ H1' H2') as [Heq|[Hf|Hf]]; [exact Heq | |]; unfold key_fresh in Hf.
    - apply key_eqb_sym in E. congruence.
    - congruence.
  Qed.

End Inv.
