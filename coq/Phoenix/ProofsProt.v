(** C16: proofs about [parse_prot] (model of extract.parse_phoenix_prot) and the dict semantics. *)
From Coq Require Import List Bool ZArith NArith QArith Arith Lia.
From DV Require Import Common.Res Common.Str Common.F64 Common.PyNum Common.PyNumFacts
                       Phoenix.Model Phoenix.Spec Phoenix.ProofsStr.
Import ListNotations.
Open Scope nat_scope.

(** ------------------------------------------------------------------ s.split('\n') *)

Lemma split_on_line c l rest :
  lacks c l = true -> split_on c (l ++ c :: rest) = l :: split_on c rest.
Proof.
  induction l as [|x l IH]; intros H.
  - cbn [app split_on]. now rewrite N.eqb_refl.
  - rewrite lacks_cons in H. apply andb_true_iff in H as [H1 H2]. apply negb_true_iff in H1.
    cbn [app split_on]. rewrite H1, (IH H2). reflexivity.
Qed.

Lemma split_on_unlines lines :
  Forall (fun l => lacks 10 l = true) lines -> split_on 10 (unlines lines) = lines ++ [[]].
Proof.
  induction 1 as [|l ls Hl _ IH]; [reflexivity|].
  unfold unlines in *. cbn [map concat]. rewrite <- app_assoc. cbn [app].
  now rewrite (split_on_line 10 l _ Hl), IH.
Qed.

(** ------------------------------------------------------------------ s[a:b] *)

Lemma py_slice_mid A M B :
  py_slice (A ++ M ++ B) (Z.of_nat (length A)) (Z.of_nat (length (A ++ M))) = M.
Proof.
  unfold py_slice. rewrite !app_length.
  assert (H1 : (Z.of_nat (length A) <? 0)%Z = false) by (apply Z.ltb_ge; lia).
  assert (H2 : (Z.of_nat (length A + length M) <? 0)%Z = false) by (apply Z.ltb_ge; lia).
  rewrite H1, H2.
  rewrite (Z.min_l (Z.of_nat (length A))) by lia.
  rewrite (Z.min_l (Z.of_nat (length A + length M))) by lia.
  rewrite Nat2Z.id.
  replace (Z.to_nat (Z.of_nat (length A + length M) - Z.of_nat (length A))) with (length M) by lia.
  now rewrite skipn_app_exact, firstn_app_exact.
Qed.

(** ------------------------------------------------------------------ the loop over the lines *)

Lemma parse_lines_ok d lines results : forall acc,
  Forall2 (fun l r => parse_line l d = Ok r) lines results ->
  parse_lines lines d acc = Ok (assign_all (somes results) acc).
Proof.
  intros acc H. revert acc. induction H as [|l r ls rs Hl _ IH]; intros acc; [reflexivity|].
  cbn [parse_lines]. rewrite Hl. cbn [bind].
  destruct r as [[k v]|]; cbn [somes]; [|apply IH].
  unfold assign_all. cbn [fold_left fst snd]. apply IH.
Qed.

Lemma parse_lines_err d good results bad e rest : forall acc,
  Forall2 (fun l r => parse_line l d = Ok r) good results ->
  parse_line bad d = Err e ->
  parse_lines (good ++ bad :: rest) d acc = Err e.
Proof.
  intros acc H Hb. revert acc. induction H as [|l r ls rs Hl _ IH]; intros acc.
  - cbn [app parse_lines]. now rewrite Hb.
  - cbn [app parse_lines]. rewrite Hl. cbn [bind]. destruct r as [[k v]|]; apply IH.
Qed.

(** ------------------------------------------------------------------ parse_prot *)

Lemma begin_lacks_nl : lacks 10 ASC_BEGIN = true.
Proof. reflexivity. Qed.

Lemma prot_section pkey d before hdr lines after :
  (pkey = K_MrPhoenixProtocol /\ d = DELIM2) \/ (pkey = K_MrProtocol /\ d = DELIM1) ->
  lacks 10 hdr = true ->
  Forall (fun l => lacks 10 l = true) lines ->
  find_sub ASC_BEGIN (render_prot before hdr lines after) = Some (length before) ->
  find_sub ASC_END (render_prot before hdr lines after) = Some (length (prot_head before hdr lines)) ->
  parse_prot pkey (render_prot before hdr lines after) = parse_lines lines d [].
Proof.
  intros Hk Hh Hl Hb He. unfold parse_prot, find_z. rewrite Hb, He.
  assert (Hdelim : (if str_eqb pkey K_MrPhoenixProtocol then Ok DELIM2
                    else if str_eqb pkey K_MrProtocol then Ok DELIM1 else Err EValue) = Ok d).
  { destruct Hk as [[-> ->] | [-> ->]]; reflexivity. }
  rewrite Hdelim. cbn [bind].
  set (M := ASC_BEGIN ++ hdr ++ [10%N] ++ unlines lines).
  assert (E1 : render_prot before hdr lines after = before ++ M ++ (ASC_END ++ after)).
  { unfold render_prot, M. now rewrite <- !app_assoc. }
  assert (E2 : prot_head before hdr lines = before ++ M) by reflexivity.
  rewrite E1, E2, py_slice_mid.
  assert (E3 : M = (ASC_BEGIN ++ hdr) ++ 10%N :: unlines lines).
  { unfold M. now rewrite <- !app_assoc. }
  rewrite E3, split_on_line.
  - rewrite (split_on_unlines lines Hl). unfold drop_first_last. cbn [tl].
    now rewrite removelast_last.
  - now rewrite lacks_app, begin_lacks_nl, Hh.
Qed.

(** ------------------------------------------------------------------ dict semantics *)

Lemma key_in_app k a b : key_in k (a ++ b) = key_in k a || key_in k b.
Proof. induction a as [|x a IH]; [reflexivity|]. cbn [app key_in]. now rewrite IH, orb_assoc. Qed.

(** d[k] = v : the value of k becomes v, every other key keeps its value *)
Lemma lookup_dict_set k v dct k' :
  lookup k' (dict_set k v dct) = if str_eqb k' k then Some v else lookup k' dct.
Proof.
  induction dct as [|[k0 v0] t IH].
  - cbn [dict_set lookup]. destruct (str_eqb k' k); reflexivity.
  - cbn [dict_set]. destruct (str_eqb_spec k k0) as [->|Hn].
    + cbn [lookup]. destruct (str_eqb k' k0); reflexivity.
    + cbn [lookup]. rewrite IH. destruct (str_eqb_spec k' k0) as [->|Hn2]; [|reflexivity].
      destruct (str_eqb_spec k0 k) as [->|_]; [congruence | reflexivity].
Qed.

(** d[k] = v : an existing key keeps its position, a new key goes to the end *)
Lemma keys_dict_set k v dct :
  keys (dict_set k v dct) = if key_in k (keys dct) then keys dct else keys dct ++ [k].
Proof.
  unfold keys. induction dct as [|[k0 v0] t IH]; [reflexivity|].
  cbn [dict_set map fst key_in]. destruct (str_eqb k k0); cbn [orb map fst]; [reflexivity|].
  rewrite IH. destruct (key_in k (map fst t)); reflexivity.
Qed.

(** executing the assignments left to right: the last assignment of a key wins *)
Lemma lookup_assign_all l : forall d0 k,
  lookup k (assign_all l d0) = match lookup k (rev l) with Some v => Some v | None => lookup k d0 end.
Proof.
  induction l as [|[k1 v1] l IH]; intros d0 k; [reflexivity|].
  unfold assign_all in *. cbn [fold_left fst snd rev]. rewrite IH.
  assert (Happ : forall a b, lookup k (a ++ b) = match lookup k a with Some v => Some v | None => lookup k b end).
  { induction a as [|[ka va] a IHa]; intros b; [reflexivity|]. cbn [app lookup].
    destruct (str_eqb k ka); [reflexivity | apply IHa]. }
  rewrite Happ. destruct (lookup k (rev l)); [reflexivity|].
  rewrite lookup_dict_set. cbn [lookup]. destruct (str_eqb k k1); reflexivity.
Qed.

Lemma keys_assign_all l : forall d0,
  keys (assign_all l d0) = first_keys (map fst l) (keys d0).
Proof.
  induction l as [|[k1 v1] l IH]; intros d0; [reflexivity|].
  unfold assign_all in *. cbn [fold_left fst snd map first_keys]. now rewrite IH, keys_dict_set.
Qed.
