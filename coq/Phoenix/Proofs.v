(** C16: the property-level statements, assembled from ProofsLine / ProofsProt / PyNumFacts. *)
From Coq Require Import List Bool ZArith NArith QArith Arith Lia.
From DV Require Import Common.Res Common.Str Common.F64 Common.PyNum Common.PyNumFacts
                       Phoenix.Model Phoenix.Spec Phoenix.ProofsStr Phoenix.ProofsLine Phoenix.ProofsProt.
Import ListNotations.
Open Scope nat_scope.

Lemma dialect_isq d : dialect d -> isq d.
Proof. intros [-> | ->]; [exact isq_D2 | exact isq_D1]. Qed.

Lemma render_line_pre ws0 key ws1 ws2 val ws3 comment :
  render_line ws0 key ws1 ws2 val ws3 comment = pre ws0 key ws1 ws2 ++ val ++ trailer ws3 comment.
Proof. unfold render_line, pre. reassoc. Qed.

(** float(): the only error is ValueError *)
Lemma py_float_err s e : py_float s = Err e -> e = EValue.
Proof.
  rewrite py_float_unfold. destruct (split_sign (py_strip s)) as [neg r]. cbv zeta.
  destruct (_ || _); [discriminate|]. destruct (str_eqb _ _); [discriminate|].
  unfold py_float_num.
  destruct (match digit_part dec_val 10 r with Some x => x | None => (0%Z, 0, r) end) as [[ip ipn] r1].
  destruct (match r1 with
            | [] => (0%Z, 0, r1)
            | c :: t => if N.eqb c 46
                        then match digit_part dec_val 10 t with Some x => x | None => (0%Z, 0, t) end
                        else (0%Z, 0, r1)
            end) as [[fp fpn] r2].
  destruct (Nat.eqb (ipn + fpn) 0); [congruence|].
  destruct r2 as [|c t]; [discriminate|].
  destruct (N.eqb c 101 || N.eqb c 69); [|congruence].
  destruct (split_sign t) as [eneg t'].
  destruct (digit_part dec_val 10 t') as [[[ev k] [|x rest]]|]; congruence.
Qed.

(** ------------------------------------------------------------------ C16_roundtrip *)

Lemma roundtrip : forall d, dialect d ->
  forall ws0 key ws1 ws2 v ws3 comment,
  all_space ws0 = true -> all_space ws1 = true -> all_space ws2 = true -> all_space ws3 = true ->
  good_key d key = true -> good_val d v = true ->
  parse_line (render_line ws0 key ws1 ws2 (render_val d v) ws3 comment) d
  = Ok (Some (key, expect_val v)).
Proof.
  intros d Hdia ws0 key ws1 ws2 v ws3 comment H0 H1 H2 H3 Hk Hv.
  pose proof (dialect_isq d Hdia) as Hd. rewrite render_line_pre.
  destruct v as [z | z | tok | s]; cbn [render_val expect_val good_val] in *.
  - rewrite (parse_line_bare d Hd ws0 key ws1 ws2 H0 H1 H2 Hk (dec_of_Z z) ws3 comment
               (tok_char_bare_text _ (forallb_impl _ _ _ dec_char_tok (proj2 (dec_of_Z_chars z)))) H3).
    now rewrite parse_bare_dec.
  - rewrite (parse_line_bare d Hd ws0 key ws1 ws2 H0 H1 H2 Hk (hex_of_Z z) ws3 comment
               (tok_char_bare_text _ (forallb_impl _ _ _ hex_tok_char_tok (proj2 (hex_of_Z_chars z)))) H3).
    now rewrite parse_bare_hex.
  - unfold good_float_tok in Hv. apply andb_true_iff in Hv as [Hv Hf]. apply andb_true_iff in Hv as [Hc Hm].
    rewrite (parse_line_bare d Hd ws0 key ws1 ws2 H0 H1 H2 Hk tok ws3 comment (tok_char_bare_text tok Hc) H3).
    destruct (py_float tok) as [f|e] eqn:Ef; [|discriminate].
    now rewrite (parse_bare_float tok f (tok_char_no_space tok Hc) Hm Ef).
  - exact (parse_line_quoted d Hd ws0 key ws1 ws2 H0 H1 H2 Hk s ws3 comment Hv H3).
Qed.

(** ------------------------------------------------------------------ C16_blank *)

Lemma blank : forall d, dialect d -> forall ws, all_space ws = true ->
  parse_line ws d = Ok None /\ (forall text, parse_line (ws ++ 35%N :: text) d = Ok None).
Proof.
  intros d Hdia ws Hws. pose proof (dialect_isq d Hdia) as Hd. split.
  - now apply parse_line_blank.
  - intros text. now apply parse_line_comment_only.
Qed.

(** ------------------------------------------------------------------ C16_malformed *)

Lemma malformed : forall d, dialect d ->
  (* no '=' in a line that has something in front of its first '#' *)
  (forall line, lacks 61 line = true -> py_strip (before_hash line) <> [] ->
     parse_line line d = Err EPhoenix)
  /\
  (* opening delimiter, and no further delimiter anywhere after it *)
  (forall ws0 key ws1 ws2 s,
     all_space ws0 = true -> all_space ws1 = true -> all_space ws2 = true -> good_key d key = true ->
     find_sub d s = None ->
     parse_line (ws0 ++ key ++ ws1 ++ [61%N] ++ ws2 ++ d ++ s) d = Err EPhoenix)
  /\
  (* a well-formed string followed by something that is neither blank nor a comment *)
  (forall ws0 key ws1 ws2 s ws c rest,
     all_space ws0 = true -> all_space ws1 = true -> all_space ws2 = true -> good_key d key = true ->
     good_str d s = true -> all_space ws = true -> py_isspace c = false -> c <> 35%N ->
     parse_line (ws0 ++ key ++ ws1 ++ [61%N] ++ ws2 ++ (d ++ s ++ d) ++ ws ++ c :: rest) d = Err EPhoenix)
  /\
  (* a bare text (possibly empty, possibly with inner blanks: a number followed by junk) that none of
     int(s), int(s,16), float(s) accepts *)
  (forall ws0 key ws1 ws2 tok ws3 comment,
     all_space ws0 = true -> all_space ws1 = true -> all_space ws2 = true -> all_space ws3 = true ->
     good_key d key = true -> bare_text tok = true ->
     is_ok (py_int tok) = false -> is_ok (py_int16 tok) = false -> is_ok (py_float tok) = false ->
     parse_line (render_line ws0 key ws1 ws2 tok ws3 comment) d = Err EPhoenix).
Proof.
  intros d Hdia. pose proof (dialect_isq d Hdia) as Hd. repeat split.
  - intros line. apply parse_line_no_equals.
  - intros ws0 key ws1 ws2 s H0 H1 H2 Hk Hs.
    replace (ws0 ++ key ++ ws1 ++ [61%N] ++ ws2 ++ d ++ s) with (pre ws0 key ws1 ws2 ++ d ++ s)
      by (unfold pre; reassoc).
    exact (parse_line_unterminated d Hd ws0 key ws1 ws2 H0 H1 H2 Hk s Hs).
  - intros ws0 key ws1 ws2 s ws c rest H0 H1 H2 Hk Hs Hws Hc Hc35.
    replace (ws0 ++ key ++ ws1 ++ [61%N] ++ ws2 ++ (d ++ s ++ d) ++ ws ++ c :: rest)
      with (pre ws0 key ws1 ws2 ++ (d ++ s ++ d) ++ ws ++ c :: rest) by (unfold pre; reassoc).
    exact (parse_line_junk d Hd ws0 key ws1 ws2 H0 H1 H2 Hk s ws c rest Hs Hws Hc Hc35).
  - intros ws0 key ws1 ws2 tok ws3 comment H0 H1 H2 H3 Hk Ht Hi Hh Hf.
    rewrite render_line_pre.
    rewrite (parse_line_bare d Hd ws0 key ws1 ws2 H0 H1 H2 Hk tok ws3 comment Ht H3).
    destruct (py_float tok) as [f|e] eqn:Ef; [discriminate|].
    rewrite (py_float_err tok e Ef) in Ef.
    now rewrite (parse_bare_unparsable tok Hi Hh Ef).
Qed.

(** ------------------------------------------------------------------ C16_prot *)

Lemma prot : forall pkey d, prot_dialect pkey d ->
  forall before hdr lines after,
  lacks 10 hdr = true -> Forall (fun l => lacks 10 l = true) lines ->
  (* the first BEGIN marker is the one after [before], the first END marker the one after the lines *)
  find_sub ASC_BEGIN (render_prot before hdr lines after) = Some (length before) ->
  find_sub ASC_END (render_prot before hdr lines after) = Some (length (prot_head before hdr lines)) ->
  (* every line parses: the result is the dict of the assignments, executed in order *)
  (forall results, Forall2 (fun l r => parse_line l d = Ok r) lines results ->
     let assignments := somes results in
     parse_prot pkey (render_prot before hdr lines after) = Ok (assign_all assignments [])
     /\ (forall k, lookup k (assign_all assignments []) = lookup k (rev assignments))
     /\ keys (assign_all assignments []) = first_keys (map fst assignments) [])
  /\
  (* the first line that does not parse makes the whole call raise its error *)
  (forall good results bad rest e,
     lines = good ++ bad :: rest ->
     Forall2 (fun l r => parse_line l d = Ok r) good results -> parse_line bad d = Err e ->
     parse_prot pkey (render_prot before hdr lines after) = Err e).
Proof.
  intros pkey d Hk before hdr lines after Hh Hl Hb He.
  pose proof (prot_section pkey d before hdr lines after Hk Hh Hl Hb He) as Hsec. split.
  - intros results Hres assignments. repeat split.
    + rewrite Hsec. now apply parse_lines_ok.
    + intros k. rewrite lookup_assign_all. now destruct (lookup k (rev assignments)).
    + apply keys_assign_all.
  - intros good results bad rest e -> Hgood Hbad. rewrite Hsec. now apply (parse_lines_err d good results).
Qed.

(** d[k] = v on the ordered dict: last value wins, position of the first insertion is kept *)
Lemma dict_set_spec : forall k v (dct : dict),
  (forall k', lookup k' (dict_set k v dct) = if str_eqb k' k then Some v else lookup k' dct)
  /\ keys (dict_set k v dct) = (if key_in k (keys dct) then keys dct else keys dct ++ [k]).
Proof. intros k v dct. split; [intros k'; apply lookup_dict_set | apply keys_dict_set]. Qed.

(** ------------------------------------------------------------------ numeric tokens *)

Lemma int_dec : forall z, py_int (dec_of_Z z) = Ok z.
Proof. exact py_int_dec_of_Z. Qed.

Lemma int_hex : forall z, py_int (hex_of_Z z) = Err EValue /\ py_int16 (hex_of_Z z) = Ok z.
Proof. intros z. split; [apply py_int_hex_of_Z | apply py_int16_hex_of_Z]. Qed.

Lemma lit_char_tok c : lit_char c = true -> tok_char c = true.
Proof.
  unfold lit_char. rewrite !orb_true_iff, !N.eqb_eq. intros [[[[H | ->] | ->] | ->] | ->]; try reflexivity.
  apply is_digit_cases in H. repeat (destruct H as [-> | H]; [reflexivity|]). subst c; reflexivity.
Qed.

(** float literals  [-]digits[.digits][e(+|-)digits]  with a fraction or an exponent are good float
    tokens, and their value is the correctly rounded double of the decimal number they denote *)
Lemma float_repr : forall neg ip fp ex,
  float_lit_ok ip fp ex = true ->
  has_frac_or_exp fp ex = true ->
  good_float_tok (float_lit neg ip fp ex) = true
  /\ py_float (float_lit neg ip fp ex) = Ok (float_lit_val neg ip fp ex).
Proof.
  intros neg ip fp ex Hok Hm. pose proof (py_float_lit neg ip fp ex Hok) as Hf. split; [|exact Hf].
  unfold good_float_tok. rewrite Hf, (float_lit_marker neg ip fp ex Hm).
  now rewrite (forallb_impl _ _ _ lit_char_tok (float_lit_chars neg ip fp ex Hok)).
Qed.

(** the one-quote dialect: a string is fine iff it contains no quote character *)
Lemma good_str_D1 s : good_str DELIM1 s = true <-> qfree s = true.
Proof.
  unfold good_str, DELIM1, qfree, QUOTE. split.
  - intros H. destruct (lacks 34 s) eqn:E; [reflexivity|]. exfalso.
    destruct (lacks_false_split 34 s E) as [s1 [s2 [-> H1]]].
    rewrite <- app_assoc in H. cbn [app] in H. rewrite (find_sub_char_first 34 s1 _ H1) in H.
    apply Nat.eqb_eq in H. rewrite app_length in H. cbn [length] in H. lia.
  - intros H. rewrite (find_sub_char_first 34 s [] H). apply Nat.eqb_refl.
Qed.

(** the doubled dialect: a string is fine iff it contains no two adjacent quote characters and does
    not end with a quote character (one quote character inside is allowed) *)
Lemma good_str_D2 s :
  good_str DELIM2 s = true <-> (find_sub DELIM2 s = None /\ last s 0%N <> QUOTE).
Proof.
  split.
  - intros H. split; [exact (good_str_none DELIM2 isq_D2 [] eq_refl s H)|].
    intros Hl. destruct s as [|c s'] using rev_ind; [cbn in Hl; discriminate|].
    rewrite last_last in Hl. subst c.
    unfold good_str in H. rewrite <- app_assoc in H.
    destruct (find_sub_has DELIM2 s' [QUOTE]) as [n [Hn Hle]].
    change ([QUOTE] ++ DELIM2) with (DELIM2 ++ [QUOTE]) in H. rewrite Hn in H.
    apply Nat.eqb_eq in H. rewrite app_length in H. cbn [length] in H. lia.
  - intros [Hn Hl]. unfold good_str.
    assert (E : find_sub DELIM2 (s ++ DELIM2) = Some (length s)).
    { induction s as [|c s IH]; [reflexivity|].
      rewrite find_sub_cons in Hn. destruct (prefixb DELIM2 (c :: s)) eqn:Ep; [discriminate|].
      assert (Hn' : find_sub DELIM2 s = None) by (destruct (find_sub DELIM2 s); [discriminate | reflexivity]).
      cbn [app]. rewrite find_sub_cons.
      assert (Ep2 : prefixb DELIM2 (c :: s ++ DELIM2) = false).
      { destruct s as [|c2 s2].
        - cbn [last] in Hl. unfold DELIM2. cbn [app prefixb].
          destruct (N.eqb_spec 34 c) as [E|_]; [elim Hl; now rewrite <- E | reflexivity].
        - cbn [app prefixb] in Ep |- *. exact Ep. }
      rewrite Ep2. destruct s as [|c2 s2]; [reflexivity|].
      rewrite IH; [reflexivity | exact Hn' | exact Hl]. }
    rewrite E. apply Nat.eqb_refl.
Qed.
