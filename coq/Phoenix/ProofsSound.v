(** C16: soundness of [parse_line] -- every accepted line IS a rendering of the pair it returns, and
    [Ok None] only comes from blank / comment-only lines (the converses of C16_roundtrip / C16_blank). *)
From Coq Require Import List Bool ZArith NArith QArith Arith Lia.
From DV Require Import Common.Res Common.Str Common.F64 Common.PyNum Common.PyNumFacts
                       Phoenix.Model Phoenix.Spec Phoenix.ProofsStr Phoenix.ProofsLine.
Import ListNotations.
Open Scope nat_scope.

(** ------------------------------------------------------------------ strip decompositions *)

Lemma lstrip_decomp x : exists a, x = a ++ py_lstrip x /\ all_space a = true.
Proof.
  induction x as [|c x [a [Ha Hs]]]; [now exists []|]. cbn [py_lstrip].
  destruct (py_isspace c) eqn:E; [|now exists []].
  exists (c :: a). split; [cbn [app]; now f_equal|]. cbn [all_space forallb]. now rewrite E.
Qed.

Lemma rstrip_decomp y : exists b, y = py_rstrip y ++ b /\ all_space b = true.
Proof.
  unfold py_rstrip. destruct (lstrip_decomp (rev y)) as [a [Ha Hs]]. exists (rev a). split.
  - rewrite <- rev_app_distr, <- Ha. now rewrite rev_involutive.
  - now apply all_space_rev.
Qed.

Lemma strip_decomp x :
  exists a b, x = a ++ py_strip x ++ b /\ all_space a = true /\ all_space b = true.
Proof.
  destruct (lstrip_decomp x) as [a [Ha Hsa]]. destruct (rstrip_decomp (py_lstrip x)) as [b [Hb Hsb]].
  exists a, b. unfold py_strip. repeat split; try assumption. now rewrite <- Hb.
Qed.

Lemma strip_idem x : py_strip (py_strip x) = py_strip x.
Proof.
  destruct (strip_decomp x) as [a [b [E [Ha Hb]]]].
  rewrite E at 2. now rewrite (py_strip_pad a (py_strip x) b Ha Hb).
Qed.

Lemma py_strip_nil_all_space x : py_strip x = [] -> all_space x = true.
Proof.
  intros H. destruct (all_space x) eqn:E; [reflexivity|]. exfalso.
  destruct (all_space_false_split x E) as [s1 [c [s2 [-> Hc]]]].
  now apply (py_strip_nonblank s1 c s2 Hc).
Qed.

(** ------------------------------------------------------------------ find decompositions *)

Lemma find_char_split c l i :
  find_sub [c] l = Some i ->
  l = firstn i l ++ c :: skipn (S i) l /\ lacks c (firstn i l) = true.
Proof.
  revert i; induction l as [|x l IH]; intros i; [discriminate|].
  rewrite find_sub_cons. cbn [prefixb]. destruct (N.eqb c x) eqn:E; cbn [andb].
  - intros [= <-]. apply N.eqb_eq in E; subst x. now split.
  - destruct (find_sub [c] l) as [m|] eqn:Em; [|discriminate]. intros [= <-].
    destruct (IH m eq_refl) as [H1 H2]. cbn [firstn skipn app]. split; [now f_equal|].
    rewrite lacks_cons, N.eqb_sym, E. exact H2.
Qed.

Lemma find_sub_split p y n :
  find_sub p y = Some n -> exists s R, y = s ++ p ++ R /\ length s = n.
Proof.
  revert n; induction y as [|c y IH]; intros n.
  - rewrite find_sub_nil. destruct (prefixb p []) eqn:E; [|discriminate]. intros [= <-].
    apply prefixb_nil_r in E; subst p. now exists [], [].
  - rewrite find_sub_cons. destruct (prefixb p (c :: y)) eqn:E.
    + intros [= <-]. apply prefixb_spec in E as [t Ht]. exists [], t. now split.
    + destruct (find_sub p y) as [m|]; [|discriminate]. intros [= <-].
      destruct (IH m eq_refl) as [s [R [-> Hl]]]. exists (c :: s), R. split; [reflexivity | cbn [length]; lia].
Qed.

Lemma good_str_of_find d s R : find_sub d (s ++ d ++ R) = Some (length s) -> good_str d s = true.
Proof.
  intros H. unfold good_str. destruct (find_sub_has d s []) as [n [Hn Hle]]. rewrite app_nil_r in Hn.
  rewrite Hn. pose proof (find_sub_app_l d (s ++ d) R n Hn) as H2. rewrite <- app_assoc in H2.
  rewrite H2 in H. injection H as ->. apply Nat.eqb_refl.
Qed.

(** ------------------------------------------------------------------ strip_comment *)

Lemma strip_comment_cases line d line' :
  strip_comment line d = Ok line' -> line' = line \/ exists text, line = line' ++ 35%N :: text.
Proof.
  unfold strip_comment, HASH. destruct (find_sub [35%N] line) as [ci|] eqn:E.
  - destruct (find_char_split 35 line ci E) as [Hsplit _].
    destruct (Nat.eqb _ 1).
    + destruct (find_sub d (skipn ci line)); [|discriminate]. intros [= <-]. now left.
    + intros [= <-]. right. now exists (skipn (S ci) line).
  - intros [= <-]. now left.
Qed.

(** ------------------------------------------------------------------ parse_bare *)

Lemma parse_bare_denotes d tok v :
  prefixb d tok = false -> py_strip tok = tok -> parse_bare tok = Ok v -> denotes d tok v.
Proof.
  intros Hp Hs. unfold parse_bare.
  destruct (py_int tok) as [z|e] eqn:E1.
  - intros [= <-]. cbn [denotes]. split; [exact Hp|]. split; [exact Hs|]. now left.
  - pose proof (py_int_err tok e E1) as ->. destruct (py_int16 tok) as [z|e'] eqn:E2.
    + intros [= <-]. cbn [denotes]. split; [exact Hp|]. split; [exact Hs|]. right. now split.
    + pose proof (py_int16_err tok e' E2) as ->. destruct (py_float tok) as [f|e''] eqn:E3.
      * intros [= <-]. cbn [denotes]. repeat split; assumption.
      * destruct e''; discriminate.
Qed.

(** ------------------------------------------------------------------ parse_quoted *)

Lemma parse_quoted_sound d val v :
  d <> [] -> prefixb d val = true -> parse_quoted val d = Ok v ->
  exists s R, val = (d ++ s ++ d) ++ R /\ v = PStr s /\ good_str d s = true /\
              (R = [] \/ exists a t, R = a ++ 35%N :: t /\ all_space a = true).
Proof.
  intros Hne Hp. unfold parse_quoted.
  apply prefixb_spec in Hp as [Y ->]. rewrite skipn_app_exact.
  destruct (find_sub d Y) as [e0|] eqn:Ef; [|discriminate].
  destruct (find_sub_split d Y e0 Ef) as [s [R [-> Hl]]]. subst e0.
  replace (length s + length d - length d) with (length s) by lia.
  rewrite firstn_app_exact.
  replace (length s + length d + length d) with (length d + (length s + (length d + 0))) by lia.
  rewrite !skipn_app_plus. cbn [skipn].
  destruct (negb _ && negb _) eqn:Econd; [discriminate|]. intros [= <-].
  exists s, R. repeat split.
  - now rewrite <- !app_assoc.
  - now apply (good_str_of_find d s R).
  - apply andb_false_iff in Econd as [Ec | Ec]; apply negb_false_iff in Ec.
    + left. apply Nat.eqb_eq in Ec. rewrite !app_length in Ec.
      destruct R; [reflexivity | cbn [length] in Ec; lia].
    + right. unfold HASH in Ec. destruct (py_strip R) as [|c t] eqn:Es; [discriminate|].
      cbn [prefixb] in Ec. rewrite andb_true_r in Ec. apply N.eqb_eq in Ec. subst c.
      destruct (strip_decomp R) as [a [b [E [Ha Hb]]]]. rewrite Es in E.
      exists a, (t ++ b). split; [exact E | exact Ha].
Qed.

(** ------------------------------------------------------------------ parse_body *)

Lemma parse_body_sound d line k v :
  isq d -> parse_body line d = Ok (Some (k, v)) ->
  exists ws0 ws1 ws2 tok W rest,
    line = ws0 ++ k ++ ws1 ++ 61%N :: ws2 ++ tok ++ W ++ rest
    /\ all_space ws0 = true /\ all_space ws1 = true /\ all_space ws2 = true /\ all_space W = true
    /\ (rest = [] \/ exists t, rest = 35%N :: t)
    /\ lacks 61 k = true /\ py_strip k = k /\ denotes d tok v.
Proof.
  intros Hd. unfold parse_body, EQUALS.
  destruct (str_eqb (py_strip line) []); [discriminate|].
  destruct (find_sub [61%N] line) as [ei|] eqn:Ee; [|discriminate].
  destruct (find_char_split 61 line ei Ee) as [Hline Hlk].
  set (A := firstn ei line) in *. set (B := skipn (S ei) line) in *.
  destruct (strip_decomp A) as [ws0 [ws1 [EA [H0 H1]]]].
  destruct (strip_decomp B) as [ws2 [ws3 [EB [H2 H3]]]].
  remember (py_strip A) as kk eqn:Hkk. remember (py_strip B) as vv eqn:Hvv.
  assert (Hkid : py_strip kk = kk) by (rewrite Hkk; apply strip_idem).
  assert (Hvid : py_strip vv = vv) by (rewrite Hvv; apply strip_idem).
  assert (Hk61 : lacks 61 kk = true).
  { rewrite EA, !lacks_app in Hlk. apply andb_true_iff in Hlk as [_ Hlk]. now apply andb_true_iff in Hlk as [Hlk _]. }
  destruct (prefixb d vv) eqn:Ep.
  - destruct (parse_quoted vv d) as [pv|e] eqn:Eq; [|discriminate].
    cbn [bind]. intros [= <- <-].
    destruct (parse_quoted_sound d vv pv (proj1 Hd) Ep Eq) as [s [R [EV [-> [Hg HR]]]]].
    destruct HR as [-> | [a [t [-> Ha]]]].
    + exists ws0, ws1, ws2, (d ++ s ++ d), ws3, []. repeat split; try assumption; auto.
      rewrite Hline, EA, EB, EV, ?app_nil_r. reassoc.
    + exists ws0, ws1, ws2, (d ++ s ++ d), a, (35%N :: t ++ ws3). repeat split; try assumption; auto.
      * rewrite Hline, EA, EB, EV. reassoc.
      * right. now exists (t ++ ws3).
  - destruct (parse_bare vv) as [pv|e] eqn:Eb; [|discriminate].
    cbn [bind]. intros [= <- <-].
    exists ws0, ws1, ws2, vv, ws3, []. repeat split; try assumption; auto.
    + rewrite Hline, EA, EB, ?app_nil_r. reassoc.
    + now apply parse_bare_denotes.
Qed.

(** ------------------------------------------------------------------ parse_line *)

Theorem parse_line_sound : forall d, dialect d -> forall line k v,
  parse_line line d = Ok (Some (k, v)) ->
  exists ws0 ws1 ws2 tok ws3 comment,
    line = render_line ws0 k ws1 ws2 tok ws3 comment
    /\ all_space ws0 = true /\ all_space ws1 = true /\ all_space ws2 = true /\ all_space ws3 = true
    /\ lacks 61 k = true /\ py_strip k = k
    /\ denotes d tok v.
Proof.
  intros d Hdia line k v H. assert (Hd : isq d) by (destruct Hdia as [-> | ->]; [exact isq_D2 | exact isq_D1]).
  unfold parse_line in H. destruct (strip_comment line d) as [line'|e] eqn:Es; [|discriminate].
  cbn [bind] in H.
  destruct (parse_body_sound d line' k v Hd H) as [ws0 [ws1 [ws2 [tok [W [rest [E [H0 [H1 [H2 [HW [Hrest [Hk1 [Hk2 Hden]]]]]]]]]]]]]].
  destruct (strip_comment_cases line d line' Es) as [-> | [text ->]]; destruct Hrest as [-> | [t ->]].
  - exists ws0, ws1, ws2, tok, W, None. repeat split; try assumption; try (rewrite E; unfold render_line, trailer; reassoc).
  - exists ws0, ws1, ws2, tok, W, (Some t). repeat split; try assumption; try (rewrite E; unfold render_line, trailer; reassoc).
  - exists ws0, ws1, ws2, tok, W, (Some text). repeat split; try assumption; try (rewrite E; unfold render_line, trailer; reassoc).
  - exists ws0, ws1, ws2, tok, W, (Some (t ++ 35%N :: text)). repeat split; try assumption;
      try (rewrite E; unfold render_line, trailer; reassoc).
Qed.

(** [Ok None] only for blank and comment-only lines (any delimiter) *)
Theorem parse_line_none_sound : forall d line,
  parse_line line d = Ok None ->
  all_space line = true \/ exists ws text, line = ws ++ 35%N :: text /\ all_space ws = true.
Proof.
  intros d line H. unfold parse_line in H.
  destruct (strip_comment line d) as [line'|e] eqn:Es; [|discriminate]. cbn [bind] in H.
  assert (Hb : all_space line' = true).
  { unfold parse_body in H. destruct (str_eqb_spec (py_strip line') []) as [E|_].
    - now apply py_strip_nil_all_space.
    - destruct (find_sub EQUALS line'); [|discriminate].
      destruct (if prefixb d _ then _ else _); discriminate. }
  destruct (strip_comment_cases line d line' Es) as [-> | [text ->]]; [now left|].
  right. now exists line', text.
Qed.

(** ------------------------------------------------------------------ exact partial inverse on bare texts
    For a good key and any bare text [tok] (no '#', no quote, no outer blanks):
    the rendered line is accepted with value [v]  iff  [tok] denotes [v]. *)

Lemma bare_text_not_prefix d tok : isq d -> bare_text tok = true -> prefixb d tok = false.
Proof.
  intros Hd Ht. destruct (bare_text_facts tok Ht) as [_ [Hq _]].
  destruct tok as [|c r].
  - destruct (isq_cons d Hd) as [d' [-> _]]. reflexivity.
  - apply (prefixb_q_nonq d c r Hd). unfold qfree in Hq. rewrite lacks_cons in Hq.
    apply andb_true_iff in Hq as [Hq _]. now apply negb_true_iff in Hq.
Qed.

Lemma denotes_parse_bare d tok v : isq d -> bare_text tok = true -> denotes d tok v -> parse_bare tok = Ok v.
Proof.
  intros Hd Ht Hden. unfold parse_bare. destruct v as [z | f | s]; cbn [denotes] in Hden.
  - destruct Hden as [_ [_ [H | [H1 H2]]]]; [now rewrite H | now rewrite H1, H2].
  - destruct Hden as [_ [_ [H1 [H2 H3]]]]. now rewrite H1, H2, H3.
  - exfalso. destruct Hden as [-> _]. pose proof (bare_text_not_prefix d _ Hd Ht) as Hp.
    now rewrite prefixb_app in Hp.
Qed.

Theorem bare_accepts_iff : forall d, dialect d ->
  forall ws0 key ws1 ws2 tok ws3 comment v,
  all_space ws0 = true -> all_space ws1 = true -> all_space ws2 = true -> all_space ws3 = true ->
  good_key d key = true -> bare_text tok = true ->
  (parse_line (render_line ws0 key ws1 ws2 tok ws3 comment) d = Ok (Some (key, v)) <-> denotes d tok v).
Proof.
  intros d Hdia ws0 key ws1 ws2 tok ws3 comment v H0 H1 H2 H3 Hk Ht.
  assert (Hd : isq d) by (destruct Hdia as [-> | ->]; [exact isq_D2 | exact isq_D1]).
  assert (E : render_line ws0 key ws1 ws2 tok ws3 comment = pre ws0 key ws1 ws2 ++ tok ++ trailer ws3 comment)
    by (unfold render_line, pre; reassoc).
  rewrite E, (parse_line_bare d Hd ws0 key ws1 ws2 H0 H1 H2 Hk tok ws3 comment Ht H3).
  destruct (bare_text_facts tok Ht) as [_ [_ Hs]]. split.
  - destruct (parse_bare tok) as [pv|e] eqn:Eb; [|discriminate]. cbn [bind]. intros [= <-].
    apply parse_bare_denotes; [now apply bare_text_not_prefix | exact Hs | exact Eb].
  - intros Hden. now rewrite (denotes_parse_bare d tok v Hd Ht Hden).
Qed.
