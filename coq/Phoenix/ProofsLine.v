(** C16: proofs about [parse_line] (model of extract._parse_phoenix_line). *)
From Coq Require Import List Bool ZArith NArith QArith Arith Lia.
From DV Require Import Common.Res Common.Str Common.F64 Common.PyNum Common.PyNumFacts
                       Phoenix.Model Phoenix.Spec Phoenix.ProofsStr.
Import ListNotations.
Open Scope nat_scope.

(** ------------------------------------------------------------------ small helpers *)

Ltac reassoc := rewrite <- ?app_assoc; cbn [app]; rewrite <- ?app_assoc; reflexivity.

Lemma all_space_lacks c a : py_isspace c = false -> all_space a = true -> lacks c a = true.
Proof.
  intros Hc Ha. unfold lacks, all_space in *. rewrite forallb_forall in *. intros x Hx.
  apply negb_true_iff, N.eqb_neq. intros ->. rewrite (Ha c Hx) in Hc. discriminate.
Qed.

Lemma lacks_false_split c s :
  lacks c s = false -> exists s1 s2, s = s1 ++ c :: s2 /\ lacks c s1 = true.
Proof.
  induction s as [|a s IH]; [discriminate|]. rewrite lacks_cons.
  destruct (N.eqb a c) eqn:E.
  - apply N.eqb_eq in E; subst a. intros _. now exists [], s.
  - cbn [negb andb]. intros H. destruct (IH H) as [s1 [s2 [-> H1]]].
    exists (a :: s1), s2. split; [reflexivity|]. now rewrite lacks_cons, E.
Qed.

Lemma all_space_false_split s :
  all_space s = false -> exists s1 c s2, s = s1 ++ c :: s2 /\ py_isspace c = false.
Proof.
  induction s as [|a s IH]; [discriminate|]. cbn [all_space forallb].
  destruct (py_isspace a) eqn:E.
  - cbn [andb]. intros H. destruct (IH H) as [s1 [c [s2 [-> Hc]]]]. now exists (a :: s1), c, s2.
  - intros _. now exists [], a, s.
Qed.

Lemma py_strip_nonblank_inv A :
  py_strip A <> [] -> exists A1 c A2, A = A1 ++ c :: A2 /\ py_isspace c = false.
Proof.
  intros H. destruct (all_space A) eqn:E.
  - now rewrite (py_strip_all_space A E) in H.
  - now apply all_space_false_split.
Qed.

Lemma py_strip_app_nonblank A B : py_strip A <> [] -> py_strip (A ++ B) <> [].
Proof.
  intros H. destruct (py_strip_nonblank_inv A H) as [A1 [c [A2 [-> Hc]]]].
  rewrite <- app_assoc. cbn [app]. now apply py_strip_nonblank.
Qed.

Lemma py_lstrip_suffix x : exists w, x = w ++ py_lstrip x.
Proof.
  induction x as [|a x [w Hw]]; [now exists []|]. cbn [py_lstrip].
  destruct (py_isspace a); [|now exists []].
  exists (a :: w). cbn [app]. f_equal. exact Hw.
Qed.

Lemma py_rstrip_prefix s : exists w, s = py_rstrip s ++ w.
Proof.
  unfold py_rstrip. destruct (py_lstrip_suffix (rev s)) as [w Hw]. exists (rev w).
  rewrite <- rev_app_distr, <- Hw, rev_involutive. reflexivity.
Qed.

Lemma py_strip_body ws c X Y z tail :
  all_space ws = true -> py_isspace c = false -> py_isspace z = false -> c :: X = Y ++ [z] ->
  py_strip (ws ++ (c :: X) ++ tail) = (c :: X) ++ py_rstrip tail.
Proof.
  intros Hws Hc Hz E. unfold py_strip. rewrite (py_lstrip_space_app ws _ Hws).
  change ((c :: X) ++ tail) with (c :: (X ++ tail)). rewrite (py_lstrip_cons_nonspace _ _ Hc).
  change (c :: (X ++ tail)) with ((c :: X) ++ tail). rewrite E.
  rewrite <- !app_assoc. cbn [app]. now apply py_rstrip_app_nonspace.
Qed.

Lemma skipn_S_app {A} (a : list A) x b : skipn (S (length a)) (a ++ x :: b) = b.
Proof. induction a as [|y a IH]; [reflexivity | exact IH]. Qed.

Lemma find_sub_app_None_r p a b : find_sub p (a ++ b) = None -> find_sub p b = None.
Proof.
  induction a as [|c a IH]; [easy|]. cbn [app]. rewrite find_sub_cons.
  destruct (prefixb p (c :: a ++ b)); [discriminate|].
  destruct (find_sub p (a ++ b)); [discriminate|]. intros _. now apply IH.
Qed.

Lemma str_eqb_nil_false s : s <> [] -> str_eqb s [] = false.
Proof. destruct s; [congruence | reflexivity]. Qed.

Lemma space_quote : py_isspace QUOTE = false. Proof. reflexivity. Qed.
Lemma space_hash : py_isspace 35 = false. Proof. reflexivity. Qed.
Lemma space_equals : py_isspace 61 = false. Proof. reflexivity. Qed.

Lemma tok_char_no_space tok : forallb tok_char tok = true -> no_space tok = true.
Proof.
  unfold no_space. rewrite !forallb_forall. intros H x Hx. specialize (H x Hx).
  unfold tok_char in H. apply andb_true_iff in H as [H _]. now apply andb_true_iff in H as [H _].
Qed.

Lemma tok_char_lacks_hash tok : forallb tok_char tok = true -> lacks 35 tok = true.
Proof.
  unfold lacks. rewrite !forallb_forall. intros H x Hx. specialize (H x Hx).
  unfold tok_char in H. apply andb_true_iff in H as [H _]. now apply andb_true_iff in H as [_ H].
Qed.

Lemma tok_char_qfree tok : forallb tok_char tok = true -> qfree tok = true.
Proof.
  unfold qfree, lacks. rewrite !forallb_forall. intros H x Hx. specialize (H x Hx).
  unfold tok_char in H. now apply andb_true_iff in H as [_ H].
Qed.

Lemma tok_char_bare_text tok : forallb tok_char tok = true -> bare_text tok = true.
Proof.
  intros H. unfold bare_text.
  rewrite (tok_char_lacks_hash tok H), (tok_char_qfree tok H), (py_strip_no_space tok (tok_char_no_space tok H)).
  now rewrite str_eqb_refl.
Qed.

Lemma bare_text_facts tok :
  bare_text tok = true -> lacks 35 tok = true /\ qfree tok = true /\ py_strip tok = tok.
Proof.
  unfold bare_text. intros H. apply andb_true_iff in H as [H H3]. apply andb_true_iff in H as [H1 H2].
  repeat split; try assumption. now apply str_eqb_eq.
Qed.

(** ------------------------------------------------------------------ strip_comment *)

Lemma strip_comment_no_hash line d : lacks 35 line = true -> strip_comment line d = Ok line.
Proof. intros H. unfold strip_comment, HASH. now rewrite (find_sub_char_None 35 line H). Qed.

Lemma strip_comment_hash A T d :
  lacks 35 A = true ->
  strip_comment (A ++ 35%N :: T) d =
    if Nat.eqb (count_sub d A) 1
    then match find_sub d (35%N :: T) with None => Err EPhoenix | Some _ => Ok (A ++ 35%N :: T) end
    else Ok A.
Proof.
  intros H. unfold strip_comment, HASH. rewrite (find_sub_char_first 35 A T H).
  now rewrite firstn_app_exact, skipn_app_exact.
Qed.

(** ------------------------------------------------------------------ parse_body, generic *)

Lemma parse_body_blank line d : py_strip line = [] -> parse_body line d = Ok None.
Proof. intros H. unfold parse_body. now rewrite H. Qed.

Lemma parse_body_no_equals line d :
  py_strip line <> [] -> lacks 61 line = true -> parse_body line d = Err EPhoenix.
Proof.
  intros H1 H2. unfold parse_body, EQUALS. rewrite (str_eqb_nil_false _ H1).
  now rewrite (find_sub_char_None 61 line H2).
Qed.

(** ------------------------------------------------------------------ lines  ws0 key ws1 = ws2 ... *)

Section Line.
  Variable d : str.
  Hypothesis Hd : isq d.
  Variables ws0 key ws1 ws2 : str.
  Hypothesis Hw0 : all_space ws0 = true.
  Hypothesis Hw1 : all_space ws1 = true.
  Hypothesis Hw2 : all_space ws2 = true.
  Hypothesis Hkey : good_key d key = true.

  Definition pre : str := ws0 ++ key ++ ws1 ++ 61%N :: ws2.

  Lemma d_ne : d <> [].
  Proof. exact (proj1 Hd). Qed.

  Lemma key_facts :
    lacks 61 key = true /\ lacks 35 key = true /\ py_strip key = key /\ find_sub d key = None.
  Proof.
    unfold good_key in Hkey. apply andb_true_iff in Hkey as [H H4]. apply andb_true_iff in H as [H H3].
    apply andb_true_iff in H as [H1 H2]. repeat split; try assumption.
    - now apply str_eqb_eq.
    - unfold containsb in H4. destruct (find_sub d key); [discriminate | reflexivity].
  Qed.

  Lemma pre_split X : pre ++ X = (ws0 ++ key ++ ws1) ++ 61%N :: (ws2 ++ X).
  Proof. unfold pre. rewrite <- !app_assoc. cbn [app]. reflexivity. Qed.

  Lemma pre_lacks_hash : lacks 35 pre = true.
  Proof.
    destruct key_facts as [_ [H _]]. unfold pre.
    rewrite !lacks_app, lacks_cons, H.
    rewrite (all_space_lacks 35 ws0 space_hash Hw0), (all_space_lacks 35 ws1 space_hash Hw1),
            (all_space_lacks 35 ws2 space_hash Hw2). reflexivity.
  Qed.

  Lemma pre_find_equals X : find_sub EQUALS (pre ++ X) = Some (length (ws0 ++ key ++ ws1)).
  Proof.
    destruct key_facts as [H _]. rewrite pre_split. unfold EQUALS. apply find_sub_char_first.
    rewrite !lacks_app, H.
    now rewrite (all_space_lacks 61 ws0 space_equals Hw0), (all_space_lacks 61 ws1 space_equals Hw1).
  Qed.

  Lemma pre_find_d X :
    find_sub d (pre ++ X) = option_map (fun n => length pre + n) (find_sub d X).
  Proof.
    destruct key_facts as [_ [_ [_ Hk]]]. unfold pre.
    replace ((ws0 ++ key ++ ws1 ++ 61%N :: ws2) ++ X) with (ws0 ++ key ++ (ws1 ++ 61%N :: ws2) ++ X)
      by (rewrite <- !app_assoc; reflexivity).
    rewrite (find_sub_qfree_skip d ws0 _ Hd (all_space_lacks QUOTE ws0 space_quote Hw0)).
    rewrite (find_sub_key_skip d key (ws1 ++ 61%N :: ws2) X Hd Hk).
    - destruct (find_sub d X); cbn [option_map]; [|reflexivity].
      f_equal. rewrite ?app_length. cbn [length]. rewrite ?app_length. cbn [length]. lia.
    - destruct ws1; discriminate.
    - unfold qfree. rewrite lacks_app, lacks_cons.
      now rewrite (all_space_lacks QUOTE ws1 space_quote Hw1), (all_space_lacks QUOTE ws2 space_quote Hw2).
  Qed.

  Lemma pre_nonblank X : py_strip (pre ++ X) <> [].
  Proof. rewrite pre_split. apply py_strip_nonblank. exact space_equals. Qed.

  (** the common part of parse_body on such a line: key and value text are split at the first '=' *)
  Lemma parse_body_pre X :
    parse_body (pre ++ X) d =
      bind (let val_str := py_strip (ws2 ++ X) in
            if prefixb d val_str then parse_quoted val_str d else parse_bare val_str)
           (fun v => Ok (Some (key, v))).
  Proof.
    destruct key_facts as [_ [_ [Hs _]]].
    unfold parse_body. rewrite (str_eqb_nil_false _ (pre_nonblank X)), pre_find_equals.
    rewrite pre_split, firstn_app_exact, skipn_S_app.
    rewrite (py_strip_pad ws0 key ws1 Hw0 Hw1), Hs. reflexivity.
  Qed.

  (** --- bare tokens *)
  Lemma parse_body_bare tok ws3 :
    bare_text tok = true -> all_space ws3 = true ->
    parse_body (pre ++ tok ++ ws3) d = bind (parse_bare tok) (fun v => Ok (Some (key, v))).
  Proof.
    intros Ht Hw3. destruct (bare_text_facts tok Ht) as [_ [Hq Hst]].
    rewrite parse_body_pre. cbv zeta.
    rewrite (py_strip_pad ws2 tok ws3 Hw2 Hw3), Hst.
    assert (Hp : prefixb d tok = false).
    { destruct tok as [|c r].
      - destruct (isq_cons d Hd) as [d' [-> _]]. reflexivity.
      - apply (prefixb_q_nonq d c r Hd). unfold qfree in Hq. rewrite lacks_cons in Hq.
        apply andb_true_iff in Hq as [Hq _]. now apply negb_true_iff in Hq. }
    now rewrite Hp.
  Qed.

  (** --- quoted strings *)
  Lemma quoted_strip M tail :
    py_strip (ws2 ++ (d ++ M ++ d) ++ tail) = (d ++ M ++ d) ++ py_rstrip tail.
  Proof.
    destruct (isq_cons d Hd) as [d' [Hd1 _]]. destruct (isq_snoc d Hd) as [d'' Hd2].
    assert (E1 : d ++ M ++ d = QUOTE :: (d' ++ M ++ d)) by (rewrite Hd1 at 1; reflexivity).
    assert (E2 : d ++ M ++ d = (d ++ M ++ d'') ++ [QUOTE]).
    { rewrite Hd2 at 2. now rewrite <- !app_assoc. }
    rewrite E1. apply (py_strip_body ws2 QUOTE _ (d ++ M ++ d'') QUOTE tail Hw2 space_quote space_quote).
    now rewrite <- E1.
  Qed.

  Lemma good_str_find s X : good_str d s = true -> find_sub d (s ++ d ++ X) = Some (length s).
  Proof.
    unfold good_str. destruct (find_sub d (s ++ d)) as [n|] eqn:E; [|discriminate].
    intros H. apply Nat.eqb_eq in H; subst n.
    rewrite app_assoc. now apply find_sub_app_l.
  Qed.

  Lemma good_str_none s : good_str d s = true -> find_sub d s = None.
  Proof.
    intros H. pose proof (good_str_find s [] H) as H1. rewrite app_nil_r in H1.
    destruct (find_sub d s) as [n|] eqn:E; [|reflexivity]. exfalso.
    pose proof (find_sub_Some_bound _ _ _ E) as Hb.
    rewrite (find_sub_app_l d s d n E) in H1. injection H1 as ->.
    pose proof d_ne. destruct d; [congruence | cbn [length] in Hb; lia].
  Qed.

  Lemma parse_quoted_ok s R :
    good_str d s = true -> (R = [] \/ prefixb HASH (py_strip R) = true) ->
    parse_quoted ((d ++ s ++ d) ++ R) d = Ok (PStr s).
  Proof.
    intros Hs HR. unfold parse_quoted.
    replace ((d ++ s ++ d) ++ R) with (d ++ s ++ d ++ R) by reassoc.
    rewrite skipn_app_exact, (good_str_find s R Hs).
    replace (length s + length d - length d) with (length s) by lia.
    rewrite firstn_app_exact.
    replace (length s + length d + length d) with (length d + (length s + (length d + 0))) by lia.
    rewrite !skipn_app_plus. cbn [skipn].
    destruct HR as [-> | HR].
    - assert (E : Nat.eqb (length s + length d) (length (d ++ s ++ d ++ []) - length d) = true).
      { apply Nat.eqb_eq. rewrite !app_length. cbn [length]. lia. }
      now rewrite E.
    - rewrite HR. cbn [negb]. now rewrite andb_false_r.
  Qed.

  Lemma parse_body_quoted s tail :
    good_str d s = true ->
    (py_rstrip tail = [] \/ prefixb HASH (py_strip (py_rstrip tail)) = true) ->
    parse_body (pre ++ (d ++ s ++ d) ++ tail) d = Ok (Some (key, PStr s)).
  Proof.
    intros Hs HR. rewrite parse_body_pre. cbv zeta. rewrite quoted_strip.
    assert (Hp : prefixb d ((d ++ s ++ d) ++ py_rstrip tail) = true)
      by (rewrite <- app_assoc; apply prefixb_app).
    rewrite Hp, (parse_quoted_ok s _ Hs HR). reflexivity.
  Qed.

  (** junk that is not a comment after the closing delimiter *)
  Lemma parse_body_junk s ws c rest :
    good_str d s = true -> all_space ws = true -> py_isspace c = false -> c <> 35%N ->
    parse_body (pre ++ (d ++ s ++ d) ++ ws ++ c :: rest) d = Err EPhoenix.
  Proof.
    intros Hs Hws Hc Hc35. rewrite parse_body_pre. cbv zeta. rewrite quoted_strip.
    rewrite (py_rstrip_app_nonspace ws c rest Hc).
    set (R := ws ++ c :: py_rstrip rest).
    assert (Hp : prefixb d ((d ++ s ++ d) ++ R) = true) by (rewrite <- app_assoc; apply prefixb_app).
    rewrite Hp. unfold parse_quoted.
    replace ((d ++ s ++ d) ++ R) with (d ++ s ++ d ++ R) by reassoc.
    rewrite skipn_app_exact, (good_str_find s R Hs).
    replace (length s + length d + length d) with (length d + (length s + (length d + 0))) by lia.
    rewrite !skipn_app_plus. cbn [skipn].
    assert (E : Nat.eqb (length s + length d) (length (d ++ s ++ d ++ R) - length d) = false).
    { apply Nat.eqb_neq. unfold R. rewrite !app_length. cbn [length]. lia. }
    rewrite E. unfold R. rewrite (py_strip_lead ws c _ Hws Hc). unfold HASH. cbn [prefixb negb andb].
    apply N.eqb_neq in Hc35. rewrite N.eqb_sym, Hc35. reflexivity.
  Qed.

  (** no closing delimiter *)
  Lemma parse_body_unterminated s :
    find_sub d s = None -> parse_body (pre ++ d ++ s) d = Err EPhoenix.
  Proof.
    intros Hs. rewrite parse_body_pre. cbv zeta.
    destruct (isq_cons d Hd) as [d' [Hd1 _]]. destruct (isq_snoc d Hd) as [d'' Hd2].
    assert (Hst : py_strip (ws2 ++ d ++ s) = d ++ py_rstrip s).
    { rewrite Hd1 at 1 2. apply (py_strip_body ws2 QUOTE d' d'' QUOTE s Hw2 space_quote space_quote).
      now rewrite <- Hd1. }
    rewrite Hst, prefixb_app. unfold parse_quoted. rewrite skipn_app_exact.
    destruct (py_rstrip_prefix s) as [w Hw].
    assert (Hn : find_sub d (py_rstrip s) = None).
    { apply (find_sub_app_None_l d (py_rstrip s) w). now rewrite <- Hw. }
    now rewrite Hn.
  Qed.

  (** ---------------------------------------------------------------- parse_line *)

  Lemma count_pre_clean X : qfree X = true -> count_sub d (pre ++ X) = 0.
  Proof.
    intros HX. apply count_sub_None; [exact d_ne|].
    now rewrite pre_find_d, (find_sub_qfree_None d X Hd HX).
  Qed.

  (** [pre ++ d ++ Y]: one occurrence, then whatever [Y] has *)
  Lemma count_pre_open Y : count_sub d (pre ++ d ++ Y) = S (count_sub d Y).
  Proof.
    assert (H : find_sub d (pre ++ d ++ Y) = Some (length pre)).
    { rewrite pre_find_d. destruct (find_sub_has d [] Y) as [n [Hn Hle]]. cbn [app length] in Hn, Hle.
      rewrite Hn. cbn [option_map]. f_equal. lia. }
    rewrite (count_sub_Some d _ _ d_ne H).
    replace (length pre + length d) with (length pre + (length d + 0)) by lia.
    now rewrite !skipn_app_plus.
  Qed.

  Lemma count_good_str s Y : good_str d s = true -> count_sub d (s ++ d ++ Y) = S (count_sub d Y).
  Proof.
    intros Hs. rewrite (count_sub_Some d _ _ d_ne (good_str_find s Y Hs)).
    replace (length s + length d) with (length s + (length d + 0)) by lia.
    now rewrite !skipn_app_plus.
  Qed.

  Lemma trailer_ok ws3 comment :
    all_space ws3 = true ->
    py_rstrip (trailer ws3 comment) = [] \/
    prefixb HASH (py_strip (py_rstrip (trailer ws3 comment))) = true.
  Proof.
    intros Hw3. unfold trailer. destruct comment as [c|].
    - right. rewrite (py_rstrip_app_nonspace ws3 35%N c space_hash).
      now rewrite (py_strip_lead ws3 35%N _ Hw3 space_hash).
    - left. rewrite app_nil_r. now apply py_rstrip_all_space.
  Qed.

  (** bare token, with or without a trailing comment *)
  Theorem parse_line_bare tok ws3 comment :
    bare_text tok = true -> all_space ws3 = true ->
    parse_line (pre ++ tok ++ trailer ws3 comment) d
    = bind (parse_bare tok) (fun v => Ok (Some (key, v))).
  Proof.
    intros Ht Hw3. destruct (bare_text_facts tok Ht) as [Hh [Hq _]]. unfold parse_line, trailer.
    assert (HA : lacks 35 (pre ++ tok ++ ws3) = true).
    { now rewrite !lacks_app, pre_lacks_hash, Hh, (all_space_lacks 35 ws3 space_hash Hw3). }
    destruct comment as [c|].
    - replace (pre ++ tok ++ ws3 ++ 35%N :: c) with ((pre ++ tok ++ ws3) ++ 35%N :: c) by reassoc.
      rewrite (strip_comment_hash _ c d HA).
      rewrite (count_pre_clean (tok ++ ws3)).
      + cbn [Nat.eqb bind]. now apply parse_body_bare.
      + unfold qfree in *. rewrite lacks_app.
        now rewrite Hq, (all_space_lacks QUOTE ws3 space_quote Hw3).
    - rewrite app_nil_r, (strip_comment_no_hash _ d HA). cbn [bind]. now apply parse_body_bare.
  Qed.

  Lemma d_lacks_hash : lacks 35 d = true.
  Proof. apply isq_lacks_other; [exact Hd | discriminate]. Qed.

  (** what strip_comment does to a line whose value is a well-formed quoted string followed by [tail]:
      either the line is kept, or it is cut at a '#' that lies inside [tail] *)
  Lemma strip_comment_quoted s tail :
    good_str d s = true ->
    exists tail',
      strip_comment (pre ++ (d ++ s ++ d) ++ tail) d = Ok (pre ++ (d ++ s ++ d) ++ tail') /\
      (tail' = tail \/ exists t2, tail = tail' ++ 35%N :: t2 /\ lacks 35 tail' = true).
  Proof.
    intros Hs. destruct (lacks 35 s) eqn:Hsh.
    - (* no '#' inside the string *)
      destruct (lacks 35 tail) eqn:Hth.
      + exists tail. split; [|now left]. apply strip_comment_no_hash.
        now rewrite !lacks_app, pre_lacks_hash, d_lacks_hash, Hsh, Hth.
      + destruct (lacks_false_split 35 tail Hth) as [t1 [t2 [-> Ht1]]].
        exists t1. split; [|right; now exists t2].
        replace (pre ++ (d ++ s ++ d) ++ t1 ++ 35%N :: t2) with ((pre ++ (d ++ s ++ d) ++ t1) ++ 35%N :: t2)
          by reassoc.
        rewrite strip_comment_hash.
        * replace (pre ++ (d ++ s ++ d) ++ t1) with (pre ++ d ++ s ++ d ++ t1) by reassoc.
          rewrite count_pre_open, (count_good_str s t1 Hs). reflexivity.
        * now rewrite !lacks_app, pre_lacks_hash, d_lacks_hash, Hsh, Ht1.
    - (* the first '#' is inside the string: the line is kept *)
      destruct (lacks_false_split 35 s Hsh) as [s1 [s2 [-> Hs1]]].
      exists tail. split; [|now left].
      replace (pre ++ (d ++ (s1 ++ 35%N :: s2) ++ d) ++ tail)
        with ((pre ++ d ++ s1) ++ 35%N :: (s2 ++ d ++ tail))
        by reassoc.
      rewrite strip_comment_hash.
      + rewrite count_pre_open.
        assert (Hn : find_sub d s1 = None).
        { apply (find_sub_app_None_l d s1 (35%N :: s2)). now apply good_str_none. }
        rewrite (count_sub_None d s1 d_ne Hn). cbn [Nat.eqb].
        destruct (find_sub_has d (35%N :: s2) tail) as [n [Hn' _]].
        change ((35%N :: s2) ++ d ++ tail) with (35%N :: s2 ++ d ++ tail) in Hn'. now rewrite Hn'.
      + now rewrite !lacks_app, pre_lacks_hash, d_lacks_hash, Hs1.
  Qed.

  (** quoted string, with or without a trailing comment *)
  Theorem parse_line_quoted s ws3 comment :
    good_str d s = true -> all_space ws3 = true ->
    parse_line (pre ++ (d ++ s ++ d) ++ trailer ws3 comment) d = Ok (Some (key, PStr s)).
  Proof.
    intros Hs Hw3. unfold parse_line.
    destruct (strip_comment_quoted s (trailer ws3 comment) Hs) as [tail' [-> Ht]]. cbn [bind].
    apply (parse_body_quoted s tail' Hs).
    destruct Ht as [-> | [t2 [Ht Hl]]]; [now apply trailer_ok|].
    (* cut at a '#' of the trailer: what is left is a prefix of ws3, hence blank *)
    left. unfold trailer in Ht. destruct comment as [c|].
    - assert (E : find_sub [35%N] (ws3 ++ 35%N :: c) = Some (length ws3))
        by (apply find_sub_char_first; now apply all_space_lacks).
      rewrite Ht, (find_sub_char_first 35 tail' t2 Hl) in E. injection E as E.
      assert (E2 : tail' = ws3).
      { pose proof (firstn_app_exact tail' (35%N :: t2)) as F1. rewrite <- Ht, E in F1.
        now rewrite firstn_app_exact in F1. }
      subst tail'. now apply py_rstrip_all_space.
    - rewrite app_nil_r in Ht. exfalso.
      pose proof (all_space_lacks 35 ws3 space_hash Hw3) as Hl3.
      rewrite Ht, lacks_app, lacks_cons, N.eqb_refl in Hl3. cbn in Hl3.
      now rewrite andb_false_r in Hl3.
  Qed.

  (** junk after the closing delimiter: always the parse error *)
  Theorem parse_line_junk s ws c rest :
    good_str d s = true -> all_space ws = true -> py_isspace c = false -> c <> 35%N ->
    parse_line (pre ++ (d ++ s ++ d) ++ ws ++ c :: rest) d = Err EPhoenix.
  Proof.
    intros Hs Hws Hc Hc35. unfold parse_line.
    destruct (strip_comment_quoted s (ws ++ c :: rest) Hs) as [tail' [-> Ht]]. cbn [bind].
    destruct Ht as [-> | [t2 [Ht Hl]]]; [now apply parse_body_junk|].
    (* cut at the first '#' of the junk, which comes after [c] *)
    assert (Hex : exists r1, tail' = ws ++ c :: r1).
    { destruct (lacks 35 rest) eqn:Hr.
      - exfalso. assert (Hl2 : lacks 35 (ws ++ c :: rest) = true).
        { rewrite lacks_app, lacks_cons, Hr, (all_space_lacks 35 ws space_hash Hws).
          apply N.eqb_neq in Hc35. now rewrite Hc35. }
        rewrite Ht, lacks_app, lacks_cons, N.eqb_refl in Hl2. cbn in Hl2. now rewrite andb_false_r in Hl2.
      - destruct (lacks_false_split 35 rest Hr) as [r1 [r2 [-> Hr1]]]. exists r1.
        assert (Hl2 : lacks 35 (ws ++ c :: r1) = true).
        { rewrite lacks_app, lacks_cons, Hr1, (all_space_lacks 35 ws space_hash Hws).
          apply N.eqb_neq in Hc35. now rewrite Hc35. }
        assert (E : find_sub [35%N] ((ws ++ c :: r1) ++ 35%N :: r2) = Some (length (ws ++ c :: r1)))
          by now apply find_sub_char_first.
        replace ((ws ++ c :: r1) ++ 35%N :: r2) with (ws ++ c :: r1 ++ 35%N :: r2) in E
          by (now rewrite <- app_assoc).
        rewrite Ht, (find_sub_char_first 35 tail' t2 Hl) in E. injection E as E.
        pose proof (firstn_app_exact tail' (35%N :: t2)) as F1. rewrite <- Ht, E in F1.
        replace (ws ++ c :: r1 ++ 35%N :: r2) with ((ws ++ c :: r1) ++ 35%N :: r2) in F1
          by (now rewrite <- app_assoc).
        now rewrite firstn_app_exact in F1. }
    destruct Hex as [r1 ->]. now apply parse_body_junk.
  Qed.

  (** no closing delimiter anywhere after the opening one: always the parse error *)
  Theorem parse_line_unterminated s :
    find_sub d s = None -> parse_line (pre ++ d ++ s) d = Err EPhoenix.
  Proof.
    intros Hs. unfold parse_line. destruct (lacks 35 s) eqn:Hsh.
    - rewrite strip_comment_no_hash; [cbn [bind]; now apply parse_body_unterminated|].
      now rewrite !lacks_app, pre_lacks_hash, d_lacks_hash, Hsh.
    - destruct (lacks_false_split 35 s Hsh) as [s1 [s2 [-> Hs1]]].
      replace (pre ++ d ++ s1 ++ 35%N :: s2) with ((pre ++ d ++ s1) ++ 35%N :: s2)
        by reassoc.
      rewrite strip_comment_hash; [|now rewrite !lacks_app, pre_lacks_hash, d_lacks_hash, Hs1].
      rewrite count_pre_open, (count_sub_None d s1 d_ne (find_sub_app_None_l d s1 _ Hs)).
      cbn [Nat.eqb]. rewrite (find_sub_app_None_r d s1 _ Hs). reflexivity.
  Qed.
End Line.

(** ------------------------------------------------------------------ blank / comment-only lines *)

Theorem parse_line_blank d ws : isq d -> all_space ws = true -> parse_line ws d = Ok None.
Proof.
  intros Hd Hws. unfold parse_line.
  rewrite (strip_comment_no_hash ws d (all_space_lacks 35 ws space_hash Hws)). cbn [bind].
  apply parse_body_blank. now apply py_strip_all_space.
Qed.

Theorem parse_line_comment_only d ws text :
  isq d -> all_space ws = true -> parse_line (ws ++ 35%N :: text) d = Ok None.
Proof.
  intros Hd Hws. unfold parse_line.
  rewrite (strip_comment_hash ws text d (all_space_lacks 35 ws space_hash Hws)).
  rewrite (count_sub_None d ws (proj1 Hd)
             (find_sub_qfree_None d ws Hd (all_space_lacks QUOTE ws space_quote Hws))).
  cbn [Nat.eqb bind]. apply parse_body_blank. now apply py_strip_all_space.
Qed.

(** ------------------------------------------------------------------ no '=' at all (any delimiter) *)

Theorem parse_line_no_equals d line :
  lacks 61 line = true -> py_strip (before_hash line) <> [] -> parse_line line d = Err EPhoenix.
Proof.
  intros He Hb. unfold parse_line, strip_comment. unfold before_hash in Hb.
  destruct (find_sub HASH line) as [i|] eqn:Ei.
  - destruct (Nat.eqb (count_sub d (firstn i line)) 1).
    + destruct (find_sub d (skipn i line)); [|reflexivity]. cbn [bind].
      apply parse_body_no_equals; [|exact He].
      rewrite <- (firstn_skipn i line). now apply py_strip_app_nonblank.
    + cbn [bind]. apply parse_body_no_equals; [exact Hb | now apply lacks_firstn].
  - cbn [bind]. now apply parse_body_no_equals.
Qed.

(** ------------------------------------------------------------------ bare tokens: the numeric fall-backs *)

Lemma dec_char_tok c : dec_char c = true -> tok_char c = true.
Proof.
  unfold dec_char. intros H. apply orb_true_iff in H as [H | H].
  - apply is_digit_cases in H. repeat (destruct H as [-> | H]; [reflexivity|]). subst c; reflexivity.
  - apply N.eqb_eq in H; subst c; reflexivity.
Qed.

Lemma hex_tok_char_tok c : hex_tok_char c = true -> tok_char c = true.
Proof.
  unfold hex_tok_char. intros H. apply orb_true_iff in H as [H | H]; [apply orb_true_iff in H as [H | H]|].
  - destruct (hex_val c) as [v|] eqn:E; [|discriminate].
    revert E. apply (forall_hex_chars (fun c => tok_char c = true)). repeat constructor.
  - apply N.eqb_eq in H; subst c; reflexivity.
  - apply N.eqb_eq in H; subst c; reflexivity.
Qed.

Lemma forallb_impl {A} (f g : A -> bool) l :
  (forall x, f x = true -> g x = true) -> forallb f l = true -> forallb g l = true.
Proof. intros H. rewrite !forallb_forall. auto. Qed.

Lemma parse_bare_dec z : parse_bare (dec_of_Z z) = Ok (PInt z).
Proof. unfold parse_bare. now rewrite py_int_dec_of_Z. Qed.

Lemma parse_bare_hex z : parse_bare (hex_of_Z z) = Ok (PInt z).
Proof. unfold parse_bare. now rewrite py_int_hex_of_Z, py_int16_hex_of_Z. Qed.

Lemma parse_bare_float tok f :
  no_space tok = true -> float_marker tok = true -> py_float tok = Ok f ->
  parse_bare tok = Ok (PFloat f).
Proof.
  intros Hs Hm Hf. unfold parse_bare.
  now rewrite (marker_py_int tok Hs Hm), (marker_py_int16 tok Hs Hm), Hf.
Qed.

Lemma py_int_err s e : py_int s = Err e -> e = EValue.
Proof.
  unfold py_int. destruct (split_sign (py_strip s)) as [neg r].
  destruct (digit_part dec_val 10 r) as [[[v k] [|x rest]]|]; congruence.
Qed.

Lemma py_int16_err s e : py_int16 s = Err e -> e = EValue.
Proof.
  rewrite py_int16_unfold. destruct (split_sign (py_strip s)) as [neg r].
  destruct (digit_part hex_val 16 (strip_0x r)) as [[[v k] [|x rest]]|]; congruence.
Qed.

(** a token none of int(s), int(s,16), float(s) accepts *)
Lemma parse_bare_unparsable tok :
  is_ok (py_int tok) = false -> is_ok (py_int16 tok) = false -> py_float tok = Err EValue ->
  parse_bare tok = Err EPhoenix.
Proof.
  intros H1 H2 H3. unfold parse_bare.
  destruct (py_int tok) as [z|e] eqn:E1; [discriminate|]. rewrite (py_int_err tok e E1).
  destruct (py_int16 tok) as [z|e'] eqn:E2; [discriminate|]. rewrite (py_int16_err tok e' E2).
  now rewrite H3.
Qed.
