(** Specification vocabulary for C16: how an assignment line / a protocol text is *rendered*, the
    domain conditions on keys and values, and the dictionary semantics the result is compared to. *)
From Coq Require Import List Bool ZArith NArith QArith.
From DV Require Import Common.Res Common.Str Common.F64 Common.PyNum Common.PyNumFacts Phoenix.Model.
Import ListNotations.
Open Scope nat_scope.

(** ------------------------------------------------------------------ characters *)

Definition QUOTE : N := 34%N.

(** [lacks c l]: the character [c] does not occur in [l] *)
Definition lacks (c : N) (l : str) : bool := forallb (fun x => negb (N.eqb x c)) l.

(** [qfree l]: no double-quote character in [l] *)
Definition qfree (l : str) : bool := lacks QUOTE l.

(** [isq d]: a non-empty string of double-quote characters -- both dialects' delimiters *)
Definition isq (d : str) : Prop := d <> [] /\ Forall (fun c => c = QUOTE) d.

(** the two quoting dialects: doubled quotes (MrPhoenixProtocol), single quotes (MrProtocol) *)
Definition dialect (d : str) : Prop := d = DELIM2 \/ d = DELIM1.

(** protocol key and the delimiter it selects *)
Definition prot_dialect (pkey d : str) : Prop :=
  (pkey = K_MrPhoenixProtocol /\ d = DELIM2) \/ (pkey = K_MrProtocol /\ d = DELIM1).

(** ------------------------------------------------------------------ rendering a line *)

(** blanks, then an optional comment introduced by '#' *)
Definition trailer (ws3 : str) (comment : option str) : str :=
  ws3 ++ match comment with Some c => 35%N :: c | None => [] end.

(**  ws0 key ws1 '=' ws2 value ws3 [# comment]  *)
Definition render_line (ws0 key ws1 ws2 val ws3 : str) (comment : option str) : str :=
  ws0 ++ key ++ ws1 ++ [61%N] ++ ws2 ++ val ++ trailer ws3 comment.

(** the values the property speaks about *)
Inductive rval :=
| RInt (z : Z)          (* decimal integer, rendered as Python str(z) *)
| RHex (z : Z)          (* hexadecimal integer, rendered as Python hex(z): 0x1f, -0x1f *)
| RFloat (tok : str)    (* float token in Python repr format *)
| RStr (s : str).       (* string, rendered between two delimiters *)

Definition render_val (d : str) (v : rval) : str :=
  match v with
  | RInt z => dec_of_Z z
  | RHex z => hex_of_Z z
  | RFloat tok => tok
  | RStr s => d ++ s ++ d
  end.

(** characters allowed in a bare (unquoted) token: no blank, no '#', no double quote *)
Definition tok_char (c : N) : bool := negb (py_isspace c) && negb (N.eqb c 35) && negb (N.eqb c QUOTE).

(** text that can stand as an unquoted value: no '#', no double quote, no outer blanks (inner blanks
    allowed -- such a text is then rejected by all three numeric parsers); may be empty *)
Definition bare_text (tok : str) : bool :=
  lacks 35 tok && qfree tok && str_eqb (py_strip tok) tok.

(** float tokens: accepted by float(), free of blanks/'#'/quotes, and carrying a float marker
    ('.', inf/nan letters, or an exponent sign) -- without a marker a token made of hex digits such as
    1e5 is read as the hexadecimal integer 485 by the int(s, 16) fall-back. *)
Definition good_float_tok (tok : str) : bool :=
  forallb tok_char tok && float_marker tok && is_ok (py_float tok).

(** string values: the closing delimiter is the first occurrence of the delimiter after the opening one.
    For the one-quote dialect: no quote character in [s]; for the doubled dialect: no two adjacent
    quote characters in [s] and [s] does not end with a quote character. '#' and '=' are allowed. *)
Definition good_str (d s : str) : bool :=
  match find_sub d (s ++ d) with
  | Some n => Nat.eqb n (length s)
  | None => false
  end.

Definition good_val (d : str) (v : rval) : bool :=
  match v with
  | RInt _ | RHex _ => true
  | RFloat tok => good_float_tok tok
  | RStr s => good_str d s
  end.

(** keys: no '=', no '#', no outer blanks, the delimiter does not occur in it (may be empty) *)
Definition good_key (d key : str) : bool :=
  lacks 61 key && lacks 35 key && str_eqb (py_strip key) key && negb (containsb d key).

(** what the parser must return *)
Definition expect_val (v : rval) : pval :=
  match v with
  | RInt z | RHex z => PInt z
  | RFloat tok => match py_float tok with Ok f => PFloat f | Err _ => PFloat FNan end
  | RStr s => PStr s
  end.

(** [denotes d tok v]: the value text [tok] (what stands between '=' and the trailing blanks/comment)
    denotes the value [v].  This is the FULL grammar the parser accepts, with its known looseness
    spelled out as clauses:
    - strings: [tok] is [s] between two delimiters, the closing one being the first after the opening one;
    - decimal integers: any text Python's int() accepts ('+5', '007', '1_000' included).  [py_int] has
      no digit limit; CPython >= 3.11 refuses more than 4300 digits, such a token then falls into the
      next clause (and is read as hexadecimal if it happens to be accepted there);
    - LOOSE hexadecimal clause: any text int(tok, 16) accepts once int(tok) has refused it -- with or
      WITHOUT the 0x prefix, so bare words made of hex digits (1e5, dead, e5) are integers;
    - floats: any text float() accepts once both integer readings have refused it. *)
Definition denotes (d tok : str) (v : pval) : Prop :=
  match v with
  | PStr s => tok = d ++ s ++ d /\ good_str d s = true
  | PInt z => prefixb d tok = false /\ py_strip tok = tok /\
              (py_int tok = Ok z \/ (py_int tok = Err EValue /\ py_int16 tok = Ok z))
  | PFloat f => prefixb d tok = false /\ py_strip tok = tok /\
                py_int tok = Err EValue /\ py_int16 tok = Err EValue /\ py_float tok = Ok f
  end.

(** the part of a line in front of the first '#' (the whole line when there is none) *)
Definition before_hash (line : str) : str :=
  match find_sub HASH line with Some i => firstn i line | None => line end.

(** ------------------------------------------------------------------ dictionary semantics *)

Definition dict := list (str * pval).

Fixpoint lookup (k : str) (d : dict) : option pval :=
  match d with
  | [] => None
  | (k', v) :: t => if str_eqb k k' then Some v else lookup k t
  end.

Definition keys (d : dict) : list str := map fst d.

Fixpoint key_in (k : str) (l : list str) : bool :=
  match l with [] => false | x :: t => str_eqb k x || key_in k t end.

(** the dict obtained by executing the assignments left to right, starting from [d0] *)
Definition assign_all (l : list (str * pval)) (d0 : dict) : dict :=
  fold_left (fun d kv => dict_set (fst kv) (snd kv) d) l d0.

(** first-insertion order of a sequence of keys, continuing after the keys [seen] so far *)
Fixpoint first_keys (l : list str) (seen : list str) : list str :=
  match l with
  | [] => seen
  | k :: t => first_keys t (if key_in k seen then seen else seen ++ [k])
  end.

(** the assignment lines among the parse results (None = blank or comment-only line) *)
Fixpoint somes {A} (l : list (option A)) : list A :=
  match l with
  | [] => []
  | Some x :: t => x :: somes t
  | None :: t => somes t
  end.

(** ------------------------------------------------------------------ rendering a protocol *)

(** every line terminated by a newline *)
Definition unlines (lines : list str) : str := concat (map (fun l => l ++ [10%N]) lines).

(**  before  "### ASCCONV BEGIN " hdr "\n"  line "\n" ... line "\n"  "### ASCCONV END ###"  after  *)
Definition render_prot (before hdr : str) (lines : list str) (after : str) : str :=
  before ++ ASC_BEGIN ++ hdr ++ [10%N] ++ unlines lines ++ ASC_END ++ after.

(** the text in front of the END marker *)
Definition prot_head (before hdr : str) (lines : list str) : str :=
  before ++ ASC_BEGIN ++ hdr ++ [10%N] ++ unlines lines.
