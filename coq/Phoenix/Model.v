(** Model of the Siemens "Phoenix" (ASCCONV) protocol parser of dcmstack/extract.py:
      _parse_phoenix_line  (extract.py:133-192)   ->  [parse_line]
      parse_phoenix_prot   (extract.py:194-227)   ->  [parse_prot]
    Strings are lists of code points.  PhoenixParseError = [Err EPhoenix]; the ValueError for an
    unknown protocol key = [Err EValue].  Python's int(s) / int(s,16) / float(s) / str.strip are the
    shared acceptors of Common/PyNum.v. *)
From Coq Require Import List Bool ZArith NArith QArith.
From DV Require Import Common.Res Common.Str Common.F64 Common.PyNum.
Import ListNotations.
Open Scope nat_scope.
Open Scope res_scope.

(** what a parsed value can be: Python int, float or str *)
Inductive pval := PInt (z : Z) | PFloat (f : fval) | PStr (s : str).

Definition pval_eqb (a b : pval) : bool :=
  match a, b with
  | PInt x, PInt y => Z.eqb x y
  | PFloat x, PFloat y => fval_eqb x y
  | PStr x, PStr y => str_eqb x y
  | _, _ => false
  end.

Definition HASH : str := [35%N].       (* '#' *)
Definition EQUALS : str := [61%N].     (* '=' *)

(** Python [s.count(p)]: number of non-overlapping occurrences, scanning left to right.
    [skip] = characters still covered by the previous match.  (For the empty pattern this gives
    [len(s) + 1], as Python does.) *)
Fixpoint count_from (p s : str) (skip : nat) {struct s} : nat :=
  match skip with
  | S k => match s with
           | [] => 0
           | _ :: t => count_from p t k
           end
  | O => if prefixb p s
         then S (match s with [] => 0 | _ :: t => count_from p t (length p - 1) end)
         else match s with [] => 0 | _ :: t => count_from p t 0 end
  end.
Definition count_sub (p s : str) : nat := count_from p s 0.

(** extract.py:135-143 -- "Handle most comments":
      comment_idx = line.find('#')
      if comment_idx != -1:
          if line[:comment_idx].count(str_delim) == 1:
              if line[comment_idx:].find(str_delim) == -1: raise PhoenixParseError(line)
          else:
              line = line[:comment_idx]                                                     *)
Definition strip_comment (line str_delim : str) : res str :=
  match find_sub HASH line with
  | Some comment_idx =>
      if Nat.eqb (count_sub str_delim (firstn comment_idx line)) 1
      then match find_sub str_delim (skipn comment_idx line) with
           | None => Err EPhoenix
           | Some _ => Ok line
           end
      else Ok (firstn comment_idx line)
  | None => Ok line
  end.

(** extract.py:169-192 -- the numeric fall-backs  int(val_str) -> int(val_str, 16) -> float(val_str);
    each [except ValueError: pass]; falling off the end raises PhoenixParseError. *)
Definition parse_bare (val_str : str) : res pval :=
  match py_int val_str with
  | Ok z => Ok (PInt z)
  | Err EValue =>
      match py_int16 val_str with
      | Ok z => Ok (PInt z)
      | Err EValue =>
          match py_float val_str with
          | Ok f => Ok (PFloat f)
          | Err EValue => Err EPhoenix
          | Err e => Err e
          end
      | Err e => Err e
      end
  | Err e => Err e
  end.

(** extract.py:156-167 -- the string literal branch (val_str.startswith(str_delim) holds):
      end_quote = val_str[delim_len:].find(str_delim)
      if end_quote == -1: raise PhoenixParseError(line)
      end_quote += delim_len
      if not end_quote == len(val_str) - delim_len:
          if not val_str[end_quote+delim_len:].strip().startswith('#'): raise PhoenixParseError(line)
      return (key, val_str[delim_len:end_quote])
    ([len(val_str) - delim_len] cannot be negative here because val_str starts with the delimiter,
    so the truncated subtraction on [nat] is exact.) *)
Definition parse_quoted (val_str str_delim : str) : res pval :=
  let delim_len := length str_delim in
  match find_sub str_delim (skipn delim_len val_str) with
  | None => Err EPhoenix
  | Some end_quote0 =>
      let end_quote := end_quote0 + delim_len in
      if negb (Nat.eqb end_quote (length val_str - delim_len))
         && negb (prefixb HASH (py_strip (skipn (end_quote + delim_len) val_str)))
      then Err EPhoenix
      else Ok (PStr (firstn (end_quote - delim_len) (skipn delim_len val_str)))
  end.

(** extract.py:145-192, the line after comment handling *)
Definition parse_body (line str_delim : str) : res (option (str * pval)) :=
  if str_eqb (py_strip line) [] then Ok None                   (* if line.strip() == '': return None *)
  else
    match find_sub EQUALS line with                            (* equals_idx = line.find('=') *)
    | None => Err EPhoenix
    | Some equals_idx =>
        let key := py_strip (firstn equals_idx line) in        (* line[:equals_idx].strip() *)
        let val_str := py_strip (skipn (S equals_idx) line) in (* line[equals_idx + 1:].strip() *)
        do v <- (if prefixb str_delim val_str                  (* val_str.startswith(str_delim) *)
                 then parse_quoted val_str str_delim
                 else parse_bare val_str);
        Ok (Some (key, v))
    end.

(** _parse_phoenix_line(line, str_delim) : None | (key, value) | PhoenixParseError *)
Definition parse_line (line str_delim : str) : res (option (str * pval)) :=
  do line' <- strip_comment line str_delim;
  parse_body line' str_delim.

(** ---------------------------------------------------------------- parse_phoenix_prot *)

Definition K_MrPhoenixProtocol : str :=
  [77;114;80;104;111;101;110;105;120;80;114;111;116;111;99;111;108]%N.
Definition K_MrProtocol : str := [77;114;80;114;111;116;111;99;111;108]%N.
Definition DELIM2 : str := [34;34]%N.        (* two double-quote characters: the MrPhoenixProtocol dialect *)
Definition DELIM1 : str := [34]%N.           (* one double-quote character: the MrProtocol dialect *)
Definition ASC_BEGIN : str :=                (* '### ASCCONV BEGIN ' *)
  [35;35;35;32;65;83;67;67;79;78;86;32;66;69;71;73;78;32]%N.
Definition ASC_END : str :=                  (* '### ASCCONV END ###' *)
  [35;35;35;32;65;83;67;67;79;78;86;32;69;78;68;32;35;35;35]%N.

(** Python [s.find(p)] as an integer (-1 = not found) *)
Definition find_z (p s : str) : Z :=
  match find_sub p s with Some n => Z.of_nat n | None => (-1)%Z end.

(** Python [s[a:b]] for arbitrary (possibly negative) integer bounds *)
Definition py_slice (s : str) (a b : Z) : str :=
  let n := Z.of_nat (length s) in
  let norm (i : Z) := if (i <? 0)%Z then Z.max 0 (i + n) else Z.min i n in
  let a' := norm a in
  let b' := norm b in
  firstn (Z.to_nat (b' - a')) (skipn (Z.to_nat a') s).

(** Python [s.split(c)] for a one-character separator: always at least one piece *)
Fixpoint split_on (c : N) (s : str) : list str :=
  match s with
  | [] => [[]]
  | x :: r =>
      if N.eqb x c then [] :: split_on c r
      else match split_on c r with
           | h :: t => (x :: h) :: t
           | [] => [[x]]          (* unreachable: split_on never returns [] *)
           end
  end.

(** Python [l[1:-1]] *)
Definition drop_first_last {A} (l : list A) : list A := removelast (tl l).

(** OrderedDict [d[k] = v]: overwrite in place, or append *)
Fixpoint dict_set (k : str) (v : pval) (d : list (str * pval)) : list (str * pval) :=
  match d with
  | [] => [(k, v)]
  | (k', v') :: t => if str_eqb k k' then (k', v) :: t else (k', v') :: dict_set k v t
  end.

(** the loop of parse_phoenix_prot over the lines, threading the dict *)
Fixpoint parse_lines (lines : list str) (str_delim : str) (result : list (str * pval))
  : res (list (str * pval)) :=
  match lines with
  | [] => Ok result
  | line :: rest =>
      do parse_result <- parse_line line str_delim;
      match parse_result with
      | Some (k, v) => parse_lines rest str_delim (dict_set k v result)
      | None => parse_lines rest str_delim result
      end
  end.

Definition parse_prot (prot_key prot_val : str) : res (list (str * pval)) :=
  do str_delim <- (if str_eqb prot_key K_MrPhoenixProtocol then Ok DELIM2
                   else if str_eqb prot_key K_MrProtocol then Ok DELIM1
                   else Err EValue);
  let ascconv_start := find_z ASC_BEGIN prot_val in
  let ascconv_end := find_z ASC_END prot_val in
  let ascconv := drop_first_last (split_on 10%N (py_slice prot_val ascconv_start ascconv_end)) in
  parse_lines ascconv str_delim [].

(** ---------------------------------------------------------------- csa_series_trans_func
    extract.py:229-247.  The CSA reader (nibabel) and simplify_csa_dict stay outside the model: the
    input is the simplified dict they deliver -- tag name -> one item (str / int / float) or a list
    of items, keys unique.

      phx_src = None
      if 'MrPhoenixProtocol' in csa_dict:   phx_src = 'MrPhoenixProtocol'
      elif 'MrProtocol' in csa_dict:        phx_src = 'MrProtocol'
      if not phx_src is None:
          phoenix_dict = parse_phoenix_prot(phx_src, csa_dict[phx_src])
          del csa_dict[phx_src]
          for key, val in phoenix_dict.items():
              new_key = '%s.%s' % ('MrPhoenixProtocol', key)
              csa_dict[new_key] = val
      return csa_dict                                                                        *)

Inductive csa_val := CItem (v : pval) | CItems (l : list pval).
Definition csa_dict := list (str * csa_val).

Fixpoint cget (k : str) (d : csa_dict) : option csa_val :=
  match d with
  | [] => None
  | (k', v) :: t => if str_eqb k k' then Some v else cget k t
  end.

Definition chas (k : str) (d : csa_dict) : bool :=
  match cget k d with Some _ => true | None => false end.

(** [d[k] = v] *)
Fixpoint cset (k : str) (v : csa_val) (d : csa_dict) : csa_dict :=
  match d with
  | [] => [(k, v)]
  | (k', v') :: t => if str_eqb k k' then (k', v) :: t else (k', v') :: cset k v t
  end.

(** [del d[k]] (keys are unique) *)
Definition cdel (k : str) (d : csa_dict) : csa_dict :=
  filter (fun kv => negb (str_eqb k (fst kv))) d.

(** 'MrPhoenixProtocol.' *)
Definition PHX_PREFIX : str := K_MrPhoenixProtocol ++ [46%N].

Definition csa_series_merge (csa : csa_dict) : res csa_dict :=
  let phx_src := if chas K_MrPhoenixProtocol csa then Some K_MrPhoenixProtocol
                 else if chas K_MrProtocol csa then Some K_MrProtocol
                 else None in
  match phx_src with
  | None => Ok csa
  | Some src =>
      match cget src csa with
      | Some (CItem (PStr prot_val)) =>
          do phoenix_dict <- parse_prot src prot_val;
          Ok (fold_left (fun d kv => cset (PHX_PREFIX ++ fst kv) (CItem (snd kv)) d)
                        phoenix_dict (cdel src csa))
      | _ => Err EAttr        (* a list / int / float has no .find : AttributeError *)
      end
  end.
