(** Correspondence glue for C16: implementation observations vs. the model. *)
From Coq Require Import List Bool ZArith NArith QArith.
From DV Require Import Common.Res Common.Str Common.F64 Common.PyNum Phoenix.Model.
Import ListNotations.

(** part "lines": observation of _parse_phoenix_line(line, delim) *)
Inductive lobs := LNone | LVal (key : str) (v : pval) | LErr (e : err).

Record lcase := { l_line : str; l_delim : str; l_obs : lobs }.

Definition lobs_of (r : res (option (str * pval))) : lobs :=
  match r with
  | Ok None => LNone
  | Ok (Some (k, v)) => LVal k v
  | Err e => LErr e
  end.

Definition lobs_eqb (a b : lobs) : bool :=
  match a, b with
  | LNone, LNone => true
  | LVal k v, LVal k' v' => str_eqb k k' && pval_eqb v v'
  | LErr e, LErr e' => err_eqb e e'
  | _, _ => false
  end.

Definition lcheck (c : lcase) : bool :=
  lobs_eqb (lobs_of (parse_line (l_line c) (l_delim c))) (l_obs c).
Definition lshow (c : lcase) := lobs_of (parse_line (l_line c) (l_delim c)).

(** part "prot": observation of parse_phoenix_prot(key, text): the items of the OrderedDict in order *)
Inductive pobs := PItems (items : list (str * pval)) | PErr (e : err).

Record pcase := { p_key : str; p_text : str; p_obs : pobs }.

Fixpoint items_eqb (a b : list (str * pval)) : bool :=
  match a, b with
  | [], [] => true
  | (k, v) :: a', (k', v') :: b' => str_eqb k k' && pval_eqb v v' && items_eqb a' b'
  | _, _ => false
  end.

Definition pobs_of (r : res (list (str * pval))) : pobs :=
  match r with Ok l => PItems l | Err e => PErr e end.

Definition pobs_eqb (a b : pobs) : bool :=
  match a, b with
  | PItems x, PItems y => items_eqb x y
  | PErr e, PErr e' => err_eqb e e'
  | _, _ => false
  end.

Definition pcheck (c : pcase) : bool := pobs_eqb (pobs_of (parse_prot (p_key c) (p_text c))) (p_obs c).
Definition pshow (c : pcase) := pobs_of (parse_prot (p_key c) (p_text c)).
