(** Correspondence glue for C16: implementation observations vs. the model. *)
From Coq Require Import List Bool ZArith NArith QArith.
From DV Require Import Common.Res Common.Str Common.F64 Common.PyNum Phoenix.Model.
Import ListNotations.

(** part "lines": observation of _parse_phoenix_line(line, delim) *)
Inductive lobs := LNone | LVal (key : str) (v : pval) | LErr (e : err).

Record lcase := { l_line : str; l_delim : str; l_obs : lobs }.

Definition lobs_of (r : res (option (str * pval))) : lobs :=
  match r with
  | Ok None => LNone
  | Ok (Some (k, v)) => LVal k v
  | Err e => LErr e
  end.

Definition lobs_eqb (a b : lobs) : bool :=
  match a, b with
  | LNone, LNone => true
  | LVal k v, LVal k' v' => str_eqb k k' && pval_eqb v v'
  | LErr e, LErr e' => err_eqb e e'
  | _, _ => false
  end.

Definition lcheck (c : lcase) : bool :=
  lobs_eqb (lobs_of (parse_line (l_line c) (l_delim c))) (l_obs c).
Definition lshow (c : lcase) := lobs_of (parse_line (l_line c) (l_delim c)).

(** part "prot": observation of parse_phoenix_prot(key, text): the items of the OrderedDict in order *)
Inductive pobs := PItems (items : list (str * pval)) | PErr (e : err).

(** [p_judged]: the generator's flag "the text has both ASCCONV markers, the first END after the first
    BEGIN" (or the protocol key is not a dialect).  The property speaks only of the assignments BETWEEN
    the markers: for a text lacking a marker, or with END in front of BEGIN, the result is not compared
    (the model keeps the code's find() = -1 slicing there); only a harness-level crash is reported. *)
Record pcase := { p_key : str; p_text : str; p_judged : bool; p_obs : pobs }.

(** The property speaks of the assignments, not of their order: dicts are compared as maps
    (both sides have unique keys: same size, and every entry of [a] is in [b] with an equal value). *)
Fixpoint plookup (k : str) (d : list (str * pval)) : option pval :=
  match d with
  | [] => None
  | (k', v) :: t => if str_eqb k k' then Some v else plookup k t
  end.

Definition items_eqb (a b : list (str * pval)) : bool :=
  Nat.eqb (length a) (length b) &&
  forallb (fun kv => match plookup (fst kv) b with
                     | Some v' => pval_eqb (snd kv) v'
                     | None => false
                     end) a.

Definition pobs_of (r : res (list (str * pval))) : pobs :=
  match r with Ok l => PItems l | Err e => PErr e end.

Definition pobs_eqb (a b : pobs) : bool :=
  match a, b with
  | PItems x, PItems y => items_eqb x y
  | PErr e, PErr e' => err_eqb e e'
  | _, _ => false
  end.

Definition not_crash_p (o : pobs) : bool := match o with PErr ECrash => false | _ => true end.
Definition pcheck (c : pcase) : bool :=
  if p_judged c then pobs_eqb (pobs_of (parse_prot (p_key c) (p_text c))) (p_obs c)
  else not_crash_p (p_obs c).
Definition pshow (c : pcase) := pobs_of (parse_prot (p_key c) (p_text c)).

(** part "csa": observation of csa_series_trans_func on the simplified CSA dict *)
Inductive cobs := CDict (items : csa_dict) | CErr (e : err).

(** [c_judged]: as [p_judged], for the protocol element that is parsed (true when there is none) *)
Record ccase := { c_in : csa_dict; c_judged : bool; c_obs : cobs }.

Fixpoint pvals_eqb (a b : list pval) : bool :=
  match a, b with
  | [], [] => true
  | x :: a', y :: b' => pval_eqb x y && pvals_eqb a' b'
  | _, _ => false
  end.

Definition csa_val_eqb (a b : csa_val) : bool :=
  match a, b with
  | CItem x, CItem y => pval_eqb x y
  | CItems x, CItems y => pvals_eqb x y
  | _, _ => false
  end.

Definition csa_dict_eqb (a b : csa_dict) : bool :=          (* as maps, see [items_eqb] *)
  Nat.eqb (length a) (length b) &&
  forallb (fun kv => match cget (fst kv) b with
                     | Some v' => csa_val_eqb (snd kv) v'
                     | None => false
                     end) a.

Definition cobs_of (r : res csa_dict) : cobs := match r with Ok l => CDict l | Err e => CErr e end.

Definition cobs_eqb (a b : cobs) : bool :=
  match a, b with
  | CDict x, CDict y => csa_dict_eqb x y
  | CErr e, CErr e' => err_eqb e e'
  | _, _ => false
  end.

Definition not_crash_c (o : cobs) : bool := match o with CErr ECrash => false | _ => true end.
Definition ccheck (c : ccase) : bool :=
  if c_judged c then cobs_eqb (cobs_of (csa_series_merge (c_in c))) (c_obs c)
  else not_crash_c (c_obs c).
Definition cshow (c : ccase) := cobs_of (csa_series_merge (c_in c)).
