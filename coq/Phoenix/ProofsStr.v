(** Generic facts about [prefixb], [find_sub] (Python str.find) and [count_sub] (Python str.count)
    used by the C16 proofs. *)
From Coq Require Import List Bool NArith Arith Lia.
From DV Require Import Common.Str Phoenix.Model Phoenix.Spec.
Import ListNotations.

(** ------------------------------------------------------------------ list slicing helpers *)

Lemma skipn_app_exact {A} (a b : list A) : skipn (length a) (a ++ b) = b.
Proof. induction a as [|x a IH]; [reflexivity | exact IH]. Qed.

Lemma firstn_app_exact {A} (a b : list A) : firstn (length a) (a ++ b) = a.
Proof. induction a as [|x a IH]; [reflexivity | cbn [length firstn app]; now rewrite IH]. Qed.

Lemma skipn_app_plus {A} (a b : list A) n : skipn (length a + n) (a ++ b) = skipn n b.
Proof. induction a as [|x a IH]; [reflexivity | exact IH]. Qed.

Lemma firstn_app_plus {A} (a b : list A) n : firstn (length a + n) (a ++ b) = a ++ firstn n b.
Proof. induction a as [|x a IH]; [reflexivity | cbn [length Nat.add firstn app]; now rewrite IH]. Qed.

(** ------------------------------------------------------------------ one-character tests *)

Lemma lacks_app c a b : lacks c (a ++ b) = lacks c a && lacks c b.
Proof. apply forallb_app. Qed.

Lemma lacks_cons c x l : lacks c (x :: l) = negb (N.eqb x c) && lacks c l.
Proof. reflexivity. Qed.

Lemma lacks_firstn c l n : lacks c l = true -> lacks c (firstn n l) = true.
Proof.
  revert n; induction l as [|x l IH]; intros [|n] H; try reflexivity.
  cbn [firstn]. rewrite lacks_cons in *. apply andb_true_iff in H as [H1 H2].
  now rewrite H1, IH.
Qed.

(** ------------------------------------------------------------------ prefixb *)

Lemma prefixb_app p t : prefixb p (p ++ t) = true.
Proof. apply prefixb_spec; now exists t. Qed.

Lemma prefixb_app_l p a b : prefixb p a = true -> prefixb p (a ++ b) = true.
Proof.
  intros H; apply prefixb_spec in H as [t ->]. rewrite <- app_assoc. apply prefixb_app.
Qed.

Lemma prefixb_length p s : prefixb p s = true -> length p <= length s.
Proof. intros H; apply prefixb_spec in H as [t ->]. rewrite app_length; lia. Qed.

Lemma prefixb_nil_r p : prefixb p [] = true -> p = [].
Proof. destruct p; [reflexivity | discriminate]. Qed.

(** ------------------------------------------------------------------ find_sub *)

Lemma find_sub_from_shift p s i :
  find_sub_from p s i = option_map (fun n => i + n) (find_sub_from p s 0).
Proof.
  revert i; induction s as [|c s IH]; intros i.
  - cbn [find_sub_from]. destruct (prefixb p []); cbn; [f_equal; lia | reflexivity].
  - cbn [find_sub_from]. destruct (prefixb p (c :: s)); cbn; [f_equal; lia|].
    rewrite (IH (S i)), (IH 1). destruct (find_sub_from p s 0); cbn; [f_equal; lia | reflexivity].
Qed.

Lemma find_sub_nil p : find_sub p [] = if prefixb p [] then Some 0 else None.
Proof. reflexivity. Qed.

Lemma find_sub_cons p c s :
  find_sub p (c :: s) = if prefixb p (c :: s) then Some 0 else option_map S (find_sub p s).
Proof.
  unfold find_sub. cbn [find_sub_from]. destruct (prefixb p (c :: s)); [reflexivity|].
  now rewrite find_sub_from_shift.
Qed.

Lemma find_sub_Some_bound p s n : find_sub p s = Some n -> n + length p <= length s.
Proof.
  revert n; induction s as [|c s IH]; intros n.
  - rewrite find_sub_nil. destruct (prefixb p []) eqn:E; [|discriminate].
    intros [= <-]. apply prefixb_length in E. cbn in *; lia.
  - rewrite find_sub_cons. destruct (prefixb p (c :: s)) eqn:E.
    + intros [= <-]. apply prefixb_length in E. lia.
    + destruct (find_sub p s) as [m|]; [|discriminate]. intros [= <-].
      specialize (IH m eq_refl). cbn [length]; lia.
Qed.

Lemma find_sub_app_l p a b n : find_sub p a = Some n -> find_sub p (a ++ b) = Some n.
Proof.
  revert n; induction a as [|c a IH]; intros n.
  - rewrite find_sub_nil. destruct (prefixb p []) eqn:E; [|discriminate]. intros [= <-].
    apply prefixb_nil_r in E; subst p. destruct b; reflexivity.
  - rewrite find_sub_cons. cbn [app]. rewrite find_sub_cons.
    destruct (prefixb p (c :: a)) eqn:E.
    + intros [= <-]. change (c :: a ++ b) with ((c :: a) ++ b). now rewrite (prefixb_app_l _ _ b E).
    + destruct (find_sub p a) as [m|] eqn:Ea; [|discriminate]. intros [= <-].
      rewrite (IH m eq_refl).
      destruct (prefixb p (c :: a ++ b)) eqn:E2; [|reflexivity].
      (* an occurrence at 0 of the longer string must fit inside [c :: a] since one fits at m+1 *)
      exfalso. apply find_sub_Some_bound in Ea.
      apply prefixb_spec in E2 as [t Ht].
      assert (Hp : prefixb p (c :: a) = true).
      { apply prefixb_spec. exists (firstn (length (c :: a) - length p) t).
        assert (Hl : length p <= length (c :: a)) by (cbn [length]; lia).
        assert (H1 : firstn (length (c :: a)) ((c :: a) ++ b) = c :: a) by apply firstn_app_exact.
        cbn [app] in H1. rewrite Ht in H1.
        replace (length (c :: a)) with (length p + (length (c :: a) - length p)) in H1 at 1 by lia.
        rewrite firstn_app_plus in H1. now rewrite H1. }
      congruence.
Qed.

Lemma find_sub_app_None_l p a b : find_sub p (a ++ b) = None -> find_sub p a = None.
Proof.
  intros H. destruct (find_sub p a) as [n|] eqn:E; [|reflexivity].
  rewrite (find_sub_app_l _ _ b _ E) in H. discriminate.
Qed.

(** the pattern occurs in [a ++ p ++ b], at or before [length a] *)
Lemma find_sub_has p a b : exists n, find_sub p (a ++ p ++ b) = Some n /\ n <= length a.
Proof.
  induction a as [|c a [n [IH Hn]]].
  - exists 0. split; [|cbn; lia]. cbn [app]. unfold find_sub.
    destruct (p ++ b) eqn:E; cbn [find_sub_from]; rewrite <- ?E, prefixb_app; reflexivity.
  - cbn [app]. rewrite find_sub_cons. destruct (prefixb p (c :: a ++ p ++ b)).
    + exists 0; split; [reflexivity | lia].
    + rewrite IH. exists (S n); split; [reflexivity | cbn [length]; lia].
Qed.

Lemma find_sub_firstn_None p s n : find_sub p s = None -> find_sub p (firstn n s) = None.
Proof.
  intros H. apply (find_sub_app_None_l p (firstn n s) (skipn n s)). now rewrite firstn_skipn.
Qed.

(** one-character patterns *)
Lemma find_sub_char_None c s : lacks c s = true -> find_sub [c] s = None.
Proof.
  induction s as [|x s IH]; intros H; [reflexivity|].
  rewrite lacks_cons in H. apply andb_true_iff in H as [H1 H2].
  rewrite find_sub_cons. cbn [prefixb].
  rewrite N.eqb_sym. apply negb_true_iff in H1. rewrite H1. cbn. now rewrite IH.
Qed.

Lemma find_sub_char_first c a b : lacks c a = true -> find_sub [c] (a ++ c :: b) = Some (length a).
Proof.
  induction a as [|x a IH]; intros H.
  - cbn [app]. rewrite find_sub_cons. cbn [prefixb]. now rewrite N.eqb_refl.
  - rewrite lacks_cons in H. apply andb_true_iff in H as [H1 H2].
    cbn [app]. rewrite find_sub_cons. cbn [prefixb].
    rewrite N.eqb_sym. apply negb_true_iff in H1. rewrite H1. cbn [andb].
    now rewrite (IH H2).
Qed.

Lemma find_sub_char_None_inv c s : find_sub [c] s = None -> lacks c s = true.
Proof.
  induction s as [|x s IH]; intros H; [reflexivity|].
  rewrite find_sub_cons in H. cbn [prefixb] in H.
  destruct (N.eqb c x) eqn:E; cbn [andb] in H; [discriminate|].
  rewrite lacks_cons, N.eqb_sym, E. cbn. apply IH.
  destruct (find_sub [c] s); [discriminate | reflexivity].
Qed.

(** ------------------------------------------------------------------ delimiters made of quote characters *)

Lemma isq_D1 : isq DELIM1.
Proof. split; [discriminate | repeat constructor]. Qed.
Lemma isq_D2 : isq DELIM2.
Proof. split; [discriminate | repeat constructor]. Qed.

Lemma isq_cons d : isq d -> exists d', d = QUOTE :: d' /\ Forall (fun c => c = QUOTE) d'.
Proof.
  intros [Hne Hall]. destruct d as [|c d']; [congruence|].
  inversion Hall; subst. now exists d'.
Qed.

Lemma isq_snoc d : isq d -> exists d', d = d' ++ [QUOTE].
Proof.
  intros [Hne Hall]. destruct (exists_last Hne) as [d' [c ->]].
  apply Forall_app in Hall as [_ Hc]. inversion Hc; subst. now exists d'.
Qed.

Lemma isq_lacks_other d c : isq d -> c <> QUOTE -> lacks c d = true.
Proof.
  intros [_ Hall] Hc. induction Hall as [|x l Hx _ IH]; [reflexivity|].
  rewrite lacks_cons, IH, andb_true_r. subst x. apply negb_true_iff, N.eqb_neq. congruence.
Qed.

Lemma prefixb_q_nonq d c X : isq d -> N.eqb c QUOTE = false -> prefixb d (c :: X) = false.
Proof.
  intros Hd Hc. destruct (isq_cons d Hd) as [d' [-> _]]. cbn [prefixb].
  rewrite N.eqb_sym, Hc. reflexivity.
Qed.

Lemma find_sub_qfree_skip d a X :
  isq d -> qfree a = true -> find_sub d (a ++ X) = option_map (fun n => length a + n) (find_sub d X).
Proof.
  intros Hd. induction a as [|c a IH]; intros Ha.
  - cbn [app length]. destruct (find_sub d X); reflexivity.
  - unfold qfree in Ha. rewrite lacks_cons in Ha. apply andb_true_iff in Ha as [H1 H2].
    apply negb_true_iff in H1.
    cbn [app]. rewrite find_sub_cons, (prefixb_q_nonq d c _ Hd H1), (IH H2).
    destruct (find_sub d X); reflexivity.
Qed.

Lemma find_sub_qfree_None d a : isq d -> qfree a = true -> find_sub d a = None.
Proof.
  intros Hd Ha. rewrite <- (app_nil_r a), (find_sub_qfree_skip d a [] Hd Ha).
  rewrite find_sub_nil. destruct (isq_cons d Hd) as [d' [-> _]]. reflexivity.
Qed.

(** an occurrence cannot straddle a non-quote character *)
Lemma prefixb_straddle d k c t X :
  Forall (fun x => x = QUOTE) d -> N.eqb c QUOTE = false ->
  prefixb d (k ++ c :: t ++ X) = true -> prefixb d k = true.
Proof.
  revert d; induction k as [|y k IH]; intros d Hd Hc H.
  - destruct d as [|x d']; [reflexivity|]. inversion Hd; subst.
    cbn [app prefixb] in H. rewrite N.eqb_sym, Hc in H. discriminate.
  - destruct d as [|x d']; [reflexivity|]. inversion Hd; subst.
    cbn [app prefixb] in H |- *. apply andb_true_iff in H as [H1 H2].
    rewrite H1. cbn [andb]. eapply IH; eauto.
Qed.

(** the delimiter does not occur in [key]; [key] is followed by a non-empty quote-free [t]:
    the first occurrence in [key ++ t ++ X] is the first occurrence in [X] *)
Lemma find_sub_key_skip d key t X :
  isq d -> find_sub d key = None -> t <> [] -> qfree t = true ->
  find_sub d (key ++ t ++ X) = option_map (fun n => length key + (length t + n)) (find_sub d X).
Proof.
  intros Hd Hk Ht Hq. induction key as [|y key IH].
  - cbn [app length]. rewrite (find_sub_qfree_skip d t X Hd Hq). destruct (find_sub d X); reflexivity.
  - rewrite find_sub_cons in Hk. destruct (prefixb d (y :: key)) eqn:E; [discriminate|].
    assert (Hk' : find_sub d key = None) by (destruct (find_sub d key); [discriminate | reflexivity]).
    cbn [app]. rewrite find_sub_cons.
    destruct (prefixb d (y :: key ++ t ++ X)) eqn:E2.
    + exfalso. destruct t as [|c t']; [congruence|].
      unfold qfree in Hq. rewrite lacks_cons in Hq. apply andb_true_iff in Hq as [Hc _].
      apply negb_true_iff in Hc.
      change (y :: key ++ (c :: t') ++ X) with ((y :: key) ++ c :: t' ++ X) in E2.
      apply prefixb_straddle in E2; [congruence | apply Hd | exact Hc].
    + rewrite (IH Hk'). destruct (find_sub d X); cbn [option_map length]; [f_equal; lia | reflexivity].
Qed.

(** ------------------------------------------------------------------ count_sub *)

Lemma count_from_skip p s k : p <> [] -> count_from p s k = count_from p (skipn k s) 0.
Proof.
  intros Hp. revert k; induction s as [|c s IH]; intros [|k]; try reflexivity.
  - cbn [count_from skipn]. destruct p; [congruence | reflexivity].
  - cbn [count_from skipn]. apply IH.
Qed.

Lemma count_sub_find p s :
  p <> [] ->
  count_sub p s = match find_sub p s with
                  | None => 0
                  | Some n => S (count_sub p (skipn (n + length p) s))
                  end.
Proof.
  intros Hp. unfold count_sub. induction s as [|c s IH].
  - rewrite find_sub_nil. destruct p; [congruence | reflexivity].
  - rewrite find_sub_cons. cbn [count_from]. destruct (prefixb p (c :: s)) eqn:E.
    + f_equal. rewrite (count_from_skip p s _ Hp). cbn [Nat.add].
      destruct p as [|x p']; [congruence|]. cbn [length Nat.add skipn].
      replace (S (length p') - 1) with (length p') by lia. reflexivity.
    + rewrite IH. destruct (find_sub p s) as [n|]; cbn [option_map]; reflexivity.
Qed.

Lemma count_sub_None p s : p <> [] -> find_sub p s = None -> count_sub p s = 0.
Proof. intros Hp H. now rewrite (count_sub_find p s Hp), H. Qed.

Lemma count_sub_Some p s n :
  p <> [] -> find_sub p s = Some n -> count_sub p s = S (count_sub p (skipn (n + length p) s)).
Proof. intros Hp H. now rewrite (count_sub_find p s Hp), H. Qed.
