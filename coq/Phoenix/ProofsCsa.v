(** C16: [csa_series_merge] (model of extract.csa_series_trans_func after the CSA reader). *)
From Coq Require Import List Bool ZArith NArith QArith Arith Lia.
From DV Require Import Common.Res Common.Str Common.F64 Common.PyNum Common.PyNumFacts
                       Phoenix.Model Phoenix.Spec Phoenix.ProofsStr Phoenix.ProofsProt.
Import ListNotations.
Open Scope nat_scope.

Lemma cget_cset k v d k' : cget k' (cset k v d) = if str_eqb k' k then Some v else cget k' d.
Proof.
  induction d as [|[k0 v0] t IH].
  - cbn [cset cget]. destruct (str_eqb k' k); reflexivity.
  - cbn [cset]. destruct (str_eqb_spec k k0) as [->|Hn].
    + cbn [cget]. destruct (str_eqb k' k0); reflexivity.
    + cbn [cget]. rewrite IH. destruct (str_eqb_spec k' k0) as [->|Hn2]; [|reflexivity].
      destruct (str_eqb_spec k0 k) as [->|_]; [congruence | reflexivity].
Qed.

Lemma cget_cdel k d k' : cget k' (cdel k d) = if str_eqb k' k then None else cget k' d.
Proof.
  unfold cdel. induction d as [|[k0 v0] t IH].
  - cbn. destruct (str_eqb k' k); reflexivity.
  - cbn [filter fst]. destruct (str_eqb_spec k k0) as [->|Hn]; cbn [negb].
    + rewrite IH. cbn [cget]. destruct (str_eqb_spec k' k0); reflexivity.
    + cbn [cget]. rewrite IH. destruct (str_eqb_spec k' k0) as [->|Hn2]; [|reflexivity].
      destruct (str_eqb_spec k0 k) as [->|_]; [congruence | reflexivity].
Qed.

(** the merge loop *)
Definition merged (P : str) (items : list (str * pval)) (base : csa_dict) : csa_dict :=
  fold_left (fun d kv => cset (P ++ fst kv) (CItem (snd kv)) d) items base.

Lemma cget_merged_other P items : forall base k',
  (forall k v, In (k, v) items -> k' <> P ++ k) -> cget k' (merged P items base) = cget k' base.
Proof.
  induction items as [|[k0 v0] t IH]; intros base k' H; [reflexivity|].
  unfold merged in *. cbn [fold_left fst snd]. rewrite IH.
  - rewrite cget_cset. destruct (str_eqb_spec k' (P ++ k0)) as [E|_]; [|reflexivity].
    exfalso. apply (H k0 v0); [now left | exact E].
  - intros k v Hin. apply (H k v). now right.
Qed.

Lemma lookup_In k v (l : dict) : lookup k l = Some v -> In k (keys l).
Proof.
  induction l as [|[k0 v0] t IH]; [discriminate|]. cbn [lookup keys map fst].
  destruct (str_eqb_spec k k0) as [->|_]; [now left | right; now apply IH].
Qed.

Lemma cget_merged_hit P items : NoDup (keys items) -> forall base k v,
  lookup k items = Some v -> cget (P ++ k) (merged P items base) = Some (CItem v).
Proof.
  induction items as [|[k0 v0] t IH]; intros Hnd base k v Hl; [discriminate|].
  cbn [keys map fst] in Hnd. inversion Hnd as [|x l Hnotin Hnd']; subst.
  cbn [lookup] in Hl. unfold merged in *. cbn [fold_left fst snd].
  destruct (str_eqb_spec k k0) as [->|Hne].
  - injection Hl as ->. fold (merged P t (cset (P ++ k0) (CItem v) base)).
    rewrite cget_merged_other.
    + rewrite cget_cset, str_eqb_refl. reflexivity.
    + intros k1 v1 Hin E. apply app_inv_head in E. subst k1. apply Hnotin.
      change (In k0 (keys t)). apply in_map_iff. now exists (k0, v1).
  - now apply IH.
Qed.

Lemma key_in_false l k : key_in k l = false -> ~ In k l.
Proof.
  induction l as [|x l IH]; [tauto|]. cbn [key_in]. intros H [E | Hin].
  - subst x. now rewrite str_eqb_refl in H.
  - apply orb_false_iff in H as [_ H]. now apply IH.
Qed.

Lemma NoDup_snoc {A} (l : list A) x : NoDup l -> ~ In x l -> NoDup (l ++ [x]).
Proof.
  induction l as [|y l IH]; intros Hnd Hx; [repeat constructor; tauto|].
  inversion Hnd as [|z m Hy Hnd']; subst. cbn [app]. constructor.
  - intros Hin. apply in_app_or in Hin as [Hin | [-> | []]]; [tauto | apply Hx; now left].
  - apply IH; [exact Hnd' | intros Hin; apply Hx; now right].
Qed.

Lemma keys_nodup_assign l : forall d0, NoDup (keys d0) -> NoDup (keys (assign_all l d0)).
Proof.
  induction l as [|[k v] l IH]; intros d0 H; [exact H|].
  unfold assign_all in *. cbn [fold_left fst snd]. apply IH. rewrite keys_dict_set.
  destruct (key_in k (keys d0)) eqn:E; [exact H|]. apply NoDup_snoc; [exact H | now apply key_in_false].
Qed.

Lemma In_lookup_nodup (l : dict) k v : NoDup (keys l) -> In (k, v) l -> lookup k l = Some v.
Proof.
  induction l as [|[k0 v0] t IH]; intros Hnd Hin; [contradiction|].
  cbn [keys map fst] in Hnd. inversion Hnd as [|x m Hnotin Hnd']; subst.
  cbn [lookup]. destruct Hin as [[= -> ->] | Hin]; [now rewrite str_eqb_refl|].
  destruct (str_eqb_spec k k0) as [->|_]; [|now apply IH].
  exfalso. apply Hnotin. apply in_map_iff. now exists (k0, v).
Qed.

Lemma prefix_ne_src src d : prot_dialect src d -> forall k, src <> PHX_PREFIX ++ k.
Proof.
  intros [[-> _] | [-> _]] k H.
  - apply (f_equal (@length N)) in H. unfold PHX_PREFIX in H. rewrite !app_length in H. cbn [length] in H. lia.
  - unfold PHX_PREFIX, K_MrProtocol, K_MrPhoenixProtocol in H. cbn [app] in H. discriminate H.
Qed.

(** which element is parsed: MrPhoenixProtocol if present, else MrProtocol *)
Lemma merge_select src d (cd : csa_dict) text :
  prot_dialect src d ->
  (src = K_MrProtocol -> cget K_MrPhoenixProtocol cd = None) ->
  cget src cd = Some (CItem (PStr text)) ->
  csa_series_merge cd =
    bind (parse_prot src text) (fun phoenix_dict => Ok (merged PHX_PREFIX phoenix_dict (cdel src cd))).
Proof.
  intros Hk Hsel Hget. unfold csa_series_merge, chas.
  destruct Hk as [[-> _] | [-> _]].
  - rewrite Hget. cbv beta iota. rewrite Hget. reflexivity.
  - rewrite (Hsel eq_refl), Hget. cbv beta iota. rewrite Hget. reflexivity.
Qed.

Lemma csa_merge : forall src d, prot_dialect src d ->
  forall (cd : csa_dict) before hdr lines after results,
  (src = K_MrProtocol -> cget K_MrPhoenixProtocol cd = None) ->
  cget src cd = Some (CItem (PStr (render_prot before hdr lines after))) ->
  lacks 10 hdr = true -> Forall (fun l => lacks 10 l = true) lines ->
  find_sub ASC_BEGIN (render_prot before hdr lines after) = Some (length before) ->
  find_sub ASC_END (render_prot before hdr lines after) = Some (length (prot_head before hdr lines)) ->
  Forall2 (fun l r => parse_line l d = Ok r) lines results ->
  let parsed := assign_all (somes results) [] in
  exists out, csa_series_merge cd = Ok out
    /\ (forall k v, lookup k parsed = Some v -> cget (PHX_PREFIX ++ k) out = Some (CItem v))
    /\ cget src out = None
    /\ (forall k', k' <> src -> (forall k v, lookup k parsed = Some v -> k' <> PHX_PREFIX ++ k) ->
                   cget k' out = cget k' cd).
Proof.
  intros src d Hk cd before hdr lines after results Hsel Hget Hh Hl Hb He Hres parsed.
  assert (Hnd : NoDup (keys parsed)) by (apply keys_nodup_assign; constructor).
  exists (merged PHX_PREFIX parsed (cdel src cd)). repeat split.
  - rewrite (merge_select src d cd _ Hk Hsel Hget).
    rewrite (prot_section src d before hdr lines after Hk Hh Hl Hb He).
    rewrite (parse_lines_ok d lines results [] Hres). reflexivity.
  - intros k v Hlk. now apply cget_merged_hit.
  - rewrite cget_merged_other; [rewrite cget_cdel; now rewrite str_eqb_refl|].
    intros k v _. apply (prefix_ne_src src d Hk).
  - intros k' Hne Hfree. rewrite cget_merged_other.
    + rewrite cget_cdel. destruct (str_eqb_spec k' src); [congruence | reflexivity].
    + intros k v Hin. apply (Hfree k v). now apply In_lookup_nodup.
Qed.

Lemma csa_merge_err : forall src d, prot_dialect src d ->
  forall (cd : csa_dict) text e,
  (src = K_MrProtocol -> cget K_MrPhoenixProtocol cd = None) ->
  cget src cd = Some (CItem (PStr text)) -> parse_prot src text = Err e ->
  csa_series_merge cd = Err e.
Proof.
  intros src d Hk cd text e Hsel Hget Herr.
  now rewrite (merge_select src d cd text Hk Hsel Hget), Herr.
Qed.

Lemma csa_merge_none (cd : csa_dict) :
  cget K_MrPhoenixProtocol cd = None -> cget K_MrProtocol cd = None -> csa_series_merge cd = Ok cd.
Proof. intros H1 H2. unfold csa_series_merge, chas. now rewrite H1, H2. Qed.
