(** Concrete data for the non-vacuity Examples of Props/C16.v (strings as code points). *)
From Coq Require Import List NArith ZArith.
From DV Require Import Common.Str Phoenix.Model Phoenix.Spec.
Import ListNotations.

(* sSliceArray.asSlice[0].dThickness *)
Definition ex_key1 : str := [115; 83; 108; 105; 99; 101; 65; 114; 114; 97; 121; 46; 97; 115; 83; 108; 105; 99; 101; 91; 48; 93; 46; 100; 84; 104; 105; 99; 107; 110; 101; 115; 115]%N.
(* tSequenceFileName *)
Definition ex_key2 : str := [116; 83; 101; 113; 117; 101; 110; 99; 101; 70; 105; 108; 101; 78; 97; 109; 101]%N.
(* %SiemensSeq%\ep2d #1 = <q>x      -- contains '#', '=' and one quote character *)
Definition ex_str1 : str := [37; 83; 105; 101; 109; 101; 110; 115; 83; 101; 113; 37; 92; 101; 112; 50; 100; 32; 35; 49; 32; 61; 32; 34; 120]%N.
(* a # b = c *)
Definition ex_str2 : str := [97; 32; 35; 32; 98; 32; 61; 32; 99]%N.
(* the comment text  was <q><q> 5 # x   (two quote characters and a second '#') *)
Definition ex_comment : str := [32; 119; 97; 115; 32; 34; 34; 32; 53; 32; 35; 32; 120]%N.
(* -1.5e-07 *)
Definition ex_flt1 : str := [45; 49; 46; 53; 101; 45; 48; 55]%N.
(* 2.675 *)
Definition ex_flt2 : str := [50; 46; 54; 55; 53]%N.
(* alTR[0] 2500 # ms *)
Definition ex_line_noeq : str := [97; 108; 84; 82; 91; 48; 93; 32; 50; 53; 48; 48; 32; 35; 32; 109; 115]%N.
(* --1 *)
Definition ex_bad_tok : str := [45; 45; 49]%N.
(* rest of the junk:  <q> # y<q> after an x *)
Definition ex_junk_rest : str := [32; 35; 32; 121]%N.
(* k = 1e5 *)
Definition ex_line_1e5 : str := [107; 32; 61; 32; 49; 101; 53]%N.

(* a protocol text *)
Definition ex_before : str := [60; 88; 80; 114; 111; 116; 111; 99; 111; 108; 62; 32; 106; 117; 110; 107; 32; 61; 32; 49; 10]%N.
Definition ex_after : str := [10; 116; 114; 97; 105; 108; 105; 110; 103; 32; 61; 32; 34; 106; 117; 110; 107; 10]%N.
Definition ex_hdr : str := [35; 35; 35]%N.
Definition ex_lines : list str := [
  (* ulVersion = 0x1421cf5 # hex *)
  [117; 108; 86; 101; 114; 115; 105; 111; 110; 32; 61; 32; 48; 120; 49; 52; 50; 49; 99; 102; 53; 32; 35; 32; 104; 101; 120];
  [];
  (* tProtocolName = <q><q>ep2d#bold<q><q> *)
  [116; 80; 114; 111; 116; 111; 99; 111; 108; 78; 97; 109; 101; 32; 61; 32; 34; 34; 101; 112; 50; 100; 35; 98; 111; 108; 100; 34; 34];
  (*   # only a comment *)
  [32; 32; 35; 32; 111; 110; 108; 121; 32; 97; 32; 99; 111; 109; 109; 101; 110; 116];
  (* alTR[0] = 2500 *)
  [97; 108; 84; 82; 91; 48; 93; 32; 61; 32; 50; 53; 48; 48];
  (* ulVersion = 7 *)
  [117; 108; 86; 101; 114; 115; 105; 111; 110; 32; 61; 32; 55];
  (* dFlip = 77.5 *)
  [100; 70; 108; 105; 112; 32; 61; 32; 55; 55; 46; 53]
]%N.
Definition ex_k_ulVersion : str := [117; 108; 86; 101; 114; 115; 105; 111; 110]%N.
Definition ex_k_tProtocolName : str := [116; 80; 114; 111; 116; 111; 99; 111; 108; 78; 97; 109; 101]%N.
Definition ex_k_alTR0 : str := [97; 108; 84; 82; 91; 48; 93]%N.
Definition ex_k_dFlip : str := [100; 70; 108; 105; 112]%N.
(* ep2d#bold *)
Definition ex_v_name : str := [101; 112; 50; 100; 35; 98; 111; 108; 100]%N.

(* the same protocol in the one-quote dialect:  tProtocolName = <q>ep2d#bold<q> # c ; blank ; alTR[0] = 2500 *)
Definition ex_lines1 : list str := [
  [116; 80; 114; 111; 116; 111; 99; 111; 108; 78; 97; 109; 101; 32; 61; 32; 34; 101; 112; 50; 100; 35; 98; 111; 108; 100; 34; 32; 35; 32; 99];
  [];
  [97; 108; 84; 82; 91; 48; 93; 32; 61; 32; 50; 53; 48; 48]
]%N.

(* a simplified CSA series dict: an ordinary two-item tag and the MrProtocol element *)
Definition ex_csa_in : csa_dict :=
  [ (ex_k_dFlip, CItems [PInt 3%Z; PInt 4%Z]);
    (K_MrProtocol, CItem (PStr (render_prot ex_before ex_hdr ex_lines1 ex_after))) ].

(* k = <q>a#b<q> # c *)
Definition ex_line_q : str := [107; 32; 61; 32; 34; 97; 35; 98; 34; 32; 35; 32; 99]%N.
(* a<q>#b = <q>x<q>   -- accepted with the key  a<q>#b : a key outside good_key *)
Definition ex_line_loose_key : str := [97; 34; 35; 98; 32; 61; 32; 34; 120; 34]%N.
