(** Strings are lists of Unicode code points ([list N]); never [ascii]. *)
From Coq Require Import List Bool NArith Lia.
Import ListNotations.

Definition str := list N.

Fixpoint str_eqb (a b : str) : bool :=
  match a, b with
  | [], [] => true
  | x :: xs, y :: ys => N.eqb x y && str_eqb xs ys
  | _, _ => false
  end.

Lemma str_eqb_spec a b : reflect (a = b) (str_eqb a b).
Proof.
  revert b; induction a as [|x xs IH]; intros [|y ys]; simpl; try (constructor; congruence).
  destruct (N.eqb_spec x y) as [->|Hn]; simpl.
  - destruct (IH ys) as [->|Hn]; constructor; congruence.
  - constructor; congruence.
Qed.

Lemma str_eqb_refl a : str_eqb a a = true.
Proof. destruct (str_eqb_spec a a); congruence. Qed.

Lemma str_eqb_eq a b : str_eqb a b = true <-> a = b.
Proof. destruct (str_eqb_spec a b); split; congruence. Qed.

(** [prefix p s]: does [s] start with [p]? *)
Fixpoint prefixb (p s : str) : bool :=
  match p, s with
  | [], _ => true
  | x :: xs, y :: ys => N.eqb x y && prefixb xs ys
  | _ :: _, [] => false
  end.

Lemma prefixb_spec p s : prefixb p s = true <-> exists t, s = p ++ t.
Proof.
  revert s; induction p as [|x xs IH]; intros s; simpl.
  - split; [intros _; exists s; reflexivity | reflexivity].
  - destruct s as [|y ys]; [split; [discriminate | intros [t Ht]; discriminate]|].
    rewrite Bool.andb_true_iff, N.eqb_eq, IH. split.
    + intros [-> [t ->]]. exists t; reflexivity.
    + intros [t Ht]. injection Ht as -> ->. split; [reflexivity | exists t; reflexivity].
Qed.

(** Python [s.find(p)]: index of the first occurrence, or None. *)
Fixpoint find_sub_from (p s : str) (i : nat) : option nat :=
  if prefixb p s then Some i else
  match s with
  | [] => None
  | _ :: ys => find_sub_from p ys (S i)
  end.
Definition find_sub (p s : str) : option nat := find_sub_from p s 0.

(** substring test: Python [p in s]. *)
Definition containsb (p s : str) : bool :=
  match find_sub p s with Some _ => true | None => false end.
