(** IEEE-754 binary64 round-to-nearest-even on exact rationals.
    [fl q] is the double nearest to [q] (ties to even), as an exact rational; overflow to
    infinity is NOT modelled (|q| < 2^1024 is the caller's domain), subnormals are.
    Python [float(decimal string)], [a + b], [a * b], [a / b] on finite doubles are
    [fl] of the exact result (CPython's dtoa and the hardware are correctly rounded). *)
From Coq Require Import ZArith QArith Lia.
Local Open Scope Z_scope.

Definition round_half_even (n d : Z) : Z :=   (* n >= 0, d > 0 *)
  let q := n / d in
  let r := n mod d in
  match Z.compare (2 * r) d with
  | Lt => q
  | Gt => q + 1
  | Eq => if Z.even q then q else q + 1
  end.

(** exponent of the unit in the last place for the positive rational n/d *)
Definition ulp_exp (n d : Z) : Z :=
  let e0 := Z.log2 n - Z.log2 d - 52 in
  (* is n / (d * 2^e0) >= 2^52 ? *)
  let ge := if 0 <=? e0 then 2 ^ 52 * d * 2 ^ e0 <=? n else 2 ^ 52 * d <=? n * 2 ^ (- e0) in
  let e := if ge then e0 else e0 - 1 in
  Z.max e (-1074).

Definition fl_pos (n d : Z) : Q :=   (* n > 0, d > 0 *)
  let e := ulp_exp n d in
  let m := if 0 <=? e then round_half_even n (d * 2 ^ e) else round_half_even (n * 2 ^ (- e)) d in
  if 0 <=? e then Qmake (m * 2 ^ e) 1 else Qmake m (Z.to_pos (2 ^ (- e))).

Definition fl (q : Q) : Q :=
  match Qnum q with
  | Z0 => 0%Q
  | Zpos n => fl_pos (Zpos n) (Zpos (Qden q))
  | Zneg n => Qopp (fl_pos (Zpos n) (Zpos (Qden q)))
  end.

Definition fadd (a b : Q) : Q := fl (a + b).
Definition fsub (a b : Q) : Q := fl (a - b).
Definition fmul (a b : Q) : Q := fl (a * b).
Definition fdiv (a b : Q) : Q := fl (a / b).

(** Python float(int) *)
Definition f_of_Z (z : Z) : Q := fl (inject_Z z).

Example fl_tenth : Qeq_bool (fl (1 # 10)) (3602879701896397 # 36028797018963968) = true.
Proof. vm_compute. reflexivity. Qed.
Example fl_exact_small : Qeq_bool (fl (86399 # 1)) (86399 # 1) = true.
Proof. vm_compute. reflexivity. Qed.
