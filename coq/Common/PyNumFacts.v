(** Facts about the Python string/number acceptors of Common/PyNum.v:
    - str.strip algebra,
    - [py_int (dec_of_Z z) = Ok z]  (int(str(z)) == z for every integer),
    - [hex_of_Z] (Python hex()) and [py_int16 (hex_of_Z z) = Ok z], [py_int (hex_of_Z z) = Err EValue],
    - tokens carrying a "float marker" are rejected by int(s) and int(s, 16). *)
From Coq Require Import List Bool ZArith NArith QArith Lia.
From DV Require Import Common.Res Common.Str Common.F64 Common.PyNum.
Import ListNotations.
Open Scope nat_scope.

(** ------------------------------------------------------------------ whitespace *)

Definition all_space (l : str) : bool := forallb py_isspace l.
Definition no_space (l : str) : bool := forallb (fun c => negb (py_isspace c)) l.

Lemma all_space_app a b : all_space (a ++ b) = all_space a && all_space b.
Proof. apply forallb_app. Qed.

Lemma all_space_rev a : all_space a = true -> all_space (rev a) = true.
Proof.
  unfold all_space. rewrite !forallb_forall. intros H x Hx. apply H. now apply in_rev.
Qed.

Lemma py_lstrip_cons_space c X : py_isspace c = true -> py_lstrip (c :: X) = py_lstrip X.
Proof. intros H. cbn [py_lstrip]. now rewrite H. Qed.

Lemma py_lstrip_cons_nonspace c X : py_isspace c = false -> py_lstrip (c :: X) = c :: X.
Proof. intros H. cbn [py_lstrip]. now rewrite H. Qed.

Lemma py_lstrip_space_app a X : all_space a = true -> py_lstrip (a ++ X) = py_lstrip X.
Proof.
  induction a as [|c a IH]; intros H; [reflexivity|].
  cbn [all_space forallb] in H. apply andb_true_iff in H as [H1 H2].
  cbn [app]. rewrite (py_lstrip_cons_space _ _ H1). now apply IH.
Qed.

Lemma py_lstrip_all_space a : all_space a = true -> py_lstrip a = [].
Proof. intros H. rewrite <- (app_nil_r a). now rewrite (py_lstrip_space_app a [] H). Qed.

Lemma py_lstrip_app_nonspace X c Y :
  py_isspace c = false -> py_lstrip (X ++ c :: Y) = py_lstrip X ++ c :: Y.
Proof.
  intros Hc. induction X as [|x X IH].
  - cbn [app]. now rewrite (py_lstrip_cons_nonspace _ _ Hc).
  - cbn [app py_lstrip]. destruct (py_isspace x); [exact IH | reflexivity].
Qed.

Lemma py_rstrip_nil : py_rstrip [] = [].
Proof. reflexivity. Qed.

Lemma py_rstrip_app_nonspace A c B :
  py_isspace c = false -> py_rstrip (A ++ c :: B) = A ++ c :: py_rstrip B.
Proof.
  intros Hc. unfold py_rstrip. rewrite rev_app_distr. cbn [rev]. rewrite <- app_assoc. cbn [app].
  rewrite (py_lstrip_app_nonspace _ _ _ Hc). rewrite rev_app_distr. cbn [rev].
  rewrite rev_involutive, <- app_assoc. reflexivity.
Qed.

Lemma py_rstrip_app_space A b : all_space b = true -> py_rstrip (A ++ b) = py_rstrip A.
Proof.
  intros H. unfold py_rstrip. rewrite rev_app_distr.
  now rewrite (py_lstrip_space_app _ _ (all_space_rev _ H)).
Qed.

Lemma py_rstrip_all_space b : all_space b = true -> py_rstrip b = [].
Proof. intros H. change b with ([] ++ b). now rewrite (py_rstrip_app_space [] b H). Qed.

Lemma py_lstrip_app_space_r k b :
  all_space b = true ->
  py_lstrip (k ++ b) = py_lstrip k ++ (match py_lstrip k with [] => [] | _ :: _ => b end).
Proof.
  intros Hb. induction k as [|c k IH].
  - cbn [app py_lstrip]. now rewrite (py_lstrip_all_space b Hb).
  - cbn [app py_lstrip]. destruct (py_isspace c); [exact IH | reflexivity].
Qed.

(** blanks around a string do not change its strip *)
Lemma py_strip_pad a k b :
  all_space a = true -> all_space b = true -> py_strip (a ++ k ++ b) = py_strip k.
Proof.
  intros Ha Hb. unfold py_strip. rewrite (py_lstrip_space_app a _ Ha), (py_lstrip_app_space_r k b Hb).
  destruct (py_lstrip k); [now rewrite app_nil_r | now apply py_rstrip_app_space].
Qed.

Lemma py_strip_all_space a : all_space a = true -> py_strip a = [].
Proof. intros H. unfold py_strip. now rewrite (py_lstrip_all_space a H). Qed.

Lemma py_strip_no_space tok : no_space tok = true -> py_strip tok = tok.
Proof.
  intros H. destruct tok as [|c r]; [reflexivity|].
  assert (Hne : c :: r <> []) by discriminate.
  destruct (exists_last Hne) as [A [z Hz]].
  unfold py_strip.
  assert (Hc : py_isspace c = false).
  { cbn [no_space forallb] in H. apply andb_true_iff in H as [H1 _]. now apply negb_true_iff in H1. }
  rewrite (py_lstrip_cons_nonspace _ _ Hc), Hz.
  assert (Hzs : py_isspace z = false).
  { rewrite Hz in H. unfold no_space in H. rewrite forallb_app in H. apply andb_true_iff in H as [_ H2].
    cbn [forallb] in H2. apply andb_true_iff in H2 as [H2 _]. now apply negb_true_iff in H2. }
  now rewrite (py_rstrip_app_nonspace A z [] Hzs).
Qed.

(** a string with a non-blank character does not strip to the empty string *)
Lemma py_strip_nonblank A c B : py_isspace c = false -> py_strip (A ++ c :: B) <> [].
Proof.
  intros Hc. unfold py_strip. rewrite (py_lstrip_app_nonspace A c B Hc).
  rewrite (py_rstrip_app_nonspace _ c B Hc). destruct (py_lstrip A); discriminate.
Qed.

(** strip of  blanks ++ c :: rest  with [c] non-blank *)
Lemma py_strip_lead a c R :
  all_space a = true -> py_isspace c = false -> py_strip (a ++ c :: R) = c :: py_rstrip R.
Proof.
  intros Ha Hc. unfold py_strip.
  rewrite (py_lstrip_space_app a _ Ha), (py_lstrip_cons_nonspace _ _ Hc).
  exact (py_rstrip_app_nonspace [] c R Hc).
Qed.

(** ------------------------------------------------------------------ digit runs *)

Definition dstep (dv : N -> option Z) (base : Z) (a : Z) (c : N) : Z :=
  (a * base + match dv c with Some d => d | None => 0 end)%Z.
Definition dvalue (dv : N -> option Z) (base : Z) (ds : str) (acc : Z) : Z :=
  fold_left (dstep dv base) ds acc.
Definition is_some {A} (o : option A) : bool := match o with Some _ => true | None => false end.
Definition all_dig (dv : N -> option Z) (ds : str) : bool := forallb (fun c => is_some (dv c)) ds.

(** where a digit run stops: at the end, or at a character that is neither a digit nor '_' *)
Definition stops (dv : N -> option Z) (rest : str) : Prop :=
  match rest with
  | [] => True
  | c :: _ => dv c = None /\ c <> 95%N
  end.

Lemma digit_run_digits dv base ds : forall acc cnt rest,
  all_dig dv ds = true -> stops dv rest ->
  digit_run dv base acc cnt (ds ++ rest) = (dvalue dv base ds acc, cnt + length ds, rest).
Proof.
  induction ds as [|c ds IH]; intros acc cnt rest Hd Hs.
  - cbn [app dvalue fold_left length]. rewrite Nat.add_0_r.
    destruct rest as [|c r]; [reflexivity|].
    destruct Hs as [H1 H2]. cbn [digit_run]. rewrite H1.
    apply N.eqb_neq in H2. now rewrite H2.
  - cbn [all_dig forallb] in Hd. apply andb_true_iff in Hd as [H1 H2].
    cbn [app digit_run]. destruct (dv c) as [d|] eqn:E; [|discriminate].
    rewrite (IH _ _ _ H2 Hs). cbn [dvalue fold_left length]. unfold dstep at 2. rewrite E.
    f_equal. f_equal. lia.
Qed.

Lemma digit_part_digits dv base ds rest :
  ds <> [] -> all_dig dv ds = true -> stops dv rest ->
  digit_part dv base (ds ++ rest) = Some (dvalue dv base ds 0, length ds, rest).
Proof.
  intros Hne Hd Hs. destruct ds as [|c ds]; [congruence|].
  pose proof Hd as Hd0. cbn [all_dig forallb] in Hd. apply andb_true_iff in Hd as [H1 H2].
  cbn [app]. unfold digit_part. destruct (dv c) as [d|] eqn:E; [|discriminate].
  rewrite (digit_run_digits dv base ds d 1 rest H2 Hs).
  cbn [dvalue fold_left length]. unfold dstep at 2. rewrite E.
  rewrite Z.mul_0_l, Z.add_0_l. reflexivity.
Qed.

Lemma digit_part_digits_nil dv base ds :
  ds <> [] -> all_dig dv ds = true ->
  digit_part dv base ds = Some (dvalue dv base ds 0, length ds, []).
Proof.
  intros Hne Hd. pose proof (digit_part_digits dv base ds [] Hne Hd I) as H.
  now rewrite app_nil_r in H.
Qed.

(** if a digit run consumes everything, every character was a digit or '_' *)
Definition run_char (dv : N -> option Z) (c : N) : bool := is_some (dv c) || N.eqb c 95.

Lemma digit_run_all_aux dv base : forall n s acc cnt v k,
  length s <= n -> digit_run dv base acc cnt s = (v, k, []) -> forallb (run_char dv) s = true.
Proof.
  induction n as [|n IH]; intros s acc cnt v k Hl H.
  - destruct s; [reflexivity | cbn in Hl; lia].
  - destruct s as [|c r]; [reflexivity|].
    cbn [length] in Hl. cbn [digit_run] in H. cbn [forallb]. unfold run_char at 1.
    destruct (dv c) as [d|] eqn:E.
    + cbn [is_some orb]. eapply (IH r); [|exact H]. lia.
    + cbn [is_some orb]. destruct (N.eqb c 95) eqn:E95; [|discriminate H].
      cbn [andb]. destruct r as [|c2 r2]; [discriminate H|].
      destruct (dv c2) as [d2|] eqn:E2; [|discriminate H].
      cbn [forallb]. unfold run_char at 1. rewrite E2. cbn [is_some orb andb].
      eapply (IH r2); [|exact H]. cbn [length] in Hl; lia.
Qed.

Lemma digit_part_all dv base s v k :
  digit_part dv base s = Some (v, k, []) -> forallb (run_char dv) s = true.
Proof.
  unfold digit_part. destruct s as [|c r]; [discriminate|].
  destruct (dv c) as [d|] eqn:E; [|discriminate]. intros [= H].
  cbn [forallb]. unfold run_char at 1. rewrite E. cbn [is_some orb andb].
  eapply (digit_run_all_aux dv base (length r) r); [lia | exact H].
Qed.

(** ------------------------------------------------------------------ positional rendering *)

Fixpoint gen_digits_fuel (base : N) (chr : N -> N) (fuel : nat) (n : N) (acc : str) : str :=
  match fuel with
  | O => acc
  | S f => if (n <? base)%N then chr n :: acc
           else gen_digits_fuel base chr f (n / base)%N (chr (n mod base)%N :: acc)
  end.

Section Positional.
  Variable base : N.
  Variable chr : N -> N.
  Variable dv : N -> option Z.
  Hypothesis base_ge2 : (2 <= base)%N.
  Hypothesis chr_dv : forall k, (k < base)%N -> dv (chr k) = Some (Z.of_N k).

  Lemma gen_digits_spec : forall fuel n acc,
    (n < 2 ^ N.of_nat (S fuel))%N ->
    exists ds, gen_digits_fuel base chr (S fuel) n acc = ds ++ acc /\ ds <> [] /\
               all_dig dv ds = true /\ dvalue dv (Z.of_N base) ds 0 = Z.of_N n.
  Proof.
    induction fuel as [|f IH]; intros n acc Hn.
    - assert (Hlt : (n < base)%N) by (cbn in Hn; lia).
      exists [chr n]. cbn [gen_digits_fuel]. apply N.ltb_lt in Hlt as Hb. rewrite Hb.
      repeat split; [discriminate | |].
      + cbn [all_dig forallb]. now rewrite (chr_dv n Hlt).
      + cbn [dvalue fold_left]. unfold dstep. rewrite (chr_dv n Hlt). lia.
    - remember (S f) as f1. cbn [gen_digits_fuel]. destruct (n <? base)%N eqn:Hb.
      + apply N.ltb_lt in Hb. exists [chr n]. repeat split; [discriminate | |].
        * cbn [all_dig forallb]. now rewrite (chr_dv n Hb).
        * cbn [dvalue fold_left]. unfold dstep. rewrite (chr_dv n Hb). lia.
      + apply N.ltb_ge in Hb.
        assert (Hq : (n / base < 2 ^ N.of_nat (S f))%N).
        { apply N.div_lt_upper_bound; [lia|].
          rewrite Nat2N.inj_succ, N.pow_succ_r' in Hn. subst f1. nia. }
        subst f1. destruct (IH (n / base)%N (chr (n mod base)%N :: acc) Hq) as [ds [H1 [H2 [H3 H4]]]].
        assert (Hm : (n mod base < base)%N) by (apply N.mod_lt; lia).
        exists (ds ++ [chr (n mod base)%N]). repeat split.
        * rewrite H1, <- app_assoc. reflexivity.
        * destruct ds; discriminate.
        * unfold all_dig in *. rewrite forallb_app, H3. cbn [forallb]. now rewrite (chr_dv _ Hm).
        * unfold dvalue in *. rewrite fold_left_app, H4. cbn [fold_left]. unfold dstep.
          rewrite (chr_dv _ Hm). pose proof (N.div_mod n base ltac:(lia)) as Hdm.
          rewrite Hdm at 3. lia.
  Qed.

  Lemma gen_digits_log2 n :
    exists ds, gen_digits_fuel base chr (S (N.to_nat (N.log2 n))) n [] = ds /\ ds <> [] /\
               all_dig dv ds = true /\ dvalue dv (Z.of_N base) ds 0 = Z.of_N n.
  Proof.
    destruct (gen_digits_spec (N.to_nat (N.log2 n)) n []) as [ds [H1 H2]].
    - rewrite Nat2N.inj_succ, N2Nat.id. destruct n as [|p]; [reflexivity|].
      apply N.log2_spec. reflexivity.
    - exists ds. rewrite app_nil_r in H1. now split.
  Qed.
End Positional.

(** ------------------------------------------------------------------ decimal: int(str(z)) = z *)

Lemma is_digit_cases c : is_digit c = true ->
  (c = 48 \/ c = 49 \/ c = 50 \/ c = 51 \/ c = 52 \/ c = 53 \/ c = 54 \/ c = 55 \/ c = 56 \/ c = 57)%N.
Proof.
  unfold is_digit. intros H. apply andb_true_iff in H as [H1 H2].
  apply N.leb_le in H1, H2. lia.
Qed.

Lemma dec_val_digit c d : dec_val c = Some d -> is_digit c = true.
Proof. unfold dec_val. destruct (is_digit c); [reflexivity | discriminate]. Qed.

Lemma dec_chr_dv k : (k < 10)%N -> dec_val (48 + k)%N = Some (Z.of_N k).
Proof.
  intros H.
  assert (Hk : (k = 0 \/ k = 1 \/ k = 2 \/ k = 3 \/ k = 4 \/ k = 5 \/ k = 6 \/ k = 7 \/ k = 8 \/ k = 9)%N) by lia.
  repeat (destruct Hk as [-> | Hk]; [reflexivity|]). subst k; reflexivity.
Qed.

Lemma dec_digits_fuel_gen f : forall n acc,
  dec_digits_fuel f n acc = gen_digits_fuel 10 (fun k => 48 + k)%N f n acc.
Proof.
  induction f as [|f IH]; intros n acc; [reflexivity|].
  cbn [dec_digits_fuel gen_digits_fuel]. destruct (n <? 10)%N; [reflexivity | apply IH].
Qed.

Lemma dec_of_N_spec n :
  exists ds, dec_of_N n = ds /\ ds <> [] /\ all_dig dec_val ds = true /\
             dvalue dec_val 10 ds 0 = Z.of_N n.
Proof.
  unfold dec_of_N. rewrite dec_digits_fuel_gen.
  apply (gen_digits_log2 10%N (fun k => 48 + k)%N dec_val); [lia | exact dec_chr_dv].
Qed.

Lemma digit_not_space c : is_digit c = true -> py_isspace c = false.
Proof.
  intros H. apply is_digit_cases in H.
  repeat (destruct H as [-> | H]; [reflexivity|]). subst c; reflexivity.
Qed.

Lemma all_dig_dec_no_space ds : all_dig dec_val ds = true -> no_space ds = true.
Proof.
  unfold all_dig, no_space. rewrite !forallb_forall. intros H x Hx. specialize (H x Hx).
  destruct (dec_val x) eqn:E; [|discriminate]. apply dec_val_digit in E.
  now rewrite (digit_not_space x E).
Qed.

Lemma split_sign_digit c r : is_digit c = true -> split_sign (c :: r) = (false, c :: r).
Proof.
  intros H. apply is_digit_cases in H.
  repeat (destruct H as [-> | H]; [reflexivity|]). subst c; reflexivity.
Qed.

Lemma py_int_digits ds :
  ds <> [] -> all_dig dec_val ds = true -> py_int ds = Ok (dvalue dec_val 10 ds 0).
Proof.
  intros Hne Hd. unfold py_int. rewrite (py_strip_no_space ds (all_dig_dec_no_space ds Hd)).
  destruct ds as [|c r]; [congruence|].
  assert (Hc : is_digit c = true).
  { cbn [all_dig forallb] in Hd. apply andb_true_iff in Hd as [H1 _].
    destruct (dec_val c) eqn:E; [|discriminate]. now apply dec_val_digit in E. }
  rewrite (split_sign_digit c r Hc).
  rewrite (digit_part_digits_nil dec_val 10 (c :: r) Hne Hd). reflexivity.
Qed.

Lemma py_int_neg_digits ds :
  ds <> [] -> all_dig dec_val ds = true -> py_int (45%N :: ds) = Ok (- dvalue dec_val 10 ds 0)%Z.
Proof.
  intros Hne Hd. unfold py_int.
  assert (Hs : no_space (45%N :: ds) = true).
  { cbn [no_space forallb]. change (forallb _ ds) with (no_space ds).
    now rewrite (all_dig_dec_no_space ds Hd). }
  rewrite (py_strip_no_space _ Hs). change (split_sign (45%N :: ds)) with (true, ds).
  cbv beta iota.
  rewrite (digit_part_digits_nil dec_val 10 ds Hne Hd). reflexivity.
Qed.

(** int(str(z)) == z, for every integer *)
Theorem py_int_dec_of_Z z : py_int (dec_of_Z z) = Ok z.
Proof.
  destruct z as [|p|p]; [reflexivity | |]; cbn [dec_of_Z];
    destruct (dec_of_N_spec (Npos p)) as [ds [-> [Hne [Hd Hv]]]].
  - rewrite (py_int_digits ds Hne Hd), Hv. reflexivity.
  - rewrite (py_int_neg_digits ds Hne Hd), Hv. reflexivity.
Qed.

(** the characters of a decimal rendering *)
Definition dec_char (c : N) : bool := is_digit c || N.eqb c 45.

Lemma dec_of_Z_chars z : dec_of_Z z <> [] /\ forallb dec_char (dec_of_Z z) = true.
Proof.
  assert (Hd : forall ds, all_dig dec_val ds = true -> forallb dec_char ds = true).
  { intros ds. unfold all_dig. rewrite !forallb_forall. intros H x Hx. specialize (H x Hx).
    destruct (dec_val x) eqn:E; [|discriminate]. unfold dec_char. now rewrite (dec_val_digit _ _ E). }
  destruct z as [|p|p]; [split; [discriminate | reflexivity] | |]; cbn [dec_of_Z];
    destruct (dec_of_N_spec (Npos p)) as [ds [-> [Hne [Hd' Hv]]]].
  - split; [exact Hne | now apply Hd].
  - split; [discriminate|]. cbn [forallb]. now rewrite (Hd ds Hd').
Qed.

(** ------------------------------------------------------------------ hexadecimal: Python hex() *)

Definition hex_chr (k : N) : N := if (k <? 10)%N then (48 + k)%N else (87 + k)%N.
Definition hex_of_N (n : N) : str := gen_digits_fuel 16 hex_chr (S (N.to_nat (N.log2 n))) n [].
(** Python [hex(z)]:  0x0, 0x1f, -0x1f *)
Definition hex_of_Z (z : Z) : str :=
  match z with
  | Z0 => [48; 120; 48]%N
  | Zpos p => (48 :: 120 :: hex_of_N (Npos p))%N
  | Zneg p => (45 :: 48 :: 120 :: hex_of_N (Npos p))%N
  end.

Lemma hex_chr_dv k : (k < 16)%N -> hex_val (hex_chr k) = Some (Z.of_N k).
Proof.
  intros H.
  assert (Hk : (k = 0 \/ k = 1 \/ k = 2 \/ k = 3 \/ k = 4 \/ k = 5 \/ k = 6 \/ k = 7 \/ k = 8 \/ k = 9 \/
                k = 10 \/ k = 11 \/ k = 12 \/ k = 13 \/ k = 14 \/ k = 15)%N) by lia.
  repeat (destruct Hk as [-> | Hk]; [reflexivity|]). subst k; reflexivity.
Qed.

Lemma hex_of_N_spec n :
  exists ds, hex_of_N n = ds /\ ds <> [] /\ all_dig hex_val ds = true /\
             dvalue hex_val 16 ds 0 = Z.of_N n.
Proof.
  unfold hex_of_N. apply (gen_digits_log2 16%N hex_chr hex_val); [lia | exact hex_chr_dv].
Qed.

(** the characters accepted by [hex_val] *)
Lemma hex_val_cases c d : hex_val c = Some d ->
  ((48 <= c <= 57) \/ (97 <= c <= 102) \/ (65 <= c <= 70))%N.
Proof.
  unfold hex_val, is_digit. intros H.
  destruct ((48 <=? c)%N && (c <=? 57)%N) eqn:E1.
  { apply andb_true_iff in E1 as [A B]. apply N.leb_le in A, B. lia. }
  destruct ((97 <=? c)%N && (c <=? 102)%N) eqn:E2.
  { apply andb_true_iff in E2 as [A B]. apply N.leb_le in A, B. lia. }
  destruct ((65 <=? c)%N && (c <=? 70)%N) eqn:E3; [|discriminate].
  apply andb_true_iff in E3 as [A B]. apply N.leb_le in A, B. lia.
Qed.

Definition hex_char_list : list N :=
  [48;49;50;51;52;53;54;55;56;57;97;98;99;100;101;102;65;66;67;68;69;70]%N.

Lemma hex_val_in c d : hex_val c = Some d -> In c hex_char_list.
Proof.
  intros H. apply hex_val_cases in H. unfold hex_char_list. cbn [In].
  assert (Hc : (c = 48 \/ c = 49 \/ c = 50 \/ c = 51 \/ c = 52 \/ c = 53 \/ c = 54 \/ c = 55 \/ c = 56 \/ c = 57 \/
                c = 97 \/ c = 98 \/ c = 99 \/ c = 100 \/ c = 101 \/ c = 102 \/
                c = 65 \/ c = 66 \/ c = 67 \/ c = 68 \/ c = 69 \/ c = 70)%N) by lia.
  repeat (destruct Hc as [-> | Hc]; [tauto|]). subst c; tauto.
Qed.

Lemma forall_hex_chars (P : N -> Prop) :
  Forall P hex_char_list -> forall c d, hex_val c = Some d -> P c.
Proof.
  intros H c d Hc. apply hex_val_in in Hc. rewrite Forall_forall in H. now apply H.
Qed.

Lemma hex_not_space c d : hex_val c = Some d -> py_isspace c = false.
Proof. apply (forall_hex_chars (fun c => py_isspace c = false)). repeat constructor. Qed.

Lemma all_dig_hex_no_space ds : all_dig hex_val ds = true -> no_space ds = true.
Proof.
  unfold all_dig, no_space. rewrite !forallb_forall. intros H x Hx. specialize (H x Hx).
  destruct (hex_val x) eqn:E; [|discriminate]. now rewrite (hex_not_space x z E).
Qed.

(** after the 0x prefix, int(s, 16) skips one optional '_' -- a hex digit is not '_' *)
Lemma hex_not_underscore c d : hex_val c = Some d -> N.eqb c 95 = false.
Proof. apply (forall_hex_chars (fun c => N.eqb c 95 = false)). repeat constructor. Qed.

Lemma py_int16_0x_digits (neg : bool) ds :
  ds <> [] -> all_dig hex_val ds = true ->
  py_int16 ((if neg then [45%N] else []) ++ 48%N :: 120%N :: ds)
  = Ok (apply_sign neg (dvalue hex_val 16 ds 0)).
Proof.
  intros Hne Hd. unfold py_int16.
  assert (Hs : no_space ((if neg then [45%N] else []) ++ 48%N :: 120%N :: ds) = true).
  { unfold no_space. rewrite forallb_app. cbn [forallb].
    change (forallb _ ds) with (no_space ds). rewrite (all_dig_hex_no_space ds Hd).
    destruct neg; reflexivity. }
  rewrite (py_strip_no_space _ Hs).
  assert (Hsp : split_sign ((if neg then [45%N] else []) ++ 48%N :: 120%N :: ds) = (neg, 48%N :: 120%N :: ds))
    by (destruct neg; reflexivity).
  rewrite Hsp. cbv beta iota.
  change ((48 =? 48)%N && ((120 =? 120)%N || (120 =? 88)%N)) with true. cbv beta iota.
  destruct ds as [|c r]; [congruence|].
  assert (Hc : exists d, hex_val c = Some d).
  { cbn [all_dig forallb] in Hd. apply andb_true_iff in Hd as [H1 _].
    destruct (hex_val c) as [d|]; [now exists d | discriminate]. }
  destruct Hc as [d Hc]. rewrite (hex_not_underscore c d Hc).
  rewrite (digit_part_digits_nil hex_val 16 (c :: r) Hne Hd). reflexivity.
Qed.

(** int(hex(z), 16) == z *)
Theorem py_int16_hex_of_Z z : py_int16 (hex_of_Z z) = Ok z.
Proof.
  destruct z as [|p|p]; [reflexivity | |]; cbn [hex_of_Z];
    destruct (hex_of_N_spec (Npos p)) as [ds [-> [Hne [Hd Hv]]]].
  - pose proof (py_int16_0x_digits false ds Hne Hd) as H. cbn [app] in H. rewrite H, Hv. reflexivity.
  - pose proof (py_int16_0x_digits true ds Hne Hd) as H. cbn [app] in H. rewrite H, Hv. reflexivity.
Qed.

(** int(hex(z)) raises ValueError (the 'x' is not a decimal digit) *)
Lemma py_int_0x (neg : bool) ds :
  no_space ds = true -> py_int ((if neg then [45%N] else []) ++ 48%N :: 120%N :: ds) = Err EValue.
Proof.
  intros Hd. unfold py_int.
  assert (Hs : no_space ((if neg then [45%N] else []) ++ 48%N :: 120%N :: ds) = true).
  { unfold no_space. rewrite forallb_app. cbn [forallb]. change (forallb _ ds) with (no_space ds).
    rewrite Hd. destruct neg; reflexivity. }
  rewrite (py_strip_no_space _ Hs).
  assert (Hsp : split_sign ((if neg then [45%N] else []) ++ 48%N :: 120%N :: ds) = (neg, 48%N :: 120%N :: ds))
    by (destruct neg; reflexivity).
  rewrite Hsp.
  change (48%N :: 120%N :: ds) with ([48%N] ++ 120%N :: ds).
  rewrite (digit_part_digits dec_val 10 [48%N] (120%N :: ds)); [reflexivity | discriminate | reflexivity |].
  split; [reflexivity | discriminate].
Qed.

Theorem py_int_hex_of_Z z : py_int (hex_of_Z z) = Err EValue.
Proof.
  destruct z as [|p|p]; [reflexivity | |]; cbn [hex_of_Z];
    destruct (hex_of_N_spec (Npos p)) as [ds [-> [Hne [Hd Hv]]]].
  - exact (py_int_0x false ds (all_dig_hex_no_space ds Hd)).
  - exact (py_int_0x true ds (all_dig_hex_no_space ds Hd)).
Qed.

Definition hex_tok_char (c : N) : bool := is_some (hex_val c) || N.eqb c 45 || N.eqb c 120.

Lemma hex_of_Z_chars z : hex_of_Z z <> [] /\ forallb hex_tok_char (hex_of_Z z) = true.
Proof.
  assert (Hd : forall ds, all_dig hex_val ds = true -> forallb hex_tok_char ds = true).
  { intros ds. unfold all_dig. rewrite !forallb_forall. intros H x Hx. specialize (H x Hx).
    unfold hex_tok_char. now rewrite H. }
  destruct z as [|p|p]; [split; [discriminate | reflexivity] | |]; cbn [hex_of_Z];
    destruct (hex_of_N_spec (Npos p)) as [ds [-> [Hne [Hd' Hv]]]]; (split; [discriminate|]);
    cbn [forallb]; now rewrite (Hd ds Hd').
Qed.

(** ------------------------------------------------------------------ float markers
    A token that contains '.', 'n', 'N', 'i', 'I' (inf / nan / infinity), or a sign character
    after its first character (the exponent sign of 1e-05, 1e+16) is rejected by int(s) and by
    int(s, 16).  Every Python repr() of a float carries such a marker. *)

Definition is_mark (c : N) : bool :=
  N.eqb c 46 || N.eqb c 110 || N.eqb c 78 || N.eqb c 105 || N.eqb c 73.
Definition is_sign (c : N) : bool := N.eqb c 43 || N.eqb c 45.
Definition float_marker (tok : str) : bool := existsb is_mark tok || existsb is_sign (tl tok).

Lemma bad_char_cases c : (is_mark c || is_sign c) = true ->
  (c = 46 \/ c = 110 \/ c = 78 \/ c = 105 \/ c = 73 \/ c = 43 \/ c = 45)%N.
Proof.
  unfold is_mark, is_sign. rewrite !orb_true_iff, !N.eqb_eq. tauto.
Qed.

Lemma bad_char_dec c : (is_mark c || is_sign c) = true -> run_char dec_val c = false.
Proof.
  intros H. apply bad_char_cases in H.
  repeat (destruct H as [-> | H]; [reflexivity|]). subst c; reflexivity.
Qed.

Lemma bad_char_hex c : (is_mark c || is_sign c) = true ->
  run_char hex_val c = false /\ c <> 48%N /\ c <> 120%N /\ c <> 88%N /\ c <> 95%N.
Proof.
  intros H. apply bad_char_cases in H.
  repeat (destruct H as [-> | H]; [repeat split; discriminate|]). subst c; repeat split; discriminate.
Qed.

Lemma split_sign_cases s :
  split_sign s = (false, s) \/
  exists sg r, s = sg :: r /\ (sg = 43 \/ sg = 45)%N /\ snd (split_sign s) = r.
Proof.
  unfold split_sign. destruct s as [|c r]; [now left|].
  destruct (N.eqb c 43) eqn:E1.
  { right. exists c, r. apply N.eqb_eq in E1. auto. }
  destruct (N.eqb c 45) eqn:E2.
  { right. exists c, r. apply N.eqb_eq in E2. auto. }
  now left.
Qed.

Lemma marker_in_rest tok :
  float_marker tok = true ->
  exists c, In c (snd (split_sign tok)) /\ (is_mark c || is_sign c) = true.
Proof.
  unfold float_marker. intros H. apply orb_true_iff in H.
  destruct (split_sign_cases tok) as [E | [sg [r [-> [Hsg E]]]]].
  - rewrite E. cbn [snd]. destruct H as [H | H]; apply existsb_exists in H as [c [Hin Hc]].
    + exists c. split; [exact Hin | now rewrite Hc].
    + exists c. split; [destruct tok; [contradiction | now right] | now rewrite Hc, orb_true_r].
  - rewrite E. cbn [tl] in H. destruct H as [H | H]; apply existsb_exists in H as [c [Hin Hc]].
    + destruct Hin as [<- | Hin].
      * exfalso. destruct Hsg as [-> | ->]; discriminate Hc.
      * exists c. split; [exact Hin | now rewrite Hc].
    + exists c. split; [exact Hin | now rewrite Hc, orb_true_r].
Qed.

Theorem marker_py_int tok :
  no_space tok = true -> float_marker tok = true -> py_int tok = Err EValue.
Proof.
  intros Hs Hm. unfold py_int. rewrite (py_strip_no_space tok Hs).
  destruct (marker_in_rest tok Hm) as [c [Hin Hc]].
  destruct (split_sign tok) as [neg r]. cbn [snd] in Hin.
  destruct (digit_part dec_val 10 r) as [[[v k] rest]|] eqn:E; [|reflexivity].
  destruct rest; [|reflexivity]. exfalso.
  apply digit_part_all in E. rewrite forallb_forall in E. specialize (E c Hin).
  rewrite (bad_char_dec c Hc) in E. discriminate.
Qed.

(** the prefix handling of int(s, 16): an optional 0x / 0X and one optional '_' after it *)
Definition strip_0x (r : str) : str :=
  match r with
  | z :: x :: t => if N.eqb z 48 && (N.eqb x 120 || N.eqb x 88)
                   then match t with
                        | [] => t
                        | u :: t' => if N.eqb u 95 then t' else t
                        end
                   else r
  | _ => r
  end.

Lemma py_int16_unfold s :
  py_int16 s = let '(neg, r) := split_sign (py_strip s) in
               match digit_part hex_val 16 (strip_0x r) with
               | Some (v, _, []) => Ok (apply_sign neg v)
               | _ => Err EValue
               end.
Proof. reflexivity. Qed.

Lemma strip_0x_keeps r c :
  In c r -> c <> 48%N -> c <> 120%N -> c <> 88%N -> c <> 95%N -> In c (strip_0x r).
Proof.
  intros Hin H48 H120 H88 H95. unfold strip_0x.
  destruct r as [|z [|x t]]; try exact Hin.
  destruct (N.eqb z 48 && (N.eqb x 120 || N.eqb x 88)) eqn:E; [|exact Hin].
  apply andb_true_iff in E as [Ez Ex]. apply N.eqb_eq in Ez.
  apply orb_true_iff in Ex. rewrite !N.eqb_eq in Ex.
  destruct Hin as [<- | [<- | Hin]]; [congruence | destruct Ex; congruence |].
  destruct t as [|u t']; [exact Hin|].
  destruct (N.eqb u 95) eqn:Eu; [|exact Hin].
  apply N.eqb_eq in Eu. destruct Hin as [<- | Hin]; [congruence | exact Hin].
Qed.

Theorem marker_py_int16 tok :
  no_space tok = true -> float_marker tok = true -> py_int16 tok = Err EValue.
Proof.
  intros Hs Hm. rewrite py_int16_unfold. rewrite (py_strip_no_space tok Hs).
  destruct (marker_in_rest tok Hm) as [c [Hin Hc]].
  destruct (split_sign tok) as [neg r]. cbn [snd] in Hin.
  destruct (digit_part hex_val 16 (strip_0x r)) as [[[v k] rest]|] eqn:E; [|reflexivity].
  destruct rest; [|reflexivity]. exfalso.
  destruct (bad_char_hex c Hc) as [Hrun [H48 [H120 [H88 H95]]]].
  apply digit_part_all in E. rewrite forallb_forall in E.
  specialize (E c (strip_0x_keeps r c Hin H48 H120 H88 H95)).
  rewrite Hrun in E. discriminate.
Qed.

(** ------------------------------------------------------------------ float literals in repr format
    [sign] digits [ '.' digits ] [ 'e' ('+'|'-') digits ]   --   float() returns the correctly rounded
    double ([dec_to_f64]) of the decimal number the literal denotes. *)

Definition frac_str (fp : option str) : str :=
  match fp with Some f => 46%N :: f | None => [] end.
Definition exp_str (ex : option (bool * str)) : str :=
  match ex with
  | Some (eneg, ed) => 101%N :: (if eneg then 45%N else 43%N) :: ed
  | None => []
  end.
Definition float_lit (neg : bool) (ip : str) (fp : option str) (ex : option (bool * str)) : str :=
  (if neg then [45%N] else []) ++ ip ++ frac_str fp ++ exp_str ex.

Definition digits_ok (ds : str) : bool :=
  match ds with [] => false | _ :: _ => all_dig dec_val ds end.
Definition float_lit_ok (ip : str) (fp : option str) (ex : option (bool * str)) : bool :=
  digits_ok ip && match fp with Some f => digits_ok f | None => true end
               && match ex with Some (_, ed) => digits_ok ed | None => true end.

(** the number denoted:  (ip.fp) * 10^(+-ed)  =  mant * 10^(e - #fp), rounded to binary64 *)
Definition float_lit_val (neg : bool) (ip : str) (fp : option str) (ex : option (bool * str)) : fval :=
  let f := match fp with Some f => f | None => [] end in
  let mant := (dvalue dec_val 10 ip 0 * pow10 (Z.of_nat (length f)) + dvalue dec_val 10 f 0)%Z in
  let e := match ex with
           | Some (eneg, ed) =>
               let ev := dvalue dec_val 10 ed 0 in
               apply_sign eneg (if (100000 <? ev)%Z then 100000%Z else ev)
           | None => 0%Z
           end in
  dec_to_f64 neg mant (length ip + length f) (e - Z.of_nat (length f)).

(** the numeric part of float(): everything after the sign and the inf/nan tests *)
Definition py_float_num (neg : bool) (r : str) : res fval :=
  let '(ip, ipn, r1) := match digit_part dec_val 10 r with
                        | Some x => x
                        | None => (0%Z, 0%nat, r)
                        end in
  let '(fp, fpn, r2) := match r1 with
                        | [] => (0%Z, 0%nat, r1)
                        | c :: t => if N.eqb c 46
                                    then match digit_part dec_val 10 t with
                                         | Some x => x
                                         | None => (0%Z, 0%nat, t)
                                         end
                                    else (0%Z, 0%nat, r1)
                        end in
  if Nat.eqb (ipn + fpn) 0 then Err EValue
  else
    let mant := (ip * pow10 (Z.of_nat fpn) + fp)%Z in
    let finish (e : Z) := Ok (dec_to_f64 neg mant (ipn + fpn) (e - Z.of_nat fpn)) in
    match r2 with
    | [] => finish 0%Z
    | c :: t =>
        if N.eqb c 101 || N.eqb c 69 then
          let '(eneg, t') := split_sign t in
          match digit_part dec_val 10 t' with
          | Some (ev, _, []) =>
              let ev' := if (100000 <? ev)%Z then 100000%Z else ev in
              finish (apply_sign eneg ev')
          | _ => Err EValue
          end
        else Err EValue
    end.

Lemma py_float_unfold s :
  py_float s =
  let '(neg, r) := split_sign (py_strip s) in
  let lr := lower_str r in
  if str_eqb lr [105; 110; 102]%N || str_eqb lr [105; 110; 102; 105; 110; 105; 116; 121]%N then Ok (FInf neg)
  else if str_eqb lr [110; 97; 110]%N then Ok FNan
  else py_float_num neg r.
Proof. reflexivity. Qed.

Lemma digits_ok_facts ds : digits_ok ds = true -> ds <> [] /\ all_dig dec_val ds = true.
Proof. destruct ds; [discriminate|]. intros H. split; [discriminate | exact H]. Qed.

Lemma digit_to_lower c : is_digit c = true -> to_lower c = c.
Proof.
  intros H. apply is_digit_cases in H.
  repeat (destruct H as [-> | H]; [reflexivity|]). subst c; reflexivity.
Qed.

Lemma digit_head_not_word c r w0 w :
  is_digit c = true -> is_digit w0 = false -> str_eqb (lower_str (c :: r)) (w0 :: w) = false.
Proof.
  intros Hc Hw. unfold lower_str. cbn [map str_eqb]. rewrite (digit_to_lower c Hc).
  destruct (N.eqb_spec c w0) as [->|_]; [congruence | reflexivity].
Qed.

Lemma stops_frac_exp fp ex : stops dec_val (frac_str fp ++ exp_str ex).
Proof.
  destruct fp as [f|]; [cbn; split; [reflexivity | discriminate]|].
  destruct ex as [[eneg ed]|]; [cbn; split; [reflexivity | discriminate] | exact I].
Qed.

Lemma stops_exp ex : stops dec_val (exp_str ex).
Proof. destruct ex as [[eneg ed]|]; [cbn; split; [reflexivity | discriminate] | exact I]. Qed.

Lemma py_float_num_lit neg ip fp ex :
  float_lit_ok ip fp ex = true ->
  py_float_num neg (ip ++ frac_str fp ++ exp_str ex) = Ok (float_lit_val neg ip fp ex).
Proof.
  unfold float_lit_ok. intros H. apply andb_true_iff in H as [H Hex]. apply andb_true_iff in H as [Hip Hfp].
  destruct (digits_ok_facts ip Hip) as [Hne Hd].
  unfold py_float_num.
  rewrite (digit_part_digits dec_val 10 ip _ Hne Hd (stops_frac_exp fp ex)). cbv beta iota.
  assert (Hlen : Nat.eqb (length ip + length (match fp with Some f => f | None => [] end)) 0 = false).
  { apply Nat.eqb_neq. destruct ip; [congruence | cbn [length]; lia]. }
  assert (Htail : forall (ipv : Z) (fpv : Z) (fpn : nat),
    fpn = length (match fp with Some f => f | None => [] end) ->
    fpv = dvalue dec_val 10 (match fp with Some f => f | None => [] end) 0 ->
    (let mant := (dvalue dec_val 10 ip 0 * pow10 (Z.of_nat fpn) + fpv)%Z in
     let finish (e : Z) := Ok (dec_to_f64 neg mant (length ip + fpn) (e - Z.of_nat fpn)) in
     match exp_str ex with
     | [] => finish 0%Z
     | c :: t =>
         if N.eqb c 101 || N.eqb c 69 then
           let '(eneg, t') := split_sign t in
           match digit_part dec_val 10 t' with
           | Some (ev, _, []) =>
               let ev' := if (100000 <? ev)%Z then 100000%Z else ev in
               finish (apply_sign eneg ev')
           | _ => Err EValue
           end
         else Err EValue
     end) = Ok (float_lit_val neg ip fp ex)).
  { intros ipv fpv fpn -> ->. unfold float_lit_val. cbv zeta.
    destruct ex as [[eneg ed]|]; [|reflexivity].
    destruct (digits_ok_facts ed Hex) as [Hne' Hd'].
    cbn [exp_str]. change (N.eqb 101 101 || N.eqb 101 69) with true. cbv beta iota.
    assert (Hsp : split_sign ((if eneg then 45%N else 43%N) :: ed) = (eneg, ed)) by (destruct eneg; reflexivity).
    rewrite Hsp, (digit_part_digits_nil dec_val 10 ed Hne' Hd'). reflexivity. }
  destruct fp as [f|].
  - destruct (digits_ok_facts f Hfp) as [Hnef Hdf].
    cbn [frac_str app]. change (N.eqb 46 46) with true. cbv beta iota.
    rewrite (digit_part_digits dec_val 10 f _ Hnef Hdf (stops_exp ex)). cbv beta iota.
    rewrite Hlen. apply (Htail 0%Z); reflexivity.
  - cbn [frac_str app]. destruct ex as [[eneg ed]|].
    + cbn [exp_str]. change (N.eqb 101 46) with false. cbv beta iota.
      cbn [length] in Hlen. rewrite Hlen. apply (Htail 0%Z 0%Z 0 eq_refl eq_refl).
    + cbn [exp_str]. cbn [length] in Hlen. rewrite Hlen. apply (Htail 0%Z 0%Z 0 eq_refl eq_refl).
Qed.

Definition lit_char (c : N) : bool :=
  is_digit c || N.eqb c 45 || N.eqb c 46 || N.eqb c 101 || N.eqb c 43.

Lemma lit_char_no_space c : lit_char c = true -> py_isspace c = false.
Proof.
  unfold lit_char. rewrite !orb_true_iff, !N.eqb_eq. intros [[[[H | ->] | ->] | ->] | ->]; try reflexivity.
  now apply digit_not_space.
Qed.

Lemma all_dig_lit ds : all_dig dec_val ds = true -> forallb lit_char ds = true.
Proof.
  unfold all_dig. rewrite !forallb_forall. intros H x Hx. specialize (H x Hx).
  destruct (dec_val x) eqn:E; [|discriminate]. unfold lit_char. now rewrite (dec_val_digit _ _ E).
Qed.

Lemma float_lit_chars neg ip fp ex :
  float_lit_ok ip fp ex = true -> forallb lit_char (float_lit neg ip fp ex) = true.
Proof.
  unfold float_lit_ok. intros H. apply andb_true_iff in H as [H Hex]. apply andb_true_iff in H as [Hip Hfp].
  unfold float_lit. rewrite !forallb_app.
  rewrite (all_dig_lit ip (proj2 (digits_ok_facts ip Hip))).
  assert (H1 : forallb lit_char (if neg then [45%N] else []) = true) by (destruct neg; reflexivity).
  assert (H2 : forallb lit_char (frac_str fp) = true).
  { destruct fp as [f|]; [|reflexivity]. cbn [frac_str forallb].
    now rewrite (all_dig_lit f (proj2 (digits_ok_facts f Hfp))). }
  assert (H3 : forallb lit_char (exp_str ex) = true).
  { destruct ex as [[eneg ed]|]; [|reflexivity]. cbn [exp_str forallb].
    rewrite (all_dig_lit ed (proj2 (digits_ok_facts ed Hex))). destruct eneg; reflexivity. }
  now rewrite H1, H2, H3.
Qed.

(** float(literal) = the correctly rounded double of the number the literal denotes *)
Theorem py_float_lit neg ip fp ex :
  float_lit_ok ip fp ex = true ->
  py_float (float_lit neg ip fp ex) = Ok (float_lit_val neg ip fp ex).
Proof.
  intros H. rewrite py_float_unfold.
  assert (Hs : no_space (float_lit neg ip fp ex) = true).
  { apply (forallb_forall _ _). intros x Hx.
    pose proof (float_lit_chars neg ip fp ex H) as Hc. rewrite forallb_forall in Hc.
    now rewrite (lit_char_no_space x (Hc x Hx)). }
  rewrite (py_strip_no_space _ Hs).
  pose proof H as H0. unfold float_lit_ok in H0. apply andb_true_iff in H0 as [H0 _].
  apply andb_true_iff in H0 as [Hip _].
  destruct ip as [|c ip']; [discriminate|].
  assert (Hc : is_digit c = true).
  { cbn [digits_ok all_dig forallb] in Hip. apply andb_true_iff in Hip as [Hc _].
    destruct (dec_val c) eqn:E; [|discriminate]. now apply dec_val_digit in E. }
  assert (Hsp : split_sign (float_lit neg (c :: ip') fp ex) = (neg, (c :: ip') ++ frac_str fp ++ exp_str ex)).
  { unfold float_lit. destruct neg; [reflexivity|]. cbn [app]. now apply split_sign_digit. }
  rewrite Hsp. cbv beta iota zeta. cbn [app].
  rewrite !(digit_head_not_word c _ _ _ Hc) by reflexivity. cbn [orb].
  exact (py_float_num_lit neg (c :: ip') fp ex H).
Qed.

(** with a fraction or an exponent the literal carries a float marker *)
Definition has_frac_or_exp (fp : option str) (ex : option (bool * str)) : bool :=
  match fp with
  | Some _ => true
  | None => match ex with Some _ => true | None => false end
  end.

Lemma float_lit_marker neg ip fp ex :
  has_frac_or_exp fp ex = true ->
  float_marker (float_lit neg ip fp ex) = true.
Proof.
  intros H. unfold float_marker, float_lit. apply orb_true_iff.
  destruct fp as [f|].
  - left. apply existsb_exists. exists 46%N. split; [|reflexivity].
    apply in_or_app; right. apply in_or_app; right. now left.
  - destruct ex as [[eneg ed]|]; [|discriminate]. right.
    apply existsb_exists. exists (if eneg then 45%N else 43%N). split; [|destruct eneg; reflexivity].
    cbn [frac_str exp_str app].
    destruct neg; cbn [app tl].
    + apply in_or_app; right. cbn [In]. right. now left.
    + destruct ip as [|c ip']; cbn [app tl]; [cbn [In]; now left|].
      apply in_or_app; right. cbn [In]. right. now left.
Qed.
