(** Result monad used by every model: Python exceptions become [Err e]. *)
From Coq Require Import List Bool.
Import ListNotations.

Inductive err :=
| EValue | EIndex | EKey | EType | EAttr
| EInvalidExt | EMissingExt | EInvalidStack | EIncongruent | ECollision | ENonImage
| EPhoenix | EHeaderData | ECrash.

Definition err_eqb (a b : err) : bool :=
  match a, b with
  | EValue, EValue | EIndex, EIndex | EKey, EKey | EType, EType | EAttr, EAttr
  | EInvalidExt, EInvalidExt | EMissingExt, EMissingExt | EInvalidStack, EInvalidStack
  | EIncongruent, EIncongruent | ECollision, ECollision | ENonImage, ENonImage
  | EPhoenix, EPhoenix | EHeaderData, EHeaderData | ECrash, ECrash => true
  | _, _ => false
  end.

Lemma err_eqb_spec a b : reflect (a = b) (err_eqb a b).
Proof. destruct a, b; simpl; constructor; congruence. Qed.

Inductive res (A : Type) := Ok (a : A) | Err (e : err).
Arguments Ok {A} a.
Arguments Err {A} e.

Definition bind {A B} (r : res A) (f : A -> res B) : res B :=
  match r with Ok a => f a | Err e => Err e end.
Definition rmap {A B} (f : A -> B) (r : res A) : res B :=
  match r with Ok a => Ok (f a) | Err e => Err e end.
Definition is_ok {A} (r : res A) : bool := match r with Ok _ => true | Err _ => false end.
Definition res_eqb {A} (eqb : A -> A -> bool) (x y : res A) : bool :=
  match x, y with
  | Ok a, Ok b => eqb a b
  | Err e, Err f => err_eqb e f
  | _, _ => false
  end.

Declare Scope res_scope.
Delimit Scope res_scope with res.
Notation "'do' x <- r ; k" := (bind r (fun x => k))
  (at level 200, x pattern, r at level 100, k at level 200, right associativity) : res_scope.

(** Monadic map over a list, left to right, stopping at the first error. *)
Fixpoint mapM {A B} (f : A -> res B) (l : list A) : res (list B) :=
  match l with
  | [] => Ok []
  | x :: xs => match f x with
               | Err e => Err e
               | Ok y => match mapM f xs with Err e => Err e | Ok ys => Ok (y :: ys) end
               end
  end.

Lemma bind_ok {A B} (r : res A) (f : A -> res B) b :
  bind r f = Ok b -> exists a, r = Ok a /\ f a = Ok b.
Proof. destruct r; simpl; intros H; [eauto | discriminate]. Qed.
