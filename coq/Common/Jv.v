(** JSON-like values: the executable instance of "a metadata value".
    Number tokens that are not integers are opaque lexemes ([JNum tok]). *)
From Coq Require Import List Bool ZArith NArith Lia.
From DV Require Import Common.Str.
Import ListNotations.

Inductive jv :=
| JNull
| JBool (b : bool)
| JInt (z : Z)
| JNum (tok : str)
| JStr (s : str)
| JArr (l : list jv)
| JObj (l : list (str * jv)).

Section JvInd.
  Variable P : jv -> Prop.
  Hypothesis Hnull : P JNull.
  Hypothesis Hbool : forall b, P (JBool b).
  Hypothesis Hint : forall z, P (JInt z).
  Hypothesis Hnum : forall t, P (JNum t).
  Hypothesis Hstr : forall s, P (JStr s).
  Hypothesis Harr : forall l, Forall P l -> P (JArr l).
  Hypothesis Hobj : forall l, Forall (fun kv => P (snd kv)) l -> P (JObj l).

  Fixpoint jv_ind' (j : jv) : P j :=
    match j with
    | JNull => Hnull
    | JBool b => Hbool b
    | JInt z => Hint z
    | JNum t => Hnum t
    | JStr s => Hstr s
    | JArr l => Harr l ((fix go (l : list jv) : Forall P l :=
                           match l with
                           | [] => Forall_nil _
                           | x :: xs => Forall_cons _ (jv_ind' x) (go xs)
                           end) l)
    | JObj l => Hobj l ((fix go (l : list (str * jv)) : Forall (fun kv => P (snd kv)) l :=
                           match l with
                           | [] => Forall_nil _
                           | x :: xs => Forall_cons _ (jv_ind' (snd x)) (go xs)
                           end) l)
    end.
End JvInd.

Fixpoint jv_eqb (a b : jv) {struct a} : bool :=
  match a, b with
  | JNull, JNull => true
  | JBool x, JBool y => Bool.eqb x y
  | JInt x, JInt y => Z.eqb x y
  | JNum x, JNum y => str_eqb x y
  | JStr x, JStr y => str_eqb x y
  | JArr xs, JArr ys =>
      (fix go (xs ys : list jv) {struct xs} : bool :=
         match xs, ys with
         | [], [] => true
         | x :: xs', y :: ys' => jv_eqb x y && go xs' ys'
         | _, _ => false
         end) xs ys
  | JObj xs, JObj ys =>
      (fix go (xs ys : list (str * jv)) {struct xs} : bool :=
         match xs, ys with
         | [], [] => true
         | (k, x) :: xs', (k', y) :: ys' => str_eqb k k' && jv_eqb x y && go xs' ys'
         | _, _ => false
         end) xs ys
  | _, _ => false
  end.

Lemma jv_eqb_eq : forall a b, jv_eqb a b = true <-> a = b.
Proof.
  induction a as [| x | x | x | x | xs IH | xs IH] using jv_ind'; intros b; destruct b; simpl;
    try (split; [discriminate | congruence]); try (split; [reflexivity | reflexivity]).
  - rewrite Bool.eqb_true_iff. split; congruence.
  - rewrite Z.eqb_eq. split; congruence.
  - rewrite str_eqb_eq. split; congruence.
  - rewrite str_eqb_eq. split; congruence.
  - revert l. induction IH as [|x xs Hx Hxs IHxs]; intros [|y ys];
      try (split; [discriminate | congruence]); [split; reflexivity|].
    rewrite Bool.andb_true_iff, Hx, IHxs. split.
    + intros [-> H]. congruence.
    + intros H. injection H as -> ->. split; reflexivity.
  - revert l. induction IH as [|[k x] xs Hx Hxs IHxs]; intros [|[k' y] ys];
      try (split; [discriminate | congruence]); [split; reflexivity|].
    simpl in Hx. rewrite !Bool.andb_true_iff, str_eqb_eq, Hx, IHxs. split.
    + intros [[-> ->] H]. congruence.
    + intros H. injection H as -> -> ->. repeat split; reflexivity.
Qed.

Lemma jv_eqb_spec a b : reflect (a = b) (jv_eqb a b).
Proof.
  destruct (jv_eqb a b) eqn:E; constructor.
  - apply jv_eqb_eq; exact E.
  - intros H. apply jv_eqb_eq in H. congruence.
Qed.

Lemma jv_eqb_refl a : jv_eqb a a = true.
Proof. apply jv_eqb_eq; reflexivity. Qed.

(** Association-list lookup by string key (first match wins, as for a Python dict built by
    insertion with later assignments overwriting in place). *)
Fixpoint jassoc (k : str) (l : list (str * jv)) : option jv :=
  match l with
  | [] => None
  | (k', v) :: r => if str_eqb k k' then Some v else jassoc k r
  end.
