(** Python string helpers and numeric acceptors on [str = list N]:
    [py_strip], [py_int] (= int(s)), [py_int16] (= int(s, 16)), [py_float] (= float(s)).
    Domain: strings without non-ASCII *decimal digit* characters (Python would accept e.g.
    Arabic-Indic digits; the model rejects them).  Signed zero is not distinguished. *)
From Coq Require Import List Bool ZArith NArith QArith Lia.
From DV Require Import Common.Res Common.Str Common.F64.
Import ListNotations.
Local Open Scope N_scope.

(** Py_UNICODE_ISSPACE *)
Definition py_isspace (c : N) : bool :=
  ((9 <=? c) && (c <=? 13)) || ((28 <=? c) && (c <=? 32)) || (c =? 133) || (c =? 160)
  || (c =? 5760) || ((8192 <=? c) && (c <=? 8202)) || (c =? 8232) || (c =? 8233)
  || (c =? 8239) || (c =? 8287) || (c =? 12288).

Fixpoint py_lstrip (s : str) : str :=
  match s with
  | c :: r => if py_isspace c then py_lstrip r else s
  | [] => []
  end.
Definition py_rstrip (s : str) : str := rev (py_lstrip (rev s)).
Definition py_strip (s : str) : str := py_rstrip (py_lstrip s).

Definition is_digit (c : N) : bool := (48 <=? c) && (c <=? 57).
Definition dec_val (c : N) : option Z := if is_digit c then Some (Z.of_N c - 48)%Z else None.
Definition hex_val (c : N) : option Z :=
  if is_digit c then Some (Z.of_N c - 48)%Z
  else if (97 <=? c) && (c <=? 102) then Some (Z.of_N c - 87)%Z
  else if (65 <=? c) && (c <=? 70) then Some (Z.of_N c - 55)%Z
  else None.
Definition to_lower (c : N) : N := if (65 <=? c) && (c <=? 90) then c + 32 else c.
Definition to_upper (c : N) : N := if (97 <=? c) && (c <=? 122) then c - 32 else c.

(** Maximal run  digit (['_'] digit)*  continuing after a first digit: (value, #digits, rest). *)
Fixpoint digit_run (dv : N -> option Z) (base acc : Z) (cnt : nat) (s : str) : Z * nat * str :=
  match s with
  | c :: r =>
      match dv c with
      | Some d => digit_run dv base (acc * base + d)%Z (S cnt) r
      | None =>
          if c =? 95 then
            match r with
            | c2 :: r2 =>
                match dv c2 with
                | Some d => digit_run dv base (acc * base + d)%Z (S cnt) r2
                | None => (acc, cnt, s)
                end
            | [] => (acc, cnt, s)
            end
          else (acc, cnt, s)
      end
  | [] => (acc, cnt, s)
  end.

(** digitpart: must start with a digit *)
Definition digit_part (dv : N -> option Z) (base : Z) (s : str) : option (Z * nat * str) :=
  match s with
  | c :: r => match dv c with
              | Some d => Some (digit_run dv base d 1 r)
              | None => None
              end
  | [] => None
  end.

Definition split_sign (s : str) : bool * str :=   (* (negative?, rest) *)
  match s with
  | c :: r => if c =? 43 then (false, r) else if c =? 45 then (true, r) else (false, s)
  | [] => (false, s)
  end.

Definition apply_sign (neg : bool) (z : Z) : Z := if neg then (- z)%Z else z.

(** int(s) *)
Definition py_int (s : str) : res Z :=
  let '(neg, r) := split_sign (py_strip s) in
  match digit_part dec_val 10 r with
  | Some (v, _, []) => Ok (apply_sign neg v)
  | _ => Err EValue
  end.

(** int(s, 16) *)
Definition py_int16 (s : str) : res Z :=
  let '(neg, r) := split_sign (py_strip s) in
  let r' := match r with
            | z :: x :: t => if (z =? 48) && ((x =? 120) || (x =? 88))
                             then match t with
                                  | u :: t' => if u =? 95 then t' else t
                                  | [] => t
                                  end
                             else r
            | _ => r
            end in
  match digit_part hex_val 16 r' with
  | Some (v, _, []) => Ok (apply_sign neg v)
  | _ => Err EValue
  end.

Inductive fval := FFin (q : Q) | FInf (neg : bool) | FNan.

Definition fval_eqb (a b : fval) : bool :=
  match a, b with
  | FFin x, FFin y => Qeq_bool x y
  | FInf x, FInf y => Bool.eqb x y
  | FNan, FNan => true
  | _, _ => false
  end.

Definition pow10 (e : Z) : Z := (10 ^ e)%Z.

(** value of  mant * 10^e10  rounded to binary64, with overflow to infinity *)
Definition dec_to_f64 (neg : bool) (mant : Z) (ndig : nat) (e10 : Z) : fval :=
  if (mant =? 0)%Z then FFin 0%Q
  else if (400 <? e10)%Z then FInf neg
  else if (e10 + Z.of_nat ndig <? -400)%Z then FFin 0%Q
  else
    let q := if (0 <=? e10)%Z then Qmake (mant * pow10 e10) 1
             else Qmake mant (Z.to_pos (pow10 (- e10))) in
    let r := fl q in
    if Qle_bool (Qmake (2 ^ 1024) 1) r then FInf neg
    else FFin (if neg then Qopp r else r).

Definition lower_str (s : str) : str := map to_lower s.

(** float(s) *)
Definition py_float (s : str) : res fval :=
  let '(neg, r) := split_sign (py_strip s) in
  let lr := lower_str r in
  if str_eqb lr [105; 110; 102] || str_eqb lr [105; 110; 102; 105; 110; 105; 116; 121] then Ok (FInf neg)
  else if str_eqb lr [110; 97; 110] then Ok FNan
  else
    (* integer part (optional), '.', fraction (optional) -- at least one digit overall *)
    let '(ip, ipn, r1) := match digit_part dec_val 10 r with
                          | Some x => x
                          | None => (0%Z, 0%nat, r)
                          end in
    let '(fp, fpn, r2) := match r1 with
                          | c :: t => if c =? 46
                                      then match digit_part dec_val 10 t with
                                           | Some x => x
                                           | None => (0%Z, 0%nat, t)
                                           end
                                      else (0%Z, 0%nat, r1)
                          | [] => (0%Z, 0%nat, r1)
                          end in
    if Nat.eqb (ipn + fpn) 0 then Err EValue
    else
      let mant := (ip * pow10 (Z.of_nat fpn) + fp)%Z in
      let finish (e : Z) := Ok (dec_to_f64 neg mant (ipn + fpn) (e - Z.of_nat fpn)) in
      match r2 with
      | [] => finish 0%Z
      | c :: t =>
          if (c =? 101) || (c =? 69) then
            let '(eneg, t') := split_sign t in
            match digit_part dec_val 10 t' with
            | Some (ev, _, []) =>
                (* clamp absurd exponents before exponentiating *)
                let ev' := if (100000 <? ev)%Z then 100000%Z else ev in
                finish (apply_sign eneg ev')
            | _ => Err EValue
            end
          else Err EValue
      end.

(** decimal rendering of integers (Python str(int) / "%d") *)
Fixpoint dec_digits_fuel (fuel : nat) (n : N) (acc : str) : str :=
  match fuel with
  | O => acc
  | S f => if n <? 10 then (48 + n) :: acc
           else dec_digits_fuel f (n / 10) ((48 + n mod 10) :: acc)
  end.
Definition dec_of_N (n : N) : str := dec_digits_fuel (S (N.to_nat (N.log2 n))) n [].
Definition dec_of_Z (z : Z) : str :=
  match z with
  | Z0 => [48]
  | Zpos p => dec_of_N (Npos p)
  | Zneg p => 45 :: dec_of_N (Npos p)
  end.
