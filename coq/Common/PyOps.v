(** Small dynamic-typing layer used by GENERATED translations of straight-line Python functions
    (tools/tables/t_time.py): Python numbers that may be int or float, slices with constant
    non-negative bounds, str.replace. *)
From Coq Require Import List Bool ZArith NArith QArith.
From DV Require Import Common.Res Common.Str Common.F64 Common.PyNum.
Import ListNotations.

Inductive pynum := PI (z : Z) | PF (f : fval).

Definition fval_of_Z (z : Z) : fval := FFin (f_of_Z z).      (* float(int), |z| < 2^1024 *)
Definition py_to_float (n : pynum) : fval := match n with PI z => fval_of_Z z | PF f => f end.

Definition fval_add (a b : fval) : fval :=
  match a, b with
  | FNan, _ | _, FNan => FNan
  | FInf x, FInf y => if Bool.eqb x y then FInf x else FNan
  | FInf x, _ => FInf x
  | _, FInf y => FInf y
  | FFin x, FFin y => FFin (fadd x y)
  end.
Definition fval_mul (a b : fval) : fval :=
  match a, b with
  | FFin x, FFin y => FFin (fmul x y)
  | _, _ => FNan          (* not needed by the translated functions; kept total *)
  end.

Definition py_add (a b : pynum) : pynum :=
  match a, b with
  | PI x, PI y => PI (x + y)
  | _, _ => PF (fval_add (py_to_float a) (py_to_float b))
  end.
Definition py_mul (a b : pynum) : pynum :=
  match a, b with
  | PI x, PI y => PI (x * y)
  | _, _ => PF (fval_mul (py_to_float a) (py_to_float b))
  end.

(** s[a:b] with constant bounds; None = omitted *)
Definition py_slice {A} (a b : option nat) (l : list A) : list A :=
  let l1 := match b with Some hi => firstn hi l | None => l end in
  match a with Some lo => skipn lo l1 | None => l1 end.

(** s.replace(old, new), old non-empty: non-overlapping, left to right *)
Fixpoint str_replace_fuel (fuel : nat) (s old new : str) : str :=
  match fuel with
  | O => s
  | S f =>
      match s with
      | [] => []
      | c :: r => if prefixb old s then new ++ str_replace_fuel f (skipn (length old) s) old new
                  else c :: str_replace_fuel f r old new
      end
  end.
Definition str_replace (s old new : str) : str :=
  match old with [] => s | _ => str_replace_fuel (S (length s)) s old new end.
