(** Meaning of the primitives emitted by the statement translator tools/tables/py2coq.py
    (GENERATED files coq/Generated/T_src_*.v).  Typed, not dynamic: Python ints that are sizes, periods
    or indices are [nat] (domain: non-negative), sequences are lists, Python exceptions are [Err]:
    IndexError -> EIndex, ValueError -> EValue, ZeroDivisionError / AssertionError / a difference
    that would be negative -> ECrash.

    Part 1: definitions (this is trusted: it says what the Python constructs mean).
    Part 2: generic lemmas used by the source-equality proofs (Ext/SrcEq.v, Filter/SrcEq.v). *)
From Coq Require Import List Bool Arith ZArith Lia.
From DV Require Import Common.Res.
Import ListNotations.
Local Open Scope nat_scope.
Local Open Scope res_scope.

(** * Part 1: primitives *)

(** outcome of a loop body / of a loop: [Ret r] = a [return r] was executed, [Next s] = fell through
    with the loop-carried variables [s] *)
Inductive ctl (R S : Type) := Ret (r : R) | Next (s : S).
Arguments Ret {R S} r.
Arguments Next {R S} s.

(** a slice bound or index: [BPos n] = the integer n >= 0, [BNeg k] = the integer -k (k >= 1, literal only) *)
Inductive bnd := BPos (n : nat) | BNeg (k : nat).

(** Python's clamping of a slice bound to [0, len] *)
Definition norm_bound (len : nat) (b : bnd) : nat :=
  match b with BPos n => Nat.min n len | BNeg k => len - k end.

(** [l[lo:hi]], step 1; [None] = omitted bound *)
Definition pslice {A} (lo hi : option bnd) (l : list A) : list A :=
  let n := length l in
  let a := match lo with None => 0 | Some b => norm_bound n b end in
  let b := match hi with None => n | Some b => norm_bound n b end in
  firstn (b - a) (skipn a l).

(** [l[i]] *)
Definition py_index {A} (l : list A) (i : bnd) : res A :=
  match i with
  | BPos n => match nth_error l n with Some x => Ok x | None => Err EIndex end
  | BNeg k => if (1 <=? k) && (k <=? length l)
              then match nth_error l (length l - k) with Some x => Ok x | None => Err EIndex end
              else Err EIndex
  end.

(** [a // b], [a % b], [a - b] on non-negative ints *)
Definition py_floordiv (a b : nat) : res nat := if b =? 0 then Err ECrash else Ok (a / b).
Definition py_mod (a b : nat) : res nat := if b =? 0 then Err ECrash else Ok (a mod b).
Definition py_sub (a b : nat) : res nat := if b <=? a then Ok (a - b) else Err ECrash.

(** [range(a, b)] ([range(b)] = [py_range 0 b]) *)
Definition py_range (a b : nat) : list nat := seq a (b - a).

(** [all(f(v) for v in l)]: left to right, stops at the first false / the first exception *)
Fixpoint py_all {A} (f : A -> res bool) (l : list A) : res bool :=
  match l with
  | [] => Ok true
  | x :: r => do b <- f x; if b then py_all f r else Ok false
  end.

(** [for x in l: body], [s] = the loop-carried variables *)
Fixpoint py_for {A R S} (l : list A) (s : S) (body : A -> S -> res (ctl R S)) : res (ctl R S) :=
  match l with
  | [] => Ok (Next s)
  | x :: r => do c <- body x s;
              match c with Ret v => Ok (Ret v) | Next s' => py_for r s' body end
  end.

(** [==] on lists / tuples of equal element type, on pairs, on optional values; [x in l] *)
Definition py_list_eqb {A} (eqb : A -> A -> bool) (a b : list A) : bool :=
  (length a =? length b) && forallb (fun p => eqb (fst p) (snd p)) (combine a b).
Definition py_pair_eqb {A B} (ea : A -> A -> bool) (eb : B -> B -> bool) (x y : A * B) : bool :=
  ea (fst x) (fst y) && eb (snd x) (snd y).
Definition py_option_eqb {A} (eqb : A -> A -> bool) (x y : option A) : bool :=
  match x, y with Some a, Some b => eqb a b | None, None => true | _, _ => false end.
Definition py_in {A} (eqb : A -> A -> bool) (x : A) (l : list A) : bool := existsb (eqb x) l.

(** [sep.join(l)] on strings (lists of code points) *)
Fixpoint py_join {A} (sep : list A) (l : list (list A)) : list A :=
  match l with
  | [] => []
  | x :: r => match r with [] => x | _ => x ++ sep ++ py_join sep r end
  end.

(** an index given as a Python int of either sign / as a value that may be None (TypeError) *)
Definition bnd_of_Z (z : Z) : bnd := if (0 <=? z)%Z then BPos (Z.to_nat z) else BNeg (Z.to_nat (- z)).
Definition py_bound_o (o : option nat) : res bnd := match o with Some n => Ok (BPos n) | None => Err EType end.

(** [enumerate(l)] *)
Definition py_enumerate {A} (l : list A) : list (nat * A) := combine (seq 0 (length l)) l.

(** [d[k]] on a dict (association list with unique keys): KeyError *)
Fixpoint py_dict_get {K A} (eqb : K -> K -> bool) (d : list (K * A)) (k : K) : res A :=
  match d with
  | [] => Err EKey
  | (k', a) :: r => if eqb k k' then Ok a else py_dict_get eqb r k
  end.

(** [l * n] (whole-list repetition) and an operand of an arithmetic operator that may be None (TypeError) *)
Definition py_repeat {A} (l : list A) (n : nat) : list A := concat (repeat l n).
Definition py_nat_o (o : option nat) : res nat := match o with Some n => Ok n | None => Err EType end.

(** loops with [break] and [for .. else]: [BrkB] = left by break, [NextB] = iteration went on / the sequence was exhausted *)
Inductive ctlb (R S : Type) := RetB (r : R) | NextB (s : S) | BrkB (s : S).
Arguments RetB {R S} r.
Arguments NextB {R S} s.
Arguments BrkB {R S} s.
Fixpoint py_for_b {A R S} (l : list A) (s : S) (body : A -> S -> res (ctlb R S)) : res (ctlb R S) :=
  match l with
  | [] => Ok (NextB s)
  | x :: r => do c <- body x s;
              match c with RetB v => Ok (RetB v) | BrkB s' => Ok (BrkB s') | NextB s' => py_for_b r s' body end
  end.

(** [py_the x]: x is known not to be None (branch of [x == e]); [py_some x]: a value that must be a tuple ([a, b = None] is TypeError) *)
Definition py_the {A} (o : option A) : res A := match o with Some a => Ok a | None => Err ECrash end.
Definition py_some {A} (o : option A) : res A := match o with Some a => Ok a | None => Err EType end.

(** a variable first bound inside a loop, read after it: UnboundLocalError when the loop never bound it *)
Definition py_unbound {A} (o : option A) : res A := match o with Some a => Ok a | None => Err ECrash end.

(** [while cond: body] with an explicit bound on the number of iterations (ECrash when it does not suffice) *)
Fixpoint py_while {R S} (fuel : nat) (s : S) (cond : S -> res bool) (body : S -> res (ctl R S)) : res (ctl R S) :=
  do b <- cond s;
  if b then
    match fuel with
    | 0 => Err ECrash
    | S f => do c <- body s; match c with Ret v => Ok (Ret v) | Next s' => py_while f s' cond body end
    end
  else Ok (Next s).

(** [l[i] = v] on a list *)
Fixpoint list_set_nth {A} (n : nat) (v : A) (l : list A) : option (list A) :=
  match l, n with
  | [], _ => None
  | _ :: r, 0 => Some (v :: r)
  | x :: r, S j => option_map (cons x) (list_set_nth j v r)
  end.
Definition py_list_set {A} (l : list A) (i : bnd) (v : A) : res (list A) :=
  let n := match i with BPos n => Some n | BNeg k => if (1 <=? k) && (k <=? length l) then Some (length l - k) else None end in
  match n with
  | Some j => match list_set_nth j v l with Some l' => Ok l' | None => Err EIndex end
  | None => Err EIndex
  end.

(** [d[k] = v] on a dictionary built by the function: an existing key keeps its place, a new one goes to the end *)
Fixpoint py_dict_set {K A} (eqb : K -> K -> bool) (d : list (K * A)) (k : K) (v : A) : list (K * A) :=
  match d with
  | [] => [(k, v)]
  | (k', v') :: r => if eqb k k' then (k, v) :: r else (k', v') :: py_dict_set eqb r k v
  end.

(** [k in d] on a dict; [l[::step]] (step >= 1) *)
Definition py_dict_has {K A} (eqb : K -> K -> bool) (d : list (K * A)) (k : K) : bool := existsb (fun kv => eqb k (fst kv)) d.
Fixpoint py_every_fuel {A} (fuel stride : nat) (l : list A) : list A :=
  match fuel with
  | 0 => []
  | S f => match l with [] => [] | x :: _ => x :: py_every_fuel f stride (skipn stride l) end
  end.
Definition py_every {A} (stride : nat) (l : list A) : list A := py_every_fuel (length l) stride l.

(** * Part 2: lemmas *)

Lemma pslice_pos {A} (a b : nat) (l : list A) :
  pslice (Some (BPos a)) (Some (BPos b)) l = firstn (b - a) (skipn a l).
Proof.
  unfold pslice, norm_bound.
  destruct (Nat.le_gt_cases a (length l)) as [Ha|Ha].
  - rewrite (Nat.min_l a) by exact Ha.
    destruct (Nat.le_gt_cases b (length l)) as [Hb|Hb].
    + rewrite (Nat.min_l b) by exact Hb. reflexivity.
    + rewrite (Nat.min_r b) by lia.
      rewrite !firstn_all2; [reflexivity | rewrite skipn_length; lia | rewrite skipn_length; lia].
  - rewrite (Nat.min_r a) by lia. rewrite !skipn_all2 by lia. rewrite !firstn_nil. reflexivity.
Qed.

Lemma pslice_to {A} (b : nat) (l : list A) : pslice None (Some (BPos b)) l = firstn b l.
Proof.
  unfold pslice, norm_bound. cbn [skipn]. rewrite Nat.sub_0_r.
  destruct (Nat.le_gt_cases b (length l)) as [Hb|Hb].
  - rewrite Nat.min_l by exact Hb. reflexivity.
  - rewrite Nat.min_r by lia. rewrite !firstn_all2 by lia. reflexivity.
Qed.

Lemma pslice_from {A} (a : nat) (l : list A) : pslice (Some (BPos a)) None l = skipn a l.
Proof.
  unfold pslice, norm_bound.
  destruct (Nat.le_gt_cases a (length l)) as [Ha|Ha].
  - rewrite Nat.min_l by exact Ha. apply firstn_all2. rewrite skipn_length. lia.
  - rewrite Nat.min_r by lia. rewrite !skipn_all2 by lia. apply firstn_nil.
Qed.

Lemma pslice_last {A} (k : nat) (l : list A) : pslice (Some (BNeg k)) None l = skipn (length l - k) l.
Proof. unfold pslice, norm_bound. apply firstn_all2. rewrite skipn_length. lia. Qed.

Lemma py_index_nth {A} (l : list A) (n : nat) (d : A) : n < length l -> py_index l (BPos n) = Ok (nth n l d).
Proof.
  intros H. unfold py_index. destruct (nth_error l n) as [x|] eqn:E.
  - f_equal. symmetry. apply nth_error_nth. exact E.
  - apply nth_error_None in E. lia.
Qed.

Lemma py_index_none {A} (l : list A) (n : nat) : length l <= n -> py_index l (BPos n) = Err EIndex.
Proof. intros H. unfold py_index. apply nth_error_None in H. rewrite H. reflexivity. Qed.

Lemma py_floordiv_ok a b : b <> 0 -> py_floordiv a b = Ok (a / b).
Proof. intros H. unfold py_floordiv. apply Nat.eqb_neq in H. rewrite H. reflexivity. Qed.
Lemma py_mod_ok a b : b <> 0 -> py_mod a b = Ok (a mod b).
Proof. intros H. unfold py_mod. apply Nat.eqb_neq in H. rewrite H. reflexivity. Qed.

(** [all] over a condition that never raises is [forallb] *)
Lemma py_all_pure {A} (f : A -> res bool) (g : A -> bool) (l : list A) :
  (forall x, In x l -> f x = Ok (g x)) -> py_all f l = Ok (forallb g l).
Proof.
  induction l as [|x r IH]; intros H; [reflexivity|].
  cbn [py_all forallb]. rewrite (H x (or_introl eq_refl)). cbn [bind].
  destruct (g x); [|reflexivity]. apply IH. intros y Hy. apply H. right. exact Hy.
Qed.

(** a loop without carried variables whose body only tests: returns [false] at the first failing
    element, falls through otherwise *)
Lemma py_for_test {A} (l : list A) (body : A -> unit -> res (ctl bool unit)) (g : A -> bool) :
  (forall x, In x l -> body x tt = Ok (if g x then Next tt else Ret false)) ->
  py_for l tt body = Ok (if forallb g l then Next tt else Ret false).
Proof.
  induction l as [|x r IH]; intros H; [reflexivity|].
  cbn [py_for forallb]. rewrite (H x (or_introl eq_refl)). cbn [bind].
  destruct (g x); [|reflexivity]. cbn [andb]. apply IH. intros y Hy. apply H. right. exact Hy.
Qed.

(** a loop whose body only updates the carried variables is a left fold *)
Lemma py_for_fold {A R S} (l : list A) (s : S) (body : A -> S -> res (ctl R S)) (f : S -> A -> S) :
  (forall x s', body x s' = Ok (Next (f s' x))) -> py_for l s body = Ok (Next (fold_left f l s)).
Proof.
  intros H. revert s. induction l as [|x r IH]; intros s; [reflexivity|].
  cbn [py_for fold_left]. rewrite H. cbn [bind]. apply IH.
Qed.

Lemma forallb_map {A B} (f : A -> B) (g : B -> bool) (l : list A) :
  forallb g (map f l) = forallb (fun x => g (f x)) l.
Proof. induction l as [|x r IH]; [reflexivity|]. cbn [map forallb]. rewrite IH. reflexivity. Qed.
