(** Meaning of the DYNAMIC primitives emitted by tools/tables/py2coq.py for variables of type `dyn`
    (a Python runtime value read from a JSON content dictionary, represented by [jv]: JObj = dict,
    JArr = list, JStr = str, JInt = int, JBool = bool, JNull = None, JNum tok = float with repr tok).

    CONVENTIONS (domain restrictions of this layer; they are the ones documented at the head of
    Content/Model.v):
    - numbers are ints and bools (True = 1, False = 0).  A float, str, list, dict or None in a NUMERIC position
      (operand of * or of an ordering comparison, list index, value returned as an int) is [Err EType]: for
      str/list/None Python raises TypeError there or at the next numeric use; floats are OUTSIDE the domain;
    - [v == <int literal>] is false for every non-int (again: floats outside the domain);
    - dict keys are strings (JSON).
    Everything else follows Python: KeyError / TypeError of subscripts, AttributeError of [iteritems] on a
    non-dict, iteration of list / str / dict, [in] on dict / list / str. *)
From Coq Require Import List Bool Arith ZArith Lia.
From DV Require Import Common.Res Common.Str Common.Jv Common.PyOps2.
Import ListNotations.
Local Open Scope res_scope.

Definition dyn_as_int (v : jv) : option Z :=
  match v with JInt z => Some z | JBool b => Some (if b then 1 else 0)%Z | _ => None end.

(** a value used as a number *)
Definition dyn_int (v : jv) : res Z := match dyn_as_int v with Some z => Ok z | None => Err EType end.

(** [v is None], [v == n] for an int literal n *)
Definition dyn_is_none (v : jv) : bool := match v with JNull => true | _ => false end.
Definition dyn_eq_int (v : jv) (n : Z) : bool := match dyn_as_int v with Some z => Z.eqb z n | None => false end.

(** [c[k]] with a string key *)
Definition dyn_getitem (c : jv) (k : str) : res jv :=
  match c with
  | JObj o => match jassoc k o with Some v => Ok v | None => Err EKey end
  | _ => Err EType
  end.

(** [len(v)] *)
Definition dyn_len (v : jv) : res nat :=
  match v with
  | JArr l => Ok (length l)
  | JStr s => Ok (length s)
  | JObj o => Ok (length o)
  | _ => Err EType
  end.

(** iteration: [tuple(v)], [set(v)], [for x in v] *)
Definition dyn_iter (v : jv) : res (list jv) :=
  match v with
  | JArr l => Ok l
  | JStr s => Ok (map (fun ch => JStr [ch]) s)
  | JObj o => Ok (map (fun kv => JStr (fst kv)) o)
  | _ => Err EType
  end.

(** [x in c] *)
Definition dyn_contains (c x : jv) : res bool :=
  match c with
  | JObj o => match x with
              | JStr k => Ok (match jassoc k o with Some _ => true | None => false end)
              | JArr _ | JObj _ => Err EType          (* unhashable *)
              | _ => Ok false
              end
  | JArr l => Ok (existsb (jv_eqb x) l)
  | JStr s => match x with JStr p => Ok (containsb p s) | _ => Err EType end
  | _ => Err EType
  end.

(** [l[i]] on a list / tuple with a dynamic index *)
Definition dyn_index (l : list jv) (i : jv) : res jv :=
  match dyn_as_int i with Some z => py_index l (bnd_of_Z z) | None => Err EType end.

(** [iteritems(d)] *)
Definition dyn_items (v : jv) : res (list (str * jv)) := match v with JObj o => Ok o | _ => Err EAttr end.

(** [a * b] *)
Definition dyn_mul (a b : jv) : res jv := do x <- dyn_int a; do y <- dyn_int b; Ok (JInt (x * y)).

(** sets as lists without duplicates: [set(l)], [a <= b], [a & b] *)
Fixpoint py_set {A} (eqb : A -> A -> bool) (l : list A) : list A :=
  match l with
  | [] => []
  | x :: r => x :: filter (fun y => negb (eqb x y)) (py_set eqb r)
  end.
Definition py_subset {A} (eqb : A -> A -> bool) (a b : list A) : bool := forallb (fun x => existsb (eqb x) b) a.
Definition py_inter {A} (eqb : A -> A -> bool) (a b : list A) : list A := filter (fun x => existsb (eqb x) b) a.
