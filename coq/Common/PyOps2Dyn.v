(** Meaning of the DYNAMIC primitives emitted by tools/tables/py2coq.py for variables of type `dyn`
    (a Python runtime value read from a JSON content dictionary, represented by [jv]: JObj = dict,
    JArr = list, JStr = str, JInt = int, JBool = bool, JNull = None, JNum tok = float with repr tok).

    CONVENTIONS (domain restrictions of this layer; they are the ones documented at the head of
    Content/Model.v):
    - numbers are ints and bools (True = 1, False = 0).  A float, str, list, dict or None in a NUMERIC position
      (operand of * or of an ordering comparison, list index, value returned as an int) is [Err EType]: for
      str/list/None Python raises TypeError there or at the next numeric use; floats are OUTSIDE the domain;
    - [v == <int literal>] is false for every non-int (again: floats outside the domain);
    - dict keys are strings (JSON).
    Everything else follows Python: KeyError / TypeError of subscripts, AttributeError of [iteritems] on a
    non-dict, iteration of list / str / dict, [in] on dict / list / str. *)
From Coq Require Import List Bool Arith ZArith Lia.
From DV Require Import Common.Res Common.Str Common.Jv Common.PyOps2.
Import ListNotations.
Local Open Scope res_scope.

Definition dyn_as_int (v : jv) : option Z :=
  match v with JInt z => Some z | JBool b => Some (if b then 1 else 0)%Z | _ => None end.

(** a value used as a number *)
Definition dyn_int (v : jv) : res Z := match dyn_as_int v with Some z => Ok z | None => Err EType end.

(** [v is None], [v == n] for an int literal n *)
Definition dyn_is_none (v : jv) : bool := match v with JNull => true | _ => false end.
Definition dyn_eq_int (v : jv) (n : Z) : bool := match dyn_as_int v with Some z => Z.eqb z n | None => false end.

(** [c[k]] with a string key *)
Definition dyn_getitem (c : jv) (k : str) : res jv :=
  match c with
  | JObj o => match jassoc k o with Some v => Ok v | None => Err EKey end
  | _ => Err EType
  end.

(** [len(v)] *)
Definition dyn_len (v : jv) : res nat :=
  match v with
  | JArr l => Ok (length l)
  | JStr s => Ok (length s)
  | JObj o => Ok (length o)
  | _ => Err EType
  end.

(** iteration: [tuple(v)], [set(v)], [for x in v] *)
Definition dyn_iter (v : jv) : res (list jv) :=
  match v with
  | JArr l => Ok l
  | JStr s => Ok (map (fun ch => JStr [ch]) s)
  | JObj o => Ok (map (fun kv => JStr (fst kv)) o)
  | _ => Err EType
  end.

(** [x in c] *)
Definition dyn_contains (c x : jv) : res bool :=
  match c with
  | JObj o => match x with
              | JStr k => Ok (match jassoc k o with Some _ => true | None => false end)
              | JArr _ | JObj _ => Err EType          (* unhashable *)
              | _ => Ok false
              end
  | JArr l => Ok (existsb (jv_eqb x) l)
  | JStr s => match x with JStr p => Ok (containsb p s) | _ => Err EType end
  | _ => Err EType
  end.

(** [l[i]] on a list / tuple with a dynamic index *)
Definition dyn_index (l : list jv) (i : jv) : res jv :=
  match dyn_as_int i with Some z => py_index l (bnd_of_Z z) | None => Err EType end.

(** [d.keys()] *)
Definition dyn_keys (v : jv) : res (list str) := match v with JObj o => Ok (map fst o) | _ => Err EAttr end.

(** [iteritems(d)] *)
Definition dyn_items (v : jv) : res (list (str * jv)) := match v with JObj o => Ok o | _ => Err EAttr end.

(** [a * b] *)
Definition dyn_mul (a b : jv) : res jv := do x <- dyn_int a; do y <- dyn_int b; Ok (JInt (x * y)).

(** [v * n] with n a known int count: repetition of a list / str, product of a number *)
Definition dyn_times (v : jv) (n : nat) : res jv :=
  match v with
  | JArr l => Ok (JArr (py_repeat l n))
  | JStr s => Ok (JStr (py_repeat s n))
  | _ => match dyn_as_int v with Some z => Ok (JInt (z * Z.of_nat n)) | None => Err EType end
  end.

(** [v[i]] and [v[a:b]] with integer positions on a dynamic value *)
Definition dyn_getidx (v : jv) (i : bnd) : res jv :=
  match v with
  | JArr l => py_index l i
  | JStr s => match py_index s i with Ok ch => Ok (JStr [ch]) | Err e => Err e end
  | JObj _ => Err EKey
  | _ => Err EType
  end.
Definition dyn_slice (lo hi : option bnd) (v : jv) : res jv :=
  match v with
  | JArr l => Ok (JArr (pslice lo hi l))
  | JStr s => Ok (JStr (pslice lo hi s))
  | _ => Err EType
  end.

(** a value passed where a sequence is expected (list or str; a dict is outside the domain) *)
Definition dyn_seq (v : jv) : res (list jv) :=
  match v with JArr l => Ok l | JStr s => Ok (map (fun ch => JStr [ch]) s) | _ => Err EType end.

(** a dynamic value used where the translated callee takes a str (a key obtained by iterating a dictionary) *)
Definition dyn_as_str (v : jv) : res str := match v with JStr s => Ok s | _ => Err EType end.

(** [v.extend(y)] on a value read from the state: only a list has the method (AttributeError otherwise); the argument is
    iterated (TypeError when it is not a list or a str).  The result is the extended list; the translation stores it back
    under the key the list was read from (Python changes the stored list in place). *)
Definition dyn_extend (v y : jv) : res jv :=
  match v with
  | JArr l => match dyn_iter y with Ok ys => Ok (JArr (l ++ ys)) | Err e => Err e end
  | _ => Err EAttr
  end.

(** [v[lo:hi:step]], step a non-negative int: 0 is ValueError *)
Definition dyn_slice_step (lo hi : option bnd) (step : nat) (v : jv) : res jv :=
  if Nat.eqb step 0 then (match v with JArr _ | JStr _ => Err EValue | _ => Err EType end) else
  match v with
  | JArr l => Ok (JArr (py_every step (pslice lo hi l)))
  | JStr s => Ok (JStr (py_every step (pslice lo hi s)))
  | _ => Err EType
  end.

(** the state: a content dictionary with nested dictionaries.  [st[a][b][k] = v] and [del st[a][b][k]]:
    a dict keeps its key order, an assignment replaces in place or appends *)
Fixpoint jset (k : str) (v : jv) (o : list (str * jv)) : list (str * jv) :=
  match o with
  | [] => [(k, v)]
  | (k', v') :: r => if str_eqb k k' then (k', v) :: r else (k', v') :: jset k v r
  end.
Fixpoint jdel (k : str) (o : list (str * jv)) : option (list (str * jv)) :=
  match o with
  | [] => None
  | (k', v') :: r => if str_eqb k k' then Some r else option_map (cons (k', v')) (jdel k r)
  end.
Definition dyn_set2 (st : jv) (a b k : str) (v : jv) : res jv :=
  do x <- dyn_getitem st a; do y <- dyn_getitem x b;
  match st, x, y with
  | JObj o, JObj bo, JObj d => Ok (JObj (jset a (JObj (jset b (JObj (jset k v d)) bo)) o))
  | _, _, _ => Err EType
  end.
(** [st[a][b] = v]: a whole class dictionary is replaced (KeyError when st[a] does not exist) *)
Definition dyn_setc2 (st : jv) (a b : str) (v : jv) : res jv :=
  do x <- dyn_getitem st a;
  match st, x with
  | JObj o, JObj bo => Ok (JObj (jset a (JObj (jset b v bo)) o))
  | _, _ => Err EType
  end.
Definition dyn_del2 (st : jv) (a b k : str) : res jv :=
  do x <- dyn_getitem st a; do y <- dyn_getitem x b;
  match st, x, y with
  | JObj o, JObj bo, JObj d =>
      match jdel k d with
      | Some d' => Ok (JObj (jset a (JObj (jset b (JObj d') bo)) o))
      | None => Err EKey
      end
  | _, _, JArr _ => Err EType          (* del list['key'] *)
  | _, _, _ => Err EType
  end.

(** sets as lists without duplicates: [set(l)], [a <= b], [a & b] *)
Fixpoint py_set {A} (eqb : A -> A -> bool) (l : list A) : list A :=
  match l with
  | [] => []
  | x :: r => x :: filter (fun y => negb (eqb x y)) (py_set eqb r)
  end.
Definition py_subset {A} (eqb : A -> A -> bool) (a b : list A) : bool := forallb (fun x => existsb (eqb x) b) a.
Definition py_inter {A} (eqb : A -> A -> bool) (a b : list A) : list A := filter (fun x => existsb (eqb x) b) a.
(** [a - b] on sets.  The order in which Python iterates a set is not modelled: a set is the list of its elements in order of
    first insertion, and what is computed from a set is compared with the code up to that order. *)
Definition py_diff {A} (eqb : A -> A -> bool) (a b : list A) : list A := filter (fun x => negb (existsb (eqb x) b)) a.
