(** Helpers shared by every correspondence shard (work/Cnn/cases_k.v). *)
From Coq Require Import List Bool Arith.
Import ListNotations.

Fixpoint mismatches_from {A} (chk : A -> bool) (i : nat) (l : list A) : list nat :=
  match l with
  | [] => []
  | c :: cs => if chk c then mismatches_from chk (S i) cs
               else i :: mismatches_from chk (S i) cs
  end.

(** Indices of the cases on which the model disagrees with the implementation's observation. *)
Definition mismatches {A} (chk : A -> bool) (l : list A) : list nat := mismatches_from chk 0 l.

Lemma mismatches_nil_all {A} (chk : A -> bool) l :
  mismatches chk l = [] -> forallb chk l = true.
Proof.
  unfold mismatches. generalize 0. induction l as [|c cs IH]; intros n; simpl; [reflexivity|].
  destruct (chk c); simpl; [apply IH | discriminate].
Qed.
