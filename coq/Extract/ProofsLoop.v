(** The main loop of MetaExtractor.__call__ decomposed: what one element does to the three pieces of state,
    and the loop-level consequences (slot map, standard entries, translator results). *)
From Coq Require Import Strings.String.
From Coq Require Import List Bool NArith ZArith Lia.
From DV Require Import Common.Res Common.Str Generated.T_extract Extract.Model Extract.ProofsStr Extract.Spec Extract.ProofsDict.
Import ListNotations.

Lemma mapM_Forall2 {A B} (f : A -> res B) : forall l rs, mapM f l = Ok rs -> Forall2 (fun a b => f a = Ok b) l rs.
Proof.
  induction l as [|a l IH]; simpl; intros rs H.
  - injection H as <-. constructor.
  - destruct (f a) as [b|] eqn:Ha; [|discriminate]. destruct (mapM f l) as [bs|] eqn:Hl; [|discriminate].
    injection H as <-. constructor; [exact Ha | apply IH; reflexivity].
Qed.

Lemma mapM_nil_inv {A B} (f : A -> res B) l : mapM f l = Ok [] -> l = [].
Proof.
  intros H. apply mapM_Forall2 in H. inversion H. reflexivity.
Qed.

(** * One step *)

Definition step_post (cfg : config) (rec : dataset -> res dict) (st : state) (e : elem) (st' : state) : Prop :=
  reg_elem cfg (s_map st) e = Ok (s_map st') /\
  (if contributes (kind_of cfg (s_map st') e)
   then exists x, entry_ok cfg rec e x /\ s_std st' = s_std st ++ [x]
   else s_std st' = s_std st) /\
  s_tmeta st' = match kind_of cfg (s_map st') e, map_get (etag e) (s_map st') with
                | KTranslated, Some t => tmeta_upd t e (s_tmeta st)
                | _, _ => s_tmeta st
                end.

Lemma step_spec cfg rec st e st' : step cfg rec st e = Ok st' -> step_post cfg rec st e st'.
Proof.
  destruct e as [i v]. unfold step. cbn [fst snd].
  destruct (is_blank_str v) eqn:Hb.
  { intros H. injection H as <-. unfold step_post, reg_elem, kind_of. cbn [fst snd]. rewrite Hb. cbn. repeat split; reflexivity. }
  destruct (register cfg i v (s_map st)) as [m|er] eqn:Hreg; [|discriminate].
  destruct (map_get (e_tag i) m) as [t|] eqn:Hget.
  { (* translated *)
    intros H.
    assert (Hst : st' = mk_state m (s_std st) (tmeta_upd t (i, v) (s_tmeta st))).
    { unfold tmeta_upd. destruct (t_fun t (i, v)) as [[|x l]|er].
      - injection H as <-. reflexivity.
      - injection H as <-. reflexivity.
      - destruct (c_warn cfg); [injection H as <-; reflexivity | discriminate]. }
    subst st'. unfold step_post, reg_elem, kind_of, etag. cbn [fst snd s_map s_std s_tmeta].
    rewrite Hb, Hget, Hreg. cbn. repeat split; reflexivity. }
  destruct (ignored cfg (e_tag i)) eqn:Hign.
  { intros H. injection H as <-. unfold step_post, reg_elem, kind_of, etag. cbn [fst snd s_map s_std s_tmeta].
    rewrite Hb, Hget, Hign, Hreg. cbn. repeat split; reflexivity. }
  assert (Hreg' : reg_elem cfg (s_map st) (i, v) = Ok m).
  { unfold reg_elem. cbn [fst snd]. rewrite Hb. exact Hreg. }
  destruct v as [| c s | c z | c tok | b | c l | items | kvs | ty rp].
  7: { (* sequence *)
    destruct (mapM rec items) as [[|r rs]|er] eqn:HM; [| |discriminate].
    - intros H. injection H as <-. apply mapM_nil_inv in HM. subst items.
      unfold step_post, kind_of, etag. cbn [fst snd s_map s_std s_tmeta]. rewrite Hb, Hget, Hign. cbn.
      repeat split; try reflexivity. exact Hreg'.
    - intros H. injection H as <-.
      destruct items as [|it items]; [discriminate HM|].
      unfold step_post, kind_of, etag, push_std. cbn [fst snd s_map s_std s_tmeta]. rewrite Hb, Hget, Hign. cbn [contributes].
      split; [exact Hreg'|]. split; [|reflexivity].
      eexists. split; [|reflexivity]. unfold entry_ok, std_name, std_val, std_tag, etag. cbn [fst snd].
      split; [reflexivity|]. split; [reflexivity|]. exists (r :: rs). split; [exact HM|]. split; [discriminate | reflexivity]. }
  all: destruct (get_elem_value cfg (i, _)) as [value|er] eqn:HV; [|discriminate];
    destruct value; intros H; injection H as <-;
    unfold step_post, kind_of, etag, push_std; cbn [fst snd s_map s_std s_tmeta];
    rewrite ?Hb, ?Hget, ?Hign, ?HV; cbn [contributes];
    (split; [exact Hreg'|]); (split; [|reflexivity]);
    try reflexivity;
    (eexists; split; [|reflexivity]; unfold entry_ok, std_name, std_val, std_tag, etag; cbn [fst snd];
     split; [reflexivity|]; split; [reflexivity|]; split; [exact HV | discriminate]).
Qed.

(** * The loop *)

Lemma next_map_ok cfg m e m' : reg_elem cfg m e = Ok m' -> next_map cfg m e = m'.
Proof. unfold next_map. intros ->. reflexivity. Qed.

Definition tmeta_from_step cfg (m' : tmap) (e : elem) (tm : list (str * dict)) : list (str * dict) :=
  match kind_of cfg m' e, map_get (etag e) m' with
  | KTranslated, Some t => tmeta_upd t e tm
  | _, _ => tm
  end.

Fixpoint tmeta_from (cfg : config) (m : tmap) (ds : dataset) (tm : list (str * dict)) : list (str * dict) :=
  match ds with
  | [] => tm
  | e :: r => let m' := next_map cfg m e in tmeta_from cfg m' r (tmeta_from_step cfg m' e tm)
  end.

Lemma loop_spec cfg rec : forall ds st st',
  run_loop (step cfg rec) st ds = Ok st' ->
  tmap_from cfg (s_map st) ds = Ok (s_map st') /\
  (exists added, s_std st' = s_std st ++ added /\ Forall2 (entry_ok cfg rec) (survivors_from cfg (s_map st) ds) added) /\
  s_tmeta st' = tmeta_from cfg (s_map st) ds (s_tmeta st).
Proof.
  induction ds as [|e ds IH]; intros st st' H; simpl in H.
  - injection H as <-. simpl. split; [reflexivity|]. split; [exists []; rewrite app_nil_r; split; [reflexivity | constructor] | reflexivity].
  - destruct (step cfg rec st e) as [st1|er] eqn:Hstep; [|discriminate].
    apply step_spec in Hstep. destruct Hstep as [Hreg [Hstd Htm]].
    destruct (IH st1 st' H) as [IHmap [[added [IHstd IHF]] IHtm]].
    simpl. rewrite Hreg. rewrite (next_map_ok _ _ _ _ Hreg).
    split; [exact IHmap|]. split.
    + destruct (contributes (kind_of cfg (s_map st1) e)).
      * destruct Hstd as [x [Hx Hstd]]. exists (x :: added). split.
        -- rewrite IHstd, Hstd, <- app_assoc. reflexivity.
        -- constructor; assumption.
      * exists added. split; [rewrite IHstd, Hstd; reflexivity | exact IHF].
    + rewrite IHtm. unfold tmeta_from_step. rewrite Htm. reflexivity.
Qed.

(** survivors are a sub-list of the dataset *)
Lemma survivors_incl cfg : forall ds m e, In e (survivors_from cfg m ds) -> In e ds.
Proof.
  induction ds as [|a ds IH]; simpl; intros m e H; [contradiction|].
  destruct (contributes (kind_of cfg (next_map cfg m a) a)).
  - destruct H as [-> | H]; [left; reflexivity | right; apply (IH _ _ H)].
  - right. apply (IH _ _ H).
Qed.

Lemma survivors_tags_nodup cfg : forall ds m, NoDup (map etag ds) -> NoDup (map etag (survivors_from cfg m ds)).
Proof.
  induction ds as [|a ds IH]; simpl; intros m H; [constructor|].
  inversion H as [|? ? Hnotin Hnd]; subst.
  destruct (contributes (kind_of cfg (next_map cfg m a) a)); [|apply IH; exact Hnd].
  simpl. constructor; [|apply IH; exact Hnd].
  intros Hin. apply Hnotin. apply in_map_iff in Hin. destruct Hin as [e [He Hin]].
  apply in_map_iff. exists e. split; [exact He | apply (survivors_incl _ _ _ _ Hin)].
Qed.

Lemma survivors_not_ignored cfg : forall ds m e, In e (survivors_from cfg m ds) -> ignored cfg (etag e) = false.
Proof.
  induction ds as [|a ds IH]; simpl; intros m e H; [contradiction|].
  destruct (contributes (kind_of cfg (next_map cfg m a) a)) eqn:Hc; [|apply (IH _ _ H)].
  destruct H as [<- | H]; [|apply (IH _ _ H)].
  unfold kind_of in Hc.
  destruct (is_blank_str (snd a)); [discriminate Hc|].
  destruct (map_get (etag a) (next_map cfg m a)); [discriminate Hc|].
  destruct (ignored cfg (etag a)); [discriminate Hc | reflexivity].
Qed.

Lemma survivors_filter cfg : forall ds m,
  survivors_from cfg m ds = map fst (filter (fun p => contributes (snd p)) (combine ds (kinds_from cfg m ds))).
Proof.
  induction ds as [|a ds IH]; simpl; intros m; [reflexivity|].
  destruct (contributes (kind_of cfg (next_map cfg m a) a)); simpl; rewrite IH; reflexivity.
Qed.

Lemma kinds_length cfg : forall ds m, length (kinds_from cfg m ds) = length ds.
Proof. induction ds as [|a ds IH]; simpl; intros m; [reflexivity | rewrite IH; reflexivity]. Qed.

(** the class recorded at a position is the class under the slot map reached after that element *)
Lemma kinds_nth cfg : forall pre m e post mf,
  tmap_from cfg m (pre ++ e :: post) = Ok mf ->
  exists m1, tmap_from cfg m (pre ++ [e]) = Ok m1 /\
             nth (length pre) (kinds_from cfg m (pre ++ e :: post)) KBlank = kind_of cfg m1 e.
Proof.
  induction pre as [|a pre IH]; intros m e post mf H; simpl in H |- *.
  - destruct (reg_elem cfg m e) as [m1|] eqn:Hreg; [|discriminate].
    exists m1. split; [reflexivity|]. rewrite (next_map_ok _ _ _ _ Hreg). reflexivity.
  - destruct (reg_elem cfg m a) as [m1|] eqn:Hreg; [|discriminate].
    rewrite (next_map_ok _ _ _ _ Hreg). apply (IH _ _ _ _ H).
Qed.

(** * Provenance of the slot map and of the translator results *)

Definition bound_by (cfg : config) (ds : dataset) (p : tag * translator) : Prop :=
  exists c, In c ds /\ e_name (fst c) = private_creator_name /\ is_blank_str (snd c) = false /\
            In (snd p) (c_translators cfg) /\ creator_matches (snd p) (snd c) = true /\ fst p = slot_tag (etag c) (snd p).

Lemma register_all_prov : forall ts creator v m m',
  register_all ts creator v m = Ok m' ->
  exists ext, m' = m ++ ext /\
    forall p, In p ext -> In (snd p) ts /\ creator_matches (snd p) v = true /\ fst p = slot_tag creator (snd p).
Proof.
  induction ts as [|t ts IH]; simpl; intros creator v m m' H.
  - injection H as <-. exists []. rewrite app_nil_r. split; [reflexivity | intros p []].
  - destruct (creator_matches t v) eqn:Hm.
    + destruct (map_get (slot_tag creator t) m); [discriminate|].
      apply IH in H. destruct H as [ext [-> Hext]].
      exists ((slot_tag creator t, t) :: ext). split; [rewrite <- app_assoc; reflexivity|].
      intros p [<- | Hp].
      * simpl. split; [left; reflexivity | split; [exact Hm | reflexivity]].
      * destruct (Hext p Hp) as [H1 [H2 H3]]. split; [right; exact H1 | split; assumption].
    + apply IH in H. destruct H as [ext [-> Hext]]. exists ext. split; [reflexivity|].
      intros p Hp. destruct (Hext p Hp) as [H1 [H2 H3]]. split; [right; exact H1 | split; assumption].
Qed.

Lemma reg_elem_prov cfg m e m' :
  reg_elem cfg m e = Ok m' ->
  exists ext, m' = m ++ ext /\ forall p, In p ext -> bound_by cfg [e] p.
Proof.
  unfold reg_elem, register. destruct (is_blank_str (snd e)) eqn:Hb.
  - intros H. injection H as <-. exists []. rewrite app_nil_r. split; [reflexivity | intros p []].
  - destruct (str_eqb_spec (e_name (fst e)) private_creator_name) as [Hn|Hn].
    + intros H. apply register_all_prov in H. destruct H as [ext [-> Hext]]. exists ext. split; [reflexivity|].
      intros p Hp. destruct (Hext p Hp) as [H1 [H2 H3]]. exists e. split; [left; reflexivity|].
      split; [exact Hn|]. split; [exact Hb|]. split; [exact H1|]. split; [exact H2 | exact H3].
    + intros H. injection H as <-. exists []. rewrite app_nil_r. split; [reflexivity | intros p []].
Qed.

Lemma bound_by_incl cfg ds ds' p : incl ds ds' -> bound_by cfg ds p -> bound_by cfg ds' p.
Proof.
  intros Hi [c [Hc H]]. exists c. split; [apply Hi; exact Hc | exact H].
Qed.

Lemma tmap_from_prov cfg : forall ds m m',
  tmap_from cfg m ds = Ok m' ->
  exists ext, m' = m ++ ext /\ forall p, In p ext -> bound_by cfg ds p.
Proof.
  induction ds as [|e ds IH]; simpl; intros m m' H.
  - injection H as <-. exists []. rewrite app_nil_r. split; [reflexivity | intros p []].
  - destruct (reg_elem cfg m e) as [m1|] eqn:Hreg; [|discriminate].
    apply reg_elem_prov in Hreg. destruct Hreg as [ext1 [-> Hext1]].
    apply IH in H. destruct H as [ext2 [-> Hext2]].
    exists (ext1 ++ ext2). split; [rewrite app_assoc; reflexivity|].
    intros p Hp. apply in_app_or in Hp. destruct Hp as [Hp | Hp].
    + apply (bound_by_incl cfg [e]); [intros x [<- | []]; left; reflexivity | apply Hext1; exact Hp].
    + apply (bound_by_incl cfg ds); [intros x Hx; right; exact Hx | apply Hext2; exact Hp].
Qed.

Lemma map_get_in : forall (m : tmap) t x, map_get t m = Some x -> exists t', tag_eqb t t' = true /\ In (t', x) m.
Proof.
  induction m as [|[t' y] m IH]; simpl; intros t x H; [discriminate|].
  destruct (tag_eqb t t') eqn:E.
  - injection H as ->. exists t'. split; [exact E | left; reflexivity].
  - destruct (IH _ _ H) as [t'' [H1 H2]]. exists t''. split; [exact H1 | right; exact H2].
Qed.

Lemma tag_eqb_eq a b : tag_eqb a b = true <-> a = b.
Proof.
  destruct a as [g e], b as [g' e']. unfold tag_eqb. simpl. rewrite andb_true_iff, !N.eqb_eq.
  split; [intros [-> ->]; reflexivity | intros H; injection H as -> ->; split; reflexivity].
Qed.

Lemma tag_eqb_refl a : tag_eqb a a = true.
Proof. apply tag_eqb_eq. reflexivity. Qed.

(** translated elements, their translators, and where these were bound *)
Lemma translated_in cfg : forall ds m e t,
  In (e, t) (translated_from cfg m ds) -> In e ds /\ is_blank_str (snd e) = false.
Proof.
  induction ds as [|a ds IH]; simpl; intros m e t H; [contradiction|].
  unfold kind_of in H at 1.
  destruct (is_blank_str (snd a)) eqn:Hb.
  - destruct (IH _ _ _ H) as [H1 H2]. split; [right; exact H1 | exact H2].
  - destruct (map_get (etag a) (next_map cfg m a)) as [t'|] eqn:Hget.
    + destruct H as [Heq | H].
      * injection Heq as <- <-. split; [left; reflexivity | exact Hb].
      * destruct (IH _ _ _ H) as [H1 H2]. split; [right; exact H1 | exact H2].
    + assert (Hx : In (e, t) (translated_from cfg (next_map cfg m a) ds)).
      { destruct (ignored cfg (etag a)); [exact H|]. destruct (snd a) as [| | | | | |[|]| |]; try exact H;
        destruct (get_elem_value cfg a) as [[]|]; exact H. }
      destruct (IH _ _ _ Hx) as [H1 H2]. split; [right; exact H1 | exact H2].
Qed.
