(** Injectivity of the key mapping: [finish] is an append of distinct keys under the hypotheses of C15_injective,
    and no translated element is lost when every translator name is bound once. *)
From Coq Require Import Strings.String.
From Coq Require Import List Bool NArith ZArith Lia.
From DV Require Import Common.Res Common.Str Generated.T_extract Extract.Model Extract.ProofsStr Extract.Spec
  Extract.ProofsDict Extract.ProofsLoop.
Import ListNotations.
Local Open Scope N_scope.

(** * Generic list facts *)

Lemma NoDup_map_In_inj {X Y} (f : X -> Y) (l : list X) a b :
  NoDup (map f l) -> In a l -> In b l -> f a = f b -> a = b.
Proof.
  induction l as [|c l IH]; simpl; intros Hnd Ha Hb Hf; [contradiction|].
  inversion Hnd as [|? ? Hnotin Hnd']; subst.
  destruct Ha as [-> | Ha], Hb as [-> | Hb].
  - reflexivity.
  - exfalso. apply Hnotin. rewrite Hf. apply in_map. exact Hb.
  - exfalso. apply Hnotin. rewrite <- Hf. apply in_map. exact Ha.
  - apply IH; assumption.
Qed.

Lemma NoDup_map_of_inj_on {X Y} (f : X -> Y) (l : list X) :
  NoDup l -> (forall a b, In a l -> In b l -> f a = f b -> a = b) -> NoDup (map f l).
Proof.
  induction l as [|c l IH]; simpl; intros Hnd Hinj; [constructor|].
  inversion Hnd as [|? ? Hnotin Hnd']; subst. constructor.
  - intros Hin. apply in_map_iff in Hin. destruct Hin as [x [Hfx Hx]].
    assert (x = c) by (apply Hinj; [right; exact Hx | left; reflexivity | exact Hfx]). subst. contradiction.
  - apply IH; [exact Hnd' | intros a b Ha Hb; apply Hinj; right; assumption].
Qed.

Lemma NoDup_of_map {X Y} (f : X -> Y) (l : list X) : NoDup (map f l) -> NoDup l.
Proof.
  induction l as [|c l IH]; simpl; intros H; [constructor|].
  inversion H as [|? ? Hnotin Hnd]; subst. constructor; [|apply IH; exact Hnd].
  intros Hin. apply Hnotin. apply in_map. exact Hin.
Qed.

Lemma two_members_length {X} (l : list X) x y : In x l -> In y l -> x <> y -> (2 <= length l)%nat.
Proof.
  destruct l as [|a [|b l]]; simpl; intros Hx Hy Hne.
  - contradiction.
  - destruct Hx as [<- | []], Hy as [<- | []]. contradiction.
  - lia.
Qed.

Lemma str_nodupb_spec l : str_nodupb l = true -> NoDup l.
Proof.
  induction l as [|x l IH]; simpl; intros H; [constructor|].
  apply andb_true_iff in H. destruct H as [H1 H2]. constructor; [|apply IH; exact H2].
  intros Hin. apply negb_true_iff in H1.
  assert (existsb (str_eqb x) l = true) as E.
  { apply existsb_exists. exists x. split; [exact Hin | apply str_eqb_refl]. }
  congruence.
Qed.

(** * Standard entries: final keys are pairwise distinct *)

Section FinalKeys.
  Variable std : list (str * val * tag).
  Hypothesis Htags : NoDup (map std_tag std).
  Hypothesis Hclash : forall x y, In x std -> In y std -> std_name y <> std_name x ++ [95] ++ tag_to_str (std_tag x).

  Lemma count_ge_two x y : In x std -> In y std -> x <> y -> std_name x = std_name y -> (1 <? count_name (std_name x) std)%nat = true.
  Proof.
    intros Hx Hy Hne Hn. apply Nat.ltb_lt. unfold count_name.
    apply (two_members_length _ x y); [| | exact Hne]; apply filter_In; split; try assumption.
    - apply str_eqb_refl.
    - rewrite Hn. apply str_eqb_refl.
  Qed.

  Lemma final_key_inj x y : In x std -> In y std -> final_key std x = final_key std y -> x = y.
  Proof.
    intros Hx Hy H. unfold final_key in H.
    destruct (1 <? count_name (std_name x) std)%nat eqn:Cx, (1 <? count_name (std_name y) std)%nat eqn:Cy.
    - apply suffixed_inj in H. destruct H as [_ Ht]. apply (NoDup_map_In_inj std_tag std); assumption.
    - exfalso. apply (Hclash x y Hx Hy). symmetry. exact H.
    - exfalso. apply (Hclash y x Hy Hx). exact H.
    - destruct x as [[nx vx] tx], y as [[ny vy] ty]. unfold std_name in *. simpl in *.
      assert (Hd : forall (a b : str * val * tag), {a = b} + {a <> b} -> True) by (intros; exact I).
      (* if x <> y the common name would be counted twice *)
      subst ny.
      destruct (tag_eqb tx ty) eqn:Et.
      + apply tag_eqb_eq in Et. subst ty.
        apply (NoDup_map_In_inj std_tag std); [exact Htags | exact Hx | exact Hy | reflexivity].
      + exfalso.
        assert (Hne : (nx, vx, tx) <> (nx, vy, ty)).
        { intros Heq. injection Heq as _ Ht. subst. rewrite tag_eqb_refl in Et. discriminate. }
        pose proof (count_ge_two _ _ Hx Hy Hne eq_refl) as Hc. unfold std_name in Hc. simpl in Hc. congruence.
  Qed.

  Lemma final_keys_nodup : NoDup (map (final_key std) std).
  Proof.
    apply NoDup_map_of_inj_on; [apply (NoDup_of_map std_tag); exact Htags | apply final_key_inj].
  Qed.
End FinalKeys.

Lemma final_key_no_dot std x : ~ In 46 (std_name x) -> ~ In 46 (final_key std x).
Proof.
  intros Hn. unfold final_key. destruct (1 <? count_name (std_name x) std)%nat; [|exact Hn].
  intros Hin. apply in_app_or in Hin. destruct Hin as [Hin | Hin]; [contradiction|].
  apply in_app_or in Hin. destruct Hin as [Hin | Hin].
  - simpl in Hin. destruct Hin as [H | []]. discriminate H.
  - apply (tag_to_str_no_dot _ Hin).
Qed.

(** * Translator entries *)

Lemma trans_part_nodup : forall tm : list (str * dict),
  NoDup (map fst tm) ->
  (forall p, In p tm -> ~ In 46 (fst p) /\ NoDup (map fst (snd p))) ->
  NoDup (map fst (trans_part tm)).
Proof.
  induction tm as [|[tn meta] tm IH]; intros Hnd Hwf; [constructor|].
  unfold trans_part. simpl. fold (trans_part tm). rewrite map_app, map_map. simpl.
  inversion Hnd as [|? ? Hnotin Hnd']; subst.
  destruct (Hwf (tn, meta) (or_introl eq_refl)) as [Hdot Hmeta]. simpl in Hdot, Hmeta.
  apply NoDup_app_intro.
  - replace (map (fun x : str * val => trans_key tn (fst x)) meta) with (map (trans_key tn) (map fst meta)) by (rewrite map_map; reflexivity).
    apply NoDup_map_of_inj_on; [exact Hmeta|].
    intros a b _ _ H. unfold trans_key in H. apply app_inv_head in H. apply app_inv_head in H. exact H.
  - apply IH; [exact Hnd' | intros p Hp; apply Hwf; right; exact Hp].
  - intros k0 Hk0 Hin. apply in_map_iff in Hk0. destruct Hk0 as [kv [<- Hkv]].
    apply trans_part_keys in Hin. destruct Hin as [tn' [meta' [k' [Hin' [Hk' Heq]]]]].
    apply trans_key_inj in Heq.
    + destruct Heq as [-> _]. apply Hnotin. apply (in_map fst) in Hin'. exact Hin'.
    + exact Hdot.
    + destruct (Hwf (tn', meta') (or_intror Hin')) as [H _]. exact H.
Qed.

(** * [finish] without clashes is an append *)

Lemma finish_clean st :
  NoDup (map (final_key (s_std st)) (s_std st)) ->
  (forall x, In x (s_std st) -> ~ In 46 (final_key (s_std st) x)) ->
  NoDup (map fst (trans_part (s_tmeta st))) ->
  finish st = std_part (s_std st) ++ trans_part (s_tmeta st).
Proof.
  intros Hstd Hdot Htr. unfold finish.
  rewrite (fold_dset_fresh (final_key (s_std st)) std_val) by (try exact Hstd; intros x _ []).
  simpl. apply inject_all_fresh; [exact Htr|].
  intros k0 Hk0 Hin. apply trans_part_keys in Hk0. destruct Hk0 as [tn [meta [k [_ [_ ->]]]]].
  apply in_map_iff in Hin. destruct Hin as [[k1 v1] [Hk1 Hin]]. simpl in Hk1. subst k1.
  apply in_map_iff in Hin. destruct Hin as [x [Hx Hin]]. injection Hx as Hx _.
  apply (Hdot x Hin). rewrite Hx. apply trans_key_has_dot.
Qed.

(** * Translator results: provenance, preservation *)

Definition tl_upd (tm : list (str * dict)) (p : elem * translator) := tmeta_upd (snd p) (fst p) tm.

Lemma tmeta_from_fold cfg : forall ds m tm,
  tmeta_from cfg m ds tm = fold_left tl_upd (translated_from cfg m ds) tm.
Proof.
  induction ds as [|a ds IH]; intros m tm; simpl; [reflexivity|].
  rewrite IH. unfold tmeta_from_step.
  destruct (kind_of cfg (next_map cfg m a) a); try reflexivity.
  destruct (map_get (etag a) (next_map cfg m a)); reflexivity.
Qed.

Lemma dset_in_cases {A} (d : list (str * A)) k v k0 v0 : In (k0, v0) (dset k v d) -> (k0, v0) = (k, v) \/ In (k0, v0) d.
Proof.
  induction d as [|[k' v'] d IH]; simpl.
  - intros [H | []]. left. symmetry. exact H.
  - destruct (str_eqb k k'); simpl.
    + intros [H | H]; [left; symmetry; exact H | right; right; exact H].
    + intros [H | H]; [right; left; exact H |]. destruct (IH H) as [H' | H']; [left; exact H' | right; right; exact H'].
Qed.

Lemma tl_fold_prov : forall (tl : list (elem * translator)) tm tn meta,
  In (tn, meta) (fold_left tl_upd tl tm) ->
  In (tn, meta) tm \/ exists e t, In (e, t) tl /\ tn = t_name t /\ t_fun t e = Ok meta /\ meta <> [].
Proof.
  induction tl as [|[e t] tl IH]; intros tm tn meta H; simpl in H; [left; exact H|].
  apply IH in H. destruct H as [H | [e' [t' [Hin H]]]].
  - unfold tl_upd, tmeta_upd in H. simpl in H.
    destruct (t_fun t e) as [[|x l]|er] eqn:Hf; try (left; exact H).
    apply dset_in_cases in H. destruct H as [H | H]; [|left; exact H].
    injection H as -> ->. right. exists e, t. split; [left; reflexivity|]. split; [reflexivity|]. split; [exact Hf | discriminate].
  - right. exists e', t'. split; [right; exact Hin | exact H].
Qed.

Lemma tl_fold_nodup : forall (tl : list (elem * translator)) tm,
  NoDup (map fst tm) -> NoDup (map fst (fold_left tl_upd tl tm)).
Proof.
  induction tl as [|[e t] tl IH]; intros tm H; simpl; [exact H|].
  apply IH. unfold tl_upd, tmeta_upd. simpl. destruct (t_fun t e) as [[|x l]|er]; try exact H.
  apply dset_nodup. exact H.
Qed.

Lemma tl_fold_keep : forall (tl : list (elem * translator)) tm tn meta,
  (forall p, In p tl -> t_name (snd p) <> tn) -> dget tn tm = Some meta -> dget tn (fold_left tl_upd tl tm) = Some meta.
Proof.
  induction tl as [|[e t] tl IH]; intros tm tn meta Hne H; simpl; [exact H|].
  apply IH; [intros p Hp; apply Hne; right; exact Hp|].
  unfold tl_upd, tmeta_upd. simpl. destruct (t_fun t e) as [[|x l]|er]; try exact H.
  rewrite dget_dset_other; [exact H|]. intros Heq. apply (Hne (e, t)); [left; reflexivity | symmetry; exact Heq].
Qed.

Lemma tl_fold_preserved : forall (tl : list (elem * translator)) tm e t x l,
  NoDup (map (fun p => t_name (snd p)) tl) -> In (e, t) tl -> t_fun t e = Ok (x :: l) ->
  dget (t_name t) (fold_left tl_upd tl tm) = Some (x :: l).
Proof.
  induction tl as [|[e' t'] tl IH]; intros tm e t x l Hnd Hin Hf; simpl; [contradiction|].
  inversion Hnd as [|? ? Hnotin Hnd']; subst. simpl in Hnotin.
  destruct Hin as [Heq | Hin].
  - injection Heq as -> ->. apply tl_fold_keep.
    + intros p Hp Heq. apply Hnotin. rewrite <- Heq. apply (in_map (fun p => t_name (snd p))) in Hp. exact Hp.
    + unfold tl_upd, tmeta_upd. simpl. rewrite Hf. apply dget_dset_same.
  - apply (IH _ e); assumption.
Qed.

(** translated elements are a sub-list of the dataset, and their translators sit in the final slot map *)
Lemma translated_tags_nodup cfg : forall ds m, NoDup (map etag ds) -> NoDup (map (fun p => etag (fst p)) (translated_from cfg m ds)).
Proof.
  induction ds as [|a ds IH]; simpl; intros m H; [constructor|].
  inversion H as [|? ? Hnotin Hnd]; subst.
  destruct (kind_of cfg (next_map cfg m a) a); try (apply IH; exact Hnd).
  destruct (map_get (etag a) (next_map cfg m a)) as [t|]; [|apply IH; exact Hnd].
  simpl. constructor; [|apply IH; exact Hnd].
  intros Hin. apply Hnotin. apply in_map_iff in Hin. destruct Hin as [[e t'] [He Hin]]. simpl in He.
  apply in_map_iff. exists e. split; [exact He|]. apply translated_in in Hin. destruct Hin as [Hin _]. exact Hin.
Qed.

Lemma tmap_from_ext cfg : forall ds m m', tmap_from cfg m ds = Ok m' -> exists ext, m' = m ++ ext.
Proof.
  intros ds m m' H. apply tmap_from_prov in H. destruct H as [ext [-> _]]. exists ext. reflexivity.
Qed.

Lemma translated_bound cfg : forall ds m mf e t,
  tmap_from cfg m ds = Ok mf -> In (e, t) (translated_from cfg m ds) -> In (etag e, t) mf.
Proof.
  induction ds as [|a ds IH]; simpl; intros m mf e t Hm H; [contradiction|].
  destruct (reg_elem cfg m a) as [m1|] eqn:Hreg; [|discriminate].
  rewrite (next_map_ok _ _ _ _ Hreg) in H.
  assert (Hrec : In (e, t) (translated_from cfg m1 ds) -> In (etag e, t) mf) by (apply IH; exact Hm).
  destruct (kind_of cfg m1 a); try (apply Hrec; exact H).
  destruct (map_get (etag a) m1) as [t'|] eqn:Hget; [|apply Hrec; exact H].
  destruct H as [Heq | H]; [|apply Hrec; exact H].
  injection Heq as <- <-.
  apply map_get_in in Hget. destruct Hget as [t'' [Ht Hin]]. apply tag_eqb_eq in Ht. subst t''.
  apply tmap_from_ext in Hm. destruct Hm as [ext ->]. apply in_or_app. left. exact Hin.
Qed.

Lemma translated_names_nodup cfg ds mf :
  NoDup (map etag ds) -> tmap_of cfg ds = Ok mf -> NoDup (map (fun p => t_name (snd p)) mf) ->
  NoDup (map (fun p => t_name (snd p)) (translated_from cfg [] ds)).
Proof.
  intros Htags Hm Hnames.
  apply NoDup_map_of_inj_on.
  - apply (NoDup_of_map (fun p => etag (fst p))). apply translated_tags_nodup. exact Htags.
  - intros [e1 t1] [e2 t2] H1 H2 Hn. simpl in Hn.
    pose proof (translated_bound cfg ds [] mf e1 t1 Hm H1) as B1.
    pose proof (translated_bound cfg ds [] mf e2 t2 Hm H2) as B2.
    assert (Heq : (etag e1, t1) = (etag e2, t2)).
    { apply (NoDup_map_In_inj (fun p : tag * translator => t_name (snd p)) mf); assumption. }
    injection Heq as Ht ->.
    assert (e1 = e2).
    { apply translated_in in H1. apply translated_in in H2. destruct H1 as [H1 _], H2 as [H2 _].
      apply (NoDup_map_In_inj etag ds); assumption. }
    subst. reflexivity.
Qed.
